(* SerdeFacts.v — facts about Model/Serde17.v: the hand-written serde impls of rbx_types at the level of the serde data
   model.  For each of the eight types and both modes: the tokens of `Serialize`, followed by anything, are read back by
   `Deserialize` as the value, leaving what followed (`*_roundtrip`, `serde17_roundtrip`); no token list makes a
   `Deserialize` panic or run out of fuel (`de_value17_total`, `de_value17_no_panic`); the cross-mode facts (`cross_*`,
   `flags_human_set_eq` and its corollaries for permuted / repeated names); why each range hypothesis is there
   (`*_refuted`); and the samples for the harness (`serde17_samples_roundtrip`). *)
From Coq Require Import List NArith ZArith Bool Lia Permutation.
From RbxVerif Require Import Serde17 BinValues XmlValues BaseFacts BytesFacts HexFacts BitSetsFacts XmlBase64.
Import ListNotations.
Open Scope N_scope.

(* ------------------------------------------------------------------------------ strings *)
Lemma ascii_utf8 s : Forall (fun b => b < 128) s -> utf8_valid s = true.
Proof.
  induction 1 as [|x r Hx _ IH]; [reflexivity|].
  cbn [utf8_valid]. apply N.ltb_lt in Hx. now rewrite Hx.
Qed.

Lemma b64_char_ascii d : b64_char d < 128.
Proof.
  unfold b64_char.
  destruct (d <? 26) eqn:E1; [apply N.ltb_lt in E1; lia|].
  destruct (d <? 52) eqn:E2; [apply N.ltb_lt in E2; lia|].
  destruct (d <? 62) eqn:E3; [apply N.ltb_lt in E3; lia|].
  destruct (d =? 62); lia.
Qed.

Lemma b64_encode_ascii b : Forall (fun x => x < 128) (b64_encode b).
Proof.
  induction b as [| x | x y | x y z r IH] using list_ind3; cbn [b64_encode].
  - constructor.
  - repeat constructor; try apply b64_char_ascii; lia.
  - repeat constructor; try apply b64_char_ascii; lia.
  - repeat (constructor; [apply b64_char_ascii|]). exact IH.
Qed.

Lemma b64_encode_utf8 b : utf8_valid (b64_encode b) = true.
Proof. apply ascii_utf8, b64_encode_ascii. Qed.

Lemma cons_app_snoc {A} (x : A) l c rest : (x :: l ++ [c]) ++ rest = x :: l ++ c :: rest.
Proof. cbn [app]. now rewrite <- app_assoc. Qed.

(* ------------------------------------------------------------------------------ Axes, Faces *)
(* the element loop of the human-readable form, on string tokens, is BitSets.flags_of_names *)
Lemma flag_elems_names t e cl rest names : forall acc,
  closes e cl = true -> Forall (fun s => utf8_valid s = true) names ->
  flag_elems t e acc (List.map TStr names ++ cl :: rest) =
  match flags_of_names t acc names with
  | Ok b => Ok (b, rest) | Panic => Panic | Err c => Err c | OutOfFuel => OutOfFuel
  end.
Proof.
  induction names as [|s r IH]; intros acc Hcl Hu.
  - cbn [List.map app flag_elems flags_of_names]. now rewrite Hcl.
  - inversion Hu as [|? ? Hs Hr]; subst.
    cbn [List.map app flag_elems flags_of_names].
    replace (closes e (TStr s)) with false by (now destruct e).
    cbn [string_of_tok]. rewrite Hs. cbn [rbind].
    destruct (flag_of_name t s) as [f|]; [|reflexivity]. now apply IH.
Qed.

Lemma flags_names_in t bits s : In s (flags_names t bits) -> In s (List.map snd t).
Proof.
  unfold flags_names. intros H. apply in_map_iff in H. destruct H as (e & <- & He).
  apply filter_In in He. apply in_map. tauto.
Qed.

Lemma flags_names_utf8 t bits : forallb utf8_valid (List.map snd t) = true ->
  Forall (fun s => utf8_valid s = true) (flags_names t bits).
Proof.
  intros H. apply Forall_forall. intros s Hs. rewrite forallb_forall in H. apply H. now apply flags_names_in with bits.
Qed.

Lemma flags_human_roundtrip t bits rest : forallb utf8_valid (List.map snd t) = true ->
  flags_of_names t 0 (flags_names t bits) = Ok bits ->
  de_flags t Human (ser_flags t Human bits ++ rest) = Ok (bits, rest).
Proof.
  intros Hu Hn. cbn [ser_flags]. rewrite cons_app_snoc. cbn [de_flags].
  rewrite flag_elems_names; [now rewrite Hn|reflexivity|now apply flags_names_utf8].
Qed.

Lemma flags_compact_roundtrip t bits rest : bits <= 255 -> flags_of_byte t (flags_to_byte bits) = Ok bits ->
  de_flags t Compact (ser_flags t Compact bits ++ rest) = Ok (bits, rest).
Proof.
  intros Hb Hf. cbn [ser_flags app de_flags uint_of_tok]. unfold flags_to_byte in *.
  apply N.leb_le in Hb. rewrite Hb. cbn [rbind]. now rewrite Hf.
Qed.

Theorem faces_serde_roundtrip : forall m bits rest, bits < 64 ->
  de_Faces m (ser_Faces m bits ++ rest) = Ok (bits, rest).
Proof.
  intros m bits rest Hb. destruct (faces_roundtrip bits Hb) as (_ & Hn & Hf). destruct m.
  - now apply flags_human_roundtrip.
  - apply flags_compact_roundtrip; [lia|exact Hf].
Qed.

Theorem axes_serde_roundtrip : forall m bits rest, bits < 8 ->
  de_Axes m (ser_Axes m bits ++ rest) = Ok (bits, rest).
Proof.
  intros m bits rest Hb. destruct (axes_roundtrip bits Hb) as (_ & Hn & Hf). destruct m.
  - now apply flags_human_roundtrip.
  - apply flags_compact_roundtrip; [lia|exact Hf].
Qed.

(* the length announced to serialize_seq is the number of elements that follow *)
Lemma faces_len_ok : forallb (fun b => count_ones8 b =? N.of_nat (length (flags_names FACES b))) (nrange 64) = true.
Proof. vm_compute. reflexivity. Qed.
Lemma axes_len_ok : forallb (fun b => count_ones8 b =? N.of_nat (length (flags_names AXES b))) (nrange 8) = true.
Proof. vm_compute. reflexivity. Qed.
Theorem faces_seq_len : forall b, b < 64 -> count_ones8 b = N.of_nat (length (flags_names FACES b)).
Proof.
  intros b Hb. apply N.eqb_eq. apply (proj1 (forallb_forall _ _) faces_len_ok). apply in_nrange. lia.
Qed.
Theorem axes_seq_len : forall b, b < 8 -> count_ones8 b = N.of_nat (length (flags_names AXES b)).
Proof.
  intros b Hb. apply N.eqb_eq. apply (proj1 (forallb_forall _ _) axes_len_ok). apply in_nrange. lia.
Qed.

(* ------------------------------------------------------------------------------ BinaryString, SharedString *)
Lemma vec_u8_elems_bytes e cl rest b : closes e cl = true -> bytes_ok b = true ->
  vec_u8_elems e (List.map TU8 b ++ cl :: rest) = Ok (b, rest).
Proof.
  intros Hcl. induction b as [|x r IH]; intros Hb.
  - cbn [List.map app vec_u8_elems]. now rewrite Hcl.
  - rewrite bytes_ok_cons in Hb. apply andb_prop in Hb. destruct Hb as [Hx Hr].
    cbn [List.map app vec_u8_elems]. replace (closes e (TU8 x)) with false by (now destruct e).
    cbn [uint_of_tok]. apply N.ltb_lt in Hx. replace (x <=? 255) with true by (symmetry; apply N.leb_le; lia).
    cbn [rbind]. rewrite (IH Hr). reflexivity.
Qed.

Theorem bytes17_roundtrip : forall m b rest, bytes_ok b = true ->
  de_bytes17 m (ser_bytes17 m b ++ rest) = Ok (b, rest).
Proof.
  intros m b rest Hb. destruct m.
  - cbn [ser_bytes17 app de_bytes17 string_of_tok]. rewrite b64_encode_utf8. cbn [rbind].
    rewrite b64_roundtrip; [reflexivity|].
    apply Forall_forall. now apply bytes_ok_forall.
  - cbn [ser_bytes17]. rewrite cons_app_snoc. cbn [de_bytes17]. now apply vec_u8_elems_bytes.
Qed.
Theorem binary_string_serde_roundtrip : forall m b rest, bytes_ok b = true ->
  de_BinaryString m (ser_BinaryString m b ++ rest) = Ok (b, rest).
Proof. exact bytes17_roundtrip. Qed.
Theorem shared_string_serde_roundtrip : forall m b rest, bytes_ok b = true ->
  de_SharedString m (ser_SharedString m b ++ rest) = Ok (b, rest).
Proof. exact bytes17_roundtrip. Qed.

(* ------------------------------------------------------------------------------ BrickColor *)
Lemma brick_numbers_u16 : forallb (fun n => n <=? 65535) brick_numbers = true.
Proof. vm_compute. reflexivity. Qed.
Lemma brick_valid_u16 n : brick_valid n = true -> n <= 65535.
Proof.
  unfold brick_valid. intros H. apply mem_In in H. apply N.leb_le.
  now apply (proj1 (forallb_forall _ _) brick_numbers_u16).
Qed.
Theorem brick_color_serde_roundtrip : forall m n rest, brick_valid n = true ->
  de_BrickColor m (ser_BrickColor m n ++ rest) = Ok (n, rest).
Proof.
  intros m n rest Hn. cbn [ser_BrickColor app de_BrickColor uint_of_tok].
  pose proof (brick_valid_u16 n Hn) as Hle. apply N.leb_le in Hle. rewrite Hle. cbn [rbind]. now rewrite Hn.
Qed.

(* ------------------------------------------------------------------------------ Ref *)
Lemma ref_display_utf8 n : utf8_valid (ref_display n) = true.
Proof. apply ascii_utf8. apply fmt_hex_ascii. Qed.

Theorem ref_serde_roundtrip : forall m n rest, n < 2 ^ 128 ->
  de_Ref m (ser_Ref m n ++ rest) = Ok (n, rest).
Proof.
  intros m n rest Hn. destruct m; cbn [ser_Ref app de_Ref]; [|reflexivity].
  now rewrite ref_display_utf8, (ref_text_roundtrip n Hn).
Qed.
(* the compact form needs no range at all *)
Theorem ref_serde_roundtrip_compact : forall n rest, de_Ref Compact (ser_Ref Compact n ++ rest) = Ok (n, rest).
Proof. reflexivity. Qed.

(* ------------------------------------------------------------------------------ UniqueId *)
Lemma uid_bytes_slices (a b c : bytes) : length a = 8%nat -> length b = 4%nat -> length c = 4%nat ->
  slice (a ++ b ++ c) 0 8 = a /\ slice (a ++ b ++ c) 8 12 = b /\ slice (a ++ b ++ c) 12 16 = c.
Proof.
  intros Ha Hb Hc. unfold slice.
  change (8 - 0)%nat with 8%nat. change (12 - 8)%nat with 4%nat. change (16 - 12)%nat with 4%nat.
  repeat split.
  - change (skipn 0 (a ++ b ++ c)) with (a ++ b ++ c). now apply firstn_exact.
  - rewrite (skipn_exact a (b ++ c) 8 Ha). now apply firstn_exact.
  - rewrite app_assoc. rewrite (skipn_exact (a ++ b) c 12) by (rewrite app_length; lia).
    rewrite <- Hc. apply firstn_all.
Qed.

Theorem unique_id_serde_roundtrip : forall m index time random rest,
  index < 2 ^ 32 -> time < 2 ^ 32 -> (- 2 ^ 63 <= random < 2 ^ 63)%Z ->
  de_UniqueId m (ser_UniqueId m index time random ++ rest) = Ok (index, time, random, rest).
Proof.
  intros m index time random rest Hi Ht Hr. destruct m; cbn [ser_UniqueId app de_UniqueId].
  - destruct (uid_display_parts index time random Hi Ht Hr) as (_ & _ & _ & Hascii).
    rewrite (ascii_utf8 _ Hascii), (uid_text_roundtrip index time random Hi Ht Hr). reflexivity.
  - destruct (uid_bytes_slices (be_bytes 8 (wrap_u 64 random)) (be_bytes 4 time) (be_bytes 4 index))
      as (S1 & S2 & S3); try apply be_bytes_length.
    rewrite !app_length, !be_bytes_length. cbn [Nat.add Nat.eqb].
    rewrite S1, S2, S3.
    rewrite be8_roundtrip by apply BytesFacts.wrap_u64_bound.
    rewrite !be4_roundtrip by (change 4294967296 with (2 ^ 32); assumption).
    rewrite wrap_roundtrip64; [reflexivity|]. apply in_i64_iff. lia.
Qed.

(* ------------------------------------------------------------------------------ PhysicalProperties *)
(* every bit pattern of every field, NaNs included: the f32 tokens carry the bits *)
Theorem physical_properties_serde_roundtrip : forall m v rest,
  de_PhysicalProperties m (ser_PhysicalProperties m v ++ rest) = Ok (v, rest).
Proof.
  intros m [[d f e fw ew]|] rest; destruct m; vm_compute; reflexivity.
Qed.

(* ------------------------------------------------------------------------------ all eight *)
Theorem serde17_roundtrip : forall m v rest, sv17_ok v = true ->
  de_value17 m (sv17_type v) (ser_value17 m v ++ rest) = Ok (v, rest).
Proof.
  intros m v rest Hok. destruct v as [b|b|b|n|p|r|b|i t z]; cbn [sv17_type ser_value17 de_value17 sv17_ok] in *.
  - apply N.ltb_lt in Hok. now rewrite axes_serde_roundtrip.
  - apply N.ltb_lt in Hok. now rewrite faces_serde_roundtrip.
  - now rewrite binary_string_serde_roundtrip.
  - now rewrite brick_color_serde_roundtrip.
  - now rewrite physical_properties_serde_roundtrip.
  - apply N.ltb_lt in Hok. now rewrite ref_serde_roundtrip.
  - now rewrite shared_string_serde_roundtrip.
  - apply andb_prop in Hok. destruct Hok as [Hok Hz]. apply andb_prop in Hok. destruct Hok as [Hi Ht].
    apply N.ltb_lt in Hi, Ht. apply in_i64_iff in Hz.
    rewrite unique_id_serde_roundtrip; [reflexivity|assumption|assumption|lia].
Qed.

(* with nothing after the tokens, as the harness replays them *)
Corollary serde17_roundtrip_exact : forall m v, sv17_ok v = true ->
  de_value17 m (sv17_type v) (ser_value17 m v) = Ok (v, []).
Proof. intros m v Hok. rewrite <- (app_nil_r (ser_value17 m v)). now apply serde17_roundtrip. Qed.

(* the runner's entry points are the same functions *)
Theorem run17_roundtrip : forall m v rest, sv17_ok v = true ->
  run_de17 m (st17_tag (sv17_type v)) (run_ser17 m v ++ rest) = Ok (v, rest).
Proof.
  intros m v rest Hok. unfold run_de17, run_ser17.
  replace (st17_of_tag (st17_tag (sv17_type v))) with (Some (sv17_type v)) by (now destruct v).
  now apply serde17_roundtrip.
Qed.

(* not vacuous: a Custom PhysicalProperties with a NaN, a negative UniqueId, a full Faces set *)
Example serde17_roundtrip_ex1 :
  let v := SPhysicalProperties (Some (mkPhys 1065353216 2143289345 0 2147483648 4286578688)) in
  sv17_ok v = true /\
  ser_value17 Compact v =
    [TNewtypeVariant S_TAGGED 1 S_CUSTOM; TStruct S_CUSTOMPP 5;
     TField S_DENSITY; TF32 1065353216; TField S_FRICTION; TF32 2143289345; TField S_ELASTICITY; TF32 0;
     TField S_FRICTION_WEIGHT; TF32 2147483648; TField S_ELASTICITY_WEIGHT; TF32 4286578688; TStructEnd] /\
  de_value17 Compact TyPhysicalProperties (ser_value17 Compact v ++ [TUnit]) = Ok (v, [TUnit]).
Proof. vm_compute. repeat split; reflexivity. Qed.
Example serde17_roundtrip_ex2 :
  let v := SUniqueId 4294967295 7 (-1) in
  sv17_ok v = true /\
  ser_value17 Compact v = [TBytes [255; 255; 255; 255; 255; 255; 255; 255; 0; 0; 0; 7; 255; 255; 255; 255]] /\
  de_value17 Human TyUniqueId (ser_value17 Human v ++ [TSeqEnd]) = Ok (v, [TSeqEnd]).
Proof. vm_compute. repeat split; reflexivity. Qed.
Example serde17_roundtrip_ex3 :
  sv17_ok (SFaces 63) = true /\
  de_value17 Human TyFaces (ser_value17 Human (SFaces 63) ++ [TU8 1]) = Ok (SFaces 63, [TU8 1]).
Proof. vm_compute. repeat split; reflexivity. Qed.

(* ------------------------------------------------------------------------------ no panic, no fuel: every token list *)
Definition settled {A} (r : res A) : Prop := match r with Ok _ | Err _ => True | Panic | OutOfFuel => False end.

Lemma settled_bind {A B} (r : res A) (f : A -> res B) : settled r -> (forall a, settled (f a)) -> settled (rbind r f).
Proof. destruct r; cbn; auto. Qed.
Lemma settled_not_panic {A} (r : res A) : settled r -> r <> Panic.
Proof. destruct r; cbn; congruence || tauto. Qed.
Lemma settled_cases {A} (r : res A) : settled r -> (exists a, r = Ok a) \/ (exists c, r = Err c).
Proof. destruct r; cbn; intros H; try tauto; [left|right]; eauto. Qed.

Lemma uint_of_tok_settled hi t : settled (uint_of_tok hi t).
Proof.
  destruct t; cbn; trivial;
    match goal with |- settled (if ?c then _ else _) => destruct c; exact I end.
Qed.
Lemma string_of_tok_settled t : settled (string_of_tok t).
Proof. destruct t; cbn; trivial; destruct (utf8_valid _); exact I. Qed.
Lemma f32_of_tok_settled t : settled (f32_of_tok t).
Proof. destruct t; cbn; trivial. Qed.

Lemma flag_elems_settled t e ts : forall acc, settled (flag_elems t e acc ts).
Proof.
  induction ts as [|tk r IH]; intros acc; cbn [flag_elems]; [exact I|].
  destruct (closes e tk); [exact I|].
  apply settled_bind; [apply string_of_tok_settled|]. intros s.
  destruct (flag_of_name t s); [apply IH|exact I].
Qed.

Lemma flags_of_byte_settled t b : settled (flags_of_byte t b).
Proof. unfold flags_of_byte. destruct (flags_from_bits t b); exact I. Qed.

Lemma de_flags_settled t m ts : settled (de_flags t m ts).
Proof.
  destruct m; cbn [de_flags].
  - destruct ts as [|tk r]; [exact I|]. destruct tk; try exact I; apply flag_elems_settled.
  - destruct ts as [|tk r]; [exact I|].
    apply settled_bind; [apply uint_of_tok_settled|]. intros b.
    apply settled_bind; [apply flags_of_byte_settled|]. intros x. exact I.
Qed.

Lemma vec_u8_elems_settled e ts : settled (vec_u8_elems e ts).
Proof.
  induction ts as [|tk r IH]; cbn [vec_u8_elems]; [exact I|].
  destruct (closes e tk); [exact I|].
  apply settled_bind; [apply uint_of_tok_settled|]. intros b.
  apply settled_bind; [exact IH|]. intros [bs r']. exact I.
Qed.

Lemma de_bytes17_settled m ts : settled (de_bytes17 m ts).
Proof.
  destruct m; cbn [de_bytes17].
  - destruct ts as [|tk r]; [exact I|].
    apply settled_bind; [apply string_of_tok_settled|]. intros s. destruct (b64_decode s); exact I.
  - destruct ts as [|tk r]; [exact I|]. destruct tk; try exact I; apply vec_u8_elems_settled.
Qed.

Lemma de_BrickColor_settled m ts : settled (de_BrickColor m ts).
Proof.
  unfold de_BrickColor. destruct ts as [|tk r]; [exact I|].
  apply settled_bind; [apply uint_of_tok_settled|]. intros n. destruct (brick_valid n); exact I.
Qed.

Lemma parse_digits_settled hi ovf s : forall acc, settled (parse_digits hi ovf acc s).
Proof.
  induction s as [|c r IH]; intros acc; cbn; [exact I|].
  destruct (digit_val c) as [d|]; [|exact I]. destruct (hi <? acc * 16 + d); [exact I|apply IH].
Qed.
Lemma parse_hex_u_settled bits s : settled (parse_hex_u bits s).
Proof.
  unfold parse_hex_u, parse_hex_gen. destruct s as [|c r]; [exact I|].
  destruct (((c =? 43) || (c =? 45)) && is_nil r); [exact I|].
  destruct (c =? 43); [|rewrite andb_false_r];
    (apply settled_bind; [apply settled_bind; [apply parse_digits_settled|intros ?; exact I]|intros [? ?]; exact I]).
Qed.

Lemma de_Ref_settled m ts : settled (de_Ref m ts).
Proof.
  unfold de_Ref. destruct ts as [|tk r]; [exact I|]. destruct tk; try exact I.
  destruct (utf8_valid s); [|exact I].
  pose proof (parse_hex_u_settled 128 s) as H. unfold ref_from_str.
  destruct (parse_hex_u 128 s); cbn in H |- *; tauto.
Qed.

Lemma uid_from_str_settled s : settled (uid_from_str s).
Proof.
  pose proof (uid_from_str_no_panic s) as Hp.
  destruct (uid_from_str s) eqn:E; cbn; try exact I; [congruence|].
  exfalso. clear Hp. unfold uid_from_str in E.
  destruct (Nat.eqb (length s) 32 && is_ascii s); [|discriminate].
  destruct (negb (is_char_boundary s 16)); [discriminate|].
  pose proof (parse_hex_u_settled 64 (slice s 0 16)) as H1.
  destruct (parse_hex_u 64 (slice s 0 16)); cbn [settled] in H1; cbn [rbind] in E; try tauto; try discriminate.
  destruct (negb (is_char_boundary s 24)); [discriminate|].
  pose proof (parse_hex_u_settled 32 (slice s 16 24)) as H2.
  destruct (parse_hex_u 32 (slice s 16 24)); cbn [settled] in H2; cbn [rbind] in E; try tauto; try discriminate.
  pose proof (parse_hex_u_settled 32 (slice s 24 32)) as H3.
  destruct (parse_hex_u 32 (slice s 24 32)); cbn [settled] in H3; cbn [rbind] in E; try tauto; discriminate.
Qed.

Lemma de_UniqueId_settled m ts : settled (de_UniqueId m ts).
Proof.
  destruct m; cbn [de_UniqueId]; (destruct ts as [|tk r]; [exact I|]); destruct tk; try exact I.
  - destruct (utf8_valid s); [|exact I].
    apply settled_bind; [apply uid_from_str_settled|]. intros [[i t] z]. exact I.
  - destruct (Nat.eqb (length b) 16); exact I.
Qed.

(* PhysicalProperties: the struct reader, whatever its state *)
Lemma custom_key_settled raw t : settled (custom_key raw t).
Proof. destruct raw, t; cbn; trivial. destruct (utf8_valid s); exact I. Qed.
Lemma acc_finish_settled a : settled (acc_finish a).
Proof. destruct a as [[?|] [?|] [?|] [?|] [?|]]; exact I. Qed.

Lemma custom_map_settled raw e ts : forall acc md, settled (custom_map raw e acc md ts).
Proof.
  induction ts as [|t r IH]; intros acc md; cbn [custom_map]; [exact I|].
  destruct md as [|f|[|fr st]].
  - destruct (closes e t).
    + apply settled_bind; [apply acc_finish_settled|]. intros p. exact I.
    + apply settled_bind; [apply custom_key_settled|]. intros [f|].
      * destruct (acc_get acc f); [exact I|apply IH].
      * apply IH.
  - apply settled_bind; [apply f32_of_tok_settled|]. intros x. apply IH.
  - exact I.
  - destruct (ign_step fr t st) as [[|f2 st2]|]; [apply IH|apply IH|exact I].
Qed.

Lemma custom_seq_settled e ts : settled (custom_seq e ts).
Proof.
  unfold custom_seq. destruct ts as [|t1 [|t2 [|t3 [|t4 [|t5 [|te r]]]]]]; try exact I.
  destruct (closes e t1 || closes e t2 || closes e t3 || closes e t4 || closes e t5); [exact I|].
  repeat (apply settled_bind; [apply f32_of_tok_settled|intros ?]).
  destruct (closes e te); exact I.
Qed.

Lemma de_custom_settled ts : settled (de_custom ts).
Proof.
  unfold de_custom. destruct ts as [|t r]; [exact I|].
  destruct t; try exact I; try apply custom_seq_settled; apply custom_map_settled.
Qed.

Lemma de_PhysicalProperties_settled m ts : settled (de_PhysicalProperties m ts).
Proof.
  destruct m; cbn [de_PhysicalProperties]; (destruct ts as [|t r]; [exact I|]).
  - destruct t; try exact I.
    + destruct (utf8_valid s); [|exact I]. destruct (bytes_eqb s S_DEFAULT); exact I.
    + apply settled_bind; [apply custom_map_settled|]. intros [p r']. exact I.
    + apply settled_bind; [apply custom_map_settled|]. intros [p r']. exact I.
  - destruct (variant_name t) as [name|]; [|exact I].
    destruct (bytes_eqb name S_DEFAULT); [destruct t; exact I|].
    destruct (bytes_eqb name S_CUSTOM); [|exact I].
    destruct t; try exact I.
    apply settled_bind; [apply de_custom_settled|]. intros [p r']. exact I.
Qed.

(* IgnoredAny alone *)
Lemma ign_run_settled ts : forall st, settled (ign_run st ts).
Proof.
  induction ts as [|t r IH]; intros [|f st]; cbn [ign_run]; try exact I.
  destruct (ign_step f t st); [apply IH|exact I].
Qed.

Theorem de_value17_settled : forall m ty ts, settled (de_value17 m ty ts).
Proof.
  intros m ty ts. destruct ty; cbn [de_value17].
  - apply settled_bind; [apply de_flags_settled|]. intros [? ?]. exact I.
  - apply settled_bind; [apply de_flags_settled|]. intros [? ?]. exact I.
  - apply settled_bind; [apply de_bytes17_settled|]. intros [? ?]. exact I.
  - apply settled_bind; [apply de_BrickColor_settled|]. intros [? ?]. exact I.
  - apply settled_bind; [apply de_PhysicalProperties_settled|]. intros [? ?]. exact I.
  - apply settled_bind; [apply de_Ref_settled|]. intros [? ?]. exact I.
  - apply settled_bind; [apply de_bytes17_settled|]. intros [? ?]. exact I.
  - apply settled_bind; [apply de_UniqueId_settled|]. intros [[[? ?] ?] ?]. exact I.
Qed.

(* whatever the tokens, Deserialize returns: a value and the unread tokens, or a D::Error *)
Theorem de_value17_total : forall m ty ts,
  (exists v rest, de_value17 m ty ts = Ok (v, rest)) \/ (exists c, de_value17 m ty ts = Err c).
Proof.
  intros m ty ts. destruct (settled_cases _ (de_value17_settled m ty ts)) as [[[v r] H]|[c H]]; [left|right]; eauto.
Qed.
Theorem de_value17_no_panic : forall m ty ts, de_value17 m ty ts <> Panic.
Proof. intros m ty ts. apply settled_not_panic, de_value17_settled. Qed.
Theorem de_value17_no_fuel : forall m ty ts, de_value17 m ty ts <> OutOfFuel.
Proof. intros m ty ts. pose proof (de_value17_settled m ty ts) as H. destruct (de_value17 m ty ts); cbn in H; congruence || tauto. Qed.
Theorem run_de17_no_panic : forall m tag ts, run_de17 m tag ts <> Panic.
Proof. intros m tag ts. unfold run_de17. destruct (st17_of_tag tag); [apply de_value17_no_panic|discriminate]. Qed.

(* per type, as the job states it *)
Theorem de_Axes_no_panic : forall m ts, de_Axes m ts <> Panic.
Proof. intros. apply settled_not_panic, de_flags_settled. Qed.
Theorem de_Faces_no_panic : forall m ts, de_Faces m ts <> Panic.
Proof. intros. apply settled_not_panic, de_flags_settled. Qed.
Theorem de_BinaryString_no_panic : forall m ts, de_BinaryString m ts <> Panic.
Proof. intros. apply settled_not_panic, de_bytes17_settled. Qed.
Theorem de_SharedString_no_panic : forall m ts, de_SharedString m ts <> Panic.
Proof. intros. apply settled_not_panic, de_bytes17_settled. Qed.
Theorem de_BrickColor_no_panic : forall m ts, de_BrickColor m ts <> Panic.
Proof. intros. apply settled_not_panic, de_BrickColor_settled. Qed.
Theorem de_PhysicalProperties_no_panic : forall m ts, de_PhysicalProperties m ts <> Panic.
Proof. intros. apply settled_not_panic, de_PhysicalProperties_settled. Qed.
Theorem de_Ref_no_panic : forall m ts, de_Ref m ts <> Panic.
Proof. intros. apply settled_not_panic, de_Ref_settled. Qed.
Theorem de_UniqueId_no_panic : forall m ts, de_UniqueId m ts <> Panic.
Proof. intros. apply settled_not_panic, de_UniqueId_settled. Qed.

(* not vacuous: hostile token lists get an error, not a panic *)
Example de_value17_total_ex :
  de_value17 Compact TyUniqueId [TBytes [1; 2; 3]] = Err ERR_UID_BYTES /\
  de_value17 Human TyUniqueId [TStr (List.repeat 195 16 ++ List.repeat 169 16)] = Err ERR_TOK_UTF8 /\
  de_value17 Human TyPhysicalProperties [TStruct S_CUSTOMPP 5; TField S_DENSITY; TF32 0; TField S_DENSITY; TF32 0] = Err ERR_FIELD_DUP /\
  de_value17 Human TyFaces [TSeq None; TStr (BitSets.str_bytes "Top")] = Err ERR_TOK_EOF.
Proof. vm_compute. repeat split; reflexivity. Qed.

(* ------------------------------------------------------------------------------ Faces / Axes, human readable: a SET of names *)
Definition flag_known (t : flag_table) (s : bytes) : bool :=
  match flag_of_name t s with Some _ => true | None => false end.
Definition flag_bits (t : flag_table) (s : bytes) : N :=
  match flag_of_name t s with Some f => f | None => 0 end.

Lemma flags_of_names_fold t names : forall acc,
  flags_of_names t acc names =
  if forallb (flag_known t) names then Ok (fold_left (fun a s => N.lor a (flag_bits t s)) names acc)
  else Err ERR_FLAG_NAME.
Proof.
  induction names as [|s r IH]; intros acc; [reflexivity|].
  cbn [flags_of_names forallb fold_left]. unfold flag_known at 1, flag_bits at 2.
  destruct (flag_of_name t s) as [f|]; [|reflexivity]. cbn [andb]. apply IH.
Qed.

Lemma fold_lor_testbit t names i : forall acc,
  N.testbit (fold_left (fun a s => N.lor a (flag_bits t s)) names acc) i =
  N.testbit acc i || existsb (fun s => N.testbit (flag_bits t s) i) names.
Proof.
  induction names as [|s r IH]; intros acc; cbn [fold_left existsb]; [now rewrite orb_false_r|].
  rewrite IH, N.lor_spec. now rewrite orb_assoc.
Qed.

Lemma forallb_same_set {A} (p : A -> bool) l1 l2 : (forall x, In x l1 <-> In x l2) -> forallb p l1 = forallb p l2.
Proof.
  intros H. apply eq_true_iff_eq. rewrite !forallb_forall. split; intros G x Hx; apply G, H, Hx.
Qed.
Lemma existsb_same_set {A} (p : A -> bool) l1 l2 : (forall x, In x l1 <-> In x l2) -> existsb p l1 = existsb p l2.
Proof.
  intros H. apply eq_true_iff_eq. rewrite !existsb_exists.
  split; intros (x & Hx & Hp); exists x; (split; [apply H, Hx|exact Hp]).
Qed.

(* the reader of names depends on the SET of names only: order and repetitions do not matter *)
Theorem flags_of_names_same_set : forall t acc l1 l2, (forall s, In s l1 <-> In s l2) ->
  flags_of_names t acc l1 = flags_of_names t acc l2.
Proof.
  intros t acc l1 l2 H. rewrite !flags_of_names_fold, (forallb_same_set _ l1 l2 H).
  destruct (forallb (flag_known t) l2); [|reflexivity]. f_equal.
  apply N.bits_inj. intros i. rewrite !fold_lor_testbit. f_equal. now apply existsb_same_set.
Qed.

Theorem flags_human_set_eq : forall t n1 n2 l1 l2 rest,
  Forall (fun s => utf8_valid s = true) l1 -> Forall (fun s => utf8_valid s = true) l2 ->
  (forall s, In s l1 <-> In s l2) ->
  de_flags t Human (TSeq n1 :: List.map TStr l1 ++ TSeqEnd :: rest) =
  de_flags t Human (TSeq n2 :: List.map TStr l2 ++ TSeqEnd :: rest).
Proof.
  intros t n1 n2 l1 l2 rest H1 H2 H. cbn [de_flags].
  rewrite !flag_elems_names by (reflexivity || assumption).
  now rewrite (flags_of_names_same_set t 0 l1 l2 H).
Qed.

Corollary flags_human_permutation : forall t n1 n2 l1 l2 rest,
  Forall (fun s => utf8_valid s = true) l1 -> Permutation l1 l2 ->
  de_flags t Human (TSeq n1 :: List.map TStr l1 ++ TSeqEnd :: rest) =
  de_flags t Human (TSeq n2 :: List.map TStr l2 ++ TSeqEnd :: rest).
Proof.
  intros t n1 n2 l1 l2 rest H1 HP. apply flags_human_set_eq; [exact H1| |].
  - apply Forall_forall. intros s Hs. rewrite Forall_forall in H1. apply H1. now apply Permutation_in with l2; [apply Permutation_sym|].
  - intros s. split; apply Permutation_in; [exact HP|now apply Permutation_sym].
Qed.

Corollary flags_human_duplicates : forall t n1 n2 l rest,
  Forall (fun s => utf8_valid s = true) l ->
  de_flags t Human (TSeq n1 :: List.map TStr (l ++ l) ++ TSeqEnd :: rest) =
  de_flags t Human (TSeq n2 :: List.map TStr l ++ TSeqEnd :: rest).
Proof.
  intros t n1 n2 l rest H1. apply flags_human_set_eq; [now apply Forall_app|exact H1|].
  intros s. rewrite in_app_iff. tauto.
Qed.

(* so: any list of names whose set is that of the Faces value reads back as the value *)
Theorem faces_human_any_list : forall bits n l rest, bits < 64 ->
  (forall s, In s l <-> In s (flags_names FACES bits)) ->
  de_Faces Human (TSeq n :: List.map TStr l ++ TSeqEnd :: rest) = Ok (bits, rest).
Proof.
  intros bits n l rest Hb H.
  pose proof (flags_names_utf8 FACES bits eq_refl) as Hu.
  assert (Hl : Forall (fun s => utf8_valid s = true) l).
  { apply Forall_forall. intros s Hs. rewrite Forall_forall in Hu. apply Hu, H, Hs. }
  unfold de_Faces. rewrite (flags_human_set_eq FACES n (Some (count_ones8 bits)) l (flags_names FACES bits) rest Hl Hu H).
  pose proof (faces_serde_roundtrip Human bits rest Hb) as R. unfold de_Faces, ser_Faces in R.
  cbn [ser_flags] in R. rewrite cons_app_snoc in R. exact R.
Qed.
Theorem axes_human_any_list : forall bits n l rest, bits < 8 ->
  (forall s, In s l <-> In s (flags_names AXES bits)) ->
  de_Axes Human (TSeq n :: List.map TStr l ++ TSeqEnd :: rest) = Ok (bits, rest).
Proof.
  intros bits n l rest Hb H.
  pose proof (flags_names_utf8 AXES bits eq_refl) as Hu.
  assert (Hl : Forall (fun s => utf8_valid s = true) l).
  { apply Forall_forall. intros s Hs. rewrite Forall_forall in Hu. apply Hu, H, Hs. }
  unfold de_Axes. rewrite (flags_human_set_eq AXES n (Some (count_ones8 bits)) l (flags_names AXES bits) rest Hl Hu H).
  pose proof (axes_serde_roundtrip Human bits rest Hb) as R. unfold de_Axes, ser_Axes in R.
  cbn [ser_flags] in R. rewrite cons_app_snoc in R. exact R.
Qed.

Example faces_human_any_list_ex :
  let l := [BitSets.str_bytes "Front"; BitSets.str_bytes "Top"; BitSets.str_bytes "Front"; BitSets.str_bytes "Right"] in
  flags_names FACES 35 = [BitSets.str_bytes "Right"; BitSets.str_bytes "Top"; BitSets.str_bytes "Front"] /\
  de_Faces Human (TSeq None :: List.map TStr l ++ [TSeqEnd]) = Ok (35, []).
Proof. vm_compute. split; reflexivity. Qed.
(* an unknown name, or a string that is not UTF-8, is an error wherever it stands *)
Example faces_human_unknown_ex :
  de_Faces Human [TSeq (Some 2); TStr (BitSets.str_bytes "Top"); TStr (BitSets.str_bytes "top"); TSeqEnd] = Err ERR_FLAG_NAME.
Proof. vm_compute. reflexivity. Qed.

(* ------------------------------------------------------------------------------ across the two modes *)
(* Ref: the visitor takes both forms, whatever `is_human_readable` says *)
Theorem cross_ref_any_mode : forall m m' n rest, n < 2 ^ 128 -> de_Ref m (ser_Ref m' n ++ rest) = Ok (n, rest).
Proof.
  intros m m' n rest Hn. destruct m'; cbn [ser_Ref app de_Ref]; [|reflexivity].
  now rewrite ref_display_utf8, (ref_text_roundtrip n Hn).
Qed.
(* BrickColor does not look at the mode *)
Theorem cross_brick_color_mode_blind : forall m m' n ts,
  ser_BrickColor m n = ser_BrickColor m' n /\ de_BrickColor m ts = de_BrickColor m' ts.
Proof. intros. split; reflexivity. Qed.
(* PhysicalProperties: the bare string "Default" of the human form is also a unit variant for the compact reader ... *)
Theorem cross_phys_default_str_compact : forall rest,
  de_PhysicalProperties Compact (ser_PhysicalProperties Human None ++ rest) = Ok (None, rest).
Proof. intros rest. vm_compute. reflexivity. Qed.
(* ... nothing else crosses: the compact reader wants the variant token in front of the struct, the human reader has
   no visit_enum; bit sets, byte strings and UniqueIds have unrelated forms in the two modes *)
Theorem cross_phys_custom_not_compact : forall p rest,
  de_PhysicalProperties Compact (ser_PhysicalProperties Human (Some p) ++ rest) = Err ERR_TOK_TYPE.
Proof. intros [d f e fw ew] rest. vm_compute. reflexivity. Qed.
Theorem cross_phys_compact_not_human : forall v rest,
  de_PhysicalProperties Human (ser_PhysicalProperties Compact v ++ rest) = Err ERR_TOK_TYPE.
Proof. intros [[d f e fw ew]|] rest; vm_compute; reflexivity. Qed.
Theorem cross_flags_not_interchangeable : forall t bits rest,
  de_flags t Human (ser_flags t Compact bits ++ rest) = Err ERR_TOK_TYPE /\
  de_flags t Compact (ser_flags t Human bits ++ rest) = Err ERR_TOK_TYPE.
Proof. intros. split; reflexivity. Qed.
Theorem cross_bytes_compact_not_human : forall b rest,
  de_bytes17 Human (ser_bytes17 Compact b ++ rest) = Err ERR_TOK_TYPE.
Proof. intros. reflexivity. Qed.
Theorem cross_bytes_human_not_compact : forall b rest,
  de_bytes17 Compact (ser_bytes17 Human b ++ rest) = Err ERR_TOK_TYPE.
Proof. intros. reflexivity. Qed.
Theorem cross_unique_id_not_interchangeable : forall i t z rest,
  de_UniqueId Human (ser_UniqueId Compact i t z ++ rest) = Err ERR_TOK_TYPE /\
  de_UniqueId Compact (ser_UniqueId Human i t z ++ rest) = Err ERR_TOK_TYPE.
Proof. intros. split; reflexivity. Qed.

(* the other presentations a format may choose for the same data: a tuple for a sequence (bincode asks for tuples),
   bytes for a string, a wider integer token (MessagePack picks the narrowest, JSON has u64 / i64 only) *)
Example cross_other_presentations :
  de_Faces Human [TTuple 2; TBytes (BitSets.str_bytes "Top"); TStr (BitSets.str_bytes "Left"); TTupleEnd] = Ok (10, []) /\
  de_Axes Compact [TU64 5] = Ok (5, []) /\ de_Axes Compact [TI64 5] = Ok (5, []) /\
  de_BrickColor Human [TU64 194] = Ok (194, []) /\ de_BrickColor Compact [TU8 21] = Ok (21, []) /\
  de_BinaryString Compact [TTuple 2; TU64 7; TI8 9; TTupleEnd] = Ok ([7; 9], []) /\
  de_BinaryString Human [TBytes (BitSets.str_bytes "aGVsbG8=")] = Ok (BitSets.str_bytes "hello", []) /\
  de_BinaryString Human [TStr (BitSets.str_bytes "aGVsbG8")] = Ok (BitSets.str_bytes "hello", []).
Proof. vm_compute. repeat split; reflexivity. Qed.

(* ------------------------------------------------------------------------------ CustomPhysicalProperties as a map *)
(* What a self-describing format hands to the derived visitor is a MAP: serde_json an object with string keys, in the
   order of the text.  The reader takes the five entries in ANY order, under any of the key forms the field visitor
   knows (a TField of a struct; a string, bytes or the declaration index in a map), and skips entries it does not know
   the way IgnoredAny does. *)
Definition field_name (f : cfield) : bytes :=
  match f with
  | CDensity => S_DENSITY | CFriction => S_FRICTION | CElasticity => S_ELASTICITY
  | CFrictionWeight => S_FRICTION_WEIGHT | CElasticityWeight => S_ELASTICITY_WEIGHT
  end.
Definition field_index (f : cfield) : N :=
  match f with CDensity => 0 | CFriction => 1 | CElasticity => 2 | CFrictionWeight => 3 | CElasticityWeight => 4 end.
Definition phys_get (p : physprops) (f : cfield) : N :=
  match f with
  | CDensity => ph_density p | CFriction => ph_friction p | CElasticity => ph_elasticity p
  | CFrictionWeight => ph_friction_weight p | CElasticityWeight => ph_elasticity_weight p
  end.

Lemma acc_get_set_same a f x : acc_get (acc_set a f x) f = Some x.
Proof. destruct f; reflexivity. Qed.
Lemma acc_get_set_other a f g x : f <> g -> acc_get (acc_set a f x) g = acc_get a g.
Proof. destruct f, g; intros H; try reflexivity; congruence. Qed.
Lemma cfield_eq_dec (f g : cfield) : {f = g} + {f <> g}.
Proof. decide equality. Qed.

Lemma custom_map_entries raw e key vtok vals tail order :
  (forall f, custom_key raw (key f) = Ok (KField f)) -> (forall f, closes e (key f) = false) ->
  (forall f, f32_of_tok (vtok f) = Ok (vals f)) ->
  NoDup order -> forall acc, (forall f, In f order -> acc_get acc f = None) ->
  custom_map raw e acc CKey (flat_map (fun f => [key f; vtok f]) order ++ tail) =
  custom_map raw e (fold_left (fun a f => acc_set a f (vals f)) order acc) CKey tail.
Proof.
  intros Hk Hc Hv. induction order as [|f r IH]; intros Hnd acc Hacc; [reflexivity|].
  inversion Hnd as [|? ? Hnotin Hnd']; subst.
  cbn [flat_map app fold_left custom_map]. rewrite Hc, Hk. cbn [rbind].
  rewrite (Hacc f (or_introl eq_refl)). rewrite Hv. cbn [rbind].
  apply IH; [exact Hnd'|]. intros g Hg.
  rewrite acc_get_set_other; [apply Hacc; now right|]. intros ->. contradiction.
Qed.

Lemma fold_set_get vals order g : forall acc,
  In g order \/ acc_get acc g = Some (vals g) ->
  acc_get (fold_left (fun a f => acc_set a f (vals f)) order acc) g = Some (vals g).
Proof.
  induction order as [|f r IH]; intros acc H; cbn [fold_left].
  - destruct H as [[]|H]; exact H.
  - apply IH. destruct (cfield_eq_dec f g) as [->|Hne].
    + right. apply acc_get_set_same.
    + destruct H as [[->|H]|H]; [congruence|now left|right]. now rewrite acc_get_set_other.
Qed.

Lemma acc_finish_all a p : (forall f, acc_get a f = Some (phys_get p f)) -> acc_finish a = Ok p.
Proof.
  intros H. pose proof (H CDensity) as H0. pose proof (H CFriction) as H1. pose proof (H CElasticity) as H2.
  pose proof (H CFrictionWeight) as H3. pose proof (H CElasticityWeight) as H4.
  destruct a, p. cbn in *. subst. reflexivity.
Qed.

Theorem custom_map_any_order_gen : forall raw e key vtok cl p order rest,
  (forall f, custom_key raw (key f) = Ok (KField f)) -> (forall f, closes e (key f) = false) -> closes e cl = true ->
  (forall f, f32_of_tok (vtok f) = Ok (phys_get p f)) ->
  NoDup order -> (forall f, In f order) ->
  custom_map raw e acc0 CKey (flat_map (fun f => [key f; vtok f]) order ++ cl :: rest) = Ok (p, rest).
Proof.
  intros raw e key vtok cl p order rest Hk Hc Hcl Hv Hnd Hall.
  rewrite (custom_map_entries raw e key vtok (phys_get p)); [|exact Hk|exact Hc|exact Hv|exact Hnd|intros f _; destruct f; reflexivity].
  cbn [custom_map]. rewrite Hcl.
  rewrite (acc_finish_all _ p); [reflexivity|].
  intros f. apply (fold_set_get (phys_get p)). left. apply Hall.
Qed.

Theorem custom_map_any_order : forall raw e key cl p order rest,
  (forall f, custom_key raw (key f) = Ok (KField f)) -> (forall f, closes e (key f) = false) -> closes e cl = true ->
  NoDup order -> (forall f, In f order) ->
  custom_map raw e acc0 CKey (flat_map (fun f => [key f; TF32 (phys_get p f)]) order ++ cl :: rest) = Ok (p, rest).
Proof.
  intros raw e key cl p order rest Hk Hc Hcl Hnd Hall.
  now apply (custom_map_any_order_gen raw e key (fun f => TF32 (phys_get p f))).
Qed.

(* a JSON object: string keys, any order *)
Corollary phys_human_object_any_order : forall p order n rest, NoDup order -> (forall f, In f order) ->
  de_PhysicalProperties Human
    (TMap n :: flat_map (fun f => [TStr (field_name f); TF32 (phys_get p f)]) order ++ TMapEnd :: rest) = Ok (Some p, rest).
Proof.
  intros p order n rest Hnd Hall. cbn [de_PhysicalProperties].
  rewrite (custom_map_any_order true CMapEnd (fun f => TStr (field_name f)) TMapEnd p order rest); try assumption; try reflexivity.
  intros f. destruct f; vm_compute; reflexivity.
Qed.
(* the struct form, fields in any order *)
Corollary phys_human_struct_any_order : forall p order name n rest, NoDup order -> (forall f, In f order) ->
  de_PhysicalProperties Human
    (TStruct name n :: flat_map (fun f => [TField (field_name f); TF32 (phys_get p f)]) order ++ TStructEnd :: rest) = Ok (Some p, rest).
Proof.
  intros p order name n rest Hnd Hall. cbn [de_PhysicalProperties].
  rewrite (custom_map_any_order false CStructEnd (fun f => TField (field_name f)) TStructEnd p order rest); try assumption; try reflexivity.
  intros f. destruct f; vm_compute; reflexivity.
Qed.
(* keys as declaration indices, behind the compact variant token *)
Corollary phys_compact_index_keys : forall p order en idx n rest, NoDup order -> (forall f, In f order) ->
  de_PhysicalProperties Compact
    (TNewtypeVariant en idx S_CUSTOM :: TMap n :: flat_map (fun f => [TU64 (field_index f); TF32 (phys_get p f)]) order ++ TMapEnd :: rest)
  = Ok (Some p, rest).
Proof.
  intros p order en idx n rest Hnd Hall.
  cbn [de_PhysicalProperties variant_name]. change (bytes_eqb S_CUSTOM S_DEFAULT) with false. change (bytes_eqb S_CUSTOM S_CUSTOM) with true.
  cbn [de_custom].
  rewrite (custom_map_any_order true CMapEnd (fun f => TU64 (field_index f)) TMapEnd p order rest); try assumption; try reflexivity.
  intros f. destruct f; reflexivity.
Qed.
(* the tuple form of a format that is not self-describing (bincode, MessagePack arrays): declaration order *)
Theorem phys_compact_tuple : forall p en idx n rest,
  de_PhysicalProperties Compact
    (TNewtypeVariant en idx S_CUSTOM :: TTuple n :: List.map (fun f => TF32 (phys_get p f))
       [CDensity; CFriction; CElasticity; CFrictionWeight; CElasticityWeight] ++ TTupleEnd :: rest) = Ok (Some p, rest).
Proof. intros [d f e fw ew] en idx n rest. vm_compute. reflexivity. Qed.

Example phys_human_object_any_order_ex :
  let order := [CElasticityWeight; CDensity; CFrictionWeight; CElasticity; CFriction] in
  NoDup order /\ (forall f, In f order) /\
  de_PhysicalProperties Human
    (TMap None :: flat_map (fun f => [TStr (field_name f); TF32 (phys_get (mkPhys 1 2 3 4 5) f)]) order ++ [TMapEnd])
  = Ok (Some (mkPhys 1 2 3 4 5), []).
Proof.
  split; [|split].
  - repeat constructor; cbn; intuition discriminate.
  - intros f. destruct f; cbn; tauto.
  - vm_compute. reflexivity.
Qed.

(* the value of an unknown field is passed over exactly as `IgnoredAny::deserialize` would *)
Lemma custom_map_skip raw e acc ts : forall st, st <> [] ->
  custom_map raw e acc (CSkip st) ts = (r <- ign_run st ts ;; custom_map raw e acc CKey r).
Proof.
  induction ts as [|t r IH]; intros [|fr st] Hst; try congruence; cbn [custom_map ign_run rbind]; [reflexivity|].
  destruct (ign_step fr t st) as [[|f2 st2]|]; cbn [rbind]; [|apply IH; discriminate|reflexivity].
  destruct r; reflexivity.
Qed.

Theorem custom_map_unknown_field : forall raw e acc k v tail,
  closes e k = false -> custom_key raw k = Ok KIgnore -> ignored_any (v ++ tail) = Ok tail ->
  custom_map raw e acc CKey (k :: v ++ tail) = custom_map raw e acc CKey tail.
Proof.
  intros raw e acc k v tail Hc Hk Hi. cbn [custom_map]. rewrite Hc, Hk. cbn [rbind].
  rewrite custom_map_skip by discriminate. unfold ignored_any in Hi. now rewrite Hi.
Qed.

Example phys_unknown_fields_ex :
  let junk := [TSeq (Some 2); TSome; TU8 1; TStruct (BitSets.str_bytes "S") 1; TField (BitSets.str_bytes "a"); TMap None; TMapEnd; TStructEnd; TSeqEnd] in
  ignored_any (junk ++ [TUnit]) = Ok [TUnit] /\
  de_PhysicalProperties Human
    ([TStruct S_CUSTOMPP 6; TField S_FRICTION; TF32 2; TField (BitSets.str_bytes "colour")] ++ junk ++
     [TField S_DENSITY; TF32 1; TField S_ELASTICITY; TF32 3; TField S_ELASTICITY_WEIGHT; TF32 5;
      TField S_FRICTION_WEIGHT; TF32 4; TStructEnd]) = Ok (Some (mkPhys 1 2 3 4 5), []).
Proof. vm_compute. split; reflexivity. Qed.

(* numbers of other kinds are converted the way `as f32` does (JSON numbers arrive as f64 / u64 / i64) *)
Example f32_of_tok_ex :
  f32_of_tok (TF64 4607182418800017408) = Ok 1065353216 /\          (* 1.0 *)
  f32_of_tok (TF64 4591870180066957722) = Ok 1036831949 /\          (* 0.1f64 -> 0x3dcccccd *)
  f32_of_tok (TU64 16777217) = Ok 1266679808 /\                     (* 2^24 + 1 -> 2^24 (ties to even) *)
  f32_of_tok (TU64 18446744073709551615) = Ok 1602224128 /\         (* u64::MAX -> 2^64 *)
  f32_of_tok (TI64 (-1)) = Ok 3212836864 /\                         (* -1.0 *)
  f32_of_tok (TF64 5183643170835005440) = Ok 2139095040 /\          (* f32::MAX + half an ulp -> +inf *)
  f32_of_tok (TF64 3936146074321813504) = Ok 1.                     (* 2^-149: the least subnormal *)
Proof. vm_compute. repeat split; reflexivity. Qed.

(* ------------------------------------------------------------------------------ why the range hypotheses are there *)
(* None of these is a value a Rust program can hold (a BrickColor is an enum of the table, the bit sets are built by
   from_bits, the integers have their widths): they show that `sv17_ok` cannot be dropped from serde17_roundtrip, not a
   defect of the impls.  PhysicalProperties has no hypothesis: NaN fields survive as bits (the impl's `PartialEq`
   would say NaN <> NaN; the harness compares bits). *)
Example brick_outside_table_refuted : brick_valid 4 = false /\
  forall m rest, de_BrickColor m (ser_BrickColor m 4 ++ rest) = Err ERR_BRICK.
Proof. split; [reflexivity|]. intros m rest. reflexivity. Qed.
Theorem brick_outside_table_fails : forall m n rest, brick_valid n = false ->
  exists c, de_BrickColor m (ser_BrickColor m n ++ rest) = Err c.
Proof.
  intros m n rest H. cbn [ser_BrickColor app de_BrickColor uint_of_tok].
  destruct (n <=? 65535); cbn [rbind]; [rewrite H|]; eauto.
Qed.
Example faces_range_refuted :
  de_Faces Compact (ser_Faces Compact 64) = Err ERR_FLAG_BITS /\ de_Faces Human (ser_Faces Human 64) = Ok (0, []).
Proof. vm_compute. split; reflexivity. Qed.
Example axes_range_refuted :
  de_Axes Compact (ser_Axes Compact 8) = Err ERR_FLAG_BITS /\ de_Axes Human (ser_Axes Human 8) = Ok (0, []).
Proof. vm_compute. split; reflexivity. Qed.
Example bytes_range_refuted :
  de_BinaryString Compact (ser_BinaryString Compact [256]) = Err ERR_TOK_RANGE /\
  de_BinaryString Human (ser_BinaryString Human [256]) <> Ok ([256], []).
Proof. vm_compute. split; [reflexivity|discriminate]. Qed.
Example ref_range_refuted : de_Ref Human (ser_Ref Human (2 ^ 128)) = Err ERR_REF_STR.
Proof. vm_compute. reflexivity. Qed.
Example unique_id_range_refuted :
  de_UniqueId Human (ser_UniqueId Human (2 ^ 32) 0 0) = Err ERR_UID_LEN /\
  de_UniqueId Compact (ser_UniqueId Compact (2 ^ 32) 0 0) = Ok (0, 0, 0%Z, []) /\
  de_UniqueId Human (ser_UniqueId Human 0 (2 ^ 32) 0) = Err ERR_UID_LEN /\
  de_UniqueId Human (ser_UniqueId Human 0 0 (2 ^ 63)) = Ok (0, 0, (- 2 ^ 63)%Z, []) /\
  de_UniqueId Compact (ser_UniqueId Compact 0 0 (2 ^ 63)) = Ok (0, 0, (- 2 ^ 63)%Z, []).
Proof. vm_compute. repeat split; reflexivity. Qed.
(* the two repaired defects stay repaired at this level: a negative random part, and a 32-byte string with a
   multi-byte character across a field boundary (an error, not a panic) *)
Example unique_id_negative_random_ex :
  de_UniqueId Human (ser_UniqueId Human 7 8 (-1)) = Ok (7, 8, (-1)%Z, []) /\
  ser_UniqueId Human 7 8 (-1) = [TStr (BitSets.str_bytes "ffffffffffffffff0000000800000007")].
Proof. vm_compute. split; reflexivity. Qed.

(* ------------------------------------------------------------------------------ the samples the harness replays *)
Theorem serde17_samples_roundtrip : forallb sample_roundtrips serde17_samples = true.
Proof. vm_compute. reflexivity. Qed.

Theorem serde17_samples_spec : forall m v, In (m, v) serde17_samples ->
  sv17_ok v = true /\ de_value17 m (sv17_type v) (ser_value17 m v) = Ok (v, []).
Proof.
  intros m v Hin.
  assert (Hok : sv17_ok v = true).
  { pose proof (proj1 (forallb_forall _ _) serde17_samples_roundtrip (m, v) Hin) as H.
    cbn [sample_roundtrips] in H. now apply andb_prop in H. }
  split; [exact Hok|now apply serde17_roundtrip_exact].
Qed.

(* at least three values of every type in both modes (in fact at least four) *)
Definition mode_eqb (a b : smode) : bool := match a, b with Human, Human | Compact, Compact => true | _, _ => false end.
Definition samples_of (m : smode) (ty : st17) : nat :=
  length (filter (fun s => mode_eqb (fst s) m && (st17_tag (sv17_type (snd s)) =? st17_tag ty)) serde17_samples).
Theorem serde17_samples_cover : forall m ty, (4 <= samples_of m ty)%nat.
Proof. intros m ty. destruct m, ty; vm_compute; lia. Qed.
Lemma serde17_samples_count : length serde17_samples = 80%nat.
Proof. reflexivity. Qed.

(* ------------------------------------------------------------------------------ the emitted tokens are tokens *)
(* a token a Rust `Serializer` can be handed: strings are UTF-8, integers and floats fit their widths, bytes are bytes *)
Definition tok_wf (t : tok) : bool :=
  match t with
  | TU8 n => n <? 2 ^ 8 | TU16 n => n <? 2 ^ 16 | TU32 n => n <? 2 ^ 32 | TU64 n => n <? 2 ^ 64 | TU128 n => n <? 2 ^ 128
  | TF32 b => b <? 2 ^ 32 | TF64 b => b <? 2 ^ 64
  | TStr s => utf8_valid s && bytes_ok s
  | TBytes b => bytes_ok b
  | TStruct name _ | TField name | TNewtypeStruct name => utf8_valid name && bytes_ok name
  | TUnitVariant e _ v | TNewtypeVariant e _ v | TStructVariant e _ v _ | TTupleVariant e _ v _ =>
      utf8_valid e && bytes_ok e && utf8_valid v && bytes_ok v
  | _ => true
  end.

Lemma ascii_bytes_ok s : Forall (fun b => b < 128) s -> bytes_ok s = true.
Proof. intros H. apply bytes_ok_forall. intros x Hx. rewrite Forall_forall in H. specialize (H x Hx). lia. Qed.
Lemma ascii_str_wf s : Forall (fun b => b < 128) s -> tok_wf (TStr s) = true.
Proof. intros H. cbn [tok_wf]. now rewrite ascii_utf8, ascii_bytes_ok. Qed.

Lemma forallb_map_TU8 b : bytes_ok b = true -> forallb tok_wf (List.map TU8 b) = true.
Proof.
  intros H. apply forallb_forall. intros t Ht. apply in_map_iff in Ht. destruct Ht as (x & <- & Hx).
  cbn [tok_wf]. apply N.ltb_lt. change (2 ^ 8) with 256. now apply (proj1 (bytes_ok_forall b) H).
Qed.

Lemma flags_tables_ascii :
  forallb (fun s => forallb (fun b => b <? 128) s) (List.map snd FACES ++ List.map snd AXES) = true.
Proof. vm_compute. reflexivity. Qed.

Lemma ser_flags_wf t m bits : forallb (fun s => forallb (fun b => b <? 128) s) (List.map snd t) = true -> bits < 256 ->
  forallb tok_wf (ser_flags t m bits) = true.
Proof.
  intros Ht Hb. destruct m; cbn [ser_flags forallb].
  - rewrite forallb_app. cbn [forallb tok_wf]. rewrite andb_true_r. apply forallb_forall.
    intros tk Htk. apply in_map_iff in Htk. destruct Htk as (s & <- & Hs).
    apply ascii_str_wf. apply Forall_forall. intros x Hx. apply N.ltb_lt.
    apply flags_names_in in Hs. rewrite forallb_forall in Ht. specialize (Ht s Hs). rewrite forallb_forall in Ht. now apply Ht.
  - unfold flags_to_byte. cbn [tok_wf]. rewrite andb_true_r. apply N.ltb_lt. exact Hb.
Qed.

Theorem ser_value17_wf : forall m v, sv17_ok v = true -> forallb tok_wf (ser_value17 m v) = true.
Proof.
  intros m v Hok. destruct v as [b|b|b|n|p|r|b|i t z]; cbn [ser_value17 sv17_ok] in *.
  - apply N.ltb_lt in Hok. apply ser_flags_wf; [reflexivity|lia].
  - apply N.ltb_lt in Hok. apply ser_flags_wf; [reflexivity|lia].
  - destruct m; cbn [ser_BinaryString ser_bytes17 forallb].
    + now rewrite (ascii_str_wf _ (b64_encode_ascii b)).
    + rewrite forallb_app, (forallb_map_TU8 b Hok). reflexivity.
  - apply brick_valid_u16 in Hok. unfold ser_BrickColor. cbn [forallb tok_wf]. rewrite andb_true_r. apply N.ltb_lt. change (2 ^ 16) with 65536. lia.
  - destruct p as [[d f e fw ew]|]; [|destruct m; reflexivity].
    cbn [ph_density ph_friction ph_elasticity ph_friction_weight ph_elasticity_weight] in Hok.
    unfold f32_ok in Hok.
    apply andb_prop in Hok. destruct Hok as [Hok H5]. apply andb_prop in Hok. destruct Hok as [Hok H4].
    apply andb_prop in Hok. destruct Hok as [Hok H3]. apply andb_prop in Hok. destruct Hok as [H1 H2].
    change 4294967296 with (2 ^ 32) in *.
    destruct m; cbn [ser_PhysicalProperties ser_custom forallb tok_wf ph_density ph_friction ph_elasticity ph_friction_weight ph_elasticity_weight];
      rewrite H1, H2, H3, H4, H5; vm_compute; reflexivity.
  - destruct m; cbn [ser_Ref forallb].
    + unfold ref_display. rewrite (ascii_str_wf _ (fmt_hex_ascii 32 r)). reflexivity.
    + cbn [tok_wf]. now rewrite Hok.
  - destruct m; cbn [ser_SharedString ser_bytes17 forallb].
    + now rewrite (ascii_str_wf _ (b64_encode_ascii b)).
    + rewrite forallb_app, (forallb_map_TU8 b Hok). reflexivity.
  - apply andb_prop in Hok. destruct Hok as [Hok Hz]. apply andb_prop in Hok. destruct Hok as [Hi Ht].
    apply N.ltb_lt in Hi, Ht. apply in_i64_iff in Hz.
    destruct m; cbn [ser_UniqueId forallb].
    + destruct (uid_display_parts i t z Hi Ht) as (_ & _ & _ & Hascii); [lia|].
      now rewrite (ascii_str_wf _ Hascii).
    + cbn [tok_wf]. now rewrite !bytes_ok_app, !be_bytes_ok.
Qed.

(* ------------------------------------------------------------------------------ different values, different tokens *)
Corollary ser_value17_injective : forall m v1 v2, sv17_ok v1 = true -> sv17_ok v2 = true ->
  sv17_type v1 = sv17_type v2 -> ser_value17 m v1 = ser_value17 m v2 -> v1 = v2.
Proof.
  intros m v1 v2 H1 H2 Hty Hser.
  pose proof (serde17_roundtrip_exact m v1 H1) as R1. pose proof (serde17_roundtrip_exact m v2 H2) as R2.
  rewrite Hty, Hser, R2 in R1. congruence.
Qed.

(* ------------------------------------------------------------------------------ what Deserialize returns is a value of the type *)
(* From tokens a Rust Deserializer can present (tok_wf), every `Ok` is a value in range: no reader fabricates a bit
   outside the set, a byte above 255, a number outside the table, a Ref of more than 128 bits, ... .  With the round
   trip: whatever was accepted serializes to tokens that are read back as the same value. *)
Lemma lor_lt_pow2 a b n : a < 2 ^ n -> b < 2 ^ n -> N.lor a b < 2 ^ n.
Proof.
  intros Ha Hb. destruct (N.eq_dec (N.lor a b) 0) as [->|Hne]; [apply N.neq_0_lt_0, N.pow_nonzero; discriminate|].
  apply N.log2_lt_pow2; [lia|]. rewrite N.log2_lor.
  destruct (N.eq_dec a 0) as [->|Ha0]; destruct (N.eq_dec b 0) as [->|Hb0].
  - now cbn in Hne.
  - rewrite N.max_r by apply N.le_0_l. apply N.log2_lt_pow2; lia.
  - rewrite N.max_l by apply N.le_0_l. apply N.log2_lt_pow2; lia.
  - apply N.max_lub_lt; apply N.log2_lt_pow2; lia.
Qed.

Lemma flag_of_name_in t s f : flag_of_name t s = Some f -> In f (List.map fst t).
Proof.
  induction t as [|[f0 n0] r IH]; cbn; [discriminate|].
  destruct (bytes_eqb s n0); [intros [= ->]; now left|intros H; right; now apply IH].
Qed.

Lemma flag_elems_bound t e n ts : (forall f, In f (List.map fst t) -> f < 2 ^ n) ->
  forall acc b r, acc < 2 ^ n -> flag_elems t e acc ts = Ok (b, r) -> b < 2 ^ n.
Proof.
  intros Ht. induction ts as [|tk ts' IH]; intros acc b r Hacc; cbn [flag_elems]; [discriminate|].
  destruct (closes e tk); [intros [= <- _]; exact Hacc|].
  destruct (string_of_tok tk) as [s| | |]; cbn [rbind]; try discriminate.
  destruct (flag_of_name t s) as [f|] eqn:Ef; [|discriminate].
  apply IH. apply lor_lt_pow2; [exact Hacc|]. apply Ht. now apply flag_of_name_in with s.
Qed.

Lemma uint_of_tok_le hi t n : uint_of_tok hi t = Ok n -> n <= hi.
Proof.
  destruct t; cbn; try discriminate;
    match goal with |- (if ?c then _ else _) = _ -> _ => destruct c eqn:E; [|discriminate] end;
    intros [= <-]; try (apply andb_prop in E; destruct E as [_ E]); now apply N.leb_le.
Qed.

Lemma de_faces_in_range m ts b r : de_Faces m ts = Ok (b, r) -> b < 64.
Proof.
  unfold de_Faces. destruct m; cbn [de_flags].
  - assert (Ht : forall f, In f (List.map fst FACES) -> f < 2 ^ 6) by (cbn; intros f H; intuition subst; reflexivity).
    destruct ts as [|tk ts']; [discriminate|].
    destruct tk; try discriminate; intros H; apply (flag_elems_bound FACES _ 6 _ Ht 0 b r) in H; trivial; reflexivity.
  - destruct ts as [|tk ts']; [discriminate|].
    destruct (uint_of_tok 255 tk) as [x| | |] eqn:Eu; cbn [rbind]; try discriminate.
    apply uint_of_tok_le in Eu.
    destruct (flags_of_byte FACES x) as [y| | |] eqn:Ef; cbn [rbind]; try discriminate. intros [= <- _].
    destruct (N.lt_ge_cases x 64) as [Hlt|Hge].
    + unfold flags_of_byte in Ef. unfold flags_from_bits in Ef. destruct (N.ldiff x (flags_all FACES) =? 0); [|discriminate]. congruence.
    + destruct (faces_reject x) as [_ Hr]; [lia|]. congruence.
Qed.

Lemma de_axes_in_range m ts b r : de_Axes m ts = Ok (b, r) -> b < 8.
Proof.
  unfold de_Axes. destruct m; cbn [de_flags].
  - assert (Ht : forall f, In f (List.map fst AXES) -> f < 2 ^ 3) by (cbn; intros f H; intuition subst; reflexivity).
    destruct ts as [|tk ts']; [discriminate|].
    destruct tk; try discriminate; intros H; apply (flag_elems_bound AXES _ 3 _ Ht 0 b r) in H; trivial; reflexivity.
  - destruct ts as [|tk ts']; [discriminate|].
    destruct (uint_of_tok 255 tk) as [x| | |] eqn:Eu; cbn [rbind]; try discriminate.
    apply uint_of_tok_le in Eu.
    destruct (flags_of_byte AXES x) as [y| | |] eqn:Ef; cbn [rbind]; try discriminate. intros [= <- _].
    destruct (N.lt_ge_cases x 8) as [Hlt|Hge].
    + unfold flags_of_byte in Ef. unfold flags_from_bits in Ef. destruct (N.ldiff x (flags_all AXES) =? 0); [|discriminate]. congruence.
    + destruct (axes_reject x) as [_ Hr]; [lia|]. congruence.
Qed.

(* base64::decode yields bytes *)
Lemma b64_val_lt c d : b64_val c = Some d -> d < 64.
Proof.
  unfold b64_val.
  destruct ((65 <=? c) && (c <=? 90)) eqn:E1.
  { apply andb_prop in E1. destruct E1 as [A B]. apply N.leb_le in A, B. intros [= <-]. lia. }
  destruct ((97 <=? c) && (c <=? 122)) eqn:E2.
  { apply andb_prop in E2. destruct E2 as [A B]. apply N.leb_le in A, B. intros [= <-]. lia. }
  destruct ((48 <=? c) && (c <=? 57)) eqn:E3.
  { apply andb_prop in E3. destruct E3 as [A B]. apply N.leb_le in A, B. intros [= <-]. lia. }
  destruct (c =? 43); [intros [= <-]; lia|]. destruct (c =? 47); [intros [= <-]; lia|discriminate].
Qed.

Lemma byte_of_sextets_1 p q : p < 64 -> q < 64 -> p * 4 + q / 16 < 256.
Proof. intros Hp Hq. assert (q / 16 < 4) by (apply N.div_lt_upper_bound; lia). lia. Qed.
Lemma byte_of_sextets_2 q t : t < 64 -> (q mod 16) * 16 + t / 4 < 256.
Proof.
  intros Ht. assert (q mod 16 < 16) by (apply N.mod_lt; lia). assert (t / 4 < 16) by (apply N.div_lt_upper_bound; lia). lia.
Qed.
Lemma byte_of_sextets_3 t u : u < 64 -> (t mod 4) * 64 + u < 256.
Proof. intros Hu. assert (t mod 4 < 4) by (apply N.mod_lt; lia). lia. Qed.

Lemma b64_tail2_ok a b l : b64_tail2 a b = Some l -> bytes_ok l = true.
Proof.
  unfold b64_tail2. destruct (b64_val a) as [p|] eqn:Ea; [|discriminate]. destruct (b64_val b) as [q|] eqn:Eb; [|discriminate].
  destruct (q mod 16 =? 0); [|discriminate]. intros [= <-].
  apply b64_val_lt in Ea, Eb. cbn [bytes_ok forallb]. rewrite andb_true_r. apply N.ltb_lt. now apply byte_of_sextets_1.
Qed.
Lemma b64_tail3_ok a b c l : b64_tail3 a b c = Some l -> bytes_ok l = true.
Proof.
  unfold b64_tail3. destruct (b64_val a) as [p|] eqn:Ea; [|discriminate]. destruct (b64_val b) as [q|] eqn:Eb; [|discriminate].
  destruct (b64_val c) as [t|] eqn:Ec; [|discriminate].
  destruct (t mod 4 =? 0); [|discriminate]. intros [= <-].
  apply b64_val_lt in Ea, Eb, Ec. cbn [bytes_ok forallb]. rewrite andb_true_r.
  apply andb_true_intro. split; apply N.ltb_lt; [now apply byte_of_sextets_1|now apply byte_of_sextets_2].
Qed.

Lemma list_ind4 {A} (P : list A -> Prop) :
  P [] -> (forall x, P [x]) -> (forall x y, P [x; y]) -> (forall x y z, P [x; y; z]) ->
  (forall x y z w r, P r -> P (x :: y :: z :: w :: r)) -> forall l, P l.
Proof.
  intros H0 H1 H2 H3 H4.
  assert (G : forall n l, (length l <= n)%nat -> P l).
  { induction n as [|n IH]; intros l Hl.
    - destruct l; [exact H0|cbn in Hl; lia].
    - destruct l as [|x [|y [|z [|w r]]]]; auto. apply H4. apply IH. cbn in Hl. lia. }
  intro l. apply (G (length l)). lia.
Qed.

Lemma b64_decode_bytes_ok s : forall b, b64_decode s = Some b -> bytes_ok b = true.
Proof.
  induction s as [| x | x y | x y z | x y z w r IH] using list_ind4; intros b.
  - intros [= <-]. reflexivity.
  - discriminate.
  - apply b64_tail2_ok.
  - cbn [b64_decode]. destruct (z =? 61); [apply b64_tail2_ok|apply b64_tail3_ok].
  - cbn [b64_decode]. destruct r as [|r0 r'].
    + destruct (w =? 61).
      * destruct (z =? 61); [apply b64_tail2_ok|apply b64_tail3_ok].
      * destruct (b64_val x) as [p|] eqn:Ex; [|discriminate]. destruct (b64_val y) as [q|] eqn:Ey; [|discriminate].
        destruct (b64_val z) as [t|] eqn:Ez; [|discriminate]. destruct (b64_val w) as [u|] eqn:Ew; [|discriminate].
        intros [= <-]. apply b64_val_lt in Ex, Ey, Ez, Ew. cbn [bytes_ok forallb]. rewrite andb_true_r.
        repeat (apply andb_true_intro; split); apply N.ltb_lt;
          [now apply byte_of_sextets_1|now apply byte_of_sextets_2|now apply byte_of_sextets_3].
    + destruct (b64_val x) as [p|] eqn:Ex; [|discriminate]. destruct (b64_val y) as [q|] eqn:Ey; [|discriminate].
      destruct (b64_val z) as [t|] eqn:Ez; [|discriminate]. destruct (b64_val w) as [u|] eqn:Ew; [|discriminate].
      destruct (b64_decode (r0 :: r')) as [rest|] eqn:Er; [|discriminate].
      intros [= <-]. apply b64_val_lt in Ex, Ey, Ez, Ew. specialize (IH rest eq_refl).
      rewrite !bytes_ok_cons, IH, andb_true_r.
      repeat (apply andb_true_intro; split); apply N.ltb_lt;
        [now apply byte_of_sextets_1|now apply byte_of_sextets_2|now apply byte_of_sextets_3].
Qed.

Lemma vec_u8_elems_bytes_ok e ts : forall b r, vec_u8_elems e ts = Ok (b, r) -> bytes_ok b = true.
Proof.
  induction ts as [|tk ts' IH]; intros b r; cbn [vec_u8_elems]; [discriminate|].
  destruct (closes e tk); [intros [= <- _]; reflexivity|].
  destruct (uint_of_tok 255 tk) as [x| | |] eqn:Eu; cbn [rbind]; try discriminate.
  destruct (vec_u8_elems e ts') as [[bs r']| | |] eqn:Ev; cbn [rbind]; try discriminate.
  intros [= <- _]. apply uint_of_tok_le in Eu. rewrite bytes_ok_cons, (IH bs r' eq_refl), andb_true_r. apply N.ltb_lt. lia.
Qed.

Lemma de_bytes17_in_range m ts b r : de_bytes17 m ts = Ok (b, r) -> bytes_ok b = true.
Proof.
  destruct m; cbn [de_bytes17]; (destruct ts as [|tk ts']; [discriminate|]).
  - destruct (string_of_tok tk) as [s| | |]; cbn [rbind]; try discriminate.
    destruct (b64_decode s) as [b'|] eqn:Ed; [|discriminate]. intros [= <- _]. now apply b64_decode_bytes_ok with s.
  - destruct tk; try discriminate; apply vec_u8_elems_bytes_ok.
Qed.

Lemma de_BrickColor_in_range m ts n r : de_BrickColor m ts = Ok (n, r) -> brick_valid n = true.
Proof.
  unfold de_BrickColor. destruct ts as [|tk ts']; [discriminate|].
  destruct (uint_of_tok 65535 tk) as [x| | |]; cbn [rbind]; try discriminate.
  destruct (brick_valid x) eqn:E; [|discriminate]. now intros [= <- _].
Qed.

(* from_str_radix stays within the type *)
Lemma parse_digits_le hi ovf s : forall acc n, acc <= hi -> parse_digits hi ovf acc s = Ok n -> n <= hi.
Proof.
  induction s as [|c r IH]; intros acc n Hacc; cbn [parse_digits]; [now intros [= <-]|].
  destruct (digit_val c) as [d|]; [|discriminate].
  destruct (hi <? acc * 16 + d) eqn:E; [discriminate|]. apply N.ltb_ge in E. now apply IH.
Qed.
Lemma parse_hex_u_lt bits s n : parse_hex_u bits s = Ok n -> n < 2 ^ bits.
Proof.
  assert (Hp : 0 < 2 ^ bits) by (apply N.neq_0_lt_0, N.pow_nonzero; discriminate).
  assert (G : forall r m, parse_digits (2 ^ bits - 1) PIE_POS 0 r = Ok m -> m < 2 ^ bits).
  { intros r m H. apply parse_digits_le in H; lia. }
  unfold parse_hex_u, parse_hex_gen. destruct s as [|c r]; [discriminate|].
  destruct (((c =? 43) || (c =? 45)) && is_nil r); [discriminate|].
  destruct (c =? 43); [|rewrite andb_false_r].
  - destruct (parse_digits (2 ^ bits - 1) PIE_POS 0 r) as [m| | |] eqn:E; cbn [rbind]; try discriminate.
    intros [= <-]. now apply G with r.
  - destruct (parse_digits (2 ^ bits - 1) PIE_POS 0 (c :: r)) as [m| | |] eqn:E; cbn [rbind]; try discriminate.
    intros [= <-]. now apply G with (c :: r).
Qed.

Lemma de_Ref_in_range m ts n r : forallb tok_wf ts = true -> de_Ref m ts = Ok (n, r) -> n < 2 ^ 128.
Proof.
  unfold de_Ref. destruct ts as [|tk ts']; [discriminate|]. cbn [forallb]. intros Hwf. apply andb_prop in Hwf. destruct Hwf as [Hwf _].
  destruct tk; try discriminate.
  - intros [= <- _]. cbn [tok_wf] in Hwf. now apply N.ltb_lt.
  - destruct (utf8_valid s); [|discriminate]. unfold ref_from_str.
    destruct (parse_hex_u 128 s) as [x| | |] eqn:E; try discriminate. intros [= <- _]. now apply parse_hex_u_lt with s.
Qed.

Lemma bytes_ok_firstn n : forall l, bytes_ok l = true -> bytes_ok (firstn n l) = true.
Proof.
  induction n as [|n IH]; intros [|x l] H; try reflexivity. cbn [firstn].
  rewrite bytes_ok_cons in *. apply andb_prop in H. destruct H as [Hx Hl]. now rewrite Hx, (IH l Hl).
Qed.
Lemma bytes_ok_skipn n : forall l, bytes_ok l = true -> bytes_ok (skipn n l) = true.
Proof.
  induction n as [|n IH]; intros [|x l] H; try reflexivity; try exact H. cbn [skipn].
  rewrite bytes_ok_cons in H. apply andb_prop in H. now apply IH.
Qed.
Lemma of_be_slice_bound v a b : bytes_ok v = true -> (b <= length v)%nat ->
  of_be (slice v a b) < 2 ^ (8 * N.of_nat (b - a)).
Proof.
  intros Hv Hb. unfold slice.
  replace (b - a)%nat with (length (firstn (b - a) (skipn a v))) at 2
    by (rewrite firstn_length_le; [reflexivity|rewrite skipn_length; lia]).
  apply of_be_bound. now apply bytes_ok_firstn, bytes_ok_skipn.
Qed.

Lemma uid_from_str_in_range s i t z : uid_from_str s = Ok (i, t, z) -> i < 2 ^ 32 /\ t < 2 ^ 32 /\ in_i64 z = true.
Proof.
  unfold uid_from_str. destruct (Nat.eqb (length s) 32 && is_ascii s); [|discriminate].
  destruct (negb (is_char_boundary s 16)); [discriminate|].
  destruct (parse_hex_u 64 (slice s 0 16)) as [r| | |] eqn:E1; cbn [rbind]; try discriminate.
  destruct (negb (is_char_boundary s 24)); [discriminate|].
  destruct (parse_hex_u 32 (slice s 16 24)) as [tt| | |] eqn:E2; cbn [rbind]; try discriminate.
  destruct (parse_hex_u 32 (slice s 24 32)) as [ii| | |] eqn:E3; cbn [rbind]; try discriminate.
  intros [= <- <- <-]. apply parse_hex_u_lt in E1, E2, E3. repeat split; trivial.
  apply wrap_s64_range. exact E1.
Qed.

Lemma de_UniqueId_in_range m ts i t z r : forallb tok_wf ts = true -> de_UniqueId m ts = Ok (i, t, z, r) ->
  i < 2 ^ 32 /\ t < 2 ^ 32 /\ in_i64 z = true.
Proof.
  destruct ts as [|tk ts']; [destruct m; discriminate|]. cbn [forallb]. intros Hwf. apply andb_prop in Hwf. destruct Hwf as [Hwf _].
  destruct m; cbn [de_UniqueId]; destruct tk; try discriminate.
  - destruct (utf8_valid s); [|discriminate].
    destruct (uid_from_str s) as [[[i' t'] z']| | |] eqn:E; cbn [rbind]; try discriminate.
    intros [= <- <- <- _]. now apply uid_from_str_in_range with s.
  - cbn [tok_wf] in Hwf. destruct (Nat.eqb (length b) 16) eqn:El; [|discriminate]. apply Nat.eqb_eq in El.
    intros [= <- <- <- _]. repeat split.
    + apply (of_be_slice_bound b 12 16 Hwf). lia.
    + apply (of_be_slice_bound b 8 12 Hwf). lia.
    + apply wrap_s64_range. apply (of_be_slice_bound b 0 8 Hwf). lia.
Qed.

(* `as f32` yields 32 bits *)
Lemma f32_round_le m e : f32_round m e <= 2139095040.
Proof.
  unfold f32_round. destruct (m =? 0); [lia|]. cbv zeta.
  destruct (2139095040 <=? _) eqn:E; [lia|]. apply N.leb_gt in E. lia.
Qed.
Lemma f64_to_f32_lt b : f64_to_f32 b < 2 ^ 32.
Proof.
  unfold f64_to_f32. cbv zeta.
  assert (Hs : (b / 9223372036854775808) mod 2 < 2) by (apply N.mod_lt; lia).
  assert (Hx : (if (b / 4503599627370496) mod 2048 =? 2047
                then if b mod 4503599627370496 =? 0 then 2139095040 else N.lor 2143289344 (b mod 4503599627370496 / 536870912)
                else f32_round (if (b / 4503599627370496) mod 2048 =? 0 then b mod 4503599627370496 else 4503599627370496 + b mod 4503599627370496)
                       (Z.of_N (N.max ((b / 4503599627370496) mod 2048) 1) - 1075)) < 2 ^ 31).
  { destruct ((b / 4503599627370496) mod 2048 =? 2047).
    - destruct (b mod 4503599627370496 =? 0); [reflexivity|].
      apply lor_lt_pow2; [reflexivity|].
      assert (b mod 4503599627370496 < 4503599627370496) by (apply N.mod_lt; lia).
      apply N.lt_le_trans with (2 ^ 23); [|now apply N.pow_le_mono_r].
      apply N.div_lt_upper_bound; [lia|]. change (536870912 * 2 ^ 23) with 4503599627370496. assumption.
    - eapply N.le_lt_trans; [apply f32_round_le|reflexivity]. }
  change (2 ^ 32) with (2 * 2 ^ 31). change 2147483648 with (2 ^ 31). nia.
Qed.
Lemma f32_of_tok_lt t x : tok_wf t = true -> f32_of_tok t = Ok x -> x < 2 ^ 32.
Proof.
  assert (R : forall m e, f32_round m e < 2 ^ 31) by (intros; eapply N.le_lt_trans; [apply f32_round_le|reflexivity]).
  assert (RN : forall n, f32_of_N n < 2 ^ 32)
    by (intros n; unfold f32_of_N; eapply N.lt_trans; [apply R|reflexivity]).
  assert (RZ : forall z, f32_of_Z z < 2 ^ 32).
  { intros z. unfold f32_of_Z. destruct (z <? 0)%Z.
    - pose proof (R (Z.to_N (- z)) 0%Z). change (2 ^ 32) with (2147483648 + 2 ^ 31). lia.
    - eapply N.lt_trans; [apply R|reflexivity]. }
  destruct t; cbn [tok_wf f32_of_tok]; intros Hwf; try discriminate; intros [= <-]; auto using f64_to_f32_lt.
  now apply N.ltb_lt.
Qed.

Definition acc_ok (a : cacc) : Prop := forall f x, acc_get a f = Some x -> x < 2 ^ 32.
Definition phys_ok (p : physprops) : bool :=
  f32_ok (ph_density p) && f32_ok (ph_friction p) && f32_ok (ph_elasticity p)
  && f32_ok (ph_friction_weight p) && f32_ok (ph_elasticity_weight p).

Lemma acc_ok_set a f x : acc_ok a -> x < 2 ^ 32 -> acc_ok (acc_set a f x).
Proof.
  intros Ha Hx g y. destruct (cfield_eq_dec f g) as [->|Hne].
  - rewrite acc_get_set_same. now intros [= <-].
  - rewrite acc_get_set_other by exact Hne. apply Ha.
Qed.
Lemma acc_finish_ok a p : acc_ok a -> acc_finish a = Ok p -> phys_ok p = true.
Proof.
  intros Ha. destruct a as [[d|] [f|] [e|] [fw|] [ew|]]; cbn [acc_finish]; try discriminate. intros [= <-].
  unfold phys_ok, f32_ok. cbn [ph_density ph_friction ph_elasticity ph_friction_weight ph_elasticity_weight].
  change 4294967296 with (2 ^ 32).
  rewrite (proj2 (N.ltb_lt _ _) (Ha CDensity d eq_refl)), (proj2 (N.ltb_lt _ _) (Ha CFriction f eq_refl)),
    (proj2 (N.ltb_lt _ _) (Ha CElasticity e eq_refl)), (proj2 (N.ltb_lt _ _) (Ha CFrictionWeight fw eq_refl)),
    (proj2 (N.ltb_lt _ _) (Ha CElasticityWeight ew eq_refl)). reflexivity.
Qed.

Lemma custom_map_in_range raw e ts : forall acc md p r, forallb tok_wf ts = true -> acc_ok acc ->
  custom_map raw e acc md ts = Ok (p, r) -> phys_ok p = true.
Proof.
  induction ts as [|t ts' IH]; intros acc md p r Hwf Ha; cbn [custom_map]; [discriminate|].
  cbn [forallb] in Hwf. apply andb_prop in Hwf. destruct Hwf as [Ht Hwf].
  destruct md as [|f|[|fr st]].
  - destruct (closes e t).
    + destruct (acc_finish acc) as [p'| | |] eqn:Ef; cbn [rbind]; try discriminate. intros [= <- _]. now apply acc_finish_ok with acc.
    + destruct (custom_key raw t) as [[f|]| | |]; cbn [rbind]; try discriminate.
      * destruct (acc_get acc f); [discriminate|]. now apply IH.
      * now apply IH.
  - destruct (f32_of_tok t) as [x| | |] eqn:Ex; cbn [rbind]; try discriminate.
    apply IH; [exact Hwf|]. apply acc_ok_set; [exact Ha|]. now apply f32_of_tok_lt with t.
  - discriminate.
  - destruct (ign_step fr t st) as [[|f2 st2]|]; try discriminate; now apply IH.
Qed.

Lemma acc0_ok : acc_ok acc0.
Proof. intros f x. destruct f; discriminate. Qed.

Lemma custom_seq_in_range e ts p r : forallb tok_wf ts = true -> custom_seq e ts = Ok (p, r) -> phys_ok p = true.
Proof.
  unfold custom_seq. destruct ts as [|t1 [|t2 [|t3 [|t4 [|t5 [|te ts']]]]]]; try discriminate.
  cbn [forallb]. intros Hwf.
  apply andb_prop in Hwf. destruct Hwf as [W1 Hwf]. apply andb_prop in Hwf. destruct Hwf as [W2 Hwf].
  apply andb_prop in Hwf. destruct Hwf as [W3 Hwf]. apply andb_prop in Hwf. destruct Hwf as [W4 Hwf].
  apply andb_prop in Hwf. destruct Hwf as [W5 _].
  destruct (closes e t1 || closes e t2 || closes e t3 || closes e t4 || closes e t5); [discriminate|].
  destruct (f32_of_tok t1) as [x1| | |] eqn:E1; cbn [rbind]; try discriminate.
  destruct (f32_of_tok t2) as [x2| | |] eqn:E2; cbn [rbind]; try discriminate.
  destruct (f32_of_tok t3) as [x3| | |] eqn:E3; cbn [rbind]; try discriminate.
  destruct (f32_of_tok t4) as [x4| | |] eqn:E4; cbn [rbind]; try discriminate.
  destruct (f32_of_tok t5) as [x5| | |] eqn:E5; cbn [rbind]; try discriminate.
  destruct (closes e te); [|discriminate]. intros [= <- _].
  apply f32_of_tok_lt in E1, E2, E3, E4, E5; trivial.
  unfold phys_ok, f32_ok. cbn [ph_density ph_friction ph_elasticity ph_friction_weight ph_elasticity_weight].
  change 4294967296 with (2 ^ 32).
  now rewrite (proj2 (N.ltb_lt _ _) E1), (proj2 (N.ltb_lt _ _) E2), (proj2 (N.ltb_lt _ _) E3), (proj2 (N.ltb_lt _ _) E4), (proj2 (N.ltb_lt _ _) E5).
Qed.

Lemma de_custom_in_range ts p r : forallb tok_wf ts = true -> de_custom ts = Ok (p, r) -> phys_ok p = true.
Proof.
  unfold de_custom. destruct ts as [|t ts']; [discriminate|]. cbn [forallb]. intros Hwf. apply andb_prop in Hwf. destruct Hwf as [_ Hwf].
  destruct t; try discriminate; try (now apply custom_seq_in_range); apply custom_map_in_range; trivial; apply acc0_ok.
Qed.

Lemma de_PhysicalProperties_in_range m ts p r : forallb tok_wf ts = true ->
  de_PhysicalProperties m ts = Ok (Some p, r) -> phys_ok p = true.
Proof.
  destruct ts as [|t ts']; [destruct m; discriminate|]. cbn [forallb]. intros Hwf. apply andb_prop in Hwf. destruct Hwf as [_ Hwf].
  destruct m; cbn [de_PhysicalProperties].
  - destruct t; try discriminate.
    + destruct (utf8_valid s); [|discriminate]. destruct (bytes_eqb s S_DEFAULT); discriminate.
    + destruct (custom_map true CMapEnd acc0 CKey ts') as [[p' r']| | |] eqn:E; cbn [rbind]; try discriminate.
      intros [= <- _]. apply (custom_map_in_range _ _ _ _ _ _ _ Hwf acc0_ok E).
    + destruct (custom_map false CStructEnd acc0 CKey ts') as [[p' r']| | |] eqn:E; cbn [rbind]; try discriminate.
      intros [= <- _]. apply (custom_map_in_range _ _ _ _ _ _ _ Hwf acc0_ok E).
  - destruct (variant_name t) as [name|]; [|discriminate].
    destruct (bytes_eqb name S_DEFAULT); [destruct t; discriminate|].
    destruct (bytes_eqb name S_CUSTOM); [|discriminate].
    destruct t; try discriminate.
    destruct (de_custom ts') as [[p' r']| | |] eqn:E; cbn [rbind]; try discriminate.
    intros [= <- _]. now apply de_custom_in_range with ts' r'.
Qed.

Theorem de_value17_in_range : forall m ty ts v rest, forallb tok_wf ts = true ->
  de_value17 m ty ts = Ok (v, rest) -> sv17_ok v = true /\ sv17_type v = ty.
Proof.
  intros m ty ts v rest Hwf. destruct ty; cbn [de_value17].
  - destruct (de_Axes m ts) as [[b r]| | |] eqn:E; cbn [rbind]; try discriminate. intros [= <- _].
    split; [|reflexivity]. cbn [sv17_ok]. apply N.ltb_lt. now apply de_axes_in_range with m ts r.
  - destruct (de_Faces m ts) as [[b r]| | |] eqn:E; cbn [rbind]; try discriminate. intros [= <- _].
    split; [|reflexivity]. cbn [sv17_ok]. apply N.ltb_lt. now apply de_faces_in_range with m ts r.
  - destruct (de_BinaryString m ts) as [[b r]| | |] eqn:E; cbn [rbind]; try discriminate. intros [= <- _].
    split; [|reflexivity]. cbn [sv17_ok]. now apply de_bytes17_in_range with m ts r.
  - destruct (de_BrickColor m ts) as [[b r]| | |] eqn:E; cbn [rbind]; try discriminate. intros [= <- _].
    split; [|reflexivity]. cbn [sv17_ok]. now apply de_BrickColor_in_range with m ts r.
  - destruct (de_PhysicalProperties m ts) as [[[p|] r]| | |] eqn:E; cbn [rbind]; try discriminate; intros [= <- _].
    + split; [|reflexivity]. cbn [sv17_ok]. now apply (de_PhysicalProperties_in_range m ts p r).
    + split; reflexivity.
  - destruct (de_Ref m ts) as [[b r]| | |] eqn:E; cbn [rbind]; try discriminate. intros [= <- _].
    split; [|reflexivity]. cbn [sv17_ok]. apply N.ltb_lt. now apply de_Ref_in_range with m ts r.
  - destruct (de_SharedString m ts) as [[b r]| | |] eqn:E; cbn [rbind]; try discriminate. intros [= <- _].
    split; [|reflexivity]. cbn [sv17_ok]. now apply de_bytes17_in_range with m ts r.
  - destruct (de_UniqueId m ts) as [[[[i t] z] r]| | |] eqn:E; cbn [rbind]; try discriminate. intros [= <- _].
    split; [|reflexivity]. cbn [sv17_ok].
    destruct (de_UniqueId_in_range m ts i t z r Hwf E) as (Hi & Ht & Hz).
    now rewrite (proj2 (N.ltb_lt _ _) Hi), (proj2 (N.ltb_lt _ _) Ht), Hz.
Qed.

(* so the value that was read is a fixed point: its own tokens are read back as itself, in the mode it was read in *)
Corollary de_ser_de17 : forall m ty ts v rest rest', forallb tok_wf ts = true ->
  de_value17 m ty ts = Ok (v, rest) -> de_value17 m ty (ser_value17 m v ++ rest') = Ok (v, rest').
Proof.
  intros m ty ts v rest rest' Hwf H. destruct (de_value17_in_range m ty ts v rest Hwf H) as [Hok <-].
  now apply serde17_roundtrip.
Qed.

Example de_value17_in_range_ex :
  let ts := [TMap None; TU8 3; TF64 4591870180066957722; TStr S_DENSITY; TI8 (-3); TBytes S_ELASTICITY; TU64 18446744073709551615;
             TStr S_FRICTION; TF32 2143289345; TStr (BitSets.str_bytes "extra"); TSeq None; TNone; TSeqEnd;
             TStr S_ELASTICITY_WEIGHT; TF64 18444492273895866369; TMapEnd; TUnit] in
  forallb tok_wf ts = true /\
  de_value17 Human TyPhysicalProperties ts =
    Ok (SPhysicalProperties (Some (mkPhys 3225419776 2143289345 1602224128 1036831949 4290772992)), [TUnit]).
Proof. vm_compute. split; reflexivity. Qed.

(* ------------------------------------------------------------------------------ what is left is what was not read *)
(* `Ok (v, rest)`: rest is a proper suffix of the tokens: a Deserialize reads at least one token and does not touch
   the others. *)
Definition suffix_of (rest ts : list tok) : Prop := exists pre, pre <> [] /\ ts = pre ++ rest.

Lemma suffix_cons t ts rest : rest = ts \/ suffix_of rest ts -> suffix_of rest (t :: ts).
Proof.
  intros [->|(pre & _ & ->)]; [exists [t]|exists (t :: pre)]; split; try discriminate; reflexivity.
Qed.

Lemma flag_elems_suffix t e ts : forall acc b r, flag_elems t e acc ts = Ok (b, r) -> suffix_of r ts.
Proof.
  induction ts as [|tk ts' IH]; intros acc b r; cbn [flag_elems]; [discriminate|].
  destruct (closes e tk); [intros [= _ <-]; apply suffix_cons; now left|].
  destruct (string_of_tok tk) as [s| | |]; cbn [rbind]; try discriminate.
  destruct (flag_of_name t s) as [f|]; [|discriminate]. intros H. apply suffix_cons. right. now apply IH with (N.lor acc f) b.
Qed.
Lemma vec_u8_elems_suffix e ts : forall b r, vec_u8_elems e ts = Ok (b, r) -> suffix_of r ts.
Proof.
  induction ts as [|tk ts' IH]; intros b r; cbn [vec_u8_elems]; [discriminate|].
  destruct (closes e tk); [intros [= _ <-]; apply suffix_cons; now left|].
  destruct (uint_of_tok 255 tk); cbn [rbind]; try discriminate.
  destruct (vec_u8_elems e ts') as [[bs r']| | |] eqn:Ev; cbn [rbind]; try discriminate.
  intros [= _ <-]. apply suffix_cons. right. now apply IH with bs.
Qed.
Lemma custom_map_suffix raw e ts : forall acc md p r, custom_map raw e acc md ts = Ok (p, r) -> suffix_of r ts.
Proof.
  induction ts as [|t ts' IH]; intros acc md p r; cbn [custom_map]; [discriminate|].
  destruct md as [|f|[|fr st]].
  - destruct (closes e t).
    + destruct (acc_finish acc); cbn [rbind]; try discriminate. intros [= _ <-]. apply suffix_cons. now left.
    + destruct (custom_key raw t) as [[f|]| | |]; cbn [rbind]; try discriminate.
      * destruct (acc_get acc f); [discriminate|]. intros H. apply suffix_cons. right. now apply IH in H.
      * intros H. apply suffix_cons. right. now apply IH in H.
  - destruct (f32_of_tok t); cbn [rbind]; try discriminate. intros H. apply suffix_cons. right. now apply IH in H.
  - discriminate.
  - destruct (ign_step fr t st) as [[|f2 st2]|]; try discriminate; intros H; apply suffix_cons; right; now apply IH in H.
Qed.
Lemma custom_seq_suffix e ts p r : custom_seq e ts = Ok (p, r) -> suffix_of r ts.
Proof.
  unfold custom_seq. destruct ts as [|t1 [|t2 [|t3 [|t4 [|t5 [|te ts']]]]]]; try discriminate.
  destruct (closes e t1 || closes e t2 || closes e t3 || closes e t4 || closes e t5); [discriminate|].
  destruct (f32_of_tok t1); cbn [rbind]; try discriminate. destruct (f32_of_tok t2); cbn [rbind]; try discriminate.
  destruct (f32_of_tok t3); cbn [rbind]; try discriminate. destruct (f32_of_tok t4); cbn [rbind]; try discriminate.
  destruct (f32_of_tok t5); cbn [rbind]; try discriminate.
  destruct (closes e te); [|discriminate]. intros [= _ <-].
  exists [t1; t2; t3; t4; t5; te]. split; [discriminate|reflexivity].
Qed.

Theorem de_value17_suffix : forall m ty ts v rest, de_value17 m ty ts = Ok (v, rest) -> suffix_of rest ts.
Proof.
  intros m ty ts v rest. destruct ty; cbn [de_value17].
  - destruct (de_Axes m ts) as [[b r]| | |] eqn:E; cbn [rbind]; try discriminate. intros [= _ <-].
    unfold de_Axes in E. destruct m; cbn [de_flags] in E; (destruct ts as [|tk ts']; [discriminate|]).
    + destruct tk; try discriminate; apply suffix_cons; right; now apply flag_elems_suffix in E.
    + destruct (uint_of_tok 255 tk) as [x| | |]; cbn [rbind] in E; try discriminate.
      destruct (flags_of_byte AXES x); cbn [rbind] in E; try discriminate. injection E as _ <-. apply suffix_cons. now left.
  - destruct (de_Faces m ts) as [[b r]| | |] eqn:E; cbn [rbind]; try discriminate. intros [= _ <-].
    unfold de_Faces in E. destruct m; cbn [de_flags] in E; (destruct ts as [|tk ts']; [discriminate|]).
    + destruct tk; try discriminate; apply suffix_cons; right; now apply flag_elems_suffix in E.
    + destruct (uint_of_tok 255 tk) as [x| | |]; cbn [rbind] in E; try discriminate.
      destruct (flags_of_byte FACES x); cbn [rbind] in E; try discriminate. injection E as _ <-. apply suffix_cons. now left.
  - destruct (de_BinaryString m ts) as [[b r]| | |] eqn:E; cbn [rbind]; try discriminate. intros [= _ <-].
    unfold de_BinaryString in E. destruct m; cbn [de_bytes17] in E; (destruct ts as [|tk ts']; [discriminate|]).
    + destruct (string_of_tok tk) as [s0| | |]; cbn [rbind] in E; try discriminate. destruct (b64_decode s0); [|discriminate].
      injection E as _ <-. apply suffix_cons. now left.
    + destruct tk; try discriminate; apply suffix_cons; right; now apply vec_u8_elems_suffix in E.
  - destruct (de_BrickColor m ts) as [[b r]| | |] eqn:E; cbn [rbind]; try discriminate. intros [= _ <-].
    unfold de_BrickColor in E. destruct ts as [|tk ts']; [discriminate|].
    destruct (uint_of_tok 65535 tk) as [x| | |]; cbn [rbind] in E; try discriminate. destruct (brick_valid x); [|discriminate].
    injection E as _ <-. apply suffix_cons. now left.
  - destruct (de_PhysicalProperties m ts) as [[p r]| | |] eqn:E; cbn [rbind]; try discriminate. intros [= _ <-].
    destruct m; cbn [de_PhysicalProperties] in E; (destruct ts as [|tk ts']; [discriminate|]).
    + destruct tk; try discriminate.
      * destruct (utf8_valid s); [|discriminate]. destruct (bytes_eqb s S_DEFAULT); [|discriminate].
        injection E as _ <-. apply suffix_cons. now left.
      * destruct (custom_map true CMapEnd acc0 CKey ts') as [[p' r']| | |] eqn:Ec; cbn [rbind] in E; try discriminate.
        injection E as _ <-. apply suffix_cons. right. now apply custom_map_suffix in Ec.
      * destruct (custom_map false CStructEnd acc0 CKey ts') as [[p' r']| | |] eqn:Ec; cbn [rbind] in E; try discriminate.
        injection E as _ <-. apply suffix_cons. right. now apply custom_map_suffix in Ec.
    + destruct (variant_name tk) as [name|]; [|discriminate].
      destruct (bytes_eqb name S_DEFAULT).
      { destruct tk; try discriminate; injection E as _ <-; apply suffix_cons; now left. }
      destruct (bytes_eqb name S_CUSTOM); [|discriminate].
      destruct tk; try discriminate.
      destruct (de_custom ts') as [[p' r']| | |] eqn:Ec; cbn [rbind] in E; try discriminate.
      injection E as _ <-. apply suffix_cons. right.
      unfold de_custom in Ec. destruct ts' as [|t2 ts2]; [discriminate|].
      destruct t2; try discriminate; apply suffix_cons; right;
        (now apply custom_seq_suffix in Ec) || (now apply custom_map_suffix in Ec).
  - destruct (de_Ref m ts) as [[b r]| | |] eqn:E; cbn [rbind]; try discriminate. intros [= _ <-].
    unfold de_Ref in E. destruct ts as [|tk ts']; [discriminate|]. destruct tk; try discriminate.
    + injection E as _ <-. apply suffix_cons. now left.
    + destruct (utf8_valid s); [|discriminate]. destruct (ref_from_str s); try discriminate.
      injection E as _ <-. apply suffix_cons. now left.
  - destruct (de_SharedString m ts) as [[b r]| | |] eqn:E; cbn [rbind]; try discriminate. intros [= _ <-].
    unfold de_SharedString in E. destruct m; cbn [de_bytes17] in E; (destruct ts as [|tk ts']; [discriminate|]).
    + destruct (string_of_tok tk) as [s0| | |]; cbn [rbind] in E; try discriminate. destruct (b64_decode s0); [|discriminate].
      injection E as _ <-. apply suffix_cons. now left.
    + destruct tk; try discriminate; apply suffix_cons; right; now apply vec_u8_elems_suffix in E.
  - destruct (de_UniqueId m ts) as [[[[i t] z] r]| | |] eqn:E; cbn [rbind]; try discriminate. intros [= _ <-].
    destruct m; cbn [de_UniqueId] in E; (destruct ts as [|tk ts']; [discriminate|]); destruct tk; try discriminate.
    + destruct (utf8_valid s); [|discriminate]. destruct (uid_from_str s) as [[[i' t'] z']| | |]; cbn [rbind] in E; try discriminate.
      injection E as _ _ _ <-. apply suffix_cons. now left.
    + destruct (Nat.eqb (length b) 16); [|discriminate]. injection E as _ _ _ <-. apply suffix_cons. now left.
Qed.

(* ------------------------------------------------------------------------------ floats that travel as f64 *)
(* serde_json::Value (`to_value` / `from_value`) and every format without a 32-bit float keep an f32 as `v as f64`
   (BinValues.f64_of_f32) and hand it back through visit_f64, i.e. `as f32` (f64_to_f32).  That is the identity on
   every f32 that is not a NaN (a quiet NaN also survives; a signalling one comes back quiet). *)

Lemma split_div a K r : K <> 0 -> r < K -> (a * K + r) / K = a.
Proof. intros HK Hr. rewrite N.div_add_l by exact HK. rewrite (N.div_small r K Hr). lia. Qed.
Lemma split_mod a K r : K <> 0 -> r < K -> (a * K + r) mod K = r.
Proof. intros HK Hr. rewrite N.add_comm, N.mod_add by exact HK. now apply N.mod_small. Qed.

Lemma f64_fields sign ex mant : sign < 2 -> ex < 2048 -> mant < 4503599627370496 ->
  let B := sign * 9223372036854775808 + ex * 4503599627370496 + mant in
  (B / 9223372036854775808) mod 2 = sign /\ (B / 4503599627370496) mod 2048 = ex /\ B mod 4503599627370496 = mant.
Proof.
  intros Hs He Hm B. subst B. repeat split.
  - rewrite <- N.add_assoc. rewrite split_div by lia. now apply N.mod_small.
  - replace (sign * 9223372036854775808 + ex * 4503599627370496 + mant)
      with ((sign * 2048 + ex) * 4503599627370496 + mant) by lia.
    rewrite split_div by lia. rewrite split_mod by lia. reflexivity.
  - replace (sign * 9223372036854775808 + ex * 4503599627370496 + mant)
      with ((sign * 2048 + ex) * 4503599627370496 + mant) by lia.
    now rewrite split_mod by lia.
Qed.

Lemma rne_shr_exact q sh : sh <> 0 -> rne_shr (q * 2 ^ sh) sh = q.
Proof.
  intros Hsh. unfold rne_shr. rewrite (proj2 (N.eqb_neq sh 0) Hsh).
  assert (Hp : 2 ^ sh <> 0) by (apply N.pow_nonzero; discriminate).
  rewrite N.shiftr_div_pow2, N.div_mul, N.mod_mul by exact Hp.
  assert (Hh : 2 ^ (sh - 1) <> 0) by (apply N.pow_nonzero; discriminate).
  replace (2 ^ (sh - 1) <? 0) with false by (symmetry; apply N.ltb_ge; lia).
  replace (0 =? 2 ^ (sh - 1)) with false by (symmetry; apply N.eqb_neq; lia).
  reflexivity.
Qed.

Lemma f32_round_exact Q sh E q : Q <> 0 -> sh <> 0 ->
  (N.log2 Q = 23 /\ (-149 <= q)%Z) \/ (N.log2 Q < 23 /\ q = (-149)%Z) ->
  q = (E + Z.of_N sh)%Z -> Z.to_N (q + 149) * 8388608 + Q < 2139095040 ->
  f32_round (Q * 2 ^ sh) E = Z.to_N (q + 149) * 8388608 + Q.
Proof.
  intros HQ Hsh Hlog Hq Hlt. unfold f32_round.
  assert (Hp : 2 ^ sh <> 0) by (apply N.pow_nonzero; discriminate).
  replace (Q * 2 ^ sh =? 0) with false by (symmetry; apply N.eqb_neq; lia).
  rewrite N.log2_mul_pow2 by lia. cbv zeta.
  assert (Hmax : Z.max (Z.of_N (sh + N.log2 Q) + E - 23) (-149) = q) by lia.
  rewrite Hmax.
  replace (q <=? E)%Z with false by (symmetry; apply Z.leb_gt; lia).
  replace (Z.to_N (q - E)) with sh by lia.
  rewrite rne_shr_exact by exact Hsh.
  apply N.leb_gt in Hlt. now rewrite Hlt.
Qed.

Lemma f32_round_0 E : f32_round 0 E = 0.
Proof. reflexivity. Qed.

Lemma f32_decompose x : x < 2 ^ 32 ->
  let sign := x / 2147483648 in let e := (x / 8388608) mod 256 in let m := x mod 8388608 in
  sign < 2 /\ e < 256 /\ m < 8388608 /\ x = sign * 2147483648 + e * 8388608 + m.
Proof.
  intros Hx. cbv zeta. change (2 ^ 32) with 4294967296 in Hx.
  pose proof (N.div_mod' x 8388608) as H1.
  assert (H2 : x mod 8388608 < 8388608) by (apply N.mod_lt; lia).
  assert (H6 : x / 2147483648 = x / 8388608 / 256) by (rewrite N.div_div by lia; reflexivity).
  set (y := x / 8388608) in *.
  assert (H3 : y < 512) by (apply N.div_lt_upper_bound; lia).
  pose proof (N.div_mod' y 256) as H4.
  assert (H5 : y mod 256 < 256) by (apply N.mod_lt; lia).
  assert (H7 : y / 256 < 2) by (apply N.div_lt_upper_bound; lia).
  rewrite H6. lia.
Qed.

(* `f32 as f64 as f32` gives the f32 back (a NaN excepted: a signalling one comes back quiet) *)
Theorem f32_via_f64 : forall x, x < 2 ^ 32 -> f32_is_nan x = false -> f64_to_f32 (f64_of_f32 x) = x.
Proof.
  intros x Hx Hnan. destruct (f32_decompose x Hx) as (Hs & He & Hm & Hdec).
  unfold f64_of_f32. cbv zeta.
  remember (x / 2147483648) as sign eqn:Esign. remember ((x / 8388608) mod 256) as e eqn:Ee.
  remember (x mod 8388608) as m eqn:Em.
  (* not a NaN: e < 255, or e = 255 and m = 0 *)
  assert (Hfin : e < 255 \/ (e = 255 /\ m = 0)).
  { unfold f32_is_nan, f32_abs_bits in Hnan. apply N.ltb_ge in Hnan.
    replace (x mod 2147483648) with (e * 8388608 + m) in Hnan
      by (rewrite Hdec, <- N.add_assoc, split_mod by lia; reflexivity).
    lia. }
  destruct (N.eqb e 255) eqn:E255.
  { apply N.eqb_eq in E255. destruct Hfin as [Hlt|[_ Hm0]]; [lia|]. subst m. rewrite Hm0. cbn [N.eqb].
    change 0x7FF0000000000000 with (2047 * 4503599627370496).
    rewrite <- (N.add_0_r (sign * 9223372036854775808 + 2047 * 4503599627370496)).
    destruct (f64_fields sign 2047 0) as (F1 & F2 & F3); try lia.
    unfold f64_to_f32. cbv zeta. rewrite F1, F2, F3. cbn [N.eqb Pos.eqb]. lia. }
  apply N.eqb_neq in E255. assert (He' : e < 255) by lia. clear Hfin.
  destruct (N.eqb e 0) eqn:E0.
  - apply N.eqb_eq in E0. destruct (N.eqb m 0) eqn:M0.
    + apply N.eqb_eq in M0.
      replace (sign * 9223372036854775808) with (sign * 9223372036854775808 + 0 * 4503599627370496 + 0) by lia.
      destruct (f64_fields sign 0 0) as (F1 & F2 & F3); try lia.
      unfold f64_to_f32. cbv zeta. rewrite F1, F2, F3. cbn [N.eqb]. rewrite f32_round_0. lia.
    + apply N.eqb_neq in M0.
      set (k := N.log2 m).
      destruct (N.log2_spec m) as [Hlo Hhi]; [lia|]. fold k in Hlo, Hhi.
      assert (Hk : k < 23) by (apply N.log2_lt_pow2; [lia|exact Hm]).
      assert (Hpow : 2 ^ k * 2 ^ (52 - k) = 4503599627370496).
      { rewrite <- N.pow_add_r. replace (k + (52 - k)) with 52 by lia. reflexivity. }
      assert (Hsucc : 2 ^ N.succ k = 2 * 2 ^ k) by apply N.pow_succ_r'.
      assert (Hp2 : 0 < 2 ^ (52 - k)) by (apply N.neq_0_lt_0, N.pow_nonzero; discriminate).
      assert (Hmant : (m - 2 ^ k) * 2 ^ (52 - k) < 4503599627370496).
      { rewrite <- Hpow. apply N.mul_lt_mono_pos_r; [exact Hp2|lia]. }
      destruct (f64_fields sign (k + 874) ((m - 2 ^ k) * 2 ^ (52 - k))) as (F1 & F2 & F3); try lia.
      unfold f64_to_f32. cbv zeta. rewrite F1, F2, F3.
      replace (k + 874 =? 2047) with false by (symmetry; apply N.eqb_neq; lia).
      replace (k + 874 =? 0) with false by (symmetry; apply N.eqb_neq; lia).
      replace (4503599627370496 + (m - 2 ^ k) * 2 ^ (52 - k)) with (m * 2 ^ (52 - k)).
      2:{ rewrite <- Hpow, <- N.mul_add_distr_r. f_equal. lia. }
      rewrite (f32_round_exact m (52 - k) _ (-149)%Z); [lia|lia|lia|right; split; [exact Hk|reflexivity]|lia|lia].
  - apply N.eqb_neq in E0.
    assert (Hmant : m * 536870912 < 4503599627370496) by lia.
    destruct (f64_fields sign (e + 896) (m * 536870912)) as (F1 & F2 & F3); try lia.
    unfold f64_to_f32. cbv zeta. rewrite F1, F2, F3.
    replace (e + 896 =? 2047) with false by (symmetry; apply N.eqb_neq; lia).
    replace (e + 896 =? 0) with false by (symmetry; apply N.eqb_neq; lia).
    replace (4503599627370496 + m * 536870912) with ((8388608 + m) * 2 ^ 29) by (change (2 ^ 29) with 536870912; lia).
    assert (Hlog : N.log2 (8388608 + m) = 23).
    { apply N.log2_unique; [lia|]. change (2 ^ 23) with 8388608. change (2 ^ N.succ 23) with 16777216. lia. }
    rewrite (f32_round_exact (8388608 + m) 29 _ (Z.of_N e - 150)%Z); [lia|lia|lia|left; split; [exact Hlog|lia]|lia|lia].
Qed.

Corollary f32_of_tok_widened : forall x, x < 2 ^ 32 -> f32_is_nan x = false -> f32_of_tok (TF64 (f64_of_f32 x)) = Ok x.
Proof. intros x Hx Hn. cbn [f32_of_tok]. now rewrite f32_via_f64. Qed.

Example f32_via_f64_ex :
  f64_to_f32 (f64_of_f32 1) = 1 /\ f64_to_f32 (f64_of_f32 2155872255) = 2155872255 /\      (* subnormals of both signs *)
  f64_to_f32 (f64_of_f32 2139095039) = 2139095039 /\ f64_to_f32 (f64_of_f32 4286578688) = 4286578688 /\  (* f32::MAX, -inf *)
  f64_to_f32 (f64_of_f32 2143289345) = 2143289345.                                             (* a quiet NaN *)
Proof. vm_compute. repeat split; reflexivity. Qed.
Example f32_via_f64_snan_refuted : f32_is_nan 2139095041 = true /\ f64_to_f32 (f64_of_f32 2139095041) = 2143289345.
Proof. vm_compute. split; reflexivity. Qed.

(* a JSON-like object whose numbers are f64: any order of the entries, every finite or infinite field value *)
Theorem phys_human_object_f64 : forall p order n rest, NoDup order -> (forall f, In f order) ->
  (forall f, phys_get p f < 2 ^ 32 /\ f32_is_nan (phys_get p f) = false) ->
  de_PhysicalProperties Human
    (TMap n :: flat_map (fun f => [TStr (field_name f); TF64 (f64_of_f32 (phys_get p f))]) order ++ TMapEnd :: rest)
  = Ok (Some p, rest).
Proof.
  intros p order n rest Hnd Hall Hp. cbn [de_PhysicalProperties].
  rewrite (custom_map_any_order_gen true CMapEnd (fun f => TStr (field_name f)) (fun f => TF64 (f64_of_f32 (phys_get p f))) TMapEnd p order rest);
    [reflexivity
    |intros f; destruct f; vm_compute; reflexivity
    |intros f; reflexivity
    |reflexivity
    |intros f; destruct (Hp f) as [H1 H2]; now apply f32_of_tok_widened
    |exact Hnd
    |exact Hall].
Qed.
