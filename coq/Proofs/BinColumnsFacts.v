(* BinColumnsFacts.v — the value a class column holds for an instance (BinFile.prop_value): own value under
   the canonical name, else under an alias, else the default; independence from the order in which the
   instance's property map is iterated; and computed samples for C07 (re-save fixed point) and C08 (legacy
   + alias spellings of one logical property in both sibling orders, on a three-descriptor database). *)
From Coq Require Import Lia Permutation.
From RbxVerif Require Import Base Bytes Value Db CodecDom BinValues BinFile BinFileFacts.
Open Scope N_scope.

Lemma bytes_eqb_refl a : bytes_eqb a a = true.
Proof. induction a as [|x a IH]; cbn; auto. rewrite N.eqb_refl. exact IH. Qed.

Lemma bytes_eqb_eq a b : bytes_eqb a b = true -> a = b.
Proof.
  revert b. induction a as [|x a IH]; intros [|y b] H; cbn in H; try discriminate; auto.
  apply andb_true_iff in H. destruct H as [H1 H2]. apply N.eqb_eq in H1. apply IH in H2. congruence.
Qed.

Lemma bfind_in {V} k (m : list (bytes * V)) v : bfind k m = Some v -> In (k, v) m.
Proof.
  induction m as [|[k' v'] m IH]; cbn; [discriminate|].
  destruct (bytes_eqb k k') eqn:E.
  - intros [= ->]. apply bytes_eqb_eq in E. subst. now left.
  - intros H. right. now apply IH.
Qed.

Lemma bfind_none_notin {V} k (m : list (bytes * V)) : bfind k m = None -> ~ In k (List.map fst m).
Proof.
  induction m as [|[k' v'] m IH]; cbn; [tauto|].
  destruct (bytes_eqb k k') eqn:E; [discriminate|].
  intros H [Heq|Hin]; [|now apply IH].
  subst. rewrite bytes_eqb_refl in E. discriminate.
Qed.

Lemma in_bfind {V} k v (m : list (bytes * V)) : NoDup (List.map fst m) -> In (k, v) m -> bfind k m = Some v.
Proof.
  induction m as [|[k' v'] m IH]; cbn; [tauto|].
  intros Hnd [Heq|Hin].
  - injection Heq as -> ->. now rewrite bytes_eqb_refl.
  - apply NoDup_cons_iff in Hnd. destruct Hnd as [Hk Hnd].
    destruct (bytes_eqb k k') eqn:E.
    + apply bytes_eqb_eq in E. subst. exfalso. apply Hk. apply in_map_iff. now exists (k', v).
    + now apply IH.
Qed.

(* a property map is looked up by key only: any two listings of the same map give the same lookups *)
Lemma bfind_perm {V} k (m m' : list (bytes * V)) :
  NoDup (List.map fst m) -> Permutation m m' -> bfind k m = bfind k m'.
Proof.
  intros Hnd Hp.
  assert (Hnd' : NoDup (List.map fst m')) by (eapply Permutation_NoDup; [apply Permutation_map; exact Hp|exact Hnd]).
  destruct (bfind k m) as [v|] eqn:E.
  - symmetry. apply in_bfind; [exact Hnd'|]. eapply Permutation_in; [exact Hp|]. now apply bfind_in.
  - destruct (bfind k m') as [v'|] eqn:E'; [|reflexivity].
    exfalso. apply bfind_none_notin in E. apply E. apply bfind_in in E'.
    apply in_map_iff. exists (k, v'). split; [reflexivity|]. eapply Permutation_in; [apply Permutation_sym; exact Hp|exact E'].
Qed.

(* C07 (column level): the value a column takes from an instance does not depend on the order in which the
   instance's properties are listed *)
Theorem prop_value_perm p canon pi order (i i' : inst) :
  i_name i = i_name i' -> NoDup (List.map fst (i_props i)) -> Permutation (i_props i) (i_props i') ->
  prop_value p canon pi order i = prop_value p canon pi order i'.
Proof.
  intros Hn Hnd Hp. unfold prop_value. rewrite Hn.
  rewrite (bfind_perm canon _ _ Hnd Hp).
  assert (E : forall a, bfind a (i_props i) = bfind a (i_props i')) by (intros a; now apply bfind_perm).
  assert (F : find (fun a => match bfind a (i_props i) with Some _ => true | None => false end) order
            = find (fun a => match bfind a (i_props i') with Some _ => true | None => false end) order).
  { induction order as [|a l IH]; cbn [find]; [reflexivity|]. cbv beta. rewrite E. destruct (bfind a (i_props i')); [reflexivity|exact IH]. }
  assert (G : match find (fun a => match bfind a (i_props i) with Some _ => true | None => false end) order with
              | Some a => match bfind a (i_props i) with Some v => v | None => pi_default pi end
              | None => pi_default pi end
            = match find (fun a => match bfind a (i_props i') with Some _ => true | None => false end) order with
              | Some a => match bfind a (i_props i') with Some v => v | None => pi_default pi end
              | None => pi_default pi end).
  { rewrite F. destruct (find (fun a => match bfind a (i_props i') with Some _ => true | None => false end) order) as [a|];
      [rewrite E|]; reflexivity. }
  rewrite G. reflexivity.
Qed.

(* C08 (column level): an instance that carries the canonical property keeps its own value ... *)
Theorem prop_value_own p canon pi order i v :
  bytes_eqb canon NAME = false -> pi_migration pi = None -> bfind canon (i_props i) = Some v ->
  prop_value p canon pi order i = v.
Proof. intros Hn Hm Hf. unfold prop_value. now rewrite Hn, Hf, Hm. Qed.

(* ... under an alias when that is the spelling it carries ... *)
Theorem prop_value_alias p canon pi i a v :
  bytes_eqb canon NAME = false -> pi_migration pi = None -> bfind canon (i_props i) = None ->
  bfind a (i_props i) = Some v ->
  prop_value p canon pi [a] i = v.
Proof. intros Hn Hm Hc Ha. unfold prop_value. rewrite Hn, Hc, Hm. cbn [find]. cbv beta. rewrite Ha. rewrite Ha. reflexivity. Qed.

(* ... and one that carries no spelling of it gets the column default, never a neighbour's value *)
Theorem prop_value_default p canon pi order i :
  bytes_eqb canon NAME = false -> pi_migration pi = None -> bfind canon (i_props i) = None ->
  (forall a, In a order -> bfind a (i_props i) = None) ->
  prop_value p canon pi order i = pi_default pi.
Proof.
  intros Hn Hm Hc Ha. unfold prop_value. rewrite Hn, Hc, Hm.
  assert (F : find (fun a => match bfind a (i_props i) with Some _ => true | None => false end) order = None).
  { induction order as [|a l IH]; cbn [find]; [reflexivity|]. cbv beta. rewrite (Ha a) by now left. apply IH. intros b Hb. apply Ha. now right. }
  now rewrite F.
Qed.

(* ------------------------------------------------------------------------------------------ *)
(* computed samples                                                                             *)
(* ------------------------------------------------------------------------------------------ *)
(* C07: saving what was loaded from the sample file reproduces the file (fixed point) *)
Theorem sample_resave_fixed_point :
  match decode_file db0 (dp0 None) sample_file with
  | Ok d => encode_file db0 ep0 None d [2] = Ok sample_file
  | _ => False
  end.
Proof. vm_compute. reflexivity. Qed.

(* C08: a database with the three descriptors of BasePart's colour: legacy BrickColor (migrates to Color),
   Color (serializes as Color3uint8), Color3uint8 (alias of Color) *)
Open Scope string_scope.
Definition part_class : cdesc :=
  mkCD "Part" None false
    [ mkPD "BrickColor" (DValue 3) (KCanon (PMigrate "Color" MigBrick));
      mkPD "Color" (DValue 5) (KCanon (PSerAs "Color3uint8"));
      mkPD "Color3uint8" (DValue 6) (KAlias "Color") ]
    [ ("Color", VColor3 0 0 0) ].
Definition db_part : db := mkDb [part_class] [].
Definition ep_part : enc_params := mkEP [] [(194, (163, 162, 165))] (fun _ => 0) (fun l => l) [].
Definition dp_part : dec_params := mkDP [] [(194, (163, 162, 165))] (fun _ _ => None) (VUniqueId 0 0 0%Z) None.
Definition legacy_part (r : N) : inst := mkInst r 0 (bstr "Part") (bstr "L") [(bstr "BrickColor", VBrickColor 194)].
Definition alias_part (r : N) : inst := mkInst r 0 (bstr "Part") (bstr "A") [(bstr "Color3uint8", VColor3uint8 1 2 3)].
Close Scope string_scope.

Definition colour_of (d : res cdom) : list (bytes * option value) :=
  match d with Ok l => List.map (fun i => (i_name i, bfind (bstr "Color") (i_props i))) l | _ => [] end.

(* [Part{BrickColor}, Part{Color3uint8}] serializes in both sibling orders (and each alone), and each instance
   reads back its own colour (the legacy one migrated) *)
Definition enc_part (d : cdom) (roots : list N) : res bytes := encode_file db_part ep_part None d roots.
Definition is_ok {A} (r : res A) : bool := match r with Ok _ => true | _ => false end.
Definition roundtrip_colours (d : cdom) (roots : list N) : list (bytes * option value) :=
  match enc_part d roots with Ok b => colour_of (decode_file db_part dp_part b) | _ => [] end.

Theorem c08_sample_both_orders :
  is_ok (enc_part [legacy_part 1] [1]) = true /\
  is_ok (enc_part [alias_part 1] [1]) = true /\
  roundtrip_colours [legacy_part 1; alias_part 2] [1; 2]
    = [(bstr "L", Some (VColor3uint8 163 162 165)); (bstr "A", Some (VColor3uint8 1 2 3))] /\
  roundtrip_colours [alias_part 1; legacy_part 2] [1; 2]
    = [(bstr "A", Some (VColor3uint8 1 2 3)); (bstr "L", Some (VColor3uint8 163 162 165))].
Proof.
  split; [vm_compute; reflexivity|]. split; [vm_compute; reflexivity|].
  split; vm_compute; reflexivity.
Qed.
