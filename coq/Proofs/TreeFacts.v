(* TreeFacts.v — induction principle and unfolding equations for the rose trees of Model/Tree.v,
   and the basic facts about flattening (the abstraction function's image). *)
From RbxVerif Require Import Base Dom Tree BaseFacts.
From Coq Require Import Lia.

Section TreeInd.
  Variable P : tree -> Prop.
  Hypothesis H : forall r n c ps kids, Forall P kids -> P (Node r n c ps kids).
  Fixpoint tree_ind' (t : tree) : P t :=
    match t with
    | Node r n c ps kids =>
        H r n c ps kids
          ((fix go (ks : list tree) : Forall P ks :=
              match ks with
              | [] => Forall_nil P
              | k :: ks' => Forall_cons k (tree_ind' k) (go ks')
              end) kids)
    end.
End TreeInd.

Section BTreeInd.
  Variable P : btree -> Prop.
  Hypothesis H : forall r n c ps kids, Forall P kids -> P (BNode r n c ps kids).
  Fixpoint btree_ind' (t : btree) : P t :=
    match t with
    | BNode r n c ps kids =>
        H r n c ps kids
          ((fix go (ks : list btree) : Forall P ks :=
              match ks with
              | [] => Forall_nil P
              | k :: ks' => Forall_cons k (btree_ind' k) (go ks')
              end) kids)
    end.
End BTreeInd.

(* ---- unfolding equations: the nested local fixpoints are ordinary list functions ---- *)

Lemma trefs_eq r n c ps kids : trefs (Node r n c ps kids) = r :: frefs kids.
Proof. reflexivity. Qed.

Lemma tsize_eq r n c ps kids : tsize (Node r n c ps kids) = S (fsize kids).
Proof. reflexivity. Qed.

Lemma tuids_eq r n c ps kids :
  tuids (Node r n c ps kids) = (match get_uid ps with Some u => [u] | None => [] end) ++ fuids kids.
Proof. reflexivity. Qed.

Lemma tfind_eq r x n c ps kids :
  tfind r (Node x n c ps kids) = if N.eqb x r then Some (Node x n c ps kids) else ffind r kids.
Proof.
  cbn. destruct (N.eqb x r); [reflexivity|].
  induction kids as [|k ks IH]; cbn; [reflexivity|]. destruct (tfind r k); [reflexivity|exact IH].
Qed.

Lemma tdel_eq r x n c ps kids :
  tdel r (Node x n c ps kids) = if N.eqb x r then None else Some (Node x n c ps (fdel r kids)).
Proof.
  cbn. destruct (N.eqb x r); [reflexivity|]. do 2 f_equal.
  induction kids as [|k ks IH]; cbn; [reflexivity|]. destruct (tdel r k); now rewrite IH.
Qed.

Lemma tgraft_eq p sub x n c ps kids :
  tgraft p sub (Node x n c ps kids) =
  if N.eqb x p then Node x n c ps (List.map (tgraft p sub) kids ++ [sub])
  else Node x n c ps (List.map (tgraft p sub) kids).
Proof. cbn. destruct (N.eqb x p); reflexivity. Qed.

Lemma tmap_eq f x n c ps kids :
  tmap f (Node x n c ps kids) = let '(x', ps') := f x ps in Node x' n c ps' (List.map (tmap f) kids).
Proof. cbn. destruct (f x ps); reflexivity. Qed.

Lemma tflat_eq p r n c ps kids :
  tflat p (Node r n c ps kids) = (r, mkInst p (List.map troot kids) n c ps) :: flat_map (tflat r) kids.
Proof. reflexivity. Qed.

Lemma tree_of_builder_eq r n c ps kids :
  tree_of_builder (BNode r n c ps kids) = Node r n c (props_of_list ps) (List.map tree_of_builder kids).
Proof. reflexivity. Qed.

Lemma bsize_eq r n c ps kids :
  bsize (BNode r n c ps kids) = S (fold_right (fun k acc => bsize k + acc)%nat O kids).
Proof. reflexivity. Qed.

Global Opaque trefs tsize tuids tfind tdel tgraft tmap tflat tree_of_builder.

(* ---- keys of a flattened tree are its referents ---- *)

Lemma keys_tflat p t : keys (tflat p t) = trefs t.
Proof.
  revert p. induction t as [r n c ps kids IH] using tree_ind'. intros p.
  rewrite tflat_eq, trefs_eq. cbn. f_equal. unfold keys, frefs in *.
  induction kids as [|k ks IHk]; cbn; [reflexivity|].
  inversion IH as [|? ? Hk Hks]; subst. rewrite map_app. rewrite Hk. f_equal. now apply IHk.
Qed.

Lemma keys_fflat p ts : keys (flat_map (tflat p) ts) = frefs ts.
Proof.
  unfold keys, frefs. induction ts as [|t ts IH]; cbn; [reflexivity|].
  rewrite map_app. f_equal; [apply keys_tflat|exact IH].
Qed.

Lemma lookup_tflat_notin p t x : ~ In x (trefs t) -> lookup x (tflat p t) = None.
Proof. intros H. apply lookup_None_notin. now rewrite keys_tflat. Qed.

Lemma lookup_fflat_notin p ts x : ~ In x (frefs ts) -> lookup x (flat_map (tflat p) ts) = None.
Proof. intros H. apply lookup_None_notin. now rewrite keys_fflat. Qed.

Lemma lookup_tflat_in p t x : In x (trefs t) -> exists i, lookup x (tflat p t) = Some i.
Proof.
  intros H. destruct (lookup x (tflat p t)) eqn:E; [eauto|].
  apply lookup_None_notin in E. rewrite keys_tflat in E. contradiction.
Qed.

Lemma lookup_fflat_in p ts x : In x (frefs ts) -> exists i, lookup x (flat_map (tflat p) ts) = Some i.
Proof.
  intros H. destruct (lookup x (flat_map (tflat p) ts)) eqn:E; [eauto|].
  apply lookup_None_notin in E. rewrite keys_fflat in E. contradiction.
Qed.

Lemma lookup_tflat_root p r n c ps kids :
  lookup r (tflat p (Node r n c ps kids)) = Some (mkInst p (List.map troot kids) n c ps).
Proof. rewrite tflat_eq. cbn. now rewrite N.eqb_refl. Qed.

Lemma lookup_tflat_node p r n c ps kids x :
  lookup x (tflat p (Node r n c ps kids)) =
  if N.eqb x r then Some (mkInst p (List.map troot kids) n c ps) else lookup x (flat_map (tflat r) kids).
Proof. rewrite tflat_eq. reflexivity. Qed.

Lemma lookup_fflat_cons p t ts x :
  lookup x (flat_map (tflat p) (t :: ts)) =
  match lookup x (tflat p t) with Some i => Some i | None => lookup x (flat_map (tflat p) ts) end.
Proof. cbn. apply lookup_app. Qed.

Lemma frefs_cons t ts : frefs (t :: ts) = trefs t ++ frefs ts.
Proof. reflexivity. Qed.
Lemma frefs_app a b : frefs (a ++ b) = frefs a ++ frefs b.
Proof. unfold frefs. apply flat_map_app. Qed.
Lemma fsize_cons t ts : fsize (t :: ts) = (tsize t + fsize ts)%nat.
Proof. reflexivity. Qed.
Lemma fsize_app a b : fsize (a ++ b) = (fsize a + fsize b)%nat.
Proof. induction a as [|t a IH]; [reflexivity|]. cbn [app]. rewrite !fsize_cons, IH. lia. Qed.
Lemma troot_in_trefs t : In (troot t) (trefs t).
Proof. destruct t. rewrite trefs_eq. now left. Qed.
Lemma tsize_pos t : (0 < tsize t)%nat.
Proof. destruct t. rewrite tsize_eq. lia. Qed.
Lemma length_frefs_from ks :
  Forall (fun k => length (trefs k) = tsize k) ks -> length (frefs ks) = fsize ks.
Proof.
  induction 1 as [|k ks Hk _ IH]; [reflexivity|].
  rewrite frefs_cons, fsize_cons, app_length. lia.
Qed.
Lemma length_trefs t : length (trefs t) = tsize t.
Proof.
  induction t as [r n c ps kids IH] using tree_ind'. rewrite trefs_eq, tsize_eq. cbn [length]. f_equal.
  now apply length_frefs_from.
Qed.
Lemma length_frefs ts : length (frefs ts) = fsize ts.
Proof. apply length_frefs_from. apply Forall_forall. intros. apply length_trefs. Qed.

(* NoDup helpers *)
Lemma NoDup_app_l {A} (a b : list A) : NoDup (a ++ b) -> NoDup a.
Proof. induction a as [|x a IH]; cbn; intros H; [constructor|]. inversion H; subst. constructor; [rewrite in_app_iff in *; tauto|auto]. Qed.
Lemma NoDup_app_r {A} (a b : list A) : NoDup (a ++ b) -> NoDup b.
Proof. induction a as [|x a IH]; cbn; intros H; [exact H|]. inversion H; subst. auto. Qed.
Lemma NoDup_app_disj {A} (a b : list A) x : NoDup (a ++ b) -> In x a -> In x b -> False.
Proof.
  induction a as [|y a IH]; cbn; intros H Ha Hb; [contradiction|]. inversion H; subst.
  destruct Ha as [->|Ha]; [apply H2; rewrite in_app_iff; tauto|eauto].
Qed.
Lemma NoDup_app_intro {A} (a b : list A) :
  NoDup a -> NoDup b -> (forall x, In x a -> In x b -> False) -> NoDup (a ++ b).
Proof.
  induction a as [|y a IH]; cbn; intros Ha Hb Hd; [exact Hb|]. inversion Ha; subst.
  constructor; [rewrite in_app_iff; intros [H|H]; [contradiction|eapply Hd; eauto]|apply IH; eauto].
Qed.
