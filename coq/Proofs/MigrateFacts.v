(* MigrateFacts.v — property C15: what the migration tables (regenerated from migration.rs and
   brick_color.rs) can and cannot migrate, over the bundled database (regenerated from what the crates load). *)
From RbxVerif Require Import Base Bytes Value Db MigrationTables Database.
From Coq Require Import Lia.
Open Scope N_scope.

Definition mig := migrate font_migration_table brick_color_table.

(* the items of an enum of the bundled database *)
Definition enum_items (name : string) : list (string * N) :=
  match find_enum (db_enums database) name with Some e => ed_items e | None => [] end.

(* all Migrate descriptors of the database: (class, legacy property, new property, operation) *)
Definition migrations_of (d : db) : list (string * string * string * migop) :=
  flat_map (fun c => flat_map (fun p => match pd_kind p with
                                         | KCanon (PMigrate to op) => [(cd_name c, pd_name p, to, op)]
                                         | _ => [] end) (cd_props c)) (db_classes d).

Definition is_some {A} (o : option A) : bool := match o with Some _ => true | None => false end.

(* both booleans migrate (IgnoreGuiInset -> ScreenInsets) *)
Lemma inset_total : forall b, mig MigInset (VBool b) = Some (VEnum (if b then 1 else 2)).
Proof. intros []; reflexivity. Qed.

(* every ContentId migrates: empty -> Content::none(), otherwise Content::from_uri *)
Lemma content_total : forall u, mig MigContent (VContentId u) = Some (VContent (match u with [] => CNone | _ => CUri u end)).
Proof. reflexivity. Qed.

(* every BrickColor of the table migrates to its own colour *)
Lemma brick_total :
  forallb (fun e => match mig MigBrick (VBrickColor (fst e)) with
                    | Some (VColor3uint8 r g b) => let '(r', g', b') := snd e in N.eqb r r' && N.eqb g g' && N.eqb b b'
                    | _ => false end) brick_color_table = true.
Proof. vm_compute. reflexivity. Qed.

Lemma brick_total_In : forall n rgb, In (n, rgb) brick_color_table -> is_some (mig MigBrick (VBrickColor n)) = true.
Proof.
  intros n rgb H. pose proof brick_total as T. rewrite forallb_forall in T. specialize (T _ H). cbn [fst] in T.
  destruct (mig MigBrick (VBrickColor n)); [reflexivity|discriminate].
Qed.

(* Enum.Font: exactly the items with value <= 45 are migratable *)
Definition font_items := enum_items "Font".
Definition font_unmigratable : list (string * N) :=
  filter (fun it => negb (is_some (mig MigFont (VEnum (snd it))))) font_items.

Lemma font_items_nonempty : (46 <= length font_items)%nat.
Proof. vm_compute. lia. Qed.

(* the property's clause "every value of the legacy type that the database's own enum tables allow is
   migratable" is FALSE for Enum.Font on the bundled database: these items have no FontToFontFace arm *)
Lemma font_unmigratable_refuted :
  font_unmigratable <> [] /\ forallb (fun it => N.ltb 45 (snd it)) font_unmigratable = true.
Proof. split; [vm_compute; discriminate|vm_compute; reflexivity]. Qed.

Lemma font_migratable_below_46 :
  forallb (fun it => if N.leb (snd it) 45 then is_some (mig MigFont (VEnum (snd it))) else true) font_items = true.
Proof. vm_compute. reflexivity. Qed.

(* the migration result never depends on anything but the legacy value: the four code paths (binary write,
   XML write, binary read, XML read) all call this one function, so they agree whenever they all perform it *)
Lemma migrate_functional : forall op v w1 w2, mig op v = Some w1 -> mig op v = Some w2 -> w1 = w2.
Proof. intros op v w1 w2 H1 H2. congruence. Qed.

(* the result type of each operation is fixed *)
Lemma migrate_result_type : forall op v w, mig op v = Some w ->
  match op with
  | MigInset => vtype w = 9     (* Enum *)
  | MigFont => vtype w = 34     (* Font *)
  | MigBrick => vtype w = 6     (* Color3uint8 *)
  | MigContent => vtype w = 39  (* Content *)
  end.
Proof.
  intros op v w H. unfold mig, migrate in H.
  destruct op, v; try discriminate.
  - injection H as <-. reflexivity.
  - destruct (font_lookup font_migration_table n) as [[[f wt] st]|]; [injection H as <-; reflexivity|discriminate].
  - destruct (brick_lookup brick_color_table n) as [[[r g] b]|]; [injection H as <-; reflexivity|discriminate].
  - injection H as <-. reflexivity.
Qed.

(* the Migrate pairs of the bundled database (12 at the pinned version) *)
Definition bundled_migrations := migrations_of database.
Lemma bundled_migrations_count : length bundled_migrations = 12%nat.
Proof. vm_compute. reflexivity. Qed.
