(* XmlRoundTrip.v — property C02, the whole-file theorem: for arbitrary DOMs,
       xml_encode e ebeh d roots = Ok evs  ->  channel evs = Ok revs  ->  xml_decode e dbeh revs = Ok d'  /\  d' ~ d|roots.
   Method.  (0) three context lemmas: the channel on a well-nested element does not depend on its context
   ([chan_elems_closed]); readers do not look beyond what they consume ([stable_read_value_xml]); association lists.
   (1)-(2) the run of the writer is inverted into a tree of items ([witem], [enc_item]): for each written instance its
   referent number, class, name, the property elements actually written ([pelem]: what [ser_plan] says) and its children.
   (3)-(7) the first pass of the reader on the channelled events of such a tree, generically in what deserialize_property
   makes of a property element ([dout], [p_good], [dec_item], [root_items], [decode_view]); the fuel the model passes is
   shown sufficient.  (8) the two rewrite passes, per instance and per key.  (9)-(12) the whole-file theorems:
     xml_roundtrip_forest_generic      A1 for ANY pair of behaviours and ANY database, given what the reader does ([dec_law])
     xml_roundtrip_forest_reflection   A1 with the reader's step computed from the database ([refl_plan]): the hypotheses are
                                       database lookups; example [xml_roundtrip_reflection_example] (default behaviours)
     xml_roundtrip                     the plain pairing (no reflection, or WriteUnknown/ReadUnknown over properties the
                                       database does not know): forest, values, Refs, SharedStrings in one statement
   (13)-(14) the headline corollaries  xml_roundtrip_forest (A1)  xml_roundtrip_values (A2, generic in the per-value law)
     xml_roundtrip_simple_types (A2 closed: 26 value types)  xml_roundtrip_refs (A3).
   (15) [input_okb]: the well-formedness predicate is executable.  (16) non-vacuity: [xml_roundtrip_example].
   (17) every hypothesis is needed: closed counter-examples (`_refuted`).
   Standard library only. *)
From Coq Require Import List NArith ZArith Bool Lia String Permutation Sorted.
From RbxVerif Require Import Base Bytes Value Db CodecDom XmlEvents XmlValues XmlFile XmlInt XmlText XmlBase64 XmlCompound XmlCompound2
  XmlFileFacts XmlDeterminism XmlStructure.
Import ListNotations.
Open Scope list_scope.
Open Scope N_scope.

(* ================================================================= (0a) the channel on well-nested event lists *)
(* what the channel makes of a tree / a forest met in text state [t]: the events delivered and the text state afterwards *)
Fixpoint rn (n : wnode) (t : tstate) : list revent * tstate :=
  match n with
  | WNode tag a ks =>
      let r := (fix go (l : list wnode) (t : tstate) : list revent * tstate :=
                  match l with
                  | [] => ([], t)
                  | k :: l' => let r1 := rn k t in let r2 := go l' (snd r1) in (fst r1 ++ fst r2, snd r2)
                  end) ks t0 in
      (flush t ++ RStart tag a :: fst r ++ flush (snd r) ++ [REnd tag], t0)
  | WText s => ([], mkT (tbuf t ++ s) (tiws t && all_ws s))
  | WCD s => (flush t ++ List.map RCData (split_cdata s), mkT [] (last_ws (split_cdata s) true))
  end.
Fixpoint rns (l : list wnode) (t : tstate) : list revent * tstate :=
  match l with
  | [] => ([], t)
  | k :: l' => let r1 := rn k t in let r2 := rns l' (snd r1) in (fst r1 ++ fst r2, snd r2)
  end.
Lemma rn_node tag a ks t :
  rn (WNode tag a ks) t = (flush t ++ RStart tag a :: fst (rns ks t0) ++ flush (snd (rns ks t0)) ++ [REnd tag], t0).
Proof. reflexivity. Qed.

Lemma chan_rn_rns :
  (forall n stack t rest, (stack <> [] \/ exists tag a ks, n = WNode tag a ks) ->
     chan_go stack t (flat n ++ rest) = (r <- chan_go stack (snd (rn n t)) rest ;; Ok (fst (rn n t) ++ r))).
Proof.
  induction n as [tag a ks IH| |] using wnode_ind'; intros stack t rest Hs.
  - rewrite rn_node. cbn [flat app chan_go fst snd]. rewrite <- app_assoc.
    assert (H : forall t1 rest', chan_go (tag :: stack) t1 (flat_map flat ks ++ rest')
                = (r <- chan_go (tag :: stack) (snd (rns ks t1)) rest' ;; Ok (fst (rns ks t1) ++ r))).
    { clear Hs. induction IH as [|x l Hx Hl IHl]; intros t1 rest'.
      - cbn [flat_map app rns fst snd]. destruct (chan_go (tag :: stack) t1 rest'); reflexivity.
      - cbn [flat_map rns fst snd]. rewrite <- app_assoc. rewrite Hx by (left; discriminate). rewrite IHl.
        destruct (chan_go (tag :: stack) (snd (rns l (snd (rn x t1)))) rest'); cbn [rbind]; try reflexivity.
        rewrite <- app_assoc. reflexivity. }
    rewrite H. cbn [app chan_go]. destruct (chan_go stack t0 rest) as [r| |c|]; cbn [rbind]; try reflexivity.
    rewrite <- !app_assoc. cbn [app]. rewrite <- !app_assoc. reflexivity.
  - destruct Hs as [Hs|(tag & a & ks & E)]; [|discriminate E]. cbn [flat app chan_go rn fst snd].
    destruct stack; [congruence|]. destruct (chan_go _ _ rest); reflexivity.
  - destruct Hs as [Hs|(tag & a & ks & E)]; [|discriminate E]. cbn [flat app chan_go rn fst snd].
    destruct stack; [congruence|]. destruct (chan_go _ _ rest); cbn [rbind]; try reflexivity.
    rewrite <- app_assoc. reflexivity.
Qed.

(* a complete element the channel accepts on its own is accepted, with the same events, in every context *)
Lemma chan_elems_closed tag a ks revs :
  chan_go [] t0 (flat (WNode tag a ks)) = Ok revs -> chan_elems (flat (WNode tag a ks)) revs.
Proof.
  intros H stack t rest r Hr.
  assert (Hn : exists tag0 a0 ks0, WNode tag a ks = WNode tag0 a0 ks0) by (do 3 eexists; reflexivity).
  pose proof (chan_rn_rns (WNode tag a ks) [] t0 [] (or_intror Hn)) as E0. rewrite app_nil_r, H in E0.
  rewrite rn_node in E0. cbn [fst snd chan_go flush tbuf t0 rbind app] in E0. rewrite app_nil_r in E0. inversion E0 as [E1]. clear E0.
  rewrite (chan_rn_rns (WNode tag a ks) stack t rest (or_intror Hn)). rewrite rn_node. cbn [fst snd]. rewrite Hr. cbn [rbind].
  rewrite <- !app_assoc. reflexivity.
Qed.

(* runs of complete elements, possibly empty, met in the initial text state *)
Definition chan0 (evs : list wevent) (revs : list revent) : Prop :=
  forall stack rest r, chan_go stack t0 rest = Ok r -> chan_go stack t0 (evs ++ rest) = Ok (revs ++ r).
Lemma chan0_nil : chan0 [] [].
Proof. intros stack rest r H. exact H. Qed.
Lemma chan0_elems evs revs : chan_elems evs revs -> chan0 evs revs.
Proof. intros H stack rest r Hr. rewrite (H stack t0 rest r Hr). reflexivity. Qed.
Lemma chan0_app e1 r1 e2 r2 : chan0 e1 r1 -> chan0 e2 r2 -> chan0 (e1 ++ e2) (r1 ++ r2).
Proof.
  intros H1 H2 stack rest r Hr. rewrite <- !app_assoc. apply H1. apply H2. exact Hr.
Qed.
Lemma chan0_flat_map {A} (f : A -> list wevent) (g : A -> list revent) l :
  Forall (fun x => chan0 (f x) (g x)) l -> chan0 (flat_map f l) (flat_map g l).
Proof. induction 1 as [|x l Hx _ IH]; [apply chan0_nil|]. cbn [flat_map]. now apply chan0_app. Qed.
(* an element with attributes around a run of elements *)
Lemma chan_elems_wrap_a tag a inner rinner :
  chan0 inner rinner -> chan_elems (WStart tag a :: inner ++ [WEnd]) (RStart tag a :: rinner ++ [REnd tag]).
Proof.
  intros H stack t rest r Hr. cbn [app chan_go]. rewrite <- app_assoc. cbn [app].
  rewrite (H (tag :: stack) (WEnd :: rest) (REnd tag :: r)).
  - cbn [rbind]. rewrite <- app_assoc. reflexivity.
  - cbn [chan_go]. rewrite Hr. reflexivity.
Qed.
Lemma chan_elems_leaf_a tag a s : chan_elems (WStart tag a :: w_string s ++ [WEnd]) (RStart tag a :: text_events s ++ [REnd tag]).
Proof.
  intros stack t rest r Hr. cbn [app]. rewrite <- app_assoc. cbn [app].
  rewrite (chan_leaf stack t tag a s rest r Hr). rewrite <- app_assoc. reflexivity.
Qed.

(* ================================================================= (0b) readers do not look beyond what they consume *)
(* a reader that succeeded on [s] succeeds in the same way when anything that does not start with character data follows *)
Definition stable {A} (p : xrd A) : Prop :=
  forall s v s', p s = Ok (v, s') -> forall e rest, nonchar e -> p (s ++ e :: rest) = Ok (v, s' ++ e :: rest).

Lemma stable_ret {A} (a : A) : stable (xret a).
Proof. intros s v s' H e rest _. inversion H. reflexivity. Qed.
Lemma stable_fail {A} c : stable (@xfail A c).
Proof. intros s v s' H. discriminate. Qed.
Lemma stable_lift {A} (r : res A) : stable (xlift r).
Proof. intros s v s' H e rest _. unfold xlift in *. destruct r; try discriminate. inversion H. reflexivity. Qed.
Lemma stable_bind {A C} (p : xrd A) (f : A -> xrd C) : stable p -> (forall a, stable (f a)) -> stable (xbind p f).
Proof.
  intros Hp Hf s v s' H e rest He. unfold xbind in *. destruct (p s) as [[a s1]| |c|] eqn:E; try discriminate.
  rewrite (Hp _ _ _ E e rest He). apply (Hf a _ _ _ H e rest He).
Qed.
Lemma stable_never {A} (r : res (A * list revent)) : (match r with Ok _ => False | _ => True end) -> stable (fun _ => r).
Proof. intros Hr s v s' H. rewrite H in Hr. contradiction. Qed.
Lemma stable_next : stable x_next.
Proof. intros s v s' H e rest _. destruct s as [|x s]; [discriminate|]. destruct x; inversion H; reflexivity. Qed.
Lemma stable_peek : stable x_peek.
Proof. intros s v s' H e rest _. destruct s as [|x s]; [discriminate|]. destruct x; inversion H; reflexivity. Qed.
Lemma stable_chars : stable x_chars.
Proof.
  unfold x_chars. generalize (@nil N) as acc. intros acc s. revert acc.
  induction s as [|x s IH]; intros acc v s' H e rest He.
  - cbn in H. inversion H; subst. cbn [app]. destruct e; try contradiction; reflexivity.
  - destruct x; cbn [x_chars_go] in H; cbn [app x_chars_go]; try (inversion H; subst; reflexivity); try discriminate.
    + apply (IH _ _ _ H e rest He).
    + apply (IH _ _ _ H e rest He).
Qed.
Lemma stable_eat : stable x_eat_unknown.
Proof.
  unfold x_eat_unknown. generalize 0%Z as dp. intros dp s. revert dp.
  induction s as [|x s IH]; intros dp v s' H e rest He; [discriminate|].
  destruct x; cbn [x_eat_go] in H; cbn [app x_eat_go]; try discriminate; try (apply (IH _ _ _ H e rest He)).
  destruct (dp - 1 =? 0)%Z; [inversion H; reflexivity|apply (IH _ _ _ H e rest He)].
Qed.
Lemma stable_expect_start n : stable (x_expect_start n).
Proof.
  unfold x_expect_start. apply stable_bind; [apply stable_next|]. intros [| m a | | | | | |]; try apply stable_fail.
  destruct (bytes_eqb m n); [apply stable_ret|apply stable_fail].
Qed.
Lemma stable_expect_end n : stable (x_expect_end n).
Proof.
  unfold x_expect_end. apply stable_bind; [apply stable_next|]. intros [| | m | | | | |]; try apply stable_fail.
  destruct (bytes_eqb m n); [apply stable_ret|apply stable_fail].
Qed.
Lemma stable_in_tag {A} tag (p : xrd A) : stable p -> stable (x_in_tag tag p).
Proof.
  intro Hp. unfold x_in_tag. apply stable_bind; [apply stable_expect_start|]. intros _.
  apply stable_bind; [exact Hp|]. intro v. apply stable_bind; [apply stable_expect_end|]. intros _. apply stable_ret.
Qed.
Lemma stable_tag_contents tag : stable (x_tag_contents tag).
Proof.
  unfold x_tag_contents. apply stable_bind; [apply stable_expect_start|]. intros _.
  apply stable_bind; [apply stable_chars|]. intro v. apply stable_bind; [apply stable_expect_end|]. intros _. apply stable_ret.
Qed.

Ltac stab :=
  repeat first
    [ apply stable_ret | apply stable_fail | apply stable_lift | apply stable_next | apply stable_peek | apply stable_chars
    | apply stable_eat | apply stable_expect_start | apply stable_expect_end | apply stable_tag_contents
    | apply stable_in_tag
    | apply stable_never; exact I
    | apply stable_bind; [|intro]
    | match goal with
      | |- stable (if ?c then _ else _) => destruct c
      | |- stable (match ?x with _ => _ end) => destruct x
      | |- stable (let '(_, _) := ?x in _) => destruct x
      end ].

Lemma stable_f32 o : stable (r_f32 o).
Proof. unfold r_f32. stab. Qed.
Lemma stable_f64 o : stable (r_f64 o).
Proof. unfold r_f64. stab. Qed.
Lemma stable_int {A} (parse : bytes -> option A) : stable (r_int parse).
Proof. unfold r_int. stab. Qed.
Lemma stable_bool : stable r_bool.
Proof. unfold r_bool. stab. Qed.
Lemma stable_vec3 o : stable (r_vec3 o).
Proof. unfold r_vec3. repeat (apply stable_bind; [apply stable_in_tag, stable_f32|intro]). apply stable_ret. Qed.
Lemma stable_vec2 o : stable (r_vec2 o).
Proof. unfold r_vec2. repeat (apply stable_bind; [apply stable_in_tag, stable_f32|intro]). apply stable_ret. Qed.
Lemma stable_cframe o : stable (r_cframe o).
Proof. unfold r_cframe. repeat (apply stable_bind; [apply stable_in_tag, stable_f32|intro]). apply stable_ret. Qed.
Lemma stable_content_inner b : stable (r_content_inner b).
Proof. unfold r_content_inner. stab. Qed.
Lemma stable_content : stable r_content.
Proof. unfold r_content. stab. Qed.
Lemma stable_font_content tag : stable (r_font_content tag).
Proof. unfold r_font_content. apply stable_bind; [apply stable_next|]. intros [| m a | | | | | |]; try apply stable_fail.
  destruct (bytes_eqb m (B tag)); [|apply stable_fail].
  apply stable_bind; [apply stable_content_inner|]. intro. apply stable_bind; [apply stable_expect_end|]. intro. apply stable_ret.
Qed.
Lemma stable_font : stable r_font.
Proof.
  unfold r_font. apply stable_bind; [apply stable_peek|]. intro ev.
  assert (H : stable (family <~ r_font_content "Family" ;;
      w <~ x_in_tag "Weight" (r_int parse_u16) ;;
      st <~ x_tag_contents "Style" ;;
      e2 <~ x_peek ;;
      cached <~ match e2 with
                | RStart n _ => if bytes_eqb n (B "CachedFaceId")
                                then c <~ r_font_content "CachedFaceId" ;; xret (Some c)
                                else xret None
                | _ => xret None
                end ;;
      xret (mkFont family (if font_weight_ok w then w else 400)
                   (if bytes_eqb st (B "Italic") then 1 else 0) cached))).
  { apply stable_bind; [apply stable_font_content|]. intro. apply stable_bind; [apply stable_in_tag, stable_int|]. intro.
    apply stable_bind; [apply stable_tag_contents|]. intro. apply stable_bind; [apply stable_peek|]. intro e2.
    apply stable_bind; [|intro; apply stable_ret].
    destruct e2; try apply stable_ret. destruct (bytes_eqb name (B "CachedFaceId")); [|apply stable_ret].
    apply stable_bind; [apply stable_font_content|]. intro. apply stable_ret. }
  destruct ev; try exact H. apply stable_ret.
Qed.

Lemma stable_rv {A} (f : A -> value) tag (p : xrd A) : stable p -> stable (rv f tag p).
Proof. intro H. unfold rv, outer. apply stable_bind; [apply stable_in_tag, H|]. intro. apply stable_ret. Qed.

Theorem stable_read_value_xml o ty : stable (read_value_xml o ty).
Proof.
  unfold read_value_xml. cbv zeta.
  repeat match goal with |- stable (if ?c then _ else _) => destruct c end.
  all: try (apply stable_rv).
  all: try apply stable_bool; try apply stable_cframe; try apply stable_vec3; try apply stable_vec2; try apply stable_f32;
       try apply stable_f64; try apply stable_font; try apply stable_content; try apply stable_content_inner; try apply stable_int;
       try apply stable_chars.
  all: stab.
  all: try apply stable_f32; try apply stable_int; try apply stable_vec3; try apply stable_vec2; try apply stable_cframe; try apply stable_bool.
Qed.

(* ================================================================= (0c) association lists keyed by byte strings *)
Lemma beqb_sym a b : bytes_eqb a b = bytes_eqb b a.
Proof.
  destruct (bytes_eqb a b) eqn:E.
  - apply beqb_true_iff in E. subst. symmetry. apply bytes_eqb_refl.
  - symmetry. apply beqb_false_iff. apply beqb_false_iff in E. congruence.
Qed.

Section Assoc.
  Context {V : Type}.
  Implicit Types (m l : list (bytes * V)).

  Lemma bfind_bremove k k' m : bfind k (bremove k' m) = if bytes_eqb k k' then None else bfind k m.
  Proof.
    induction m as [|[k0 v0] m IH]; cbn [bremove bfind]; [destruct (bytes_eqb k k'); reflexivity|].
    destruct (bytes_eqb k' k0) eqn:E0.
    - apply beqb_true_iff in E0. subst k0. rewrite IH. destruct (bytes_eqb k k'); reflexivity.
    - cbn [bfind]. rewrite IH. destruct (bytes_eqb k k') eqn:E; [|reflexivity].
      apply beqb_true_iff in E. subst k'. rewrite E0. reflexivity.
  Qed.

  Lemma bfind_bupd k k' v m : bfind k (bupd k' v m) = if bytes_eqb k k' then Some v else bfind k m.
  Proof. unfold bupd. cbn [bfind]. rewrite bfind_bremove. destruct (bytes_eqb k k'); reflexivity. Qed.

  Lemma keys_bremove k m x : In x (List.map fst (bremove k m)) <-> x <> k /\ In x (List.map fst m).
  Proof.
    induction m as [|[k0 v0] m IH]; cbn [bremove List.map fst In]; [tauto|].
    destruct (bytes_eqb k k0) eqn:E.
    - apply beqb_true_iff in E. subst k0. rewrite IH. split; [tauto|]. intros [Hne [He|Hi]]; [congruence|tauto].
    - apply beqb_false_iff in E. cbn [List.map fst In]. rewrite IH. split.
      + intros [<-|[H1 H2]]; [split; [congruence|now left]|tauto].
      + intros [Hne [He|Hi]]; [now left|right; tauto].
  Qed.

  Lemma nodup_bremove k m : NoDup (List.map fst m) -> NoDup (List.map fst (bremove k m)).
  Proof.
    induction m as [|[k0 v0] m IH]; cbn [bremove List.map fst]; intro H; [constructor|].
    inversion H as [|? ? Hn Hd]; subst. destruct (bytes_eqb k k0); [now apply IH|].
    cbn [List.map fst]. constructor; [|now apply IH]. intro Hin. apply keys_bremove in Hin. tauto.
  Qed.

  Lemma nodup_bupd k v m : NoDup (List.map fst m) -> NoDup (List.map fst (bupd k v m)).
  Proof.
    intro H. unfold bupd. cbn [List.map fst]. constructor; [|now apply nodup_bremove].
    intro Hin. apply keys_bremove in Hin. tauto.
  Qed.

  Lemma bremove_comm k k' m : bremove k (bremove k' m) = bremove k' (bremove k m).
  Proof.
    induction m as [|[k0 v0] m IH]; [reflexivity|]. cbn [bremove].
    destruct (bytes_eqb k' k0) eqn:E1, (bytes_eqb k k0) eqn:E2; cbn [bremove]; rewrite ?E1, ?E2, IH; reflexivity.
  Qed.

  Lemma bremove_bupd k k' v m : bytes_eqb k k' = false -> bremove k (bupd k' v m) = bupd k' v (bremove k m).
  Proof. intro E. unfold bupd. cbn [bremove]. rewrite E, bremove_comm. reflexivity. Qed.

  (* HashMap::insert of a list of pairs, in order *)
  Definition bupd_all l acc : list (bytes * V) := fold_left (fun a kv => bupd (fst kv) (snd kv) a) l acc.

  Lemma bupd_all_cons kv l acc : bupd_all (kv :: l) acc = bupd_all l (bupd (fst kv) (snd kv) acc).
  Proof. reflexivity. Qed.
  Lemma bupd_all_app l1 l2 acc : bupd_all (l1 ++ l2) acc = bupd_all l2 (bupd_all l1 acc).
  Proof. apply fold_left_app. Qed.

  Lemma bfind_none_keys k l : bfind k l = None <-> ~ In k (List.map fst l).
  Proof.
    induction l as [|[k0 v0] l IH]; cbn [bfind List.map fst In]; [tauto|].
    destruct (bytes_eqb k k0) eqn:E.
    - apply beqb_true_iff in E. subst. split; [discriminate|tauto].
    - apply beqb_false_iff in E. rewrite IH. split; [intros H [He|Hi]; [congruence|tauto]|tauto].
  Qed.

  Lemma bfind_bupd_all k l : forall acc, NoDup (List.map fst l) ->
    bfind k (bupd_all l acc) = match bfind k l with Some v => Some v | None => bfind k acc end.
  Proof.
    induction l as [|[k0 v0] l IH]; intros acc Hnd; [reflexivity|].
    cbn [List.map fst] in Hnd. inversion Hnd as [|? ? Hn Hd]; subst.
    rewrite bupd_all_cons, IH by exact Hd. cbn [fst snd bfind]. rewrite bfind_bupd.
    destruct (bytes_eqb k k0) eqn:E; [|reflexivity].
    apply beqb_true_iff in E. subst k0. apply bfind_none_keys in Hn. rewrite Hn. reflexivity.
  Qed.

  Lemma nodup_bupd_all l : forall acc, NoDup (List.map fst acc) -> NoDup (List.map fst (bupd_all l acc)).
  Proof. induction l as [|kv l IH]; intros acc H; [exact H|]. rewrite bupd_all_cons. apply IH, nodup_bupd, H. Qed.

  Lemma bremove_bupd_all k l : forall acc, ~ In k (List.map fst l) -> bremove k (bupd_all l acc) = bupd_all l (bremove k acc).
  Proof.
    induction l as [|[k0 v0] l IH]; intros acc Hn; [reflexivity|]. cbn [List.map fst In] in Hn.
    rewrite !bupd_all_cons, IH by tauto. cbn [fst snd]. rewrite bremove_bupd; [reflexivity|].
    apply beqb_false_iff. intro E. apply Hn. now left.
  Qed.
End Assoc.

(* consecutive labels *)
Fixpoint nseq (L : N) (n : nat) : list N := match n with O => [] | S n' => L :: nseq (L + 1) n' end.
Lemma nseq_app L a b : nseq L (a + b) = nseq L a ++ nseq (L + N.of_nat a) b.
Proof.
  revert L. induction a as [|a IH]; intro L; [cbn; now rewrite N.add_0_r|].
  cbn [Nat.add nseq app]. rewrite IH. replace (L + 1 + N.of_nat a) with (L + N.of_nat (S a)) by lia. reflexivity.
Qed.
Lemma in_nseq x L n : In x (nseq L n) <-> L <= x < L + N.of_nat n.
Proof.
  revert L. induction n as [|n IH]; intro L; cbn [nseq In]; [lia|]. rewrite IH. lia.
Qed.
Lemma nodup_nseq L n : NoDup (nseq L n).
Proof.
  revert L. induction n as [|n IH]; intro L; cbn [nseq]; constructor; [|apply IH]. rewrite in_nseq. lia.
Qed.
Lemma nseq_length L n : length (nseq L n) = n.
Proof. revert L. induction n as [|n IH]; intro L; cbn [nseq length]; [reflexivity|]. now rewrite IH. Qed.

(* ================================================================= (1) what the serializer wrote, as a tree of items *)
(* one property element: a Ref (with the text it carries), a SharedString (content, hash), or any other value (the value
   written, the events the channel delivers for the whole element, the value read back, element name, inner events) *)
Inductive pelem :=
| PRef (pn : bytes) (r : N) (txt : bytes)
| PShared (pn : bytes) (c h : bytes)
| PVal (pn : bytes) (w : value) (revs : list revent) (v' : value) (tag : bytes) (inner : list wevent).

Definition p_name (p : pelem) : bytes := match p with PRef pn _ _ | PShared pn _ _ | PVal pn _ _ _ _ _ => pn end.
(* the value the element was written for *)
Definition p_src (p : pelem) : value := match p with PRef _ r _ => VRef r | PShared _ c _ => VSharedString c | PVal _ w _ _ _ _ => w end.
Definition p_wev (p : pelem) : list wevent :=
  match p with
  | PRef pn r txt => WStart (B "Ref") (name_attr pn) :: w_string txt ++ [WEnd]
  | PShared pn c h => WStart (B "SharedString") (name_attr pn) :: w_string (md5_key h) ++ [WEnd]
  | PVal pn w revs v' tag inner => WStart tag (name_attr pn) :: inner ++ [WEnd]
  end.
Definition p_rev (p : pelem) : list revent :=
  match p with
  | PRef pn r txt => RStart (B "Ref") (name_attr pn) :: text_events txt ++ [REnd (B "Ref")]
  | PShared pn c h => RStart (B "SharedString") (name_attr pn) :: text_events (md5_key h) ++ [REnd (B "SharedString")]
  | PVal pn w revs v' tag inner => revs
  end.
(* the value the first pass of the reader stores for the element *)
Definition p_dval (p : pelem) : value :=
  match p with PRef _ _ _ => VRef 0 | PShared _ _ _ => VBinaryString [] | PVal _ _ _ v' _ _ => v' end.

Inductive witem := WItem (id x : N) (class name : bytes) (props : list pelem) (kids : list witem).

Section WitemInd.
  Variable P : witem -> Prop.
  Hypothesis Hitem : forall id x c nm ps ks, Forall P ks -> P (WItem id x c nm ps ks).
  Fixpoint witem_ind' (it : witem) : P it :=
    match it with
    | WItem id x c nm ps ks =>
        Hitem id x c nm ps ks ((fix go (l : list witem) : Forall P l :=
                                  match l with [] => Forall_nil P | k :: r => Forall_cons k (witem_ind' k) (go r) end) ks)
    end.
End WitemInd.

Definition it_id (it : witem) : N := match it with WItem id _ _ _ _ _ => id end.
Definition it_kids (it : witem) : list witem := match it with WItem _ _ _ _ _ ks => ks end.

(* the Name element is a property element like the others *)
Definition name_rev (nm : bytes) : list revent := RStart (B "string") (name_attr (B "Name")) :: text_events nm ++ [REnd (B "string")].
Definition name_p (nm : bytes) : pelem := PVal (B "Name") (VString nm) (name_rev nm) (VString nm) (B "string") (w_string nm).

Definition item_attrs (c : bytes) (x : N) : attrs := [(B "class", c); (B "referent", dec_of_N x)].

Fixpoint it_wev (it : witem) : list wevent :=
  match it with
  | WItem id x c nm ps ks =>
      WStart (B "Item") (item_attrs c x) :: WStart (B "Properties") [] :: flat_map p_wev (name_p nm :: ps)
        ++ WEnd :: flat_map it_wev ks ++ [WEnd]
  end.
Fixpoint it_rev (it : witem) : list revent :=
  match it with
  | WItem id x c nm ps ks =>
      RStart (B "Item") (item_attrs c x) :: RStart (B "Properties") [] :: flat_map p_rev (name_p nm :: ps)
        ++ REnd (B "Properties") :: flat_map it_rev ks ++ [REnd (B "Item")]
  end.
Fixpoint it_ids (it : witem) : list N := match it with WItem id _ _ _ _ ks => id :: flat_map it_ids ks end.
Fixpoint size (it : witem) : nat := match it with WItem _ _ _ _ _ ks => S (list_sum (List.map size ks)) end.
Definition sizes (ks : list witem) : nat := list_sum (List.map size ks).

(* the items in document order, each with its label and the label of its parent *)
Record fnode := mkFN { fn_label : N; fn_parent : N; fn_id : N; fn_x : N; fn_class : bytes; fn_name : bytes; fn_props : list pelem }.
Fixpoint flatten (it : witem) (P L : N) : list fnode :=
  match it with
  | WItem id x c nm ps ks =>
      mkFN L P id x c nm ps ::
      (fix go (l : list witem) (L' : N) : list fnode :=
         match l with [] => [] | k :: r => flatten k L L' ++ go r (L' + N.of_nat (size k)) end) ks (L + 1)
  end.
Fixpoint flattens (l : list witem) (P L : N) : list fnode :=
  match l with [] => [] | k :: r => flatten k P L ++ flattens r P (L + N.of_nat (size k)) end.
Lemma flatten_item id x c nm ps ks P L : flatten (WItem id x c nm ps ks) P L = mkFN L P id x c nm ps :: flattens ks L (L + 1).
Proof.
  cbn [flatten]. f_equal. generalize (L + 1) as L'. induction ks as [|k r IH]; intro L'; [reflexivity|].
  cbn [flattens]. rewrite <- IH. reflexivity.
Qed.

Lemma size_item id x c nm ps ks : size (WItem id x c nm ps ks) = S (sizes ks).
Proof. reflexivity. Qed.
Lemma sizes_cons k ks : sizes (k :: ks) = (size k + sizes ks)%nat.
Proof. reflexivity. Qed.

Lemma flatten_length_labels :
  forall it P L, length (flatten it P L) = size it /\ List.map fn_label (flatten it P L) = nseq L (size it)
                 /\ List.map fn_id (flatten it P L) = it_ids it.
Proof.
  induction it as [id x c nm ps ks IH] using witem_ind'; intros P L. rewrite flatten_item, size_item. cbn [length List.map fn_label fn_id nseq it_ids].
  assert (H : forall P' L', length (flattens ks P' L') = sizes ks /\ List.map fn_label (flattens ks P' L') = nseq L' (sizes ks)
                            /\ List.map fn_id (flattens ks P' L') = flat_map it_ids ks).
  { induction IH as [|k r Hk _ IHr]; intros P' L'; [repeat split|].
    cbn [flattens flat_map]. rewrite sizes_cons, app_length, !map_app, nseq_app.
    destruct (Hk P' L') as (A1 & A2 & A3). destruct (IHr P' (L' + N.of_nat (size k))) as (B1 & B2 & B3).
    rewrite A1, A2, A3, B1, B2, B3. repeat split. }
  destruct (H L (L + 1)) as (A1 & A2 & A3). rewrite A1, A2, A3. repeat split.
Qed.
Lemma flattens_facts ks P L :
  length (flattens ks P L) = sizes ks /\ List.map fn_label (flattens ks P L) = nseq L (sizes ks)
  /\ List.map fn_id (flattens ks P L) = flat_map it_ids ks.
Proof.
  revert L. induction ks as [|k r IH]; intro L; [repeat split|].
  cbn [flattens flat_map]. rewrite sizes_cons, app_length, !map_app, nseq_app.
  destruct (flatten_length_labels k P L) as (A1 & A2 & A3). destruct (IH (L + N.of_nat (size k))) as (B1 & B2 & B3).
  rewrite A1, A2, A3, B1, B2, B3. repeat split.
Qed.

(* ================================================================= (2) the per-value law and the plain pairing of behaviours *)
Definition nonspecial (v : value) : Prop := match v with VRef _ | VSharedString _ => False | _ => True end.

(* whatever [write_xml] writes for [v], put into its property element and sent through the channel, is read back as [v'] *)
Definition vlaw (o : xoracle) (v v' : value) : Prop :=
  forall tag evs, write_xml o v = Some (tag, Ok evs) -> forall name : bytes,
  exists revs, chan_go [] t0 (WStart tag [(B "name", name)] :: evs ++ [WEnd]) = Ok revs /\
               read_value_xml o tag revs = Ok (RVal v', []).

(* the writer / the reader takes the property as it stands: no reflection, or a database that does not know the property *)
Definition eplain (e : xenv) (beh : ebehavior) (class k : bytes) : Prop :=
  beh = ENoReflection \/ (beh = EWriteUnknown /\ find_desc_xml (xe_db e) (S_ class) (S_ k) = Ok None).
Definition dplain (e : xenv) (beh : dbehavior) (class k : bytes) : Prop :=
  beh = DNoReflection \/ (beh = DReadUnknown /\ find_desc_xml (xe_db e) (S_ class) (S_ k) = Ok None).

Lemma sprop_plain e beh class keys st k v :
  eplain e beh class k -> serialize_property e beh class keys st k v = write_value_xml e st k v.
Proof. intros [->|[-> H]]; unfold serialize_property; [reflexivity|]. rewrite H. reflexivity. Qed.

(* what the property loop writes for the property (k, v): nothing, or the value w under the name pn (reflection: the
   serialized name and the converted value, or the migration target and the migrated value) *)
Definition ser_plan (e : xenv) (beh : ebehavior) (class : bytes) (keys : list bytes) (k : bytes) (v : value)
  : res (option (bytes * value)) :=
  desc <- match beh with ENoReflection => Ok None | _ => find_desc_xml (xe_db e) (S_ class) (S_ k) end ;;
  match desc with
  | Some (_, ser) =>
      conv <- match try_convert (xe_o e) v (dtype_vt (pd_type ser)) with
              | Err c => if c =? DE_CONVERT then Err EE_CONVERT else Err c
              | r => r
              end ;;
      match pd_kind ser with
      | KCanon (PMigrate to op) =>
          explicit <- has_explicit_new_value e class k to keys ;;
          if explicit then Ok None
          else match migrate (xe_font e) (xe_brick e) op conv with
               | Some nv => Ok (Some (bytes_of_string to, nv))
               | None => Ok (Some (bytes_of_string (pd_name ser), conv))
               end
      | _ => Ok (Some (bytes_of_string (pd_name ser), conv))
      end
  | None =>
      match beh with
      | EIgnoreUnknown => Ok None
      | EWriteUnknown | ENoReflection => Ok (Some (k, v))
      | EErrorOnUnknown => Err EE_UNKNOWN
      end
  end.

Lemma serialize_property_plan e beh class keys st k v :
  serialize_property e beh class keys st k v =
  (p <- ser_plan e beh class keys k v ;; match p with None => Ok ([], st) | Some (pn, w) => write_value_xml e st pn w end).
Proof.
  unfold serialize_property, ser_plan.
  destruct (match beh with ENoReflection => Ok None | _ => find_desc_xml (xe_db e) (S_ class) (S_ k) end) as [[[canon ser]|]| |c|];
    cbn [rbind]; try reflexivity.
  - destruct (try_convert (xe_o e) v (dtype_vt (pd_type ser))) as [conv| |c|]; cbn [rbind]; try reflexivity.
    + destruct (pd_kind ser) as [[| | |to op]|]; try reflexivity.
      destruct (has_explicit_new_value e class k to keys) as [[|]| |c|]; cbn [rbind]; try reflexivity.
      destruct (migrate (xe_font e) (xe_brick e) op conv); reflexivity.
    + destruct (c =? DE_CONVERT); reflexivity.
  - destruct beh; reflexivity.
Qed.

Lemma ser_plan_plain e beh class keys k v : eplain e beh class k -> ser_plan e beh class keys k v = Ok (Some (k, v)).
Proof. intros [->|[-> H]]; unfold ser_plan; [reflexivity|]. rewrite H. reflexivity. Qed.

(* the (name, value) pairs written for the property list [ps], in order *)
Fixpoint plan_list (e : xenv) (beh : ebehavior) (class : bytes) (keys : list bytes) (ps : list (bytes * value))
  : res (list (bytes * value)) :=
  match ps with
  | [] => Ok []
  | (k, v) :: r =>
      p <- ser_plan e beh class keys k v ;;
      rest <- plan_list e beh class keys r ;;
      Ok (match p with Some kv => kv :: rest | None => rest end)
  end.
Definition planned (e : xenv) (beh : ebehavior) (i : inst) : res (list (bytes * value)) :=
  plan_list e beh (i_class i) (List.map fst (bsort (i_props i))) (bsort (i_props i)).

Lemma plan_list_plain e beh class keys ps :
  (forall k v, In (k, v) ps -> eplain e beh class k) -> plan_list e beh class keys ps = Ok ps.
Proof.
  induction ps as [|[k v] ps IH]; intro H; [reflexivity|]. cbn [plan_list].
  rewrite (ser_plan_plain _ _ _ _ _ _ (H k v (or_introl eq_refl))). cbn [rbind]. rewrite IH by (intros k0 v0 Hin; apply (H k0 v0); now right).
  reflexivity.
Qed.
Lemma plan_list_in e beh class keys : forall ps ws pn w, plan_list e beh class keys ps = Ok ws -> In (pn, w) ws ->
  exists k v, In (k, v) ps /\ ser_plan e beh class keys k v = Ok (Some (pn, w)).
Proof.
  induction ps as [|[k v] ps IH]; intros ws pn w H Hin; cbn [plan_list] in H.
  - inversion H; subst. contradiction.
  - destruct (ser_plan e beh class keys k v) as [p| |c|] eqn:Ep; cbn [rbind] in H; try discriminate.
    destruct (plan_list e beh class keys ps) as [rest| |c|] eqn:Er; cbn [rbind] in H; try discriminate. inversion H; subst ws.
    assert (Hcase : (p = Some (pn, w)) \/ In (pn, w) rest).
    { destruct p as [kv|]; [destruct Hin as [->|Hin]; [now left|now right]|now right]. }
    destruct Hcase as [->|Hr]; [exists k, v; split; [now left|exact Ep]|].
    destruct (IH rest pn w eq_refl Hr) as (k0 & v0 & Hk & Hs). exists k0, v0. split; [now right|exact Hs].
Qed.

Lemma dprop_plain e beh class id ty pn st props :
  dplain e beh class pn ->
  deserialize_property e beh class id ty pn st props =
  ('(ov, st1) <~ read_prop_value e st ty id pn ;;
   match ov with None => xret (st1, props) | Some v => xret (st1, bupd pn v props) end).
Proof.
  intros [->|[-> H]]; unfold deserialize_property.
  - destruct (bytes_eqb pn (B "Name")); reflexivity.
  - destruct (bytes_eqb pn (B "Name")) eqn:E.
    + apply beqb_true_iff in E. subst pn. rewrite H. reflexivity.
    + rewrite H. reflexivity.
Qed.

Lemma value_cases v : (exists r, v = VRef r) \/ (exists c, v = VSharedString c) \/ nonspecial v.
Proof. destruct v; eauto; right; right; exact I. Qed.

Lemma wvx_nonspecial e st pn v : nonspecial v ->
  write_value_xml e st pn v =
  match write_xml (xe_o e) v with
  | Some (tag, r) => evs <- r ;; Ok (WStart tag (name_attr pn) :: evs ++ [WEnd], st)
  | None => Err EE_TYPE
  end.
Proof. intro H. destruct v; try contradiction H; reflexivity. Qed.

(* what is known of a property element, relative to the final referent map [m] and dictionary [dict] *)
Definition p_ok (e : xenv) (m : list (N * N)) (dict : list (bytes * bytes)) (p : pelem) : Prop :=
  match p with
  | PRef pn r txt => txt = ref_text m r /\ (r <> 0 -> exists x, lookup r m = Some x)
  | PShared pn c h => xe_hash e c = Some h /\ In h (List.map fst dict)
  | PVal pn w revs v' tag inner =>
      nonspecial w /\ write_xml (xe_o e) w = Some (tag, Ok inner) /\ (exists ts, inner = flats ts) /\
      chan_go [] t0 (WStart tag (name_attr pn) :: inner ++ [WEnd]) = Ok revs /\
      read_value_xml (xe_o e) tag revs = Ok (RVal v', []) /\ vlaw (xe_o e) w v'
  end.

Lemma enc_value e st pn v ev st' :
  (nonspecial v -> exists v', vlaw (xe_o e) v v') ->
  write_value_xml e st pn v = Ok (ev, st') ->
  st_ext e st st' /\
  exists p, p_name p = pn /\ p_src p = v /\ ev = p_wev p /\
            forall stF, st_le st' stF -> p_ok e (es_map stF) (es_shared stF) p.
Proof.
  intros Hlaw H. split.
  { destruct (write_value_xml_cases _ _ _ _ _ _ H) as (n & _ & Hn). eapply value_written_ext; exact Hn. }
  destruct (value_cases v) as [(r & ->)|[(c & ->)|Hns]].
  - (* Ref *)
    cbn [write_value_xml] in H. destruct (r =? 0) eqn:E0.
    + inversion H; subst. apply N.eqb_eq in E0. subst r. exists (PRef pn 0 (B "null")). repeat split; try reflexivity.
      intro C. congruence.
    + pose proof (lookup_map_id st r) as L. destruct (map_id st r) as [x st1] eqn:Em. cbn [fst snd] in L.
      inversion H; subst. exists (PRef pn r (dec_of_N x)). repeat split; try reflexivity.
      * unfold ref_text. rewrite E0. destruct H0 as [Lm _]. rewrite (Lm _ _ L). reflexivity.
      * intros _. exists x. destruct H0 as [Lm _]. apply Lm, L.
  - (* SharedString *)
    cbn [write_value_xml] in H. destruct (xe_hash e c) as [h|] eqn:Eh; cbn [ask rbind] in H; [|discriminate].
    inversion H; subst. exists (PShared pn c h). repeat split; try reflexivity; try exact Eh.
    destruct H0 as [_ Ld]. apply Ld. cbn [es_shared]. apply shared_insert_keys. now left.
  - rewrite (wvx_nonspecial _ _ _ _ Hns) in H.
    destruct (write_xml (xe_o e) v) as [[tag rr]|] eqn:Ew; [|discriminate].
    destruct (write_xml_good _ _ _ _ Ew) as (_ & Hr).
    destruct rr as [inner| |cc|]; cbn [rbind] in H; try discriminate. inversion H; subst.
    destruct (Hr inner eq_refl) as (ts & Hts & _).
    destruct (Hlaw Hns) as (v' & Hv'). destruct (Hv' tag inner Ew pn) as (revs & Hc & Hrd).
    exists (PVal pn v revs v' tag inner). repeat split; try reflexivity; try assumption. exists ts. exact Hts.
Qed.

Definition p_pair (p : pelem) : bytes * value := (p_name p, p_src p).

Fixpoint item_ok (e : xenv) (beh : ebehavior) (d : cdom) (m : list (N * N)) (dict : list (bytes * bytes)) (it : witem) : Prop :=
  match it with
  | WItem id x c nm ps ks =>
      (exists i, find_inst d id = Some i /\ c = i_class i /\ nm = i_name i /\ planned e beh i = Ok (List.map p_pair ps)) /\
      lookup id m = Some x /\ Forall (p_ok e m dict) ps /\ List.map it_id ks = children_of d id /\
      (fix all (l : list witem) : Prop := match l with [] => True | k :: r => item_ok e beh d m dict k /\ all r end) ks
  end.
Lemma item_ok_item e beh d m dict id x c nm ps ks :
  item_ok e beh d m dict (WItem id x c nm ps ks) <->
  (exists i, find_inst d id = Some i /\ c = i_class i /\ nm = i_name i /\ planned e beh i = Ok (List.map p_pair ps)) /\
  lookup id m = Some x /\ Forall (p_ok e m dict) ps /\ List.map it_id ks = children_of d id /\ Forall (item_ok e beh d m dict) ks.
Proof.
  cbn [item_ok].
  assert (H : (fix all (l : list witem) : Prop := match l with [] => True | k :: r => item_ok e beh d m dict k /\ all r end) ks
              <-> Forall (item_ok e beh d m dict) ks).
  { induction ks as [|k r IH]; [split; [constructor|exact (fun _ => I)]|].
    split; [intros [H1 H2]; constructor; [exact H1|apply IH, H2]|intro H; inversion H; subst; split; [assumption|now apply IH]]. }
  rewrite H. reflexivity.
Qed.

Section Encode.
  Variables (e : xenv) (ebeh : ebehavior) (d : cdom) (W : list N).
  (* every value the writer writes for a property of a written instance (other than a Ref or a SharedString) is read back *)
  Hypothesis Hlaw : forall id i k v pn w, In id W -> find_inst d id = Some i -> In (k, v) (i_props i) ->
    ser_plan e ebeh (i_class i) (List.map fst (bsort (i_props i))) k v = Ok (Some (pn, w)) -> nonspecial w ->
    exists v', vlaw (xe_o e) w v'.

  Lemma enc_props class keys : forall ps st ev st',
    (forall k v pn w, In (k, v) ps -> ser_plan e ebeh class keys k v = Ok (Some (pn, w)) -> nonspecial w -> exists v', vlaw (xe_o e) w v') ->
    serialize_properties e ebeh class keys st ps = Ok (ev, st') ->
    st_ext e st st' /\
    exists pels, ev = flat_map p_wev pels /\ plan_list e ebeh class keys ps = Ok (List.map p_pair pels) /\
                 forall stF, st_le st' stF -> Forall (p_ok e (es_map stF) (es_shared stF)) pels.
  Proof.
    unfold serialize_properties. induction ps as [|[k v] ps IH]; intros st ev st' Hall H; cbn [serialize_properties_with] in H.
    - inversion H; subst. split; [apply st_ext_refl|]. exists []. repeat split. intros; constructor.
    - rewrite serialize_property_plan in H. cbn [plan_list].
      destruct (ser_plan e ebeh class keys k v) as [pl| |c|] eqn:Epl; cbn [rbind] in H; try discriminate. cbn [rbind].
      assert (Hrest : forall st1 ev1 pels1,
                 st_ext e st st1 -> ev1 = flat_map p_wev pels1 ->
                 (match pl with Some kv => [kv] | None => [] end) = List.map p_pair pels1 ->
                 (forall stF, st_le st1 stF -> Forall (p_ok e (es_map stF) (es_shared stF)) pels1) ->
                 forall ev2 st2, serialize_properties_with serialize_property e ebeh class keys st1 ps = Ok (ev2, st2) ->
                 ev = ev1 ++ ev2 -> st' = st2 ->
                 st_ext e st st' /\
                 exists pels, ev = flat_map p_wev pels /\
                   (rest <- plan_list e ebeh class keys ps ;; Ok (match pl with Some kv => kv :: rest | None => rest end)) = Ok (List.map p_pair pels) /\
                   forall stF, st_le st' stF -> Forall (p_ok e (es_map stF) (es_shared stF)) pels).
      { intros st1 ev1 pels1 X1 Eev1 Epl1 Hok1 ev2 st2 E2 -> ->.
        destruct (IH _ _ _ (fun k0 v0 pn w Hin => Hall k0 v0 pn w (or_intror Hin)) E2) as (X2 & pels & -> & Hm & Hoks).
        split; [eapply st_ext_trans; eassumption|]. exists (pels1 ++ pels). split; [rewrite flat_map_app, Eev1; reflexivity|]. split.
        - rewrite Hm. cbn [rbind]. f_equal. rewrite map_app, <- Epl1. destruct pl; reflexivity.
        - intros stF L. apply Forall_app. split; [|now apply Hoks]. apply Hok1. eapply st_le_trans; [apply X2|exact L]. }
      destruct pl as [[pn w]|].
      + destruct (write_value_xml e st pn w) as [[ev1 st1]| |c|] eqn:E1; rewrite ?E1 in H; cbn [rbind] in H; try discriminate.
        destruct (serialize_properties_with serialize_property e ebeh class keys st1 ps) as [[ev2 st2]| |c|] eqn:E2;
          rewrite ?E2 in H; cbn [rbind] in H; try discriminate.
        assert (Hev : ev = ev1 ++ ev2 /\ st' = st2) by (inversion H; split; reflexivity). destruct Hev as [Hev Hst].
        destruct (enc_value _ _ _ _ _ _ (Hall k v pn w (or_introl eq_refl) Epl) E1) as (X1 & p & Hn & Hs & Hev1 & Hok).
        refine (Hrest st1 ev1 [p] X1 _ _ _ ev2 st2 E2 Hev Hst).
        * cbn [flat_map]. now rewrite app_nil_r.
        * cbn [List.map]. unfold p_pair. now rewrite Hn, Hs.
        * intros stF L. constructor; [now apply Hok|constructor].
      + cbn [rbind] in H.
        destruct (serialize_properties_with serialize_property e ebeh class keys st ps) as [[ev2 st2]| |c|] eqn:E2;
          rewrite ?E2 in H; cbn [rbind] in H; try discriminate.
        assert (Hev : ev = [] ++ ev2 /\ st' = st2) by (inversion H; split; reflexivity). destruct Hev as [Hev Hst].
        refine (Hrest st [] [] (st_ext_refl e st) eq_refl eq_refl _ ev2 st2 E2 Hev Hst). intros; constructor.
  Qed.

  Lemma enc_seq (F : estate -> N -> res (list wevent * estate)) (sub : N -> list N) :
    (forall st c ev st', incl (sub c) W -> F st c = Ok (ev, st') ->
       st_ext e st st' /\ exists it, it_id it = c /\ ev = it_wev it /\ it_ids it = sub c /\
                                     forall stF, st_le st' stF -> item_ok e ebeh d (es_map stF) (es_shared stF) it) ->
    forall cs st ev st', incl (flat_map sub cs) W -> seq_with F cs st = Ok (ev, st') ->
      st_ext e st st' /\ exists its, List.map it_id its = cs /\ ev = flat_map it_wev its /\ flat_map it_ids its = flat_map sub cs /\
                                     forall stF, st_le st' stF -> Forall (item_ok e ebeh d (es_map stF) (es_shared stF)) its.
  Proof.
    intros HF cs. induction cs as [|c r IH]; intros st ev st' Hin H; cbn [seq_with] in H.
    - inversion H; subst. split; [apply st_ext_refl|]. exists []. repeat split. intros; constructor.
    - destruct (F st c) as [[e1 s1]| |k|] eqn:E1; cbn [rbind] in H; try discriminate.
      fold (seq_with F) in H. destruct (seq_with F r s1) as [[e2 s2]| |k|] eqn:E2; cbn [rbind] in H; try discriminate.
      inversion H; subst. cbn [flat_map] in Hin.
      destruct (HF _ _ _ _ (fun x Hx => Hin x (in_or_app _ _ _ (or_introl Hx))) E1) as (X1 & it & Hid & -> & Hids & Hok).
      destruct (IH _ _ _ (fun x Hx => Hin x (in_or_app _ _ _ (or_intror Hx))) E2) as (X2 & its & Hm & -> & Hidss & Hoks).
      split; [eapply st_ext_trans; eassumption|]. exists (it :: its). cbn [List.map flat_map]. rewrite Hid, Hm, Hids, Hidss.
      repeat split. intros stF L. constructor; [|now apply Hoks]. apply Hok. eapply st_le_trans; [apply X2|exact L].
  Qed.

  Theorem enc_item f : forall st id ev st', incl (subtree d f id) W ->
    serialize_instance f e ebeh d st id = Ok (ev, st') ->
    st_ext e st st' /\ exists it, it_id it = id /\ ev = it_wev it /\ it_ids it = subtree d f id /\
                                  forall stF, st_le st' stF -> item_ok e ebeh d (es_map stF) (es_shared stF) it.
  Proof.
    unfold serialize_instance. induction f as [|f IH]; intros st id ev st' Hin H; [discriminate|].
    rewrite serialize_instance_with_S in H. destruct (find_inst d id) as [i|] eqn:Ef; [|discriminate].
    destruct (map_id st id) as [x st0] eqn:Em. rewrite write_name in H. cbn [rbind] in H. cbv zeta in H.
    destruct (serialize_properties_with serialize_property e ebeh (i_class i) (List.map fst (bsort (i_props i))) st0 (bsort (i_props i)))
      as [[pev st2]| |c|] eqn:Ep; cbn [rbind] in H; try discriminate.
    destruct (seq_with (serialize_instance_with serialize_property f e ebeh d) (children_of d id) st2) as [[cev st3]| |c|] eqn:Ec;
      cbn [rbind] in H; try discriminate.
    cbn [subtree] in Hin.
    assert (HinW : In id W) by (apply Hin; now left).
    assert (Hall : forall k v pn w, In (k, v) (bsort (i_props i)) ->
                     ser_plan e ebeh (i_class i) (List.map fst (bsort (i_props i))) k v = Ok (Some (pn, w)) -> nonspecial w ->
                     exists v', vlaw (xe_o e) w v').
    { intros k v pn w Hkv. assert (Hkv' : In (k, v) (i_props i)) by (eapply Permutation_in; [apply bsort_permutation|exact Hkv]).
      eapply Hlaw; eassumption. }
    destruct (enc_props _ _ _ _ _ _ Hall Ep) as (X1 & pels & -> & Hm & Hoks).
    destruct (enc_seq _ (subtree d f) IH _ _ _ _ (fun y Hy => Hin y (or_intror Hy)) Ec) as (X2 & its & Hmi & -> & Hids & Hoki).
    pose proof (map_id_ext e st id) as X0. rewrite Em in X0. cbn [snd] in X0.
    assert (Ha : ev = it_wev (WItem id x (i_class i) (i_name i) pels its) /\ st' = st3).
    { assert (Hev : Ok (ev, st') = Ok (it_wev (WItem id x (i_class i) (i_name i) pels its), st3)); [|inversion Hev; split; reflexivity].
      rewrite <- H. cbn [it_wev flat_map name_p p_wev name_node flat]. unfold item_attrs, leaf.
      rewrite <- !app_assoc. cbn [app]. rewrite <- !app_assoc.
      destruct (has_outer_ws (i_name i)) eqn:Ews; unfold w_string; rewrite Ews; cbn [flat flat_map app]; reflexivity. }
    destruct Ha as [-> ->].
    split; [eapply st_ext_trans; [exact X0|eapply st_ext_trans; eassumption]|].
    exists (WItem id x (i_class i) (i_name i) pels its).
    split; [reflexivity|]. split; [reflexivity|]. split; [cbn [it_ids subtree]; now rewrite Hids|].
    intros stF L. apply item_ok_item. split; [exists i; repeat split; [exact Ef|exact Hm]|].
    assert (L2 : st_le st2 stF) by (eapply st_le_trans; [apply X2|exact L]).
    assert (L0 : st_le st0 stF) by (eapply st_le_trans; [apply X1|exact L2]).
    split; [|split; [now apply Hoks|split; [exact Hmi|now apply Hoki]]].
    apply (proj1 L0). pose proof (lookup_map_id st id) as Lk. rewrite Em in Lk. exact Lk.
  Qed.
End Encode.

(* ================================================================= (3) property elements through the channel and the reader *)
(* the rewrites [read_prop_value] queues for the element when it is read for the instance labelled [L] under the name [nm] *)
Definition p_rwn (L : N) (nm : bytes) (p : pelem) : list (N * bytes * bytes) :=
  match p with PRef pn r txt => if r =? 0 then [] else [(L, nm, txt)] | _ => [] end.
Definition p_srwn (L : N) (nm : bytes) (p : pelem) : list (N * bytes * bytes) :=
  match p with PShared pn c h => [(L, nm, md5_key h)] | _ => [] end.
Definition rqueue (st : dstate) (id : N) (nm : bytes) (p : pelem) : dstate :=
  mkDS (ds_nodes st) (ds_next st) (ds_refs st) (ds_rewrites st ++ p_rwn id nm p) (ds_shared st) (ds_srewrites st ++ p_srwn id nm p).
Lemma rqueue_nil st id nm p : p_rwn id nm p = [] -> p_srwn id nm p = [] -> rqueue st id nm p = st.
Proof. intros H1 H2. unfold rqueue. rewrite H1, H2, !app_nil_r. destruct st; reflexivity. Qed.

(* value level: the element goes through the channel in every context, and read_prop_value reads it back under any name *)
Definition p_reads (e : xenv) (p : pelem) : Prop :=
  chan_elems (p_wev p) (p_rev p) /\
  exists ty tail, p_rev p = RStart ty (name_attr (p_name p)) :: tail /\
    forall st id nm e0 rest, nonchar e0 ->
      read_prop_value e st ty id nm (p_rev p ++ e0 :: rest) = Ok ((Some (p_dval p), rqueue st id nm p), e0 :: rest).

Lemma read_ref_elem o a txt rest :
  read_value_xml o (B "Ref") ((RStart (B "Ref") a :: text_events txt ++ [REnd (B "Ref")]) ++ rest)
  = Ok (if bytes_eqb txt (B "null") then RRefNull else RRef txt, rest).
Proof.
  change (read_value_xml o (B "Ref")) with (t <~ x_tag_contents "Ref" ;; xret (if bytes_eqb t (B "null") then RRefNull else RRef t)).
  unfold xbind. rewrite (reads_tag_contents "Ref" a txt rest). reflexivity.
Qed.
Lemma read_shared_elem o a txt rest :
  read_value_xml o (B "SharedString") ((RStart (B "SharedString") a :: text_events txt ++ [REnd (B "SharedString")]) ++ rest)
  = Ok (RShared txt, rest).
Proof.
  change (read_value_xml o (B "SharedString")) with (t <~ x_tag_contents "SharedString" ;; xret (RShared t)).
  unfold xbind. rewrite (reads_tag_contents "SharedString" a txt rest). reflexivity.
Qed.

Lemma p_ok_reads e m dict p : p_ok e m dict p -> p_reads e p.
Proof.
  destruct p as [pn r txt|pn c h|pn w revs v' tag inner]; cbn [p_ok]; intro H; split.
  - apply chan_elems_leaf_a.
  - destruct H as [Ht Hx]. eexists _, _. split; [reflexivity|]. intros st id nm e0 rest _. cbn [p_name p_rev p_dval].
    unfold read_prop_value, xbind. rewrite read_ref_elem. destruct (N.eqb_spec r 0) as [->|Hne].
    + subst txt. cbn [ref_text N.eqb]. replace (bytes_eqb (B "null") (B "null")) with true by reflexivity.
      unfold xret. rewrite rqueue_nil; reflexivity.
    + destruct (Hx Hne) as (x & Hl). assert (Et : txt = dec_of_N x).
      { subst txt. unfold ref_text. apply N.eqb_neq in Hne. rewrite Hne, Hl. reflexivity. }
      rewrite Et, (XmlText.bytes_eqb_neq _ _ (dec_of_N_not_null x)). unfold xret, rqueue. cbn [p_rwn p_srwn].
      apply N.eqb_neq in Hne. rewrite Hne, app_nil_r. reflexivity.
  - apply chan_elems_leaf_a.
  - eexists _, _. split; [reflexivity|]. intros st id nm e0 rest _. cbn [p_name p_rev p_dval].
    unfold read_prop_value, xbind. rewrite read_shared_elem. unfold xret, rqueue. cbn [p_rwn p_srwn]. rewrite app_nil_r. reflexivity.
  - destruct H as (_ & _ & (ts & ->) & Hc & _). cbn [p_wev p_rev].
    change (WStart tag (name_attr pn) :: flats ts ++ [WEnd]) with (flat (WNode tag (name_attr pn) ts)).
    apply chan_elems_closed. exact Hc.
  - destruct H as (_ & _ & _ & Hc & Hr & _). cbn [p_name p_rev p_dval].
    assert (Hh : exists tail, revs = RStart tag (name_attr pn) :: tail).
    { cbn [chan_go] in Hc. destruct (chan_go [tag] t0 (inner ++ [WEnd])) as [r| |c|]; cbn [rbind] in Hc; try discriminate.
      inversion Hc. eexists. reflexivity. }
    destruct Hh as (tail & Eh). exists tag, tail. split; [exact Eh|]. intros st id nm e0 rest He.
    unfold read_prop_value, xbind. rewrite (stable_read_value_xml _ _ _ _ _ Hr e0 rest He). cbn [app]. unfold xret.
    rewrite rqueue_nil; reflexivity.
Qed.

Lemma name_p_reads e nm : p_reads e (name_p nm).
Proof.
  split; [apply chan_elems_leaf_a|]. eexists _, _. split; [reflexivity|]. intros st id nm' e0 rest _. cbn [p_name p_rev p_dval name_p].
  unfold read_prop_value, xbind, name_rev. cbn [app]. rewrite <- app_assoc. cbn [app]. rewrite read_string_element. unfold xret.
  rewrite rqueue_nil; reflexivity.
Qed.

(* ---- property level: what deserialize_property makes of the element, as three functions of the class, the label and the
   element: the referent rewrites and the shared-string rewrites it queues, and what it does to the property table *)
Record dout := mkDO {
  do_rw : bytes -> N -> pelem -> list (N * bytes * bytes);
  do_srw : bytes -> N -> pelem -> list (N * bytes * bytes);
  do_store : bytes -> pelem -> list (bytes * value) -> list (bytes * value)
}.
(* the reader that takes every property as it stands: stored and queued under the name it was written under *)
Definition p_kv (p : pelem) : bytes * value := (p_name p, p_dval p).
Definition plainD : dout :=
  mkDO (fun _ L p => p_rwn L (p_name p) p) (fun _ L p => p_srwn L (p_name p) p) (fun _ p props => bupd (p_name p) (p_dval p) props).
(* the reader that reads the element and drops it *)
Definition dropD : dout := mkDO (fun _ _ _ => []) (fun _ _ _ => []) (fun _ _ props => props).

Definition queue (D : dout) (c : bytes) (st : dstate) (id : N) (p : pelem) : dstate :=
  mkDS (ds_nodes st) (ds_next st) (ds_refs st) (ds_rewrites st ++ do_rw D c id p) (ds_shared st) (ds_srewrites st ++ do_srw D c id p).

Definition p_good (e : xenv) (dbeh : dbehavior) (D : dout) (c : bytes) (p : pelem) : Prop :=
  chan_elems (p_wev p) (p_rev p) /\
  exists ty tail, p_rev p = RStart ty (name_attr (p_name p)) :: tail /\
    forall st id props e0 rest, nonchar e0 ->
      deserialize_property e dbeh c id ty (p_name p) st props (p_rev p ++ e0 :: rest)
      = Ok ((queue D c st id p, do_store D c p props), e0 :: rest).

Lemma p_reads_good_plain e dbeh c p : p_reads e p -> dplain e dbeh c (p_name p) -> p_good e dbeh plainD c p.
Proof.
  intros (Hc & ty & tail & Eh & Hr) Hd. split; [exact Hc|]. exists ty, tail. split; [exact Eh|].
  intros st id props e0 rest He. rewrite (dprop_plain _ _ _ _ _ _ _ _ Hd). unfold xbind. rewrite (Hr st id (p_name p) e0 rest He).
  reflexivity.
Qed.

(* 8e3b6855: with IgnoreUnknown a property the database does not know (other than Name) leaves no trace *)
Lemma p_reads_good_drop e c p : p_reads e p -> bytes_eqb (p_name p) (B "Name") = false ->
  find_desc_xml (xe_db e) (S_ c) (S_ (p_name p)) = Ok None -> p_good e DIgnoreUnknown dropD c p.
Proof.
  intros (Hc & ty & tail & Eh & Hr) Hn Hd. split; [exact Hc|]. exists ty, tail. split; [exact Eh|].
  intros st id props e0 rest He. unfold deserialize_property. rewrite Hn, Hd. unfold xlift, xbind at 1 2. unfold xbind.
  rewrite (Hr st id (p_name p) e0 rest He). unfold xret, queue. cbn [dropD do_rw do_srw do_store]. rewrite !app_nil_r.
  f_equal. f_equal. f_equal. unfold drop_queued, rqueue. cbn [ds_nodes ds_next ds_refs ds_rewrites ds_shared ds_srewrites].
  rewrite !firstn_length_app. reflexivity.
Qed.

Lemma p_good_head e dbeh D c p : p_good e dbeh D c p -> exists ty tail, p_rev p = RStart ty (name_attr (p_name p)) :: tail.
Proof. intros (_ & ty & tail & H & _). eauto. Qed.

(* ================================================================= (4) the first pass of the reader on an item *)
Definition queue_all (D : dout) (c : bytes) (st : dstate) (id : N) (ps : list pelem) : dstate :=
  mkDS (ds_nodes st) (ds_next st) (ds_refs st) (ds_rewrites st ++ flat_map (do_rw D c id) ps) (ds_shared st)
       (ds_srewrites st ++ flat_map (do_srw D c id) ps).
Definition store_all (D : dout) (c : bytes) (ps : list pelem) (props : list (bytes * value)) : list (bytes * value) :=
  fold_left (fun a p => do_store D c p a) ps props.
Lemma queue_all_nil D c st id : queue_all D c st id [] = st.
Proof. unfold queue_all. cbn [flat_map]. rewrite !app_nil_r. destruct st; reflexivity. Qed.
Lemma queue_all_cons D c st id p ps : queue_all D c st id (p :: ps) = queue_all D c (queue D c st id p) id ps.
Proof. unfold queue_all, queue. cbn [flat_map ds_nodes ds_next ds_refs ds_rewrites ds_shared ds_srewrites]. rewrite <- !app_assoc. reflexivity. Qed.

Lemma x_expect_start_hit n a tl : x_expect_start n (RStart n a :: tl) = Ok (a, tl).
Proof. unfold x_expect_start, xbind, x_next. rewrite bytes_eqb_refl. reflexivity. Qed.
Lemma x_expect_end_hit n tl : x_expect_end n (REnd n :: tl) = Ok (tt, tl).
Proof. unfold x_expect_end, xbind, x_next. rewrite bytes_eqb_refl. reflexivity. Qed.

Lemma dpl_S dprop f e beh class id st props :
  deserialize_properties_loop_with dprop (S f) e beh class id st props =
  (ev <~ x_peek ;;
   match ev with
   | RStart ty a =>
       match attr_first (B "name") a with
       | None => xfail DE_ATTR
       | Some pname =>
           '(st1, props1) <~ dprop e beh class id ty pname st props ;;
           deserialize_properties_loop_with dprop f e beh class id st1 props1
       end
   | REnd n => _ <~ x_next ;; if bytes_eqb n (B "Properties") then xret (st, props) else xfail DE_EVENT
   | _ => _ <~ x_next ;; xfail DE_EVENT
   end).
Proof. reflexivity. Qed.

Lemma flat_map_length_ge {A C} (f : A -> list C) l : (forall x, In x l -> f x <> []) -> (length l <= length (flat_map f l))%nat.
Proof.
  induction l as [|x l IH]; intro H; [cbn; lia|]. cbn [flat_map length]. rewrite app_length.
  assert (f x <> []) by (apply H; now left). destruct (f x); [congruence|]. cbn [length].
  specialize (IH (fun y Hy => H y (or_intror Hy))). lia.
Qed.

Section Decode.
  Variables (e : xenv) (dbeh : dbehavior) (D : dout).

  Lemma dec_props_loop class id : forall ps fuel st props rest,
    Forall (p_good e dbeh D class) ps -> (length ps < fuel)%nat ->
    deserialize_properties_loop_with deserialize_property fuel e dbeh class id st props (flat_map p_rev ps ++ REnd (B "Properties") :: rest)
    = Ok ((queue_all D class st id ps, store_all D class ps props), rest).
  Proof.
    induction ps as [|p ps IH]; intros fuel st props rest Hg Hf; (destruct fuel as [|f]; [cbn in Hf; lia|]); rewrite dpl_S.
    - cbn [flat_map app]. unfold xbind, x_peek, x_next. rewrite bytes_eqb_refl. rewrite queue_all_nil. reflexivity.
    - inversion Hg as [|? ? Hp Hg']; subst.
      destruct Hp as (_ & ty & tail & Eh & Hread). cbn [flat_map]. rewrite <- app_assoc.
      assert (Hnext : exists e0 rest0, nonchar e0 /\ flat_map p_rev ps ++ REnd (B "Properties") :: rest = e0 :: rest0).
      { destruct ps as [|p' ps']; [cbn [flat_map app]; eexists _, _; split; [|reflexivity]; exact I|].
        inversion Hg' as [|? ? Hp' _]; subst. destruct (p_good_head _ _ _ _ _ Hp') as (ty' & tail' & Eh').
        cbn [flat_map]. rewrite Eh'. cbn [app]. eexists _, _. split; [|reflexivity]. exact I. }
      destruct Hnext as (e0 & rest0 & He0 & Enext). rewrite Enext.
      unfold xbind at 1. rewrite Eh at 1. cbn [app x_peek]. unfold name_attr at 1, attr_first. cbn [bfind].
      replace (bytes_eqb (B "name") (B "name")) with true by reflexivity.
      unfold xbind.
      change (RStart ty (name_attr (p_name p)) :: tail ++ e0 :: rest0) with ((RStart ty (name_attr (p_name p)) :: tail) ++ e0 :: rest0).
      rewrite <- Eh. rewrite (Hread st id props e0 rest0 He0). rewrite <- Enext.
      rewrite IH by (try assumption; cbn in Hf; lia). rewrite queue_all_cons. reflexivity.
  Qed.
End Decode.

(* a predicate that holds of every item of a tree *)
Fixpoint it_forall (Q : witem -> Prop) (it : witem) : Prop :=
  Q it /\ match it with
          | WItem _ _ _ _ _ ks => (fix all (l : list witem) : Prop := match l with [] => True | k :: r => it_forall Q k /\ all r end) ks
          end.
Lemma it_forall_item Q id x c nm ps ks :
  it_forall Q (WItem id x c nm ps ks) <-> Q (WItem id x c nm ps ks) /\ Forall (it_forall Q) ks.
Proof.
  cbn [it_forall].
  assert (H : (fix all (l : list witem) : Prop := match l with [] => True | k :: r => it_forall Q k /\ all r end) ks
              <-> Forall (it_forall Q) ks).
  { induction ks as [|k r IH]; [split; [constructor|exact (fun _ => I)]|].
    split; [intros [H1 H2]; constructor; [exact H1|apply IH, H2]|intro H; inversion H; subst; split; [assumption|now apply IH]]. }
  rewrite H. reflexivity.
Qed.

(* what the reader needs of one item: every property element (the Name element first) is taken by deserialize_property as
   [D] says, and at the end of the Properties element the table holds the name under `Name` *)
Definition node_dec_ok (e : xenv) (dbeh : dbehavior) (D : dout) (it : witem) : Prop :=
  match it with
  | WItem id x c nm ps ks =>
      Forall (p_good e dbeh D c) (name_p nm :: ps) /\
      bfind (B "Name") (store_all D c (name_p nm :: ps) []) = Some (VString nm)
  end.

(* the property table of the decoded instance before the second pass *)
Definition dprops (D : dout) (c nm : bytes) (ps : list pelem) : list (bytes * value) :=
  bremove (B "Name") (store_all D c (name_p nm :: ps) []).
Definition dnode_of (D : dout) (fn : fnode) : inst :=
  mkInst (fn_label fn) (fn_parent fn) (fn_class fn) (fn_name fn) (dprops D (fn_class fn) (fn_name fn) (fn_props fn)).
Definition ref_of (fn : fnode) : bytes * N := (dec_of_N (fn_x fn), fn_label fn).
Definition rw_of (D : dout) (fn : fnode) : list (N * bytes * bytes) :=
  flat_map (do_rw D (fn_class fn) (fn_label fn)) (name_p (fn_name fn) :: fn_props fn).
Definition srw_of (D : dout) (fn : fnode) : list (N * bytes * bytes) :=
  flat_map (do_srw D (fn_class fn) (fn_label fn)) (name_p (fn_name fn) :: fn_props fn).
(* the parse state after the items [F] have been read *)
Definition dst_after (D : dout) (F : list fnode) (dst : dstate) : dstate :=
  mkDS (ds_nodes dst ++ List.map (dnode_of D) F) (ds_next dst + N.of_nat (length F)) (bupd_all (List.map ref_of F) (ds_refs dst))
       (ds_rewrites dst ++ flat_map (rw_of D) F) (ds_shared dst) (ds_srewrites dst ++ flat_map (srw_of D) F).
Lemma dst_after_nil D dst : dst_after D [] dst = dst.
Proof. unfold dst_after. cbn [List.map flat_map length N.of_nat bupd_all fold_left]. rewrite !app_nil_r, N.add_0_r. destruct dst; reflexivity. Qed.
Lemma dst_after_app D F1 F2 dst : dst_after D (F1 ++ F2) dst = dst_after D F2 (dst_after D F1 dst).
Proof.
  unfold dst_after. cbn [ds_nodes ds_next ds_refs ds_rewrites ds_shared ds_srewrites].
  rewrite !map_app, !flat_map_app, bupd_all_app, app_length, <- !app_assoc. f_equal. lia.
Qed.

Definition nodes_lt (dst : dstate) : Prop := Forall (fun n => i_ref n < ds_next dst) (ds_nodes dst).
Lemma nodes_lt_after D F dst :
  nodes_lt dst -> List.map fn_label F = nseq (ds_next dst) (length F) -> nodes_lt (dst_after D F dst).
Proof.
  intros H HF. unfold nodes_lt, dst_after. cbn [ds_nodes ds_next]. apply Forall_app. split.
  - eapply Forall_impl; [|exact H]. cbn beta. intros; lia.
  - apply Forall_forall. intros n Hn. apply in_map_iff in Hn. destruct Hn as (fn & <- & Hfn). cbn [dnode_of i_ref].
    assert (Hl : In (fn_label fn) (nseq (ds_next dst) (length F))) by (rewrite <- HF; now apply in_map).
    apply in_nseq in Hl. lia.
Qed.

Lemma set_node_mid nodes0 L P c nm0 ps0 nm ps tl :
  Forall (fun n => i_ref n < L) nodes0 -> Forall (fun n => L < i_ref n) tl ->
  set_node (nodes0 ++ mkInst L P c nm0 ps0 :: tl) L nm ps = nodes0 ++ mkInst L P c nm ps :: tl.
Proof.
  intros H0 H1. unfold set_node. rewrite map_app. cbn [List.map i_ref i_parent i_class]. rewrite N.eqb_refl. f_equal; [|f_equal].
  - rewrite <- (List.map_id nodes0) at 2. apply map_ext_in. intros n Hn. rewrite Forall_forall in H0. specialize (H0 n Hn).
    replace (i_ref n =? L) with false by (symmetry; apply N.eqb_neq; lia). reflexivity.
  - rewrite <- (List.map_id tl) at 2. apply map_ext_in. intros n Hn. rewrite Forall_forall in H1. specialize (H1 n Hn).
    replace (i_ref n =? L) with false by (symmetry; apply N.eqb_neq; lia). reflexivity.
Qed.

Lemma di_S dprop f e beh parent st :
  deserialize_instance_with dprop (S f) e beh parent st =
  (a <~ x_expect_start (B "Item") ;;
   match attr_last (B "class") a None with
   | None => xfail DE_ATTR
   | Some class =>
       let id := ds_next st in
       let st1 := mkDS (ds_nodes st ++ [mkInst id parent class class []]) (id + 1)
                       (match attr_last (B "referent") a None with
                        | Some r => bupd r id (ds_refs st)
                        | None => ds_refs st
                        end)
                       (ds_rewrites st) (ds_shared st) (ds_srewrites st) in
       '(st2, props) <~ instance_loop_with dprop f e beh class id st1 [] ;;
       match bfind (B "Name") props with
       | Some (VString s) =>
           xret (mkDS (set_node (ds_nodes st2) id s (bremove (B "Name") props)) (ds_next st2) (ds_refs st2)
                      (ds_rewrites st2) (ds_shared st2) (ds_srewrites st2))
       | Some _ => xfail DE_NAME
       | None =>
           xret (mkDS (set_node (ds_nodes st2) id class props) (ds_next st2) (ds_refs st2)
                      (ds_rewrites st2) (ds_shared st2) (ds_srewrites st2))
       end
   end).
Proof. reflexivity. Qed.

Lemma il_S dprop f e beh class id st props :
  instance_loop_with dprop (S f) e beh class id st props =
  (ev <~ x_peek ;;
   match ev with
   | RStart n _ =>
       if bytes_eqb n (B "Properties") then
         '(st1, props1) <~ deserialize_properties_with dprop e beh class id st props ;;
         instance_loop_with dprop f e beh class id st1 props1
       else if bytes_eqb n (B "Item") then
         st1 <~ deserialize_instance_with dprop f e beh id st ;;
         instance_loop_with dprop f e beh class id st1 props
       else _ <~ x_next ;; xfail DE_EVENT
   | REnd n => _ <~ x_next ;; if bytes_eqb n (B "Item") then xret (st, props) else xfail DE_EVENT
   | _ => _ <~ x_next ;; xfail DE_EVENT
   end).
Proof. reflexivity. Qed.

Lemma it_rev_head it : exists tl, it_rev it = RStart (B "Item") (match it with WItem _ x c _ _ _ => item_attrs c x end) :: tl.
Proof. destruct it. cbn [it_rev]. eexists. reflexivity. Qed.

Lemma p_rev_nonempty e dbeh D c p : p_good e dbeh D c p -> p_rev p <> [].
Proof. intro H. destruct (p_good_head _ _ _ _ _ H) as (ty & tl & ->). discriminate. Qed.

Section Decode2.
  Variables (e : xenv) (dbeh : dbehavior) (D : dout).

  Definition dec_item_stmt (it : witem) : Prop :=
    forall fuel P dst rest, (3 * size it <= fuel)%nat -> nodes_lt dst ->
      deserialize_instance fuel e dbeh P dst (it_rev it ++ rest) = Ok (dst_after D (flatten it P (ds_next dst)) dst, rest).

  (* the loop of deserialize_instance over the child items, up to the end of the enclosing Item *)
  Lemma kids_loop class L : forall ks, Forall dec_item_stmt ks ->
    forall g st props rest, (1 + 3 * sizes ks <= g)%nat -> nodes_lt st ->
      instance_loop_with deserialize_property g e dbeh class L st props (flat_map it_rev ks ++ REnd (B "Item") :: rest)
      = Ok ((dst_after D (flattens ks L (ds_next st)) st, props), rest).
  Proof.
    induction 1 as [|k ks Hk _ IH]; intros g st props rest Hg Hlt; (destruct g as [|g]; [lia|]); rewrite il_S.
    - cbn [flat_map app flattens]. unfold xbind, x_peek, x_next. rewrite bytes_eqb_refl, dst_after_nil. reflexivity.
    - cbn [flat_map flattens]. rewrite <- app_assoc. destruct (it_rev_head k) as (tl & Eh). unfold xbind at 1. rewrite Eh at 1.
      cbn [app x_peek]. replace (bytes_eqb (B "Item") (B "Properties")) with false by reflexivity. rewrite bytes_eqb_refl.
      unfold xbind. change (RStart (B "Item") ?a :: tl ++ ?r) with ((RStart (B "Item") a :: tl) ++ r). rewrite <- Eh.
      rewrite sizes_cons in Hg. unfold dec_item_stmt, deserialize_instance in Hk. rewrite Hk by (try assumption; lia).
      destruct (flatten_length_labels k L (ds_next st)) as (A1 & A2 & _).
      assert (Hpos : (1 <= size k)%nat) by (destruct k; rewrite size_item; lia).
      rewrite IH.
      + rewrite dst_after_app. cbn [dst_after ds_next]. rewrite A1. reflexivity.
      + lia.
      + apply nodes_lt_after; [exact Hlt|]. rewrite A1. exact A2.
  Qed.
End Decode2.

Lemma bfind_bupd_all_notin {V} k (l : list (bytes * V)) : forall acc, ~ In k (List.map fst l) -> bfind k (bupd_all l acc) = bfind k acc.
Proof.
  induction l as [|[k0 v0] l IH]; intros acc Hn; [reflexivity|]. cbn [List.map fst In] in Hn.
  rewrite bupd_all_cons, IH by tauto. cbn [fst snd]. rewrite bfind_bupd.
  replace (bytes_eqb k k0) with false; [reflexivity|]. symmetry. apply beqb_false_iff. intro E. apply Hn. now left.
Qed.

Lemma it_rev_item_app id x c nm ps ks rest :
  it_rev (WItem id x c nm ps ks) ++ rest =
  RStart (B "Item") (item_attrs c x) :: RStart (B "Properties") [] ::
    flat_map p_rev (name_p nm :: ps) ++ REnd (B "Properties") :: flat_map it_rev ks ++ REnd (B "Item") :: rest.
Proof.
  change (it_rev (WItem id x c nm ps ks)) with
    (RStart (B "Item") (item_attrs c x) :: RStart (B "Properties") [] :: flat_map p_rev (name_p nm :: ps)
        ++ REnd (B "Properties") :: flat_map it_rev ks ++ [REnd (B "Item")]).
  cbn [app]. rewrite <- app_assoc. cbn [app]. rewrite <- app_assoc. reflexivity.
Qed.

Lemma map_fst_p_kv ps : List.map fst (List.map p_kv ps) = List.map p_name ps.
Proof. rewrite map_map. reflexivity. Qed.

Section Decode3.
  Variables (e : xenv) (dbeh : dbehavior) (D : dout).

  Theorem dec_item : forall it, it_forall (node_dec_ok e dbeh D) it -> dec_item_stmt e dbeh D it.
  Proof.
    induction it as [id x c nm ps ks IH] using witem_ind'. intro Hok. apply it_forall_item in Hok.
    destruct Hok as [(Hgp & Hname) Hkids].
    assert (IHk : Forall (dec_item_stmt e dbeh D) ks).
    { rewrite Forall_forall in *. intros k Hk. apply IH; [exact Hk|apply Hkids, Hk]. }
    intros fuel P dst rest Hf Hlt. rewrite size_item in Hf.
    destruct fuel as [|f]; [lia|]. destruct f as [|f1]; [lia|].
    unfold deserialize_instance. rewrite di_S, it_rev_item_app. unfold xbind at 1. rewrite x_expect_start_hit.
    replace (attr_last (B "class") (item_attrs c x) None) with (Some c) by reflexivity.
    replace (attr_last (B "referent") (item_attrs c x) None) with (Some (dec_of_N x)) by reflexivity.
    cbv zeta. set (L := ds_next dst) in *.
    set (st1 := mkDS (ds_nodes dst ++ [mkInst L P c c []]) (L + 1) (bupd (dec_of_N x) L (ds_refs dst)) (ds_rewrites dst) (ds_shared dst) (ds_srewrites dst)).
    set (pels := name_p nm :: ps) in *.
    (* the Properties element *)
    unfold xbind at 1. rewrite il_S. unfold xbind at 1. cbn [x_peek]. rewrite bytes_eqb_refl.
    unfold xbind at 1. unfold deserialize_properties_with at 1. unfold xbind at 1. rewrite x_expect_start_hit.
    rewrite (dec_props_loop e dbeh D c L pels _ st1 [] _ Hgp).
    2:{ cbn [length]. rewrite app_length.
        pose proof (flat_map_length_ge p_rev pels (fun p Hp => p_rev_nonempty e dbeh D c p (proj1 (Forall_forall _ _) Hgp p Hp))). lia. }
    (* the child items *)
    set (st2 := queue_all D c st1 L pels).
    assert (Hlt2 : nodes_lt st2).
    { unfold nodes_lt, st2, queue_all, st1. cbn [ds_nodes ds_next]. apply Forall_app. split.
      - eapply Forall_impl; [|exact Hlt]. cbn beta. fold L. intros; lia.
      - constructor; [cbn [i_ref]; lia|constructor]. }
    rewrite (kids_loop e dbeh D c L ks IHk f1 st2 _ rest) by (try exact Hlt2; lia).
    (* the name and the properties are stored *)
    rewrite Hname.
    unfold xret. f_equal. f_equal.
    rewrite flatten_item. fold L. set (Fk := flattens ks L (L + 1)).
    replace (ds_next st2) with (L + 1) by reflexivity. fold Fk.
    destruct (flattens_facts ks L (L + 1)) as (A1 & A2 & _). fold Fk in A1, A2.
    unfold dst_after. cbn [ds_nodes ds_next ds_refs ds_rewrites ds_shared ds_srewrites st2 queue_all st1 List.map flat_map length].
    f_equal.
    - rewrite <- app_assoc. cbn [app]. rewrite set_node_mid; [reflexivity|exact Hlt|].
      apply Forall_forall. intros n Hn. apply in_map_iff in Hn. destruct Hn as (fn & <- & Hfn). cbn [dnode_of i_ref].
      assert (Hl : In (fn_label fn) (nseq (L + 1) (sizes ks))) by (rewrite <- A2; now apply in_map).
      apply in_nseq in Hl. lia.
    - fold L. lia.
    - unfold rw_of at 1. cbn [fn_class fn_label fn_name fn_props]. rewrite <- app_assoc. reflexivity.
    - unfold srw_of at 1. cbn [fn_class fn_label fn_name fn_props]. rewrite <- app_assoc. reflexivity.
  Qed.
End Decode3.

(* ================================================================= (5) the items and the dictionary through the channel *)
Lemma chan_item e dbeh D : forall it, it_forall (node_dec_ok e dbeh D) it -> chan_elems (it_wev it) (it_rev it).
Proof.
  induction it as [id x c nm ps ks IH] using witem_ind'. intro Hok. apply it_forall_item in Hok.
  destruct Hok as [(Hgood & _) Hkids].
  assert (IHk : Forall (fun k => chan0 (it_wev k) (it_rev k)) ks).
  { rewrite Forall_forall in *. intros k Hk. apply chan0_elems, IH; [exact Hk|apply Hkids, Hk]. }
  assert (Hp : Forall (fun p => chan0 (p_wev p) (p_rev p)) (name_p nm :: ps)).
  { eapply Forall_impl; [|exact Hgood]. intros p Hpg. apply chan0_elems, Hpg. }
  change (it_wev (WItem id x c nm ps ks)) with
    (WStart (B "Item") (item_attrs c x) :: WStart (B "Properties") [] :: flat_map p_wev (name_p nm :: ps) ++ WEnd :: flat_map it_wev ks ++ [WEnd]).
  change (it_rev (WItem id x c nm ps ks)) with
    (RStart (B "Item") (item_attrs c x) :: RStart (B "Properties") [] :: flat_map p_rev (name_p nm :: ps)
        ++ REnd (B "Properties") :: flat_map it_rev ks ++ [REnd (B "Item")]).
  replace (WStart (B "Properties") [] :: flat_map p_wev (name_p nm :: ps) ++ WEnd :: flat_map it_wev ks ++ [WEnd])
    with (((WStart (B "Properties") [] :: flat_map p_wev (name_p nm :: ps) ++ [WEnd]) ++ flat_map it_wev ks) ++ [WEnd])
    by (cbn [app]; rewrite <- !app_assoc; reflexivity).
  replace (RStart (B "Properties") [] :: flat_map p_rev (name_p nm :: ps) ++ REnd (B "Properties") :: flat_map it_rev ks ++ [REnd (B "Item")])
    with (((RStart (B "Properties") [] :: flat_map p_rev (name_p nm :: ps) ++ [REnd (B "Properties")]) ++ flat_map it_rev ks) ++ [REnd (B "Item")])
    by (cbn [app]; rewrite <- !app_assoc; reflexivity).
  apply chan_elems_wrap_a. apply chan0_app; [|apply chan0_flat_map, IHk].
  apply chan0_elems, chan_elems_wrap_a, chan0_flat_map, Hp.
Qed.

Definition dict_entry_rev (hc : bytes * bytes) : list revent :=
  RStart (B "SharedString") [(B "md5", md5_key (fst hc))] :: text_events (b64_encode (snd hc)) ++ [REnd (B "SharedString")].
Definition dict_rev (dict : list (bytes * bytes)) : list revent :=
  match dict with
  | [] => []
  | _ => RStart (B "SharedStrings") [] :: flat_map dict_entry_rev dict ++ [REnd (B "SharedStrings")]
  end.

Lemma chan_dict st : chan0 (serialize_shared_strings st) (dict_rev (es_shared st)).
Proof.
  unfold serialize_shared_strings, dict_rev. destruct (es_shared st) as [|x r]; [apply chan0_nil|].
  apply chan0_elems, chan_elems_wrap_a, chan0_flat_map. apply Forall_forall. intros hc _.
  apply chan0_elems. unfold dict_entry_rev, md5_key. apply chan_elems_leaf_a.
Qed.

(* ================================================================= (6) the reader on the dictionary *)
Definition dkey (hc : bytes * bytes) : bytes * bytes := (md5_key (fst hc), snd hc).

Lemma sds_S f st :
  shared_dict_loop (S f) st =
  (ev <~ x_peek ;;
   match ev with
   | RStart n _ =>
       if bytes_eqb n (B "SharedString") then st1 <~ deserialize_shared_string st ;; shared_dict_loop f st1
       else _ <~ x_next ;; xfail DE_EVENT
   | REnd n => if bytes_eqb n (B "SharedStrings") then xret st else _ <~ x_next ;; xfail DE_EVENT
   | _ => _ <~ x_next ;; xfail DE_EVENT
   end).
Proof. reflexivity. Qed.

Definition with_shared (st : dstate) (s : list (bytes * bytes)) : dstate :=
  mkDS (ds_nodes st) (ds_next st) (ds_refs st) (ds_rewrites st) s (ds_srewrites st).

Lemma read_dict_entry st (hc : bytes * bytes) rest : Forall (fun x => x < 256) (snd hc) ->
  deserialize_shared_string st (dict_entry_rev hc ++ rest) = Ok (with_shared st (bupd (md5_key (fst hc)) (snd hc) (ds_shared st)), rest).
Proof.
  intro Hb. unfold deserialize_shared_string, dict_entry_rev. cbn [app]. unfold xbind at 1. rewrite x_expect_start_hit.
  unfold attr_first. cbn [bfind]. replace (bytes_eqb (B "md5") (B "md5")) with true by reflexivity.
  unfold xbind at 1. unfold x_base64 at 1. unfold xbind at 1. rewrite <- app_assoc. cbn [app].
  rewrite (reads_chars (b64_encode (snd hc)) (REnd (B "SharedString")) rest I).
  unfold strip_ws. rewrite strip_ws_go_syms; [|lia|apply b64_encode_syms; exact Hb]. rewrite (b64_roundtrip _ Hb).
  unfold xret, xbind. rewrite x_expect_end_hit. reflexivity.
Qed.

Definition dict_bytes (dict : list (bytes * bytes)) : Prop := Forall (fun hc : bytes * bytes => Forall (fun x => x < 256) (snd hc)) dict.
Lemma dict_loop : forall (dict : list (bytes * bytes)) fuel st rest, dict_bytes dict -> (length dict < fuel)%nat ->
  shared_dict_loop fuel st (flat_map dict_entry_rev dict ++ REnd (B "SharedStrings") :: rest)
  = Ok (with_shared st (bupd_all (List.map dkey dict) (ds_shared st)), REnd (B "SharedStrings") :: rest).
Proof.
  induction dict as [|hc dict IH]; intros fuel st rest Hb Hf; (destruct fuel as [|f]; [cbn in Hf; lia|]); rewrite sds_S.
  - cbn [flat_map app]. unfold xbind, x_peek. rewrite bytes_eqb_refl. unfold xret, with_shared. cbn [List.map bupd_all fold_left].
    destruct st; reflexivity.
  - inversion Hb as [|? ? Hb1 Hb2]; subst. cbn [flat_map]. rewrite <- app_assoc. unfold xbind at 1.
    unfold dict_entry_rev at 1. cbn [app x_peek]. rewrite bytes_eqb_refl. unfold xbind.
    change (RStart (B "SharedString") [(B "md5", md5_key (fst hc))] :: (text_events (b64_encode (snd hc)) ++ [REnd (B "SharedString")]) ++ ?r)
      with (dict_entry_rev hc ++ r).
    rewrite read_dict_entry by exact Hb1. rewrite IH by (try assumption; cbn in Hf; lia).
    unfold with_shared. cbn [ds_nodes ds_next ds_refs ds_rewrites ds_shared ds_srewrites List.map]. rewrite bupd_all_cons. reflexivity.
Qed.

Lemma read_dict (dict : list (bytes * bytes)) st rest : dict <> [] -> dict_bytes dict ->
  deserialize_shared_string_dict st (dict_rev dict ++ rest) = Ok (with_shared st (bupd_all (List.map dkey dict) (ds_shared st)), rest).
Proof.
  intros Hne Hb. unfold deserialize_shared_string_dict, dict_rev. destruct dict as [|x r]; [congruence|]. set (dict := x :: r) in *.
  cbn [app]. unfold xbind at 1. rewrite x_expect_start_hit. rewrite <- app_assoc. cbn [app]. unfold xbind at 1.
  rewrite dict_loop; [|exact Hb|].
  - unfold xbind. rewrite x_expect_end_hit. reflexivity.
  - cbn [length]. rewrite app_length.
    assert (length dict <= length (flat_map dict_entry_rev dict))%nat by (apply flat_map_length_ge; intros; discriminate). lia.
Qed.

(* ================================================================= (7) the loop of deserialize_root *)
Lemma rl_S dprop f e beh st :
  root_loop_with dprop (S f) e beh st =
  (ev <~ x_peek ;;
   match ev with
   | RStart n _ =>
       if bytes_eqb n (B "Item") then
         fun evs => (st1 <~ deserialize_instance_with dprop (2 * length evs + 4) e beh 0 st ;; root_loop_with dprop f e beh st1) evs
       else if bytes_eqb n (B "External") then _ <~ x_eat_unknown ;; root_loop_with dprop f e beh st
       else if bytes_eqb n (B "Meta") then _ <~ deserialize_metadata ;; root_loop_with dprop f e beh st
       else if bytes_eqb n (B "SharedStrings") then st1 <~ deserialize_shared_string_dict st ;; root_loop_with dprop f e beh st1
       else _ <~ x_next ;; xfail DE_EVENT
   | REnd n => _ <~ x_next ;; if bytes_eqb n (B "roblox") then xret st else xfail DE_EVENT
   | REndDoc => xret st
   | _ => _ <~ x_next ;; xfail DE_EVENT
   end).
Proof. reflexivity. Qed.

Lemma length_it_rev : forall it, (2 * size it <= length (it_rev it))%nat.
Proof.
  induction it as [id x c nm ps ks IH] using witem_ind'.
  change (it_rev (WItem id x c nm ps ks)) with
    (RStart (B "Item") (item_attrs c x) :: RStart (B "Properties") [] :: flat_map p_rev (name_p nm :: ps)
        ++ REnd (B "Properties") :: flat_map it_rev ks ++ [REnd (B "Item")]).
  rewrite size_item. cbn [length]. rewrite !app_length. cbn [length]. rewrite app_length. cbn [length].
  assert (H : (2 * sizes ks <= length (flat_map it_rev ks))%nat).
  { induction IH as [|k r Hk _ IHr]; [cbn; lia|]. rewrite sizes_cons. cbn [flat_map]. rewrite app_length. lia. }
  lia.
Qed.

Section Root.
  Variables (e : xenv) (dbeh : dbehavior) (D : dout).

  Lemma root_items : forall its fuel st tail,
    Forall (it_forall (node_dec_ok e dbeh D)) its -> nodes_lt st -> (length its <= fuel)%nat ->
    root_loop_with deserialize_property fuel e dbeh st (flat_map it_rev its ++ tail)
    = root_loop_with deserialize_property (fuel - length its) e dbeh (dst_after D (flattens its 0 (ds_next st)) st) tail.
  Proof.
    induction its as [|it its IH]; intros fuel st tail Hok Hlt Hf.
    - cbn [flat_map app flattens length]. rewrite dst_after_nil, Nat.sub_0_r. reflexivity.
    - destruct fuel as [|f]; [cbn in Hf; lia|]. inversion Hok as [|? ? Hit Hits]; subst.
      rewrite rl_S. cbn [flat_map flattens length]. rewrite <- app_assoc. destruct (it_rev_head it) as (tl & Eh).
      unfold xbind at 1. rewrite Eh at 1. cbn [app x_peek]. rewrite bytes_eqb_refl. cbv beta.
      change (RStart (B "Item") ?a :: tl ++ ?r) with ((RStart (B "Item") a :: tl) ++ r). rewrite <- Eh.
      unfold xbind at 1. pose proof (dec_item e dbeh D it Hit) as Hd. unfold dec_item_stmt, deserialize_instance in Hd.
      rewrite Hd; [|rewrite app_length; pose proof (length_it_rev it); lia|exact Hlt].
      destruct (flatten_length_labels it 0 (ds_next st)) as (A1 & A2 & _).
      rewrite IH; [|exact Hits| |cbn in Hf; lia].
      + rewrite dst_after_app. cbn [dst_after ds_next]. rewrite A1. reflexivity.
      + apply nodes_lt_after; [exact Hlt|]. rewrite A1. exact A2.
  Qed.

  Lemma root_tail fuel st (dict : list (bytes * bytes)) : dict_bytes dict -> (2 <= fuel)%nat ->
    root_loop_with deserialize_property fuel e dbeh st (dict_rev dict ++ [REnd (B "roblox"); REndDoc])
    = Ok (with_shared st (bupd_all (List.map dkey dict) (ds_shared st)), [REndDoc]).
  Proof.
    intros Hb Hf. destruct fuel as [|[|f]]; try lia.
    assert (Hend : forall g st', root_loop_with deserialize_property (S g) e dbeh st' [REnd (B "roblox"); REndDoc] = Ok (st', [REndDoc])).
    { intros g st'. rewrite rl_S. reflexivity. }
    destruct dict as [|x r].
    - cbn [dict_rev app]. rewrite Hend. unfold with_shared. cbn [List.map bupd_all fold_left]. destruct st; reflexivity.
    - set (dict := x :: r) in *.
      assert (Ed : dict_rev dict = RStart (B "SharedStrings") [] :: flat_map dict_entry_rev dict ++ [REnd (B "SharedStrings")]) by reflexivity.
      rewrite rl_S. unfold xbind at 1. rewrite Ed at 1. cbn [app x_peek].
      replace (bytes_eqb (B "SharedStrings") (B "Item")) with false by reflexivity.
      replace (bytes_eqb (B "SharedStrings") (B "External")) with false by reflexivity.
      replace (bytes_eqb (B "SharedStrings") (B "Meta")) with false by reflexivity.
      rewrite bytes_eqb_refl. unfold xbind.
      change (RStart (B "SharedStrings") [] :: (flat_map dict_entry_rev dict ++ [REnd (B "SharedStrings")]) ++ [REnd (B "roblox"); REndDoc])
        with ((RStart (B "SharedStrings") [] :: flat_map dict_entry_rev dict ++ [REnd (B "SharedStrings")]) ++ [REnd (B "roblox"); REndDoc]).
      rewrite <- Ed.
      rewrite read_dict by (try exact Hb; discriminate). apply Hend.
  Qed.
End Root.

(* ================================================================= (8) the second pass: the two rewrite passes *)
Definition with_props (i : inst) (ps : list (bytes * value)) : inst := mkInst (i_ref i) (i_parent i) (i_class i) (i_name i) ps.

Section RW.
  Context {T : Type} (mk : T -> value) (tbl : list (bytes * T)).

  (* both passes: for each queued (instance, property, key), if the table knows the key, set the property *)
  Fixpoint apply_rw (rw : list (N * bytes * bytes)) (d : cdom) : cdom :=
    match rw with
    | [] => d
    | (id, pn, key) :: r => apply_rw r (match bfind key tbl with Some t => set_prop d id pn (mk t) | None => d end)
    end.
  (* ... seen from one instance *)
  Fixpoint rw_props (rw : list (N * bytes * bytes)) (lbl : N) (props : list (bytes * value)) : list (bytes * value) :=
    match rw with
    | [] => props
    | (id, pn, key) :: r =>
        rw_props r lbl (if lbl =? id then match bfind key tbl with Some t => bupd pn (mk t) props | None => props end else props)
    end.
  (* ... seen from one property of one instance *)
  Fixpoint rw_val (rw : list (N * bytes * bytes)) (lbl : N) (k : bytes) (o : option value) : option value :=
    match rw with
    | [] => o
    | (id, pn, key) :: r =>
        rw_val r lbl k (if (lbl =? id) && bytes_eqb k pn then match bfind key tbl with Some t => Some (mk t) | None => o end else o)
    end.

  Lemma apply_rw_map rw : forall d, apply_rw rw d = List.map (fun i => with_props i (rw_props rw (i_ref i) (i_props i))) d.
  Proof.
    induction rw as [|[[id pn] key] r IH]; intro d.
    - cbn [apply_rw rw_props]. rewrite <- (List.map_id d) at 1. apply map_ext. intros [a b c nm ps]. reflexivity.
    - cbn [apply_rw rw_props]. rewrite IH. destruct (bfind key tbl) as [t|].
      + unfold set_prop. rewrite map_map. apply map_ext. intros [a b c nm ps]. cbn [i_ref i_props].
        destruct (a =? id); reflexivity.
      + apply map_ext. intros [a b c nm ps]. cbn [i_ref i_props]. destruct (a =? id); reflexivity.
  Qed.

  Lemma bfind_rw_props k lbl rw : forall props, bfind k (rw_props rw lbl props) = rw_val rw lbl k (bfind k props).
  Proof.
    induction rw as [|[[id pn] key] r IH]; intro props; [reflexivity|]. cbn [rw_props rw_val]. rewrite IH. f_equal.
    destruct (lbl =? id); cbn [andb]; [|destruct (bytes_eqb k pn); reflexivity].
    destruct (bfind key tbl) as [t|]; [|destruct (bytes_eqb k pn); reflexivity]. apply bfind_bupd.
  Qed.

  Lemma nodup_rw_props lbl rw : forall props, NoDup (List.map fst props) -> NoDup (List.map fst (rw_props rw lbl props)).
  Proof.
    induction rw as [|[[id pn] key] r IH]; intros props H; [exact H|]. cbn [rw_props]. apply IH.
    destruct (lbl =? id); [|exact H]. destruct (bfind key tbl); [apply nodup_bupd, H|exact H].
  Qed.

  Lemma rw_val_app a b lbl k o : rw_val (a ++ b) lbl k o = rw_val b lbl k (rw_val a lbl k o).
  Proof. revert o. induction a as [|[[id pn] key] r IH]; intro o; [reflexivity|]. cbn [app rw_val]. apply IH. Qed.

  Definition noentry (l : list (N * bytes * bytes)) (lbl : N) (k : bytes) : Prop :=
    forall x, In x l -> ~ (fst (fst x) = lbl /\ snd (fst x) = k).
  Lemma rw_val_noentry l lbl k : noentry l lbl k -> forall o, rw_val l lbl k o = o.
  Proof.
    induction l as [|[[id pn] key] r IH]; intros Hn o; [reflexivity|]. cbn [rw_val].
    replace ((lbl =? id) && bytes_eqb k pn) with false.
    - apply IH. intros x Hx. apply Hn. now right.
    - symmetry. apply andb_false_iff. destruct (N.eqb_spec lbl id) as [->|]; [|now left]. right. apply beqb_false_iff.
      intro E. subst pn. apply (Hn (id, k, key)); [now left|split; reflexivity].
  Qed.
  Lemma noentry_app a b lbl k : noentry a lbl k -> noentry b lbl k -> noentry (a ++ b) lbl k.
  Proof. intros Ha Hb x Hx. apply in_app_or in Hx. destruct Hx; [now apply Ha|now apply Hb]. Qed.

  (* a queue function that files every entry under the label and the name of its property element *)
  Variable q : N -> pelem -> list (N * bytes * bytes).
  Hypothesis q_shape : forall L p x, In x (q L p) -> fst (fst x) = L /\ snd (fst x) = p_name p.
  Definition q_of (fn : fnode) : list (N * bytes * bytes) := flat_map (q (fn_label fn)) (fn_props fn).

  Lemma noentry_other_label F lbl k : ~ In lbl (List.map fn_label F) -> noentry (flat_map q_of F) lbl k.
  Proof.
    intros Hn x Hx [E _]. apply in_flat_map in Hx. destruct Hx as (fn & Hfn & Hx). unfold q_of in Hx.
    apply in_flat_map in Hx. destruct Hx as (p & _ & Hx). apply q_shape in Hx. apply Hn. rewrite <- E, (proj1 Hx). now apply in_map.
  Qed.
  Lemma noentry_other_name ps L lbl k : ~ In k (List.map p_name ps) -> noentry (flat_map (q L) ps) lbl k.
  Proof.
    intros Hn x Hx [_ E]. apply in_flat_map in Hx. destruct Hx as (p & Hp & Hx). apply q_shape in Hx. apply Hn.
    rewrite <- E, (proj2 Hx). now apply in_map.
  Qed.

  Lemma NoDup_split {A} (a : list A) x b : NoDup (a ++ x :: b) -> ~ In x a /\ ~ In x b.
  Proof. intro H. apply NoDup_remove_2 in H. split; intro Hin; apply H, in_or_app; [now left|now right]. Qed.

  Lemma rw_val_absent F fn k o : NoDup (List.map fn_label F) -> In fn F -> ~ In k (List.map p_name (fn_props fn)) ->
    rw_val (flat_map q_of F) (fn_label fn) k o = o.
  Proof.
    intros Hnd Hin Hk. apply rw_val_noentry. apply in_split in Hin. destruct Hin as (F1 & F2 & ->).
    rewrite map_app in Hnd. cbn [List.map] in Hnd. destruct (NoDup_split _ _ _ Hnd) as [H1 H2].
    rewrite flat_map_app. cbn [flat_map]. apply noentry_app; [now apply noentry_other_label|].
    apply noentry_app; [now apply noentry_other_name|now apply noentry_other_label].
  Qed.

  Lemma rw_val_locate F fn p o : NoDup (List.map fn_label F) -> In fn F -> NoDup (List.map p_name (fn_props fn)) -> In p (fn_props fn) ->
    rw_val (flat_map q_of F) (fn_label fn) (p_name p) o = rw_val (q (fn_label fn) p) (fn_label fn) (p_name p) o.
  Proof.
    intros Hnd Hin Hndp Hp. apply in_split in Hin. destruct Hin as (F1 & F2 & ->).
    rewrite map_app in Hnd. cbn [List.map] in Hnd. destruct (NoDup_split _ _ _ Hnd) as [H1 H2].
    rewrite flat_map_app. cbn [flat_map]. rewrite !rw_val_app.
    rewrite (rw_val_noentry (flat_map q_of F1)) by now apply noentry_other_label.
    rewrite (rw_val_noentry (flat_map q_of F2)) by now apply noentry_other_label.
    unfold q_of. apply in_split in Hp. destruct Hp as (ps1 & ps2 & Eps). rewrite Eps in *.
    rewrite map_app in Hndp. cbn [List.map] in Hndp. destruct (NoDup_split _ _ _ Hndp) as [P1 P2].
    rewrite flat_map_app. cbn [flat_map]. rewrite !rw_val_app.
    rewrite (rw_val_noentry (flat_map _ ps1)) by now apply noentry_other_name.
    rewrite (rw_val_noentry (flat_map _ ps2)) by now apply noentry_other_name. reflexivity.
  Qed.
End RW.

Lemma apply_ref_rewrites_eq refs rw : forall d, apply_ref_rewrites refs rw d = apply_rw VRef refs rw d.
Proof. induction rw as [|[[id pn] key] r IH]; intro d; [reflexivity|]. cbn [apply_ref_rewrites apply_rw]. apply IH. Qed.
Lemma apply_shared_rewrites_eq known rw : forall d, apply_shared_rewrites known rw d = apply_rw VSharedString known rw d.
Proof. induction rw as [|[[id pn] key] r IH]; intro d; [reflexivity|]. cbn [apply_shared_rewrites apply_rw]. apply IH. Qed.

(* ---- the plain reader: what it stores and queues *)
Definition q_rw (L : N) (p : pelem) : list (N * bytes * bytes) := p_rwn L (p_name p) p.
Definition q_srw (L : N) (p : pelem) : list (N * bytes * bytes) := p_srwn L (p_name p) p.
Lemma p_rw_shape L p x : In x (q_rw L p) -> fst (fst x) = L /\ snd (fst x) = p_name p.
Proof. unfold q_rw. destruct p; cbn [p_rwn p_name]; try contradiction. destruct (r =? 0); [contradiction|]. intros [<-|[]]. split; reflexivity. Qed.
Lemma p_srw_shape L p x : In x (q_srw L p) -> fst (fst x) = L /\ snd (fst x) = p_name p.
Proof. unfold q_srw. destruct p; cbn [p_srwn p_name]; try contradiction. intros [<-|[]]. split; reflexivity. Qed.

Definition dprops0 (ps : list pelem) : list (bytes * value) := bupd_all (List.map p_kv ps) [].
Definition dnode_of0 (fn : fnode) : inst := mkInst (fn_label fn) (fn_parent fn) (fn_class fn) (fn_name fn) (dprops0 (fn_props fn)).
Definition rw_of0 : fnode -> list (N * bytes * bytes) := q_of q_rw.
Definition srw_of0 : fnode -> list (N * bytes * bytes) := q_of q_srw.

Lemma store_all_plain c ps : forall acc, store_all plainD c ps acc = bupd_all (List.map p_kv ps) acc.
Proof. induction ps as [|p ps IH]; intro acc; [reflexivity|]. cbn [store_all fold_left List.map]. rewrite bupd_all_cons. apply IH. Qed.
Lemma name_kept_plain c nm ps : ~ In (B "Name") (List.map p_name ps) ->
  bfind (B "Name") (store_all plainD c (name_p nm :: ps) []) = Some (VString nm).
Proof.
  intro Hn. rewrite store_all_plain. cbn [List.map]. rewrite bupd_all_cons. rewrite bfind_bupd_all_notin by (rewrite map_fst_p_kv; exact Hn).
  reflexivity.
Qed.
Lemma dnode_plain fn : ~ In (B "Name") (List.map p_name (fn_props fn)) -> dnode_of plainD fn = dnode_of0 fn.
Proof.
  intro Hn. unfold dnode_of, dnode_of0, dprops, dprops0. f_equal. rewrite store_all_plain. cbn [List.map]. rewrite bupd_all_cons.
  rewrite bremove_bupd_all by (rewrite map_fst_p_kv; exact Hn). reflexivity.
Qed.
Lemma rw_of_plain fn : rw_of plainD fn = rw_of0 fn.
Proof. reflexivity. Qed.
Lemma srw_of_plain fn : srw_of plainD fn = srw_of0 fn.
Proof. reflexivity. Qed.

(* the value of a property element after both passes *)
Definition p_final (refs : list (bytes * N)) (known : list (bytes * bytes)) (p : pelem) : value :=
  match p with
  | PRef pn r txt => if r =? 0 then VRef 0 else match bfind txt refs with Some t => VRef t | None => VRef 0 end
  | PShared pn c h => match bfind (md5_key h) known with Some c' => VSharedString c' | None => VBinaryString [] end
  | PVal _ _ _ v' _ _ => v'
  end.

Section Final.
  Variables (refs : list (bytes * N)) (known : list (bytes * bytes)) (F : list fnode).
  Let rw := flat_map rw_of0 F.
  Let srw := flat_map srw_of0 F.
  Definition fin_props (fn : fnode) : list (bytes * value) :=
    rw_props VSharedString known srw (fn_label fn) (rw_props VRef refs rw (fn_label fn) (dprops0 (fn_props fn))).
  Definition fin_node (fn : fnode) : inst := mkInst (fn_label fn) (fn_parent fn) (fn_class fn) (fn_name fn) (fin_props fn).

  Lemma second_pass : apply_shared_rewrites known srw (apply_ref_rewrites refs rw (List.map dnode_of0 F)) = List.map fin_node F.
  Proof.
    rewrite apply_shared_rewrites_eq, apply_ref_rewrites_eq, !apply_rw_map, !map_map. apply map_ext. intro fn. reflexivity.
  Qed.

  Hypothesis Hlabels : NoDup (List.map fn_label F).

  Lemma bfind_p_kv ps p : NoDup (List.map p_name ps) -> In p ps -> bfind (p_name p) (List.map p_kv ps) = Some (p_dval p).
  Proof.
    induction ps as [|p0 ps IH]; intros Hnd Hin; [contradiction|]. cbn [List.map] in *. inversion Hnd as [|? ? Hn Hd]; subst.
    cbn [bfind p_kv]. unfold p_kv at 1. destruct Hin as [->|Hin]; [rewrite bytes_eqb_refl; reflexivity|].
    replace (bytes_eqb (p_name p) (p_name p0)) with false; [now apply IH|]. symmetry. apply beqb_false_iff.
    intro E. apply Hn. rewrite <- E. now apply in_map.
  Qed.

  Lemma fin_lookup fn p : In fn F -> NoDup (List.map p_name (fn_props fn)) -> In p (fn_props fn) ->
    bfind (p_name p) (fin_props fn) = Some (p_final refs known p).
  Proof.
    intros Hin Hnd Hp. unfold fin_props. rewrite !bfind_rw_props. unfold dprops0.
    rewrite bfind_bupd_all by (rewrite map_fst_p_kv; exact Hnd). rewrite (bfind_p_kv _ _ Hnd Hp).
    unfold rw, srw, rw_of0, srw_of0.
    rewrite (rw_val_locate VRef refs q_rw p_rw_shape F fn p _ Hlabels Hin Hnd Hp).
    rewrite (rw_val_locate VSharedString known q_srw p_srw_shape F fn p _ Hlabels Hin Hnd Hp).
    unfold q_rw, q_srw.
    destruct p as [pn r txt|pn c h|pn w revs v' tag inner]; cbn [p_rwn p_srwn p_name p_dval p_final rw_val].
    - destruct (r =? 0); cbn [rw_val]; [reflexivity|]. rewrite N.eqb_refl, bytes_eqb_refl. cbn [andb].
      destruct (bfind txt refs); reflexivity.
    - rewrite N.eqb_refl, bytes_eqb_refl. cbn [andb]. destruct (bfind (md5_key h) known); reflexivity.
    - reflexivity.
  Qed.

  Lemma fin_absent fn k : In fn F -> ~ In k (List.map p_name (fn_props fn)) -> bfind k (fin_props fn) = None.
  Proof.
    intros Hin Hk. unfold fin_props. rewrite !bfind_rw_props. unfold dprops0.
    rewrite bfind_bupd_all_notin by (rewrite map_fst_p_kv; exact Hk). cbn [bfind].
    unfold rw, srw, rw_of0, srw_of0.
    rewrite (rw_val_absent VRef refs q_rw p_rw_shape F fn k _ Hlabels Hin Hk).
    rewrite (rw_val_absent VSharedString known q_srw p_srw_shape F fn k _ Hlabels Hin Hk). reflexivity.
  Qed.

  Lemma fin_nodup fn : NoDup (List.map fst (fin_props fn)).
  Proof. unfold fin_props, dprops0. apply nodup_rw_props, nodup_rw_props, nodup_bupd_all. constructor. Qed.
End Final.

(* the second pass leaves referent, parent, class and name alone *)
Definition skel (i : inst) : N * N * bytes * bytes := (i_ref i, i_parent i, i_class i, i_name i).
Lemma apply_rw_skel {T} (mk : T -> value) tbl rw d : List.map skel (apply_rw mk tbl rw d) = List.map skel d.
Proof. rewrite apply_rw_map, map_map. apply map_ext. intros [a b c nm ps]. reflexivity. Qed.

(* ================================================================= (9) the hypotheses of the whole-file theorems *)
(* the encoder's input: referents unique in the DOM; no instance written twice (the chosen subtrees do not overlap); 0 (the
   null referent) is not written ... *)
Definition input_ok0 (d : cdom) (roots : list N) : Prop :=
  NoDup (List.map i_ref d) /\ NoDup (written d roots) /\ ~ In 0 (written d roots).
(* ... and every written instance has its property keys once and none of them is `Name` *)
Definition input_ok (d : cdom) (roots : list N) : Prop :=
  NoDup (List.map i_ref d) /\ NoDup (written d roots) /\ ~ In 0 (written d roots) /\
  forall id i, In id (written d roots) -> find_inst d id = Some i ->
    NoDup (List.map fst (i_props i)) /\ ~ In (B "Name") (List.map fst (i_props i)).
Lemma input_ok_0 d roots : input_ok d roots -> input_ok0 d roots.
Proof. intros (H1 & H2 & H3 & _). repeat split; assumption. Qed.

(* writer and reader take every property of every written instance as it stands *)
Definition plain_mode (e : xenv) (ebeh : ebehavior) (dbeh : dbehavior) (d : cdom) (roots : list N) : Prop :=
  forall id i, In id (written d roots) -> find_inst d id = Some i ->
    dplain e dbeh (i_class i) (B "Name") /\
    forall k, In k (List.map fst (i_props i)) -> eplain e ebeh (i_class i) k /\ dplain e dbeh (i_class i) k.

(* the hash oracle: hashes and contents are byte strings, and contents whose hashes agree on their first 16 bytes (the key
   of the dictionary) are equal *)
Definition hash_ok (e : xenv) : Prop :=
  hash_is_bytes e /\ (forall c h, xe_hash e c = Some h -> Forall (fun x => x < 256) c) /\
  (forall c1 c2 h1 h2, xe_hash e c1 = Some h1 -> xe_hash e c2 = Some h2 -> firstn 16 h1 = firstn 16 h2 -> c1 = c2).
(* ... of which the first-pass theorems need only that the contents are byte strings (base64) *)
Definition hash_bytes (e : xenv) : Prop := forall c h, xe_hash e c = Some h -> Forall (fun x => x < 256) c.

(* every value written for a property of a written instance, other than a Ref or a SharedString, is read back as something *)
Definition readable (e : xenv) (ebeh : ebehavior) (d : cdom) (roots : list N) : Prop :=
  forall id i k v pn w, In id (written d roots) -> find_inst d id = Some i -> In (k, v) (i_props i) ->
    ser_plan e ebeh (i_class i) (List.map fst (bsort (i_props i))) k v = Ok (Some (pn, w)) -> nonspecial w ->
    exists v', vlaw (xe_o e) w v'.

(* the reader, on what the writer writes for the written instances, behaves as [D] says: on the Name element (which it stores
   under `Name`) and on every property element the writer can have written ([p_ok]: it holds the value written for one of
   the instance's properties and what the value level reads back); and no property element touches `Name` *)
Definition dec_law (e : xenv) (ebeh : ebehavior) (dbeh : dbehavior) (D : dout) (d : cdom) (roots : list N) : Prop :=
  forall id i, In id (written d roots) -> find_inst d id = Some i ->
    p_good e dbeh D (i_class i) (name_p (i_name i)) /\
    bfind (B "Name") (do_store D (i_class i) (name_p (i_name i)) []) = Some (VString (i_name i)) /\
    forall p k v, (exists m dict, p_ok e m dict p) -> In (k, v) (i_props i) ->
      ser_plan e ebeh (i_class i) (List.map fst (bsort (i_props i))) k v = Ok (Some (p_pair p)) ->
      p_good e dbeh D (i_class i) p /\
      forall props, bfind (B "Name") (do_store D (i_class i) p props) = bfind (B "Name") props.

Lemma hash_ok_prefix e : hash_ok e -> prefix_injective e.
Proof. intros (_ & _ & H) c1 c2 h1 h2 H1 H2 E. pose proof (H _ _ _ _ H1 H2 E). subst c2. congruence. Qed.
Lemma hash_ok_bytes e : hash_ok e -> hash_bytes e.
Proof. intros (_ & H & _). exact H. Qed.

Lemma keys_in {V} (l : list (bytes * V)) k v : In (k, v) l -> In k (List.map fst l).
Proof. intro H. apply in_map_iff. exists (k, v). split; [reflexivity|exact H]. Qed.

Lemma planned_plain e ebeh i : (forall k, In k (List.map fst (i_props i)) -> eplain e ebeh (i_class i) k) ->
  planned e ebeh i = Ok (bsort (i_props i)).
Proof.
  intro H. apply plan_list_plain. intros k v Hkv. apply H. eapply keys_in. eapply Permutation_in; [apply bsort_permutation|exact Hkv].
Qed.

(* in the plain pairing the reader is the plain reader *)
Lemma readable_plain e ebeh dbeh d roots :
  plain_mode e ebeh dbeh d roots ->
  (forall id i k v, In id (written d roots) -> find_inst d id = Some i -> In (k, v) (i_props i) -> nonspecial v -> exists v', vlaw (xe_o e) v v') ->
  readable e ebeh d roots.
Proof.
  intros Hpm H id i k v pn w Hid Hf Hkv Hs Hns.
  rewrite (ser_plan_plain _ _ _ _ _ _ (proj1 (proj2 (Hpm id i Hid Hf) k (keys_in _ _ _ Hkv)))) in Hs. inversion Hs; subst.
  eapply H; eassumption.
Qed.
Lemma dec_law_plain e ebeh dbeh d roots : input_ok d roots -> plain_mode e ebeh dbeh d roots -> dec_law e ebeh dbeh plainD d roots.
Proof.
  intros (_ & _ & _ & Hprops) Hpm id i Hid Hf. destruct (Hpm id i Hid Hf) as [HdN Hk]. destruct (Hprops id i Hid Hf) as [_ Hnn].
  split; [apply p_reads_good_plain; [apply name_p_reads|exact HdN]|]. split; [reflexivity|].
  intros p k v (m0 & dict0 & Hpk) Hkv Hs. pose proof (p_ok_reads _ _ _ _ Hpk) as Hr. pose proof (keys_in _ _ _ Hkv) as Hkin.
  rewrite (ser_plan_plain _ _ _ _ _ _ (proj1 (Hk k Hkin))) in Hs. inversion Hs as [[E1 E2]]. subst k.
  split; [apply p_reads_good_plain; [exact Hr|apply (Hk _ Hkin)]|].
  intro props. cbn [plainD do_store]. rewrite bfind_bupd. replace (bytes_eqb (B "Name") (p_name p)) with false; [reflexivity|].
  symmetry. apply beqb_false_iff. intro E. apply Hnn. rewrite E. exact Hkin.
Qed.

(* ================================================================= (10) assembling the pieces *)
Lemma store_all_keeps D c ps : (forall p, In p ps -> forall props, bfind (B "Name") (do_store D c p props) = bfind (B "Name") props) ->
  forall acc, bfind (B "Name") (store_all D c ps acc) = bfind (B "Name") acc.
Proof.
  induction ps as [|p ps IH]; intros H acc; [reflexivity|]. cbn [store_all fold_left].
  change (fold_left (fun a p0 => do_store D c p0 a) ps (do_store D c p acc)) with (store_all D c ps (do_store D c p acc)).
  rewrite IH by (intros q Hq; apply H; now right). apply H. now left.
Qed.

Section Whole.
  Variables (e : xenv) (ebeh : ebehavior) (dbeh : dbehavior) (D : dout) (d : cdom) (roots : list N).
  Let W := written d roots.
  Hypothesis Hrd : readable e ebeh d roots.
  Hypothesis Hdl : dec_law e ebeh dbeh D d roots.

  Lemma encode_view evs : xml_encode e ebeh d roots = Ok evs ->
    exists its stF,
      List.map it_id its = roots /\ flat_map it_ids its = W /\
      Forall (item_ok e ebeh d (es_map stF) (es_shared stF)) its /\ st_ok e stF /\ StronglySorted klt (es_shared stF) /\
      evs = WStart (B "roblox") [(B "version", B "4")] :: (flat_map it_wev its ++ serialize_shared_strings stF) ++ [WEnd].
  Proof.
    unfold xml_encode. rewrite xml_encode_with_eq.
    destruct (seq_with (serialize_instance_with serialize_property (S (List.length d)) e ebeh d) roots es0) as [[body stF]| |c|] eqn:E;
      cbn [rbind]; try discriminate.
    intro H. inversion H; subst; clear H.
    destruct (enc_seq e ebeh d W _ (subtree d (S (List.length d))) (fun st c ev st' => enc_item e ebeh d W Hrd (S (List.length d)) st c ev st')
                roots es0 body stF (fun x Hx => Hx) E) as (X & its & Hm & -> & Hids & Hok).
    exists its, stF. split; [exact Hm|]. split; [exact Hids|]. split; [apply Hok, st_le_refl|].
    split; [apply (proj2 X), st_ok_es0|]. split; [exact (xml_encode_dictionary_sorted e ebeh d roots _ _ E)|].
    rewrite <- app_assoc. reflexivity.
  Qed.

  Lemma item_dec_ok m dict : forall it, incl (it_ids it) W -> item_ok e ebeh d m dict it -> it_forall (node_dec_ok e dbeh D) it.
  Proof.
    induction it as [id x c nm ps ks IH] using witem_ind'. intros Hsub Hok. apply item_ok_item in Hok.
    destruct Hok as ((i & Hf & -> & -> & Hps) & _ & Hpok & _ & Hkids).
    assert (HidW : In id W) by (apply Hsub; cbn [it_ids]; now left).
    destruct (Hdl id i HidW Hf) as (HgN & HsN & Hp).
    assert (Hall : forall p, In p ps -> p_good e dbeh D (i_class i) p /\
                     forall props, bfind (B "Name") (do_store D (i_class i) p props) = bfind (B "Name") props).
    { intros p Hpin. unfold planned in Hps.
      destruct (plan_list_in _ _ _ _ _ _ (fst (p_pair p)) (snd (p_pair p)) Hps) as (k & v & Hkv & Hs).
      { rewrite <- surjective_pairing. apply in_map. exact Hpin. }
      rewrite <- surjective_pairing in Hs. apply (Hp p k v); [|eapply Permutation_in; [apply bsort_permutation|exact Hkv]|exact Hs].
      rewrite Forall_forall in Hpok. exists m, dict. apply Hpok, Hpin. }
    apply it_forall_item. split.
    - split.
      + constructor; [exact HgN|]. apply Forall_forall. intros p Hpin. apply (Hall p Hpin).
      + cbn [store_all fold_left]. change (fold_left _ ps ?a) with (store_all D (i_class i) ps a).
        rewrite store_all_keeps; [exact HsN|]. intros p Hpin. apply (Hall p Hpin).
    - rewrite Forall_forall in *. intros k Hkin. apply IH; [exact Hkin| |apply Hkids, Hkin].
      intros y Hy. apply Hsub. cbn [it_ids]. right. apply in_flat_map. exists k. split; assumption.
  Qed.

  Lemma channel_view its stF evs revs :
    Forall (it_forall (node_dec_ok e dbeh D)) its ->
    evs = WStart (B "roblox") [(B "version", B "4")] :: (flat_map it_wev its ++ serialize_shared_strings stF) ++ [WEnd] ->
    channel evs = Ok revs ->
    revs = RStartDoc :: RStart (B "roblox") [(B "version", B "4")] :: flat_map it_rev its ++ dict_rev (es_shared stF) ++ [REnd (B "roblox"); REndDoc].
  Proof.
    intros Hok -> H. unfold channel in H.
    destruct (forallb wevent_legal _); [|discriminate].
    assert (Hc : chan0 (flat_map it_wev its ++ serialize_shared_strings stF) (flat_map it_rev its ++ dict_rev (es_shared stF))).
    { apply chan0_app; [|apply chan_dict]. apply chan0_flat_map. eapply Forall_impl; [|exact Hok].
      intros it Hit. apply chan0_elems. eapply chan_item; exact Hit. }
    pose proof (chan_elems_wrap_a (B "roblox") [(B "version", B "4")] _ _ Hc [] t0 [] [] eq_refl) as Hg.
    rewrite app_nil_r in Hg. rewrite Hg in H. cbn [rbind flush tbuf t0 app] in H. inversion H.
    rewrite app_nil_r. rewrite <- !app_assoc. reflexivity.
  Qed.

  Lemma dict_is_bytes stF : hash_bytes e -> st_ok e stF -> dict_bytes (es_shared stF).
  Proof.
    intros Hb (_ & _ & Hh). apply Forall_forall. intros [h c] Hhc. cbn [snd]. eapply Hb. apply Hh. exact Hhc.
  Qed.

  Lemma decode_view its (dict : list (bytes * bytes)) :
    Forall (it_forall (node_dec_ok e dbeh D)) its -> dict_bytes dict ->
    let F := flattens its 0 1 in
    xml_decode e dbeh (RStartDoc :: RStart (B "roblox") [(B "version", B "4")] :: flat_map it_rev its ++ dict_rev dict ++ [REnd (B "roblox"); REndDoc])
    = Ok (apply_shared_rewrites (bupd_all (List.map dkey dict) []) (flat_map (srw_of D) F)
            (apply_ref_rewrites (bupd_all (List.map ref_of F) []) (flat_map (rw_of D) F) (List.map (dnode_of D) F))).
  Proof.
    intros Hok Hb F. unfold xml_decode, xml_decode_with, deserialize_root_with.
    unfold xbind at 1. cbn [x_next]. unfold xbind at 1. rewrite x_expect_start_hit.
    replace (attr_last (B "version") [(B "version", B "4")] None) with (Some (B "4")) by reflexivity.
    replace (bytes_eqb (B "4") (B "4")) with true by reflexivity.
    set (fuel := S (length _)).
    assert (Hfuel : (length its + 2 <= fuel)%nat).
    { unfold fuel. cbn [length]. rewrite app_length.
      assert (length its <= length (flat_map it_rev its))%nat.
      { apply flat_map_length_ge. intros it _. destruct (it_rev_head it) as (tl & ->). discriminate. }
      lia. }
    rewrite (root_items e dbeh D); [|exact Hok|constructor|lia].
    rewrite root_tail; [|exact Hb|lia].
    cbn [ds0 ds_next]. fold F. unfold with_shared, dst_after. cbn [ds_nodes ds_next ds_refs ds_rewrites ds_shared ds_srewrites app].
    unfold ds0. cbn [ds_nodes ds_refs ds_rewrites ds_shared ds_srewrites app]. reflexivity.
  Qed.
End Whole.

(* ================================================================= (11) the decoded DOM, related to the source DOM *)
Lemma in_bfind {V} k v (l : list (bytes * V)) : NoDup (List.map fst l) -> In (k, v) l -> bfind k l = Some v.
Proof.
  induction l as [|[k0 v0] l IH]; intros Hnd Hin; [contradiction|]. cbn [List.map fst] in Hnd. inversion Hnd as [|? ? Hn Hd]; subst.
  cbn [bfind]. destruct Hin as [E|Hin].
  - inversion E; subst. rewrite bytes_eqb_refl. reflexivity.
  - replace (bytes_eqb k k0) with false; [now apply IH|]. symmetry. apply beqb_false_iff. intro E. subst k0. apply Hn. eapply keys_in; exact Hin.
Qed.
Lemma bfind_some_in {V} k v (l : list (bytes * V)) : bfind k l = Some v -> In (k, v) l.
Proof.
  induction l as [|[k0 v0] l IH]; cbn [bfind]; [discriminate|]. destruct (bytes_eqb k k0) eqn:E.
  - apply beqb_true_iff in E. subst. intro H. inversion H. now left.
  - intro H. right. now apply IH.
Qed.
Lemma bfind_perm_nodup {V} k (l l' : list (bytes * V)) : Permutation l l' -> NoDup (List.map fst l) -> bfind k l = bfind k l'.
Proof.
  intros Hp Hnd. assert (Hnd' : NoDup (List.map fst l')) by (eapply Permutation_NoDup; [apply Permutation_map; exact Hp|exact Hnd]).
  destruct (bfind k l) as [v|] eqn:E.
  - symmetry. apply in_bfind; [exact Hnd'|]. eapply Permutation_in; [exact Hp|]. now apply bfind_some_in.
  - destruct (bfind k l') as [v'|] eqn:E'; [|reflexivity]. apply bfind_some_in in E'.
    apply (Permutation_in _ (Permutation_sym Hp)) in E'. rewrite (in_bfind _ _ _ Hnd E') in E. discriminate.
Qed.

Lemma NoDup_map_In_inj {A C} (f : A -> C) l a b : NoDup (List.map f l) -> In a l -> In b l -> f a = f b -> a = b.
Proof.
  induction l as [|x l IH]; intros Hnd Ha Hb E; [contradiction|]. cbn [List.map] in Hnd. inversion Hnd as [|? ? Hn Hd]; subst.
  destruct Ha as [->|Ha], Hb as [->|Hb]; [reflexivity| | |now apply IH].
  - exfalso. apply Hn. rewrite E. now apply in_map.
  - exfalso. apply Hn. rewrite <- E. now apply in_map.
Qed.
Lemma NoDup_map_transfer {A C D} (f : A -> C) (g : A -> D) l :
  NoDup (List.map f l) -> (forall a b, In a l -> In b l -> g a = g b -> f a = f b) -> NoDup (List.map g l).
Proof.
  induction l as [|x l IH]; intros Hnd Hinj; [constructor|]. cbn [List.map] in *. inversion Hnd as [|? ? Hn Hd]; subst.
  constructor; [|apply IH; [exact Hd|intros a b Ha Hb; apply Hinj; now right]].
  intro Hin. apply in_map_iff in Hin. destruct Hin as (y & Hy & Hyl). apply Hn.
  rewrite (Hinj x y (or_introl eq_refl) (or_intror Hyl) (eq_sym Hy)). now apply in_map.
Qed.
Lemma Forall2_map_same {A C D} (R : C -> D -> Prop) (f : A -> C) (g : A -> D) l :
  Forall (fun a => R (f a) (g a)) l -> Forall2 R (List.map f l) (List.map g l).
Proof. induction 1; cbn [List.map]; constructor; assumption. Qed.

(* the label a written instance gets: its position (from 1) in the document order; 0 for an instance that is not written *)
Fixpoint lab_from (L : N) (W : list N) (r : N) : N :=
  match W with [] => 0 | x :: W' => if x =? r then L else lab_from (L + 1) W' r end.
Definition label (W : list N) (r : N) : N := lab_from 1 W r.

Lemma lab_from_notin W r : forall L, ~ In r W -> lab_from L W r = 0.
Proof.
  induction W as [|x W IH]; intros L Hn; [reflexivity|]. cbn [lab_from]. cbn [In] in Hn.
  destruct (N.eqb_spec x r); [tauto|]. apply IH. tauto.
Qed.
Lemma lab_from_flat F : forall L, List.map fn_label F = nseq L (length F) -> NoDup (List.map fn_id F) ->
  forall fn, In fn F -> lab_from L (List.map fn_id F) (fn_id fn) = fn_label fn.
Proof.
  induction F as [|f0 F IH]; intros L Hl Hnd fn Hin; [contradiction|].
  cbn [List.map length nseq] in *. inversion Hl as [[E1 E2]]. inversion Hnd as [|? ? Hn Hd]; subst. cbn [lab_from].
  destruct Hin as [->|Hin]; [rewrite N.eqb_refl; reflexivity|].
  destruct (N.eqb_spec (fn_id f0) (fn_id fn)) as [E|_].
  - exfalso. apply Hn. rewrite E. now apply in_map.
  - apply IH; [exact E2|exact Hd|exact Hin].
Qed.

(* what is known of one item of the flattened tree *)
Definition node_ok (e : xenv) (beh : ebehavior) (d : cdom) (m : list (N * N)) (dict : list (bytes * bytes)) (fn : fnode) : Prop :=
  exists i, find_inst d (fn_id fn) = Some i /\ fn_class fn = i_class i /\ fn_name fn = i_name i /\
            planned e beh i = Ok (List.map p_pair (fn_props fn)) /\ lookup (fn_id fn) m = Some (fn_x fn) /\
            Forall (p_ok e m dict) (fn_props fn).

(* where an item hangs: under the given parent if it is one of the given roots, else under an item of the list of which the
   source DOM says it is a child *)
Definition parent_ok (d : cdom) (rts : list N) (P0 : N) (F : list fnode) (fn : fnode) : Prop :=
  (In (fn_id fn) rts /\ fn_parent fn = P0) \/
  (exists fnp, In fnp F /\ fn_parent fn = fn_label fnp /\ In (fn_id fn) (children_of d (fn_id fnp))).
Lemma parent_ok_mono d rts rts' P0 F F' fn : incl rts rts' -> incl F F' -> parent_ok d rts P0 F fn -> parent_ok d rts' P0 F' fn.
Proof.
  intros H1 H2 [[Ha Hb]|(fnp & Ha & Hb)]; [left; split; [apply H1, Ha|exact Hb]|right; exists fnp; split; [apply H2, Ha|exact Hb]].
Qed.

Section Flat.
  Variables (e : xenv) (beh : ebehavior) (d : cdom) (m : list (N * N)) (dict : list (bytes * bytes)).

  Lemma flatten_nodes : forall it, item_ok e beh d m dict it -> forall P L,
    Forall (node_ok e beh d m dict) (flatten it P L) /\ forall fn, In fn (flatten it P L) -> parent_ok d [it_id it] P (flatten it P L) fn.
  Proof.
    induction it as [id x c nm ps ks IH] using witem_ind'. intros Hok P L. apply item_ok_item in Hok.
    destruct Hok as ((i & Hf & -> & -> & Hps) & Hx & Hpok & Hkids & Hall). rewrite flatten_item.
    assert (Hk : forall P' L', Forall (node_ok e beh d m dict) (flattens ks P' L') /\
                   forall fn, In fn (flattens ks P' L') -> parent_ok d (List.map it_id ks) P' (flattens ks P' L') fn).
    { clear Hkids. induction IH as [|k r Hkk _ IHr]; intros P' L'; [split; [constructor|intros fn []]|].
      inversion Hall as [|? ? Hok1 Hok2]; subst. cbn [flattens List.map].
      destruct (Hkk Hok1 P' L') as [A1 A2]. destruct (IHr Hok2 P' (L' + N.of_nat (size k))) as [B1 B2].
      split; [apply Forall_app; split; assumption|]. intros fn Hfn. apply in_app_or in Hfn. destruct Hfn as [Hfn|Hfn].
      - eapply parent_ok_mono; [| |apply A2, Hfn]; [intros y [<-|[]]; now left|intros y Hy; apply in_or_app; now left].
      - eapply parent_ok_mono; [| |apply B2, Hfn]; [intros y Hy; now right|intros y Hy; apply in_or_app; now right]. }
    destruct (Hk L (L + 1)) as [K1 K2]. split.
    - constructor; [|exact K1]. exists i. cbn [fn_id fn_class fn_name fn_props fn_x]. repeat split; assumption.
    - intros fn [<-|Hfn]; [left; split; [now left|reflexivity]|]. right.
      destruct (K2 fn Hfn) as [[Ha Hb]|(fnp & Ha & Hb)].
      + eexists. split; [now left|]. cbn [fn_label fn_id]. split; [exact Hb|]. rewrite <- Hkids. exact Ha.
      + exists fnp. split; [now right|exact Hb].
  Qed.

  Lemma flattens_nodes ks : Forall (item_ok e beh d m dict) ks -> forall P L,
    Forall (node_ok e beh d m dict) (flattens ks P L) /\
    (forall fn, In fn (flattens ks P L) -> parent_ok d (List.map it_id ks) P (flattens ks P L) fn) /\
    (forall id, In id (List.map it_id ks) -> exists fn, In fn (flattens ks P L) /\ fn_id fn = id /\ fn_parent fn = P).
  Proof.
    induction 1 as [|k r Hk _ IHr]; intros P L; [split; [constructor|split; [intros fn []|intros id []]]|].
    cbn [flattens List.map]. destruct (flatten_nodes k Hk P L) as [A1 A2]. destruct (IHr P (L + N.of_nat (size k))) as (B1 & B2 & B3).
    split; [apply Forall_app; split; assumption|]. split.
    - intros fn Hfn. apply in_app_or in Hfn. destruct Hfn as [Hfn|Hfn].
      + eapply parent_ok_mono; [| |apply A2, Hfn]; [intros y [<-|[]]; now left|intros y Hy; apply in_or_app; now left].
      + eapply parent_ok_mono; [| |apply B2, Hfn]; [intros y Hy; now right|intros y Hy; apply in_or_app; now right].
    - intros id [<-|Hid].
      + destruct k as [id x c nm ps ks]. rewrite flatten_item. eexists. split; [apply in_or_app; left; now left|]. split; reflexivity.
      + destruct (B3 id Hid) as (fn & Hfn & E1 & E2). exists fn. split; [apply in_or_app; now right|]. split; assumption.
  Qed.
End Flat.

(* ---- the relation between the source DOM and the decoded DOM *)
(* a value and what it comes back as: a Ref to a written instance as the Ref to its label, any other Ref (the null Ref, a
   Ref to an instance that is not written) as the null Ref ([label] is 0 there); a SharedString as itself; any other value
   as the per-value law says *)
Definition vback (e : xenv) (W : list N) (v v' : value) : Prop :=
  match v with
  | VRef r => v' = VRef (label W r)
  | VSharedString c => v' = VSharedString c
  | _ => (exists tag evs, write_xml (xe_o e) v = Some (tag, Ok evs)) /\ vlaw (xe_o e) v v'
  end.
(* the decoded property table: no key twice; the same keys; related values *)
Definition props_back (e : xenv) (W : list N) (ps ps' : list (bytes * value)) : Prop :=
  NoDup (List.map fst ps') /\
  forall k, match bfind k ps, bfind k ps' with
            | Some v, Some v' => vback e W v v'
            | None, None => True
            | _, _ => False
            end.
(* the decoded instance of the written instance [id]: labelled by its position in the document order, hanging under the
   label of its parent (under the fresh root, 0, if it is one of the chosen roots), same class, same name *)
Definition forest_back (d : cdom) (roots W : list N) (id : N) (i' : inst) : Prop :=
  exists i, find_inst d id = Some i /\ i_ref i' = label W id /\
            i_parent i' = (if existsb (N.eqb id) roots then 0 else label W (i_parent i)) /\
            i_class i' = i_class i /\ i_name i' = i_name i.
Definition inst_back (e : xenv) (d : cdom) (roots W : list N) (id : N) (i' : inst) : Prop :=
  exists i, find_inst d id = Some i /\ i_ref i' = label W id /\
            i_parent i' = (if existsb (N.eqb id) roots then 0 else label W (i_parent i)) /\
            i_class i' = i_class i /\ i_name i' = i_name i /\ props_back e W (i_props i) (i_props i').
(* one decoded instance per written instance, in document order, labelled 1, 2, 3, ... *)
Definition same_forest (e : xenv) (d : cdom) (roots : list N) (d' : cdom) : Prop :=
  let W := written d roots in
  Forall2 (inst_back e d roots W) W d' /\ List.map i_ref d' = nseq 1 (length W).

Lemma find_inst_nodup d j : NoDup (List.map i_ref d) -> In j d -> find_inst d (i_ref j) = Some j.
Proof.
  induction d as [|x d IH]; intros Hnd Hin; [contradiction|]. cbn [List.map] in Hnd. inversion Hnd as [|? ? Hn Hd]; subst.
  cbn [find_inst]. destruct Hin as [->|Hin]; [rewrite N.eqb_refl; reflexivity|].
  destruct (N.eqb_spec (i_ref x) (i_ref j)) as [E|_]; [|now apply IH]. exfalso. apply Hn. rewrite E. now apply in_map.
Qed.

(* ---- the forest: whatever the reader does with the properties *)
Section Back0.
  Variables (e : xenv) (beh : ebehavior) (d : cdom) (roots : list N) (m : list (N * N)) (dict : list (bytes * bytes)) (F : list fnode).
  Let W := written d roots.
  Hypothesis Hin : input_ok0 d roots.
  Hypothesis HF_nodes : Forall (node_ok e beh d m dict) F.
  Hypothesis HF_par : forall fn, In fn F -> parent_ok d roots 0 F fn.
  Hypothesis HF_heads : forall id, In id roots -> exists fn, In fn F /\ fn_id fn = id /\ fn_parent fn = 0.
  Hypothesis HF_ids : List.map fn_id F = W.
  Hypothesis HF_labels : List.map fn_label F = nseq 1 (length F).

  Lemma W_nodup : NoDup (List.map fn_id F).
  Proof. rewrite HF_ids. apply Hin. Qed.

  Lemma label_fn fn : In fn F -> label W (fn_id fn) = fn_label fn.
  Proof. intro H. unfold label. rewrite <- HF_ids. apply lab_from_flat; [exact HF_labels|apply W_nodup|exact H]. Qed.

  Theorem node_forest fn i' : In fn F ->
    i_ref i' = fn_label fn -> i_parent i' = fn_parent fn -> i_class i' = fn_class fn -> i_name i' = fn_name fn ->
    forest_back d roots W (fn_id fn) i'.
  Proof.
    intros Hfn E1 E2 E3 E4. pose proof HF_nodes as Hall. rewrite Forall_forall in Hall.
    destruct (Hall fn Hfn) as (i & Hf & Hc & Hn & _).
    destruct Hin as (Hndd & HndW & H0).
    exists i. split; [exact Hf|]. rewrite E1, E2, E3, E4.
    split; [symmetry; now apply label_fn|]. split; [|split; [exact Hc|exact Hn]].
    destruct (HF_par fn Hfn) as [[Ha Hb]|(fnp & Ha & Hb & Hch)].
    + replace (existsb (N.eqb (fn_id fn)) roots) with true; [exact Hb|]. symmetry. apply existsb_exists.
      exists (fn_id fn). split; [exact Ha|apply N.eqb_refl].
    + destruct (existsb (N.eqb (fn_id fn)) roots) eqn:Ex.
      * exfalso. apply existsb_exists in Ex. destruct Ex as (x & Hxr & Ex). apply N.eqb_eq in Ex. subst x.
        destruct (HF_heads _ Hxr) as (fnr & Hfnr & Er1 & Er2).
        assert (fn = fnr) by (apply (NoDup_map_In_inj fn_id F); [apply W_nodup|exact Hfn|exact Hfnr|now rewrite Er1]). subst fnr.
        assert (Hl : In (fn_label fnp) (nseq 1 (length F))) by (rewrite <- HF_labels; now apply in_map).
        apply in_nseq in Hl. lia.
      * unfold children_of in Hch. apply in_map_iff in Hch. destruct Hch as (j & Ej & Hj). apply filter_In in Hj.
        destruct Hj as [Hjd Hjp]. apply N.eqb_eq in Hjp.
        pose proof (find_inst_nodup d j Hndd Hjd) as Hfj. rewrite Ej, Hf in Hfj. inversion Hfj; subst j.
        rewrite Hb, Hjp. symmetry. now apply label_fn.
  Qed.
End Back0.

(* ---- the properties, for the plain reader *)
Section Back.
  Variables (e : xenv) (beh : ebehavior) (d : cdom) (roots : list N) (m : list (N * N)) (dict : list (bytes * bytes)) (F : list fnode).
  Let W := written d roots.
  Hypothesis Hin : input_ok d roots.
  Hypothesis Hplanned : forall id i, In id W -> find_inst d id = Some i -> planned e beh i = Ok (bsort (i_props i)).
  Hypothesis Hhash : hash_ok e.
  Hypothesis Hinj : map_injective m.
  Hypothesis Hsorted : StronglySorted klt dict.
  Hypothesis Hdh : forall h c, In (h, c) dict -> xe_hash e c = Some h.
  Hypothesis HF_nodes : Forall (node_ok e beh d m dict) F.
  Hypothesis HF_par : forall fn, In fn F -> parent_ok d roots 0 F fn.
  Hypothesis HF_heads : forall id, In id roots -> exists fn, In fn F /\ fn_id fn = id /\ fn_parent fn = 0.
  Hypothesis HF_ids : List.map fn_id F = W.
  Hypothesis HF_labels : List.map fn_label F = nseq 1 (length F).
  Let refs := bupd_all (List.map ref_of F) [].
  Let known := bupd_all (List.map dkey dict) [].

  Lemma node_x fn : In fn F -> lookup (fn_id fn) m = Some (fn_x fn).
  Proof. intro H. rewrite Forall_forall in HF_nodes. destruct (HF_nodes fn H) as (i & _ & _ & _ & _ & Hx & _). exact Hx. Qed.

  Lemma refs_keys_nodup : NoDup (List.map fst (List.map ref_of F)).
  Proof.
    rewrite map_map. cbn [ref_of fst]. apply (NoDup_map_transfer fn_id); [apply (W_nodup d roots F (input_ok_0 d roots Hin) HF_ids)|].
    intros a b Ha Hb E. apply dec_of_N_inj in E. apply (Hinj _ _ (fn_x a)); [now apply node_x|]. rewrite E. now apply node_x.
  Qed.

  Lemma refs_in r y : lookup r m = Some y -> In r W -> bfind (dec_of_N y) refs = Some (label W r).
  Proof.
    intros Hl Hr. rewrite <- HF_ids in Hr. apply in_map_iff in Hr. destruct Hr as (fn & <- & Hfn).
    pose proof (node_x fn Hfn) as Hx. rewrite Hl in Hx. inversion Hx; subst y.
    unfold refs. rewrite bfind_bupd_all by apply refs_keys_nodup.
    rewrite (in_bfind (dec_of_N (fn_x fn)) (fn_label fn)); [now rewrite (label_fn d roots F (input_ok_0 d roots Hin) HF_ids HF_labels)|apply refs_keys_nodup|].
    apply in_map_iff. exists fn. split; [reflexivity|exact Hfn].
  Qed.

  Lemma refs_notin r y : lookup r m = Some y -> ~ In r W -> bfind (dec_of_N y) refs = None.
  Proof.
    intros Hl Hr. unfold refs. rewrite bfind_bupd_all by apply refs_keys_nodup.
    replace (bfind (dec_of_N y) (List.map ref_of F)) with (@None N); [reflexivity|]. symmetry. apply bfind_none_keys.
    rewrite map_map. cbn [ref_of fst]. intro Hc. apply in_map_iff in Hc. destruct Hc as (fn & E & Hfn).
    apply dec_of_N_inj in E. apply Hr. rewrite <- HF_ids. apply in_map_iff. exists fn. split; [|exact Hfn].
    apply (Hinj _ _ y); [|exact Hl]. rewrite <- E. now apply node_x.
  Qed.

  Lemma known_resolve c h : xe_hash e c = Some h -> In h (List.map fst dict) -> bfind (md5_key h) known = Some c.
  Proof.
    intros Hh Hk. destruct (in_dict_keys _ _ Hk) as (c' & Hc').
    assert (c' = c) by (destruct Hhash as (_ & _ & Hi); apply (Hi c' c h h (Hdh _ _ Hc') Hh eq_refl)). subst c'.
    assert (Hnd : NoDup (List.map fst (List.map dkey dict))).
    { rewrite map_map. cbn [dkey fst]. apply (dictionary_keys_unique e dict (hash_ok_prefix e Hhash) (proj1 Hhash) Hsorted Hdh). }
    unfold known. rewrite bfind_bupd_all by exact Hnd. rewrite (in_bfind (md5_key h) c); [reflexivity|exact Hnd|].
    apply in_map_iff. exists (h, c). split; [reflexivity|exact Hc'].
  Qed.

  Lemma p_back p : p_ok e m dict p -> vback e W (p_src p) (p_final refs known p).
  Proof.
    destruct p as [pn r txt|pn c h|pn w revs v' tag inner]; cbn [p_ok p_src p_final vback]; fold refs; fold known.
    - intros [Ht Hx]. destruct (N.eqb_spec r 0) as [->|Hne].
      + unfold label. rewrite lab_from_notin; [reflexivity|apply Hin].
      + destruct (Hx Hne) as (y & Hy). assert (Et : txt = dec_of_N y).
        { subst txt. unfold ref_text. apply N.eqb_neq in Hne. rewrite Hne, Hy. reflexivity. }
        rewrite Et. destruct (in_dec N.eq_dec r W) as [Hr|Hr].
        * rewrite (refs_in _ _ Hy Hr). reflexivity.
        * rewrite (refs_notin _ _ Hy Hr). unfold label. rewrite lab_from_notin by exact Hr. reflexivity.
    - intros [Hh Hk]. rewrite (known_resolve _ _ Hh Hk). reflexivity.
    - intros (Hns & Hw & _ & _ & _ & Hv). destruct w; try contradiction Hns; (split; [eexists _, _; exact Hw|exact Hv]).
  Qed.

  Theorem node_back fn : In fn F -> inst_back e d roots W (fn_id fn) (fin_node refs known F fn).
  Proof.
    intro Hfn. pose proof HF_nodes as Hall. rewrite Forall_forall in Hall.
    destruct (Hall fn Hfn) as (i & Hf & Hc & Hn & Hps & Hx & Hpok).
    assert (HidW : In (fn_id fn) W) by (rewrite <- HF_ids; now apply in_map).
    rewrite (Hplanned _ _ HidW Hf) in Hps. inversion Hps as [Hps']. clear Hps. rename Hps' into Hps. symmetry in Hps.
    destruct Hin as (Hndd & HndW & H0 & Hprops). destruct (Hprops _ _ HidW Hf) as [Hndk _].
    assert (Hnames : List.map p_name (fn_props fn) = List.map fst (bsort (i_props i))).
    { rewrite <- Hps, map_map. reflexivity. }
    assert (Hndp : NoDup (List.map p_name (fn_props fn))).
    { rewrite Hnames. eapply Permutation_NoDup; [apply Permutation_sym, bsort_keys_perm|exact Hndk]. }
    assert (Hlab : NoDup (List.map fn_label F)) by (rewrite HF_labels; apply nodup_nseq).
    destruct (node_forest e beh d roots m dict F (input_ok_0 d roots Hin) HF_nodes HF_par HF_heads HF_ids HF_labels fn (fin_node refs known F fn) Hfn
                eq_refl eq_refl eq_refl eq_refl) as (i0 & Hf0 & S1 & S2 & S3 & S4).
    rewrite Hf in Hf0. inversion Hf0; subst i0.
    exists i. split; [exact Hf|]. split; [exact S1|]. split; [exact S2|]. split; [exact S3|]. split; [exact S4|].
    cbn [fin_node i_props].
    split; [apply fin_nodup|]. intro k.
    rewrite (bfind_perm_nodup k (i_props i) (bsort (i_props i)) (Permutation_sym (bsort_permutation _)) Hndk), <- Hps.
    destruct (bfind k (List.map p_pair (fn_props fn))) as [v|] eqn:E.
    + apply bfind_some_in in E. apply in_map_iff in E. destruct E as (p & Ep & Hp). unfold p_pair in Ep. inversion Ep; subst k v.
      rewrite (fin_lookup refs known F Hlab fn p Hfn Hndp Hp). apply p_back. rewrite Forall_forall in Hpok. now apply Hpok.
    + apply bfind_none_keys in E. rewrite map_map in E. cbn [p_pair fst] in E.
      rewrite (fin_absent refs known F Hlab fn k Hfn E). exact I.
  Qed.
End Back.

(* ================================================================= (11b) root order and child order *)
(* the items hanging under the label [X], in document order *)
Definition par_is (X : N) (fn : fnode) : bool := fn_parent fn =? X.
Definition fhead (it : witem) (P L : N) : fnode := match it with WItem id x c nm ps ks => mkFN L P id x c nm ps end.
Fixpoint heads (ks : list witem) (P L : N) : list fnode :=
  match ks with [] => [] | k :: r => fhead k P L :: heads r P (L + N.of_nat (size k)) end.
Lemma heads_ids ks P L : List.map fn_id (heads ks P L) = List.map it_id ks.
Proof. revert L. induction ks as [|[id x c nm ps kk] r IH]; intro L; [reflexivity|]. cbn [heads List.map fhead fn_id it_id]. now rewrite IH. Qed.
Lemma heads_in ks P L fn : In fn (heads ks P L) -> In fn (flattens ks P L).
Proof.
  revert L. induction ks as [|[id x c nm ps kk] r IH]; intro L; [intros []|]. cbn [heads flattens]. intros [<-|H].
  - apply in_or_app. left. rewrite flatten_item. now left.
  - apply in_or_app. right. now apply IH.
Qed.

(* no item of a subtree hangs under a label outside the subtree (other than under the subtree's own parent) *)
Lemma filter_outside : forall it P L X, P <> X -> (X < L \/ L + N.of_nat (size it) <= X) -> filter (par_is X) (flatten it P L) = [].
Proof.
  induction it as [id x c nm ps ks IH] using witem_ind'. intros P L X HP HX. rewrite flatten_item, size_item in *.
  cbn [filter]. unfold par_is at 1. cbn [fn_parent]. replace (P =? X) with false by (symmetry; now apply N.eqb_neq).
  assert (H : forall L', L < L' -> (X < L' \/ L' + N.of_nat (sizes ks) <= X) -> X <> L -> filter (par_is X) (flattens ks L L') = []).
  { clear HX. induction IH as [|k r Hk _ IHr]; intros L' HL HX' HXL; [reflexivity|]. cbn [flattens]. rewrite filter_app.
    rewrite sizes_cons in HX'. rewrite Hk; [|congruence|lia]. rewrite IHr; [reflexivity|lia|lia|exact HXL]. }
  apply H; lia.
Qed.
Lemma filter_outside_list ks : forall P L X, P <> X -> (X < L \/ L + N.of_nat (sizes ks) <= X) -> filter (par_is X) (flattens ks P L) = [].
Proof.
  induction ks as [|k r IH]; intros P L X HP HX; [reflexivity|]. cbn [flattens]. rewrite filter_app. rewrite sizes_cons in HX.
  rewrite filter_outside by (try assumption; lia). rewrite IH by (try assumption; lia). reflexivity.
Qed.

(* under the parent of a run of sibling subtrees hang exactly their heads, in order *)
Lemma filter_heads ks : forall P L, P < L -> filter (par_is P) (flattens ks P L) = heads ks P L.
Proof.
  induction ks as [|[id x c nm ps kk] r IH]; intros P L HL; [reflexivity|]. cbn [flattens heads fhead]. rewrite filter_app, flatten_item.
  cbn [filter]. unfold par_is at 1. cbn [fn_parent]. rewrite N.eqb_refl. rewrite filter_outside_list by lia. cbn [app]. f_equal. apply IH. lia.
Qed.

(* the sub-items of a tree with their labels, in document order *)
Fixpoint subitems (it : witem) (L : N) : list (witem * N) :=
  match it with
  | WItem id x c nm ps ks =>
      (it, L) :: (fix go (l : list witem) (L' : N) : list (witem * N) :=
                    match l with [] => [] | k :: r => subitems k L' ++ go r (L' + N.of_nat (size k)) end) ks (L + 1)
  end.
Fixpoint subitems_list (l : list witem) (L : N) : list (witem * N) :=
  match l with [] => [] | k :: r => subitems k L ++ subitems_list r (L + N.of_nat (size k)) end.
Lemma subitems_item id x c nm ps ks L :
  subitems (WItem id x c nm ps ks) L = (WItem id x c nm ps ks, L) :: subitems_list ks (L + 1).
Proof.
  cbn [subitems]. f_equal.
  all: generalize (L + 1) as L'; induction ks as [|k r IH]; intro L'; [reflexivity|]; cbn [subitems_list]; rewrite <- IH; reflexivity.
Qed.

Lemma subitems_range : forall it L it' l, In (it', l) (subitems it L) -> L <= l < L + N.of_nat (size it).
Proof.
  induction it as [id x c nm ps ks IH] using witem_ind'. intros L it' l. rewrite subitems_item, size_item. intros [E|H]; [inversion E; lia|].
  assert (Hl : forall L', In (it', l) (subitems_list ks L') -> L' <= l < L' + N.of_nat (sizes ks)).
  { clear H. induction IH as [|k r Hk _ IHr]; intros L' H; [destruct H|]. cbn [subitems_list] in H. rewrite sizes_cons.
    apply in_app_or in H. destruct H as [H|H]; [apply Hk in H; lia|apply IHr in H; lia]. }
  apply Hl in H. lia.
Qed.
Lemma subitems_list_range ks : forall L it' l, In (it', l) (subitems_list ks L) -> L <= l < L + N.of_nat (sizes ks).
Proof.
  induction ks as [|k r IH]; intros L it' l H; [destruct H|]. cbn [subitems_list] in H. rewrite sizes_cons.
  apply in_app_or in H. destruct H as [H|H]; [apply subitems_range in H; lia|apply IH in H; lia].
Qed.

(* under the label of a sub-item hang exactly the heads of its kids, in order *)
Lemma filter_kids : forall it P L it' l, P < L -> In (it', l) (subitems it L) ->
  filter (par_is l) (flatten it P L) = heads (it_kids it') l (l + 1).
Proof.
  induction it as [id x c nm ps ks IH] using witem_ind'. intros P L it' l HP. rewrite subitems_item, flatten_item. intros [E|H].
  - inversion E; subst it' l. cbn [filter it_kids]. unfold par_is at 1. cbn [fn_parent]. replace (P =? L) with false by (symmetry; apply N.eqb_neq; lia).
    apply filter_heads. lia.
  - pose proof (subitems_list_range _ _ _ _ H) as Hr. cbn [filter]. unfold par_is at 1. cbn [fn_parent].
    replace (P =? l) with false by (symmetry; apply N.eqb_neq; lia).
    assert (Hl : forall L', L < L' -> In (it', l) (subitems_list ks L') -> filter (par_is l) (flattens ks L L') = heads (it_kids it') l (l + 1)).
    { clear H Hr. induction IH as [|k r Hk _ IHr]; intros L' HL H; [destruct H|]. cbn [subitems_list] in H. cbn [flattens]. rewrite filter_app.
      apply in_app_or in H. destruct H as [H|H].
      - pose proof (subitems_range _ _ _ _ H) as Hr. rewrite (Hk L L' it' l HL H). rewrite filter_outside_list by lia. apply app_nil_r.
      - pose proof (subitems_list_range _ _ _ _ H) as Hr. rewrite filter_outside by lia. cbn [app]. apply IHr; [lia|exact H]. }
    apply Hl; [lia|exact H].
Qed.
Lemma filter_kids_list ks : forall P L it' l, P < L -> In (it', l) (subitems_list ks L) ->
  filter (par_is l) (flattens ks P L) = heads (it_kids it') l (l + 1).
Proof.
  induction ks as [|k r IH]; intros P L it' l HP H; [destruct H|]. cbn [subitems_list] in H. cbn [flattens]. rewrite filter_app.
  apply in_app_or in H. destruct H as [H|H].
  - pose proof (subitems_range _ _ _ _ H) as Hr. rewrite (filter_kids k P L it' l HP H). rewrite filter_outside_list by lia. apply app_nil_r.
  - pose proof (subitems_list_range _ _ _ _ H) as Hr. rewrite filter_outside by lia. cbn [app]. apply IH; [lia|exact H].
Qed.

(* sub-items and flattened nodes correspond *)
Lemma subitems_flatten : forall it P L,
  List.map (fun x => (it_id (fst x), snd x)) (subitems it L) = List.map (fun fn => (fn_id fn, fn_label fn)) (flatten it P L).
Proof.
  induction it as [id x c nm ps ks IH] using witem_ind'. intros P L. rewrite subitems_item, flatten_item. cbn [List.map fst snd it_id fn_id fn_label].
  f_equal. generalize (L + 1) as L'. induction IH as [|k r Hk _ IHr]; intro L'; [reflexivity|].
  cbn [subitems_list flattens]. rewrite !map_app, (Hk L L'), IHr. reflexivity.
Qed.
Lemma subitems_flattens ks : forall P L,
  List.map (fun x => (it_id (fst x), snd x)) (subitems_list ks L) = List.map (fun fn => (fn_id fn, fn_label fn)) (flattens ks P L).
Proof.
  induction ks as [|k r IH]; intros P L; [reflexivity|]. cbn [subitems_list flattens]. rewrite !map_app, (subitems_flatten k P L), (IH P). reflexivity.
Qed.

(* the kids of a sub-item of a tree the writer wrote are the children of its instance *)
Lemma subitems_kids e beh d m dict : forall it L it' l, item_ok e beh d m dict it -> In (it', l) (subitems it L) ->
  List.map it_id (it_kids it') = children_of d (it_id it').
Proof.
  induction it as [id x c nm ps ks IH] using witem_ind'. intros L it' l Hok. apply item_ok_item in Hok.
  destruct Hok as (_ & _ & _ & Hk & Hall). rewrite subitems_item. intros [E|H]; [inversion E; subst; exact Hk|].
  clear Hk. revert H. generalize (L + 1) as L'. induction IH as [|k r Hkk _ IHr]; intros L' H; [destruct H|].
  inversion Hall as [|? ? Hok1 Hok2]; subst. cbn [subitems_list] in H. apply in_app_or in H. destruct H as [H|H].
  - eapply Hkk; eassumption.
  - eapply IHr; [exact Hok2|exact H].
Qed.

Lemma subitems_kids_list e beh d m dict ks : Forall (item_ok e beh d m dict) ks -> forall L it' l, In (it', l) (subitems_list ks L) ->
  List.map it_id (it_kids it') = children_of d (it_id it').
Proof.
  induction 1 as [|k r Hk _ IH]; intros L it' l H; [destruct H|]. cbn [subitems_list] in H. apply in_app_or in H. destruct H as [H|H].
  - eapply subitems_kids; eassumption.
  - eapply IH; exact H.
Qed.

Lemma children_of_skel F X : forall d1, List.map skel d1 = List.map (fun fn => (fn_label fn, fn_parent fn, fn_class fn, fn_name fn)) F ->
  children_of d1 X = List.map fn_label (filter (par_is X) F).
Proof.
  induction F as [|fn F IH]; intros d1 Hs; destruct d1 as [|i1 d1]; try discriminate; [reflexivity|]. cbn [List.map] in Hs.
  assert (E1 : skel i1 = (fn_label fn, fn_parent fn, fn_class fn, fn_name fn)) by (pose proof (f_equal (@hd_error _) Hs) as E; cbn [hd_error] in E; congruence).
  assert (E2 : List.map skel d1 = List.map (fun fn => (fn_label fn, fn_parent fn, fn_class fn, fn_name fn)) F) by (exact (f_equal (@tl _) Hs)).
  unfold skel in E1. inversion E1 as [[R1 R2 R3 R4]]. unfold children_of in *. cbn [filter]. unfold par_is at 1. rewrite R2.
  destruct (fn_parent fn =? X); cbn [List.map]; rewrite ?R1, (IH d1 E2); reflexivity.
Qed.

(* the forest: one decoded instance per written instance in document order, labelled 1, 2, 3, ...; under the fresh root hang
   the chosen roots in their order; under the instance decoded for r hang the instances decoded for the children of r, in
   their order *)
Definition forest_rel (d : cdom) (roots : list N) (d' : cdom) : Prop :=
  let W := written d roots in
  Forall2 (forest_back d roots W) W d' /\ List.map i_ref d' = nseq 1 (length W) /\
  children_of d' 0 = List.map (label W) roots /\
  forall r, In r W -> children_of d' (label W r) = List.map (label W) (children_of d r).

(* ================================================================= (12) the whole-file theorems *)
Definition fskel (fn : fnode) : N * N * bytes * bytes := (fn_label fn, fn_parent fn, fn_class fn, fn_name fn).
Lemma Forall2_skel (R : N -> inst -> Prop) F : forall d1,
  List.map skel d1 = List.map fskel F ->
  (forall fn i', In fn F -> skel i' = fskel fn -> R (fn_id fn) i') ->
  Forall2 R (List.map fn_id F) d1.
Proof.
  induction F as [|fn F IH]; intros d1 Hs HR; destruct d1 as [|i1 d1]; try discriminate; [constructor|].
  cbn [List.map] in *.
  assert (E1 : skel i1 = fskel fn) by (pose proof (f_equal (@hd_error _) Hs) as E; cbn [hd_error] in E; congruence).
  assert (E2 : List.map skel d1 = List.map fskel F) by (pose proof (f_equal (@tl _) Hs) as E; exact E).
  constructor; [apply HR; [now left|exact E1]|].
  apply IH; [exact E2|]. intros fn0 i' Hin. apply HR. now right.
Qed.

(* ---- A1, generic: whatever the two behaviours and the database, if the reader takes every element the writer writes as
   some [D] says (leaving `Name` to the Name element), the decoded DOM is the same forest *)
Theorem xml_roundtrip_forest_generic e ebeh dbeh (D : dout) d roots evs revs :
  input_ok0 d roots -> hash_bytes e -> readable e ebeh d roots -> dec_law e ebeh dbeh D d roots ->
  xml_encode e ebeh d roots = Ok evs -> channel evs = Ok revs ->
  exists d', xml_decode e dbeh revs = Ok d' /\ forest_rel d roots d'.
Proof.
  intros Hin Hb Hrd Hdl He Hc.
  destruct (encode_view e ebeh d roots Hrd evs He) as (its & stF & Hm & Hids & Hok & Hst & Hsorted & Hevs).
  assert (Hdec : Forall (it_forall (node_dec_ok e dbeh D)) its).
  { rewrite Forall_forall in *. intros it Hit. eapply (item_dec_ok e ebeh dbeh D d roots Hdl); [|apply Hok, Hit].
    rewrite <- Hids. intros y Hy. apply in_flat_map. exists it. split; assumption. }
  pose proof (channel_view e dbeh D its stF evs revs Hdec Hevs Hc) as Hrevs.
  pose proof (decode_view e dbeh D its (es_shared stF) Hdec (dict_is_bytes e stF Hb Hst)) as Hd. cbv zeta in Hd.
  rewrite <- Hrevs in Hd. eexists. split; [exact Hd|].
  set (F := flattens its 0 1) in *.
  destruct (flattens_facts its 0 1) as (A1 & A2 & A3). fold F in A1, A2, A3.
  destruct (flattens_nodes e ebeh d (es_map stF) (es_shared stF) its Hok 0 1) as (B1 & B2 & B3). fold F in B1, B2, B3. rewrite Hm in B2, B3.
  assert (HidsF : List.map fn_id F = written d roots) by (rewrite A3; exact Hids).
  assert (HlabF : List.map fn_label F = nseq 1 (length F)) by (rewrite A2, A1; reflexivity).
  unfold forest_rel. cbv zeta.
  match goal with |- Forall2 _ _ ?X /\ _ => set (d' := X) end.
  assert (Hsk : List.map skel d' = List.map fskel F).
  { unfold d'. rewrite apply_shared_rewrites_eq, apply_ref_rewrites_eq, !apply_rw_skel, map_map. reflexivity. }
  assert (Hlab : forall hs, (forall fn, In fn hs -> In fn F) -> List.map fn_label hs = List.map (label (written d roots)) (List.map fn_id hs)).
  { intros hs Hhs. rewrite map_map. apply map_ext_in. intros fn Hfn. symmetry.
    apply (label_fn d roots F Hin HidsF HlabF fn (Hhs fn Hfn)). }
  split; [|split; [|split]].
  - rewrite <- HidsF at 2. apply (Forall2_skel _ F d' Hsk). intros fn i' Hfn Hs. unfold skel, fskel in Hs. inversion Hs.
    apply (node_forest e ebeh d roots (es_map stF) (es_shared stF) F Hin B1 B2 B3 HidsF HlabF fn i' Hfn); assumption.
  - assert (E : List.map i_ref d' = List.map fn_label F).
    { change (List.map i_ref d') with (List.map (fun i => fst (fst (fst (skel i)))) d'). rewrite <- (map_map skel (fun x => fst (fst (fst x)))).
      rewrite Hsk, map_map. reflexivity. }
    rewrite E, <- HidsF, map_length. exact HlabF.
  - rewrite (children_of_skel F 0 d' Hsk). unfold F. rewrite (filter_heads its 0 1) by lia.
    rewrite Hlab by (intros fn Hfn; apply heads_in, Hfn). rewrite heads_ids, Hm. reflexivity.
  - intros r Hr. rewrite <- HidsF in Hr. apply in_map_iff in Hr. destruct Hr as (fn & <- & Hfn).
    assert (Hsub : In (fn_id fn, fn_label fn) (List.map (fun x : witem * N => (it_id (fst x), snd x)) (subitems_list its 1))).
    { rewrite (subitems_flattens its 0 1). fold F. apply in_map_iff. exists fn. split; [reflexivity|exact Hfn]. }
    apply in_map_iff in Hsub. destruct Hsub as ([it' l] & E & Hsub). cbn [fst snd] in E.
    assert (E1 : it_id it' = fn_id fn) by congruence. assert (E2 : l = fn_label fn) by congruence. clear E.
    rewrite (label_fn d roots F Hin HidsF HlabF fn Hfn), <- E2.
    rewrite (children_of_skel F l d' Hsk). pose proof (filter_kids_list its 0 1 it' l ltac:(lia) Hsub) as Hfk. fold F in Hfk.
    rewrite Hlab by (intros fn0 Hfn0; apply filter_In in Hfn0; apply Hfn0).
    rewrite Hfk, heads_ids, (subitems_kids_list e ebeh d _ _ its Hok 1 it' l Hsub), E1. reflexivity.
Qed.
Print Assumptions xml_roundtrip_forest_generic.

(* the plain pairing: every value of the DOM (other than a Ref or a SharedString) is read back as something *)
Definition readable_dom (e : xenv) (d : cdom) (roots : list N) : Prop :=
  forall id i k v, In id (written d roots) -> find_inst d id = Some i -> In (k, v) (i_props i) -> nonspecial v ->
    exists v', vlaw (xe_o e) v v'.

(* ---- the master theorem for the plain pairing: forest, values, references, shared strings *)
Theorem xml_roundtrip e ebeh dbeh d roots evs revs :
  input_ok d roots -> plain_mode e ebeh dbeh d roots -> hash_ok e -> readable_dom e d roots ->
  xml_encode e ebeh d roots = Ok evs -> channel evs = Ok revs ->
  exists d', xml_decode e dbeh revs = Ok d' /\ same_forest e d roots d'.
Proof.
  intros Hin Hpm Hh Hrdd He Hc.
  pose proof (readable_plain e ebeh dbeh d roots Hpm Hrdd) as Hrd.
  pose proof (dec_law_plain e ebeh dbeh d roots Hin Hpm) as Hdl.
  destruct (encode_view e ebeh d roots Hrd evs He) as (its & stF & Hm & Hids & Hok & Hst & Hsorted & Hevs).
  assert (Hdec : Forall (it_forall (node_dec_ok e dbeh plainD)) its).
  { rewrite Forall_forall in *. intros it Hit. eapply (item_dec_ok e ebeh dbeh plainD d roots Hdl); [|apply Hok, Hit].
    rewrite <- Hids. intros y Hy. apply in_flat_map. exists it. split; assumption. }
  pose proof (channel_view e dbeh plainD its stF evs revs Hdec Hevs Hc) as Hrevs.
  pose proof (decode_view e dbeh plainD its (es_shared stF) Hdec (dict_is_bytes e stF (hash_ok_bytes e Hh) Hst)) as Hd. cbv zeta in Hd.
  rewrite <- Hrevs in Hd.
  set (F := flattens its 0 1) in *.
  destruct (flattens_facts its 0 1) as (A1 & A2 & A3). fold F in A1, A2, A3.
  destruct (flattens_nodes e ebeh d (es_map stF) (es_shared stF) its Hok 0 1) as (B1 & B2 & B3). fold F in B1, B2, B3. rewrite Hm in B2, B3.
  assert (HidsF : List.map fn_id F = written d roots) by (rewrite A3; exact Hids).
  assert (HlabF : List.map fn_label F = nseq 1 (length F)) by (rewrite A2, A1; reflexivity).
  assert (Hplanned : forall id i, In id (written d roots) -> find_inst d id = Some i -> planned e ebeh i = Ok (bsort (i_props i))).
  { intros id i Hid Hf. apply planned_plain. intros k Hk. apply (Hpm id i Hid Hf). exact Hk. }
  (* the plain reader's nodes are the nodes of the second-pass analysis *)
  assert (Hnodes : List.map (dnode_of plainD) F = List.map dnode_of0 F).
  { apply map_ext_in. intros fn Hfn. apply dnode_plain. rewrite Forall_forall in B1.
    destruct (B1 fn Hfn) as (i & Hf & _ & _ & Hps & _).
    assert (HidW : In (fn_id fn) (written d roots)) by (rewrite <- HidsF; now apply in_map).
    rewrite (Hplanned _ _ HidW Hf) in Hps. inversion Hps as [Hps'].
    destruct Hin as (_ & _ & _ & Hprops). destruct (Hprops _ _ HidW Hf) as [_ Hnn]. intro Hc'. apply Hnn.
    eapply Permutation_in; [apply bsort_keys_perm|]. rewrite Hps', map_map. exact Hc'. }
  rewrite Hnodes in Hd.
  change (flat_map (rw_of plainD) F) with (flat_map rw_of0 F) in Hd. change (flat_map (srw_of plainD) F) with (flat_map srw_of0 F) in Hd.
  rewrite second_pass in Hd.
  eexists. split; [exact Hd|].
  destruct Hst as (_ & Hinj & Hdh).
  unfold same_forest. cbv zeta. split.
  - rewrite <- HidsF at 2. apply Forall2_map_same. apply Forall_forall. intros fn Hfn.
    apply (node_back e ebeh d roots (es_map stF) (es_shared stF) F Hin Hplanned Hh Hinj Hsorted Hdh B1 B2 B3 HidsF HlabF fn Hfn).
  - rewrite map_map. cbn [fin_node i_ref]. rewrite <- HidsF, map_length. exact HlabF.
Qed.
Print Assumptions xml_roundtrip.

(* ================================================================= (13) the headline theorems *)
(* ---- labels *)
Lemma label_notin W r : ~ In r W -> label W r = 0.
Proof. apply lab_from_notin. Qed.
Lemma lab_from_in W r : forall L, In r W ->
  L <= lab_from L W r < L + N.of_nat (length W) /\ nth_error W (N.to_nat (lab_from L W r - L)) = Some r.
Proof.
  induction W as [|x W IH]; intros L Hin; [contradiction|]. cbn [lab_from length].
  destruct (N.eqb_spec x r) as [->|Hne].
  - split; [lia|]. rewrite N.sub_diag. reflexivity.
  - destruct Hin as [E|Hin]; [congruence|]. destruct (IH (L + 1) Hin) as [H1 H2]. split; [lia|].
    replace (N.to_nat (lab_from (L + 1) W r - L)) with (S (N.to_nat (lab_from (L + 1) W r - (L + 1)))) by lia. exact H2.
Qed.
(* the label of a written instance is its position in the document order, counted from 1 *)
Lemma label_in W r : In r W -> 1 <= label W r <= N.of_nat (length W) /\ nth_error W (N.to_nat (label W r) - 1) = Some r.
Proof.
  intro H. destruct (lab_from_in W r 1 H) as [H1 H2]. unfold label. split; [lia|].
  replace (N.to_nat (lab_from 1 W r) - 1)%nat with (N.to_nat (lab_from 1 W r - 1)) by lia. exact H2.
Qed.

(* ---- A1: the forest *)

Theorem xml_roundtrip_forest e ebeh dbeh d roots evs revs :
  input_ok d roots -> plain_mode e ebeh dbeh d roots -> hash_bytes e -> readable_dom e d roots ->
  xml_encode e ebeh d roots = Ok evs -> channel evs = Ok revs ->
  exists d', xml_decode e dbeh revs = Ok d' /\ forest_rel d roots d'.
Proof.
  intros Hin Hpm Hh Hrd He Hc.
  apply (xml_roundtrip_forest_generic e ebeh dbeh plainD d roots evs revs (input_ok_0 d roots Hin) Hh
           (readable_plain e ebeh dbeh d roots Hpm Hrd) (dec_law_plain e ebeh dbeh d roots Hin Hpm) He Hc).
Qed.
Print Assumptions xml_roundtrip_forest.

Lemma Forall2_with_In {A C} (R : A -> C -> Prop) l l' : Forall2 R l l' -> Forall2 (fun a b => In a l /\ R a b) l l'.
Proof.
  induction 1 as [|a b l l' H _ IH]; constructor; [split; [now left|exact H]|].
  eapply Forall2_imp; [|exact IH]. intros x y [A1 A2]. split; [now right|exact A2].
Qed.

(* ---- A2: the values *)
Lemma vlaw_fun o v v1 v2 : (exists tag evs, write_xml o v = Some (tag, Ok evs)) -> vlaw o v v1 -> vlaw o v v2 -> v1 = v2.
Proof.
  intros (tag & evs & Hw) H1 H2. destruct (H1 tag evs Hw []) as (r1 & C1 & R1). destruct (H2 tag evs Hw []) as (r2 & C2 & R2).
  rewrite C1 in C2. inversion C2; subst r2. rewrite R1 in R2. inversion R2. reflexivity.
Qed.
Lemma vback_nonspecial e W v v' : nonspecial v ->
  vback e W v v' -> (exists tag evs, write_xml (xe_o e) v = Some (tag, Ok evs)) /\ vlaw (xe_o e) v v'.
Proof. intros Hns H. destruct v; try contradiction Hns; exact H. Qed.

(* what a property value comes back as, given the normalisation [norm] of the per-value law *)
Definition value_back (W : list N) (norm : value -> value) (v : value) : value :=
  match v with VRef r => VRef (label W r) | VSharedString c => VSharedString c | _ => norm v end.
Lemma value_back_nonspecial W norm v : nonspecial v -> value_back W norm v = norm v.
Proof. intro Hns. destruct v; try contradiction Hns; reflexivity. Qed.

Definition values_back (d : cdom) (W : list N) (norm : value -> value) (id : N) (i' : inst) : Prop :=
  exists i, find_inst d id = Some i /\ NoDup (List.map fst (i_props i')) /\
            forall k, bfind k (i_props i') = option_map (value_back W norm) (bfind k (i_props i)).

Theorem xml_roundtrip_values e ebeh dbeh d roots (norm : value -> value) evs revs :
  input_ok d roots -> plain_mode e ebeh dbeh d roots -> hash_ok e ->
  (forall id i k v, In id (written d roots) -> find_inst d id = Some i -> In (k, v) (i_props i) -> nonspecial v ->
                    vlaw (xe_o e) v (norm v)) ->
  xml_encode e ebeh d roots = Ok evs -> channel evs = Ok revs ->
  exists d', xml_decode e dbeh revs = Ok d' /\ same_forest e d roots d' /\
             Forall2 (values_back d (written d roots) norm) (written d roots) d'.
Proof.
  intros Hin Hpm Hh Hn He Hc.
  assert (Hrd : readable_dom e d roots) by (intros id i k v H1 H2 H3 H4; exists (norm v); eapply Hn; eassumption).
  destruct (xml_roundtrip _ _ _ _ _ _ _ Hin Hpm Hh Hrd He Hc) as (d' & Hd & Hf).
  exists d'. split; [exact Hd|]. split; [exact Hf|]. destruct Hf as [Hf _].
  assert (Hf' : Forall2 (fun id i' => In id (written d roots) /\ inst_back e d roots (written d roots) id i') (written d roots) d').
  { apply Forall2_with_In, Hf. }
  eapply Forall2_imp; [|exact Hf'].
  intros id i' (HidW & i & H1 & _ & _ & _ & _ & Hnd & Hk). exists i. split; [exact H1|]. split; [exact Hnd|].
  intro k. specialize (Hk k). destruct (bfind k (i_props i)) as [v|] eqn:Ev; destruct (bfind k (i_props i')) as [v'|]; try contradiction; [|reflexivity].
  cbn [option_map]. f_equal. destruct (value_cases v) as [(r & ->)|[(c & ->)|Hns]]; [exact Hk|exact Hk|].
  rewrite value_back_nonspecial by exact Hns. destruct (vback_nonspecial _ _ _ _ Hns Hk) as [Hw Hl].
  apply (vlaw_fun _ _ _ _ Hw Hl). eapply Hn; [exact HidW|exact H1|apply bfind_some_in, Ev|exact Hns].
Qed.
Print Assumptions xml_roundtrip_values.

(* ---- A3: references and shared strings *)
Definition refs_back (d : cdom) (W : list N) (id : N) (i' : inst) : Prop :=
  exists i, find_inst d id = Some i /\ i_ref i' = label W id /\
    (forall k r, bfind k (i_props i) = Some (VRef r) -> bfind k (i_props i') = Some (VRef (label W r))) /\
    (forall k c, bfind k (i_props i) = Some (VSharedString c) -> bfind k (i_props i') = Some (VSharedString c)) /\
    (forall k, bfind k (i_props i) = None -> bfind k (i_props i') = None).

(* A Ref to the written instance r comes back as the Ref to label r = the i_ref of the instance decoded for r, wherever
   r stands in the document (before or after the use); the null Ref and a Ref to an instance that is not written come back
   as the null Ref ([label_notin]: the referent the writer invents for it is carried by no Item, so the rewrite pass finds
   no target and the property keeps the null Ref the first pass stored); a SharedString comes back as itself. *)
Theorem xml_roundtrip_refs e ebeh dbeh d roots evs revs :
  input_ok d roots -> plain_mode e ebeh dbeh d roots -> hash_ok e -> readable_dom e d roots ->
  xml_encode e ebeh d roots = Ok evs -> channel evs = Ok revs ->
  exists d', xml_decode e dbeh revs = Ok d' /\
             Forall2 (refs_back d (written d roots)) (written d roots) d' /\
             label (written d roots) 0 = 0 /\
             (forall r, ~ In r (written d roots) -> label (written d roots) r = 0) /\
             (forall r, In r (written d roots) ->
                1 <= label (written d roots) r <= N.of_nat (length (written d roots)) /\
                nth_error (written d roots) (N.to_nat (label (written d roots) r) - 1) = Some r).
Proof.
  intros Hin Hpm Hh Hrd He Hc. destruct (xml_roundtrip _ _ _ _ _ _ _ Hin Hpm Hh Hrd He Hc) as (d' & Hd & Hf & Hl).
  exists d'. split; [exact Hd|]. split; [|split; [apply label_notin, Hin|split; [apply label_notin|apply label_in]]].
  eapply Forall2_imp; [|exact Hf]. intros id i' (i & H1 & H2 & _ & _ & _ & _ & Hk). exists i. split; [exact H1|]. split; [exact H2|].
  split; [|split].
  - intros k r E. specialize (Hk k). rewrite E in Hk. destruct (bfind k (i_props i')); [|contradiction]. cbn [vback] in Hk. now subst.
  - intros k c E. specialize (Hk k). rewrite E in Hk. destruct (bfind k (i_props i')); [|contradiction]. cbn [vback] in Hk. now subst.
  - intros k E. specialize (Hk k). rewrite E in Hk. destruct (bfind k (i_props i')); [contradiction|reflexivity].
Qed.
Print Assumptions xml_roundtrip_refs.

(* ================================================================= (14) the law, instantiated: `xml_roundtrip_simple_types` *)
(* the laws of the decimal-text oracle (Display / FromStr of f32 and f64), as in Properties/C02.v *)
Definition float_laws (o : xoracle) : Prop :=
  float_text_law o /\
  (forall (x : f64) (t : bytes), f64_is_nan x = false -> x <> F64_INF -> x <> F64_NINF -> xo_show64 o x = Some t ->
     xo_parse64 o t = Some (Some x) /\ t <> B "INF" /\ t <> B "-INF" /\ t <> B "NAN").

(* the value types covered, with the ranges their Rust types impose *)
Definition simple_ok (v : value) : Prop :=
  match v with
  | VString _ | VBool _ | VFloat64 _ | VVector3 _ | VVector2 _ | VColor3 _ _ _ | VRect _ _ | VRay _ _
  | VPhysicalProperties _ | VContentId _ => True
  | VInt32 z => (-2147483648 <= z <= 2147483647)%Z
  | VInt64 z => (-9223372036854775808 <= z <= 9223372036854775807)%Z
  | VFloat32 x => x < 4294967296
  | VBinaryString b => Forall (fun x => x < 256) b
  | VEnum n => n < 4294967296
  | VUniqueId index time random => index < 2 ^ 32 /\ time < 2 ^ 32 /\ (- 2 ^ 63 <= random < 2 ^ 63)%Z
  | VColor3uint8 r g b => r < 256 /\ g < 256 /\ b < 256
  | VUDim u => i32_ok (ud_offset u)
  | VUDim2 x y => i32_ok (ud_offset x) /\ i32_ok (ud_offset y)
  | VVector3int16 x y z => i16_ok x /\ i16_ok y /\ i16_ok z
  | VVector2int16 x y => i16_ok x /\ i16_ok y
  | VSecurityCapabilities bits => bits < 18446744073709551616
  | VFaces bits => bits < 64
  | VAxes bits => bits < 8
  | VFont f => fo_weight f < 65536
  | VContent c => match c with CObject _ => False | _ => True end
  | VRef _ | VSharedString _ => True
  | _ => False
  end.
(* what they come back as: floats with the canonical NaN, a Font with its weight / style normalised, the rest unchanged *)
Definition norm_simple (v : value) : value :=
  match v with
  | VFloat32 x => VFloat32 (norm_f32 x)
  | VFloat64 x => VFloat64 (norm_f64 x)
  | VVector3 v => VVector3 (norm_v3 v)
  | VVector2 v => VVector2 (norm_v2 v)
  | VColor3 r g b => VColor3 (norm_f32 r) (norm_f32 g) (norm_f32 b)
  | VRect lo hi => VRect (norm_v2 lo) (norm_v2 hi)
  | VRay orig dir => VRay (norm_v3 orig) (norm_v3 dir)
  | VPhysicalProperties p => VPhysicalProperties (norm_phys p)
  | VUDim u => VUDim (norm_udim u)
  | VUDim2 x y => VUDim2 (norm_udim x) (norm_udim y)
  | VFont f => VFont (norm_font f)
  | _ => v
  end.

Lemma vlaw_of_roundtrip o v (tag : string) v' :
  (exists r, write_xml o v = Some (B tag, r)) ->
  (forall evs, write_xml o v = Some (B tag, Ok evs) -> xml_value_roundtrip o tag evs v') -> vlaw o v v'.
Proof.
  intros (r & Hr) H tag' evs Hw name. rewrite Hr in Hw. inversion Hw; subst. exact (H evs Hr name).
Qed.

Lemma simple_law o v : float_laws o -> simple_ok v -> nonspecial v -> vlaw o v (norm_simple v).
Proof.
  intros [L32 L64] Hok Hns.
  destruct v; try contradiction Hok; try contradiction Hns; cbn [norm_simple simple_ok] in *.
  - (* Axes *) apply (vlaw_of_roundtrip o _ "Axes"); [eexists; reflexivity|]. intros evs. now apply axes_roundtrip.
  - (* BinaryString *)
    intros tag evs Hw name. destruct (binary_string_roundtrip o b name Hok) as (evs' & revs & H1 & H2 & H3).
    rewrite H1 in Hw. inversion Hw; subst. exists revs. split; assumption.
  - (* Bool *)
    intros tag evs Hw name. cbn [write_xml] in Hw. inversion Hw; subst. eexists. exact (bool_roundtrip o b name).
  - (* Color3 *) apply (vlaw_of_roundtrip o _ "Color3"); [eexists; reflexivity|]. intros evs. now apply color3_roundtrip.
  - (* Color3uint8 *) destruct Hok as (H1 & H2 & H3). apply (vlaw_of_roundtrip o _ "Color3uint8"); [eexists; reflexivity|].
    intros evs. now apply color3uint8_roundtrip.
  - (* ContentId *) apply (vlaw_of_roundtrip o _ "ContentId"); [eexists; reflexivity|]. intros evs. now apply content_id_roundtrip.
  - (* Enum *)
    intros tag evs Hw name. cbn [write_xml] in Hw. inversion Hw; subst. eexists. exact (enum_roundtrip o n name Hok).
  - (* Faces *) apply (vlaw_of_roundtrip o _ "Faces"); [eexists; reflexivity|]. intros evs. now apply faces_roundtrip.
  - (* Float32 *)
    intros tag evs Hw name. cbn [write_xml] in Hw. inversion Hw as [[Ht Hx]]. subst tag. unfold xw_f32 in Hx.
    destruct (text_f32 o x) as [t| | |] eqn:Et; cbn [rbind] in Hx; try discriminate. inversion Hx; subst evs.
    eexists. exact (float32_roundtrip o L32 x name t Hok Et).
  - (* Float64 *)
    intros tag evs Hw name. cbn [write_xml] in Hw. inversion Hw as [[Ht Hx]]. subst tag. unfold xw_f64 in Hx.
    destruct (text_f64 o x) as [t| | |] eqn:Et; cbn [rbind] in Hx; try discriminate. inversion Hx; subst evs.
    eexists. exact (float64_roundtrip o L64 x name t Et).
  - (* Int32 *)
    intros tag evs Hw name. cbn [write_xml] in Hw. inversion Hw; subst. eexists. exact (int32_roundtrip o z name Hok).
  - (* Int64 *)
    intros tag evs Hw name. cbn [write_xml] in Hw. inversion Hw; subst. eexists. exact (int64_roundtrip o z name Hok).
  - (* PhysicalProperties *) apply (vlaw_of_roundtrip o _ "PhysicalProperties"); [eexists; reflexivity|]. intros evs.
    now apply physical_properties_roundtrip.
  - (* Ray *) apply (vlaw_of_roundtrip o _ "Ray"); [eexists; reflexivity|]. intros evs. now apply ray_roundtrip.
  - (* Rect *) apply (vlaw_of_roundtrip o _ "Rect2D"); [eexists; reflexivity|]. intros evs. now apply rect_roundtrip.
  - (* String *)
    intros tag evs Hw name. cbn [write_xml] in Hw. inversion Hw; subst. eexists. exact (string_roundtrip o s name).
  - (* UDim *) apply (vlaw_of_roundtrip o _ "UDim"); [eexists; reflexivity|]. intros evs. now apply udim_roundtrip.
  - (* UDim2 *) destruct Hok as [H1 H2]. apply (vlaw_of_roundtrip o _ "UDim2"); [eexists; reflexivity|]. intros evs. now apply udim2_roundtrip.
  - (* Vector2 *) apply (vlaw_of_roundtrip o _ "Vector2"); [eexists; reflexivity|]. intros evs. now apply vector2_roundtrip.
  - (* Vector2int16 *) destruct Hok as [H1 H2]. apply (vlaw_of_roundtrip o _ "Vector2int16"); [eexists; reflexivity|].
    intros evs. now apply vector2int16_roundtrip.
  - (* Vector3 *)
    intros tag evs Hw name. cbn [write_xml] in Hw. inversion Hw as [[Ht Hx]]. subst tag.
    destruct (w_vec3_inv o v evs Hx) as (tx & ty & tz & H1 & H2 & H3 & _). destruct v as [x y z]. cbn [vx vy vz] in *.
    destruct (vector3_roundtrip o L32 x y z tx ty tz name H1 H2 H3) as ((evs' & Hw' & Hc) & Hr).
    cbn [write_xml] in Hw'. rewrite Hx in Hw'. inversion Hw'; subst evs'. eexists. split; [exact Hc|exact Hr].
  - (* Vector3int16 *) destruct Hok as (H1 & H2 & H3). apply (vlaw_of_roundtrip o _ "Vector3int16"); [eexists; reflexivity|].
    intros evs. now apply vector3int16_roundtrip.
  - (* Font *) apply (vlaw_of_roundtrip o _ "Font"); [eexists; reflexivity|]. intros evs. now apply font_roundtrip.
  - (* UniqueId *) destruct Hok as (H1 & H2 & H3). apply (vlaw_of_roundtrip o _ "UniqueId"); [eexists; reflexivity|].
    intros evs. now apply unique_id_roundtrip.
  - (* SecurityCapabilities *) apply (vlaw_of_roundtrip o _ "SecurityCapabilities"); [eexists; reflexivity|]. intros evs.
    now apply security_capabilities_roundtrip2.
  - (* Content *) apply (vlaw_of_roundtrip o _ "Content"); [destruct c; eexists; reflexivity|]. intros evs Hw.
    exact (proj2 (content_roundtrip o c evs Hw)).
Qed.

(* every property of every written instance is of a simple type (or a Ref, or a SharedString) *)
Definition simple_dom (d : cdom) (roots : list N) : Prop :=
  forall id i k v, In id (written d roots) -> find_inst d id = Some i -> In (k, v) (i_props i) -> simple_ok v.

(* A2, closed: no law hypothesis beyond the two float-text laws *)
Theorem xml_roundtrip_simple_types e ebeh dbeh d roots evs revs :
  input_ok d roots -> plain_mode e ebeh dbeh d roots -> hash_ok e -> float_laws (xe_o e) -> simple_dom d roots ->
  xml_encode e ebeh d roots = Ok evs -> channel evs = Ok revs ->
  exists d', xml_decode e dbeh revs = Ok d' /\ same_forest e d roots d' /\
             Forall2 (values_back d (written d roots) norm_simple) (written d roots) d'.
Proof.
  intros Hin Hpm Hh Hfl Hs He Hc. apply (xml_roundtrip_values e ebeh dbeh d roots norm_simple evs revs Hin Hpm Hh); try assumption.
  intros id i k v H1 H2 H3 Hns. apply simple_law; [exact Hfl|eapply Hs; eassumption|exact Hns].
Qed.
Print Assumptions xml_roundtrip_simple_types.

(* ================================================================= (15) [input_ok] is executable *)
Fixpoint nodupN (l : list N) : bool := match l with [] => true | x :: r => negb (existsb (N.eqb x) r) && nodupN r end.
Fixpoint nodupb (l : list bytes) : bool := match l with [] => true | x :: r => negb (existsb (bytes_eqb x) r) && nodupb r end.
Lemma nodupN_sound l : nodupN l = true -> NoDup l.
Proof.
  induction l as [|x l IH]; intro H; [constructor|]. cbn [nodupN] in H. apply andb_true_iff in H. destruct H as [H1 H2].
  constructor; [|now apply IH]. intro Hin. apply negb_true_iff in H1.
  assert (existsb (N.eqb x) l = true) by (apply existsb_exists; exists x; split; [exact Hin|apply N.eqb_refl]). congruence.
Qed.
Lemma nodupb_sound l : nodupb l = true -> NoDup l.
Proof.
  induction l as [|x l IH]; intro H; [constructor|]. cbn [nodupb] in H. apply andb_true_iff in H. destruct H as [H1 H2].
  constructor; [|now apply IH]. intro Hin. apply negb_true_iff in H1.
  assert (existsb (bytes_eqb x) l = true) by (apply existsb_exists; exists x; split; [exact Hin|apply bytes_eqb_refl]). congruence.
Qed.
Definition input_okb (d : cdom) (roots : list N) : bool :=
  nodupN (List.map i_ref d) && nodupN (written d roots) && negb (existsb (N.eqb 0) (written d roots)) &&
  forallb (fun id => match find_inst d id with
                     | Some i => nodupb (List.map fst (i_props i)) && negb (existsb (bytes_eqb (B "Name")) (List.map fst (i_props i)))
                     | None => true
                     end) (written d roots).
Lemma input_okb_sound d roots : input_okb d roots = true -> input_ok d roots.
Proof.
  unfold input_okb. intro H. apply andb_true_iff in H. destruct H as [H H4]. apply andb_true_iff in H. destruct H as [H H3].
  apply andb_true_iff in H. destruct H as [H1 H2]. split; [now apply nodupN_sound|]. split; [now apply nodupN_sound|]. split.
  - intro Hin. apply negb_true_iff in H3.
    assert (existsb (N.eqb 0) (written d roots) = true) by (apply existsb_exists; exists 0; split; [exact Hin|reflexivity]). congruence.
  - intros id i Hid Hf. rewrite forallb_forall in H4. specialize (H4 id Hid). rewrite Hf in H4. apply andb_true_iff in H4.
    destruct H4 as [A1 A2]. split; [now apply nodupb_sound|]. intro Hin. apply negb_true_iff in A2.
    assert (existsb (bytes_eqb (B "Name")) (List.map fst (i_props i)) = true)
      by (apply existsb_exists; exists (B "Name"); split; [exact Hin|apply bytes_eqb_refl]). congruence.
Qed.

(* without reflection on either side the mode is plain whatever the database *)
Lemma plain_mode_noreflection e d roots : plain_mode e ENoReflection DNoReflection d roots.
Proof. intros id i _ _. split; [now left|]. intros k _. split; now left. Qed.
(* so is the pairing WriteUnknown / ReadUnknown over a database that knows none of the written classes *)
Lemma plain_mode_unknown_classes e d roots :
  (forall id i, In id (written d roots) -> find_inst d id = Some i -> get_class (xe_db e) (S_ (i_class i)) = None) ->
  plain_mode e EWriteUnknown DReadUnknown d roots.
Proof.
  intros H id i Hid Hf. specialize (H id i Hid Hf).
  assert (E : forall k, find_desc_xml (xe_db e) (S_ (i_class i)) k = Ok None) by (intro k; unfold find_desc_xml; now rewrite H).
  split; [right; split; [reflexivity|apply E]|]. intros k _. split; right; (split; [reflexivity|apply E]).
Qed.

(* ================================================================= (16) non-vacuity: a concrete DOM through the whole codec *)
(* three levels (1 > 2 > 3), two roots (1 and 5), an instance that is not written (4), a forward Ref (1 -> 5, written before
   the Item of 5), a backward Ref (2 -> 1), a null Ref, a Ref to an instance that is not written (3 -> 99), two SharedStrings
   (one used twice), names with leading/trailing blanks, `]]>`, markup characters and a line feed, the empty name *)
Definition e_rt : xenv := mkXE (mkDb [] []) [] [] o1
  (fun c => if bytes_eqb c (B "xyz") then Some h_a else if bytes_eqb c (B "abc") then Some h_c else None).
Definition d_rt : cdom :=
  [mkInst 1 0 (B "Folder") (B "  lead and trail  ") [(B "Target", VRef 5); (B "Blob", VSharedString (B "xyz")); (B "Flag", VBool true)];
   mkInst 2 1 (B "Model") (B "a ]]> b") [(B "Back", VRef 1); (B "Half", VFloat32 F32_HALF); (B "Null", VRef 0); (B "Inf", VFloat64 F64_INF)];
   mkInst 3 2 (B "Part") [] [(B "Dangling", VRef 99); (B "Vec", VVector3 (mkV3 F32_ONE F32_NNAN F32_INF)); (B "Count", VInt32 (-7))];
   mkInst 4 0 (B "Unwritten") (B "u") [];
   mkInst 5 0 (B "Folder") (B "<&>" ++ [10]) [(B "Other", VSharedString (B "abc")); (B "Bin", VBinaryString [0; 255; 10]); (B "Blob", VSharedString (B "xyz"))]].
Definition d_rt_back : cdom :=
  [mkInst 1 0 (B "Folder") (B "  lead and trail  ") [(B "Blob", VSharedString (B "xyz")); (B "Target", VRef 4); (B "Flag", VBool true)];
   mkInst 2 1 (B "Model") (B "a ]]> b") [(B "Back", VRef 1); (B "Null", VRef 0); (B "Inf", VFloat64 F64_INF); (B "Half", VFloat32 F32_HALF)];
   mkInst 3 2 (B "Part") [] [(B "Vec", VVector3 (mkV3 F32_ONE F32_NAN F32_INF)); (B "Dangling", VRef 0); (B "Count", VInt32 (-7))];
   mkInst 4 0 (B "Folder") (B "<&>" ++ [10]) [(B "Other", VSharedString (B "abc")); (B "Blob", VSharedString (B "xyz")); (B "Bin", VBinaryString [0; 255; 10])]].

Lemma e_rt_hash_ok : hash_ok e_rt.
Proof.
  assert (Hc : forall c h, xe_hash e_rt c = Some h -> (c = B "xyz" /\ h = h_a) \/ (c = B "abc" /\ h = h_c)).
  { intros c h. cbn [xe_hash e_rt]. destruct (bytes_eqb c (B "xyz")) eqn:E1; [|destruct (bytes_eqb c (B "abc")) eqn:E2; [|discriminate]];
      intro H; inversion H; [left|right]; (split; [now apply beqb_true_iff|reflexivity]). }
  split; [|split].
  - intros c h H. destruct (Hc c h H) as [[_ ->]|[_ ->]]; repeat constructor.
  - intros c h H. destruct (Hc c h H) as [[-> _]|[-> _]]; repeat constructor.
  - intros c1 c2 h1 h2 H1 H2. destruct (Hc _ _ H1) as [[-> ->]|[-> ->]], (Hc _ _ H2) as [[-> ->]|[-> ->]]; try reflexivity;
      intro E; vm_compute in E; discriminate E.
Qed.
Lemma e_rt_float_laws : float_laws (xe_o e_rt).
Proof. split; [exact o1_float_text_law|]. intros x t _ _ _ H. discriminate H. Qed.

Example xml_roundtrip_example :
  written d_rt [1; 5] = [1; 2; 3; 5] /\
  input_ok d_rt [1; 5] /\ plain_mode e_rt EWriteUnknown DReadUnknown d_rt [1; 5] /\ hash_ok e_rt /\ float_laws (xe_o e_rt) /\
  simple_dom d_rt [1; 5] /\
  exists evs revs,
    xml_encode e_rt EWriteUnknown d_rt [1; 5] = Ok evs /\ channel evs = Ok revs /\
    xml_decode e_rt DReadUnknown revs = Ok d_rt_back /\
    (* ... which is what the theorems predict *)
    same_forest e_rt d_rt [1; 5] d_rt_back /\ forest_rel d_rt [1; 5] d_rt_back /\
    Forall2 (values_back d_rt [1; 2; 3; 5] norm_simple) [1; 2; 3; 5] d_rt_back /\
    List.map (label [1; 2; 3; 5]) [1; 2; 3; 5; 0; 4; 99] = [1; 2; 3; 4; 0; 0; 0].
Proof.
  assert (HW : written d_rt [1; 5] = [1; 2; 3; 5]) by reflexivity.
  assert (Hin : input_ok d_rt [1; 5]) by (apply input_okb_sound; vm_compute; reflexivity).
  assert (Hpm : plain_mode e_rt EWriteUnknown DReadUnknown d_rt [1; 5]) by (apply plain_mode_unknown_classes; reflexivity).
  assert (Hs : simple_dom d_rt [1; 5]).
  { intros id i k v Hid Hf Hkv. rewrite HW in Hid. cbn [In] in Hid.
    destruct Hid as [<-|[<-|[<-|[<-|[]]]]]; vm_compute in Hf; inversion Hf; subst i; cbn [i_props In] in Hkv;
      repeat (destruct Hkv as [Hkv|Hkv]; [inversion Hkv; subst; cbn [simple_ok]; try exact I; try lia; repeat constructor|]);
      try contradiction. }
  split; [exact HW|]. split; [exact Hin|]. split; [exact Hpm|]. split; [exact e_rt_hash_ok|]. split; [exact e_rt_float_laws|].
  split; [exact Hs|].
  destruct (xml_encode e_rt EWriteUnknown d_rt [1; 5]) as [evs| | |] eqn:He; try (vm_compute in He; discriminate He).
  destruct (channel evs) as [revs| | |] eqn:Hc;
    try (assert (Hx : (evs0 <- xml_encode e_rt EWriteUnknown d_rt [1; 5] ;; channel evs0) = channel evs) by (rewrite He; reflexivity);
         rewrite Hc in Hx; vm_compute in Hx; discriminate Hx).
  exists evs, revs. split; [reflexivity|]. split; [exact Hc|].
  assert (Hd : xml_decode e_rt DReadUnknown revs = Ok d_rt_back).
  { assert (Hx : (evs0 <- xml_encode e_rt EWriteUnknown d_rt [1; 5] ;; revs0 <- channel evs0 ;; xml_decode e_rt DReadUnknown revs0)
                 = xml_decode e_rt DReadUnknown revs) by (rewrite He; cbn [rbind]; rewrite Hc; reflexivity).
    rewrite <- Hx. vm_compute. reflexivity. }
  split; [exact Hd|].
  destruct (xml_roundtrip_simple_types e_rt EWriteUnknown DReadUnknown d_rt [1; 5] evs revs Hin Hpm e_rt_hash_ok e_rt_float_laws Hs He Hc)
    as (d' & Hd' & Hf & Hv).
  rewrite Hd in Hd'. inversion Hd'; subst d'. rewrite HW in Hv. split; [exact Hf|].
  split; [|split; [exact Hv|reflexivity]].
  assert (Hrd : readable_dom e_rt d_rt [1; 5]).
  { intros id i k v H1 H2 H3 Hns. exists (norm_simple v). apply simple_law; [exact e_rt_float_laws|eapply Hs; eassumption|exact Hns]. }
  destruct (xml_roundtrip_forest e_rt EWriteUnknown DReadUnknown d_rt [1; 5] evs revs Hin Hpm (hash_ok_bytes _ e_rt_hash_ok) Hrd He Hc)
    as (d'' & Hd'' & Hfr).
  rewrite Hd in Hd''. inversion Hd''; subst d''. exact Hfr.
Qed.

(* ================================================================= (17) the hypotheses are needed: closed counter-examples *)
Definition thru (e : xenv) (eb : ebehavior) (db : dbehavior) (d : cdom) (roots : list N) : res cdom :=
  evs <- xml_encode e eb d roots ;; revs <- channel evs ;; xml_decode e db revs.

(* [input_ok], no key `Name`: a property keyed `Name` is written as a second <string name="Name"> element; the reader keeps
   the later one, so the instance comes back under the property's value and without the property ... *)
Example name_property_refuted :
  thru e0 ENoReflection DNoReflection [mkInst 1 0 (B "Folder") (B "real") [(B "Name", VString (B "fake"))]] [1]
  = Ok [mkInst 1 0 (B "Folder") (B "fake") []].
Proof. vm_compute. reflexivity. Qed.
(* ... and when that property is not a string the document the writer produced is rejected (NameMustBeString) *)
Example name_property_not_string_refuted :
  thru e0 ENoReflection DNoReflection [mkInst 1 0 (B "Folder") (B "real") [(B "Name", VInt32 1)]] [1] = Err DE_NAME.
Proof. vm_compute. reflexivity. Qed.

(* [input_ok], no instance written twice: a root listed twice is written twice under one referent; both copies of a Ref to
   it resolve to the LAST copy (label 2), not to the first one (label [1; 1] 1 = 1) *)
Example overlapping_roots_refuted :
  thru e0 ENoReflection DNoReflection [mkInst 1 0 (B "Folder") (B "a") [(B "Self", VRef 1)]] [1; 1]
  = Ok [mkInst 1 0 (B "Folder") (B "a") [(B "Self", VRef 2)]; mkInst 2 0 (B "Folder") (B "a") [(B "Self", VRef 2)]]
  /\ label (written [mkInst 1 0 (B "Folder") (B "a") [(B "Self", VRef 1)]] [1; 1]) 1 = 1.
Proof. split; vm_compute; reflexivity. Qed.

(* [input_ok], property keys once: of two entries under one key the reader keeps the later one, [bfind] sees the first *)
Example duplicate_key_refuted :
  thru e0 ENoReflection DNoReflection [mkInst 1 0 (B "Folder") (B "a") [(B "K", VInt32 1); (B "K", VInt32 2)]] [1]
  = Ok [mkInst 1 0 (B "Folder") (B "a") [(B "K", VInt32 2)]]
  /\ bfind (B "K") [(B "K", VInt32 1); (B "K", VInt32 2)] = Some (VInt32 1).
Proof. split; vm_compute; reflexivity. Qed.

(* [input_ok], referents unique in the DOM: [children_of] finds the later instance 2 (child of 1), [find_inst] the earlier one
   (child of 5): what is written under 1 is the class and name of the instance that is NOT its child *)
Example duplicate_referent_refuted :
  thru e0 ENoReflection DNoReflection [mkInst 1 0 (B "A") (B "a") []; mkInst 2 5 (B "C") (B "c") []; mkInst 2 1 (B "B") (B "b") []] [1]
  = Ok [mkInst 1 0 (B "A") (B "a") []; mkInst 2 1 (B "C") (B "c") []].
Proof. vm_compute. reflexivity. Qed.

(* [input_ok], 0 is not written: 0 is the null referent, so a Ref to an instance with referent 0 is written `null` and comes
   back null, not as the label (1) of that instance *)
Example zero_referent_refuted :
  let d := [mkInst 0 7 (B "Folder") (B "zero") []; mkInst 1 0 (B "Folder") (B "kid") [(B "Up", VRef 0)]] in
  written d [0] = [0; 1] /\ label [0; 1] 0 = 1 /\
  thru e0 ENoReflection DNoReflection d [0]
  = Ok [mkInst 1 0 (B "Folder") (B "zero") []; mkInst 2 1 (B "Folder") (B "kid") [(B "Up", VRef 0)]].
Proof. cbv zeta. repeat split; vm_compute; reflexivity. Qed.

(* [plain_mode] (reader side): with reflection the reader looks `Name` up like any other property; in a database where `Name`
   is an alias (here of `Title`) the instance loses its name (it is named after its class) and gains a property.  So A1 does
   NOT hold for every database: the reader must take `Name` as it stands. *)
Definition db_alias : db :=
  mkDb [mkCD "Folder" None false [mkPD "Name" (DValue 24) (KAlias "Title"); mkPD "Title" (DValue 24) (KCanon PSerializes)] []] [].
Definition e_alias : xenv := mkXE db_alias [] [] o0 (fun _ => None).
Example name_alias_refuted :
  thru e_alias EWriteUnknown DReadUnknown [mkInst 1 0 (B "Folder") (B "real") []] [1]
  = Ok [mkInst 1 0 (B "Folder") (B "Folder") [(B "Title", VString (B "real"))]].
Proof. vm_compute. reflexivity. Qed.

(* [readable]: a value the writer accepts and the reader rejects makes the whole document unreadable: a NumberSequence with
   a single keypoint (the reader wants two) *)
Definition e_o1 : xenv := mkXE (mkDb [] []) [] [] o1 (fun _ => None).
Example unreadable_value_refuted :
  thru e_o1 ENoReflection DNoReflection [mkInst 1 0 (B "Folder") (B "f") [(B "Seq", VNumberSequence [(0, F32_ONE, 0)])]] [1]
  = Err DE_CONTENT.
Proof. vm_compute. reflexivity. Qed.

(* [hash_ok], third clause: two contents whose hashes agree on their first 16 bytes share one dictionary key; both come back
   with the content of the later dictionary entry ([e_amb], [d_amb] of Proofs/XmlStructure.v) *)
Example hash_prefix_collision_refuted :
  firstn 16 h_a = firstn 16 h_b /\ B "aaa" <> B "bbb" /\
  xe_hash e_amb (B "aaa") = Some h_a /\ xe_hash e_amb (B "bbb") = Some h_b /\
  thru e_amb ENoReflection DNoReflection d_amb [1]
  = Ok [mkInst 1 0 (B "Folder") (B "f") [(B "S2", VSharedString (B "bbb")); (B "S1", VSharedString (B "bbb"))]].
Proof. split; [reflexivity|]. split; [discriminate|]. repeat split; vm_compute; reflexivity. Qed.

(* ================================================================= (18) the reflective reader as an instance of the generic theorem *)
(* what deserialize_property does with an element that read_prop_value reads back, as a function of the class and the
   element: the name the rewrites are queued under (None: nothing is queued) and the effect on the property table *)
Definition refl_plan (e : xenv) (beh : dbehavior) (c : bytes) (p : pelem)
  : option bytes * (list (bytes * value) -> list (bytes * value)) :=
  let pn := p_name p in let v := p_dval p in
  let plain := (Some pn, fun props : list (bytes * value) => bupd pn v props) in
  let drop := (@None bytes, fun props : list (bytes * value) => props) in
  match beh with
  | DNoReflection => plain
  | _ =>
      match find_desc_xml (xe_db e) (S_ c) (S_ pn) with
      | Ok None =>
          if bytes_eqb pn (B "Name") then plain
          else match beh with DReadUnknown => plain | _ => drop end
      | Ok (Some (canon, _)) =>
          let cname := bytes_of_string (pd_name canon) in
          match try_convert (xe_o e) v (dtype_vt (pd_type canon)) with
          | Ok conv =>
              match pd_kind canon with
              | KCanon (PMigrate to op) =>
                  let newname := bytes_of_string to in
                  (Some cname, fun props => match bfind newname props with
                                            | Some _ => props
                                            | None => match migrate (xe_font e) (xe_brick e) op conv with
                                                      | Some nv => bupd newname nv props
                                                      | None => props
                                                      end
                                            end)
              | _ => (Some cname, fun props => bupd cname conv props)
              end
          | _ => drop
          end
      | _ => drop
      end
  end.
Definition reflD (e : xenv) (beh : dbehavior) : dout :=
  mkDO (fun c L p => match fst (refl_plan e beh c p) with Some nm => p_rwn L nm p | None => [] end)
       (fun c L p => match fst (refl_plan e beh c p) with Some nm => p_srwn L nm p | None => [] end)
       (fun c p => snd (refl_plan e beh c p)).

(* the step does not fail: the lookup answers; an unknown property is not an error; conversion and migration succeed *)
Definition refl_step_ok (e : xenv) (beh : dbehavior) (c : bytes) (p : pelem) : Prop :=
  match beh with
  | DNoReflection => True
  | _ => match find_desc_xml (xe_db e) (S_ c) (S_ (p_name p)) with
         | Ok None => bytes_eqb (p_name p) (B "Name") = true \/ beh = DIgnoreUnknown \/ beh = DReadUnknown
         | Ok (Some (canon, _)) =>
             exists conv, try_convert (xe_o e) (p_dval p) (dtype_vt (pd_type canon)) = Ok conv /\
               match pd_kind canon with
               | KCanon (PMigrate to op) => migrate (xe_font e) (xe_brick e) op conv <> None
               | _ => True
               end
         | _ => False
         end
  end.

Lemma rqueue_drop st id nm p : drop_queued st (rqueue st id nm p) = st.
Proof.
  unfold drop_queued, rqueue. cbn [ds_nodes ds_next ds_refs ds_rewrites ds_shared ds_srewrites]. rewrite !firstn_length_app.
  destruct st; reflexivity.
Qed.
Lemma mkDS_nil st : mkDS (ds_nodes st) (ds_next st) (ds_refs st) (ds_rewrites st ++ []) (ds_shared st) (ds_srewrites st ++ []) = st.
Proof. rewrite !app_nil_r. destruct st; reflexivity. Qed.

Lemma refl_good e beh c p : p_reads e p -> refl_step_ok e beh c p -> p_good e beh (reflD e beh) c p.
Proof.
  intros (Hc & ty & tail & Eh & Hr) Hok. split; [exact Hc|]. exists ty, tail. split; [exact Eh|].
  intros st id props e0 rest He.
  assert (Hrd : forall nm, read_prop_value e st ty id nm (p_rev p ++ e0 :: rest) = Ok ((Some (p_dval p), rqueue st id nm p), e0 :: rest))
    by (intro nm; apply Hr, He).
  unfold deserialize_property, queue, reflD. cbn [do_rw do_srw do_store]. unfold refl_plan, refl_step_ok in *.
  destruct beh.
  4:{ (* no reflection *)
      destruct (bytes_eqb (p_name p) (B "Name")); unfold xlift, xbind; cbv beta iota; rewrite Hrd; reflexivity. }
  all: destruct (find_desc_xml (xe_db e) (S_ c) (S_ (p_name p))) as [[[canon ser]|]| |c0|] eqn:Ed; try contradiction.
  all: destruct (bytes_eqb (p_name p) (B "Name")) eqn:En.
  all: try (apply beqb_true_iff in En; rewrite En in *; change (S_ (B "Name")) with "Name"%string in *).
  all: unfold xlift, xbind; cbn [rbind]; rewrite ?Ed; cbn [rbind]; cbv beta iota; rewrite ?Hrd; cbv beta iota; cbn [fst snd]; unfold xret.
  all: try reflexivity.
  all: try (rewrite rqueue_drop, mkDS_nil; reflexivity).
  all: try (destruct Hok as (conv & Hconv & Hmig); rewrite Hconv; cbv beta iota;
            destruct (pd_kind canon) as [[| | |to op]|]; cbv beta iota; cbn [fst snd]; unfold xfail; try reflexivity;
            destruct (bfind (bytes_of_string to) props); try reflexivity;
            destruct (migrate (xe_font e) (xe_brick e) op conv); [reflexivity|congruence]).
  all: destruct Hok as [Hok|[Hok|Hok]]; discriminate Hok.
Qed.

(* the key the element's value is stored under, if it is stored *)
Definition refl_target (e : xenv) (beh : dbehavior) (c : bytes) (p : pelem) : option bytes :=
  let pn := p_name p in
  match beh with
  | DNoReflection => Some pn
  | _ =>
      match find_desc_xml (xe_db e) (S_ c) (S_ pn) with
      | Ok None => if bytes_eqb pn (B "Name") then Some pn else match beh with DReadUnknown => Some pn | _ => None end
      | Ok (Some (canon, _)) =>
          match try_convert (xe_o e) (p_dval p) (dtype_vt (pd_type canon)) with
          | Ok conv => match pd_kind canon with
                       | KCanon (PMigrate to op) => Some (bytes_of_string to)
                       | _ => Some (bytes_of_string (pd_name canon))
                       end
          | _ => None
          end
      | _ => None
      end
  end.

Lemma bfind_bupd_other {V} k k' (v : V) m : Some k' <> Some k -> bfind k (bupd k' v m) = bfind k m.
Proof.
  intro H. rewrite bfind_bupd. replace (bytes_eqb k k') with false; [reflexivity|]. symmetry. apply beqb_false_iff. congruence.
Qed.

Lemma refl_keeps_name e beh c p : refl_target e beh c p <> Some (B "Name") ->
  forall props, bfind (B "Name") (snd (refl_plan e beh c p) props) = bfind (B "Name") props.
Proof.
  unfold refl_target, refl_plan. intros H props.
  destruct beh.
  4:{ cbn [snd]. now apply bfind_bupd_other. }
  all: destruct (find_desc_xml (xe_db e) (S_ c) (S_ (p_name p))) as [[[canon ser]|]| |c0|]; try reflexivity.
  all: try (destruct (try_convert (xe_o e) (p_dval p) (dtype_vt (pd_type canon))) as [conv| |c0|]; try reflexivity;
            destruct (pd_kind canon) as [[| | |to op]|]; cbn [snd]; try (now apply bfind_bupd_other);
            destruct (bfind (bytes_of_string to) props); [reflexivity|];
            destruct (migrate (xe_font e) (xe_brick e) op conv); [now apply bfind_bupd_other|reflexivity]).
  all: destruct (bytes_eqb (p_name p) (B "Name")); cbn [snd]; try reflexivity; now apply bfind_bupd_other.
Qed.

(* the Name element is read and its value stored under `Name` *)
Definition name_law (e : xenv) (beh : dbehavior) (c nm : bytes) : Prop :=
  refl_step_ok e beh c (name_p nm) /\ bfind (B "Name") (snd (refl_plan e beh c (name_p nm)) []) = Some (VString nm).

(* ... which is so without reflection, when the lookup of `Name` finds nothing (9d6f480a), and when it finds a canonical,
   non-migrating descriptor called `Name` *)
Lemma name_law_of e beh c nm :
  beh = DNoReflection \/ find_desc_xml (xe_db e) (S_ c) "Name" = Ok None \/
  (exists canon ser, find_desc_xml (xe_db e) (S_ c) "Name" = Ok (Some (canon, ser)) /\ pd_name canon = "Name"%string /\
                     match pd_kind canon with KCanon (PMigrate _ _) => False | _ => True end) ->
  name_law e beh c nm.
Proof.
  unfold name_law, refl_step_ok, refl_plan. cbn [name_p p_name p_dval]. change (S_ (B "Name")) with "Name"%string.
  replace (bytes_eqb (B "Name") (B "Name")) with true by reflexivity.
  intros [->|[H|(canon & ser & H & Hn & Hk)]].
  - split; [exact I|reflexivity].
  - rewrite H. destruct beh; (split; [first [exact I|now left]|reflexivity]).
  - rewrite H. cbn [try_convert]. rewrite Hn. destruct (pd_kind canon) as [[| | |to op]|]; try contradiction;
      destruct beh; (split; [first [exact I|eexists; split; [reflexivity|exact I]]|reflexivity]).
Qed.

(* the hypothesis of the reflective theorem: on every element the writer can have written for a written instance the step
   of the reader does not fail and does not store under `Name` *)
Definition refl_law (e : xenv) (ebeh : ebehavior) (dbeh : dbehavior) (d : cdom) (roots : list N) : Prop :=
  forall id i, In id (written d roots) -> find_inst d id = Some i ->
    name_law e dbeh (i_class i) (i_name i) /\
    forall p k v, (exists m dict, p_ok e m dict p) -> In (k, v) (i_props i) ->
      ser_plan e ebeh (i_class i) (List.map fst (bsort (i_props i))) k v = Ok (Some (p_pair p)) ->
      refl_step_ok e dbeh (i_class i) p /\ refl_target e dbeh (i_class i) p <> Some (B "Name").

(* ---- A1 for the reflection behaviours: any pair of behaviours, any database; the hypotheses are lookups in the database *)
Theorem xml_roundtrip_forest_reflection e ebeh dbeh d roots evs revs :
  input_ok0 d roots -> hash_bytes e -> readable e ebeh d roots -> refl_law e ebeh dbeh d roots ->
  xml_encode e ebeh d roots = Ok evs -> channel evs = Ok revs ->
  exists d', xml_decode e dbeh revs = Ok d' /\ forest_rel d roots d'.
Proof.
  intros Hin Hb Hrd Hl He Hc. apply (xml_roundtrip_forest_generic e ebeh dbeh (reflD e dbeh) d roots evs revs Hin Hb Hrd); try assumption.
  intros id i Hid Hf. destruct (Hl id i Hid Hf) as [[HN1 HN2] Hp]. split; [|split].
  - apply refl_good; [apply name_p_reads|exact HN1].
  - exact HN2.
  - intros p k v Hpk Hkv Hs. destruct (Hp p k v Hpk Hkv Hs) as [H1 H2]. destruct Hpk as (m0 & dict0 & Hpk). split.
    + apply refl_good; [eapply p_ok_reads; exact Hpk|exact H1].
    + apply refl_keeps_name. exact H2.
Qed.
Print Assumptions xml_roundtrip_forest_reflection.

(* ---- non-vacuity of the reflective theorem: the default behaviours over a database that knows the class Part
   (Size, serialized as `size`, with the alias `size`; Transparency; Name) and does not know the class Gizmo *)
Lemma p_ok_dval e m dict p : float_laws (xe_o e) -> p_ok e m dict p -> nonspecial (p_src p) -> simple_ok (p_src p) ->
  p_dval p = norm_simple (p_src p).
Proof.
  intros Hfl Hp Hns Hs. destruct p as [pn r txt|pn c h|pn w revs v' tag inner]; cbn [p_src] in *; try contradiction.
  cbn [p_ok p_dval] in *. destruct Hp as (_ & Hw & _ & _ & _ & Hv).
  apply (vlaw_fun (xe_o e) w); [eexists _, _; exact Hw|exact Hv|apply simple_law; assumption].
Qed.

Definition e_refl : xenv := mkXE db_size [] [] o1 (fun _ => None).
Definition d_refl : cdom :=
  [mkInst 1 0 (B "Part") (B "p") [(B "Transparency", VFloat32 F32_HALF); (B "Size", VVector3 (mkV3 F32_ONE F32_ONE F32_ZERO)); (B "Mystery", VBool true)];
   mkInst 2 1 (B "Part") (B " kid ") [(B "size", VVector3 (mkV3 F32_HALF F32_ONE F32_ZERO))];
   mkInst 3 1 (B "Gizmo") (B "g") [(B "Whatever", VInt32 5)]].

Example xml_roundtrip_reflection_example :
  input_ok0 d_refl [1] /\ hash_bytes e_refl /\ readable e_refl EIgnoreUnknown d_refl [1] /\
  refl_law e_refl EIgnoreUnknown DIgnoreUnknown d_refl [1] /\
  thru e_refl EIgnoreUnknown DIgnoreUnknown d_refl [1]
  = Ok [mkInst 1 0 (B "Part") (B "p") [(B "Transparency", VFloat32 F32_HALF); (B "Size", VVector3 (mkV3 F32_ONE F32_ONE F32_ZERO))];
        mkInst 2 1 (B "Part") (B " kid ") [(B "Size", VVector3 (mkV3 F32_HALF F32_ONE F32_ZERO))];
        mkInst 3 1 (B "Gizmo") (B "g") []].
Proof.
  assert (HW : written d_refl [1] = [1; 2; 3]) by reflexivity.
  assert (Hfl : float_laws (xe_o e_refl)) by (split; [exact o1_float_text_law|intros x t _ _ _ H; discriminate H]).
  split; [|split; [|split; [|split]]].
  - split; [|split]; [repeat constructor; cbn; intuition discriminate|rewrite HW; apply nodupN_sound; reflexivity|rewrite HW; cbn; intuition discriminate].
  - intros c h H. discriminate H.
  - intros id i k v pn w Hid Hf Hkv Hs Hns. rewrite HW in Hid. cbn [In] in Hid.
    destruct Hid as [<-|[<-|[<-|[]]]]; vm_compute in Hf; inversion Hf; subst i; cbn [i_props In] in Hkv.
    all: repeat (destruct Hkv as [Hkv|Hkv]; [inversion Hkv; subst k v; clear Hkv|]); try contradiction.
    all: vm_compute in Hs; try discriminate Hs; inversion Hs; subst pn w.
    all: eexists; apply simple_law; [exact Hfl|cbn [simple_ok]; first [exact I|reflexivity]|exact I].
  - intros id i Hid Hf. rewrite HW in Hid. cbn [In] in Hid.
    destruct Hid as [<-|[<-|[<-|[]]]]; vm_compute in Hf; inversion Hf; subst i; cbn [i_class i_name i_props].
    1,2: split; [apply name_law_of; right; right; eexists _, _; split; [vm_compute; reflexivity|split; [reflexivity|exact I]]|].
    3: split; [apply name_law_of; right; left; reflexivity|].
    all: intros p k v (m0 & dict0 & Hp) Hkv Hs; cbn [In] in Hkv.
    all: repeat (destruct Hkv as [Hkv|Hkv]; [inversion Hkv; subst k v; clear Hkv|]); try contradiction.
    all: remember (p_pair p) as pp eqn:Epp; vm_compute in Hs; try discriminate Hs.
    all: injection Hs as Hs; subst pp; unfold p_pair in Hs; injection Hs as Hn Hv.
    all: pose proof (p_ok_dval _ _ _ _ Hfl Hp) as Hd; rewrite <- Hv in Hd.
    all: specialize (Hd I ltac:(cbn [simple_ok]; first [exact I|reflexivity])); cbn [norm_simple] in Hd.
    all: unfold refl_step_ok, refl_target; rewrite <- Hn, Hd.
    all: split; [vm_compute; eexists; split; [reflexivity|exact I]|vm_compute; discriminate].
  - vm_compute. reflexivity.
Qed.


(* EXPORT (for Properties/C02.v):
     xml_roundtrip_forest              A1  (plain pairing; [forest_rel]: labels 1,2,3.. in document order, class, name, parent
                                            label, root order, child order)
     xml_roundtrip_forest_generic      A1  any behaviours / any database, generic in the reader's outcome [dout] ([dec_law])
     xml_roundtrip_forest_reflection   A1  reflection behaviours: the reader's step computed from the database ([refl_law]);
                                            non-vacuity: xml_roundtrip_reflection_example (EIgnoreUnknown / DIgnoreUnknown)
     xml_roundtrip                     master statement for the plain pairing ([same_forest]: forest + every property)
     xml_roundtrip_values              A2  generic in the per-value law [vlaw] / normalisation [norm]
     xml_roundtrip_simple_types        A2  closed: [simple_ok] value types, [norm_simple]; premises: the two float-text laws
     xml_roundtrip_refs                A3  Refs (written / not written / null: [label], label_in, label_notin), SharedStrings
     input_okb_sound plain_mode_noreflection plain_mode_unknown_classes name_law_of      how to discharge the hypotheses
     xml_roundtrip_example             non-vacuity (3 levels, 2 roots, forward / backward / null / dangling Ref, 2 SharedStrings,
                                       awkward names), decoded DOM computed and equal to the prediction
     name_property_refuted name_property_not_string_refuted overlapping_roots_refuted duplicate_key_refuted
     duplicate_referent_refuted zero_referent_refuted name_alias_refuted unreadable_value_refuted
     hash_prefix_collision_refuted     each hypothesis is needed *)
