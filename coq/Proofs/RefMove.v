(* RefMove.v — WeakDom::transfer (Model/Dom.v [dom_transfer]) refines the forest operation [a_move]
   (Model/Tree.v): detach the subtree from the source forest, settle its UniqueIds against the
   destination breadth-first, graft it under the new parent in the destination.
   The BFS move loop is handled by a queue lemma in the style of [remove_loop_spec]: the queue is
   [map troot ts] for the pending trees [ts]; on the source side the loop is the removal loop, on the
   destination side every moved node arrives with its source entry, its UniqueId replaced per [settle]. *)
From RbxVerif Require Import Base Dom Tree BaseFacts TreeFacts Rep RefInsert RepWF TreeOps RefDestroy.
From Coq Require Import Lia Permutation.

(* ---- the entry of a moved node after UniqueId settlement ---- *)

Definition reuid (asg : map N) (x : ref) (i : inst) : inst :=
  match lookup x asg with
  | Some u => set_props i (upd UIDKEY (PUid u) (i_props i))
  | None => i
  end.

Lemma reuid_ext asg asg' x i : lookup x asg = lookup x asg' -> reuid asg x i = reuid asg' x i.
Proof. unfold reuid. intros ->. reflexivity. Qed.

Lemma tflat_fflat_apply_uids asg :
  (forall t p x, lookup x (tflat p (apply_uids asg t)) = option_map (reuid asg x) (lookup x (tflat p t))) /\
  (forall ts p x, lookup x (flat_map (tflat p) (List.map (apply_uids asg) ts)) =
                  option_map (reuid asg x) (lookup x (flat_map (tflat p) ts))).
Proof.
  apply tree_forest_ind.
  - intros r n c ps kids IH p x. rewrite apply_uids_eq, !lookup_tflat_node, map_troot_apply_uids.
    destruct (N.eqb x r) eqn:E.
    + apply N.eqb_eq in E. subst x. cbn [option_map]. f_equal. unfold reuid, new_props.
      destruct (lookup r asg); reflexivity.
    + apply IH.
  - intros p x. reflexivity.
  - intros t ts IHt IHts p x. cbn [List.map]. rewrite !lookup_fflat_cons, IHt, IHts.
    destruct (lookup x (tflat p t)); reflexivity.
Qed.

Lemma lookup_tflat_apply_uids asg t p x :
  lookup x (tflat p (apply_uids asg t)) = option_map (reuid asg x) (lookup x (tflat p t)).
Proof. apply tflat_fflat_apply_uids. Qed.

Lemma bfs_all_single t : bfs_all [t] = t :: bfs (fsize (tkids t)) (tkids t).
Proof.
  destruct t as [r n c ps kids]. unfold bfs_all. rewrite fsize_cons, tsize_eq.
  cbn [fsize fold_right]. rewrite Nat.add_0_r. cbn [bfs tkids app]. reflexivity.
Qed.

(* ---- the queue lemma ---- *)

Lemma move_loop_nil fuel s d nu : move_loop fuel s d nu [] = Ok (s, d, nu).
Proof. destruct fuel; reflexivity. Qed.

Lemma move_loop_spec : forall n ts fuel src dst nu,
  (fsize ts <= n)%nat -> (fsize ts <= fuel)%nat ->
  NoDup (frefs ts) -> Forall (Present (d_insts src)) ts ->
  exists src' dst',
    move_loop fuel src dst nu (List.map troot ts)
      = Ok (src', dst', snd (settle (d_uids dst) nu (bfs n ts))) /\
    remove_loop fuel src (List.map troot ts) = Ok src' /\
    (forall x, In x (frefs ts) ->
       lookup x (d_insts dst') =
       option_map (reuid (fst (settle (d_uids dst) nu (bfs n ts))) x) (lookup x (d_insts src))) /\
    (forall x, ~ In x (frefs ts) -> lookup x (d_insts dst') = lookup x (d_insts dst)) /\
    d_root dst' = d_root dst /\
    d_uids dst' = settle_used (d_uids dst) nu (bfs n ts) /\
    (NoDup (keys (d_insts dst)) -> NoDup (keys (d_insts dst'))).
Proof.
  assert (Hnil : forall n fuel src dst nu,
    exists src' dst',
      move_loop fuel src dst nu (List.map troot [])
        = Ok (src', dst', snd (settle (d_uids dst) nu (bfs n []))) /\
      remove_loop fuel src (List.map troot []) = Ok src' /\
      (forall x, In x (frefs []) ->
         lookup x (d_insts dst') =
         option_map (reuid (fst (settle (d_uids dst) nu (bfs n []))) x) (lookup x (d_insts src))) /\
      (forall x, ~ In x (frefs []) -> lookup x (d_insts dst') = lookup x (d_insts dst)) /\
      d_root dst' = d_root dst /\
      d_uids dst' = settle_used (d_uids dst) nu (bfs n []) /\
      (NoDup (keys (d_insts dst)) -> NoDup (keys (d_insts dst')))).
  { intros n fuel src dst nu. exists src, dst. cbn [List.map].
    rewrite move_loop_nil, remove_loop_nil.
    assert (Hb : bfs n [] = []) by (destruct n; reflexivity). rewrite Hb.
    cbn [settle settle_used snd fst].
    split; [reflexivity|]. split; [reflexivity|]. split; [intros x Hx; contradiction|].
    split; [reflexivity|]. split; [reflexivity|]. split; [reflexivity|]. auto. }
  induction n as [|n IH]; intros ts fuel src dst nu Hn Hfuel Hnd HP.
  - destruct ts as [|t ts]; [apply Hnil|].
    exfalso. rewrite fsize_cons in Hn. pose proof (tsize_pos t). lia.
  - destruct ts as [|t ts]; [apply Hnil|].
    destruct t as [r nm c ps kids].
    inversion HP as [|t0 ts0 HPt HPts]; subst t0 ts0.
    inversion HPt as [r' n' c' ps' kids' i Hl Hc Hp Hk]; subst r' n' c' ps' kids'.
    rewrite fsize_cons, tsize_eq in Hn, Hfuel.
    destruct fuel as [|f]; [lia|].
    rewrite frefs_cons, trefs_eq in Hnd. cbn [app] in Hnd.
    inversion Hnd as [|? ? Hrnot Hnd']; subst.
    rewrite in_app_iff in Hrnot.
    cbn [List.map troot move_loop remove_loop bfs tkids]. unfold inner_remove. rewrite Hl, Hc, <- map_app.
    set (us := match get_uid (i_props i) with Some u => sremove u (d_uids src) | None => d_uids src end).
    set (src1 := mkDom (remove r (d_insts src)) (d_root src) us).
    rewrite inner_insert_ustep, settle_cons. cbn [settle_used tprops troot].
    destruct (ustep (d_uids dst) nu (get_uid (i_props i))) as [[o used1] nu1] eqn:Hu.
    set (ri := match o with
               | Some v => set_props i (upd UIDKEY (PUid v) (i_props i))
               | None => i end).
    set (dst1 := mkDom (upd r ri (d_insts dst)) (d_root dst) used1).
    assert (Hsz : fsize (ts ++ kids) = (fsize ts + fsize kids)%nat) by apply fsize_app.
    assert (Hnd1 : NoDup (frefs (ts ++ kids))).
    { rewrite frefs_app. eapply Permutation_NoDup; [apply Permutation_app_comm|exact Hnd']. }
    assert (HP1 : Forall (Present (d_insts src1)) (ts ++ kids)).
    { apply Forall_app. rewrite Forall_forall in HPts, Hk. split; apply Forall_forall; intros k Hkin.
      - apply Present_ext with (m := d_insts src); [|now apply HPts].
        intros y Hy. cbn [src1 d_insts]. apply lookup_remove_neq. intros ->.
        apply Hrnot. right. apply in_frefs. eauto.
      - apply Present_ext with (m := d_insts src); [|now apply Hk].
        intros y Hy. cbn [src1 d_insts]. apply lookup_remove_neq. intros ->.
        apply Hrnot. left. apply in_frefs. eauto. }
    destruct (IH (ts ++ kids) f src1 dst1 nu1)
      as [src' [dst' [Hrun [Hrem [Hmoved [Hframe [Hroot [Huid Hkeys]]]]]]]];
      [lia|lia|exact Hnd1|exact HP1|].
    cbn [dst1 d_uids d_insts d_root] in Hrun, Hmoved, Hframe, Hroot, Huid, Hkeys.
    assert (Hin1 : forall x, In x (frefs (ts ++ kids)) <-> In x (frefs kids) \/ In x (frefs ts)).
    { intros x. rewrite frefs_app, in_app_iff. tauto. }
    assert (Hra : lookup r (fst (settle used1 nu1 (bfs n (ts ++ kids)))) = None).
    { apply RefInsert.settle_keys. intros Hcn. apply bfs_roots in Hcn. apply Hin1 in Hcn. tauto. }
    destruct (settle used1 nu1 (bfs n (ts ++ kids))) as [asg' nu'] eqn:Es.
    cbn [fst snd] in Hrun, Hmoved, Hra |- *.
    exists src', dst'. split; [exact Hrun|]. split; [exact Hrem|].
    split; [|split; [|split; [|split]]].
    + intros x Hx. rewrite frefs_cons, trefs_eq in Hx. cbn [app In] in Hx. rewrite in_app_iff in Hx.
      destruct (in_dec N.eq_dec x (frefs (ts ++ kids))) as [Hi|Hn'].
      * assert (Hxr : x <> r) by (intros ->; apply Hin1 in Hi; tauto).
        rewrite (Hmoved x Hi). cbn [src1 d_insts]. rewrite (lookup_remove_neq r x _ Hxr).
        destruct (lookup x (d_insts src)) as [ix|]; [|reflexivity]. cbn [option_map]. f_equal.
        apply reuid_ext. unfold asg_add. destruct o as [v|]; [|reflexivity].
        symmetry. now apply lookup_upd_neq.
      * rewrite (Hframe x Hn'). rewrite Hin1 in Hn'. destruct Hx as [Hx|Hx]; [|tauto].
        subst x. rewrite lookup_upd_eq, Hl. cbn [option_map]. f_equal.
        unfold ri, reuid, asg_add. destruct o as [v|]; [now rewrite lookup_upd_eq|now rewrite Hra].
    + intros x Hx. rewrite frefs_cons, trefs_eq in Hx. cbn [app In] in Hx. rewrite in_app_iff in Hx.
      rewrite Hframe by (rewrite Hin1; tauto).
      apply lookup_upd_neq. intros ->. tauto.
    + exact Hroot.
    + exact Huid.
    + intros Hnk. apply Hkeys. now apply TreeOps.NoDup_keys_upd.
Qed.

(* ---- small facts used in the assembly ---- *)

Lemma frefs_single t : frefs [t] = trefs t.
Proof. rewrite frefs_cons. cbn [frefs flat_map]. apply app_nil_r. Qed.

Lemma fuids_single t : fuids [t] = tuids t.
Proof. unfold fuids. cbn [flat_map]. apply app_nil_r. Qed.

Lemma fsize_single t : fsize [t] = tsize t.
Proof. rewrite fsize_cons. cbn [fsize fold_right]. lia. Qed.

Lemma Present_kids m t : Present m t -> Forall (Present m) (tkids t).
Proof. intros H. inversion H; subst. cbn [tkids]. assumption. Qed.

(* ---- the refinement ---- *)

Lemma move_refines : refines_move.
Proof.
  intros s t sa ta nu r dest sa' ta' nu' HRs HRt Hbs Hbt Ha.
  destruct HRs as [Hlk [Hnd [Hnone [Hroot [Hrootin [Huids [Hunodup Hkeys]]]]]]].
  destruct HRt as [Hlkt [Hndt [Hnonet [Hroott [Hrootint [Huidst [Hunodupt Hkeyst]]]]]]].
  unfold a_move in Ha.
  destruct (N.eqb r (a_root sa)) eqn:Hg1; [discriminate|].
  destruct (ffind r (a_trees sa)) as [sub|] eqn:Hf; [|discriminate].
  destruct (hasnode dest (a_trees ta) && disjointb (trefs sub) (frefs (a_trees ta)))%bool eqn:Hg2;
    [|discriminate].
  apply andb_true_iff in Hg2. destruct Hg2 as [Hg2 Hg3].
  apply hasnode_true_iff in Hg2.
  pose proof (disjointb_spec _ _ Hg3) as Hdisj.
  unfold arrive in Ha.
  destruct (settle (fuids (a_trees ta)) nu (bfs_all [sub])) as [asg nu0] eqn:Es.
  cbn [List.map] in Ha. injection Ha as <- <- <-.
  pose proof (ffind_root _ _ _ Hf) as Hsubroot.
  pose proof (ffind_NoDup _ _ _ Hf Hnd) as Hsubnd.
  assert (Hrin : In r (trefs sub)) by (rewrite <- Hsubroot; apply troot_in_trefs).
  destruct (fdel_flat_spec r (a_trees sa) rnone sub Hnd Hnone Hf)
    as [ir [p [Hir [Hirp [Hirc [Hirps [Hpsub [Hpin [Hsubl [Hdelnone [Hdelframe Hdelp]]]]]]]]]]].
  pose proof (NoDup_frefs_fdel _ _ _ Hf Hnd) as Hnd'.
  pose proof (fun x => frefs_fdel_In r (a_trees sa) sub x Hf Hnd) as HinF'.
  set (F := a_trees sa) in *. set (F' := fdel r F) in *.
  set (T := a_trees ta) in *.
  set (kids := tkids sub) in *.
  assert (Htr : trefs sub = r :: frefs kids) by (rewrite trefs_unfold, Hsubroot; reflexivity).
  assert (Hrk : ~ In r (frefs kids)) by (rewrite Htr in Hsubnd; inversion Hsubnd; assumption).
  assert (Hndk : NoDup (frefs kids)) by (rewrite Htr in Hsubnd; inversion Hsubnd; assumption).
  assert (Hlr : lookup r (d_insts s) = Some ir) by (rewrite Hlk; exact Hir).
  assert (Hpr : p <> r) by (intros ->; contradiction).
  assert (Hdestnone : dest <> rnone) by (intros ->; contradiction).
  assert (Hdestsub : ~ In dest (trefs sub)) by (intros Hi; exact (Hdisj dest Hi Hg2)).
  assert (Hdestr : dest <> r) by (intros ->; contradiction).
  assert (HsubF : forall x, In x (trefs sub) -> In x (frefs F)) by (apply (ffind_incl _ _ _ Hf)).
  assert (Hsubnone : ~ In rnone (trefs sub)) by (intros Hi; apply Hnone; now apply HsubF).
  (* the UniqueId settlement, split into the root and the rest *)
  set (nk := fsize kids) in *.
  rewrite bfs_all_single in Es. fold kids in Es. fold nk in Es.
  rewrite settle_cons in Es. rewrite Hsubroot in Es.
  destruct (ustep (fuids T) nu (get_uid (tprops sub))) as [[o used1] nu1] eqn:Hu.
  destruct (settle used1 nu1 (bfs nk kids)) as [asg' nu'] eqn:Es'.
  injection Es as <- <-.
  pose proof (ustep_ext (d_uids t) (fuids T) nu (get_uid (tprops sub)) Huidst) as Huc.
  rewrite Hu in Huc.
  destruct (ustep (d_uids t) nu (get_uid (tprops sub))) as [[oc used1c] nu1c] eqn:Huc'.
  destruct Huc as [-> [-> Hused1]].
  destruct (settle_ext (bfs nk kids) used1c used1 nu1 Hused1) as [Hse Hsu].
  assert (Hra : lookup r asg' = None).
  { replace asg' with (fst (settle used1 nu1 (bfs nk kids))) by (rewrite Es'; reflexivity).
    apply RefInsert.settle_keys. intros Hcn. apply bfs_roots in Hcn. contradiction. }
  set (asg := asg_add r o asg') in *.
  assert (Hasg_r : lookup r asg = o).
  { unfold asg, asg_add. destruct o as [v|]; [apply lookup_upd_eq|exact Hra]. }
  assert (Hasg_ne : forall x, x <> r -> lookup x asg = lookup x asg').
  { intros x Hx. unfold asg, asg_add. destruct o as [v|]; [now apply lookup_upd_neq|reflexivity]. }
  set (sub' := apply_uids asg sub) in *.
  assert (Htr' : trefs sub' = trefs sub) by apply trefs_apply_uids.
  assert (Hroot' : troot sub' = r) by (unfold sub'; rewrite troot_apply_uids; exact Hsubroot).
  (* step 1: remove r from the source *)
  set (us1 := match get_uid (i_props ir) with Some u => sremove u (d_uids s) | None => d_uids s end).
  set (src1 := mkDom (remove r (d_insts s)) (d_root s) us1).
  assert (Hrem1 : inner_remove s r = Some (src1, ir)).
  { unfold inner_remove. rewrite Hlr. reflexivity. }
  (* step 2: unlink r from its former parent *)
  assert (Hd2 : exists src2,
    (if N.eqb p rnone then Ok src1 else of_opt (unlink_child src1 p r)) = Ok src2 /\
    d_root src2 = d_root s /\ d_uids src2 = us1 /\ NoDup (keys (d_insts src2)) /\
    lookup r (d_insts src2) = None /\
    (forall x, In x (frefs kids) -> lookup x (d_insts src2) = lookup x (tflat p sub)) /\
    (forall x, ~ In x (trefs sub) -> lookup x (d_insts src2) = lookup x (flat_map (tflat rnone) F'))).
  { destruct (N.eqb p rnone) eqn:Ep.
    - apply N.eqb_eq in Ep. exists src1. split; [reflexivity|]. split; [reflexivity|].
      split; [reflexivity|]. cbn [src1 d_insts].
      split; [now apply TreeOps.NoDup_keys_remove|].
      split; [apply lookup_remove_eq|]. split.
      + intros x Hx. assert (Hxr : x <> r) by (intros ->; contradiction).
        rewrite (lookup_remove_neq r x _ Hxr), Hlk. apply Hsubl. rewrite Htr. now right.
      + intros x Hx. assert (Hxr : x <> r) by (intros ->; contradiction).
        rewrite (lookup_remove_neq r x _ Hxr), Hlk. unfold aflat. fold F.
        destruct (N.eq_dec x p) as [->|Hne].
        * rewrite Ep. rewrite !lookup_fflat_notin; [reflexivity| |exact Hnone].
          intros Hi. apply HinF' in Hi. tauto.
        * symmetry. now apply Hdelframe.
    - apply N.eqb_neq in Ep. destruct Hpin as [Hpin|Hpin]; [contradiction|].
      destruct (lookup_fflat_in rnone F p Hpin) as [pi Hpi].
      unfold unlink_child. cbn [src1 d_insts d_root d_uids].
      rewrite (lookup_remove_neq r p _ Hpr), Hlk. unfold aflat. fold F. rewrite Hpi. cbn [of_opt].
      eexists. split; [reflexivity|]. cbn [d_root d_uids d_insts].
      split; [reflexivity|]. split; [reflexivity|].
      split; [apply TreeOps.NoDup_keys_upd; now apply TreeOps.NoDup_keys_remove|].
      split; [|split].
      + rewrite lookup_upd_neq by (intros Heq; now apply Hpr). apply lookup_remove_eq.
      + intros x Hx. assert (Hxs : In x (trefs sub)) by (rewrite Htr; now right).
        assert (Hxr : x <> r) by (intros ->; contradiction).
        rewrite lookup_upd_neq by (intros ->; contradiction).
        rewrite (lookup_remove_neq r x _ Hxr), Hlk. now apply Hsubl.
      + intros x Hx. assert (Hxr : x <> r) by (intros ->; contradiction).
        destruct (N.eq_dec x p) as [->|Hne].
        * rewrite lookup_upd_eq. symmetry. now apply Hdelp.
        * rewrite lookup_upd_neq by exact Hne. rewrite (lookup_remove_neq r x _ Hxr), Hlk.
          unfold aflat. fold F. symmetry. now apply Hdelframe. }
  destruct Hd2 as [src2 [Hstep2 [Hroot2 [Huids2 [Hkeys2 [Hr2 [Hin2 Hout2]]]]]]].
  (* step 3: insert r into the destination, already pointing at its new parent *)
  set (ri := match o with
             | Some v => set_props (set_parent ir dest) (upd UIDKEY (PUid v) (i_props (set_parent ir dest)))
             | None => set_parent ir dest end).
  set (dst1 := mkDom (upd r ri (d_insts t)) (d_root t) used1c).
  assert (Hins1 : inner_insert t nu r (set_parent ir dest) = (dst1, nu1)).
  { assert (Hgu : get_uid (i_props (set_parent ir dest)) = get_uid (tprops sub))
      by (cbn [set_parent i_props]; now rewrite Hirps).
    rewrite inner_insert_ustep, Hgu, Huc'. reflexivity. }
  (* step 4: the loop over r's descendants *)
  assert (HP : Forall (Present (d_insts src2)) kids).
  { pose proof (Present_kids _ _ (Present_tflat p sub Hsubnd)) as Hk0. fold kids in Hk0.
    rewrite Forall_forall in Hk0. apply Forall_forall. intros k Hkin.
    apply Present_ext with (m := tflat p sub); [|now apply Hk0].
    intros y Hy. apply Hin2. apply in_frefs. eauto. }
  assert (Hfuel : (fsize kids <= dom_size s)%nat).
  { pose proof (fsize_fdel_le _ _ _ Hf Hnd) as Hsz. fold F in Hsz.
    assert (Hle : (fsize F <= length (d_insts s))%nat).
    { apply fsize_le_table; [exact Hnd|]. intros x Hx. rewrite Hlk. unfold aflat. fold F.
      destruct (lookup_fflat_in rnone F x Hx) as [i Hi]. rewrite Hi. discriminate. }
    assert (Hts : tsize sub = S (fsize kids)).
    { rewrite <- length_trefs, Htr. cbn [length]. now rewrite length_frefs. }
    unfold dom_size. lia. }
  destruct (move_loop_spec nk kids (dom_size s) src2 dst1 nu1 (le_n _) Hfuel Hndk HP)
    as [src3 [dst2 [Hrun [Hrem [Hmoved [Hframe [Hroot3 [Huid3 Hkeys3]]]]]]]].
  cbn [dst1 d_uids d_insts d_root] in Hrun, Hmoved, Hframe, Hroot3, Huid3, Hkeys3.
  rewrite Hse, Es' in Hrun, Hmoved. cbn [fst snd] in Hrun, Hmoved.
  destruct (remove_loop_spec nk kids (dom_size s) src2 (le_n _) Hfuel Hndk HP)
    as [src3' [Hrem' [Hgone [Hsframe [Hsroot [Hsuid Hskeys]]]]]].
  rewrite Hrem in Hrem'. injection Hrem' as <-.
  (* step 5: link r under its new parent *)
  destruct (lookup_fflat_in rnone T dest Hg2) as [di Hdi].
  assert (Hdestk : ~ In dest (frefs kids)) by (intros Hi; apply Hdestsub; rewrite Htr; now right).
  assert (Hdi2 : lookup dest (d_insts dst2) = Some di).
  { rewrite (Hframe dest Hdestk), (lookup_upd_neq r dest _ _ Hdestr), Hlkt. exact Hdi. }
  set (dst3 := mkDom (upd dest (set_children di (i_children di ++ [r])) (d_insts dst2))
                     (d_root dst2) (d_uids dst2)).
  assert (Hpush : push_child dst2 dest r = Some dst3) by (unfold push_child; rewrite Hdi2; reflexivity).
  (* facts about the settled UniqueIds *)
  set (ns := sub :: bfs nk kids).
  assert (Hns : ns = bfs (tsize sub) [sub]).
  { unfold ns, nk. rewrite <- bfs_all_single. unfold bfs_all. now rewrite fsize_single. }
  assert (Hsettle : settle (fuids T) nu ns = (asg, nu')).
  { unfold ns. rewrite settle_cons, Hu, Es', Hsubroot. reflexivity. }
  assert (Hperm : Permutation (tuids sub') (settled asg ns)).
  { rewrite <- fuids_single. eapply Permutation_trans.
    - apply (bfs_uids (tsize sub)).
      replace [sub'] with (List.map (apply_uids asg) [sub]) by reflexivity.
      rewrite fsize_apply_uids, fsize_single. lia.
    - replace [sub'] with (List.map (apply_uids asg) [sub]) by reflexivity.
      rewrite bfs_apply_uids, flat_map_map', <- Hns. apply Permutation_refl. }
  assert (Hsubuids : forall u, In u (tuids sub) -> In u (fuids F)).
  { intros u Hu0. eapply Permutation_in; [apply Permutation_sym; apply (fuids_fdel_perm r F sub Hf Hnd)|].
    apply in_or_app. now left. }
  pose proof (settle_uids ns (fuids T) nu) as Hsett. rewrite Hsettle in Hsett. cbn [fst snd] in Hsett.
  destruct Hsett as (Hle & Hnds & Hdis & Hlt & Hms).
  { rewrite Hns. eapply Permutation_NoDup; [apply bfs_refs; rewrite fsize_single; lia|].
    now rewrite frefs_single. }
  { intros u Hu0. apply Hbt. now apply mem_In. }
  { intros u Hu0. apply Hbs. apply Hsubuids. rewrite <- fuids_single.
    eapply Permutation_in; [apply Permutation_sym, (bfs_uids (tsize sub)); rewrite fsize_single; lia|].
    rewrite <- Hns. exact Hu0. }
  assert (HdT : dest = rnone \/ In dest (frefs T)) by now right.
  pose proof (fuids_fgraft_perm dest sub' T HdT Hndt) as Hpu.
  pose proof (frefs_fgraft_perm dest sub' T HdT Hndt) as Hprf.
  assert (Hdisj' : forall y, In y (trefs sub') -> ~ In y (frefs T)).
  { intros y Hy. rewrite Htr' in Hy. now apply Hdisj. }
  exists src3, dst3. split; [|split; [|split; [|split; [|split]]]].
  - (* the run *)
    assert (Hg1' : N.eqb r (d_root s) = false) by (rewrite Hroot; exact Hg1).
    assert (Hhas : has dest (d_insts t) = true) by (unfold has; rewrite Hlkt; unfold aflat; fold T; rewrite Hdi; reflexivity).
    unfold dom_transfer. rewrite Hg1', Hhas. cbn [negb]. rewrite Hrem1. cbv beta iota zeta. rewrite Hirp, Hstep2.
    cbn [rbind]. rewrite Hins1, Hirc. fold kids. rewrite Hrun. cbn [rbind].
    rewrite Hpush. reflexivity.
  - (* the source represents the forest without the subtree *)
    unfold Rep. cbn [a_trees a_root]. fold F. fold F'.
    split; [|split; [|split; [|split; [|split; [|split; [|split]]]]]].
    + intros x. unfold aflat. cbn [a_trees]. destruct (in_dec N.eq_dec x (trefs sub)) as [Hi|Hn].
      * rewrite (Hdelnone x Hi). rewrite Htr in Hi. destruct Hi as [Hi|Hi].
        -- subst x. rewrite (Hsframe r Hrk). exact Hr2.
        -- now apply Hgone.
      * assert (Hxk : ~ In x (frefs kids)) by (intros Hi; apply Hn; rewrite Htr; now right).
        rewrite (Hsframe x Hxk). now apply Hout2.
    + exact Hnd'.
    + intros Hi. apply HinF' in Hi. tauto.
    + rewrite Hsroot, Hroot2. exact Hroot.
    + unfold F'. rewrite map_troot_fdel. apply retain_ne_In. split; [exact Hrootin|].
      intros Heq. rewrite Heq, N.eqb_refl in Hg1. discriminate.
    + intros u. apply eq_true_iff_eq. rewrite Hsuid, Huids2, (mem_In u (fuids F')).
      unfold F'. rewrite (fuids_fdel_In r F sub u Hf Hnd Hunodup).
      rewrite tuids_unfold, in_app_iff. fold kids. unfold us1. rewrite Hirps.
      destruct (get_uid (tprops sub)) as [u0|].
      * rewrite mem_sremove, andb_true_iff, negb_true_iff, N.eqb_neq, Huids, mem_In. cbn [In].
        split.
        -- intros [H1 [H2 H3]]. split; [exact H3|]. intros [[H4|H4]|H4]; try tauto. congruence.
        -- intros [H1 H2]. split; [tauto|]. split; [|exact H1]. intros ->. apply H2. left. now left.
      * rewrite Huids, mem_In. cbn [In]. tauto.
    + eapply NoDup_fuids_fdel; eauto.
    + now apply Hskeys.
  - (* the destination represents the forest with the settled subtree grafted under dest *)
    unfold Rep. cbn [a_trees a_root]. fold T.
    split; [|split; [|split; [|split; [|split; [|split; [|split]]]]]].
    + intros x. unfold aflat. cbn [a_trees dst3 d_insts].
      rewrite (fgraft_flat_node dest sub' T rnone x Hg2 Hdestnone Hndt Hdisj').
      destruct (mem x (frefs T)) eqn:Em.
      * apply mem_In in Em.
        assert (Hxs : ~ In x (trefs sub)) by (intros Hi; exact (Hdisj x Hi Em)).
        assert (Hxk : ~ In x (frefs kids)) by (intros Hi; apply Hxs; rewrite Htr; now right).
        assert (Hxr : x <> r) by (intros ->; contradiction).
        unfold graft_entry. destruct (N.eqb x dest) eqn:Ex.
        -- apply N.eqb_eq in Ex. subst x. rewrite lookup_upd_eq, Hdi, Hroot'. reflexivity.
        -- apply N.eqb_neq in Ex. rewrite lookup_upd_neq by exact Ex.
           rewrite option_map_id, (Hframe x Hxk), (lookup_upd_neq r x _ _ Hxr). apply Hlkt.
      * apply mem_false_In in Em.
        assert (Hxd : x <> dest) by (intros ->; contradiction).
        rewrite lookup_upd_neq by exact Hxd.
        unfold sub'. rewrite lookup_tflat_apply_uids, (lookup_tflat_reparent p dest sub x), Hsubroot.
        destruct (in_dec N.eq_dec x (trefs sub)) as [Hi|Hn].
        -- rewrite Htr in Hi. destruct Hi as [Hi|Hi].
           ++ subst x. rewrite (Hframe r Hrk), lookup_upd_eq.
              rewrite <- (Hsubl r Hrin), Hir, N.eqb_refl. cbn [option_map]. f_equal.
              unfold ri, reuid. rewrite Hasg_r. reflexivity.
           ++ assert (Hxr : x <> r) by (intros ->; contradiction).
              rewrite (Hmoved x Hi), (Hin2 x Hi).
              apply N.eqb_neq in Hxr. rewrite Hxr. rewrite option_map_id.
              apply N.eqb_neq in Hxr.
              destruct (lookup x (tflat p sub)) as [ix|]; [|reflexivity]. cbn [option_map]. f_equal.
              apply reuid_ext. symmetry. now apply Hasg_ne.
        -- assert (Hxk : ~ In x (frefs kids)) by (intros Hi; apply Hn; rewrite Htr; now right).
           assert (Hxr : x <> r) by (intros ->; contradiction).
           rewrite (Hframe x Hxk), (lookup_upd_neq r x _ _ Hxr), Hlkt. unfold aflat. fold T.
           rewrite (lookup_fflat_notin rnone T x Em), (lookup_tflat_notin p sub x Hn). reflexivity.
    + eapply Permutation_NoDup; [apply Permutation_sym; exact Hprf|].
      apply NoDup_app_intro; [exact Hndt|now rewrite Htr'|].
      intros x Hx1 Hx2. exact (Hdisj' x Hx2 Hx1).
    + intros Hc. eapply Permutation_in in Hc; [|exact Hprf]. apply in_app_or in Hc.
      rewrite Htr' in Hc. tauto.
    + cbn [dst3 d_root]. rewrite Hroot3. exact Hroott.
    + rewrite TreeOps.map_troot_fgraft. apply N.eqb_neq in Hdestnone. rewrite Hdestnone. exact Hrootint.
    + intros u. cbn [dst3 d_uids]. rewrite Huid3.
      assert (Hsu' : mem u (settle_used used1c nu1 (bfs nk kids)) = mem u (settle_used (fuids T) nu ns)).
      { rewrite Hsu. unfold ns. cbn [settle_used]. rewrite Hu. reflexivity. }
      rewrite Hsu', Hms, (mem_perm u _ _ Hpu), TreeOps.mem_app. f_equal.
      apply mem_perm. now apply Permutation_sym.
    + eapply Permutation_NoDup; [apply Permutation_sym; exact Hpu|].
      apply NoDup_app_intro; [exact Hunodupt| |].
      * eapply Permutation_NoDup; [apply Permutation_sym; exact Hperm|exact Hnds].
      * intros u Hu1 Hu2. eapply Permutation_in in Hu2; [|exact Hperm]. apply Hdis in Hu2.
        apply mem_In in Hu1. congruence.
    + cbn [dst3 d_insts]. apply TreeOps.NoDup_keys_upd. apply Hkeys3.
      now apply TreeOps.NoDup_keys_upd.
  - (* uids_below, source *)
    intros u Hu0. cbn [a_trees] in Hu0. fold F in Hu0. fold F' in Hu0.
    apply (fuids_fdel_In r F sub u Hf Hnd Hunodup) in Hu0. destruct Hu0 as [Hu0 _].
    assert (u < nu) by now apply Hbs. lia.
  - (* uids_below, destination *)
    intros u Hu0. cbn [a_trees] in Hu0. fold T in Hu0.
    eapply Permutation_in in Hu0; [|exact Hpu]. apply in_app_or in Hu0.
    destruct Hu0 as [Hu0|Hu0].
    + assert (u < nu) by now apply Hbt. lia.
    + apply Hlt. eapply Permutation_in; [exact Hperm|exact Hu0].
  - exact Hle.
Qed.

Print Assumptions move_refines.
