(* BitSetsFacts.v — Faces / Axes (Model/BitSets.v): bits <-> name list round trip for every valid set, rejection
   of every other byte (finite domains, checked by computation and lifted with forallb_forall), and the
   duplicate / order / unknown-name behaviour of the name-list reader (general lemmas). *)
From RbxVerif Require Import BitSets.
From Coq Require Import Lia.
Open Scope N_scope.

(* [0; 1; ...; n-1], built in N (a range through `seq` on unary nat would cost n^2 to compute) *)
Fixpoint nseq (k : nat) (start : N) : list N :=
  match k with O => [] | S k' => start :: nseq k' (N.succ start) end.
Definition nrange (n : N) : list N := nseq (N.to_nat n) 0.
Lemma in_nseq k : forall s x, s <= x < s + N.of_nat k -> In x (nseq k s).
Proof.
  induction k as [|k IH]; intros s x H; [cbn in H; lia|]. cbn [nseq].
  destruct (N.eq_dec x s) as [->|Hne]; [now left|right]. apply IH. rewrite Nat2N.inj_succ in H. lia.
Qed.
Lemma in_nrange n x : x < n -> In x (nrange n).
Proof. intros H. unfold nrange. apply in_nseq. rewrite N2Nat.id. lia. Qed.

(* one byte against one flag table: valid sets (below `lim`) survive both serde forms, all others are rejected *)
Definition set_ok (t : flag_table) (lim b : N) : bool :=
  if b <? lim then
    match flags_from_bits t b, flags_of_names t 0 (flags_names t b), flags_of_byte t (flags_to_byte b) with
    | Some x, Ok y, Ok z => (x =? b) && (y =? b) && (z =? b) && (N.of_nat (length (flags_names t b)) <=? 8)
    | _, _, _ => false
    end
  else
    match flags_from_bits t b, flags_of_byte t b with
    | None, Err c => c =? ERR_FLAG_BITS
    | _, _ => false
    end.

Lemma faces_all_ok : forallb (set_ok FACES 64) (nrange 256) = true.
Proof. vm_compute. reflexivity. Qed.
Lemma axes_all_ok : forallb (set_ok AXES 8) (nrange 256) = true.
Proof. vm_compute. reflexivity. Qed.

Lemma set_ok_valid t lim b : set_ok t lim b = true -> b < lim ->
  flags_from_bits t b = Some b /\ flags_of_names t 0 (flags_names t b) = Ok b /\ flags_of_byte t (flags_to_byte b) = Ok b.
Proof.
  unfold set_ok. intros H Hb. apply N.ltb_lt in Hb. rewrite Hb in H.
  destruct (flags_from_bits t b); [|discriminate].
  destruct (flags_of_names t 0 (flags_names t b)); try discriminate.
  destruct (flags_of_byte t (flags_to_byte b)); try discriminate.
  apply andb_prop in H. destruct H as [H _]. apply andb_prop in H. destruct H as [H H3].
  apply andb_prop in H. destruct H as [H1 H2].
  apply N.eqb_eq in H1, H2, H3. subst. auto.
Qed.

Lemma set_ok_invalid t lim b : set_ok t lim b = true -> lim <= b ->
  flags_from_bits t b = None /\ flags_of_byte t b = Err ERR_FLAG_BITS.
Proof.
  unfold set_ok. intros H Hb. apply N.ltb_ge in Hb. rewrite Hb in H.
  destruct (flags_from_bits t b); [discriminate|].
  destruct (flags_of_byte t b); try discriminate. apply N.eqb_eq in H. subst. auto.
Qed.

(* all 64 Faces sets / all 8 Axes sets: bits -> names -> bits and bits -> byte -> bits *)
Theorem faces_roundtrip : forall b, b < 64 ->
  flags_from_bits FACES b = Some b /\ flags_of_names FACES 0 (flags_names FACES b) = Ok b /\
  flags_of_byte FACES (flags_to_byte b) = Ok b.
Proof.
  intros b Hb. apply (set_ok_valid FACES 64 b); [|exact Hb].
  apply (proj1 (forallb_forall _ _) faces_all_ok). apply in_nrange. lia.
Qed.
Theorem axes_roundtrip : forall b, b < 8 ->
  flags_from_bits AXES b = Some b /\ flags_of_names AXES 0 (flags_names AXES b) = Ok b /\
  flags_of_byte AXES (flags_to_byte b) = Ok b.
Proof.
  intros b Hb. apply (set_ok_valid AXES 8 b); [|exact Hb].
  apply (proj1 (forallb_forall _ _) axes_all_ok). apply in_nrange. lia.
Qed.

(* every other u8 is rejected *)
Theorem faces_reject : forall b, 64 <= b < 256 ->
  flags_from_bits FACES b = None /\ flags_of_byte FACES b = Err ERR_FLAG_BITS.
Proof.
  intros b Hb. apply (set_ok_invalid FACES 64 b); [|lia].
  apply (proj1 (forallb_forall _ _) faces_all_ok). apply in_nrange. lia.
Qed.
Theorem axes_reject : forall b, 8 <= b < 256 ->
  flags_from_bits AXES b = None /\ flags_of_byte AXES b = Err ERR_FLAG_BITS.
Proof.
  intros b Hb. apply (set_ok_invalid AXES 8 b); [|lia].
  apply (proj1 (forallb_forall _ _) axes_all_ok). apply in_nrange. lia.
Qed.

(* ---- the reader of name lists: duplicates, order, unknown names (any table) ---- *)
Lemma flags_of_names_dup t acc s r : flags_of_names t acc (s :: s :: r) = flags_of_names t acc (s :: r).
Proof.
  cbn. destruct (flag_of_name t s) as [f|]; [|reflexivity].
  now rewrite <- N.lor_assoc, N.lor_diag.
Qed.

Lemma flags_of_names_swap t acc s1 s2 r : flags_of_names t acc (s1 :: s2 :: r) = flags_of_names t acc (s2 :: s1 :: r).
Proof.
  cbn. destruct (flag_of_name t s1) as [f1|], (flag_of_name t s2) as [f2|]; try reflexivity.
  now rewrite <- !N.lor_assoc, (N.lor_comm f1 f2).
Qed.

Theorem flags_of_names_unknown t names : forall acc,
  (exists s, In s names /\ flag_of_name t s = None) -> flags_of_names t acc names = Err ERR_FLAG_NAME.
Proof.
  induction names as [|s r IH]; intros acc (x & Hin & Hx); [destruct Hin|].
  cbn. destruct (flag_of_name t s) as [f|] eqn:E; [|reflexivity].
  apply IH. destruct Hin as [->|Hin]; [congruence|]. now exists x.
Qed.

Theorem flags_of_names_known t names : forall acc,
  (forall s, In s names -> flag_of_name t s <> None) -> exists b, flags_of_names t acc names = Ok b.
Proof.
  induction names as [|s r IH]; intros acc H; cbn; [now exists acc|].
  destruct (flag_of_name t s) as [f|] eqn:E; [|exfalso; apply (H s); [now left|exact E]].
  apply IH. intros x Hx. apply H. now right.
Qed.
