(* RefMoveWithin.v — WeakDom::transfer_within (Model/Dom.v [dom_transfer_within]) refines the forest
   operation [a_move_within] = detach the subtree, graft it under the new parent (Model/Tree.v).
   The ancestor-walk guard returns [Ok false] whenever the abstract operation is defined: the new parent
   is still a node once the subtree is detached, so its ancestor chain stays inside the remaining forest
   (which does not contain r) and reaches the top within [fsize] steps. *)
From RbxVerif Require Import Base Dom Tree BaseFacts TreeFacts Rep TreeOps.
From Coq Require Import Lia Permutation.

(* ---- the ancestor walk ---- *)

Lemma anc_loop_mono : forall f d cur r b,
  anc_loop f d cur r = Ok b -> forall f', (f <= f')%nat -> anc_loop f' d cur r = Ok b.
Proof.
  induction f as [|f IH]; intros d cur r b H f' Hle.
  - destruct f' as [|f']; [exact H|]. cbn [anc_loop] in H. cbn [anc_loop].
    destruct (N.eqb cur rnone); [exact H|]. destruct (N.eqb cur r); [exact H|]. discriminate.
  - destruct f' as [|f']; [lia|]. cbn [anc_loop] in H. cbn [anc_loop].
    destruct (N.eqb cur rnone); [exact H|]. destruct (N.eqb cur r); [exact H|].
    destruct (lookup cur (d_insts d)) as [i|]; [|exact H]. apply (IH _ _ _ _ H). lia.
Qed.

(* [d]'s parent pointers agree with those of a flattened forest [flat p ts] on the nodes of [ts] *)
Definition parents_agree (d : dom) (m : list (ref * inst)) : Prop :=
  forall x i', In (x, i') m -> exists i, lookup x (d_insts d) = Some i /\ i_parent i = i_parent i'.

(* walking up from a node of a forest that does not contain r leaves the forest through its top
   parent p without meeting r, using at most one unit of fuel per node of the forest *)
Lemma anc_loop_forest d r :
  (forall t p cur f, parents_agree d (tflat p t) ->
      In cur (trefs t) -> ~ In r (trefs t) -> anc_loop f d p r = Ok false ->
      anc_loop (f + tsize t) d cur r = Ok false) /\
  (forall ts p cur f, parents_agree d (flat_map (tflat p) ts) ->
      In cur (frefs ts) -> ~ In r (frefs ts) -> anc_loop f d p r = Ok false ->
      anc_loop (f + fsize ts) d cur r = Ok false).
Proof.
  apply tree_forest_ind.
  - intros y n c ps kids IH p cur f Hm Hcur Hr Hp.
    rewrite trefs_eq in Hcur, Hr. rewrite tsize_eq.
    assert (Hy : anc_loop (S f) d y r = Ok false).
    { cbn [anc_loop]. destruct (N.eqb y rnone); [reflexivity|].
      destruct (N.eqb y r) eqn:E; [apply N.eqb_eq in E; exfalso; apply Hr; now left|].
      destruct (Hm y (mkInst p (List.map troot kids) n c ps)) as [i [Hl Hpar]];
        [rewrite tflat_eq; now left|].
      rewrite Hl. cbn [i_parent] in Hpar. rewrite Hpar. exact Hp. }
    destruct Hcur as [Hcur|Hcur].
    + subst cur. apply (anc_loop_mono _ _ _ _ _ Hy). lia.
    + replace (f + S (fsize kids))%nat with (S f + fsize kids)%nat by lia.
      apply IH with (p := y); [|exact Hcur| |exact Hy].
      * intros x i' Hin. apply Hm. rewrite tflat_eq. now right.
      * intros Hi. apply Hr. now right.
  - intros p cur f _ H. contradiction.
  - intros t ts IHt IHts p cur f Hm Hcur Hr Hp.
    rewrite frefs_cons, in_app_iff in Hcur, Hr. rewrite fsize_cons.
    destruct Hcur as [Hcur|Hcur].
    + apply anc_loop_mono with (f := (f + tsize t)%nat); [|lia].
      apply IHt with (p := p); [|exact Hcur|tauto|exact Hp].
      intros x i' Hin. apply Hm. cbn [flat_map]. apply in_app_iff. now left.
    + apply anc_loop_mono with (f := (f + fsize ts)%nat); [|lia].
      apply IHts with (p := p); [|exact Hcur|tauto|exact Hp].
      intros x i' Hin. apply Hm. cbn [flat_map]. apply in_app_iff. now right.
Qed.

(* ---- the refinement ---- *)

Lemma move_within_refines : refines_move_within.
Proof.
  intros d a r dest a' HR Ha.
  destruct HR as [Hlk [Hnd [Hnone [Hroot [Hrootin [Huids [Hunodup Hkeys]]]]]]].
  unfold a_move_within in Ha.
  destruct (N.eqb r (a_root a)) eqn:Hg1; [discriminate|].
  destruct (ffind r (a_trees a)) as [sub|] eqn:Hf; [|discriminate].
  destruct (hasnode dest (fdel r (a_trees a))) eqn:Hg2; [|discriminate].
  injection Ha as <-. apply hasnode_true_iff in Hg2.
  pose proof (ffind_root _ _ _ Hf) as Hsubroot.
  pose proof (ffind_NoDup _ _ _ Hf Hnd) as Hsubnd.
  assert (Hrin : In r (trefs sub)) by (rewrite <- Hsubroot; apply troot_in_trefs).
  destruct (fdel_flat_spec r (a_trees a) rnone sub Hnd Hnone Hf)
    as [ir [p [Hir [Hirp [Hirc [Hirps [Hpsub [Hpin [Hsubl [Hdelnone [Hdelframe Hdelp]]]]]]]]]]].
  pose proof (NoDup_frefs_fdel _ _ _ Hf Hnd) as Hnd'.
  pose proof (fun x => frefs_fdel_In r (a_trees a) sub x Hf Hnd) as HinF'.
  set (F := a_trees a) in *. set (F' := fdel r F) in *.
  assert (Hlr : lookup r (d_insts d) = Some ir) by (rewrite Hlk; exact Hir).
  assert (Hpr : p <> r) by (intros ->; contradiction).
  assert (Hdest : In dest (frefs F) /\ ~ In dest (trefs sub)) by (now apply HinF').
  destruct Hdest as [HdestF Hdestsub].
  assert (Hdestnone : dest <> rnone) by (intros ->; contradiction).
  assert (Hdestr : dest <> r) by (intros ->; contradiction).
  assert (HnoneF' : ~ In rnone (frefs F')) by (intros Hi; apply HinF' in Hi; tauto).
  assert (Hsize : (fsize F' <= dom_size d)%nat).
  { pose proof (fsize_fdel_le _ _ _ Hf Hnd) as Hsz. fold F in Hsz. fold F' in Hsz.
    assert (Hle : (fsize F <= length (d_insts d))%nat).
    { apply fsize_le_table; [exact Hnd|]. intros x Hx. rewrite Hlk. unfold aflat. fold F.
      destruct (lookup_fflat_in rnone F x Hx) as [i Hi]. rewrite Hi. discriminate. }
    unfold dom_size. lia. }
  (* the guard *)
  assert (Hanc : anc_loop (S (dom_size d)) d dest r = Ok false).
  { apply anc_loop_mono with (f := (0 + fsize F')%nat); [|lia].
    apply (proj2 (anc_loop_forest d r)) with (p := rnone).
    - intros x i' Hin.
      assert (Hl' : lookup x (flat_map (tflat rnone) F') = Some i').
      { apply In_lookup_NoDup; [rewrite keys_fflat; exact Hnd'|exact Hin]. }
      assert (HxF' : In x (frefs F')) by (eapply lookup_fflat_Some_In; eauto).
      pose proof (fdel_flat r F rnone x Hnd HxF') as Heq. fold F' in Heq. rewrite Hl' in Heq.
      assert (HxF : In x (frefs F)) by (apply HinF' in HxF'; tauto).
      destruct (lookup_fflat_in rnone F x HxF) as [i Hi]. rewrite Hi in Heq. cbn [option_map] in Heq.
      exists i. split; [rewrite Hlk; exact Hi|]. injection Heq as ->. reflexivity.
    - exact Hg2.
    - intros Hi. apply HinF' in Hi. tauto.
    - reflexivity. }
  (* re-parenting r and unlinking it from its former parent *)
  set (d0 := mkDom (upd r (set_parent ir dest) (d_insts d)) (d_root d) (d_uids d)).
  assert (Hd1 : exists d1,
    (if N.eqb p rnone then Ok d0 else of_opt (unlink_child d0 p r)) = Ok d1 /\
    d_root d1 = d_root d /\ d_uids d1 = d_uids d /\ NoDup (keys (d_insts d1)) /\
    lookup r (d_insts d1) = Some (set_parent ir dest) /\
    (forall x, In x (trefs sub) -> x <> r -> lookup x (d_insts d1) = lookup x (tflat p sub)) /\
    (forall x, ~ In x (trefs sub) -> lookup x (d_insts d1) = lookup x (flat_map (tflat rnone) F'))).
  { destruct (N.eqb p rnone) eqn:Ep.
    - apply N.eqb_eq in Ep. exists d0. split; [reflexivity|]. split; [reflexivity|].
      split; [reflexivity|]. split; [now apply NoDup_keys_upd|]. cbn [d0 d_insts].
      split; [apply lookup_upd_eq|]. split.
      + intros x Hx Hxr. rewrite lookup_upd_neq by exact Hxr. rewrite Hlk. now apply Hsubl.
      + intros x Hx. rewrite lookup_upd_neq by (intros ->; contradiction). rewrite Hlk. unfold aflat. fold F.
        destruct (N.eq_dec x p) as [->|Hne].
        * rewrite Ep. rewrite !lookup_fflat_notin; [reflexivity|exact HnoneF'|exact Hnone].
        * symmetry. now apply Hdelframe.
    - apply N.eqb_neq in Ep. destruct Hpin as [Hpin|Hpin]; [contradiction|].
      destruct (lookup_fflat_in rnone F p Hpin) as [pi Hpi].
      unfold unlink_child. cbn [d0 d_insts d_root d_uids].
      rewrite (lookup_upd_neq r p _ _ Hpr), Hlk. unfold aflat. fold F. rewrite Hpi. cbn [of_opt].
      eexists. split; [reflexivity|]. cbn [d_root d_uids d_insts].
      split; [reflexivity|]. split; [reflexivity|].
      split; [apply NoDup_keys_upd; now apply NoDup_keys_upd|].
      split; [|split].
      + rewrite lookup_upd_neq by (intros Heq; now apply Hpr). apply lookup_upd_eq.
      + intros x Hx Hxr. rewrite lookup_upd_neq by (intros ->; contradiction).
        rewrite lookup_upd_neq by exact Hxr. rewrite Hlk. now apply Hsubl.
      + intros x Hx. destruct (N.eq_dec x p) as [->|Hne].
        * rewrite lookup_upd_eq. symmetry. now apply Hdelp.
        * rewrite lookup_upd_neq by exact Hne. rewrite lookup_upd_neq by (intros ->; contradiction).
          rewrite Hlk. unfold aflat. fold F. symmetry. now apply Hdelframe. }
  destruct Hd1 as [d1 [Hstep [Hroot1 [Huids1 [Hkeys1 [Hr1 [Hin1 Hout1]]]]]]].
  (* linking r under dest *)
  destruct (lookup_fflat_in rnone F' dest Hg2) as [di Hdi].
  assert (Hdi1 : lookup dest (d_insts d1) = Some di) by (rewrite Hout1 by exact Hdestsub; exact Hdi).
  set (d2 := mkDom (upd dest (set_children di (i_children di ++ [r])) (d_insts d1)) (d_root d1) (d_uids d1)).
  assert (Hpush : push_child d1 dest r = Some d2) by (unfold push_child; rewrite Hdi1; reflexivity).
  assert (Hdisj : forall y, In y (trefs sub) -> ~ In y (frefs F')).
  { intros y Hy Hi. apply HinF' in Hi. tauto. }
  exists d2. split.
  - assert (Hg1' : N.eqb r (d_root d) = false) by (rewrite Hroot; exact Hg1).
    unfold dom_transfer_within. rewrite Hg1', Hanc. cbn [rbind]. rewrite Hlr.
    cbv beta iota zeta. rewrite Hirp. fold d0. rewrite Hstep. cbn [rbind]. rewrite Hpush. reflexivity.
  - unfold Rep. cbn [a_trees a_root]. fold F. fold F'.
    split; [|split; [|split; [|split; [|split; [|split; [|split]]]]]].
    + intros x. unfold aflat. cbn [a_trees d2 d_insts].
      rewrite (fgraft_flat_node dest sub F' rnone x Hg2 Hdestnone Hnd' Hdisj).
      destruct (mem x (frefs F')) eqn:Em.
      * apply mem_In in Em. assert (Hxs : ~ In x (trefs sub)) by (apply HinF' in Em; tauto).
        unfold graft_entry. destruct (N.eqb x dest) eqn:Ex.
        -- apply N.eqb_eq in Ex. subst x. rewrite lookup_upd_eq, Hdi, Hsubroot. reflexivity.
        -- apply N.eqb_neq in Ex. rewrite lookup_upd_neq by exact Ex.
           rewrite option_map_id. now apply Hout1.
      * apply mem_false_In in Em.
        assert (Hxd : x <> dest) by (intros ->; contradiction).
        rewrite lookup_upd_neq by exact Hxd.
        rewrite (lookup_tflat_reparent p dest sub x).
        destruct (in_dec N.eq_dec x (trefs sub)) as [Hi|Hn].
        -- destruct (N.eq_dec x r) as [->|Hxr].
           ++ rewrite Hr1. rewrite <- (Hsubl r Hrin), Hir, Hsubroot, N.eqb_refl. reflexivity.
           ++ rewrite (Hin1 x Hi Hxr). rewrite Hsubroot.
              apply N.eqb_neq in Hxr. rewrite Hxr. symmetry. apply option_map_id.
        -- rewrite (Hout1 x Hn). rewrite (lookup_fflat_notin rnone F' x Em).
           rewrite (lookup_tflat_notin p sub x Hn). reflexivity.
    + eapply Permutation_NoDup; [apply Permutation_sym; eapply frefs_move_perm; eauto|exact Hnd].
    + intros Hi. apply Hnone. eapply Permutation_in; [eapply frefs_move_perm; eauto|exact Hi].
    + cbn [d2 d_root]. rewrite Hroot1. exact Hroot.
    + rewrite map_troot_fgraft. apply N.eqb_neq in Hdestnone. rewrite Hdestnone.
      unfold F'. rewrite map_troot_fdel. apply retain_ne_In. split; [exact Hrootin|].
      intros Heq. rewrite Heq, N.eqb_refl in Hg1. discriminate.
    + intros u. cbn [d2 d_uids]. rewrite Huids1, Huids. apply eq_true_iff_eq. rewrite !mem_In. split.
      * apply Permutation_in. apply Permutation_sym. eapply fuids_move_perm; eauto.
      * apply Permutation_in. eapply fuids_move_perm; eauto.
    + eapply Permutation_NoDup; [apply Permutation_sym; eapply fuids_move_perm; eauto|exact Hunodup].
    + cbn [d2 d_insts]. now apply NoDup_keys_upd.
Qed.

Print Assumptions move_within_refines.
