(* InternThreads.v — thread-level counting invariant and progress for the intern table model
   (Model/Intern.v, property C18).
     [TInv]: the strong count of every buffer is the number of handle slots (over all threads)
     holding it, and the pending clean-ups of the threads are exactly [pend] of the global state.
     It holds initially and is preserved by every [tstep] (either clean-up policy); under it a
     thread that has a pending clean-up, or whose next instruction names slots it holds, can
     always take its step.  For slot-linear programs (checkable predicate [lin]) every unfinished
     thread is in that situation, so no schedule deadlocks or panics. *)
From RbxVerif Require Import Intern InternFacts.
From Coq Require Import List Arith Lia Bool Permutation.
Import ListNotations.

Ltac eqb_cases x y E :=
  destruct (Nat.eqb x y) eqn:E; [apply Nat.eqb_eq in E | apply Nat.eqb_neq in E].

(* ---- counting ---- *)

(* number of slots of one thread holding buffer b *)
Fixpoint slot_count (b : nat) (l : list (nat * nat)) : nat :=
  match l with
  | [] => 0
  | (_, b') :: r => (if Nat.eqb b b' then 1 else 0) + slot_count b r
  end.

(* number of slots over all threads holding buffer b *)
Fixpoint held (b : nat) (ts : list thr) : nat :=
  match ts with
  | [] => 0
  | t :: r => slot_count b (t_slots t) + held b r
  end.

Definition pend_of (t : thr) : list nat :=
  match t_pend t with Some b => [b] | None => [] end.

(* the pending clean-ups of all threads *)
Fixpoint pends (ts : list thr) : list nat :=
  match ts with
  | [] => []
  | t :: r => pend_of t ++ pends r
  end.

Definition TInv (s : tst) : Prop :=
  (forall b, cnt (t_g s) b = held b (t_thrs s)) /\
  Permutation (pends (t_thrs s)) (pend (t_g s)).

(* ---- slots ---- *)

Lemma slot_get_count k l b :
  slot_get k l = Some b ->
  forall b0, slot_count b0 l = (if Nat.eqb b0 b then 1 else 0) + slot_count b0 (slot_del k l).
Proof.
  induction l as [|[k' b'] l IH]; cbn [slot_get slot_del]; intros Hg b0; [discriminate Hg|].
  destruct (Nat.eqb k k').
  - injection Hg as Hg. subst b'. cbn [slot_count]. reflexivity.
  - cbn [slot_count]. rewrite (IH Hg b0). lia.
Qed.

Lemma slot_get_held k l b : slot_get k l = Some b -> slot_count b l > 0.
Proof.
  intros Hg. rewrite (slot_get_count _ _ _ Hg b). rewrite Nat.eqb_refl. lia.
Qed.

(* ---- replacing one thread ---- *)

Lemma held_set_nth ts tid t t' b :
  nth_error ts tid = Some t ->
  held b (set_nth_thr tid t' ts) + slot_count b (t_slots t) = held b ts + slot_count b (t_slots t').
Proof.
  revert tid. induction ts as [|x ts IH]; intros tid Hn.
  - destruct tid; discriminate Hn.
  - destruct tid as [|tid]; cbn [nth_error] in Hn; cbn [set_nth_thr held].
    + injection Hn as Hn. subst x. lia.
    + specialize (IH tid Hn). lia.
Qed.

Lemma held_ge ts tid t b : nth_error ts tid = Some t -> slot_count b (t_slots t) <= held b ts.
Proof.
  revert tid. induction ts as [|x ts IH]; intros tid Hn.
  - destruct tid; discriminate Hn.
  - destruct tid as [|tid]; cbn [nth_error] in Hn; cbn [held].
    + injection Hn as Hn. subst x. lia.
    + specialize (IH tid Hn). lia.
Qed.

Lemma pends_set_nth ts tid t t' :
  nth_error ts tid = Some t ->
  exists l1 l2, pends ts = l1 ++ pend_of t ++ l2 /\
                pends (set_nth_thr tid t' ts) = l1 ++ pend_of t' ++ l2.
Proof.
  revert tid. induction ts as [|x ts IH]; intros tid Hn.
  - destruct tid; discriminate Hn.
  - destruct tid as [|tid]; cbn [nth_error] in Hn; cbn [set_nth_thr pends].
    + injection Hn as Hn. subst x. exists [], (pends ts). split; reflexivity.
    + destruct (IH tid Hn) as (l1 & l2 & H1 & H2).
      exists (pend_of x ++ l1), l2. rewrite H1, H2. rewrite <- !app_assoc. split; reflexivity.
Qed.

Lemma pends_in ts tid t b : nth_error ts tid = Some t -> t_pend t = Some b -> In b (pends ts).
Proof.
  intros Hn Hp. destruct (pends_set_nth ts tid t t Hn) as (l1 & l2 & H1 & _).
  rewrite H1. unfold pend_of. rewrite Hp. apply in_or_app. right. left. reflexivity.
Qed.

(* ---- permutations and remove1 ---- *)

Lemma perm_remove1 b l : In b l -> Permutation l (b :: remove1 b l).
Proof.
  induction l as [|a l IH]; cbn [remove1]; intros Hin; [contradiction|].
  eqb_cases a b E.
  - subst a. apply Permutation_refl.
  - destruct Hin as [Heq|Hin]; [contradiction|].
    eapply Permutation_trans; [apply perm_skip; apply IH; exact Hin|apply perm_swap].
Qed.

Lemma perm_cons_remove1 b l p : Permutation (b :: l) p -> Permutation l (remove1 b p).
Proof.
  intros HP. assert (Hin : In b p) by (eapply Permutation_in; [exact HP|left; reflexivity]).
  apply Permutation_cons_inv with (a := b).
  eapply Permutation_trans; [exact HP|apply perm_remove1; exact Hin].
Qed.

(* ---- the effect of each abstract step on counts and pending list ---- *)

Lemma step_new_eff fixed g h g' :
  Wf g -> step fixed g (New h) = Some g' ->
  pend g' = pend g /\
  forall b0, cnt g' b0 = (if Nat.eqb b0 (new_buf g h) then 1 else 0) + cnt g b0.
Proof.
  intros (W1 & _) Hs. cbn [step] in Hs. unfold new_buf.
  assert (Hz : cnt g (next g) = 0).
  { destruct (cnt g (next g)) as [|n] eqn:E; [reflexivity|].
    assert (Hlt : next g < next g) by (apply W1; lia). lia. }
  assert (Hfresh : forall g1,
            g1 = mkSt (fupd (table g) h (Some (next g))) (fupd (hashof g) (next g) h)
                      (fupd (cnt g) (next g) 1) (pend g) (S (next g)) ->
            pend g1 = pend g /\
            forall b0, cnt g1 b0 = (if Nat.eqb b0 (next g) then 1 else 0) + cnt g b0).
  { intros g1 Hg1. subst g1. cbn [pend cnt]. split; [reflexivity|].
    intros b0. unfold fupd. eqb_cases b0 (next g) E; [subst b0; lia|lia]. }
  destruct (table g h) as [b|].
  - destruct (alive g b); injection Hs as Hs.
    + subst g'. cbn [pend cnt]. split; [reflexivity|].
      intros b0. unfold fupd. eqb_cases b0 b E; [subst b0; lia|lia].
    + apply Hfresh. symmetry. exact Hs.
  - injection Hs as Hs. apply Hfresh. symmetry. exact Hs.
Qed.

Lemma step_clone_eff fixed g b g' :
  step fixed g (Clone b) = Some g' ->
  pend g' = pend g /\
  forall b0, cnt g' b0 = (if Nat.eqb b0 b then 1 else 0) + cnt g b0.
Proof.
  intros Hs. cbn [step] in Hs. destruct (alive g b); [|discriminate Hs].
  injection Hs as Hs. subst g'. cbn [pend cnt]. split; [reflexivity|].
  intros b0. unfold fupd. eqb_cases b0 b E; [subst b0; lia|lia].
Qed.

Lemma step_dropA_eff fixed g b g' :
  step fixed g (DropA b) = Some g' ->
  pend g' = (if Nat.eqb (cnt g b) 1 then [b] else []) ++ pend g /\
  forall b0, cnt g' b0 + (if Nat.eqb b0 b then 1 else 0) = cnt g b0.
Proof.
  intros Hs. cbn [step] in Hs.
  destruct (cnt g b) as [|[|n]] eqn:Ec; [discriminate Hs| |];
    injection Hs as Hs; subst g'; cbn [pend cnt]; (split; [reflexivity|]);
    intros b0; unfold fupd; (eqb_cases b0 b E; [subst b0; lia|lia]).
Qed.

Lemma step_dropB_eff fixed g b g' :
  step fixed g (DropB b) = Some g' ->
  pend g' = remove1 b (pend g) /\ forall b0, cnt g' b0 = cnt g b0.
Proof.
  intros Hs. cbn [step] in Hs. destruct (existsb (Nat.eqb b) (pend g)); [|discriminate Hs].
  injection Hs as Hs. subst g'. cbn [pend cnt]. split; [reflexivity|]. intros b0. reflexivity.
Qed.

(* ---- TInv holds initially and is preserved by every thread step ---- *)

Lemma tinv_init progs : TInv (tinit progs).
Proof.
  unfold TInv, tinit; cbn [t_g t_thrs]. split.
  - intros b. induction progs as [|p progs IH]; cbn [List.map held t_slots slot_count].
    + reflexivity.
    + rewrite <- IH. reflexivity.
  - replace (pends (List.map (fun p => mkThr p [] None) progs)) with (@nil nat).
    + apply Permutation_refl.
    + induction progs as [|p progs IH]; cbn [List.map pends]; [reflexivity|].
      rewrite <- IH. reflexivity.
Qed.

Lemma tinv_step : forall fixed s tid s',
  Wf (t_g s) -> TInv s -> tstep fixed s tid = Some s' -> TInv s'.
Proof.
  intros fixed s tid s' HW (HC & HP) Ht. unfold tstep in Ht.
  destruct (nth_error (t_thrs s) tid) as [t|] eqn:En; [|discriminate Ht].
  destruct (next_op (t_g s) t) as [[o t']|] eqn:Eo; [|discriminate Ht].
  destruct (step fixed (t_g s) o) as [g'|] eqn:Es; [|discriminate Ht].
  injection Ht as Ht. subst s'. unfold TInv; cbn [t_g t_thrs].
  destruct (pends_set_nth _ _ _ t' En) as (l1 & l2 & Hp1 & Hp2).
  assert (HH : forall b, held b (set_nth_thr tid t' (t_thrs s)) + slot_count b (t_slots t)
                         = held b (t_thrs s) + slot_count b (t_slots t'))
    by (intros b; apply held_set_nth; exact En).
  rewrite Hp2. rewrite Hp1 in HP. clear Hp1 Hp2.
  unfold next_op in Eo. unfold pend_of in HP. unfold pend_of.
  destruct (t_pend t) as [pb|] eqn:Ep.
  - (* pending clean-up *)
    injection Eo as Eo1 Eo2. subst o t'. cbn [t_pend t_slots] in *.
    destruct (step_dropB_eff _ _ _ _ Es) as (Hpend & Hcnt). split.
    + intros b. rewrite Hcnt, HC. specialize (HH b). lia.
    + rewrite Hpend. cbn [app] in *. apply perm_cons_remove1.
      eapply Permutation_trans; [|exact HP]. apply Permutation_middle.
  - destruct (t_prog t) as [|[c k|src dst|k] rest] eqn:Eprog; [discriminate Eo| | |].
    + (* INew *)
      injection Eo as Eo1 Eo2. subst o t'. cbn [t_pend t_slots slot_count] in *.
      destruct (step_new_eff _ _ _ _ HW Es) as (Hpend & Hcnt). split.
      * intros b. rewrite Hcnt, HC. specialize (HH b). lia.
      * rewrite Hpend. exact HP.
    + (* IClone *)
      destruct (slot_get src (t_slots t)) as [b1|] eqn:Eg; [|discriminate Eo].
      injection Eo as Eo1 Eo2. subst o t'. cbn [t_pend t_slots slot_count] in *.
      destruct (step_clone_eff _ _ _ _ Es) as (Hpend & Hcnt). split.
      * intros b. rewrite Hcnt, HC. specialize (HH b). lia.
      * rewrite Hpend. exact HP.
    + (* IDrop *)
      destruct (slot_get k (t_slots t)) as [b1|] eqn:Eg; [|discriminate Eo].
      injection Eo as Eo1 Eo2. subst o t'. cbn [t_pend t_slots] in *.
      destruct (step_dropA_eff _ _ _ _ Es) as (Hpend & Hcnt). split.
      * intros b. specialize (Hcnt b). specialize (HH b).
        pose proof (slot_get_count _ _ _ Eg b) as Hsc. rewrite HC in Hcnt. lia.
      * rewrite Hpend. destruct (Nat.eqb (cnt (t_g s) b1) 1); cbn [app] in *.
        -- apply Permutation_sym. apply Permutation_cons_app. apply Permutation_sym. exact HP.
        -- exact HP.
Qed.

Lemma tinv_threads_run : forall fixed sched s0 s,
  Wf (t_g s0) -> TInv s0 -> trun fixed s0 sched = Some s -> TInv s.
Proof.
  intros fixed. induction sched as [|tid sched IH]; cbn [trun]; intros s0 s HW H0 Hr.
  - injection Hr as Hr. subst s. exact H0.
  - destruct (tstep fixed s0 tid) as [s1|] eqn:E; [|discriminate Hr].
    destruct (tstep_is_step _ _ _ _ E) as (o & Ho).
    eapply IH; [eapply wf_step; [exact HW|exact Ho]|eapply tinv_step; [exact HW|exact H0|exact E]|exact Hr].
Qed.

Lemma tinv_reachable_threads : forall fixed progs sched s,
  trun fixed (tinit progs) sched = Some s -> TInv s.
Proof.
  intros fixed progs sched s Hr. eapply tinv_threads_run; [|apply tinv_init|exact Hr].
  cbn [tinit t_g]. exact wf_init.
Qed.

(* ---- progress ---- *)

(* the thread has a pending clean-up, or its next instruction names slots it holds *)
Definition ready (t : thr) : Prop :=
  match t_pend t with
  | Some _ => True
  | None =>
      match t_prog t with
      | [] => False
      | INew _ _ :: _ => True
      | IClone src _ :: _ => slot_get src (t_slots t) <> None
      | IDrop k :: _ => slot_get k (t_slots t) <> None
      end
  end.

Lemma tstep_progress : forall fixed s tid t,
  TInv s -> nth_error (t_thrs s) tid = Some t -> ready t -> tstep fixed s tid <> None.
Proof.
  intros fixed s tid t (HC & HP) En Hr. unfold tstep. rewrite En.
  assert (Hlive : forall k b, slot_get k (t_slots t) = Some b -> alive (t_g s) b = true).
  { intros k b Hg. apply alive_pos. rewrite HC.
    pose proof (slot_get_held _ _ _ Hg) as H1. pose proof (held_ge _ _ _ b En) as H2. lia. }
  unfold ready in Hr. unfold next_op.
  destruct (t_pend t) as [pb|] eqn:Ep.
  - assert (Hin : In pb (pend (t_g s))).
    { eapply Permutation_in; [exact HP|]. eapply pends_in; [exact En|exact Ep]. }
    destruct (step fixed (t_g s) (DropB pb)) as [g'|] eqn:Es; [discriminate|].
    exfalso. exact (dropB_enabled fixed _ _ Hin Es).
  - destruct (t_prog t) as [|[c k|src dst|k] rest]; [contradiction| | |].
    + destruct (step fixed (t_g s) (New c)) as [g'|] eqn:Es; [discriminate|].
      exfalso. exact (new_enabled fixed _ _ Es).
    + destruct (slot_get src (t_slots t)) as [b|] eqn:Eg; [|exfalso; apply Hr; reflexivity].
      destruct (step fixed (t_g s) (Clone b)) as [g'|] eqn:Es; [discriminate|].
      exfalso. exact (clone_enabled fixed _ _ (Hlive _ _ Eg) Es).
    + destruct (slot_get k (t_slots t)) as [b|] eqn:Eg; [|exfalso; apply Hr; reflexivity].
      destruct (step fixed (t_g s) (DropA b)) as [g'|] eqn:Es; [discriminate|].
      exfalso. exact (dropA_enabled fixed _ _ (Hlive _ _ Eg) Es).
Qed.

(* ---- slot-linear programs: a checkable predicate ---- *)

Definition has (k : nat) (ks : list nat) : bool := existsb (Nat.eqb k) ks.

(* [lin ks p]: run from a thread holding exactly the slots ks, every destination slot of p is
   fresh and every source / dropped slot is held *)
Fixpoint lin (ks : list nat) (p : list iop) : bool :=
  match p with
  | [] => true
  | INew _ k :: r => negb (has k ks) && lin (k :: ks) r
  | IClone src k :: r => has src ks && negb (has k ks) && lin (k :: ks) r
  | IDrop k :: r => has k ks && lin (remove1 k ks) r
  end.

Definition LinT (t : thr) : Prop := lin (List.map fst (t_slots t)) (t_prog t) = true.

Lemma has_slot_get k l : has k (List.map fst l) = true -> slot_get k l <> None.
Proof.
  unfold has. induction l as [|[k' b'] l IH]; cbn [List.map fst existsb slot_get]; intros H.
  - discriminate H.
  - destruct (Nat.eqb k k'); [discriminate|]. apply IH. exact H.
Qed.

Lemma keys_slot_del k l : List.map fst (slot_del k l) = remove1 k (List.map fst l).
Proof.
  induction l as [|[k' b'] l IH]; cbn [List.map fst slot_del remove1]; [reflexivity|].
  rewrite (Nat.eqb_sym k' k). destruct (Nat.eqb k k'); [reflexivity|].
  cbn [List.map fst]. rewrite IH. reflexivity.
Qed.

Lemma lint_ready t : LinT t -> t_pend t <> None \/ t_prog t <> [] -> ready t.
Proof.
  unfold LinT, ready. intros HL Hnf. destruct (t_pend t) as [pb|]; [exact I|].
  destruct (t_prog t) as [|[c k|src dst|k] rest]; cbn [lin] in HL.
  - destruct Hnf as [Hnf|Hnf]; apply Hnf; reflexivity.
  - exact I.
  - apply andb_prop in HL. destruct HL as [HL _]. apply andb_prop in HL. destruct HL as [HL _].
    apply has_slot_get. exact HL.
  - apply andb_prop in HL. destruct HL as [HL _]. apply has_slot_get. exact HL.
Qed.

Lemma lint_next g t o t' : LinT t -> next_op g t = Some (o, t') -> LinT t'.
Proof.
  unfold LinT, next_op. intros HL Eo. destruct (t_pend t) as [pb|].
  - injection Eo as Eo1 Eo2. subst o t'. cbn [t_prog t_slots]. exact HL.
  - destruct (t_prog t) as [|[c k|src dst|k] rest]; [discriminate Eo| | |]; cbn [lin] in HL.
    + injection Eo as Eo1 Eo2. subst o t'. cbn [t_prog t_slots List.map fst].
      apply andb_prop in HL. apply HL.
    + destruct (slot_get src (t_slots t)) as [b|]; [|discriminate Eo].
      injection Eo as Eo1 Eo2. subst o t'. cbn [t_prog t_slots List.map fst].
      apply andb_prop in HL. apply HL.
    + destruct (slot_get k (t_slots t)) as [b|]; [|discriminate Eo].
      injection Eo as Eo1 Eo2. subst o t'. cbn [t_prog t_slots].
      rewrite keys_slot_del. apply andb_prop in HL. apply HL.
Qed.

Lemma Forall_set_nth (P : thr -> Prop) ts tid t' :
  Forall P ts -> P t' -> Forall P (set_nth_thr tid t' ts).
Proof.
  intros HF Ht'. revert tid. induction HF as [|x ts Hx HF IH]; intros tid; cbn [set_nth_thr].
  - destruct tid; constructor.
  - destruct tid as [|tid]; constructor; [exact Ht'|exact HF|exact Hx|apply IH].
Qed.

Lemma Forall_nth (P : thr -> Prop) ts tid t : Forall P ts -> nth_error ts tid = Some t -> P t.
Proof.
  intros HF Hn. rewrite Forall_forall in HF. apply HF. eapply nth_error_In. exact Hn.
Qed.

Lemma lin_step : forall fixed s tid s',
  Forall LinT (t_thrs s) -> tstep fixed s tid = Some s' -> Forall LinT (t_thrs s').
Proof.
  intros fixed s tid s' HF Ht. unfold tstep in Ht.
  destruct (nth_error (t_thrs s) tid) as [t|] eqn:En; [|discriminate Ht].
  destruct (next_op (t_g s) t) as [[o t']|] eqn:Eo; [|discriminate Ht].
  destruct (step fixed (t_g s) o) as [g'|]; [|discriminate Ht].
  injection Ht as Ht. subst s'. cbn [t_thrs]. apply Forall_set_nth; [exact HF|].
  eapply lint_next; [|exact Eo]. eapply Forall_nth; [exact HF|exact En].
Qed.

Lemma lin_run : forall fixed sched s0 s,
  Forall LinT (t_thrs s0) -> trun fixed s0 sched = Some s -> Forall LinT (t_thrs s).
Proof.
  intros fixed. induction sched as [|tid sched IH]; cbn [trun]; intros s0 s H0 Hr.
  - injection Hr as Hr. subst s. exact H0.
  - destruct (tstep fixed s0 tid) as [s1|] eqn:E; [|discriminate Hr].
    eapply IH; [eapply lin_step; [exact H0|exact E]|exact Hr].
Qed.

Lemma lin_init progs : forallb (lin []) progs = true -> Forall LinT (t_thrs (tinit progs)).
Proof.
  unfold tinit; cbn [t_thrs]. induction progs as [|p progs IH]; cbn [forallb List.map]; intros H.
  - constructor.
  - apply andb_prop in H. destruct H as [Hp Hr]. constructor; [|apply IH; exact Hr].
    unfold LinT; cbn [t_slots t_prog List.map]. exact Hp.
Qed.

(* No deadlock, no panic: along any schedule of slot-linear programs, under either clean-up
   policy, every thread that is not finished can take its next step. *)
Theorem no_deadlock : forall fixed progs sched s tid t,
  forallb (lin []) progs = true ->
  trun fixed (tinit progs) sched = Some s ->
  nth_error (t_thrs s) tid = Some t ->
  t_pend t <> None \/ t_prog t <> [] ->
  tstep fixed s tid <> None.
Proof.
  intros fixed progs sched s tid t Hlin Hr En Hnf.
  eapply tstep_progress; [eapply tinv_reachable_threads; exact Hr|exact En|].
  apply lint_ready; [|exact Hnf].
  eapply Forall_nth; [|exact En]. eapply lin_run; [apply lin_init; exact Hlin|exact Hr].
Qed.

Print Assumptions tinv_init.
Print Assumptions tinv_step.
Print Assumptions tinv_reachable_threads.
Print Assumptions tstep_progress.
Print Assumptions no_deadlock.
