(* BinRoundTrip.v — property C01, the forest-level theorem: the separately proved layers composed into whole-file
   theorems about  decode_file d p (encode_file ...)  (Model/BinFile.v).
     0. running a chunk list prefix; the reader's skeleton (label / class / children) of an instance table
     1. MILESTONE 1: the tree theorem (forest, order, classes, names)
     2. MILESTONE 2: property values, generic in the column law
     3. MILESTONE 3: instances for properties unknown to the database
     4. the statements for decode_file (bytes), and a worked example on sample_dom *)
From Coq Require Import List Arith Lia Bool NArith ZArith Permutation Sorted.
From RbxVerif Require Import Base Bytes Value Utf8 Db CodecDom BinValues BinFile BytesFacts BaseFacts
  BinValuesFacts BinValuesFacts2 BinColumnsFacts BinFileFacts BinPostorder BinSafe BinStructure BinChunkFacts BinFinish BinFraming.
Import ListNotations.
Open Scope N_scope.
(* both BinStructure and BinChunkFacts define these names; the statements below use BinStructure's *)
Notation sstr_chunks := BinStructure.sstr_chunks.
Notation sstr_payload := BinStructure.sstr_payload.

(* ================================================================ 0. running a list of chunks *)
(* one chunk that is not the END chunk *)
Definition step_chunk (d : db) (p : dec_params) (st : dstate) (c : bytes * bytes) : res dstate :=
  r <- dispatch_chunk d p st (fst c) (snd c) ;;
  match r with Some st' => Ok st' | None => Err E_EOF end.
(* the chunk loop over a list of chunks none of which is END *)
Definition run_chunks (d : db) (p : dec_params) (st : dstate) (cs : list (bytes * bytes)) : res dstate :=
  fold_res (step_chunk d p) st cs.

Lemma fold_res_app {A B} (f : A -> B -> res A) l1 : forall l2 a,
  fold_res f a (l1 ++ l2) = (a' <- fold_res f a l1 ;; fold_res f a' l2).
Proof.
  induction l1 as [|x l1 IH]; intros l2 a; [reflexivity|]. cbn [app fold_res].
  destruct (f a x) as [a1| | |]; cbn [rbind]; [apply IH|reflexivity..].
Qed.

Lemma run_chunks_app d p st a b :
  run_chunks d p st (a ++ b) = (st' <- run_chunks d p st a ;; run_chunks d p st' b).
Proof. apply fold_res_app. Qed.

Lemma run_chunks_app_ok d p st a b st2 :
  run_chunks d p st (a ++ b) = Ok st2 -> exists st1, run_chunks d p st a = Ok st1 /\ run_chunks d p st1 b = Ok st2.
Proof.
  rewrite run_chunks_app. destruct (run_chunks d p st a) as [st1| | |]; cbn [rbind]; try discriminate. eauto.
Qed.

Lemma run_chunks_cons d p st c cs :
  run_chunks d p st (c :: cs) = (st' <- step_chunk d p st c ;; run_chunks d p st' cs).
Proof. reflexivity. Qed.

(* the reader's loop runs through a successful prefix *)
Lemma chunk_list_loop_run d p : forall a st st1 b,
  run_chunks d p st a = Ok st1 -> chunk_list_loop d p st (a ++ b) = chunk_list_loop d p st1 b.
Proof.
  induction a as [|[name data] a IH]; intros st st1 b H.
  - cbn in H. now injection H as <-.
  - rewrite run_chunks_cons in H. unfold step_chunk in H. cbn [fst snd] in H. cbn [app chunk_list_loop].
    destruct (dispatch_chunk d p st name data) as [[st'|]| | |]; cbn [rbind] in H |- *; try discriminate.
    now apply IH.
Qed.

(* ================================================================ 0b. the skeleton of the reader's instance table *)
(* what the PROP chunks leave alone: label, class and child list of every registered instance *)
Definition skel (i : dinst) : N * bytes * list Z := (di_label i, di_class i, di_children i).
Definition skelf (insts : list (Z * dinst)) (k : Z) : option (N * bytes * list Z) := option_map skel (zfind k insts).
Definition same_skel (st st' : dstate) : Prop :=
  ds_sstr st' = ds_sstr st /\ ds_types st' = ds_types st /\ ds_roots st' = ds_roots st /\ ds_next st' = ds_next st /\
  forall k, skelf (ds_insts st') k = skelf (ds_insts st) k.

Lemma same_skel_refl st : same_skel st st.
Proof. repeat split. Qed.
Lemma same_skel_trans a b c : same_skel a b -> same_skel b c -> same_skel a c.
Proof.
  intros (A1 & A2 & A3 & A4 & A5) (B1 & B2 & B3 & B4 & B5). split; [congruence|]. split; [congruence|]. split; [congruence|]. split; [congruence|].
  intros k. now rewrite B5, A5.
Qed.

Lemma skelf_zupd_same k i insts : skelf (zupd k i insts) k = Some (skel i).
Proof. unfold skelf. now rewrite zfind_zupd_same. Qed.
Lemma skelf_zupd_other k k' i insts : k <> k' -> skelf (zupd k i insts) k' = skelf insts k'.
Proof. intros H. unfold skelf. now rewrite zfind_zupd_other. Qed.
Lemma skelf_zupd_keep k i j insts k' : zfind k insts = Some i -> skel j = skel i -> skelf (zupd k j insts) k' = skelf insts k'.
Proof.
  intros Hi Hl. destruct (Z.eq_dec k k') as [<-|Hne]; [|now apply skelf_zupd_other].
  rewrite skelf_zupd_same. unfold skelf. rewrite Hi. cbn. now f_equal.
Qed.

Lemma apply_values_skel {A} (f : dinst -> A -> dinst) : (forall i v, skel (f i v) = skel i) ->
  forall rs vs insts insts', apply_values f insts rs vs = Ok insts' -> forall k, skelf insts' k = skelf insts k.
Proof.
  intros Hf. induction rs as [|r rs IH]; intros vs insts insts' H k; cbn [apply_values] in H; [now injection H as <-|].
  destruct vs as [|v vs]; [now injection H as <-|]. destruct (zfind r insts) as [i|] eqn:E; [|discriminate].
  rewrite (IH _ _ _ H). eapply skelf_zupd_keep; [exact E|apply Hf].
Qed.

Lemma add_property_skel p i name migration v : skel (add_property p i name migration v) = skel i.
Proof.
  unfold add_property. destruct migration as [[nn op]|]; [|reflexivity].
  destruct (existsb _ (di_props i)); [reflexivity|]. destruct (migrate _ _ op v); reflexivity.
Qed.

(* a PROP chunk the reader accepts changes no label, class, child list, nor anything outside the instance table *)
Lemma decode_prop_skel d p st chunk st' : decode_prop d p st chunk = Ok st' -> same_skel st st'.
Proof.
  intros H. unfold decode_prop in H.
  match type of H with match ?x with _ => _ end = _ => destruct x as [[[type_id prop_name] chunk1]| | |] end; try discriminate.
  destruct (lookup type_id (ds_types st)) as [ti|]; [|discriminate].
  destruct chunk1 as [|byte chunk2]; [injection H as <-; apply same_skel_refl|].
  destruct (wire_of_id byte) as [ty|]; [|injection H as <-; apply same_skel_refl]. cbv zeta in H.
  destruct (bytes_eqb prop_name NAME).
  - destruct (run_chunk _ chunk2) as [names| | |]; cbn [rbind] in H; try discriminate.
    destruct (apply_values _ (ds_insts st) _ _) as [insts'| | |] eqn:E; cbn [rbind] in H; try discriminate.
    injection H as <-. repeat split. cbn [ds_insts]. eapply apply_values_skel; [|exact E]. reflexivity.
  - destruct (find_canonical_property d ty (dt_name ti) prop_name) as [[[[name cty] migration]|]| | |]; cbn [rbind] in H; try discriminate.
    2:{ injection H as <-. apply same_skel_refl. }
    destruct (run_chunk _ chunk2) as [vs| | |]; cbn [rbind] in H; try discriminate.
    destruct (apply_values _ (ds_insts st) _ _) as [insts'| | |] eqn:E; cbn [rbind] in H; try discriminate.
    injection H as <-. repeat split. cbn [ds_insts]. eapply apply_values_skel; [|exact E]. intros i v. apply add_property_skel.
Qed.

Lemma run_props_skel d p : forall cs st st', Forall (fun ch => fst ch = CH_PROP) cs ->
  run_chunks d p st cs = Ok st' -> same_skel st st'.
Proof.
  induction cs as [|[name data] cs IH]; intros st st' Hn H.
  - cbn in H. injection H as <-. apply same_skel_refl.
  - inversion Hn as [|? ? Hc Hn']; subst. cbn [fst] in Hc. subst name.
    rewrite run_chunks_cons in H. unfold step_chunk in H. cbn [fst snd] in H. rewrite dispatch_PROP in H.
    destruct (decode_prop d p st data) as [st1| | |] eqn:E; cbn [rbind] in H; try discriminate.
    eapply same_skel_trans; [eapply decode_prop_skel; exact E|]. now apply IH.
Qed.

(* labels stay pairwise distinct and >= 1 along any chunk list *)
Lemma run_chunks_labels d p : forall cs st st', lab_inv st -> run_chunks d p st cs = Ok st' -> lab_inv st'.
Proof.
  induction cs as [|[name data] cs IH]; intros st st' Hinv H.
  - cbn in H. now injection H as <-.
  - rewrite run_chunks_cons in H. unfold step_chunk in H. cbn [fst snd] in H.
    destruct (dispatch_chunk d p st name data) as [[st1|]| | |] eqn:E; cbn [rbind] in H; try discriminate.
    eapply IH; [|exact H]. eapply dispatch_labels; eassumption.
Qed.

(* ================================================================ 1a. the INST phase *)
(* the file referent of a written instance (generate_referents), -1 for anything else *)
Definition fz (st : ser_state) (r : N) : Z := match lookup r (enc_refs st) with Some z => z | None => (-1)%Z end.
(* the written instances in the order of the INST chunks: class by class (BTreeMap order of the class names), each
   class in the order of relevant_instances *)
Definition inst_order (types : list (bytes * type_info)) : list N := flat_map (fun ct => ti_instances (snd ct)) types.

(* what decode_inst_chunk does with the INST chunk of one class *)
Definition reg_class (st : ser_state) (ds : dstate) (ct : bytes * type_info) : dstate :=
  let ids := List.map (fz st) (ti_instances (snd ct)) in
  let r := register_insts (fst ct) ids (ds_insts ds, ds_next ds) in
  mkDS (ds_sstr ds) (upd (ti_id (snd ct)) (mkDT (fst ct) ids) (ds_types ds)) (fst r) (ds_roots ds)
       (ds_next ds + N.of_nat (length ids)).
Definition after_insts (st : ser_state) (ds : dstate) : dstate := fold_left (reg_class st) (ss_types st) ds.

Lemma Forall2_lookup_fz st rs ids :
  Forall2 (fun r z => lookup r (enc_refs st) = Some z) rs ids -> ids = List.map (fz st) rs.
Proof. induction 1 as [|r z rs ids H _ IH]; [reflexivity|]. cbn [List.map]. unfold fz at 1. rewrite H. now f_equal. Qed.

Lemma fz_nth st k r : NoDup (ss_relevant st) -> nth_error (ss_relevant st) k = Some r -> fz st r = Z.of_nat k.
Proof. intros Hnd Hk. unfold fz. now rewrite (enc_refs_nth st k r Hnd Hk). Qed.

Lemma fz_inj st r1 r2 : NoDup (ss_relevant st) -> In r1 (ss_relevant st) -> In r2 (ss_relevant st) ->
  fz st r1 = fz st r2 -> r1 = r2.
Proof.
  intros Hnd H1 H2 E. apply In_nth_error in H1, H2. destruct H1 as [k1 H1], H2 as [k2 H2].
  rewrite (fz_nth st k1 r1 Hnd H1), (fz_nth st k2 r2 Hnd H2) in E. apply Nat2Z.inj in E. subst k2. congruence.
Qed.

Lemma fz_nonneg st r : NoDup (ss_relevant st) -> In r (ss_relevant st) -> (0 <= fz st r)%Z.
Proof. intros Hnd H. apply In_nth_error in H. destruct H as [k H]. rewrite (fz_nth st k r Hnd H). lia. Qed.

Lemma fz_map_NoDup st l : NoDup (ss_relevant st) -> incl l (ss_relevant st) -> NoDup l -> NoDup (List.map (fz st) l).
Proof.
  intros Hnd Hincl Hl. induction Hl as [|x l Hx Hl IH]; [constructor|]. cbn [List.map]. constructor.
  - intros Hin. apply in_map_iff in Hin. destruct Hin as (y & Hy & Hyl). apply Hx.
    assert (y = x); [|now subst]. apply (fz_inj st); auto; apply Hincl; [now right|now left].
  - apply IH. intros y Hy. apply Hincl. now right.
Qed.

Lemma run_inst_chunks d p st : forall types insts ds,
  Forall2 (fun ct ch => exists ids,
             ch = (CH_INST, inst_payload (fst ct) (snd ct) ids) /\
             Forall2 (fun r z => lookup r (enc_refs st) = Some z) (ti_instances (snd ct)) ids /\
             forall lim ds, lim_ok lim (N.of_nat (length (fst ct))) -> lim_ok lim (4 * N.of_nat (length ids)) ->
               decode_inst lim ds (snd ch) =
               Ok (let r := register_insts (fst ct) ids (ds_insts ds, ds_next ds) in
                   mkDS (ds_sstr ds) (upd (ti_id (snd ct)) (mkDT (fst ct) ids) (ds_types ds)) (fst r) (ds_roots ds)
                        (ds_next ds + N.of_nat (length ids)),
                   if ti_service (snd ct) then List.map (fun _ => 1) (ti_instances (snd ct)) else []))
          types insts ->
  dp_lim p = None ->
  run_chunks d p ds insts = Ok (fold_left (reg_class st) types ds).
Proof.
  intros types insts ds HF Hlim. revert ds. induction HF as [|ct ch types insts (ids & -> & Hids & Hdec) _ IH]; intros ds; [reflexivity|].
  rewrite run_chunks_cons. unfold step_chunk. cbn [fst snd]. rewrite dispatch_INST. unfold run_chunk.
  rewrite Hlim. pose proof (Hdec None ds I I) as Hd. cbn [snd] in Hd. rewrite Hd. cbn [rbind fold_left].
  rewrite IH. unfold reg_class. now rewrite (Forall2_lookup_fz _ _ _ Hids).
Qed.

(* the state after the INST chunks of the classes [l], read from [ds] *)
Lemma reg_fold_spec st : forall l ds,
  NoDup (List.map (fz st) (inst_order l)) -> NoDup (type_ids l) ->
  let ds' := fold_left (reg_class st) l ds in
  ds_sstr ds' = ds_sstr ds /\ ds_roots ds' = ds_roots ds /\
  ds_next ds' = ds_next ds + N.of_nat (length (inst_order l)) /\
  (forall c ti, In (c, ti) l -> lookup (ti_id ti) (ds_types ds') = Some (mkDT c (List.map (fz st) (ti_instances ti)))) /\
  (forall id, ~ In id (type_ids l) -> lookup id (ds_types ds') = lookup id (ds_types ds)) /\
  (forall k r, nth_error (inst_order l) k = Some r ->
     exists c ti, In (c, ti) l /\ In r (ti_instances ti) /\
                  zfind (fz st r) (ds_insts ds') = Some (mkDI (ds_next ds + N.of_nat k) c c [] [])) /\
  (forall z, ~ In z (List.map (fz st) (inst_order l)) -> zfind z (ds_insts ds') = zfind z (ds_insts ds)).
Proof.
  induction l as [|[c ti] l IH]; intros ds Hnd Hids.
  - cbv zeta. cbn [fold_left inst_order flat_map length List.map]. split; [reflexivity|]. split; [reflexivity|].
    split; [cbn; lia|]. split; [intros c ti []|]. split; [reflexivity|]. split; [intros [|k] r H; discriminate|reflexivity].
  - cbv zeta. cbn [fold_left]. unfold inst_order in Hnd. cbn [flat_map snd] in Hnd. fold (inst_order l) in Hnd. rewrite map_app in Hnd.
    unfold type_ids in Hids. cbn [List.map snd] in Hids. fold (type_ids l) in Hids. apply NoDup_cons_iff in Hids. destruct Hids as [Hid Hids].
    pose proof (NoDup_app_left _ _ Hnd) as Hnd1. pose proof (NoDup_app_right _ _ Hnd) as Hnd2.
    set (ds1 := reg_class st ds (c, ti)).
    destruct (IH ds1 Hnd2 Hids) as (I1 & I2 & I3 & I4 & I5 & I6 & I7). clear IH.
    set (ids := List.map (fz st) (ti_instances ti)) in *.
    assert (E1 : ds_next ds1 = ds_next ds + N.of_nat (length (ti_instances ti))).
    { unfold ds1, reg_class. cbn [ds_next snd]. now rewrite map_length. }
    assert (E2 : ds_insts ds1 = fst (register_insts c ids (ds_insts ds, ds_next ds))) by reflexivity.
    assert (E3 : ds_types ds1 = upd (ti_id ti) (mkDT c ids) (ds_types ds)) by reflexivity.
    unfold inst_order. cbn [flat_map snd]. fold (inst_order l).
    split; [rewrite I1; reflexivity|]. split; [rewrite I2; reflexivity|].
    split; [rewrite I3, E1, app_length; lia|]. split; [|split; [|split]].
    + intros c' ti' [[= <- <-]|Hin]; [|now apply I4].
      rewrite I5 by exact Hid. rewrite E3. apply lookup_upd_eq.
    + intros id Hni. cbn [List.map snd] in Hni. rewrite I5 by (intros H; apply Hni; now right).
      rewrite E3. apply lookup_upd_neq. intros ->. apply Hni. now left.
    + intros k r Hk. destruct (Nat.lt_ge_cases k (length (ti_instances ti))) as [Hlt|Hge].
      * rewrite nth_error_app1 in Hk by exact Hlt. exists c, ti. split; [now left|]. split; [eapply nth_error_In; eauto|].
        rewrite I7.
        -- rewrite E2. apply register_find; [exact Hnd1|]. unfold ids. now rewrite nth_error_map, Hk.
        -- intros Hin. apply (NoDup_app_not _ _ (fz st r) Hnd); [|exact Hin]. apply in_map. eapply nth_error_In; eauto.
      * rewrite nth_error_app2 in Hk by exact Hge. destruct (I6 _ _ Hk) as (c' & ti' & Hin & Hr & Hz).
        exists c', ti'. split; [now right|]. split; [exact Hr|]. rewrite Hz, E1. do 2 f_equal. lia.
    + intros z Hz. rewrite map_app in Hz. rewrite I7 by (intros H; apply Hz, in_or_app; now right).
      rewrite E2. apply register_other. intros H. apply Hz, in_or_app. now left.
Qed.

(* ================================================================ 1b. the encoder's output, in one place *)
Definition class_ok (dom : cdom) : Prop :=
  Forall (fun i => Utf8.utf8_valid (i_class i) = true /\ N.of_nat (length (i_class i)) < 2 ^ 32) dom.

Definition inst_chunk_reads (st : ser_state) (ct : bytes * type_info) (ch : bytes * bytes) : Prop :=
  exists ids,
    ch = (CH_INST, inst_payload (fst ct) (snd ct) ids) /\
    Forall2 (fun r z => lookup r (enc_refs st) = Some z) (ti_instances (snd ct)) ids /\
    forall lim ds, lim_ok lim (N.of_nat (length (fst ct))) -> lim_ok lim (4 * N.of_nat (length ids)) ->
      decode_inst lim ds (snd ch) =
      Ok (let r := register_insts (fst ct) ids (ds_insts ds, ds_next ds) in
          mkDS (ds_sstr ds) (upd (ti_id (snd ct)) (mkDT (fst ct) ids) (ds_types ds)) (fst r) (ds_roots ds)
               (ds_next ds + N.of_nat (length ids)),
          if ti_service (snd ct) then List.map (fun _ => 1) (ti_instances (snd ct)) else []).

Definition prnt_chunk_of (dom : cdom) (rel : list N) : bytes * bytes :=
  (CH_PRNT, prnt_payload (N.of_nat (length rel)) (prnt_objs rel) (prnt_parents dom rel)).

Lemma enc_parts d ep dom ts e :
  class_ok dom -> Forall (agrees (children_of dom)) ts -> NoDup (flat_map refs ts) ->
  encode_chunks d ep dom (List.map root ts) = Ok e ->
  exists st insts props,
    add_instances d ep dom (List.map root ts) = Ok st /\
    ss_relevant st = flat_map post ts /\ NoDup (ss_relevant st) /\
    (Z.of_nat (length (ss_relevant st)) <= 2147483647)%Z /\
    en_header e = enc_header_of st /\
    en_chunks e = sstr_chunks st ++ insts ++ concat props ++ [prnt_chunk_of dom (ss_relevant st)] /\
    Forall2 (inst_chunk_reads st) (ss_types st) insts /\
    Forall2 (fun ct chs => Forall2 (fun cp ch => prop_chunk ep dom (enc_ctx_of ep st) (snd ct) cp = Ok ch) (ti_props (snd ct)) chs)
            (ss_types st) props.
Proof.
  intros Hdom Hag Hnd H.
  destruct (BinStructure.encode_chunks_inv _ _ _ _ _ H) as (st & insts & props & objs & parents & Hst & Hlen & Hi & Hp & Ho & Hpa & He).
  destruct (enc_relevant_postorder _ _ _ _ _ Hag Hnd Hst) as [Hrel Hndr].
  exists st, insts, props.
  apply BinStructure.map_res_Forall2 in Hp.
  assert (Hp2 : Forall2 (fun ct chs => Forall2 (fun cp ch => prop_chunk ep dom (enc_ctx_of ep st) (snd ct) cp = Ok ch) (ti_props (snd ct)) chs) (ss_types st) props).
  { eapply Forall2_impl'; [|exact Hp]. intros ct chs Hc. cbn beta in Hc. now apply BinStructure.map_res_Forall2 in Hc. }
  assert (Hch : en_chunks e = sstr_chunks st ++ insts ++ concat props ++ [prnt_chunk_of dom (ss_relevant st)]).
  { rewrite He. cbn [en_chunks]. do 3 f_equal. unfold prnt_chunk_of. do 2 f_equal.
    unfold enc_refs in Ho, Hpa. apply objs_numbering in Ho; [|exact Hndr]. apply parents_explicit in Hpa. subst objs parents.
    f_equal. apply len32_small. change (2 ^ 32) with 4294967296. lia. }
  split; [exact Hst|]. split; [exact Hrel|]. split; [exact Hndr|]. split; [exact Hlen|].
  split; [now rewrite He|]. split; [exact Hch|]. split; [|exact Hp2].
  destruct (enc_inst_decodes _ _ _ _ _ Hdom H) as (st' & insts' & Hst' & Hf & HF).
  assert (st' = st) by congruence. subst st'.
  assert (Hin : Forall (fun ch => fst ch = CH_INST) insts).
  { apply BinStructure.map_res_Forall2 in Hi. eapply Forall2_Forall_r; [|exact Hi]. intros a b Hab.
    apply inst_chunk_inv in Hab. destruct Hab as (ids & _ & ->). reflexivity. }
  assert (Hpn : Forall (fun ch => fst ch = CH_PROP) (concat props)).
  { apply Forall_concat. eapply Forall2_Forall_r; [|exact Hp2]. intros ct chs Hc.
    eapply Forall2_Forall_r; [|exact Hc]. intros cp ch. apply prop_chunk_name. }
  assert (Hii : insts' = insts); [|rewrite <- Hii; exact HF].
  rewrite <- Hf, Hch, !filter_app.
  rewrite (filter_none _ (sstr_chunks st)), (filter_all _ insts), (filter_none _ (concat props)).
  - cbn. now rewrite app_nil_r.
  - rewrite Forall_forall in Hpn. intros x Hx. now rewrite (Hpn x Hx).
  - rewrite Forall_forall in Hin. intros x Hx. now rewrite (Hin x Hx).
  - unfold sstr_chunks. destruct (ss_sstr st); intros x []; [subst x; reflexivity|contradiction].
Qed.

(* ================================================================ 1c. the PRNT rows of the writer describe the forest *)
(* the parent field serialize_parents writes for r *)
Definition pz (dom : cdom) (st : ser_state) (r : N) : Z := parent_val dom (enc_refs st) r.

Lemma map_seq_nth {A} (f : A -> Z) : forall l s,
  (forall k x, nth_error l k = Some x -> f x = Z.of_nat (s + k)) -> List.map f l = List.map Z.of_nat (seq s (length l)).
Proof.
  induction l as [|x l IH]; intros s H; [reflexivity|]. cbn [List.map length seq]. f_equal.
  - rewrite (H 0%nat x eq_refl). f_equal. lia.
  - apply IH. intros k y Hk. rewrite (H (S k) y Hk). f_equal. lia.
Qed.

Lemma zip_map {A B C} (f : A -> B) (g : A -> C) l : zip (List.map f l) (List.map g l) = List.map (fun x => (f x, g x)) l.
Proof. induction l as [|x l IH]; [reflexivity|]. cbn [List.map zip]. now rewrite IH. Qed.

Lemma prnt_rows dom st : NoDup (ss_relevant st) ->
  zip (prnt_objs (ss_relevant st)) (prnt_parents dom (ss_relevant st))
  = List.map (fun r => (fz st r, pz dom st r)) (ss_relevant st).
Proof.
  intros Hnd. rewrite <- zip_map. f_equal. unfold prnt_objs. symmetry. apply map_seq_nth.
  intros k x Hk. now apply fz_nth.
Qed.

Lemma find_inst_in dom i : NoDup (List.map i_ref dom) -> In i dom -> find_inst dom (i_ref i) = Some i.
Proof.
  induction dom as [|x dom IH]; intros Hnd Hin; [destruct Hin|]. cbn [List.map] in Hnd. apply NoDup_cons_iff in Hnd.
  destruct Hnd as [Hx Hnd]. cbn [find_inst]. destruct Hin as [->|Hin]; [now rewrite N.eqb_refl|].
  destruct (N.eqb_spec (i_ref x) (i_ref i)) as [E|_]; [|now apply IH].
  exfalso. apply Hx. rewrite E. now apply in_map.
Qed.

(* a child of a written instance names that instance as its parent *)
Lemma pz_child dom st r c : NoDup (List.map i_ref dom) -> r <> 0 -> In c (children_of dom r) -> pz dom st c = fz st r.
Proof.
  intros Hwf Hr Hc. unfold children_of in Hc. apply in_map_iff in Hc. destruct Hc as (i & <- & Hi).
  apply filter_In in Hi. destruct Hi as [Hi Hp]. apply N.eqb_eq in Hp.
  unfold pz, parent_val. rewrite (find_inst_in dom i Hwf Hi), Hp.
  destruct (N.eqb_spec r 0); [contradiction|]. reflexivity.
Qed.

(* a chosen root is written with parent -1 *)
Lemma pz_root dom st ts t :
  Forall (agrees (children_of dom)) ts -> NoDup (flat_map refs ts) -> ss_relevant st = flat_map post ts ->
  In t ts -> pz dom st (root t) = (-1)%Z.
Proof.
  intros Hag Hnd Hrel Ht. unfold pz, parent_val. destruct (find_inst dom (root t)) as [i|] eqn:Hfi; [|reflexivity].
  destruct (N.eqb (i_parent i) 0); [reflexivity|].
  unfold enc_refs. rewrite referent_table_notin; [reflexivity|]. rewrite Hrel. intros Hin.
  apply (root_not_child (children_of dom) ts t (i_parent i) Hag Hnd Ht).
  - eapply Permutation_in; [apply post_perm_refs_forest|exact Hin].
  - now apply parent_child.
Qed.

Lemma parents_ok_tree dom st : NoDup (List.map i_ref dom) ->
  forall t, agrees (children_of dom) t -> ~ In 0 (refs t) ->
  forall par, pz dom st (root t) = par -> WriterRows.parents_ok (fz st) (pz dom st) par t.
Proof.
  intros Hwf.
  apply (tree_ind' (fun t => agrees (children_of dom) t -> ~ In 0 (refs t) ->
                             forall par, pz dom st (root t) = par -> WriterRows.parents_ok (fz st) (pz dom st) par t)).
  intros r cs IH Hag H0 par Hp. apply agrees_unfold in Hag. destruct Hag as [Hk Hcs]. cbn [root] in Hp.
  constructor; [exact Hp|]. rewrite Forall_forall in *. intros c Hc. apply (IH c Hc); [now apply Hcs| |].
  - intros Hin. apply H0. cbn [refs]. right. apply in_flat_map. exists c. auto.
  - apply pz_child; [exact Hwf| |].
    + intros ->. apply H0. now left.
    + rewrite Hk. now apply in_map.
Qed.

Lemma parents_ok_forest dom st ts :
  NoDup (List.map i_ref dom) -> Forall (agrees (children_of dom)) ts -> NoDup (flat_map refs ts) ->
  ~ In 0 (flat_map refs ts) -> ss_relevant st = flat_map post ts ->
  Forall (WriterRows.parents_ok (fz st) (pz dom st) (-1)%Z) ts.
Proof.
  intros Hwf Hag Hnd H0 Hrel. apply Forall_forall. intros t Ht. apply parents_ok_tree; [exact Hwf| | |].
  - rewrite Forall_forall in Hag. now apply Hag.
  - intros Hin. apply H0. apply in_flat_map. exists t. auto.
  - eapply pz_root; eauto.
Qed.

(* a successful SSTR chunk only extends the shared string table *)
Lemma run_sstr_shape d p st ds ds' : run_chunks d p ds (sstr_chunks st) = Ok ds' ->
  exists l, ds' = mkDS (ds_sstr ds ++ l) (ds_types ds) (ds_insts ds) (ds_roots ds) (ds_next ds).
Proof.
  unfold sstr_chunks. destruct (ss_sstr st) as [|s l0].
  - cbn. intros [= <-]. exists []. rewrite app_nil_r. now destruct ds.
  - rewrite run_chunks_cons. unfold step_chunk. cbn [fst snd]. rewrite dispatch_SSTR.
    destruct (run_chunk _ _) as [l| | |]; cbn [rbind]; try discriminate. cbn. intros [= <-]. now exists l.
Qed.

(* ================================================================ 1d. MILESTONE 1: the tree theorem *)
(* position of the first occurrence *)
Fixpoint npos (r : N) (l : list N) : nat :=
  match l with [] => 0%nat | x :: l' => if N.eqb r x then 0%nat else S (npos r l') end.

Lemma npos_nth r l : In r l -> nth_error l (npos r l) = Some r.
Proof.
  induction l as [|x l IH]; intros H; [destruct H|]. cbn [npos]. destruct (N.eqb_spec r x) as [->|Hne]; [reflexivity|].
  cbn [nth_error]. apply IH. destruct H as [->|H]; [contradiction|exact H].
Qed.

Lemma npos_unique r l k : NoDup l -> nth_error l k = Some r -> npos r l = k.
Proof.
  intros Hnd Hk. assert (Hin : In r l) by (eapply nth_error_In; eauto).
  pose proof (npos_nth r l Hin) as Hp. rewrite NoDup_nth_error in Hnd. apply Hnd; [|congruence].
  apply nth_error_Some. congruence.
Qed.

(* the label (new referent) the reader gives the written instance r: instances are numbered from 1 in the order of
   the INST chunks *)
Definition lbl (st : ser_state) (r : N) : N := 1 + N.of_nat (npos r (inst_order (ss_types st))).

Lemma removelast_prefix {A} (a b c : list A) x : removelast (a ++ b ++ c ++ [x]) = a ++ b ++ c.
Proof. rewrite !app_assoc. apply removelast_last. Qed.

Lemma skelf_some insts k s : skelf insts k = Some s -> exists i, zfind k insts = Some i /\ skel i = s.
Proof. unfold skelf. destruct (zfind k insts) as [i|]; [|discriminate]. intros [= <-]. eauto. Qed.

(* the instance table after the SSTR / INST / PROP chunks of a written file *)
Definition registered (dom : cdom) (st : ser_state) (insts : list (Z * dinst)) : Prop :=
  forall r, In r (ss_relevant st) ->
    exists i, zfind (fz st r) insts = Some i /\ di_label i = lbl st r /\ di_class i = class_of dom r /\ di_children i = [].

(* ... and right after the INST chunks: fresh instances named after their class, without properties *)
Definition registered0 (dom : cdom) (st : ser_state) (insts : list (Z * dinst)) : Prop :=
  forall r, In r (ss_relevant st) ->
    zfind (fz st r) insts = Some (mkDI (lbl st r) (class_of dom r) (class_of dom r) [] []).

Lemma registered0_registered dom st insts : registered0 dom st insts -> registered dom st insts.
Proof. intros H r Hr. eexists. split; [exact (H r Hr)|]. repeat split. Qed.

Lemma insts_state d ep dom ts st l :
  add_instances d ep dom (List.map root ts) = Ok st -> NoDup (ss_relevant st) ->
  let stI := after_insts st (mkDS l [] [] [] 1) in
  ds_sstr stI = l /\ ds_roots stI = [] /\ registered0 dom st (ds_insts stI) /\
  (forall z, ~ In z (List.map (fz st) (ss_relevant st)) -> zfind z (ds_insts stI) = None) /\
  NoDup (List.map (fz st) (inst_order (ss_types st))) /\
  (forall c ti, In (c, ti) (ss_types st) ->
     lookup (ti_id ti) (ds_types stI) = Some (mkDT c (List.map (fz st) (ti_instances ti)))).
Proof.
  intros Hst Hndr stI.
  destruct (enc_class_ids _ _ _ _ _ Hst) as (_ & _ & _ & Hndi & _ & Hall & _ & Hperm).
  fold (inst_order (ss_types st)) in Hperm.
  assert (Hndo : NoDup (inst_order (ss_types st))) by (eapply Permutation_NoDup; [symmetry; exact Hperm|exact Hndr]).
  assert (Hndz : NoDup (List.map (fz st) (inst_order (ss_types st)))).
  { apply fz_map_NoDup; [exact Hndr| |exact Hndo]. intros x Hx. eapply Permutation_in; [exact Hperm|exact Hx]. }
  destruct (reg_fold_spec st (ss_types st) (mkDS l [] [] [] 1) Hndz Hndi) as (I1 & I2 & I3 & I4 & I5 & I6 & I7).
  fold (after_insts st (mkDS l [] [] [] 1)) in I1, I2, I3, I4, I5, I6, I7. fold stI in I1, I2, I3, I4, I5, I6, I7.
  split; [exact I1|]. split; [exact I2|]. split; [|split; [|split; [exact Hndz|exact I4]]].
  - intros r Hr. assert (Hin : In r (inst_order (ss_types st))) by (eapply Permutation_in; [symmetry; exact Hperm|exact Hr]).
    pose proof (npos_nth _ _ Hin) as Hk. destruct (I6 _ _ Hk) as (c & ti & Hct & Hrt & Hz).
    rewrite Hz. cbn [ds_next]. unfold lbl.
    destruct (Hall c ti Hct) as (Hf & _ & _). rewrite Hf in Hrt. apply filter_In in Hrt. destruct Hrt as [_ Hoc].
    unfold of_class in Hoc. apply bytes_eqb_eq in Hoc. now rewrite Hoc.
  - intros z Hz. rewrite I7; [reflexivity|]. intros Hin. apply Hz.
    apply in_map_iff in Hin. destruct Hin as (r & <- & Hr). apply in_map. eapply Permutation_in; [exact Hperm|exact Hr].
Qed.

Lemma prefix_state d ep p dom ts st insts props st1 :
  add_instances d ep dom (List.map root ts) = Ok st ->
  NoDup (ss_relevant st) ->
  Forall2 (inst_chunk_reads st) (ss_types st) insts ->
  Forall (fun ch => fst ch = CH_PROP) props ->
  dp_lim p = None ->
  run_chunks d p dstate0 (sstr_chunks st ++ insts ++ props) = Ok st1 ->
  exists l, run_chunks d p dstate0 (sstr_chunks st) = Ok (mkDS l [] [] [] 1) /\
    run_chunks d p (after_insts st (mkDS l [] [] [] 1)) props = Ok st1 /\
    same_skel (after_insts st (mkDS l [] [] [] 1)) st1 /\
    ds_roots st1 = [] /\ registered dom st (ds_insts st1).
Proof.
  intros Hst Hndr HFi Hpn Hlim Hrun.
  apply run_chunks_app_ok in Hrun. destruct Hrun as (stS & HrS & Hrun).
  apply run_chunks_app_ok in Hrun. destruct Hrun as (stI & HrI & HrP).
  destruct (run_sstr_shape _ _ _ _ _ HrS) as (l & HS). cbn in HS. subst stS.
  rewrite (run_inst_chunks d p st _ _ _ HFi Hlim) in HrI. injection HrI as <-. fold (after_insts st (mkDS l [] [] [] 1)) in *.
  pose proof (run_props_skel _ _ _ _ _ Hpn HrP) as Hsk.
  destruct (insts_state d ep dom ts st l Hst Hndr) as (_ & I2 & HregI & _ & _ & _).
  exists l. split; [exact HrS|]. split; [exact HrP|]. split; [exact Hsk|].
  destruct Hsk as (S1 & S2 & S3 & S4 & S5).
  split; [rewrite S3; exact I2|].
  intros r Hr. pose proof (HregI r Hr) as Hz.
  assert (Hs : skelf (ds_insts st1) (fz st r) = Some (lbl st r, class_of dom r, [])) by (rewrite S5; unfold skelf; now rewrite Hz).
  apply skelf_some in Hs. destruct Hs as (i1 & Hz1 & Hs1). exists i1. split; [exact Hz1|].
  unfold skel in Hs1. injection Hs1 as E1 E2 E3. repeat split; assumption.
Qed.

(* the last two chunks: PRNT, END; then finish *)
Lemma prnt_end_finish d p dom ts st st1 :
  NoDup (List.map i_ref dom) -> Forall (agrees (children_of dom)) ts -> NoDup (flat_map refs ts) ->
  ~ In 0 (flat_map refs ts) ->
  ss_relevant st = flat_map post ts -> NoDup (ss_relevant st) -> (Z.of_nat (length (ss_relevant st)) <= 2147483647)%Z ->
  dp_lim p = None -> lab_inv st1 -> ds_roots st1 = [] -> registered dom st (ds_insts st1) ->
  exists out,
    (st2 <- chunk_list_loop d p st1 [prnt_chunk_of dom (ss_relevant st); (CH_END, FILE_FOOTER)] ;; finish p st2) = Ok out /\
    reconstructs (dinst_of (ds_insts st1)) p (List.map (WriterRows.ztree_of (fz st)) ts) out.
Proof.
  intros Hwf Hag Hnd H0 Hrel Hndr Hlen Hlim Hlab Hroots Hreg.
  set (rel := ss_relevant st) in *. set (F := List.map (WriterRows.ztree_of (fz st)) ts).
  assert (Hperm : Permutation rel (flat_map refs ts)) by (rewrite Hrel; apply post_perm_refs_forest).
  assert (HzF : zfrefs F = List.map (fz st) (flat_map refs ts)) by apply WriterRows.zfrefs_ztree_of.
  assert (Hin : forall k, In k (zfrefs F) -> exists r, In r rel /\ k = fz st r).
  { intros k Hk. rewrite HzF in Hk. apply in_map_iff in Hk. destruct Hk as (r & <- & Hr). exists r. split; [|reflexivity].
    eapply Permutation_in; [symmetry; exact Hperm|exact Hr]. }
  assert (HndF : NoDup (zfrefs F)).
  { rewrite HzF. apply fz_map_NoDup; [exact Hndr| |exact Hnd]. intros x Hx. eapply Permutation_in; [symmetry; exact Hperm|exact Hx]. }
  assert (HregF : forall k, In k (zfrefs F) -> exists i, zfind k (ds_insts st1) = Some i /\ di_children i = [] /\ di_label i <> 0).
  { intros k Hk. destruct (Hin k Hk) as (r & Hr & ->). destruct (Hreg r Hr) as (i & Hz & Hl & _ & Hc).
    exists i. split; [exact Hz|]. split; [exact Hc|]. rewrite Hl. unfold lbl. lia. }
  destruct (labels_ok_hyp _ _ (zfrefs F) Hlab HndF) as [Hl1 _].
  { intros k Hk. destruct (HregF k Hk) as (i & Hz & _). rewrite Hz. discriminate. }
  destruct (post_rows_then_finish p (ds_sstr st1) (ds_types st1) (ds_insts st1) (ds_next st1) F HregF Hl1) as (insts' & Hlinks & out & Hfin & Hrec).
  { intros Hm. destruct (Hin _ Hm) as (r & Hr & E). pose proof (fz_nonneg st r Hndr Hr). lia. }
  exists out. split; [|exact Hrec].
  cbn [chunk_list_loop]. unfold prnt_chunk_of. rewrite dispatch_PRNT.
  pose proof (decode_prnt_payload (dp_lim p) st1 (prnt_objs rel) (prnt_parents dom rel)) as Dp.
  rewrite prnt_objs_length in Dp. rewrite Dp; clear Dp.
  - pose proof (prnt_rows dom st Hndr) as Hrows. fold rel in Hrows. rewrite Hroots, Hrows, Hrel.
    rewrite (WriterRows.writer_rows_forest (fz st) (pz dom st) ts (-1)%Z) by (now apply parents_ok_forest).
    fold F. rewrite Hlinks. cbn [rbind fst snd]. rewrite dispatch_END. cbn [rbind]. exact Hfin.
  - now rewrite prnt_parents_length.
  - change (2 ^ 32) with 4294967296. lia.
  - now apply prnt_objs_range.
  - now apply prnt_parents_range.
  - rewrite Hlim. exact I.
Qed.

(* the hypotheses on the encoder's input, shared by all theorems below:
   - referents are unique in the DOM (WeakDom: a HashMap keyed by referent) and 0 is not one (0 = "child of the root");
   - class names are Rust Strings of a length that fits u32;
   - ts are the chosen subtrees (shapes read off children_of), pairwise disjoint *)
Definition input_ok (dom : cdom) (ts : list tree) : Prop :=
  NoDup (List.map i_ref dom) /\ class_ok dom /\
  Forall (agrees (children_of dom)) ts /\ NoDup (flat_map refs ts) /\ ~ In 0 (flat_map refs ts).

(* MILESTONE 1.  The reader is assumed to accept the SSTR / INST / PROP prefix of the written chunk list (this is
   discharged in Milestone 2 from the column laws); st1 is the state it reaches. *)
Theorem tree_roundtrip d ep dom ts e p st1 :
  input_ok dom ts ->
  encode_chunks d ep dom (List.map root ts) = Ok e ->
  dp_lim p = None ->
  run_chunks d p dstate0 (removelast (en_chunks e)) = Ok st1 ->
  exists st out,
    add_instances d ep dom (List.map root ts) = Ok st /\
    decode_chunks d p (en_header e) (en_chunks e ++ [(CH_END, FILE_FOOTER)]) = Ok out /\
    reconstructs (dinst_of (ds_insts st1)) p (List.map (WriterRows.ztree_of (fz st)) ts) out /\
    registered dom st (ds_insts st1).
Proof.
  intros (Hwf & Hdom & Hag & Hnd & H0) He Hlim Hrun.
  destruct (enc_parts _ _ _ _ _ Hdom Hag Hnd He) as (st & insts & props & Hst & Hrel & Hndr & Hlen & Hhdr & Hch & HFi & HFp).
  assert (Hpn : Forall (fun ch => fst ch = CH_PROP) (concat props)).
  { apply Forall_concat. eapply Forall2_Forall_r; [|exact HFp]. intros ct chs Hc.
    eapply Forall2_Forall_r; [|exact Hc]. intros cp ch. apply prop_chunk_name. }
  rewrite Hch, removelast_prefix in Hrun.
  destruct (prefix_state _ _ _ _ _ _ _ _ _ Hst Hndr HFi Hpn Hlim Hrun) as (l & _ & _ & _ & Hroots & Hreg).
  pose proof (run_chunks_labels _ _ _ _ _ lab_inv0 Hrun) as Hlab.
  destruct (prnt_end_finish d p dom ts st st1 Hwf Hag Hnd H0 Hrel Hndr Hlen Hlim Hlab Hroots Hreg) as (out & Hout & Hrec).
  exists st, out. split; [exact Hst|]. split; [|split; [exact Hrec|exact Hreg]].
  unfold decode_chunks. rewrite Hlim.
  destruct (enc_header _ _ _ _ _ He) as (front0 & objs0 & parents0 & _ & _ & _ & Hh). cbv zeta in Hh.
  destruct Hh as (_ & _ & _ & Hdh).
  pose proof (Hdh []) as Hdh0. rewrite app_nil_r in Hdh0. rewrite Hdh0.
  rewrite Hch. replace ((sstr_chunks st ++ insts ++ concat props ++ [prnt_chunk_of dom (ss_relevant st)]) ++ [(CH_END, FILE_FOOTER)])
    with ((sstr_chunks st ++ insts ++ concat props) ++ [prnt_chunk_of dom (ss_relevant st); (CH_END, FILE_FOOTER)])
    by (rewrite <- !app_assoc; reflexivity).
  rewrite (chunk_list_loop_run _ _ _ _ _ _ Hrun). exact Hout.
Qed.
Print Assumptions tree_roundtrip.

(* ================================================================ 2a. PROP chunks as lists of per-instance updates *)
Definition app_upd (i : dinst) (g : dinst -> dinst) : dinst := g i.
Definition idf : dinst -> dinst := fun i => i.

Lemma apply_values_as_updates {A} (f : dinst -> A -> dinst) : forall rs vs insts,
  apply_values f insts rs vs = apply_values app_upd insts rs (List.map (fun v i => f i v) vs).
Proof.
  induction rs as [|r rs IH]; intros vs insts; [reflexivity|]. destruct vs as [|v vs]; [reflexivity|].
  cbn [apply_values List.map]. destruct (zfind r insts) as [i|]; [|reflexivity]. unfold app_upd at 1. apply IH.
Qed.

Fixpoint zpos (z : Z) (l : list Z) : option nat :=
  match l with [] => None | x :: l' => if Z.eqb z x then Some 0%nat else option_map S (zpos z l') end.

Lemma zpos_none z l : ~ In z l -> zpos z l = None.
Proof.
  induction l as [|x l IH]; intros H; [reflexivity|]. cbn [zpos]. destruct (Z.eqb_spec z x) as [->|Hne]; [exfalso; apply H; now left|].
  rewrite IH; [reflexivity|]. intros Hin. apply H. now right.
Qed.

Lemma zpos_nth z : forall l k, NoDup l -> nth_error l k = Some z -> zpos z l = Some k.
Proof.
  induction l as [|x l IH]; intros k Hnd Hk; [destruct k; discriminate|]. apply NoDup_cons_iff in Hnd. destruct Hnd as [Hx Hnd].
  cbn [zpos]. destruct k as [|k]; cbn [nth_error] in Hk.
  - injection Hk as ->. now rewrite Z.eqb_refl.
  - destruct (Z.eqb_spec z x) as [->|Hne]; [exfalso; apply Hx; eapply nth_error_In; eauto|].
    now rewrite (IH k Hnd Hk).
Qed.

(* what a chunk with referent list rs and update list us does to the instance registered under z *)
Definition upd_at (rs : list Z) (us : list (dinst -> dinst)) (z : Z) : dinst -> dinst :=
  match zpos z rs with Some k => nth k us idf | None => idf end.

Lemma option_map_idf (o : option dinst) : option_map idf o = o.
Proof. now destruct o. Qed.

Lemma apply_updates_spec : forall rs us insts, NoDup rs -> (forall r, In r rs -> zfind r insts <> None) ->
  exists insts', apply_values app_upd insts rs us = Ok insts' /\
                 forall z, zfind z insts' = option_map (upd_at rs us z) (zfind z insts).
Proof.
  induction rs as [|r rs IH]; intros us insts Hnd Hreg.
  - exists insts. split; [reflexivity|]. intros z. unfold upd_at. cbn [zpos]. now rewrite option_map_idf.
  - destruct us as [|g us].
    + exists insts. split; [reflexivity|]. intros z. unfold upd_at. destruct (zpos z (r :: rs)) as [k|]; [|now rewrite option_map_idf].
      replace (nth k [] idf) with idf by (now destruct k). now rewrite option_map_idf.
    + apply NoDup_cons_iff in Hnd. destruct Hnd as [Hr Hnd]. cbn [apply_values].
      destruct (zfind r insts) as [i|] eqn:Ei; [|exfalso; apply (Hreg r); [now left|exact Ei]].
      destruct (IH us (zupd r (app_upd i g) insts) Hnd) as (insts' & Hap & Hz).
      { intros r' Hr'. apply zupd_keeps. apply Hreg. now right. }
      exists insts'. split; [exact Hap|]. intros z. rewrite Hz. unfold upd_at. cbn [zpos].
      destruct (Z.eqb_spec z r) as [->|Hne].
      * rewrite zfind_zupd_same, Ei, (zpos_none r rs Hr). reflexivity.
      * rewrite zfind_zupd_other by congruence. destruct (zpos z rs) as [k|]; reflexivity.
Qed.

Lemma upd_at_skel rs us z : Forall (fun g => forall i, skel (g i) = skel i) us -> forall i, skel (upd_at rs us z i) = skel i.
Proof.
  intros HF i. unfold upd_at. destruct (zpos z rs) as [k|]; [|reflexivity].
  destruct (nth_error us k) as [g|] eqn:E.
  - rewrite (nth_error_nth _ _ _ E). rewrite Forall_forall in HF. apply HF. eapply nth_error_In; eauto.
  - apply nth_error_None in E. now rewrite nth_overflow.
Qed.

(* a PROP chunk together with what the reader does with it: the referents of its class, one update per instance *)
Definition task : Type := list Z * list (dinst -> dinst) * (bytes * bytes).
Definition task_ok (d : db) (p : dec_params) (stI : dstate) (t : task) : Prop :=
  let '(rs, us, ch) := t in
  fst ch = CH_PROP /\ NoDup rs /\ (forall r, In r rs -> zfind r (ds_insts stI) <> None) /\
  Forall (fun g => forall i, skel (g i) = skel i) us /\
  forall ds, same_skel stI ds ->
    decode_prop d p ds (snd ch) = (insts' <- apply_values app_upd (ds_insts ds) rs us ;; Ok (with_insts ds insts')).
Definition task_upd (z : Z) (i : dinst) (t : task) : dinst := upd_at (fst (fst t)) (snd (fst t)) z i.

Lemma run_tasks d p stI : forall tasks ds, same_skel stI ds -> Forall (task_ok d p stI) tasks ->
  exists ds1, run_chunks d p ds (List.map snd tasks) = Ok ds1 /\ same_skel stI ds1 /\
    forall z, zfind z (ds_insts ds1) = option_map (fun i => fold_left (task_upd z) tasks i) (zfind z (ds_insts ds)).
Proof.
  induction tasks as [|[[rs us] ch] tasks IH]; intros ds Hsk HF.
  - exists ds. split; [reflexivity|]. split; [exact Hsk|]. intros z. cbn [fold_left]. now destruct (zfind z (ds_insts ds)).
  - inversion HF as [|? ? Ht HF']; subst. destruct Ht as (Hname & Hnd & Hreg & Hus & Hdec).
    destruct (apply_updates_spec rs us (ds_insts ds) Hnd) as (insts' & Hap & Hz).
    { intros r Hr. specialize (Hreg r Hr). destruct Hsk as (_ & _ & _ & _ & S5). specialize (S5 r). unfold skelf in S5.
      destruct (zfind r (ds_insts ds)); [discriminate|]. destruct (zfind r (ds_insts stI)); [discriminate|contradiction]. }
    assert (Hsk' : same_skel stI (with_insts ds insts')).
    { destruct Hsk as (S1 & S2 & S3 & S4 & S5). unfold with_insts. repeat (split; [assumption|]). cbn [ds_insts]. intros k.
      rewrite <- S5. unfold skelf. rewrite Hz. destruct (zfind k (ds_insts ds)) as [i|]; [|reflexivity]. cbn [option_map].
      f_equal. now apply upd_at_skel. }
    destruct (IH _ Hsk' HF') as (ds1 & Hrun & Hsk1 & Hz1).
    exists ds1. split; [|split; [exact Hsk1|]].
    + cbn [List.map snd]. rewrite run_chunks_cons. unfold step_chunk. destruct ch as [nm payload]. cbn [fst snd] in *. subst nm.
      rewrite dispatch_PROP, (Hdec ds Hsk), Hap. cbn [rbind]. exact Hrun.
    + intros z. rewrite Hz1. cbn [with_insts ds_insts]. rewrite Hz. cbn [fold_left]. unfold task_upd at 2. cbn [fst snd].
      now destruct (zfind z (ds_insts ds)).
Qed.

(* ================================================================ 2b. the columns of the written file *)
(* a column = a class table entry and one of its property table entries; one PROP chunk each, in this order *)
Definition column : Type := (bytes * type_info) * (bytes * prop_info).
Definition cols (types : list (bytes * type_info)) : list column :=
  flat_map (fun ct => List.map (fun cp => (ct, cp)) (ti_props (snd ct))) types.

Lemma Forall2_map_l {A B C} (f : A -> B) (R : B -> C -> Prop) l l' : Forall2 (fun a c => R (f a) c) l l' -> Forall2 R (List.map f l) l'.
Proof. induction 1; cbn [List.map]; constructor; auto. Qed.

Lemma cols_chunks (P : bytes * type_info -> bytes * prop_info -> bytes * bytes -> Prop) types props :
  Forall2 (fun ct chs => Forall2 (fun cp ch => P ct cp ch) (ti_props (snd ct)) chs) types props ->
  Forall2 (fun x ch => P (fst x) (snd x) ch) (cols types) (concat props).
Proof.
  induction 1 as [|ct chs types props H _ IH]; [constructor|]. unfold cols. cbn [flat_map concat]. apply Forall2_app; [|exact IH].
  apply Forall2_map_l. exact H.
Qed.

(* the source instance with referent r *)
Definition src (dom : cdom) (r : N) : inst :=
  match find_inst dom r with Some i => i | None => mkInst 0 0 [] [] [] end.

Lemma Forall2_find_src dom rs insts : Forall2 (fun r i => find_inst dom r = Some i) rs insts -> insts = List.map (src dom) rs.
Proof. induction 1 as [|r i rs insts H _ IH]; [reflexivity|]. cbn [List.map]. unfold src at 1. rewrite H. now f_equal. Qed.

(* the values serialize_properties writes into the column: one per instance of the class *)
Definition col_values (ep : enc_params) (dom : cdom) (x : column) : list value :=
  let '((_, ti), (canon, pi)) := x in
  List.map (prop_value ep canon pi (ep_order ep (pi_aliases pi))) (List.map (src dom) (ti_instances ti)).

(* the reader's side of a column: None = find_canonical_property says the property does not serialize (chunk
   skipped); Some (name, migration, vs') = canonical name, migration, and the values the column decoder returns *)
Definition col_read : Type := option (bytes * option (bytes * migop) * list value).

(* the column law instance for one column, in the shape of the col_roundtrip_* theorems; it is asked of every decoder
   state that has the skeleton (labels, shared strings) of the state after the INST chunks *)
Definition col_law (d : db) (ep : enc_params) (p : dec_params) (dom : cdom) (st : ser_state) (stI : dstate)
                   (x : column) (rd : col_read) : Prop :=
  let c := fst (fst x) in let pi := snd (snd x) in
  match rd with
  | None => find_canonical_property d (pi_type pi) c (pi_ser_name pi) = Ok None
  | Some (name, mig, vs') =>
      exists cty, find_canonical_property d (pi_type pi) c (pi_ser_name pi) = Ok (Some (name, cty, mig)) /\
        forall ds, same_skel stI ds ->
          exists b, enc_col (pi_type pi) (enc_ctx_of ep st) (col_values ep dom x) = Ok b /\
                    dec_col (pi_type pi) cty (prop_dctx p ds) (length (col_values ep dom x)) (b ++ []) = Ok (vs', [])
  end.

(* hypotheses on the encoder's class table *)
Definition ser_names_ok (st : ser_state) : Prop :=
  forall x, In x (cols (ss_types st)) ->
    Utf8.utf8_valid (pi_ser_name (snd (snd x))) = true /\ N.of_nat (length (pi_ser_name (snd (snd x)))) < 2 ^ 32.
Definition name_cols_ok (st : ser_state) : Prop :=
  forall c ti, In (c, ti) (ss_types st) ->
    (exists pi, In (NAME, pi) (ti_props ti)) /\
    forall canon pi, In (canon, pi) (ti_props ti) ->
      (pi_ser_name pi = NAME <-> canon = NAME) /\ (canon = NAME -> pi_type pi = WString /\ pi_migration pi = None).
Definition names_ok (dom : cdom) : Prop :=
  Forall (fun i => Utf8.utf8_valid (i_name i) = true /\ N.of_nat (length (i_name i)) < 2 ^ 32) dom.
Definition sstr_ok (st : ser_state) : Prop :=
  N.of_nat (length (ss_sstr st)) < 2 ^ 32 /\ Forall (fun s => N.of_nat (length s) < 2 ^ 32) (ss_sstr st).

(* what the reader does with the chunk of column x to the k-th instance of the class *)
Definition col_updates (p : dec_params) (dom : cdom) (R : column -> col_read) (x : column) : list (dinst -> dinst) :=
  if bytes_eqb (fst (snd x)) NAME
  then List.map (fun r i => set_name i (i_name (src dom r))) (ti_instances (snd (fst x)))
  else match R x with
       | None => []
       | Some (name, mig, vs') => List.map (fun v i => add_property p i name mig v) vs'
       end.
Definition col_rs (st : ser_state) (x : column) : list Z := List.map (fz st) (ti_instances (snd (fst x))).

Lemma with_insts_same ds : with_insts ds (ds_insts ds) = ds.
Proof. now destruct ds. Qed.

Lemma find_inst_src dom r i : find_inst dom r = Some i -> src dom r = i.
Proof. unfold src. now intros ->. Qed.

Lemma col_task_ok d ep p dom ts st stI R x ch :
  add_instances d ep dom (List.map root ts) = Ok st -> NoDup (ss_relevant st) ->
  (Z.of_nat (length (ss_relevant st)) <= 2147483647)%Z ->
  dp_lim p = None -> names_ok dom -> ser_names_ok st -> name_cols_ok st ->
  registered0 dom st (ds_insts stI) -> NoDup (List.map (fz st) (inst_order (ss_types st))) ->
  (forall c ti, In (c, ti) (ss_types st) ->
     lookup (ti_id ti) (ds_types stI) = Some (mkDT c (List.map (fz st) (ti_instances ti)))) ->
  In x (cols (ss_types st)) ->
  prop_chunk ep dom (enc_ctx_of ep st) (snd (fst x)) (snd x) = Ok ch ->
  (fst (snd x) <> NAME -> col_law d ep p dom st stI x (R x)) ->
  task_ok d p stI (col_rs st x, col_updates p dom R x, ch).
Proof.
  intros Hst Hndr Hlen Hlim Hnames Hser Hncol Hreg Hndz Hlook Hx Hch Hlaw.
  pose proof (Hser x Hx) as [Hsu Hsl].
  destruct x as [[c ti] [canon pi]]. cbn [fst snd] in *.
  unfold cols in Hx. apply in_flat_map in Hx. destruct Hx as (ct & Hct & Hx). apply in_map_iff in Hx.
  destruct Hx as (cp & [= -> ->] & Hcp). cbn [snd] in Hcp.
  destruct (enc_class_ids _ _ _ _ _ Hst) as (_ & _ & _ & _ & Hnext & Hall & _ & Hperm).
  destruct (Hall c ti Hct) as (Hfil & _ & Hidlt).
  destruct (add_instances_inv _ _ _ _ _ Hst) as (_ & _ & _ & _ & _ & _ & Hinv).
  destruct (types_inv_count _ _ Hinv) as [Hcnt _].
  assert (Hid : ti_id ti < 2 ^ 32) by (change (2 ^ 32) with 4294967296; lia).
  assert (Hincl : incl (ti_instances ti) (ss_relevant st)).
  { intros r Hr. rewrite Hfil in Hr. now apply filter_In in Hr. }
  assert (Hndi : NoDup (ti_instances ti)) by (rewrite Hfil; now apply NoDup_filter).
  destruct ch as [nm payload]. unfold task_ok, col_rs. cbn [fst snd].
  destruct (Hncol c ti Hct) as [_ Hnc]. destruct (Hnc canon pi Hcp) as [Hiff Hnm].
  assert (Hrsnd : NoDup (List.map (fz st) (ti_instances ti))) by (apply fz_map_NoDup; assumption).
  assert (Hrsreg : forall r, In r (List.map (fz st) (ti_instances ti)) -> zfind r (ds_insts stI) <> None).
  { intros z Hz. apply in_map_iff in Hz. destruct Hz as (r & <- & Hr). rewrite (Hreg r (Hincl r Hr)). discriminate. }
  assert (Hlk : forall ds, same_skel stI ds -> lookup (ti_id ti) (ds_types ds) = Some (mkDT c (List.map (fz st) (ti_instances ti)))).
  { intros ds (_ & S2 & _). rewrite S2. now apply Hlook. }
  unfold col_updates. cbn [fst snd].
  destruct (bytes_eqb canon NAME) eqn:Ecn.
  - (* the Name column *)
    apply bytes_eqb_eq in Ecn. subst canon. destruct (Hnm eq_refl) as [Hty Hmig]. pose proof (proj2 Hiff eq_refl) as Hsn.
    destruct pi as [pty psn pal pdf pmg]. cbn [pi_type pi_ser_name pi_migration] in *. subst pty psn pmg.
    assert (Hnm_ok : forall r i, In r (ti_instances ti) -> find_inst dom r = Some i ->
                       bstr_ok (dp_lim p) (i_name i) = true /\ Utf8.utf8_valid (i_name i) = true).
    { intros r i _ Hfi. unfold names_ok in Hnames. rewrite Forall_forall in Hnames.
      destruct (Hnames i (proj1 (find_inst_some _ _ _ Hfi))) as [Hu Hl]. split; [|exact Hu]. rewrite Hlim. now apply bstr_ok_nolim. }
    assert (Hdec : forall ds, same_skel stI ds -> exists insts,
              Forall2 (fun r i => find_inst dom r = Some i) (ti_instances ti) insts /\ nm = CH_PROP /\
              decode_prop d p ds payload = (insts' <- apply_values set_name (ds_insts ds) (List.map (fz st) (ti_instances ti)) (List.map i_name insts) ;; Ok (with_insts ds insts'))).
    { intros ds Hsk. apply (name_prop_chunk_written_roundtrip d ep p dom (enc_ctx_of ep st) ti pal pdf nm payload ds c); auto.
      - now rewrite map_length.
      - now rewrite Hlim. }
    destruct (Hdec stI (same_skel_refl _)) as (insts0 & _ & Hn0 & _).
    split; [exact Hn0|]. split; [exact Hrsnd|]. split; [exact Hrsreg|]. split.
    + apply Forall_forall. intros g Hg. apply in_map_iff in Hg. destruct Hg as (r & <- & _). reflexivity.
    + intros ds Hsk. destruct (Hdec ds Hsk) as (insts & HF & _ & Hd). rewrite Hd, apply_values_as_updates.
      rewrite (Forall2_find_src _ _ _ HF), !map_map. reflexivity.
  - (* any other column *)
    assert (Hcn : canon <> NAME) by (now apply bytes_eqb_false_neq).
    assert (Hsn : bytes_eqb (pi_ser_name pi) NAME = false).
    { apply bytes_eqb_neq. intros E. apply Hcn. now apply Hiff. }
    specialize (Hlaw Hcn). unfold col_law in Hlaw. cbn [fst snd] in Hlaw.
    destruct (BinChunkFacts.prop_chunk_inv _ _ _ _ _ _ _ _ Hch) as (insts & col & HF & Henc & -> & ->).
    split; [reflexivity|]. split; [exact Hrsnd|]. split; [exact Hrsreg|].
    destruct (R (c, ti, (canon, pi))) as [[[name mig] vs']|].
    + destruct Hlaw as (cty & Hfc & Hcol). split.
      * apply Forall_forall. intros g Hg. apply in_map_iff in Hg. destruct Hg as (v & <- & _). intros i. apply add_property_skel.
      * intros ds Hsk.
        destruct (prop_chunk_written_roundtrip d ep p dom (enc_ctx_of ep st) ti canon pi _ _ ds c (List.map (fz st) (ti_instances ti)) name cty mig Hch Hid (Hlk ds Hsk))
          as (insts2 & HF2 & _ & Hd); auto.
        { now rewrite map_length. }
        { now rewrite Hlim. }
        rewrite (Hd vs'), apply_values_as_updates; [reflexivity|].
        unfold col_values in Hcol. rewrite (Forall2_find_src _ _ _ HF2). apply Hcol. exact Hsk.
    + split; [constructor|]. intros ds Hsk.
      rewrite (decode_prop_chunk_not_serialized d p ds (ti_id ti) c (List.map (fz st) (ti_instances ti)) (pi_ser_name pi) (pi_type pi) col); auto.
      * destruct (List.map (fz st) (ti_instances ti)); cbn [apply_values rbind]; now rewrite with_insts_same.
      * now rewrite Hlim.
Qed.

(* ================================================================ 2c. the PROP phase *)
Lemma build_tasks d ep p dom st stI R : forall xs chs,
  Forall2 (fun x ch => prop_chunk ep dom (enc_ctx_of ep st) (snd (fst x)) (snd x) = Ok ch) xs chs ->
  (forall x ch, In x xs -> prop_chunk ep dom (enc_ctx_of ep st) (snd (fst x)) (snd x) = Ok ch ->
                task_ok d p stI (col_rs st x, col_updates p dom R x, ch)) ->
  exists tasks, List.map snd tasks = chs /\ Forall (task_ok d p stI) tasks /\
    forall z i, fold_left (task_upd z) tasks i
                = fold_left (fun i x => upd_at (col_rs st x) (col_updates p dom R x) z i) xs i.
Proof.
  induction 1 as [|x ch xs chs Hx _ IH]; intros Hok.
  - exists []. split; [reflexivity|]. split; [constructor|reflexivity].
  - destruct IH as (tasks & Hm & HF & Hfold). { intros x' ch' Hin. apply Hok. now right. }
    exists ((col_rs st x, col_updates p dom R x, ch) :: tasks). split; [cbn [List.map snd]; now rewrite Hm|].
    split; [constructor; [apply Hok; [now left|exact Hx]|exact HF]|].
    intros z i. cbn [fold_left]. rewrite Hfold. reflexivity.
Qed.

Lemma fold_left_id {A B} (F : A -> B -> A) l : (forall x, In x l -> forall a, F a x = a) -> forall a, fold_left F l a = a.
Proof.
  induction l as [|x l IH]; intros H a; [reflexivity|]. cbn [fold_left]. rewrite (H x (or_introl eq_refl)).
  apply IH. intros y Hy. apply H. now right.
Qed.

Lemma fold_left_ext_in {A B} (F G : A -> B -> A) l : (forall x, In x l -> forall a, F a x = G a x) -> forall a, fold_left F l a = fold_left G l a.
Proof.
  induction l as [|x l IH]; intros H a; [reflexivity|]. cbn [fold_left]. rewrite (H x (or_introl eq_refl)).
  apply IH. intros y Hy. apply H. now right.
Qed.

Lemma fold_left_map {A B C} (F : A -> B -> A) (g : C -> B) l : forall a, fold_left F (List.map g l) a = fold_left (fun a y => F a (g y)) l a.
Proof. induction l as [|x l IH]; intros a; [reflexivity|]. cbn [List.map fold_left]. apply IH. Qed.

(* the instance the reader holds for the k-th instance of class ct after all PROP chunks, from the instance i0 the
   INST chunk registered *)
Definition read_inst (p : dec_params) (dom : cdom) (R : column -> col_read) (ct : bytes * type_info) (k : nat) (i0 : dinst) : dinst :=
  fold_left (fun i cp => nth k (col_updates p dom R (ct, cp)) idf i) (ti_props (snd ct)) i0.

Lemma inst_order_app a b : inst_order (a ++ b) = inst_order a ++ inst_order b.
Proof. apply flat_map_app. Qed.

Lemma fold_cols_own st p dom R types c ti k r i0 :
  NoDup (List.map (fz st) (inst_order types)) -> In (c, ti) types -> nth_error (ti_instances ti) k = Some r ->
  fold_left (fun i x => upd_at (col_rs st x) (col_updates p dom R x) (fz st r) i) (cols types) i0
  = read_inst p dom R (c, ti) k i0.
Proof.
  intros Hnd Hin Hk. destruct (in_split _ _ Hin) as (l1 & l2 & ->).
  rewrite inst_order_app in Hnd. unfold inst_order at 2 in Hnd. cbn [flat_map snd] in Hnd. fold (inst_order l2) in Hnd.
  rewrite !map_app in Hnd.
  assert (Hzr : In (fz st r) (List.map (fz st) (ti_instances ti))) by (apply in_map; eapply nth_error_In; eauto).
  assert (Hother : forall l, (forall z, In z (List.map (fz st) (inst_order l)) -> z <> fz st r) ->
            forall x, In x (cols l) -> forall a, upd_at (col_rs st x) (col_updates p dom R x) (fz st r) a = a).
  { intros l Hl x Hx a. unfold cols in Hx. apply in_flat_map in Hx. destruct Hx as (ct' & Hct' & Hx).
    apply in_map_iff in Hx. destruct Hx as (cp & <- & _). unfold upd_at, col_rs. cbn [fst snd].
    rewrite zpos_none; [reflexivity|]. intros Hz. apply (Hl (fz st r)); [|reflexivity].
    apply in_map_iff in Hz. destruct Hz as (r' & E & Hr'). rewrite <- E. apply in_map. unfold inst_order. apply in_flat_map. exists ct'. auto. }
  unfold cols. rewrite flat_map_app. cbn [flat_map]. rewrite !fold_left_app.
  rewrite (fold_left_id _ (flat_map _ l1)).
  2:{ apply (Hother l1). intros z Hz ->. apply (NoDup_app_not _ _ (fz st r) Hnd); [exact Hz|]. apply in_or_app. now left. }
  rewrite (fold_left_id _ (flat_map _ l2)).
  2:{ apply (Hother l2). intros z Hz ->. apply NoDup_app_right in Hnd. apply (NoDup_app_not _ _ (fz st r) Hnd); [exact Hzr|exact Hz]. }
  cbn [snd]. rewrite fold_left_map. unfold read_inst. cbn [snd]. apply fold_left_ext_in. intros cp _ a.
  unfold upd_at, col_rs. cbn [fst snd]. rewrite (zpos_nth (fz st r) _ k); [reflexivity| |].
  - apply NoDup_app_right in Hnd. now apply NoDup_app_left in Hnd.
  - now rewrite nth_error_map, Hk.
Qed.

(* the reader accepts all PROP chunks; what it then holds for every written instance *)
Lemma props_phase d ep p dom ts st stI R props :
  add_instances d ep dom (List.map root ts) = Ok st -> NoDup (ss_relevant st) ->
  (Z.of_nat (length (ss_relevant st)) <= 2147483647)%Z ->
  dp_lim p = None -> names_ok dom -> ser_names_ok st -> name_cols_ok st ->
  registered0 dom st (ds_insts stI) -> NoDup (List.map (fz st) (inst_order (ss_types st))) ->
  (forall c ti, In (c, ti) (ss_types st) ->
     lookup (ti_id ti) (ds_types stI) = Some (mkDT c (List.map (fz st) (ti_instances ti)))) ->
  Forall2 (fun ct chs => Forall2 (fun cp ch => prop_chunk ep dom (enc_ctx_of ep st) (snd ct) cp = Ok ch) (ti_props (snd ct)) chs)
          (ss_types st) props ->
  (forall x, In x (cols (ss_types st)) -> fst (snd x) <> NAME -> col_law d ep p dom st stI x (R x)) ->
  exists st1, run_chunks d p stI (concat props) = Ok st1 /\ same_skel stI st1 /\
    forall c ti k r, In (c, ti) (ss_types st) -> nth_error (ti_instances ti) k = Some r ->
      zfind (fz st r) (ds_insts st1)
      = Some (read_inst p dom R (c, ti) k (mkDI (lbl st r) (class_of dom r) (class_of dom r) [] [])).
Proof.
  intros Hst Hndr Hlen Hlim Hnames Hser Hncol Hreg Hndz Hlook HFp Hlaw.
  pose proof (cols_chunks (fun ct cp ch => prop_chunk ep dom (enc_ctx_of ep st) (snd ct) cp = Ok ch) _ _ HFp) as HF.
  cbv beta in HF.
  destruct (build_tasks d ep p dom st stI R _ _ HF) as (tasks & Hm & Hok & Hfold).
  { intros x ch Hx Hch. eapply col_task_ok; eauto. }
  destruct (run_tasks d p stI tasks stI (same_skel_refl _) Hok) as (st1 & Hrun & Hsk & Hz).
  exists st1. rewrite Hm in Hrun. split; [exact Hrun|]. split; [exact Hsk|].
  intros c ti k r Hct Hk. rewrite Hz.
  destruct (enc_class_ids _ _ _ _ _ Hst) as (_ & _ & _ & _ & _ & Hall & _ & _).
  destruct (Hall c ti Hct) as (Hfil & _ & _).
  assert (Hr : In r (ss_relevant st)).
  { apply nth_error_In in Hk. rewrite Hfil in Hk. now apply filter_In in Hk. }
  rewrite (Hreg r Hr). cbn [option_map]. f_equal. rewrite Hfold. now apply fold_cols_own.
Qed.

(* ================================================================ 2d. what read_inst holds: properties, name, skeleton *)
(* add_property on the property list alone *)
Definition add_prop (p : dec_params) (props : list (bytes * value)) (name : bytes) (mig : option (bytes * migop)) (v : value)
  : list (bytes * value) :=
  match mig with
  | Some (new_name, op) =>
      if existsb (fun kv => bytes_eqb (fst kv) new_name) props then props
      else match migrate (dp_font p) (dp_brick p) op v with
           | Some nv => props ++ [(new_name, nv)]
           | None => props
           end
  | None => props ++ [(name, v)]
  end.

Lemma add_property_props p i name mig v : di_props (add_property p i name mig v) = add_prop p (di_props i) name mig v.
Proof.
  unfold add_property, add_prop. destruct mig as [[nn op]|]; [|reflexivity].
  destruct (existsb _ (di_props i)); [reflexivity|]. destruct (migrate _ _ op v); reflexivity.
Qed.
Lemma add_property_name p i name mig v : di_name (add_property p i name mig v) = di_name i.
Proof.
  unfold add_property. destruct mig as [[nn op]|]; [|reflexivity].
  destruct (existsb _ (di_props i)); [reflexivity|]. destruct (migrate _ _ op v); reflexivity.
Qed.

(* the effect of one column on the property list (a Vec, in push order) of the k-th instance of the class *)
Definition col_props (p : dec_params) (R : column -> col_read) (ct : bytes * type_info) (k : nat)
                     (props : list (bytes * value)) (cp : bytes * prop_info) : list (bytes * value) :=
  if bytes_eqb (fst cp) NAME then props
  else match R (ct, cp) with
       | None => props
       | Some (name, mig, vs') => match nth_error vs' k with Some v => add_prop p props name mig v | None => props end
       end.
Definition read_props (p : dec_params) (R : column -> col_read) (ct : bytes * type_info) (k : nat) : list (bytes * value) :=
  fold_left (col_props p R ct k) (ti_props (snd ct)) [].

Lemma nth_map_idf {A} (f : A -> dinst -> dinst) l k :
  nth k (List.map f l) idf = match nth_error l k with Some a => f a | None => idf end.
Proof.
  revert k. induction l as [|a l IH]; intros [|k]; cbn [List.map nth nth_error]; try reflexivity. apply IH.
Qed.

Lemma col_update_props p dom R ct cp k i :
  di_props (nth k (col_updates p dom R (ct, cp)) idf i) = col_props p R ct k (di_props i) cp.
Proof.
  unfold col_updates, col_props. cbn [fst snd]. destruct (bytes_eqb (fst cp) NAME).
  - rewrite nth_map_idf. destruct (nth_error _ k); reflexivity.
  - destruct (R (ct, cp)) as [[[name mig] vs']|]; [|now destruct k].
    rewrite nth_map_idf. destruct (nth_error vs' k); [apply add_property_props|reflexivity].
Qed.

Lemma col_update_skel p dom R x k i : skel (nth k (col_updates p dom R x) idf i) = skel i.
Proof.
  unfold col_updates. destruct (bytes_eqb (fst (snd x)) NAME).
  - rewrite nth_map_idf. destruct (nth_error _ k); reflexivity.
  - destruct (R x) as [[[name mig] vs']|]; [|now destruct k].
    rewrite nth_map_idf. destruct (nth_error vs' k); [apply add_property_skel|reflexivity].
Qed.

Lemma read_inst_props p dom R ct k i0 :
  di_props (read_inst p dom R ct k i0) = fold_left (col_props p R ct k) (ti_props (snd ct)) (di_props i0).
Proof.
  unfold read_inst. revert i0. induction (ti_props (snd ct)) as [|cp l IH]; intros i0; [reflexivity|].
  cbn [fold_left]. now rewrite IH, col_update_props.
Qed.

Lemma read_inst_skel p dom R ct k i0 : skel (read_inst p dom R ct k i0) = skel i0.
Proof.
  unfold read_inst. revert i0. induction (ti_props (snd ct)) as [|cp l IH]; intros i0; [reflexivity|].
  cbn [fold_left]. now rewrite IH, col_update_skel.
Qed.

Lemma read_inst_name p dom R c ti k r i0 :
  nth_error (ti_instances ti) k = Some r -> (exists pi, In (NAME, pi) (ti_props ti)) ->
  di_name (read_inst p dom R (c, ti) k i0) = i_name (src dom r).
Proof.
  intros Hk (pi & Hin). unfold read_inst. cbn [snd].
  assert (G : forall l i0, di_name (fold_left (fun i cp => nth k (col_updates p dom R (c, ti, cp)) idf i) l i0)
                           = if existsb (fun cp => bytes_eqb (fst cp) NAME) l then i_name (src dom r) else di_name i0).
  { induction l as [|cp l IH]; intros i; [reflexivity|]. cbn [fold_left existsb]. rewrite IH.
    unfold col_updates. cbn [fst snd]. destruct (bytes_eqb (fst cp) NAME) eqn:E; cbn [orb].
    - rewrite nth_map_idf, Hk. cbn [set_name di_name]. now destruct (existsb _ l).
    - destruct (existsb _ l); [reflexivity|]. destruct (R (c, ti, cp)) as [[[name mig] vs']|]; [|now destruct k].
      rewrite nth_map_idf. destruct (nth_error vs' k); [apply add_property_name|reflexivity]. }
  rewrite G. replace (existsb _ (ti_props ti)) with true; [reflexivity|]. symmetry. apply existsb_exists.
  exists (NAME, pi). split; [exact Hin|]. cbn [fst]. apply bytes_eqb_refl.
Qed.

(* ================================================================ 2e. MILESTONE 2 *)
(* the reader's state after the SSTR and INST chunks of the file written from st *)
Definition stI_of (st : ser_state) : dstate := after_insts st (mkDS (ss_sstr st) [] [] [] 1).

Lemma run_sstr_ok d p st : dp_lim p = None -> sstr_ok st ->
  run_chunks d p dstate0 (sstr_chunks st) = Ok (mkDS (ss_sstr st) [] [] [] 1).
Proof.
  intros Hlim [Hn Hl]. unfold sstr_chunks. destruct (ss_sstr st) as [|s l] eqn:E; [reflexivity|]. rewrite <- E in *.
  rewrite run_chunks_cons. unfold step_chunk. cbn [fst snd].
  change (sstr_payload (ss_sstr st)) with (BinChunkFacts.sstr_payload (ss_sstr st)).
  rewrite dispatch_sstr_chunk; [reflexivity|exact Hn|].
  rewrite Hlim. eapply Forall_impl; [|exact Hl]. intros a Ha. now apply bstr_ok_nolim.
Qed.

Theorem values_roundtrip d ep dom ts e p st R :
  input_ok dom ts -> names_ok dom ->
  encode_chunks d ep dom (List.map root ts) = Ok e ->
  add_instances d ep dom (List.map root ts) = Ok st ->
  dp_lim p = None ->
  sstr_ok st -> ser_names_ok st -> name_cols_ok st ->
  (forall x, In x (cols (ss_types st)) -> fst (snd x) <> NAME -> col_law d ep p dom st (stI_of st) x (R x)) ->
  exists st1 out,
    run_chunks d p dstate0 (removelast (en_chunks e)) = Ok st1 /\
    decode_chunks d p (en_header e) (en_chunks e ++ [(CH_END, FILE_FOOTER)]) = Ok out /\
    reconstructs (dinst_of (ds_insts st1)) p (List.map (WriterRows.ztree_of (fz st)) ts) out /\
    forall c ti k r, In (c, ti) (ss_types st) -> nth_error (ti_instances ti) k = Some r ->
      exists i, zfind (fz st r) (ds_insts st1) = Some i /\
        di_label i = lbl st r /\ di_class i = class_of dom r /\ di_children i = [] /\
        di_name i = i_name (src dom r) /\ di_props i = read_props p R (c, ti) k.
Proof.
  intros Hin Hnames He Hst Hlim Hss Hser Hncol Hlaw. pose proof Hin as (Hwf & Hdom & Hag & Hnd & H0).
  destruct (enc_parts _ _ _ _ _ Hdom Hag Hnd He) as (st' & insts & props & Hst' & Hrel & Hndr & Hlen & Hhdr & Hch & HFi & HFp).
  assert (st' = st) by congruence. subst st'.
  destruct (insts_state d ep dom ts st (ss_sstr st) Hst Hndr) as (I1 & I2 & HregI & _ & Hndz & Hlook). fold (stI_of st) in *.
  destruct (props_phase d ep p dom ts st (stI_of st) R props Hst Hndr Hlen Hlim Hnames Hser Hncol HregI Hndz Hlook HFp Hlaw)
    as (st1 & HrP & Hsk & Hz).
  assert (Hrun : run_chunks d p dstate0 (removelast (en_chunks e)) = Ok st1).
  { rewrite Hch, removelast_prefix, run_chunks_app, (run_sstr_ok d p st Hlim Hss). cbn [rbind].
    rewrite run_chunks_app, (run_inst_chunks d p st _ _ _ HFi Hlim). cbn [rbind]. exact HrP. }
  destruct (tree_roundtrip d ep dom ts e p st1 Hin He Hlim Hrun) as (st' & out & Hst'' & Hdec & Hrec & _).
  assert (st' = st) by congruence. subst st'.
  exists st1, out. split; [exact Hrun|]. split; [exact Hdec|]. split; [exact Hrec|].
  intros c ti k r Hct Hk. eexists. split; [apply (Hz c ti k r Hct Hk)|].
  pose proof (read_inst_skel p dom R (c, ti) k (mkDI (lbl st r) (class_of dom r) (class_of dom r) [] [])) as Hs.
  unfold skel in Hs. cbn [di_label di_class di_children] in Hs. injection Hs as E1 E2 E3.
  split; [exact E1|]. split; [exact E2|]. split; [exact E3|]. split.
  - apply read_inst_name; [exact Hk|]. exact (proj1 (Hncol c ti Hct)).
  - rewrite read_inst_props. reflexivity.
Qed.
Print Assumptions values_roundtrip.

(* ================================================================ 3. the decoded DOM in the vocabulary of the source DOM *)
Fixpoint nsubtrees (t : tree) : list tree := match t with Node r cs => Node r cs :: flat_map nsubtrees cs end.

Lemma self_in_nsubtrees t : In t (nsubtrees t).
Proof. destruct t. now left. Qed.

Lemma zsubtrees_ztree_of f : forall t, zsubtrees (WriterRows.ztree_of f t) = List.map (WriterRows.ztree_of f) (nsubtrees t).
Proof.
  apply (tree_ind' (fun t => zsubtrees (WriterRows.ztree_of f t) = List.map (WriterRows.ztree_of f) (nsubtrees t))).
  intros r cs IH. cbn [WriterRows.ztree_of zsubtrees nsubtrees List.map]. f_equal.
  induction IH as [|c cs Hc _ IHcs]; [reflexivity|]. cbn [List.map flat_map]. now rewrite map_app, Hc, IHcs.
Qed.

Lemma zfsubtrees_ztree_of f ts : zfsubtrees (List.map (WriterRows.ztree_of f) ts) = List.map (WriterRows.ztree_of f) (flat_map nsubtrees ts).
Proof.
  induction ts as [|t ts IH]; [reflexivity|]. unfold zfsubtrees in *. cbn [List.map flat_map].
  now rewrite map_app, IH, zsubtrees_ztree_of.
Qed.

Lemma refs_nsubtrees : forall t r, In r (refs t) -> exists t', In t' (nsubtrees t) /\ root t' = r.
Proof.
  apply (tree_ind' (fun t => forall r, In r (refs t) -> exists t', In t' (nsubtrees t) /\ root t' = r)).
  intros q cs IH r Hr. cbn [refs] in Hr. destruct Hr as [<-|Hr].
  - exists (Node q cs). split; [now left|reflexivity].
  - apply in_flat_map in Hr. destruct Hr as (c & Hc & Hr). rewrite Forall_forall in IH.
    destruct (IH c Hc r Hr) as (t' & Ht' & E). exists t'. split; [|exact E]. cbn [nsubtrees]. right. apply in_flat_map. eauto.
Qed.

Lemma nsubtrees_facts kids : forall t, agrees kids t -> forall t', In t' (nsubtrees t) -> agrees kids t' /\ incl (refs t') (refs t).
Proof.
  apply (tree_ind' (fun t => agrees kids t -> forall t', In t' (nsubtrees t) -> agrees kids t' /\ incl (refs t') (refs t))).
  intros q cs IH Hag t' Ht'. cbn [nsubtrees] in Ht'. destruct Ht' as [<-|Ht']; [split; [exact Hag|apply incl_refl]|].
  apply agrees_unfold in Hag. destruct Hag as [_ Hcs]. apply in_flat_map in Ht'. destruct Ht' as (c & Hc & Ht').
  rewrite Forall_forall in IH, Hcs. destruct (IH c Hc (Hcs c Hc) t' Ht') as [Ha Hi]. split; [exact Ha|].
  intros x Hx. cbn [refs]. right. apply in_flat_map. exists c. split; [exact Hc|now apply Hi].
Qed.

(* breadth-first order of a forest: the roots, then their children, ... (the construction order of `finish`) *)
Fixpoint nbfs (fuel : nat) (q : list tree) : list N :=
  match q with
  | [] => []
  | t :: q' => match fuel with O => [] | S f => root t :: nbfs f (q' ++ subs t) end
  end.
Definition bfs_order (ts : list tree) : list N := nbfs (sizes ts) ts.

Lemma zsize_ztree_of f : forall t, zsize (WriterRows.ztree_of f t) = size t.
Proof.
  apply (tree_ind' (fun t => zsize (WriterRows.ztree_of f t) = size t)). intros r cs IH.
  cbn [WriterRows.ztree_of zsize size]. f_equal. induction IH as [|c cs Hc _ IHcs]; [reflexivity|].
  cbn [List.map fold_right]. now rewrite Hc, IHcs.
Qed.
Lemma zfsize_ztree_of f ts : zfsize (List.map (WriterRows.ztree_of f) ts) = sizes ts.
Proof.
  induction ts as [|t ts IH]; [reflexivity|]. cbn [List.map]. rewrite zfsize_cons, zsize_ztree_of, IH. reflexivity.
Qed.

Lemma bfsP_ztree_of D f : forall n (q : list (tree * N)),
  List.map (fun tp => zroot (fst tp)) (bfsP D n (List.map (fun tp => (WriterRows.ztree_of f (fst tp), snd tp)) q))
  = List.map f (nbfs n (List.map fst q)).
Proof.
  induction n as [|n IH]; intros q; destruct q as [|[t par] q]; try reflexivity.
  cbn [List.map fst snd bfsP nbfs]. rewrite WriterRows.zroot_ztree_of. f_equal.
  set (L := lab D (zroot (WriterRows.ztree_of f t))).
  replace (List.map (fun tp => (WriterRows.ztree_of f (fst tp), snd tp)) q ++ qkids D (WriterRows.ztree_of f t))
    with (List.map (fun tp => (WriterRows.ztree_of f (fst tp), snd tp)) (q ++ List.map (fun c => (c, L)) (subs t))).
  - rewrite IH. rewrite map_app, map_map. cbn [fst]. now rewrite map_id.
  - rewrite map_app. f_equal. unfold qkids. fold L. destruct t as [r cs]. cbn [WriterRows.ztree_of zsubs subs].
    rewrite !map_map. reflexivity.
Qed.

Lemma bfs_all_ztree_of D f ts :
  List.map (fun tp => zroot (fst tp)) (bfs_all D (List.map (WriterRows.ztree_of f) ts)) = List.map f (bfs_order ts).
Proof.
  unfold bfs_all, bfs_order. rewrite zfsize_ztree_of.
  pose proof (bfsP_ztree_of D f (sizes ts) (List.map (fun t => (t, 0)) ts)) as H.
  rewrite !map_map in H. cbn [fst snd] in H. rewrite map_id in H. rewrite map_map. exact H.
Qed.

Lemma nbfs_in : forall n q r, In r (nbfs n q) -> In r (flat_map refs q).
Proof.
  induction n as [|n IH]; intros q r H; destruct q as [|t q]; try contradiction. cbn [nbfs] in H.
  cbn [flat_map]. destruct H as [<-|H]; [apply in_or_app; left; apply in_root_refs|].
  apply IH in H. rewrite flat_map_app in H. apply in_app_or in H. apply in_or_app. destruct H as [H|H]; [now right|left].
  destruct t as [q0 cs]. cbn [subs] in H. cbn [refs]. now right.
Qed.

(* "the same forest": one decoded instance per written instance (L = the new referent of a written instance),
   the chosen roots in order under the fresh root, every sibling order, nothing else *)
Definition same_forest (dom : cdom) (ts : list tree) (L : N -> N) (out : cdom) : Prop :=
  let W := flat_map refs ts in
  Permutation (List.map i_ref out) (List.map L W) /\ NoDup (List.map i_ref out) /\
  (forall r, In r W -> L r <> 0) /\
  children_of out 0 = List.map L (List.map root ts) /\
  (forall r, In r W -> children_of out (L r) = List.map L (children_of dom r)) /\
  (forall x, x <> 0 -> ~ In x (List.map L W) -> children_of out x = []) /\
  (* construction order = breadth-first order *)
  List.map i_ref out = List.map L (bfs_order ts).

Lemma reconstructs_same_forest D p dom ts f L out :
  Forall (agrees (children_of dom)) ts ->
  reconstructs D p (List.map (WriterRows.ztree_of f) ts) out ->
  (forall r, In r (flat_map refs ts) -> lab D (f r) = L r /\ L r <> 0) ->
  same_forest dom ts L out.
Proof.
  intros Hag (_ & Hskel & Hperm & Hnd & Hroots & Hkids & Hnone) HL. unfold same_forest. cbv zeta.
  set (F := List.map (WriterRows.ztree_of f) ts) in *.
  assert (HzF : List.map (lab D) (zfrefs F) = List.map L (flat_map refs ts)).
  { unfold F. rewrite WriterRows.zfrefs_ztree_of, map_map. apply map_ext_in. intros r Hr. now apply HL. }
  split; [now rewrite <- HzF|]. split; [exact Hnd|]. split; [intros r Hr; now apply HL|]. split; [|split; [|split]].
  4:{ assert (E : List.map i_ref out = List.map (fun tp => lab D (zroot (fst tp))) (bfs_all D F)).
      { apply (f_equal (List.map (fun x => fst (fst (fst x))))) in Hskel. rewrite !map_map in Hskel. exact Hskel. }
      rewrite E. rewrite <- (map_map (fun tp => zroot (fst tp)) (lab D)). unfold F. rewrite bfs_all_ztree_of, map_map.
      apply map_ext_in. intros r Hr. apply HL. now apply nbfs_in in Hr. }
  - rewrite Hroots. unfold F. rewrite !map_map. apply map_ext_in. intros t Ht. rewrite WriterRows.zroot_ztree_of.
    apply HL. apply in_flat_map. exists t. split; [exact Ht|apply in_root_refs].
  - intros r Hr. apply in_flat_map in Hr. destruct Hr as (t0 & Ht0 & Hr).
    destruct (refs_nsubtrees t0 r Hr) as (t & Ht & <-).
    rewrite Forall_forall in Hag. destruct (nsubtrees_facts _ t0 (Hag t0 Ht0) t Ht) as [Hat Hincl].
    assert (HtF : In (WriterRows.ztree_of f t) (zfsubtrees F)).
    { unfold F. rewrite zfsubtrees_ztree_of. apply in_map. apply in_flat_map. eauto. }
    specialize (Hkids _ HtF). rewrite WriterRows.zroot_ztree_of in Hkids.
    assert (HLr : lab D (f (root t)) = L (root t)).
    { apply HL. apply in_flat_map. exists t0. split; [exact Ht0|]. apply Hincl. apply in_root_refs. }
    rewrite HLr in Hkids. rewrite Hkids. destruct t as [q cs]. apply agrees_unfold in Hat. destruct Hat as [Hk _].
    cbn [root]. rewrite Hk. cbn [WriterRows.ztree_of zsubs]. rewrite !map_map. apply map_ext_in. intros c Hc.
    rewrite WriterRows.zroot_ztree_of. apply HL. apply in_flat_map. exists t0. split; [exact Ht0|]. apply Hincl.
    cbn [refs]. right. apply in_flat_map. exists c. split; [exact Hc|apply in_root_refs].
  - intros x Hx Hni. apply Hnone; [exact Hx|]. intros k Hk E. apply Hni. rewrite <- HzF, <- E. now apply in_map.
Qed.

(* the property table of a decoded instance: the file's, except that a UniqueId already in use is replaced *)
Definition uid_norm (p : dec_params) (props props' : list (bytes * value)) : Prop :=
  props' = props \/
  exists a b c, bfind UNIQUE_ID props = Some (VUniqueId a b c) /\ props' = bupd UNIQUE_ID (dp_fresh_uid p) props.

Lemma uid_rule_norm p props uids : uid_norm p props (fst (uid_rule p props uids)).
Proof.
  unfold uid_rule, uid_norm. destruct (bfind UNIQUE_ID props) as [[]|]; try (now left).
  destruct (existsb _ uids); cbn [fst]; [right; eauto|now left].
Qed.

Lemma uid_pass_in D p : forall l uids i', In i' (uid_pass D p uids l) ->
  exists k par, In (k, par) l /\ i_ref i' = di_label (D k) /\ i_parent i' = par /\ i_class i' = di_class (D k) /\
                i_name i' = di_name (D k) /\ uid_norm p (collect_props (di_props (D k))) (i_props i').
Proof.
  induction l as [|[k par] l IH]; intros uids i' Hin; [destruct Hin|]. cbn [uid_pass] in Hin.
  pose proof (uid_rule_norm p (collect_props (di_props (D k))) uids) as Hn.
  destruct (uid_rule p (collect_props (di_props (D k))) uids) as [props uids']. cbn [fst] in Hn.
  destruct Hin as [<-|Hin].
  - exists k, par. cbn. repeat split; auto.
  - destruct (IH _ _ Hin) as (k' & par' & Hin' & H). exists k', par'. split; [now right|exact H].
Qed.

Lemma built_in D p F i' : In i' (built D p F) ->
  exists k, In k (zfrefs F) /\ i_ref i' = lab D k /\ i_class i' = di_class (D k) /\ i_name i' = di_name (D k) /\
            uid_norm p (collect_props (di_props (D k))) (i_props i').
Proof.
  unfold built. intros Hin. apply uid_pass_in in Hin. destruct Hin as (k & par & Hin & H1 & _ & H3 & H4 & H5).
  exists k. split; [|auto]. apply in_map_iff in Hin. destruct Hin as ([t par'] & Heq & Hin).
  unfold qproj in Heq. cbn [fst snd] in Heq. injection Heq as Ek _.
  eapply Permutation_in; [apply (bfs_all_refs_perm D F)|]. apply in_map_iff. exists (t, par'). auto.
Qed.

(* every written instance is found in the decoded DOM under its new referent, with the class / name / properties
   the reader held for it before the PRNT chunk *)
Lemma reconstructs_instances D p ts f L out :
  reconstructs D p (List.map (WriterRows.ztree_of f) ts) out ->
  (forall r, In r (flat_map refs ts) -> lab D (f r) = L r /\ L r <> 0) ->
  forall r, In r (flat_map refs ts) ->
    exists i', find_inst out (L r) = Some i' /\ i_ref i' = L r /\ i_class i' = di_class (D (f r)) /\
               i_name i' = di_name (D (f r)) /\ uid_norm p (collect_props (di_props (D (f r)))) (i_props i').
Proof.
  intros (Hout & _ & Hperm & Hnd & _) HL r Hr.
  set (F := List.map (WriterRows.ztree_of f) ts) in *.
  assert (HzF : zfrefs F = List.map f (flat_map refs ts)) by apply WriterRows.zfrefs_ztree_of.
  assert (Hin : In (L r) (List.map i_ref out)).
  { eapply Permutation_in; [symmetry; exact Hperm|]. rewrite HzF, map_map. apply in_map_iff. exists r. split; [now apply HL|exact Hr]. }
  apply in_map_iff in Hin. destruct Hin as (i' & Hi' & Hin). exists i'.
  split; [rewrite <- Hi'; now apply find_inst_in|]. split; [exact Hi'|].
  pose proof Hin as Hb. rewrite Hout in Hb. apply built_in in Hb. destruct Hb as (k & Hk & E1 & E2 & E3 & E4).
  assert (k = f r); [|subst k; auto].
  (* labels are pairwise distinct on the forest *)
  assert (Hndl : NoDup (List.map (lab D) (zfrefs F))) by (eapply Permutation_NoDup; [exact Hperm|exact Hnd]).
  assert (Hfr : In (f r) (zfrefs F)) by (rewrite HzF; now apply in_map).
  assert (El : lab D k = lab D (f r)) by (rewrite <- E1, Hi'; symmetry; now apply HL).
  clear - Hndl Hk Hfr El. induction (zfrefs F) as [|x l IH]; [destruct Hk|]. cbn [List.map] in Hndl.
  apply NoDup_cons_iff in Hndl. destruct Hndl as [Hx Hndl].
  destruct Hk as [->|Hk], Hfr as [->|Hfr]; [reflexivity| | |now apply IH].
  - exfalso. apply Hx. rewrite El. now apply in_map.
  - exfalso. apply Hx. rewrite <- El. now apply in_map.
Qed.

Lemma registered_labels dom st ts insts :
  ss_relevant st = flat_map post ts -> registered dom st insts ->
  forall r, In r (flat_map refs ts) -> lab (dinst_of insts) (fz st r) = lbl st r /\ lbl st r <> 0.
Proof.
  intros Hrel Hreg r Hr. assert (Hr' : In r (ss_relevant st)).
  { rewrite Hrel. eapply Permutation_in; [symmetry; apply post_perm_refs_forest|exact Hr]. }
  destruct (Hreg r Hr') as (i & Hz & Hl & _). unfold lab, dinst_of. rewrite Hz. split; [exact Hl|]. unfold lbl. lia.
Qed.

(* MILESTONE 1, in the vocabulary of the source DOM *)
Theorem tree_roundtrip_forest d ep dom ts e p st1 :
  input_ok dom ts ->
  encode_chunks d ep dom (List.map root ts) = Ok e ->
  dp_lim p = None ->
  run_chunks d p dstate0 (removelast (en_chunks e)) = Ok st1 ->
  exists st out,
    add_instances d ep dom (List.map root ts) = Ok st /\
    decode_chunks d p (en_header e) (en_chunks e ++ [(CH_END, FILE_FOOTER)]) = Ok out /\
    same_forest dom ts (lbl st) out /\
    forall r, In r (flat_map refs ts) ->
      exists i', find_inst out (lbl st r) = Some i' /\ i_ref i' = lbl st r /\ i_class i' = class_of dom r.
Proof.
  intros Hin He Hlim Hrun. pose proof Hin as (Hwf & Hdom & Hag & Hnd & H0).
  destruct (tree_roundtrip d ep dom ts e p st1 Hin He Hlim Hrun) as (st & out & Hst & Hdec & Hrec & Hreg).
  destruct (enc_relevant_postorder _ _ _ _ _ Hag Hnd Hst) as [Hrel Hndr].
  pose proof (registered_labels dom st ts _ Hrel Hreg) as HL.
  exists st, out. split; [exact Hst|]. split; [exact Hdec|]. split; [eapply reconstructs_same_forest; eauto|].
  intros r Hr. destruct (reconstructs_instances _ _ _ _ _ _ Hrec HL r Hr) as (i' & Hf & Hi & Hc & _).
  exists i'. split; [exact Hf|]. split; [exact Hi|]. rewrite Hc.
  assert (Hr' : In r (ss_relevant st)).
  { rewrite Hrel. eapply Permutation_in; [symmetry; apply post_perm_refs_forest|exact Hr]. }
  destruct (Hreg r Hr') as (i & Hz & _ & Hcl & _). unfold dinst_of. now rewrite Hz.
Qed.
Print Assumptions tree_roundtrip_forest.

(* MILESTONE 2, in the vocabulary of the source DOM: no hypothesis on the reader beyond the column laws *)
Theorem values_roundtrip_dom d ep dom ts e p st R :
  input_ok dom ts -> names_ok dom ->
  encode_chunks d ep dom (List.map root ts) = Ok e ->
  add_instances d ep dom (List.map root ts) = Ok st ->
  dp_lim p = None ->
  sstr_ok st -> ser_names_ok st -> name_cols_ok st ->
  (forall x, In x (cols (ss_types st)) -> fst (snd x) <> NAME -> col_law d ep p dom st (stI_of st) x (R x)) ->
  exists out,
    decode_chunks d p (en_header e) (en_chunks e ++ [(CH_END, FILE_FOOTER)]) = Ok out /\
    same_forest dom ts (lbl st) out /\
    forall c ti k r, In (c, ti) (ss_types st) -> nth_error (ti_instances ti) k = Some r ->
      exists i', find_inst out (lbl st r) = Some i' /\ i_ref i' = lbl st r /\
        i_class i' = class_of dom r /\ i_name i' = i_name (src dom r) /\
        uid_norm p (collect_props (read_props p R (c, ti) k)) (i_props i').
Proof.
  intros Hin Hnames He Hst Hlim Hss Hser Hncol Hlaw. pose proof Hin as (Hwf & Hdom & Hag & Hnd & H0).
  destruct (values_roundtrip d ep dom ts e p st R Hin Hnames He Hst Hlim Hss Hser Hncol Hlaw) as (st1 & out & Hrun & Hdec & Hrec & Hz).
  destruct (enc_relevant_postorder _ _ _ _ _ Hag Hnd Hst) as [Hrel Hndr].
  destruct (enc_class_ids _ _ _ _ _ Hst) as (_ & _ & _ & _ & _ & Hall & _ & _).
  assert (Hreg : registered dom st (ds_insts st1)).
  { destruct (tree_roundtrip d ep dom ts e p st1 Hin He Hlim Hrun) as (st' & _ & Hst' & _ & _ & Hreg).
    assert (st' = st) by congruence. now subst st'. }
  pose proof (registered_labels dom st ts _ Hrel Hreg) as HL.
  exists out. split; [exact Hdec|]. split; [eapply reconstructs_same_forest; eauto|].
  intros c ti k r Hct Hk.
  assert (Hr' : In r (ss_relevant st)).
  { destruct (Hall c ti Hct) as (Hfil & _ & _). apply nth_error_In in Hk. rewrite Hfil in Hk. now apply filter_In in Hk. }
  assert (Hr : In r (flat_map refs ts)).
  { eapply Permutation_in; [apply post_perm_refs_forest|]. now rewrite <- Hrel. }
  destruct (reconstructs_instances _ _ _ _ _ _ Hrec HL r Hr) as (i' & Hf & Hi & Hc & Hn & Hp).
  destruct (Hz c ti k r Hct Hk) as (i & Hzi & _ & Hcl & _ & Hnm & Hpr).
  unfold dinst_of in Hc, Hn, Hp. rewrite Hzi in Hc, Hn, Hp.
  exists i'. split; [exact Hf|]. split; [exact Hi|]. split; [congruence|]. split; [congruence|]. now rewrite <- Hpr.
Qed.
Print Assumptions values_roundtrip_dom.

(* ================================================================ 4. the same for the bytes of the file *)
Definition frame_ok (p : dec_params) (cmp : compression) (e : encoded) : Prop :=
  Forall (fun c => sizes_ok cmp (snd c) /\
                   match cmp with
                   | None => True
                   | Some f => dp_inflate p (f (snd c)) (N.of_nat (length (snd c))) = Some (snd c)
                   end) (en_chunks e).

Lemma decode_file_chunks d ep cmp dom roots b p :
  encode_file d ep cmp dom roots = Ok b -> dp_lim p = None ->
  (forall e, encode_chunks d ep dom roots = Ok e -> frame_ok p cmp e) ->
  exists e, encode_chunks d ep dom roots = Ok e /\
            decode_file d p b = decode_chunks d p (en_header e) (en_chunks e ++ [(CH_END, FILE_FOOTER)]).
Proof.
  intros Hf Hl Hs. destruct (encode_file_inv _ _ _ _ _ _ Hf) as (e & He & ->). exists e. split; [exact He|].
  apply (decode_file_of_encode_chunks d ep dom roots e p cmp He Hl). exact (Hs e He).
Qed.

Theorem file_tree_roundtrip d ep cmp dom ts b p :
  input_ok dom ts ->
  encode_file d ep cmp dom (List.map root ts) = Ok b ->
  dp_lim p = None ->
  (forall e, encode_chunks d ep dom (List.map root ts) = Ok e ->
             frame_ok p cmp e /\ exists st1, run_chunks d p dstate0 (removelast (en_chunks e)) = Ok st1) ->
  exists st out,
    add_instances d ep dom (List.map root ts) = Ok st /\
    decode_file d p b = Ok out /\
    same_forest dom ts (lbl st) out /\
    forall r, In r (flat_map refs ts) ->
      exists i', find_inst out (lbl st r) = Some i' /\ i_ref i' = lbl st r /\ i_class i' = class_of dom r.
Proof.
  intros Hin Hf Hlim Hs.
  destruct (decode_file_chunks d ep cmp dom _ b p Hf Hlim (fun e He => proj1 (Hs e He))) as (e & He & ->).
  destruct (Hs e He) as (_ & st1 & Hrun). exact (tree_roundtrip_forest d ep dom ts e p st1 Hin He Hlim Hrun).
Qed.
Print Assumptions file_tree_roundtrip.

Theorem file_values_roundtrip d ep cmp dom ts b p st R :
  input_ok dom ts -> names_ok dom ->
  encode_file d ep cmp dom (List.map root ts) = Ok b ->
  add_instances d ep dom (List.map root ts) = Ok st ->
  dp_lim p = None ->
  (forall e, encode_chunks d ep dom (List.map root ts) = Ok e -> frame_ok p cmp e) ->
  sstr_ok st -> ser_names_ok st -> name_cols_ok st ->
  (forall x, In x (cols (ss_types st)) -> fst (snd x) <> NAME -> col_law d ep p dom st (stI_of st) x (R x)) ->
  exists out,
    decode_file d p b = Ok out /\
    same_forest dom ts (lbl st) out /\
    forall c ti k r, In (c, ti) (ss_types st) -> nth_error (ti_instances ti) k = Some r ->
      exists i', find_inst out (lbl st r) = Some i' /\ i_ref i' = lbl st r /\
        i_class i' = class_of dom r /\ i_name i' = i_name (src dom r) /\
        uid_norm p (collect_props (read_props p R (c, ti) k)) (i_props i').
Proof.
  intros Hin Hnames Hf Hst Hlim Hs Hss Hser Hncol Hlaw.
  destruct (decode_file_chunks d ep cmp dom _ b p Hf Hlim Hs) as (e & He & ->).
  exact (values_roundtrip_dom d ep dom ts e p st R Hin Hnames He Hst Hlim Hss Hser Hncol Hlaw).
Qed.
Print Assumptions file_values_roundtrip.

(* ================================================================ 5. MILESTONE 3: properties unknown to the database, simple types *)
(* what an unknown property's value is read back as: a String comes back as a BinaryString (to_default_rbx_type),
   a Ref is renamed to the new referent of its target (null when the target is not written) *)
Definition ref_new (st : ser_state) (r : N) : N := if existsb (N.eqb r) (ss_relevant st) then lbl st r else 0.
Definition norm_val (st : ser_state) (v : value) : value :=
  match v with VString s => VBinaryString s | VRef r => VRef (ref_new st r) | _ => v end.

(* columns with an exact column law: one constructor per column, sizes in range *)
Inductive simple_col : wire_type -> list value -> Prop :=
| sc_bool bs : simple_col WBool (List.map VBool bs)
| sc_int32 zs : Forall (fun z => in_i32 z = true) zs -> simple_col WInt32 (List.map VInt32 zs)
| sc_int64 zs : Forall (fun z => in_i64 z = true) zs -> simple_col WInt64 (List.map VInt64 zs)
| sc_float32 xs : Forall (fun x => f32_ok x = true) xs -> simple_col WFloat32 (List.map VFloat32 xs)
| sc_float64 xs : Forall (fun x => f64_ok x = true) xs -> simple_col WFloat64 (List.map VFloat64 xs)
| sc_string ss : Forall (fun s => N.of_nat (length s) < 2 ^ 32) ss -> simple_col WString (List.map VString ss)
| sc_bstring ss : Forall (fun s => N.of_nat (length s) < 2 ^ 32) ss -> simple_col WString (List.map VBinaryString ss)
| sc_ref rs : simple_col WRef (List.map VRef rs).

Lemma map_norm_id st l : (forall v, In v l -> norm_val st v = v) -> List.map (norm_val st) l = l.
Proof. intros H. rewrite <- (map_id l) at 2. now apply map_ext_in. Qed.

Lemma fz_range st r : (Z.of_nat (length (ss_relevant st)) <= 2147483647)%Z -> in_i32 (fz st r) = true.
Proof.
  intros Hlen. unfold fz. destruct (lookup r (enc_refs st)) as [z|] eqn:E; [|reflexivity].
  apply referent_table_range in E. destruct E as [E|E]; [|discriminate]. apply in_i32_range. lia.
Qed.

Lemma existsb_eqb_In r l : existsb (N.eqb r) l = true <-> In r l.
Proof.
  rewrite existsb_exists. split; [intros (x & Hx & E); apply N.eqb_eq in E; now subst|].
  intros H. exists r. split; [exact H|apply N.eqb_refl].
Qed.

(* the reader's Ref resolution in any state with the skeleton of the state after the INST chunks *)
Lemma resolve_ref d ep p dom ts st ds r :
  add_instances d ep dom (List.map root ts) = Ok st -> NoDup (ss_relevant st) ->
  same_skel (stI_of st) ds ->
  dc_resolve (prop_dctx p ds) (fz st r) = ref_new st r.
Proof.
  intros Hst Hndr (_ & _ & _ & _ & S5).
  destruct (insts_state d ep dom ts st (ss_sstr st) Hst Hndr) as (_ & _ & HregI & Hnone & _ & _). fold (stI_of st) in *.
  unfold prop_dctx, ref_new. cbn [dc_resolve]. specialize (S5 (fz st r)). unfold skelf in S5.
  destruct (existsb (N.eqb r) (ss_relevant st)) eqn:E.
  - apply existsb_eqb_In in E. rewrite (HregI r E) in S5. cbn [option_map] in S5.
    destruct (zfind (fz st r) (ds_insts ds)) as [i|]; [|discriminate]. cbn [option_map] in S5.
    unfold skel in S5. cbn [di_label di_class di_children] in S5. congruence.
  - assert (Hni : ~ In r (ss_relevant st)) by (intros H; apply existsb_eqb_In in H; congruence).
    assert (Ez : fz st r = (-1)%Z).
    { unfold fz, enc_refs. now rewrite referent_table_notin. }
    rewrite Ez in *. rewrite Hnone in S5.
    + destruct (zfind (-1)%Z (ds_insts ds)); [discriminate|reflexivity].
    + intros Hin. apply in_map_iff in Hin. destruct Hin as (r' & E' & Hr'). pose proof (fz_nonneg st r' Hndr Hr'). lia.
Qed.

Lemma find_canonical_unknown d ty c pname :
  find_desc_bin d (string_of_bytes c) (string_of_bytes pname) = Ok None ->
  find_canonical_property d ty c pname = Ok (Some (pname, to_default_rbx_type ty, None)).
Proof. intros H. unfold find_canonical_property. now rewrite H. Qed.

(* the column law instance of a simple column of a property the reader's database does not know *)
Lemma simple_col_law d ep p dom ts st (x : column) :
  add_instances d ep dom (List.map root ts) = Ok st -> NoDup (ss_relevant st) ->
  (Z.of_nat (length (ss_relevant st)) <= 2147483647)%Z -> dp_lim p = None ->
  find_desc_bin d (string_of_bytes (fst (fst x))) (string_of_bytes (pi_ser_name (snd (snd x)))) = Ok None ->
  simple_col (pi_type (snd (snd x))) (col_values ep dom x) ->
  col_law d ep p dom st (stI_of st) x
          (Some (pi_ser_name (snd (snd x)), None, List.map (norm_val st) (col_values ep dom x))).
Proof.
  intros Hst Hndr Hlen Hlim Hdb Hs. unfold col_law. cbv zeta.
  exists (to_default_rbx_type (pi_type (snd (snd x)))). split; [now apply find_canonical_unknown|].
  intros ds Hsk. set (c := enc_ctx_of ep st). set (dc := prop_dctx p ds).
  assert (Hdl : dc_lim dc = None) by exact Hlim.
  assert (Hb : forall ss, Forall (fun s => N.of_nat (length s) < 2 ^ 32) ss -> Forall (fun s => bstr_ok (dc_lim dc) s = true) ss).
  { intros ss H. rewrite Hdl. eapply Forall_impl; [|exact H]. intros a Ha. now apply bstr_ok_nolim. }
  remember (pi_type (snd (snd x))) as ty eqn:Ety. remember (col_values ep dom x) as vs eqn:Evs.
  destruct Hs as [bs|zs Hz|zs Hz|xs Hx|xs Hx|ss Hss|ss Hss|rs]; rewrite !map_length.
  - rewrite map_norm_id by (intros v Hv; apply in_map_iff in Hv; destruct Hv as (? & <- & _); reflexivity).
    apply (col_roundtrip_bool c dc bs []).
  - rewrite map_norm_id by (intros v Hv; apply in_map_iff in Hv; destruct Hv as (? & <- & _); reflexivity).
    apply (col_roundtrip_int32 c dc zs [] Hz).
  - rewrite map_norm_id by (intros v Hv; apply in_map_iff in Hv; destruct Hv as (? & <- & _); reflexivity).
    apply (col_roundtrip_int64 c dc zs [] Hz).
  - rewrite map_norm_id by (intros v Hv; apply in_map_iff in Hv; destruct Hv as (? & <- & _); reflexivity).
    apply (col_roundtrip_float32 c dc xs [] Hx).
  - rewrite map_norm_id by (intros v Hv; apply in_map_iff in Hv; destruct Hv as (? & <- & _); reflexivity).
    apply (col_roundtrip_float64 c dc xs [] Hx).
  - rewrite map_map. cbn [norm_val]. apply (col_string_unknown_property c dc ss [] (Hb ss Hss)).
  - rewrite map_norm_id by (intros v Hv; apply in_map_iff in Hv; destruct Hv as (? & <- & _); reflexivity).
    apply (col_binarystring_unknown_property c dc ss [] (Hb ss Hss)).
  - rewrite map_map. cbn [norm_val].
    destruct (col_roundtrip_ref c dc rs []) as (b & Hb1 & Hb2).
    { apply Forall_forall. intros r _. apply (fz_range st r Hlen). }
    exists b. split; [exact Hb1|]. cbn [to_default_rbx_type]. rewrite Hb2. do 2 f_equal. apply map_ext. intros r.
    f_equal. apply (resolve_ref d ep p dom ts st ds r Hst Hndr Hsk).
Qed.

(* the reader's side of every column when all properties are unknown to its database *)
Definition plain_read (ep : enc_params) (dom : cdom) (st : ser_state) : column -> col_read :=
  fun x => Some (pi_ser_name (snd (snd x)), None, List.map (norm_val st) (col_values ep dom x)).

Definition plain_cols (d : db) (ep : enc_params) (dom : cdom) (st : ser_state) : Prop :=
  forall x, In x (cols (ss_types st)) -> fst (snd x) <> NAME ->
    find_desc_bin d (string_of_bytes (fst (fst x))) (string_of_bytes (pi_ser_name (snd (snd x)))) = Ok None /\
    simple_col (pi_type (snd (snd x))) (col_values ep dom x).

(* the property list the reader collects for the written instance r of a class with property table ti_props ti:
   one entry per column other than Name, in column order: the serialized name and the normalised value that
   serialize_properties wrote for r (its own value, or the column default when r lacks the property) *)
Definition plain_props (ep : enc_params) (dom : cdom) (st : ser_state) (ti : type_info) (r : N) : list (bytes * value) :=
  List.map (fun cp => (pi_ser_name (snd cp),
                       norm_val st (prop_value ep (fst cp) (snd cp) (ep_order ep (pi_aliases (snd cp))) (src dom r))))
           (filter (fun cp => negb (bytes_eqb (fst cp) NAME)) (ti_props ti)).

Lemma read_props_plain p ep dom st c ti k r :
  nth_error (ti_instances ti) k = Some r ->
  read_props p (plain_read ep dom st) (c, ti) k = plain_props ep dom st ti r.
Proof.
  intros Hk. unfold read_props, plain_props. cbn [snd].
  assert (G : forall l acc, fold_left (col_props p (plain_read ep dom st) (c, ti) k) l acc
              = acc ++ List.map (fun cp => (pi_ser_name (snd cp),
                                     norm_val st (prop_value ep (fst cp) (snd cp) (ep_order ep (pi_aliases (snd cp))) (src dom r))))
                               (filter (fun cp => negb (bytes_eqb (fst cp) NAME)) l)).
  { induction l as [|[canon pi] l IH]; intros acc; [now rewrite app_nil_r|]. cbn [fold_left filter]. rewrite IH.
    assert (Hn : nth_error (List.map (norm_val st) (col_values ep dom (c, ti, (canon, pi)))) k
                 = Some (norm_val st (prop_value ep canon pi (ep_order ep (pi_aliases pi)) (src dom r)))).
    { unfold col_values. apply map_nth_error. apply map_nth_error. now apply map_nth_error. }
    unfold col_props at 1. cbn [fst snd]. destruct (bytes_eqb canon NAME); cbn [negb]; [reflexivity|].
    change (plain_read ep dom st (c, ti, (canon, pi)))
      with (Some (pi_ser_name pi, @None (bytes * migop), List.map (norm_val st) (col_values ep dom (c, ti, (canon, pi))))).
    cbv iota beta. rewrite Hn.
    cbn [add_prop List.map]. now rewrite <- app_assoc. }
  apply (G (ti_props ti) []).
Qed.

Lemma bremove_incl {V} k (m : list (bytes * V)) : incl (bremove k m) m.
Proof.
  induction m as [|[k' v] m IH]; [apply incl_refl|]. cbn [bremove]. destruct (bytes_eqb k k').
  - apply incl_tl, IH.
  - intros x [<-|Hx]; [now left|right; now apply IH].
Qed.

Lemma collect_props_in l kv : In kv (collect_props l) -> In kv l.
Proof.
  unfold collect_props.
  assert (G : forall l m, In kv (fold_left (fun m kv => bupd (fst kv) (snd kv) m) l m) -> In kv m \/ In kv l).
  { induction l0 as [|[k v] l0 IH]; intros m H; [now left|]. cbn [fold_left fst snd] in H. apply IH in H.
    destruct H as [H|H]; [|right; now right]. unfold bupd in H. destruct H as [<-|H]; [right; now left|].
    left. now apply (bremove_incl k m). }
  intros H. apply G in H. destruct H as [[]|H]. exact H.
Qed.

Lemma uid_norm_eq p props props' :
  (forall a b c, ~ In (UNIQUE_ID, VUniqueId a b c) props) -> uid_norm p props props' -> props' = props.
Proof.
  intros Hno [->|(a & b & c & Hf & _)]; [reflexivity|]. exfalso. apply (Hno a b c). now apply bfind_in.
Qed.

Lemma simple_no_uid st ty vs : simple_col ty vs -> forall v, In v vs -> forall a b c, norm_val st v <> VUniqueId a b c.
Proof.
  intros Hs v Hv a b c. destruct Hs; apply in_map_iff in Hv; destruct Hv as (? & <- & _); discriminate.
Qed.

(* MILESTONE 3: a DOM all of whose (written) properties are unknown to the database and of simple types *)
Theorem plain_roundtrip d ep cmp dom ts b p st :
  input_ok dom ts -> names_ok dom ->
  encode_file d ep cmp dom (List.map root ts) = Ok b ->
  add_instances d ep dom (List.map root ts) = Ok st ->
  dp_lim p = None ->
  (forall e, encode_chunks d ep dom (List.map root ts) = Ok e -> frame_ok p cmp e) ->
  sstr_ok st -> ser_names_ok st -> name_cols_ok st -> plain_cols d ep dom st ->
  exists out,
    decode_file d p b = Ok out /\
    same_forest dom ts (lbl st) out /\
    forall c ti k r, In (c, ti) (ss_types st) -> nth_error (ti_instances ti) k = Some r ->
      exists i', find_inst out (lbl st r) = Some i' /\ i_ref i' = lbl st r /\
        i_class i' = class_of dom r /\ i_name i' = i_name (src dom r) /\
        i_props i' = collect_props (plain_props ep dom st ti r).
Proof.
  intros Hin Hnames Hf Hst Hlim Hs Hss Hser Hncol Hplain. pose proof Hin as (Hwf & Hdom & Hag & Hnd & H0).
  destruct (enc_relevant_postorder _ _ _ _ _ Hag Hnd Hst) as [Hrel Hndr].
  assert (Hlen : (Z.of_nat (length (ss_relevant st)) <= 2147483647)%Z).
  { destruct (encode_file_inv _ _ _ _ _ _ Hf) as (e & He & _).
    destruct (BinStructure.encode_chunks_inv _ _ _ _ _ He) as (st' & _ & _ & _ & _ & Hst' & Hlen & _).
    assert (st' = st) by congruence. now subst st'. }
  destruct (file_values_roundtrip d ep cmp dom ts b p st (plain_read ep dom st) Hin Hnames Hf Hst Hlim Hs Hss Hser Hncol)
    as (out & Hdec & Hforest & Hinst).
  { intros x Hx Hn. destruct (Hplain x Hx Hn) as [Hdb Hsc]. unfold plain_read. eapply simple_col_law; eauto. }
  exists out. split; [exact Hdec|]. split; [exact Hforest|].
  intros c ti k r Hct Hk. destruct (Hinst c ti k r Hct Hk) as (i' & H1 & H2 & H3 & H4 & H5).
  exists i'. repeat (split; [assumption|]). rewrite (read_props_plain p ep dom st c ti k r Hk) in H5.
  apply (uid_norm_eq p _ _) in H5; [exact H5|].
  intros a b0 c0 Hi. apply collect_props_in in Hi. unfold plain_props in Hi. apply in_map_iff in Hi.
  destruct Hi as ([canon pi] & E & Hcp). cbn [fst snd] in E. injection E as _ E.
  apply filter_In in Hcp. destruct Hcp as [Hcp Hnn]. cbn [fst] in Hnn. apply negb_true_iff in Hnn.
  assert (Hx : In (c, ti, (canon, pi)) (cols (ss_types st))).
  { unfold cols. apply in_flat_map. exists (c, ti). split; [exact Hct|]. apply in_map_iff. exists (canon, pi). auto. }
  destruct (Hplain _ Hx) as [_ Hsc]. { cbn [fst snd]. now apply bytes_eqb_false_neq. }
  cbn [fst snd] in Hsc. revert E. apply (simple_no_uid st _ _ Hsc).
  unfold col_values. apply in_map. apply in_map. eapply nth_error_In; eauto.
Qed.
Print Assumptions plain_roundtrip.

(* ================================================================ 6. a worked example: every hypothesis discharged on sample_dom *)
Module SampleRoundTrip.
Definition sample_st : ser_state :=
  Eval vm_compute in match add_instances db0 ep0 sample_dom [1] with Ok s => s | _ => ser_state0 end.
Definition sample_enc : encoded :=
  Eval vm_compute in match encode_chunks db0 ep0 sample_dom [1] with Ok e => e | _ => mkEnc [] [] end.

Lemma sample_st_ok : add_instances db0 ep0 sample_dom (List.map root [sample_tree]) = Ok sample_st.
Proof. vm_compute. reflexivity. Qed.
Lemma sample_enc_ok : encode_chunks db0 ep0 sample_dom (List.map root [sample_tree]) = Ok sample_enc.
Proof. vm_compute. reflexivity. Qed.

Lemma sample_input_ok : input_ok sample_dom [sample_tree].
Proof.
  split; [|split; [|split; [|split]]].
  - cbn. repeat constructor; cbn; intuition discriminate.
  - repeat constructor; vm_compute; reflexivity.
  - repeat (constructor; try (vm_compute; reflexivity)).
  - cbn. repeat constructor; cbn; intuition discriminate.
  - cbn. intuition discriminate.
Qed.

Lemma sample_names_ok : names_ok sample_dom.
Proof. repeat constructor; vm_compute; reflexivity. Qed.

Lemma sample_frame_ok e : encode_chunks db0 ep0 sample_dom (List.map root [sample_tree]) = Ok e -> frame_ok (dp0 None) None e.
Proof.
  rewrite sample_enc_ok. intros [= <-]. unfold frame_ok, sample_enc. cbn [en_chunks].
  repeat (constructor; [split; [split; [vm_compute; reflexivity|exact I]|exact I]|]). constructor.
Qed.

Lemma sample_sstr_ok : sstr_ok sample_st.
Proof. split; [vm_compute; reflexivity|constructor]. Qed.

Lemma sample_ser_names_ok : ser_names_ok sample_st.
Proof.
  intros x Hx. vm_compute in Hx.
  repeat (destruct Hx as [<-|Hx]; [split; vm_compute; reflexivity|]). contradiction.
Qed.

Lemma sample_name_cols_ok : name_cols_ok sample_st.
Proof.
  intros c ti Hct. vm_compute in Hct.
  destruct Hct as [[= <- <-]|[[= <- <-]|[]]]; (split; [eexists; left; reflexivity|]);
    intros canon pi Hcp; cbn [ti_props] in Hcp;
    repeat (destruct Hcp as [[= <- <-]|Hcp];
            [split; [split; intros E; first [reflexivity|discriminate E]|intros E; first [split; reflexivity|discriminate E]]|]);
    contradiction.
Qed.

Lemma sample_plain_cols : plain_cols db0 ep0 sample_dom sample_st.
Proof.
  intros x Hx Hn. vm_compute in Hx.
  destruct Hx as [<-|[<-|[<-|[<-|[<-|[<-|[]]]]]]].
  - exfalso. apply Hn. reflexivity.
  - split; [vm_compute; reflexivity|]. change (simple_col WInt32 (List.map VInt32 [(-3)%Z; 7%Z])). constructor. repeat constructor.
  - split; [vm_compute; reflexivity|]. change (simple_col WBool (List.map VBool [false; true])). constructor.
  - split; [vm_compute; reflexivity|]. change (simple_col WRef (List.map VRef [1; 0])). constructor.
  - exfalso. apply Hn. reflexivity.
  - split; [vm_compute; reflexivity|]. change (simple_col WString (List.map VString [bstr "hi"])). constructor.
    repeat constructor.
Qed.

(* Milestone 3 applies to the sample file: decode_file (encode_file sample_dom) is the same forest with the
   normalised property maps *)
Example sample_plain_roundtrip :
  exists out,
    decode_file db0 (dp0 None) sample_file = Ok out /\
    same_forest sample_dom [sample_tree] (lbl sample_st) out /\
    forall c ti k r, In (c, ti) (ss_types sample_st) -> nth_error (ti_instances ti) k = Some r ->
      exists i', find_inst out (lbl sample_st r) = Some i' /\ i_ref i' = lbl sample_st r /\
        i_class i' = class_of sample_dom r /\ i_name i' = i_name (src sample_dom r) /\
        i_props i' = collect_props (plain_props ep0 sample_dom sample_st ti r).
Proof.
  apply (plain_roundtrip db0 ep0 None sample_dom [sample_tree] sample_file (dp0 None) sample_st).
  - exact sample_input_ok.
  - exact sample_names_ok.
  - exact sample_encodes.
  - exact sample_st_ok.
  - reflexivity.
  - exact sample_frame_ok.
  - exact sample_sstr_ok.
  - exact sample_ser_names_ok.
  - exact sample_name_cols_ok.
  - exact sample_plain_cols.
Qed.

(* and the theorem's description agrees with the computed output (BinFileFacts.sample_roundtrip): the new referents
   are 2, 1, 3 for the source instances 1, 2, 3; the Ref of instance 2 to instance 1 is renamed to 2; the String of
   the unknown property S comes back as a BinaryString; the missing Q / R of the second Folder0 are the defaults *)
Example sample_described :
  List.map (lbl sample_st) [1; 2; 3] = [2; 1; 3] /\
  List.map (fun r => collect_props (plain_props ep0 sample_dom sample_st
                        (match bfind (class_of sample_dom r) (ss_types sample_st) with Some ti => ti | None => mkTI 0 false [] [] None [] end) r))
           [1; 2; 3]
  = [ [(bstr "R", VRef 0); (bstr "Q", VBool true); (bstr "P", VInt32 7%Z)];
      [(bstr "R", VRef 2); (bstr "Q", VBool false); (bstr "P", VInt32 (-3)%Z)];
      [(bstr "S", VBinaryString (bstr "hi"))] ].
Proof. split; vm_compute; reflexivity. Qed.

(* Milestone 1 on the sample: the side hypothesis (the reader accepts the SSTR / INST / PROP prefix) holds *)
Example sample_tree_roundtrip :
  exists st1, run_chunks db0 (dp0 None) dstate0 (removelast (en_chunks sample_enc)) = Ok st1 /\
  exists st out,
    add_instances db0 ep0 sample_dom (List.map root [sample_tree]) = Ok st /\
    decode_chunks db0 (dp0 None) (en_header sample_enc) (en_chunks sample_enc ++ [(CH_END, FILE_FOOTER)]) = Ok out /\
    same_forest sample_dom [sample_tree] (lbl st) out.
Proof.
  eexists. split; [vm_compute; reflexivity|].
  edestruct (tree_roundtrip_forest db0 ep0 sample_dom [sample_tree] sample_enc (dp0 None)) as (st & out & H1 & H2 & H3 & _);
    [exact sample_input_ok|exact sample_enc_ok|reflexivity|vm_compute; reflexivity|].
  exists st, out. auto.
Qed.
End SampleRoundTrip.

(* ================================================================ 7. findings: the hypotheses of input_ok are needed *)
(* FINDING (needed hypothesis).  Referents must be unique in the DOM handed to the encoder: serialize_parents reads the
   parent of a written instance through get_by_ref (find_inst = first match).  With a second instance carrying the
   referent 2 (listed first, parent 9 not written), the subtree 1 -> [2] (shapes read off children_of: agrees holds,
   no overlap) is written with BOTH parent entries -1 and read back as two roots. *)
Definition dup_dom : cdom :=
  [ mkInst 2 9 (bstr "A") (bstr "x") []; mkInst 1 0 (bstr "A") (bstr "b") []; mkInst 2 1 (bstr "A") (bstr "c") [] ].
Example duplicate_referent_breaks_forest :
  Forall (agrees (children_of dup_dom)) [Node 1 [Node 2 []]] /\ NoDup (flat_map refs [Node 1 [Node 2 []]]) /\
  ~ In 0 (flat_map refs [Node 1 [Node 2 []]]) /\
  exists b out, encode_file db0 ep0 None dup_dom [1] = Ok b /\ decode_file db0 (dp0 None) b = Ok out /\
                children_of out 0 = [1; 2] /\ children_of out 2 = [].
Proof.
  split; [repeat (constructor; try (vm_compute; reflexivity))|].
  split; [cbn; repeat constructor; cbn; intuition discriminate|].
  split; [cbn; intuition discriminate|].
  eexists. eexists. split; [vm_compute; reflexivity|]. split; [vm_compute; reflexivity|]. split; vm_compute; reflexivity.
Qed.

(* FINDING (needed hypothesis).  0 must not be the referent of a written instance: i_parent = 0 means "child of the
   DOM root" and is written as -1, so the child 1 of the instance with referent 0 comes back as a second root. *)
Definition zero_dom : cdom := [ mkInst 0 5 (bstr "A") (bstr "a") []; mkInst 1 0 (bstr "A") (bstr "b") [] ].
Example zero_referent_breaks_forest :
  NoDup (List.map i_ref zero_dom) /\
  Forall (agrees (children_of zero_dom)) [Node 0 [Node 1 []]] /\ NoDup (flat_map refs [Node 0 [Node 1 []]]) /\
  exists b out, encode_file db0 ep0 None zero_dom [0] = Ok b /\ decode_file db0 (dp0 None) b = Ok out /\
                children_of out 0 = [1; 2] /\ children_of out 2 = [].
Proof.
  split; [cbn; repeat constructor; cbn; intuition discriminate|].
  split; [repeat (constructor; try (vm_compute; reflexivity))|].
  split; [cbn; repeat constructor; cbn; intuition discriminate|].
  eexists. eexists. split; [vm_compute; reflexivity|]. split; [vm_compute; reflexivity|]. split; vm_compute; reflexivity.
Qed.

(* ================================================================ 8. every class has a Name column (from the model) *)
(* TypeInfos::get_or_create seeds every class with the entry "Name" (String, serialized as "Name"); collect_type_info
   only adds entries under other keys or rewrites the aliases / migration of an existing entry *)
Definition name_entry (ti : type_info) : Prop :=
  (exists pi, In (NAME, pi) (ti_props ti)) /\
  forall pi, In (NAME, pi) (ti_props ti) -> pi_type pi = WString /\ pi_ser_name pi = NAME.

Lemma in_binsert {V} (kv kv' : bytes * V) l : In kv' (binsert kv l) <-> kv' = kv \/ In kv' l.
Proof.
  split.
  - intros H. apply (Permutation_in _ (binsert_perm kv l)) in H. destruct H as [<-|H]; auto.
  - intros H. apply (Permutation_in _ (Permutation_sym (binsert_perm kv l))). destruct H as [->|H]; [now left|now right].
Qed.

Lemma in_bset {V} k (v v0 : V) m : bfind k m = Some v0 ->
  forall k' v', In (k', v') (bset k v m) <-> (k' = k /\ v' = v) \/ (In (k', v') m /\ (k', v') <> (k, v0)) \/ (In (k', v') m /\ In (k', v') (bset k v m)).
Proof.
  intros Hf k' v'. destruct (bfind_split _ _ _ Hf) as (l1 & l2 & -> & Hni & Hb). rewrite (Hb v). split.
  - intros H. apply in_app_or in H. destruct H as [H|[[= <- <-]|H]].
    + right. right. split; apply in_or_app; now left.
    + left. auto.
    + right. right. split; apply in_or_app; right; now right.
  - intros [[-> ->]|[[H Hne]|[_ H]]]; [apply in_or_app; right; now left| |exact H].
    apply in_app_or in H. destruct H as [H|[E|H]]; [apply in_or_app; now left|congruence|apply in_or_app; right; now right].
Qed.

Lemma in_bset_cases {V} k (v v0 : V) m : bfind k m = Some v0 ->
  forall k' v', In (k', v') (bset k v m) -> (k' = k /\ v' = v) \/ In (k', v') m.
Proof. intros Hf k' v' H. apply (in_bset k v v0 m Hf) in H. tauto. Qed.

Lemma in_bset_other {V} k (v v0 : V) m : bfind k m = Some v0 ->
  forall k' v', k' <> k -> In (k', v') m -> In (k', v') (bset k v m).
Proof. intros Hf k' v' Hne H. apply (in_bset k v v0 m Hf). right. left. split; [exact H|congruence]. Qed.

Lemma in_bset_same {V} k (v v0 : V) m : bfind k m = Some v0 -> In (k, v) (bset k v m).
Proof. intros Hf. apply (in_bset k v v0 m Hf). left. auto. Qed.

Lemma name_entry_props ti ti' : ti_props ti' = ti_props ti -> name_entry ti -> name_entry ti'.
Proof. unfold name_entry. now intros ->. Qed.

Lemma cti_prop_name_entry d class ss ti pv ss' ti' :
  cti_prop d class (ss, ti) pv = Ok (ss', ti') -> name_entry ti -> name_entry ti'.
Proof.
  destruct pv as [pname pvalue]. unfold cti_prop. intros H Hne.
  destruct (bmem pname (ti_visited ti)); [now injection H as _ <-|].
  destruct (resolve_prop d class pname pvalue) as [[|canonical serialized ser_ty migration]| | |]; cbn [rbind] in H; try discriminate.
  { injection H as _ <-. exact Hne. }
  cbn [ti_props ti_class ti_id ti_service ti_instances ti_visited] in H.
  match type of H with rbind ?X _ = _ => destruct X as [[ss1 ti1]| | |] eqn:E1 end; cbn [rbind] in H; try discriminate.
  assert (H1 : name_entry ti1).
  { destruct (bfind canonical (ti_props ti)) eqn:Ef.
    - injection E1 as _ <-. exact Hne.
    - match type of E1 with rbind ?X _ = _ => destruct X as [dbdef| | |] end; cbn [rbind] in E1; try discriminate.
      match type of E1 with match ?X with _ => _ end = _ => destruct X as [dv|] end; [|discriminate].
      destruct (from_rbx_type ser_ty) as [ser_type|]; [|discriminate].
      injection E1 as _ <-. destruct Hne as [(pi0 & Hin0) Hall]. unfold name_entry. cbn [ti_props].
      assert (Hcn : canonical <> NAME).
      { intros ->. apply (bfind_none_notin _ _ Ef). apply in_map_iff. exists (NAME, pi0). auto. }
      split.
      + exists pi0. apply in_binsert. now right.
      + intros pi Hin. apply in_binsert in Hin. destruct Hin as [[= E _]|Hin]; [congruence|now apply Hall]. }
  destruct (bytes_eqb pname canonical); [now injection H as _ <-|].
  destruct (bfind canonical (ti_props ti1)) as [pi1|] eqn:Ef1; [|discriminate].
  injection H as _ <-. destruct H1 as [(pi0 & Hin0) Hall]. unfold name_entry. cbn [ti_props]. split.
  - destruct (bytes_eqb canonical NAME) eqn:En.
    + apply bytes_eqb_eq in En. subst canonical. eexists. eapply in_bset_same; eauto.
    + exists pi0. eapply in_bset_other; eauto. apply not_eq_sym. now apply bytes_eqb_false_neq.
  - intros pi Hin. apply (in_bset_cases _ _ _ _ Ef1) in Hin. destruct Hin as [[<- ->]|Hin]; [|now apply Hall].
    cbn [pi_type pi_ser_name]. apply Hall. now apply bfind_in.
Qed.

Lemma cti_fold_name_entry d class l : forall ss ti ss' ti',
  fold_res (cti_prop d class) (ss, ti) l = Ok (ss', ti') -> name_entry ti -> name_entry ti'.
Proof.
  induction l as [|pv l IH]; intros ss ti ss' ti'; cbn [fold_res]; [now intros [= _ <-]|].
  destruct (cti_prop d class (ss, ti) pv) as [[ss1 ti1]| | |] eqn:E; cbn [rbind]; try discriminate.
  intros H Hne. eapply IH; [exact H|]. eapply cti_prop_name_entry; eauto.
Qed.

Definition table_name_entry (types : list (bytes * type_info)) : Prop := forall c ti, In (c, ti) types -> name_entry ti.

Lemma new_type_info_name_entry d id class : name_entry (new_type_info d id class).
Proof.
  unfold name_entry, new_type_info. cbn [ti_props]. split; [eexists; now left|].
  intros pi [[= <-]|[]]. split; reflexivity.
Qed.

Lemma collect_type_info_name_entry d st i st' :
  collect_type_info d st i = Ok st' -> table_name_entry (ss_types st) -> table_name_entry (ss_types st').
Proof.
  unfold collect_type_info. intros H Ht.
  destruct (bfind (i_class i) (ss_types st)) as [ti0|] eqn:Hf.
  - match type of H with rbind ?X _ = _ => destruct X as [[ss2 ti2]| | |] eqn:Ef end; cbn [rbind] in H; try discriminate.
    injection H as <-. cbn [ss_types]. intros c ti Hin. apply (in_bset_cases _ _ _ _ Hf) in Hin.
    destruct Hin as [[-> ->]|Hin]; [|now apply (Ht c ti)].
    eapply cti_fold_name_entry; [exact Ef|]. eapply name_entry_props; [|apply (Ht (i_class i) ti0); now apply bfind_in]. reflexivity.
  - match type of H with rbind ?X _ = _ => destruct X as [[ss2 ti2]| | |] eqn:Ef end; cbn [rbind] in H; try discriminate.
    injection H as <-. cbn [ss_types]. intros c ti Hin.
    assert (Hf' : bfind (i_class i) (binsert (i_class i, new_type_info d (ss_next_id st) (i_class i)) (ss_types st))
                  = Some (new_type_info d (ss_next_id st) (i_class i))) by (now apply BinStructure.bfind_binsert_same).
    apply (in_bset_cases _ _ _ _ Hf') in Hin. destruct Hin as [[-> ->]|Hin].
    + eapply cti_fold_name_entry; [exact Ef|]. eapply name_entry_props; [|apply (new_type_info_name_entry d (ss_next_id st) (i_class i))]. reflexivity.
    + apply in_binsert in Hin. destruct Hin as [[= -> ->]|Hin]; [apply new_type_info_name_entry|now apply (Ht c ti)].
Qed.

Lemma add_loop_name_entry d dom : forall fuel outer stack lv st st',
  table_name_entry (ss_types st) -> add_loop fuel d dom outer stack lv st = Ok st' -> table_name_entry (ss_types st').
Proof.
  induction fuel as [|f IH]; intros outer stack lv st st' Hinv H; [discriminate|].
  cbn [add_loop] in H. destruct stack as [|x rest]; [now injection H as <-|].
  destruct (find_inst dom x) as [inst|] eqn:Hfi; [|discriminate].
  destruct outer; [now apply IH in H|].
  destruct (negb (is_nil (children_of dom x)) && negb (opt_eqb (last_opt (children_of dom x)) lv))%bool; [now apply IH in H|].
  destruct (collect_type_info d _ inst) as [st1| | |] eqn:E; cbn [rbind] in H; try discriminate.
  eapply IH; [|exact H]. eapply collect_type_info_name_entry; [exact E|]. exact Hinv.
Qed.

(* the answer to "does every class get a Name column": yes, of type String, serialized as "Name" *)
Theorem enc_name_entry d ep dom roots st :
  add_instances d ep dom roots = Ok st -> forall c ti, In (c, ti) (ss_types st) -> name_entry ti.
Proof.
  intros H. destruct (add_instances_inv _ _ _ _ _ H) as (st0 & Hl & _ & Ht & _). rewrite Ht.
  eapply add_loop_name_entry; [|exact Hl]. intros c ti [].
Qed.
Print Assumptions enc_name_entry.

(* so name_cols_ok reduces to: no other column is serialized as "Name", and the Name column carries no migration
   (both hold unless the database has a property that aliases or migrates to/from "Name") *)
Lemma name_cols_ok_intro d ep dom roots st :
  add_instances d ep dom roots = Ok st ->
  (forall c ti canon pi, In (c, ti) (ss_types st) -> In (canon, pi) (ti_props ti) ->
     (pi_ser_name pi = NAME -> canon = NAME) /\ (canon = NAME -> pi_migration pi = None)) ->
  name_cols_ok st.
Proof.
  intros Hst H c ti Hct. destruct (enc_name_entry _ _ _ _ _ Hst c ti Hct) as [Hex Hall]. split; [exact Hex|].
  intros canon pi Hcp. destruct (H c ti canon pi Hct Hcp) as [H1 H2]. split; [split; [exact H1|]|].
  - intros ->. now apply Hall.
  - intros ->. split; [now apply Hall|now apply H2].
Qed.

(* ================================================================ 9. MILESTONE 1, instance names (reader only assumed to accept the PROP chunks) *)
Definition namef (insts : list (Z * dinst)) (k : Z) : option bytes := option_map di_name (zfind k insts).

Lemma apply_values_names {A} (f : dinst -> A -> dinst) : (forall i v, di_name (f i v) = di_name i) ->
  forall rs vs insts insts', apply_values f insts rs vs = Ok insts' -> forall k, namef insts' k = namef insts k.
Proof.
  intros Hf. induction rs as [|r rs IH]; intros vs insts insts' H k; cbn [apply_values] in H; [now injection H as <-|].
  destruct vs as [|v vs]; [now injection H as <-|]. destruct (zfind r insts) as [i|] eqn:E; [|discriminate].
  rewrite (IH _ _ _ H). unfold namef. destruct (Z.eq_dec r k) as [<-|Hne].
  - rewrite zfind_zupd_same, E. cbn. now rewrite Hf.
  - now rewrite zfind_zupd_other.
Qed.

(* a written PROP chunk whose serialized name is not "Name", if accepted, changes no instance name *)
Lemma written_prop_keeps_names d p ds ds' type_id cname rs pname ty col :
  type_id < 2 ^ 32 -> lookup type_id (ds_types ds) = Some (mkDT cname rs) ->
  N.of_nat (length pname) < 2 ^ 32 -> dp_lim p = None -> Utf8.utf8_valid pname = true -> bytes_eqb pname NAME = false ->
  decode_prop d p ds (w_le32 type_id ++ w_bstr pname ++ w_u8 (wire_id ty) ++ col) = Ok ds' ->
  forall k, namef (ds_insts ds') k = namef (ds_insts ds) k.
Proof.
  intros Ht Hty Hl Hlim Hu Hn H.
  rewrite (decode_prop_after_header d p ds _ type_id pname (w_u8 (wire_id ty) ++ col) (mkDT cname rs)) in H;
    [|apply prop_header_app; auto; now rewrite Hlim|exact Hty].
  cbn [w_u8 app] in H. rewrite wire_of_id_wire_id, Hn in H. cbn [dt_name dt_referents] in H.
  destruct (find_canonical_property d ty cname pname) as [[[[name cty] mig]|]| | |]; cbn [rbind] in H; try discriminate.
  2:{ now injection H as <-. }
  destruct (run_chunk _ col) as [vs| | |]; cbn [rbind] in H; try discriminate.
  destruct (apply_values _ (ds_insts ds) rs vs) as [insts'| | |] eqn:E; cbn [rbind] in H; try discriminate.
  injection H as <-. cbn [with_insts ds_insts]. eapply apply_values_names; [|exact E]. intros i v. apply add_property_name.
Qed.

Section NamesPhase.
Variables (d : db) (ep : enc_params) (p : dec_params) (dom : cdom) (ts : list tree) (st : ser_state) (stI : dstate).
Hypothesis Hst : add_instances d ep dom (List.map root ts) = Ok st.
Hypothesis Hndr : NoDup (ss_relevant st).
Hypothesis Hlen : (Z.of_nat (length (ss_relevant st)) <= 2147483647)%Z.
Hypothesis Hlim : dp_lim p = None.
Hypothesis Hnames : names_ok dom.
Hypothesis Hser : ser_names_ok st.
Hypothesis Hncol : name_cols_ok st.
Hypothesis Hreg : registered0 dom st (ds_insts stI).
Hypothesis Hndz : NoDup (List.map (fz st) (inst_order (ss_types st))).
Hypothesis Hlook : forall c ti, In (c, ti) (ss_types st) ->
     lookup (ti_id ti) (ds_types stI) = Some (mkDT c (List.map (fz st) (ti_instances ti))).

(* the Name column of r's class is among the columns xs *)
Definition named_by (xs : list column) (r : N) : Prop :=
  exists x, In x xs /\ fst (snd x) = NAME /\ In r (ti_instances (snd (fst x))).

Lemma one_chunk_names x ch ds ds' :
  In x (cols (ss_types st)) -> prop_chunk ep dom (enc_ctx_of ep st) (snd (fst x)) (snd x) = Ok ch ->
  same_skel stI ds -> decode_prop d p ds (snd ch) = Ok ds' ->
  forall r, In r (ss_relevant st) ->
    (fst (snd x) = NAME /\ In r (ti_instances (snd (fst x))) -> namef (ds_insts ds') (fz st r) = Some (i_name (src dom r))) /\
    (~ (fst (snd x) = NAME /\ In r (ti_instances (snd (fst x)))) -> namef (ds_insts ds') (fz st r) = namef (ds_insts ds) (fz st r)).
Proof.
  intros Hx Hch Hsk Hd r Hr.
  destruct (bytes_eqb (fst (snd x)) NAME) eqn:En.
  - (* a Name column: col_task_ok describes the chunk, whatever the other columns' laws *)
    apply bytes_eqb_eq in En.
    assert (Htask : task_ok d p stI (col_rs st x, col_updates p dom (fun _ => None) x, ch)).
    { eapply col_task_ok; eauto. intros Hn. contradiction. }
    destruct ch as [nm payload]. destruct Htask as (_ & Hnd & Hrs & _ & Hdec). cbn [snd] in Hd, Hdec.
    rewrite (Hdec ds Hsk) in Hd.
    destruct (apply_updates_spec (col_rs st x) (col_updates p dom (fun _ => None) x) (ds_insts ds) Hnd) as (insts' & Hap & Hz).
    { intros z Hzr. specialize (Hrs z Hzr). destruct Hsk as (_ & _ & _ & _ & S5). specialize (S5 z). unfold skelf in S5.
      destruct (zfind z (ds_insts ds)); [discriminate|]. destruct (zfind z (ds_insts stI)); [discriminate|contradiction]. }
    rewrite Hap in Hd. cbn [rbind] in Hd. injection Hd as <-. cbn [with_insts ds_insts]. unfold namef. rewrite Hz.
    unfold upd_at, col_updates. unfold col_rs in *. rewrite En, bytes_eqb_refl.
    destruct x as [[c ti] [canon pi]]. cbn [fst snd] in *. split.
    + intros [_ Hin]. apply In_nth_error in Hin. destruct Hin as [k Hk].
      rewrite (zpos_nth (fz st r) _ k Hnd) by (now rewrite nth_error_map, Hk). rewrite nth_map_idf, Hk.
      destruct (zfind (fz st r) (ds_insts ds)) as [i|] eqn:Ei; [reflexivity|].
      exfalso. destruct Hsk as (_ & _ & _ & _ & S5). specialize (S5 (fz st r)). unfold skelf in S5. rewrite Ei, (Hreg r Hr) in S5. discriminate.
    + intros Hnot. rewrite zpos_none; [now rewrite option_map_idf|].
      intros Hin. apply Hnot. split; [reflexivity|]. apply in_map_iff in Hin. destruct Hin as (r' & E & Hr').
      assert (r' = r); [|now subst].
      unfold cols in Hx. apply in_flat_map in Hx. destruct Hx as (ct & Hct & Hx). apply in_map_iff in Hx.
      destruct Hx as (cp & [= -> ->] & _).
      destruct (enc_class_ids _ _ _ _ _ Hst) as (_ & _ & _ & _ & _ & Hall & _ & _). destruct (Hall c ti Hct) as (Hfil & _ & _).
      apply (fz_inj st); auto. rewrite Hfil in Hr'. now apply filter_In in Hr'.
  - (* any other column *)
    split; [intros [E _]; rewrite E, bytes_eqb_refl in En; discriminate|]. intros _.
    pose proof (Hser x Hx) as [Hsu Hsl].
    destruct x as [[c ti] [canon pi]]. cbn [fst snd] in *.
    unfold cols in Hx. apply in_flat_map in Hx. destruct Hx as (ct & Hct & Hx). apply in_map_iff in Hx.
    destruct Hx as (cp & [= -> ->] & Hcp). cbn [snd] in Hcp.
    destruct (Hncol c ti Hct) as [_ Hnc]. destruct (Hnc canon pi Hcp) as [Hiff _].
    assert (Hsn : bytes_eqb (pi_ser_name pi) NAME = false).
    { apply bytes_eqb_neq. intros E. apply Hiff in E. rewrite E, bytes_eqb_refl in En. discriminate. }
    destruct (enc_class_ids _ _ _ _ _ Hst) as (_ & _ & _ & _ & Hnext & Hall & _ & _). destruct (Hall c ti Hct) as (_ & _ & Hidlt).
    destruct (add_instances_inv _ _ _ _ _ Hst) as (_ & _ & _ & _ & _ & _ & Hinv).
    destruct (types_inv_count _ _ Hinv) as [Hcnt _].
    assert (Hid : ti_id ti < 2 ^ 32) by (change (2 ^ 32) with 4294967296; lia).
    destruct ch as [nm payload].
    destruct (BinChunkFacts.prop_chunk_inv _ _ _ _ _ _ _ _ Hch) as (insts & col & _ & _ & -> & ->). cbn [snd] in Hd.
    eapply written_prop_keeps_names; [exact Hid| |exact Hsl|exact Hlim|exact Hsu|exact Hsn|exact Hd].
    destruct Hsk as (_ & S2 & _). rewrite S2. eapply Hlook. exact Hct.
Qed.

Lemma names_phase : forall xs chs ds ds1,
  Forall2 (fun x ch => prop_chunk ep dom (enc_ctx_of ep st) (snd (fst x)) (snd x) = Ok ch) xs chs ->
  (forall x, In x xs -> In x (cols (ss_types st))) ->
  same_skel stI ds -> run_chunks d p ds chs = Ok ds1 ->
  forall r, In r (ss_relevant st) ->
    namef (ds_insts ds) (fz st r) = Some (i_name (src dom r)) \/ named_by xs r ->
    namef (ds_insts ds1) (fz st r) = Some (i_name (src dom r)).
Proof.
  intros xs chs ds ds1 HF. revert ds ds1. induction HF as [|x ch xs chs Hch _ IH]; intros ds ds1 Hin Hsk Hrun r Hr Hor.
  - cbn in Hrun. injection Hrun as <-. destruct Hor as [H|(x & [] & _)]. exact H.
  - rewrite run_chunks_cons in Hrun. unfold step_chunk in Hrun.
    assert (Hnm : fst ch = CH_PROP) by (eapply prop_chunk_name; exact Hch).
    destruct ch as [nm payload]. cbn [fst snd] in *. subst nm. rewrite dispatch_PROP in Hrun.
    destruct (decode_prop d p ds payload) as [ds'| | |] eqn:Ed; cbn [rbind] in Hrun; try discriminate.
    assert (Hsk' : same_skel stI ds') by (eapply same_skel_trans; [exact Hsk|eapply decode_prop_skel; exact Ed]).
    destruct (one_chunk_names x (CH_PROP, payload) ds ds' (Hin x (or_introl eq_refl)) Hch Hsk Ed r Hr) as [Hset Hkeep].
    apply (IH ds' ds1 (fun y Hy => Hin y (or_intror Hy)) Hsk' Hrun r Hr).
    destruct (bytes_eqb (fst (snd x)) NAME) eqn:En.
    + apply bytes_eqb_eq in En. destruct (in_dec N.eq_dec r (ti_instances (snd (fst x)))) as [Hi|Hi].
      * left. apply Hset. auto.
      * rewrite Hkeep by tauto. destruct Hor as [H|(y & [<-|Hy] & Hn & Hi')]; [now left|contradiction|right; exists y; auto].
    + assert (Hne : fst (snd x) <> NAME) by (now apply bytes_eqb_false_neq).
      rewrite Hkeep by tauto. destruct Hor as [H|(y & [<-|Hy] & Hn & Hi')]; [now left|contradiction|right; exists y; auto].
Qed.
End NamesPhase.

(* MILESTONE 1 with instance names.  Every class has a Name column (enc_name_entry); when it is the only column
   serialized as "Name" and carries no migration (name_cols_ok), instance names are valid UTF-8 of u32 length and the
   serialized property names are too, the decoded instance of r carries r's name, whatever else the accepted PROP
   chunks did. *)
Theorem tree_roundtrip_names d ep dom ts e p st st1 :
  input_ok dom ts -> names_ok dom ->
  encode_chunks d ep dom (List.map root ts) = Ok e ->
  add_instances d ep dom (List.map root ts) = Ok st ->
  dp_lim p = None -> ser_names_ok st -> name_cols_ok st ->
  run_chunks d p dstate0 (removelast (en_chunks e)) = Ok st1 ->
  exists out,
    decode_chunks d p (en_header e) (en_chunks e ++ [(CH_END, FILE_FOOTER)]) = Ok out /\
    same_forest dom ts (lbl st) out /\
    forall r, In r (flat_map refs ts) ->
      exists i', find_inst out (lbl st r) = Some i' /\ i_ref i' = lbl st r /\
                 i_class i' = class_of dom r /\ i_name i' = i_name (src dom r).
Proof.
  intros Hin Hnames He Hst Hlim Hser Hncol Hrun. pose proof Hin as (Hwf & Hdom & Hag & Hnd & H0).
  destruct (enc_parts _ _ _ _ _ Hdom Hag Hnd He) as (st' & insts & props & Hst' & Hrel & Hndr & Hlen & Hhdr & Hch & HFi & HFp).
  assert (st' = st) by congruence. subst st'.
  assert (Hpn : Forall (fun ch => fst ch = CH_PROP) (concat props)).
  { apply Forall_concat. eapply Forall2_Forall_r; [|exact HFp]. intros ct chs Hc.
    eapply Forall2_Forall_r; [|exact Hc]. intros cp ch. apply prop_chunk_name. }
  pose proof Hrun as Hrun0. rewrite Hch, removelast_prefix in Hrun.
  destruct (prefix_state _ _ _ _ _ _ _ _ _ Hst Hndr HFi Hpn Hlim Hrun) as (l & _ & HrP & Hsk & _ & _).
  destruct (insts_state d ep dom ts st l Hst Hndr) as (_ & _ & HregI & _ & Hndz & Hlook).
  set (stI := after_insts st (mkDS l [] [] [] 1)) in *.
  pose proof (cols_chunks (fun ct cp ch => prop_chunk ep dom (enc_ctx_of ep st) (snd ct) cp = Ok ch) _ _ HFp) as HF. cbv beta in HF.
  destruct (enc_class_ids _ _ _ _ _ Hst) as (_ & _ & _ & _ & _ & Hall & Hcov & _).
  assert (Hnm : forall r, In r (ss_relevant st) -> namef (ds_insts st1) (fz st r) = Some (i_name (src dom r))).
  { intros r Hr.
    apply (names_phase d ep p dom ts st stI Hst Hndr Hlen Hlim Hnames Hser Hncol HregI Hndz Hlook
             (cols (ss_types st)) (concat props) stI st1 HF (fun x Hx => Hx) (same_skel_refl _) HrP r Hr).
    right. destruct (Hcov r Hr) as (ti & Hct). destruct (proj1 (Hncol _ _ Hct)) as (pi & Hpi).
    exists (class_of dom r, ti, (NAME, pi)). cbn [fst snd]. split; [|split; [reflexivity|]].
    - unfold cols. apply in_flat_map. exists (class_of dom r, ti). split; [exact Hct|]. apply in_map_iff. exists (NAME, pi). auto.
    - destruct (Hall _ _ Hct) as (Hfil & _ & _). rewrite Hfil. apply filter_In. split; [exact Hr|]. unfold of_class. apply bytes_eqb_refl. }
  destruct (tree_roundtrip d ep dom ts e p st1 Hin He Hlim Hrun0) as (st' & out & Hst'' & Hdec & Hrec & Hreg).
  assert (st' = st) by congruence. subst st'.
  pose proof (registered_labels dom st ts _ Hrel Hreg) as HL.
  exists out. split; [exact Hdec|]. split; [eapply reconstructs_same_forest; eauto|].
  intros r Hr. destruct (reconstructs_instances _ _ _ _ _ _ Hrec HL r Hr) as (i' & Hf & Hi & Hc & Hn & _).
  assert (Hr' : In r (ss_relevant st)).
  { rewrite Hrel. eapply Permutation_in; [symmetry; apply post_perm_refs_forest|exact Hr]. }
  destruct (Hreg r Hr') as (i & Hz & _ & Hcl & _). specialize (Hnm r Hr'). unfold namef in Hnm. rewrite Hz in Hnm.
  cbn [option_map] in Hnm. injection Hnm as Hnm. unfold dinst_of in Hc, Hn. rewrite Hz in Hc, Hn.
  exists i'. split; [exact Hf|]. split; [exact Hi|]. split; congruence.
Qed.
Print Assumptions tree_roundtrip_names.

Theorem file_tree_roundtrip_names d ep cmp dom ts b p st :
  input_ok dom ts -> names_ok dom ->
  encode_file d ep cmp dom (List.map root ts) = Ok b ->
  add_instances d ep dom (List.map root ts) = Ok st ->
  dp_lim p = None -> ser_names_ok st -> name_cols_ok st ->
  (forall e, encode_chunks d ep dom (List.map root ts) = Ok e ->
             frame_ok p cmp e /\ exists st1, run_chunks d p dstate0 (removelast (en_chunks e)) = Ok st1) ->
  exists out,
    decode_file d p b = Ok out /\
    same_forest dom ts (lbl st) out /\
    forall r, In r (flat_map refs ts) ->
      exists i', find_inst out (lbl st r) = Some i' /\ i_ref i' = lbl st r /\
                 i_class i' = class_of dom r /\ i_name i' = i_name (src dom r).
Proof.
  intros Hin Hnames Hf Hst Hlim Hser Hncol Hs.
  destruct (decode_file_chunks d ep cmp dom _ b p Hf Hlim (fun e He => proj1 (Hs e He))) as (e & He & ->).
  destruct (Hs e He) as (_ & st1 & Hrun). exact (tree_roundtrip_names d ep dom ts e p st st1 Hin Hnames He Hst Hlim Hser Hncol Hrun).
Qed.
Print Assumptions file_tree_roundtrip_names.

Print Assumptions SampleRoundTrip.sample_plain_roundtrip.
Print Assumptions SampleRoundTrip.sample_tree_roundtrip.
Print Assumptions duplicate_referent_breaks_forest.
Print Assumptions zero_referent_breaks_forest.

(* ================================================================ 10. properties unknown to the database: the class table from the DOM *)
(* every property of every instance of the DOM is unknown to the database (find_desc_bin finds no descriptor), and
   property names are Rust strings of u32 length *)
Definition unknown_props (d : db) (dom : cdom) : Prop :=
  forall i pname v, In i dom -> In (pname, v) (i_props i) ->
    find_desc_bin d (string_of_bytes (i_class i)) (string_of_bytes pname) = Ok None /\
    Utf8.utf8_valid pname = true /\ N.of_nat (length pname) < 2 ^ 32.

(* then every column is "plain": serialized under its own name, no aliases, no migration *)
Definition plain_entry (d : db) (class : bytes) (ti : type_info) : Prop :=
  forall canon pi, In (canon, pi) (ti_props ti) ->
    pi_ser_name pi = canon /\ pi_aliases pi = [] /\ pi_migration pi = None /\
    (canon = NAME \/ (find_desc_bin d (string_of_bytes class) (string_of_bytes canon) = Ok None /\
                      Utf8.utf8_valid canon = true /\ N.of_nat (length canon) < 2 ^ 32)).

Lemma cti_prop_plain d class ss ti pv ss' ti' :
  find_desc_bin d (string_of_bytes class) (string_of_bytes (fst pv)) = Ok None ->
  Utf8.utf8_valid (fst pv) = true -> N.of_nat (length (fst pv)) < 2 ^ 32 ->
  cti_prop d class (ss, ti) pv = Ok (ss', ti') -> plain_entry d class ti -> plain_entry d class ti'.
Proof.
  destruct pv as [pname pvalue]. cbn [fst]. intros Hdb Hu Hl H Hp. unfold cti_prop in H.
  destruct (bmem pname (ti_visited ti)); [now injection H as _ <-|].
  unfold resolve_prop in H. rewrite Hdb in H. cbn [rbind] in H.
  cbn [ti_props ti_class ti_id ti_service ti_instances ti_visited] in H.
  match type of H with rbind ?X _ = _ => destruct X as [[ss1 ti1]| | |] eqn:E1 end; cbn [rbind] in H; try discriminate.
  rewrite bytes_eqb_refl in H. injection H as _ <-.
  destruct (bfind pname (ti_props ti)) eqn:Ef.
  - injection E1 as _ <-. exact Hp.
  - match type of E1 with rbind ?X _ = _ => destruct X as [dbdef| | |] end; cbn [rbind] in E1; try discriminate.
    match type of E1 with match ?X with _ => _ end = _ => destruct X as [dv|] end; [|discriminate].
    destruct (from_rbx_type (vtype pvalue)) as [ser_type|]; [|discriminate].
    injection E1 as _ <-. intros canon pi Hin. cbn [ti_props] in Hin. apply in_binsert in Hin.
    destruct Hin as [[= -> ->]|Hin]; [|now apply Hp]. cbn. repeat split. right. auto.
Qed.

Lemma cti_fold_plain d class l : forall ss ti ss' ti',
  (forall pv, In pv l -> find_desc_bin d (string_of_bytes class) (string_of_bytes (fst pv)) = Ok None /\
                         Utf8.utf8_valid (fst pv) = true /\ N.of_nat (length (fst pv)) < 2 ^ 32) ->
  fold_res (cti_prop d class) (ss, ti) l = Ok (ss', ti') -> plain_entry d class ti -> plain_entry d class ti'.
Proof.
  induction l as [|pv l IH]; intros ss ti ss' ti' Hl; cbn [fold_res]; [now intros [= _ <-]|].
  destruct (cti_prop d class (ss, ti) pv) as [[ss1 ti1]| | |] eqn:E; cbn [rbind]; try discriminate.
  intros H Hp. eapply IH; [|exact H|].
  - intros pv' Hin. apply Hl. now right.
  - destruct (Hl pv (or_introl eq_refl)) as (H1 & H2 & H3). eapply cti_prop_plain; eauto.
Qed.

Definition table_plain (d : db) (types : list (bytes * type_info)) : Prop := forall c ti, In (c, ti) types -> plain_entry d c ti.

Lemma new_type_info_plain d id class : plain_entry d class (new_type_info d id class).
Proof. intros canon pi [[= <- <-]|[]]. cbn. repeat split. now left. Qed.

Lemma collect_type_info_plain d dom st i st' : unknown_props d dom -> In i dom ->
  collect_type_info d st i = Ok st' -> table_plain d (ss_types st) -> table_plain d (ss_types st').
Proof.
  intros Hun Hi. unfold collect_type_info. intros H Ht.
  assert (Hl : forall pv, In pv (i_props i) -> find_desc_bin d (string_of_bytes (i_class i)) (string_of_bytes (fst pv)) = Ok None /\
                          Utf8.utf8_valid (fst pv) = true /\ N.of_nat (length (fst pv)) < 2 ^ 32).
  { intros [pname v] Hin. cbn [fst]. exact (Hun i pname v Hi Hin). }
  destruct (bfind (i_class i) (ss_types st)) as [ti0|] eqn:Hf.
  - match type of H with rbind ?X _ = _ => destruct X as [[ss2 ti2]| | |] eqn:Ef end; cbn [rbind] in H; try discriminate.
    injection H as <-. cbn [ss_types]. intros c ti Hin. apply (in_bset_cases _ _ _ _ Hf) in Hin.
    destruct Hin as [[-> ->]|Hin]; [|now apply (Ht c ti)].
    eapply cti_fold_plain; [exact Hl|exact Ef|]. intros canon pi Hcp. cbn [ti_props] in Hcp.
    apply (Ht (i_class i) ti0); [now apply bfind_in|exact Hcp].
  - match type of H with rbind ?X _ = _ => destruct X as [[ss2 ti2]| | |] eqn:Ef end; cbn [rbind] in H; try discriminate.
    injection H as <-. cbn [ss_types]. intros c ti Hin.
    assert (Hf' : bfind (i_class i) (binsert (i_class i, new_type_info d (ss_next_id st) (i_class i)) (ss_types st))
                  = Some (new_type_info d (ss_next_id st) (i_class i))) by (now apply BinStructure.bfind_binsert_same).
    apply (in_bset_cases _ _ _ _ Hf') in Hin. destruct Hin as [[-> ->]|Hin].
    + eapply cti_fold_plain; [exact Hl|exact Ef|]. intros canon pi Hcp. cbn [ti_props] in Hcp.
      now apply (new_type_info_plain d (ss_next_id st) (i_class i)).
    + apply in_binsert in Hin. destruct Hin as [[= -> ->]|Hin]; [apply new_type_info_plain|now apply (Ht c ti)].
Qed.

Lemma add_loop_plain d dom : unknown_props d dom -> forall fuel outer stack lv st st',
  table_plain d (ss_types st) -> add_loop fuel d dom outer stack lv st = Ok st' -> table_plain d (ss_types st').
Proof.
  intros Hun. induction fuel as [|f IH]; intros outer stack lv st st' Hinv H; [discriminate|].
  cbn [add_loop] in H. destruct stack as [|x rest]; [now injection H as <-|].
  destruct (find_inst dom x) as [inst|] eqn:Hfi; [|discriminate].
  destruct outer; [now apply IH in H|].
  destruct (negb (is_nil (children_of dom x)) && negb (opt_eqb (last_opt (children_of dom x)) lv))%bool; [now apply IH in H|].
  destruct (collect_type_info d _ inst) as [st1| | |] eqn:E; cbn [rbind] in H; try discriminate.
  eapply IH; [|exact H]. eapply collect_type_info_plain; [exact Hun|exact (proj1 (find_inst_some _ _ _ Hfi))|exact E|exact Hinv].
Qed.

Theorem enc_table_plain d ep dom roots st : unknown_props d dom ->
  add_instances d ep dom roots = Ok st -> table_plain d (ss_types st).
Proof.
  intros Hun H. destruct (add_instances_inv _ _ _ _ _ H) as (st0 & Hl & _ & Ht & _). rewrite Ht.
  eapply add_loop_plain; [exact Hun| |exact Hl]. intros c ti [].
Qed.

(* hence the class-table hypotheses of Milestones 2/3, from the DOM *)
Lemma unknown_props_table d ep dom roots st : unknown_props d dom ->
  add_instances d ep dom roots = Ok st ->
  ser_names_ok st /\ name_cols_ok st /\
  (forall x, In x (cols (ss_types st)) -> fst (snd x) <> NAME ->
     find_desc_bin d (string_of_bytes (fst (fst x))) (string_of_bytes (pi_ser_name (snd (snd x)))) = Ok None) /\
  (forall x, In x (cols (ss_types st)) ->
     pi_ser_name (snd (snd x)) = fst (snd x) /\ pi_aliases (snd (snd x)) = [] /\ pi_migration (snd (snd x)) = None).
Proof.
  intros Hun Hst. pose proof (enc_table_plain d ep dom roots st Hun Hst) as Hp.
  assert (Hx : forall x, In x (cols (ss_types st)) -> In (fst x) (ss_types st) /\ In (snd x) (ti_props (snd (fst x)))).
  { intros x Hx. unfold cols in Hx. apply in_flat_map in Hx. destruct Hx as (ct & Hct & Hx). apply in_map_iff in Hx.
    destruct Hx as (cp & <- & Hcp). auto. }
  split; [|split; [|split]].
  - intros [[c ti] [canon pi]] Hin. destruct (Hx _ Hin) as [Hct Hcp]. cbn [fst snd] in *.
    destruct (Hp c ti Hct canon pi Hcp) as (-> & _ & _ & [->|(_ & Hu & Hl)]); [split; vm_compute; reflexivity|auto].
  - eapply name_cols_ok_intro; [exact Hst|]. intros c ti canon pi Hct Hcp.
    destruct (Hp c ti Hct canon pi Hcp) as (Hs & _ & Hm & _). split; [congruence|auto].
  - intros [[c ti] [canon pi]] Hin Hn. destruct (Hx _ Hin) as [Hct Hcp]. cbn [fst snd] in *.
    destruct (Hp c ti Hct canon pi Hcp) as (-> & _ & _ & [->|(Hdb & _)]); [contradiction|exact Hdb].
  - intros [[c ti] [canon pi]] Hin. destruct (Hx _ Hin) as [Hct Hcp]. cbn [fst snd] in *.
    destruct (Hp c ti Hct canon pi Hcp) as (H1 & H2 & H3 & _). auto.
Qed.
Print Assumptions unknown_props_table.

Lemma prop_value_plain ep canon pi i :
  pi_aliases pi = [] -> pi_migration pi = None -> ep_order ep [] = [] -> bytes_eqb canon NAME = false ->
  prop_value ep canon pi (ep_order ep (pi_aliases pi)) i
  = match bfind canon (i_props i) with Some v => v | None => pi_default pi end.
Proof.
  intros Ha Hm Ho Hn. unfold prop_value. rewrite Ha, Ho, Hm, Hn. cbn [find]. reflexivity.
Qed.

(* the property list of the decoded instance, from the source instance: its own value under every property name the
   class has a column for, the column default where it lacks the property; Strings as BinaryStrings, Refs renamed *)
Definition source_props (st : ser_state) (ti : type_info) (i : inst) : list (bytes * value) :=
  List.map (fun cp => (fst cp, norm_val st (match bfind (fst cp) (i_props i) with Some v => v | None => pi_default (snd cp) end)))
           (filter (fun cp => negb (bytes_eqb (fst cp) NAME)) (ti_props ti)).

(* MILESTONE 3 from hypotheses on the DOM: all properties unknown to the database; per column, values of one simple type *)
Theorem unknown_props_roundtrip d ep cmp dom ts b p st :
  input_ok dom ts -> names_ok dom -> unknown_props d dom -> ep_order ep [] = [] ->
  encode_file d ep cmp dom (List.map root ts) = Ok b ->
  add_instances d ep dom (List.map root ts) = Ok st ->
  dp_lim p = None ->
  (forall e, encode_chunks d ep dom (List.map root ts) = Ok e -> frame_ok p cmp e) ->
  sstr_ok st ->
  (forall x, In x (cols (ss_types st)) -> fst (snd x) <> NAME -> simple_col (pi_type (snd (snd x))) (col_values ep dom x)) ->
  exists out,
    decode_file d p b = Ok out /\
    same_forest dom ts (lbl st) out /\
    forall c ti k r, In (c, ti) (ss_types st) -> nth_error (ti_instances ti) k = Some r ->
      exists i', find_inst out (lbl st r) = Some i' /\ i_ref i' = lbl st r /\
        i_class i' = class_of dom r /\ i_name i' = i_name (src dom r) /\
        i_props i' = collect_props (source_props st ti (src dom r)).
Proof.
  intros Hin Hnames Hun Hord Hf Hst Hlim Hs Hss Hsimple.
  destruct (unknown_props_table d ep dom _ st Hun Hst) as (Hser & Hncol & Hdb & Hpl).
  destruct (plain_roundtrip d ep cmp dom ts b p st Hin Hnames Hf Hst Hlim Hs Hss Hser Hncol) as (out & Hdec & Hforest & Hinst).
  { intros x Hx Hn. split; [now apply Hdb|now apply Hsimple]. }
  exists out. split; [exact Hdec|]. split; [exact Hforest|].
  intros c ti k r Hct Hk. destruct (Hinst c ti k r Hct Hk) as (i' & H1 & H2 & H3 & H4 & H5).
  exists i'. repeat (split; [assumption|]). rewrite H5. f_equal. unfold plain_props, source_props.
  apply map_ext_in. intros [canon pi] Hcp. apply filter_In in Hcp. destruct Hcp as [Hcp Hnn]. cbn [fst snd] in *.
  apply negb_true_iff in Hnn.
  assert (Hx : In (c, ti, (canon, pi)) (cols (ss_types st))).
  { unfold cols. apply in_flat_map. exists (c, ti). split; [exact Hct|]. apply in_map_iff. exists (canon, pi). auto. }
  destruct (Hpl _ Hx) as (E1 & E2 & E3). cbn [fst snd] in E1, E2, E3. rewrite E1. f_equal. f_equal.
  now apply prop_value_plain.
Qed.
Print Assumptions unknown_props_roundtrip.

Module SampleRoundTrip2.
Import SampleRoundTrip.
Lemma sample_unknown_props : unknown_props db0 sample_dom.
Proof.
  intros i pname v Hi Hp. cbn in Hi.
  repeat (destruct Hi as [<-|Hi]; [cbn [i_props] in Hp; repeat (destruct Hp as [[= <- <-]|Hp]; [repeat split; vm_compute; reflexivity|]); contradiction|]).
  contradiction.
Qed.

(* the final theorem on the sample file, every hypothesis discharged; the description it gives is the computed output *)
Example sample_unknown_roundtrip :
  exists out,
    decode_file db0 (dp0 None) sample_file = Ok out /\
    same_forest sample_dom [sample_tree] (lbl sample_st) out /\
    forall c ti k r, In (c, ti) (ss_types sample_st) -> nth_error (ti_instances ti) k = Some r ->
      exists i', find_inst out (lbl sample_st r) = Some i' /\ i_ref i' = lbl sample_st r /\
        i_class i' = class_of sample_dom r /\ i_name i' = i_name (src sample_dom r) /\
        i_props i' = collect_props (source_props sample_st ti (src sample_dom r)).
Proof.
  apply (unknown_props_roundtrip db0 ep0 None sample_dom [sample_tree] sample_file (dp0 None) sample_st).
  - exact sample_input_ok.
  - exact sample_names_ok.
  - exact sample_unknown_props.
  - reflexivity.
  - exact sample_encodes.
  - exact sample_st_ok.
  - reflexivity.
  - exact sample_frame_ok.
  - exact sample_sstr_ok.
  - intros x Hx Hn. exact (proj2 (sample_plain_cols x Hx Hn)).
Qed.

Example sample_described2 :
  bfs_order [sample_tree] = [1; 2; 3] /\ List.map (lbl sample_st) (bfs_order [sample_tree]) = [2; 1; 3] /\
  List.map (fun r => collect_props (source_props sample_st
                        (match bfind (class_of sample_dom r) (ss_types sample_st) with Some ti => ti | None => mkTI 0 false [] [] None [] end)
                        (src sample_dom r)))
           [1; 2; 3]
  = [ [(bstr "R", VRef 0); (bstr "Q", VBool true); (bstr "P", VInt32 7%Z)];
      [(bstr "R", VRef 2); (bstr "Q", VBool false); (bstr "P", VInt32 (-3)%Z)];
      [(bstr "S", VBinaryString (bstr "hi"))] ].
Proof. repeat split; vm_compute; reflexivity. Qed.
End SampleRoundTrip2.
Print Assumptions SampleRoundTrip2.sample_unknown_roundtrip.

(* for users of col_law: the decoder context of any state with the skeleton of stI_of st *)
Lemma dctx_of_skel d ep p dom ts st ds :
  add_instances d ep dom (List.map root ts) = Ok st -> NoDup (ss_relevant st) -> same_skel (stI_of st) ds ->
  dc_sstr (prop_dctx p ds) = ss_sstr st /\ dc_lim (prop_dctx p ds) = dp_lim p /\
  forall r, dc_resolve (prop_dctx p ds) (ref_id (enc_ctx_of ep st) r) = ref_new st r.
Proof.
  intros Hst Hndr Hsk. destruct (insts_state d ep dom ts st (ss_sstr st) Hst Hndr) as (I1 & _). fold (stI_of st) in I1.
  split; [|split; [reflexivity|]].
  - destruct Hsk as (S1 & _). cbn [prop_dctx dc_sstr]. now rewrite S1.
  - intros r. exact (resolve_ref d ep p dom ts st ds r Hst Hndr Hsk).
Qed.

(* EXPORT (for Properties/C01.v):
   definitions used in the statements:
     run_chunks / step_chunk (the reader's loop over a chunk list without END), input_ok, class_ok, names_ok,
     fz (file referent), inst_order, lbl (new referent: 1 + position in INST-chunk order), registered,
     same_forest (incl. bfs_order), column / cols / col_values / col_read / col_law, stI_of, ser_names_ok, name_cols_ok,
     sstr_ok, frame_ok, read_props / col_props / add_prop, uid_norm, norm_val / ref_new, simple_col, plain_props,
     source_props, unknown_props, name_entry
   MILESTONE 1 (forest, order, classes; names):
     tree_roundtrip            technical form: reconstructs (BinFinish) for the forest renamed by fz, + registered
     tree_roundtrip_forest     same_forest + class of every decoded instance            (decode_chunks)
     tree_roundtrip_names      + instance names                                        (decode_chunks)
     file_tree_roundtrip, file_tree_roundtrip_names                                    (decode_file on the bytes)
     enc_name_entry            every class has a Name column (String, serialized "Name"); name_cols_ok_intro
   MILESTONE 2 (values, generic in the column law; no "reader accepts" hypothesis):
     values_roundtrip          technical form (state before PRNT: label, class, name, di_props = read_props)
     values_roundtrip_dom      decode_chunks; file_values_roundtrip: decode_file on the bytes
     dctx_of_skel, resolve_ref what a column law may assume about the decoder context
   MILESTONE 3 (properties unknown to the database, simple types Bool/Int32/Int64/Float32/Float64/String/BinaryString/Ref):
     simple_col_law, plain_roundtrip (class-table hypotheses), unknown_props_table, enc_table_plain,
     unknown_props_roundtrip   (hypotheses on the DOM)
   non-vacuity: SampleRoundTrip.sample_plain_roundtrip, SampleRoundTrip.sample_tree_roundtrip, SampleRoundTrip.sample_described,
     SampleRoundTrip2.sample_unknown_roundtrip, SampleRoundTrip2.sample_described2
   findings (needed hypotheses): duplicate_referent_breaks_forest, zero_referent_breaks_forest
   reusable: chunk_list_loop_run, run_props_skel, decode_prop_skel, reg_fold_spec, insts_state, prefix_state, prnt_end_finish,
     parents_ok_forest, prnt_rows, run_tasks, col_task_ok, props_phase, names_phase, reconstructs_same_forest,
     reconstructs_instances, built_in *)
