(* SourceTablesFacts.v — the constant tables the hand-written models use are the ones the translator regenerates from the
   source text of /repo on every run (Gen/SourceTables.v, Gen/BinaryTypes.v): attribute type ids, the 24 basic rotation
   matrices, the XML element name of every value type, the binary format's magic numbers and chunk names.  A change of any
   of these in the source breaks one of these obligations (and, independently, the byte-exact correspondence). *)
From Coq Require Import List NArith ZArith String.
From RbxVerif Require Import Base Bytes Value Db Rotation Attr BinValues BinFile XmlEvents XmlValues.
From RbxVerif Require BinaryTypes SourceTables.
Import ListNotations.
Open Scope N_scope.

(* VariantType name -> discriminant, through the regenerated make_variant! order *)
Fixpoint vt_of_name (n : string) (t : list (N * string)) : option N :=
  match t with [] => None | (k, s) :: r => if String.eqb n s then Some k else vt_of_name n r end.

Definition resolve_attr_ids : option (list (N * N)) :=
  List.fold_right (fun (p : string * N) acc =>
                     match vt_of_name (fst p) BinaryTypes.variant_type_names, acc with
                     | Some k, Some l => Some ((k, snd p) :: l)
                     | _, _ => None
                     end) (Some []) SourceTables.src_attr_type_ids.

(* ---- attributes/type_id.rs *)
Theorem attr_type_ids_match_source : resolve_attr_ids = Some attr_type_ids.
Proof. vm_compute. reflexivity. Qed.

Theorem attr_string_id_matches_source :
  from_variant_type VT_String = Some SourceTables.src_attr_string_id.
Proof. vm_compute. reflexivity. Qed.

(* ---- Matrix3::from_basic_rotation_id (0x02 => identity is the first arm; the others in source order) *)
Definition f32_of_unit (z : Z) : option f32 :=
  if Z.eqb z 1 then Some F32_ONE else if Z.eqb z (-1) then Some F32_NEG_ONE else if Z.eqb z 0 then Some F32_ZERO else None.
Definition mat_of_entries (l : list Z) : option mat3 :=
  match List.map f32_of_unit l with
  | [Some a; Some b; Some c; Some d; Some e; Some f; Some g; Some h; Some i] => Some (m9 a b c d e f g h i)
  | _ => None
  end.
Definition resolve_rotations : option (list (N * mat3)) :=
  List.fold_right (fun (p : N * list Z) acc =>
                     match mat_of_entries (snd p), acc with
                     | Some m, Some l => Some ((fst p, m) :: l)
                     | _, _ => None
                     end) (Some []) SourceTables.src_rotation_table.

Theorem rotation_table_matches_source : resolve_rotations = Some rotation_table.
Proof. vm_compute. reflexivity. Qed.

(* ---- rbx_binary constants and chunk names *)
Theorem bin_constants_match_source :
  FILE_MAGIC_HEADER = SourceTables.src_FILE_MAGIC_HEADER /\
  FILE_SIGNATURE = SourceTables.src_FILE_SIGNATURE /\
  FILE_FOOTER = SourceTables.src_FILE_FOOTER /\
  SourceTables.src_FILE_VERSION = 0 /\
  SourceTables.src_chunk_names_writer = [CH_SSTR; CH_INST; CH_PROP; CH_PRNT; CH_END] /\
  SourceTables.src_chunk_names_reader = [CH_META; CH_SSTR; CH_INST; CH_PROP; CH_PRNT; CH_END].
Proof. vm_compute. repeat split; reflexivity. Qed.

(* ---- XML element names: for one sample value of every value type the writer's element name is the XML_TAG_NAME of the
   Rust type that writes it (key = the `impl XmlType for T` type, `mod:<file>` for module-level constants) *)
Definition xo0 : xoracle := mkXO (fun _ => Some [48]) (fun _ => Some [48]) (fun _ => Some (Some 0)) (fun _ => Some (Some 0))
                                 (fun _ => Some 0) (fun _ => Some 0).
Definition z3 : vec3 := mkV3 0 0 0.
Definition z2 : vec2 := mkV2 0 0.
Definition cf0 : cframe := mkCF z3 (m9 0 0 0 0 0 0 0 0 0).

Definition xml_tag_samples : list (string * value) :=
  [ ("mod:attributes", VAttributes []); ("Axes", VAxes 0); ("BinaryString", VBinaryString []); ("bool", VBool true);
    ("CFrame", VCFrame cf0); ("ColorSequence", VColorSequence []); ("Color3", VColor3 0 0 0); ("Color3uint8", VColor3uint8 0 0 0);
    ("Content", VContent CNone); ("ContentId", VContentId []); ("Enum", VEnum 0); ("Faces", VFaces 0);
    ("Font", VFont (mkFont [] 400 0 None)); ("mod:material_colors", VMaterialColors []); ("NumberRange", VNumberRange 0 0);
    ("NumberSequence", VNumberSequence []); ("f32", VFloat32 0); ("f64", VFloat64 0); ("i32", VInt32 0%Z); ("i64", VInt64 0%Z);
    ("PhysicalProperties", VPhysicalProperties None); ("Ray", VRay z3 z3); ("Rect", VRect z2 z2);
    ("SecurityCapabilities", VSecurityCapabilities 0); ("String", VString []); ("mod:tags", VTags []);
    ("UDim", VUDim (mkUDim 0 0%Z)); ("UDim2", VUDim2 (mkUDim 0 0%Z) (mkUDim 0 0%Z)); ("UniqueId", VUniqueId 0 0 0%Z);
    ("Vector2", VVector2 z2); ("Vector2int16", VVector2int16 0%Z 0%Z); ("Vector3", VVector3 z3);
    ("Vector3int16", VVector3int16 0%Z 0%Z 0%Z) ]%string.

Fixpoint tag_of_key (k : string) (t : list (string * string)) : option string :=
  match t with [] => None | (a, b) :: r => if String.eqb k a then Some b else tag_of_key k r end.

Definition xml_tag_ok (kv : string * value) : bool :=
  match tag_of_key (fst kv) SourceTables.src_xml_tags, write_xml xo0 (snd kv) with
  | Some t, Some (tag, _) => bytes_eqb tag (bytes_of_string t)
  | _, _ => false
  end.

Theorem xml_tags_match_source : forallb xml_tag_ok xml_tag_samples = true.
Proof. vm_compute. reflexivity. Qed.

(* the element name does not depend on the value, only on its type (so one sample per type decides it) *)
Theorem xml_tag_depends_on_type_only : forall o o' v v',
  vtype v = vtype v' ->
  match write_xml o v, write_xml o' v' with
  | Some (t, _), Some (t', _) => t = t'
  | None, None => True
  | _, _ => False
  end.
Proof.
  intros o o' v v' H. destruct v, v'; try discriminate H; cbn [write_xml]; try reflexivity; try exact I.
  all: try (repeat match goal with |- context [match ?x with _ => _ end] => is_var x; destruct x end; try reflexivity; try exact I).
Qed.

Print Assumptions attr_type_ids_match_source.
Print Assumptions rotation_table_matches_source.
Print Assumptions bin_constants_match_source.
Print Assumptions xml_tags_match_source.
Print Assumptions xml_tag_depends_on_type_only.
