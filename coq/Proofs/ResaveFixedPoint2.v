(* ResaveFixedPoint2.v — property C07, second half, binary: the fixed point after the first save, closed.
   Continues ResaveFixedPoint.v (sections (O)-(Q)).  [bin_resave_fixed_point] carried two hypotheses about the SECOND save:
   (a) frame_ok of its chunks (compressor law / size limits: inherent), (b) sstr_ok of the shared-string table of its traversal.
   Here:
     (R) sinv / enc_sinv          where the shared-string table of a traversal comes from, for a DOM whose properties the database
                                  does not know: a SharedString value of a visited instance, or the default of a column; a column's
                                  default is what [col_plan] (database default of the class, else the fallback of the value type)
                                  gives for a value set on a visited instance; a SharedString default is recorded in the table
     (S) bf2_sstr_incl, bf2_sstr_ok   (b) is DERIVED: no value of the normalised DOM is a SharedString, so every string of the second
                                  table is a database default for a column (class, name) that the first traversal created as well,
                                  with the same database default, which it recorded: ss_sstr st2 is included in ss_sstr st
     (T) bin_resave_fixed_point_closed      = bin_resave_fixed_point without (b)            (+ _sample)
     (U) chunks_small, frame_ok_none        without a compressor frame_ok is "every chunk payload shorter than 2^32 bytes"
     (V) bt_add_instances, bt_encode_chunks the second save does NOT FAIL (fuel, database lookups, column planning, hashes of the
                                  shared strings, referent count, every column writer), from the success of the first save
     (W) bin_resave_fixed_point_total       any compressor: exists out b2 out2, load b = out, save out = b2, load b2 = out2, save out2 = b2;
                                  the only hypothesis about the second save is frame_ok of the chunks of the normalised DOM
         bin_resave_fixed_point_uncompressed  cmp = None: the same with size limits only                (+ _sample)
   frame_ok for cmp = None is NOT derivable from dp_lim p = None: it is the u32 limit on the payload length of each chunk (the
   chunk header holds the length in a u32: BinFile.frame_chunk / len32), so it stays, as [chunks_small].
   NOT DONE (V3): xml_resave_fixed_point for database-known properties through XmlKnownProps.xml_roundtrip_known.
   Standard library only. *)
From Coq Require Import List NArith ZArith Bool Lia String Permutation Sorted.
From RbxVerif Require Import Base Bytes Value Db CodecDom XmlEvents XmlValues XmlFile XmlInt XmlText XmlBase64 XmlCompound XmlCompound2
  XmlFileFacts XmlDeterminism XmlStructure XmlRoundTrip.
From RbxVerif Require Import BinValues BinFile BinFileFacts BinStructure BinPostorder BinTypeInfoFacts BinRename BinKnownProps BinRoundTrip.
From RbxVerif Require Import BinColumnsFacts.
From RbxVerif Require Import ResaveFixedPoint.
Import ListNotations.
Open Scope list_scope.
Open Scope N_scope.


(* ================================================================= (R) where the shared-string table of a traversal comes from *)
Section SstrInv.
  Variables (d : db) (X : cdom).
  Hypothesis HunX : unknown_props d X.

  Lemma cti_prop_ss class ss ti pv ss' ti' :
    find_desc_bin d (string_of_bytes class) (string_of_bytes (fst pv)) = Ok None ->
    cti_prop d class (ss, ti) pv = Ok (ss', ti') ->
    ti_class ti' = ti_class ti /\
    (forall kp, In kp (ti_props ti) -> In kp (ti_props ti')) /\
    (forall k pi, In (k, pi) (ti_props ti') -> In (k, pi) (ti_props ti) \/
         (k = fst pv /\ col_plan d (ti_class ti) k (vtype (snd pv)) = Ok (pi_default pi, pi_type pi) /\
          forall s, pi_default pi = VSharedString s -> In s ss')) /\
    incl ss ss' /\
    (forall s, In s ss' -> In s ss \/ snd pv = VSharedString s \/
                          exists pi, In (fst pv, pi) (ti_props ti') /\ pi_default pi = VSharedString s).
  Proof.
    destruct pv as [pname pvalue]. cbn [fst snd]. intros Hdb H. unfold cti_prop in H.
    destruct (bmem pname (ti_visited ti)) eqn:Ev.
    { injection H as <- <-. split; [reflexivity|]. split; [auto|]. split; [auto|]. split; [apply track_incl|].
      intros s Hs. apply track_in_inv in Hs. tauto. }
    unfold resolve_prop in H. rewrite Hdb in H. cbn [rbind] in H.
    cbn [ti_props ti_class ti_id ti_service ti_instances ti_visited] in H.
    match type of H with rbind ?X _ = _ => destruct X as [[ss1 ti1]| | |] eqn:E1 end; cbn [rbind] in H; try discriminate.
    rewrite bytes_eqb_refl in H. injection H as <- <-.
    destruct (bfind pname (ti_props ti)) as [pi0|] eqn:Ef.
    - injection E1 as <- <-. cbn [ti_props ti_class]. split; [reflexivity|]. split; [auto|]. split; [auto|]. split; [apply track_incl|].
      intros s Hs. apply track_in_inv in Hs. tauto.
    - match type of E1 with rbind ?X _ = _ => destruct X as [dbdef| | |] eqn:Edb end; cbn [rbind] in E1; try discriminate.
      match type of E1 with match ?X with _ => _ end = _ => destruct X as [dv|] eqn:Edv end; [|discriminate].
      destruct (from_rbx_type (vtype pvalue)) as [ser_type|] eqn:Et; [|discriminate].
      injection E1 as <- <-. cbn [ti_props ti_class]. split; [reflexivity|]. split; [|split; [|split]].
      + intros kp Hk. apply in_binsert. now right.
      + intros k pi Hk. apply in_binsert in Hk. destruct Hk as [[= -> ->]|Hk]; [right|now left]. cbn [pi_default pi_type].
        split; [reflexivity|]. split; [unfold col_plan; rewrite Edb; cbn [rbind]; rewrite Edv, Et; reflexivity|]. intros s ->. cbn [track_sstr]. destruct (bmem s (track_sstr pvalue ss)) eqn:Eb.
        * now apply bmem_In.
        * apply in_or_app. right. now left.
      + intros s Hs. apply track_incl. apply track_incl. exact Hs.
      + intros s Hs. apply track_in_inv in Hs. destruct Hs as [Hs| ->].
        * apply track_in_inv in Hs. tauto.
        * right. right. eexists. split; [apply in_binsert; left; reflexivity|reflexivity].
  Qed.

  Lemma cti_fold_ss class l : forall ss ti ss' ti',
    (forall pv, In pv l -> find_desc_bin d (string_of_bytes class) (string_of_bytes (fst pv)) = Ok None) ->
    fold_res (cti_prop d class) (ss, ti) l = Ok (ss', ti') ->
    ti_class ti' = ti_class ti /\
    (forall kp, In kp (ti_props ti) -> In kp (ti_props ti')) /\
    (forall k pi, In (k, pi) (ti_props ti') -> In (k, pi) (ti_props ti) \/
         exists v, In (k, v) l /\ col_plan d (ti_class ti) k (vtype v) = Ok (pi_default pi, pi_type pi) /\
                   forall s, pi_default pi = VSharedString s -> In s ss') /\
    incl ss ss' /\
    (forall s, In s ss' -> In s ss \/ (exists k, In (k, VSharedString s) l) \/
                          exists k pi, In (k, pi) (ti_props ti') /\ pi_default pi = VSharedString s).
  Proof.
    induction l as [|pv l IH]; intros ss ti ss' ti' Hl; cbn [fold_res].
    { intros [= <- <-]. split; [reflexivity|]. split; [auto|]. split; [auto|]. split; [apply incl_refl|auto]. }
    destruct (cti_prop d class (ss, ti) pv) as [[ss1 ti1]| | |] eqn:E; cbn [rbind]; try discriminate.
    intros H. destruct (cti_prop_ss class ss ti pv ss1 ti1 (Hl pv (or_introl eq_refl)) E) as (Hc1 & Hm1 & Ho1 & Hi1 & Hs1).
    destruct (IH ss1 ti1 ss' ti' (fun pv' Hin => Hl pv' (or_intror Hin)) H) as (Hc' & Hm' & Ho' & Hi' & Hs').
    split; [congruence|]. split; [auto|]. split; [|split].
    - intros k pi Hk. destruct (Ho' k pi Hk) as [Hk1|(v & Hin & E1 & E2)].
      + destruct (Ho1 k pi Hk1) as [Hk0|(E1 & E2 & E3)]; [now left|right]. exists (snd pv). split; [left; subst k; now destruct pv|].
        split; [exact E2|]. intros s Hs. apply Hi'. now apply E3.
      + right. exists v. split; [now right|]. split; [rewrite <- Hc1; exact E1|exact E2].
    - intros s Hs. apply Hi'. now apply Hi1.
    - intros s Hs. destruct (Hs' s Hs) as [H1|[(k & H1)|H1]].
      + destruct (Hs1 s H1) as [H2|[H2|(pi & H2 & H3)]]; [now left| |].
        * right. left. exists (fst pv). left. rewrite <- H2. now destruct pv.
        * right. right. exists (fst pv), pi. split; [now apply Hm'|exact H3].
      + right. left. exists k. now right.
      + right. now right.
  Qed.

  (* a column's default is the empty String of the Name column, or what the database (or the fallback table) gives for the type of
     a value set on a visited instance of the class *)
  Definition col_src (rel : list N) (c k : bytes) (pi : prop_info) : Prop :=
    (k = NAME /\ pi_default pi = VString []) \/
    exists r i v, In r rel /\ find_inst X r = Some i /\ i_class i = c /\ In (k, v) (i_props i) /\
                  col_plan d (get_class d (string_of_bytes c)) k (vtype v) = Ok (pi_default pi, pi_type pi).

  Definition sinv (st : ser_state) : Prop :=
    (forall c ti, In (c, ti) (ss_types st) -> ti_class ti = get_class d (string_of_bytes c)) /\
    (forall c ti k pi, In (c, ti) (ss_types st) -> In (k, pi) (ti_props ti) -> col_src (ss_relevant st) c k pi) /\
    (forall c ti k pi s, In (c, ti) (ss_types st) -> In (k, pi) (ti_props ti) -> pi_default pi = VSharedString s -> In s (ss_sstr st)) /\
    (forall s, In s (ss_sstr st) ->
       (exists r i k, In r (ss_relevant st) /\ find_inst X r = Some i /\ In (k, VSharedString s) (i_props i)) \/
       (exists c ti k pi, In (c, ti) (ss_types st) /\ In (k, pi) (ti_props ti) /\ pi_default pi = VSharedString s)).

  Lemma col_src_mono rel rel' c k pi : incl rel rel' -> col_src rel c k pi -> col_src rel' c k pi.
  Proof. intros Hi [H|(r & i & v & H1 & H2)]; [now left|right]. exists r, i, v. split; [now apply Hi|exact H2]. Qed.

  Lemma collect_sinv st r inst st' :
    find_inst X r = Some inst -> types_inv X st -> sinv st ->
    collect_type_info d (mkSS (ss_relevant st ++ [r]) (ss_types st) (ss_next_id st) (ss_sstr st)) inst = Ok st' ->
    sinv st'.
  Proof.
    intros Hfi Hinv (Hcls & Hsrc & Hdss & Hss) H. pose proof (sorted_NoDup _ (inv_sorted _ _ Hinv)) as Hndk.
    destruct (find_inst_some _ _ _ Hfi) as [Hind _].
    assert (Hl : forall pv, In pv (i_props inst) -> find_desc_bin d (string_of_bytes (i_class inst)) (string_of_bytes (fst pv)) = Ok None).
    { intros [pname v] Hin. cbn [fst]. exact (proj1 (HunX inst pname v Hind Hin)). }
    assert (Hrel : incl (ss_relevant st) (ss_relevant st ++ [r])) by (intros y Hy; apply in_or_app; now left).
    assert (G : forall types0 ti0 next ss2 ti2,
              NoDup (List.map fst types0) -> bfind (i_class inst) types0 = Some ti0 ->
              (forall c ti, In (c, ti) types0 -> (c, ti) = (i_class inst, ti0) \/ In (c, ti) (ss_types st)) ->
              (forall c ti, In (c, ti) (ss_types st) -> In (c, ti) types0) ->
              ti_class ti0 = get_class d (string_of_bytes (i_class inst)) ->
              (forall k pi, In (k, pi) (ti_props ti0) -> col_src (ss_relevant st) (i_class inst) k pi) ->
              (forall k pi s, In (k, pi) (ti_props ti0) -> pi_default pi = VSharedString s -> In s (ss_sstr st)) ->
              fold_res (cti_prop d (i_class inst))
                (ss_sstr st, mkTI (ti_id ti0) (ti_service ti0) (ti_instances ti0 ++ [i_ref inst]) (ti_props ti0) (ti_class ti0) (ti_visited ti0))
                (i_props inst) = Ok (ss2, ti2) ->
              sinv (mkSS (ss_relevant st ++ [r]) (bset (i_class inst) ti2 types0) next ss2)).
    { intros types0 ti0 next ss2 ti2 Hnd0 Hf0 Hold Hnew Hc0 Hsrc0 Hdss0 Ef.
      destruct (cti_fold_ss (i_class inst) (i_props inst) _ _ _ _ Hl Ef) as (Hc2 & Hm2 & Ho2 & Hi2 & Hs2).
      cbn [ti_props ti_class] in Hc2, Hm2, Ho2.
      assert (Hin2 : In (i_class inst, ti2) (bset (i_class inst) ti2 types0)) by (eapply in_bset_same; eauto).
      assert (Hkeep : forall c ti, In (c, ti) types0 -> c <> i_class inst -> In (c, ti) (bset (i_class inst) ti2 types0)).
      { intros c ti Hin Hne. apply (in_bset _ ti2 _ _ Hf0). right. left. split; [exact Hin|]. intros [= E _]. contradiction. }
      split; [|split; [|split]]; cbn [ss_types ss_relevant ss_sstr].
      - intros c ti Hin. apply (in_bset_cases _ _ _ _ Hf0) in Hin. destruct Hin as [[-> ->]|Hin]; [congruence|].
        destruct (Hold c ti Hin) as [[= -> ->]|Hin']; [exact Hc0|now apply (Hcls c ti)].
      - intros c ti k pi Hct Hkp. apply (in_bset_cases _ _ _ _ Hf0) in Hct. destruct Hct as [[-> ->]|Hct].
        + destruct (Ho2 k pi Hkp) as [Hk0|(v & Hin & E1 & _)].
          * apply (col_src_mono _ _ _ _ _ Hrel). now apply Hsrc0.
          * right. exists r, inst, v. split; [apply in_or_app; right; now left|]. split; [exact Hfi|]. split; [reflexivity|]. split; [exact Hin|].
            rewrite <- Hc0. exact E1.
        + apply (col_src_mono _ _ _ _ _ Hrel). destruct (Hold _ _ Hct) as [[= -> ->]|Hct']; [now apply Hsrc0|now apply (Hsrc c ti)].
      - intros c ti k pi s Hct Hkp Hd. apply (in_bset_cases _ _ _ _ Hf0) in Hct. destruct Hct as [[-> ->]|Hct].
        + destruct (Ho2 k pi Hkp) as [Hk0|(v & Hin & _ & E2)]; [apply Hi2; now apply (Hdss0 k pi)|now apply E2].
        + apply Hi2. destruct (Hold _ _ Hct) as [[= -> ->]|Hct']; [now apply (Hdss0 k pi)|now apply (Hdss c ti k pi)].
      - intros s Hs. destruct (Hs2 s Hs) as [H1|[(k & H1)|(k & pi & H1 & H2)]].
        + destruct (Hss s H1) as [(r' & i' & k & A1 & A2 & A3)|(c & ti & k & pi & A1 & A2 & A3)].
          * left. exists r', i', k. split; [now apply Hrel|auto].
          * right. apply Hnew in A1. destruct (bytes_eqb c (i_class inst)) eqn:Ec.
            -- apply bytes_eqb_eq in Ec. subst c. assert (ti = ti0) by (apply bfind_in in Hf0; eapply keys_functional; eauto). subst ti.
               exists (i_class inst), ti2, k, pi. split; [exact Hin2|]. split; [now apply Hm2|exact A3].
            -- apply bytes_eqb_false_neq in Ec. exists c, ti, k, pi. split; [now apply Hkeep|auto].
        + left. exists r, inst, k. split; [apply in_or_app; right; now left|auto].
        + right. exists (i_class inst), ti2, k, pi. auto. }
    unfold collect_type_info in H. cbn [ss_types ss_next_id ss_sstr ss_relevant] in H.
    destruct (bfind (i_class inst) (ss_types st)) as [ti0|] eqn:Hf.
    - match type of H with rbind ?X _ = _ => destruct X as [[ss2 ti2]| | |] eqn:Ef end; cbn [rbind] in H; try discriminate.
      injection H as <-. apply (G (ss_types st) ti0 (ss_next_id st) ss2 ti2 Hndk Hf); [auto|auto| | | |exact Ef].
      + apply (Hcls (i_class inst)). now apply bfind_in.
      + intros k pi Hkp. apply (Hsrc (i_class inst) ti0 k pi); [now apply bfind_in|exact Hkp].
      + intros k pi s Hkp. apply (Hdss (i_class inst) ti0 k pi s); [now apply bfind_in|exact Hkp].
    - match type of H with rbind ?X _ = _ => destruct X as [[ss2 ti2]| | |] eqn:Ef end; cbn [rbind] in H; try discriminate.
      injection H as <-.
      set (nti := new_type_info d (ss_next_id st) (i_class inst)) in *.
      apply (G (binsert (i_class inst, nti) (ss_types st)) nti (ss_next_id st + 1) ss2 ti2); [| | | | | | |exact Ef].
      + eapply Permutation_NoDup; [symmetry; apply Permutation_map; apply binsert_perm|]. cbn [List.map fst]. constructor; [|exact Hndk].
        now apply bfind_none_notin.
      + now apply BinStructure.bfind_binsert_same.
      + intros c ti Hin. apply in_binsert in Hin. destruct Hin as [E|Hin]; [now left|now right].
      + intros c ti Hin. apply in_binsert. now right.
      + reflexivity.
      + intros k pi [[= <- <-]|[]]. left. split; reflexivity.
      + intros k pi s [[= <- <-]|[]]. discriminate.
  Qed.

  Lemma add_loop_sinv : forall fuel outer stack lv st st',
    types_inv X st -> sinv st -> add_loop fuel d X outer stack lv st = Ok st' -> sinv st'.
  Proof.
    induction fuel as [|f IH]; intros outer stack lv st st' Hinv Hc H; [discriminate|].
    cbn [add_loop] in H. destruct stack as [|x rest]; [now injection H as <-|].
    destruct (find_inst X x) as [inst|] eqn:Hfi; [|discriminate].
    destruct outer; [exact (IH _ _ _ _ _ Hinv Hc H)|].
    match type of H with (if ?c then _ else _) = _ => destruct c end; [exact (IH _ _ _ _ _ Hinv Hc H)|].
    destruct (collect_type_info d _ inst) as [st1| | |] eqn:E; cbn [rbind] in H; try discriminate.
    destruct (cti_step _ _ _ _ _ _ Hfi Hinv E) as (Hinv1 & _).
    exact (IH _ _ _ _ _ Hinv1 (collect_sinv st x inst st1 Hfi Hinv Hc E) H).
  Qed.

  Theorem enc_sinv ep roots st : add_instances d ep X roots = Ok st -> sinv st.
  Proof.
    intros Hst. destruct (add_instances_inv _ _ _ _ _ Hst) as (st0 & Hl & Hrel & Ht & _ & Hperm & _).
    assert (Hc : sinv st0).
    { eapply add_loop_sinv; [apply types_inv0| |exact Hl].
      split; [intros c ti []|split; [intros c ti k pi []|split; [intros c ti k pi s []|intros s []]]]. }
    destruct Hc as (H1 & H2 & H3 & H4). unfold sinv. rewrite Hrel, Ht. split; [exact H1|]. split; [exact H2|]. split.
    - intros c ti k pi s A1 A2 A3. eapply Permutation_in; [symmetry; exact Hperm|]. eapply H3; eauto.
    - intros s Hs. apply H4. eapply Permutation_in; [exact Hperm|exact Hs].
  Qed.
End SstrInv.

(* ================================================================= (S) the shared-string table of the second traversal *)
Lemma col_plan_sstr d cls k v s wt : simple_val v -> col_plan d cls k (vtype v) = Ok (VSharedString s, wt) ->
  exists cd, cls = Some cd /\ find_default d cd (string_of_bytes k) = Ok (Some (VSharedString s)).
Proof.
  intros Hv H. unfold col_plan in H. destruct cls as [cd|].
  - exists cd. split; [reflexivity|]. destruct (find_default d cd (string_of_bytes k)) as [[dv|]| | |]; cbn [rbind] in H; try discriminate.
    + destruct (from_rbx_type (vtype v)); [|discriminate]. now injection H as -> _.
    + exfalso. destruct v; try contradiction Hv; vm_compute in H; discriminate.
  - exfalso. cbn [rbind] in H. destruct v; try contradiction Hv; vm_compute in H; discriminate.
Qed.
Lemma col_plan_db d cd k ty dv0 dv wt : find_default d cd (string_of_bytes k) = Ok (Some dv0) ->
  col_plan d (Some cd) k ty = Ok (dv, wt) -> dv = dv0.
Proof.
  intros Hd H. unfold col_plan in H. rewrite Hd in H. cbn [rbind] in H. destruct (from_rbx_type ty); [|discriminate]. now injection H as -> _.
Qed.
Lemma simple_val_norm st v : simple_val v -> simple_val (norm_val0 st v).
Proof. destruct v; intro H; try contradiction H; exact I. Qed.

Section BinFix2.
  Variables (d : db) (ep : enc_params) (dom : cdom) (ts : list tree) (st : ser_state).
  Hypothesis Hin : BinRoundTrip.input_ok dom ts.
  Hypothesis Hun : unknown_props d dom.
  Hypothesis Hord : ep_order ep [] = [].
  Hypothesis Hst : add_instances d ep dom (List.map root ts) = Ok st.
  Hypothesis Hsimple : forall x, In x (cols (ss_types st)) -> fst (snd x) <> NAME -> simple_col (pi_type (snd (snd x))) (col_values ep dom x).
  Let W := flat_map refs ts.
  Let roots := List.map root ts.
  Let nd := bnorm_dom st roots dom.

  (* the values of a written instance of the normalised DOM are of the simple types; their names are not Name *)
  Lemma bf_nd_value_simple r k v : In r W -> In (k, v) (i_props (src nd r)) -> simple_val v /\ k <> NAME.
  Proof.
    intros Hr Hkv. destruct (bf_nd_src d ep dom ts st Hin Hst r Hr) as (i & ti & Ef & Hbf & Hct & Hri & _ & _ & _).
    destruct (bf_nd_props d ep dom ts st Hin Hun Hst r ti Hr Hbf) as (Ep & _ & Hkeys).
    split; [|apply (Hkeys k); apply in_map_iff; exists (k, v); auto].
    fold roots in Ep. fold nd in Ep. rewrite Ep in Hkv. apply collect_props_in in Hkv. unfold source_props0 in Hkv.
    apply in_map_iff in Hkv. destruct Hkv as (cp & E & Hcp). apply filter_In in Hcp. destruct Hcp as [Hcp Hq].
    apply negb_true_iff, XmlDeterminism.beqb_false_iff in Hq. injection E as _ <-.
    change (simple_val (norm_val0 st (colv dom r cp))). apply simple_val_norm.
    destruct (bf_colv d ep dom ts st Hun Hord Hst Hsimple _ ti r cp Hct Hri Hcp Hq) as [Hinv Hsc].
    exact (simple_col_val _ _ _ Hsc Hinv).
  Qed.

  Variable st2 : ser_state.
  Hypothesis Hst2 : add_instances d ep nd roots = Ok st2.

  (* every string of the second table is a SharedString default the database gives for a column of the first table, which recorded it *)
  Lemma bf2_sstr_incl : incl (ss_sstr st2) (ss_sstr st).
  Proof.
    intros s Hs.
    destruct (enc_sinv d nd (bf_nd_unknown d ep dom ts st Hun Hst) ep roots st2 Hst2) as (_ & Hsrc2 & _ & Hss2).
    destruct (enc_sinv d dom Hun ep roots st Hst) as (_ & Hsrc & Hdss & _).
    assert (HrelW : forall r, In r (ss_relevant st2) -> In r W).
    { intros r Hr. rewrite (bf2_rel d ep dom ts st Hin Hst st2 Hst2) in Hr. now apply (bf_rel d ep dom ts st Hin Hst). }
    assert (Hfind : forall r i, In r W -> find_inst nd r = Some i -> i = src nd r).
    { intros r i Hr Hf. destruct (bf2_nd_find d ep dom ts st Hin Hst r Hr) as [Hf' _]. fold roots in Hf'. fold nd in Hf'. congruence. }
    destruct (Hss2 s Hs) as [(r & i & k & Hr & Hf & Hkv)|(c & ti2 & k & pi2 & Hct2 & Hkp2 & Hd2)].
    - exfalso. apply HrelW in Hr. rewrite (Hfind r i Hr Hf) in Hkv. exact (proj1 (bf_nd_value_simple r k _ Hr Hkv)).
    - destruct (Hsrc2 c ti2 k pi2 Hct2 Hkp2) as [[_ E]|(r & i & v & Hr & Hf & Hc & Hkv & Hplan)]; [rewrite E in Hd2; discriminate|].
      apply HrelW in Hr. rewrite (Hfind r i Hr Hf) in Hkv. destruct (bf_nd_value_simple r k v Hr Hkv) as [Hsv Hn].
      rewrite Hd2 in Hplan. destruct (col_plan_sstr _ _ _ _ _ _ Hsv Hplan) as (cd & Ecd & Hdef).
      destruct (bf2_entry_back d ep dom ts st Hin Hst st2 Hst2 c ti2 Hct2) as (ti & Hct).
      assert (Hk : In k (List.map fst (ti_props ti))).
      { rewrite <- (bf2_keys d ep dom ts st Hin Hun Hst st2 Hst2 c ti ti2 Hct Hct2). apply in_map_iff. exists (k, pi2). auto. }
      apply in_map_iff in Hk. destruct Hk as ([k' pi] & Ek & Hkp). cbn [fst] in Ek. subst k'.
      destruct (Hsrc c ti k pi Hct Hkp) as [[E _]|(r' & i' & v' & _ & _ & _ & _ & Hplan')]; [contradiction|].
      rewrite Ecd in Hplan'. pose proof (col_plan_db _ _ _ _ _ _ _ Hdef Hplan') as Ed.
      exact (Hdss c ti k pi s Hct Hkp Ed).
  Qed.

  (* hypothesis (b) of [bin_resave_fixed_point] follows from the first save *)
  Lemma bf2_sstr_ok : sstr_ok st -> sstr_ok st2.
  Proof.
    intros [Hlen Hall]. pose proof (inv_sstr _ _ (bf2_inv d ep dom ts st st2 Hst2)) as Hnd2.
    pose proof (NoDup_incl_length Hnd2 bf2_sstr_incl) as Hle. split; [lia|].
    rewrite Forall_forall in *. intros s Hs. apply Hall. now apply bf2_sstr_incl.
  Qed.
End BinFix2.
Print Assumptions bf2_sstr_ok.

(* ================================================================= (T) C07, second half, binary: the fixed point, closed *)
(* [bin_resave_fixed_point] without its hypothesis on the shared-string table of the second traversal.  The only hypothesis left
   about the SECOND save is the compressor law / size limits on its chunks ([frame_ok]), which is inherent. *)
Theorem bin_resave_fixed_point_closed d ep cmp dom ts b p st :
  BinRoundTrip.input_ok dom ts -> names_ok dom -> unknown_props d dom -> ep_order ep [] = [] ->
  encode_file d ep cmp dom (List.map root ts) = Ok b ->
  add_instances d ep dom (List.map root ts) = Ok st ->
  dp_lim p = None ->
  (forall e, encode_chunks d ep dom (List.map root ts) = Ok e -> frame_ok p cmp e) ->
  sstr_ok st ->
  (forall x, In x (cols (ss_types st)) -> fst (snd x) <> NAME -> simple_col (pi_type (snd (snd x))) (col_values ep dom x)) ->
  db_defaults_null d = true ->
  exists out,
    decode_file d p b = Ok out /\ BinRoundTrip.same_forest dom ts (lbl st) out /\
    encode_file d ep cmp out (children_of out 0) = encode_file d ep cmp (bnorm_dom st (List.map root ts) dom) (List.map root ts) /\
    forall b2,
      encode_file d ep cmp out (children_of out 0) = Ok b2 ->
      (forall e2, encode_chunks d ep out (children_of out 0) = Ok e2 -> frame_ok p cmp e2) ->
      exists out2, decode_file d p b2 = Ok out2 /\ encode_file d ep cmp out2 (children_of out2 0) = Ok b2.
Proof.
  intros H1 H2 H3 H4 H5 H6 H7 H8 H9 H10 H11.
  destruct (bin_resave_fixed_point d ep cmp dom ts b p st H1 H2 H3 H4 H5 H6 H7 H8 H9 H10 H11) as (out & Hd & Hsf & E & Hfix).
  exists out. split; [exact Hd|]. split; [exact Hsf|]. split; [exact E|].
  intros b2 Hf2 Hs2. apply (Hfix b2 Hf2 Hs2).
  intros st2 Hst2. exact (bf2_sstr_ok d ep dom ts st H1 H3 H4 H6 H10 st2 Hst2 H9).
Qed.
Print Assumptions bin_resave_fixed_point_closed.

(* non-vacuity of [bin_resave_fixed_point_closed]: the sample DOM of BinRoundTrip, every hypothesis discharged *)
Example bin_resave_fixed_point_closed_sample :
  exists out b2 out2,
    decode_file db0 (dp0 None) sample_file = Ok out /\
    encode_file db0 ep0 None out (children_of out 0) = Ok b2 /\
    decode_file db0 (dp0 None) b2 = Ok out2 /\
    encode_file db0 ep0 None out2 (children_of out2 0) = Ok b2.
Proof.
  destruct (bin_resave_fixed_point_closed db0 ep0 None sample_dom [sample_tree] sample_file (dp0 None) SampleRoundTrip.sample_st
              SampleRoundTrip.sample_input_ok SampleRoundTrip.sample_names_ok SampleRoundTrip2.sample_unknown_props eq_refl
              sample_encodes SampleRoundTrip.sample_st_ok eq_refl SampleRoundTrip.sample_frame_ok SampleRoundTrip.sample_sstr_ok
              (fun x Hx Hn => proj2 (SampleRoundTrip.sample_plain_cols x Hx Hn)) eq_refl) as (out & Hd & _ & _ & Hfix).
  rewrite fx_out_ok in Hd. inversion Hd; subst out.
  destruct (Hfix fx_b2 fx_b2_ok fx_frame_ok) as (out2 & Hd2 & He2).
  exists fx_out, fx_b2, out2. split; [exact fx_out_ok|]. split; [exact fx_b2_ok|]. split; assumption.
Qed.
Print Assumptions bin_resave_fixed_point_closed_sample.

(* ================================================================= (U) no compressor: the readable form *)
(* without a compressor [frame_ok] is a size limit only: every chunk payload is shorter than 2^32 bytes (the chunk header holds
   its length in a u32) *)
Definition chunks_small (e : encoded) : Prop := Forall (fun c => N.of_nat (length (snd c)) < 2 ^ 32) (en_chunks e).
Lemma frame_ok_none p e : frame_ok p None e <-> chunks_small e.
Proof.
  unfold frame_ok, chunks_small, BinFraming.sizes_ok. split; intro H; (eapply Forall_impl; [|exact H]); cbv beta; intros c Hc; tauto.
Qed.

Theorem bin_resave_fixed_point_uncompressed0 d ep dom ts b p st :
  BinRoundTrip.input_ok dom ts -> names_ok dom -> unknown_props d dom -> ep_order ep [] = [] ->
  encode_file d ep None dom (List.map root ts) = Ok b ->
  add_instances d ep dom (List.map root ts) = Ok st ->
  dp_lim p = None ->
  (forall e, encode_chunks d ep dom (List.map root ts) = Ok e -> chunks_small e) ->
  sstr_ok st ->
  (forall x, In x (cols (ss_types st)) -> fst (snd x) <> NAME -> simple_col (pi_type (snd (snd x))) (col_values ep dom x)) ->
  db_defaults_null d = true ->
  (* the second save: it is the save of the normalised DOM; it does not fail and its chunks are shorter than 2^32 bytes *)
  (exists e2, encode_chunks d ep (bnorm_dom st (List.map root ts) dom) (List.map root ts) = Ok e2 /\ chunks_small e2) ->
  exists out b2 out2,
    decode_file d p b = Ok out /\ encode_file d ep None out (children_of out 0) = Ok b2 /\
    decode_file d p b2 = Ok out2 /\ encode_file d ep None out2 (children_of out2 0) = Ok b2.
Proof.
  intros H1 H2 H3 H4 H5 H6 H7 H8 H9 H10 H11 (e2 & He2 & Hsm2).
  assert (H8' : forall e, encode_chunks d ep dom (List.map root ts) = Ok e -> frame_ok p None e) by (intros e He; apply frame_ok_none; auto).
  destruct (bin_resave_chunks d ep None dom ts b p st H1 H2 H3 H4 H5 H6 H7 H8' H9 H10 H11) as (out & Hd & _ & E).
  destruct (bin_resave_fixed_point_closed d ep None dom ts b p st H1 H2 H3 H4 H5 H6 H7 H8' H9 H10 H11) as (out' & Hd' & _ & _ & Hfix).
  rewrite Hd in Hd'. injection Hd' as <-.
  set (b2 := en_header e2 ++ flat_map (frame_chunk None) (en_chunks e2) ++ END_CHUNK).
  assert (Hf2 : encode_file d ep None out (children_of out 0) = Ok b2) by (unfold encode_file; rewrite E, He2; reflexivity).
  destruct (Hfix b2 Hf2) as (out2 & Hd2 & Hf3).
  { intros e Hee. rewrite E, He2 in Hee. injection Hee as <-. now apply frame_ok_none. }
  exists out, b2, out2. auto.
Qed.
Print Assumptions bin_resave_fixed_point_uncompressed0.

Definition fx_nd : cdom := bnorm_dom SampleRoundTrip.sample_st (List.map root [sample_tree]) sample_dom.
Definition fx_nd_e2 : encoded := Eval vm_compute in
  match encode_chunks db0 ep0 fx_nd (List.map root [sample_tree]) with Ok e => e | _ => mkEnc [] [] end.
Lemma fx_nd_e2_ok : encode_chunks db0 ep0 fx_nd (List.map root [sample_tree]) = Ok fx_nd_e2.
Proof. vm_compute. reflexivity. Qed.
Lemma fx_nd_small : chunks_small fx_nd_e2.
Proof. unfold chunks_small, fx_nd_e2. cbn [en_chunks]. repeat (constructor; [vm_compute; reflexivity|]). constructor. Qed.

Example bin_resave_fixed_point_uncompressed0_sample :
  exists out b2 out2,
    decode_file db0 (dp0 None) sample_file = Ok out /\
    encode_file db0 ep0 None out (children_of out 0) = Ok b2 /\
    decode_file db0 (dp0 None) b2 = Ok out2 /\
    encode_file db0 ep0 None out2 (children_of out2 0) = Ok b2.
Proof.
  apply (bin_resave_fixed_point_uncompressed0 db0 ep0 sample_dom [sample_tree] sample_file (dp0 None) SampleRoundTrip.sample_st
           SampleRoundTrip.sample_input_ok SampleRoundTrip.sample_names_ok SampleRoundTrip2.sample_unknown_props eq_refl
           sample_encodes SampleRoundTrip.sample_st_ok eq_refl).
  - intros e He. apply (frame_ok_none (dp0 None)). now apply SampleRoundTrip.sample_frame_ok.
  - exact SampleRoundTrip.sample_sstr_ok.
  - exact (fun x Hx Hn => proj2 (SampleRoundTrip.sample_plain_cols x Hx Hn)).
  - reflexivity.
  - exists fx_nd_e2. split; [exact fx_nd_e2_ok|exact fx_nd_small].
Qed.
Print Assumptions bin_resave_fixed_point_uncompressed0_sample.

(* ================================================================= (V) the second save does not fail *)
Lemma col_plan_total d cls k ty q v : col_plan d cls k ty = Ok q -> simple_val v -> exists q', col_plan d cls k (vtype v) = Ok q'.
Proof.
  unfold col_plan. intros H Hv. destruct cls as [cd|].
  - destruct (find_default d cd (string_of_bytes k)) as [[dv|]| | |]; cbn [rbind] in *; try discriminate.
    + destruct v; try contradiction Hv; vm_compute; eauto.
    + destruct v; try contradiction Hv; vm_compute; eauto.
  - cbn [rbind] in *. destruct v; try contradiction Hv; vm_compute; eauto.
Qed.

Lemma cti_prop_ok d class ss ti pv :
  find_desc_bin d (string_of_bytes class) (string_of_bytes (fst pv)) = Ok None ->
  (exists q, col_plan d (ti_class ti) (fst pv) (vtype (snd pv)) = Ok q) ->
  exists r, cti_prop d class (ss, ti) pv = Ok r.
Proof.
  destruct pv as [pname pvalue]. cbn [fst snd]. intros Hdb (q & Hq). unfold cti_prop.
  destruct (bmem pname (ti_visited ti)); [eauto|].
  unfold resolve_prop. rewrite Hdb. cbn [rbind]. cbn [ti_props ti_class ti_id ti_service ti_instances ti_visited].
  destruct (bfind pname (ti_props ti)) as [pi0|] eqn:Ef.
  - cbn [rbind]. rewrite bytes_eqb_refl. eauto.
  - unfold col_plan in Hq.
    destruct (match ti_class ti with Some c => find_default d c (string_of_bytes pname) | None => Ok None end) as [dbdef| | |]; cbn [rbind] in *; try discriminate.
    destruct (match dbdef with Some v => Some v | None => fallback_default_value (vtype pvalue) end) as [dv|]; [|discriminate].
    destruct (from_rbx_type (vtype pvalue)) as [wt|]; [|discriminate].
    cbn [rbind]. rewrite bytes_eqb_refl. eauto.
Qed.

Lemma cti_fold_ok d class l : forall ss ti,
  (forall pv, In pv l -> find_desc_bin d (string_of_bytes class) (string_of_bytes (fst pv)) = Ok None /\
                         exists q, col_plan d (ti_class ti) (fst pv) (vtype (snd pv)) = Ok q) ->
  exists r, fold_res (cti_prop d class) (ss, ti) l = Ok r.
Proof.
  induction l as [|pv l IH]; intros ss ti Hl; cbn [fold_res]; [eauto|].
  destruct (Hl pv (or_introl eq_refl)) as [Hdb Hq].
  destruct (cti_prop_ok d class ss ti pv Hdb Hq) as ([ss1 ti1] & E). rewrite E. cbn [rbind].
  destruct (cti_prop_ss d class ss ti pv ss1 ti1 Hdb E) as (Hc & _).
  apply IH. intros pv' Hin. rewrite Hc. apply Hl. now right.
Qed.

Lemma collect_ok2 d X st i :
  sinv d X st ->
  (forall pv, In pv (i_props i) -> find_desc_bin d (string_of_bytes (i_class i)) (string_of_bytes (fst pv)) = Ok None /\
                         exists q, col_plan d (get_class d (string_of_bytes (i_class i))) (fst pv) (vtype (snd pv)) = Ok q) ->
  exists st', collect_type_info d st i = Ok st'.
Proof.
  intros (Hcls & _) Hl. unfold collect_type_info.
  destruct (bfind (i_class i) (ss_types st)) as [ti0|] eqn:Hf.
  - match goal with |- context [fold_res ?f ?a ?l] => destruct (cti_fold_ok d (i_class i) l (fst a) (snd a)) as ([ss2 ti2] & E) end.
    { cbn [snd ti_class]. rewrite (Hcls _ _ (bfind_in _ _ _ Hf)). exact Hl. }
    cbn [fst snd] in E. rewrite E. cbn [rbind]. eauto.
  - match goal with |- context [fold_res ?f ?a ?l] => destruct (cti_fold_ok d (i_class i) l (fst a) (snd a)) as ([ss2 ti2] & E) end.
    { cbn [snd ti_class new_type_info]. exact Hl. }
    cbn [fst snd] in E. rewrite E. cbn [rbind]. eauto.
Qed.

Lemma sort_sstr_hashes hash ss ss' : sort_sstr hash ss = Ok ss' -> forall s, In s ss -> bfind s hash <> None.
Proof.
  unfold sort_sstr.
  assert (G : forall l acc keyed,
            fold_res (fun acc s => match bfind s hash with Some h => Ok (acc ++ [(h, s)]) | None => Err E_HASH_ORDER end) acc l = Ok keyed ->
            forall s, In s l -> bfind s hash <> None).
  { induction l as [|s0 l IH]; intros acc keyed H s Hs; [destruct Hs|]. cbn [fold_res] in H.
    destruct (bfind s0 hash) as [h|] eqn:E; [|discriminate]. cbn [rbind] in H.
    destruct Hs as [<-|Hs]; [congruence|]. eapply IH; eauto. }
  intros H. match type of H with rbind ?X _ = _ => destruct X as [keyed| | |] eqn:E end; cbn [rbind] in H; try discriminate.
  eapply G; eauto.
Qed.

Section BinTotal.
  Variables (d : db) (ep : enc_params) (dom : cdom) (ts : list tree) (st : ser_state).
  Hypothesis Hin : BinRoundTrip.input_ok dom ts.
  Hypothesis Hun : unknown_props d dom.
  Hypothesis Hord : ep_order ep [] = [].
  Hypothesis Hst : add_instances d ep dom (List.map root ts) = Ok st.
  Hypothesis Hsimple : forall x, In x (cols (ss_types st)) -> fst (snd x) <> NAME -> simple_col (pi_type (snd (snd x))) (col_values ep dom x).
  Let W := flat_map refs ts.
  Let roots := List.map root ts.
  Let nd := bnorm_dom st roots dom.

  Lemma bt_kids_W r : In r W -> incl (children_of dom r) W.
  Proof.
    destruct Hin as (_ & _ & Hag & HndW & _).
    intro Hr. unfold W in *. apply in_flat_map in Hr. destruct Hr as (t0 & Ht0 & Hr). destruct (refs_nsubtrees t0 r Hr) as (t & Ht & <-).
    rewrite Forall_forall in Hag. destruct (nsubtrees_facts _ t0 (Hag t0 Ht0) t Ht) as [Hat Hincl].
    destruct t as [q cs]. apply agrees_unfold in Hat. destruct Hat as [Hk _]. cbn [root]. rewrite Hk.
    intros y Hy. apply in_map_iff in Hy. destruct Hy as (c & <- & Hc). apply in_flat_map. exists t0. split; [exact Ht0|].
    apply Hincl. cbn [refs]. right. apply in_flat_map. exists c. split; [exact Hc|apply in_root_refs].
  Qed.

  Lemma bt_find x : In x W -> find_inst nd x = Some (src nd x) /\ i_class (src nd x) = class_of dom x.
  Proof. intro Hx. exact (bf2_nd_find d ep dom ts st Hin Hst x Hx). Qed.

  (* every column of the first table that the second traversal can ask for is planned again *)
  Lemma bt_inst_ok x : In x W -> forall pv, In pv (i_props (src nd x)) ->
    find_desc_bin d (string_of_bytes (i_class (src nd x))) (string_of_bytes (fst pv)) = Ok None /\
    exists q, col_plan d (get_class d (string_of_bytes (i_class (src nd x)))) (fst pv) (vtype (snd pv)) = Ok q.
  Proof.
    intros Hx [k v] Hkv. cbn [fst snd]. destruct (bt_find x Hx) as [Hf Hc].
    destruct (find_inst_some _ _ _ Hf) as [Hind _].
    split; [exact (proj1 (bf_nd_unknown d ep dom ts st Hun Hst _ k v Hind Hkv))|].
    destruct (bf_nd_value_simple d ep dom ts st Hin Hun Hord Hst Hsimple x k v Hx Hkv) as [Hsv Hn].
    destruct (bf_nd_src d ep dom ts st Hin Hst x Hx) as (i & ti & _ & Hbf & Hct & _).
    destruct (bf_nd_props d ep dom ts st Hin Hun Hst x ti Hx Hbf) as (_ & _ & Hkeys).
    destruct (Hkeys k) as [_ Hk]; [apply in_map_iff; exists (k, v); auto|].
    apply in_map_iff in Hk. destruct Hk as ([k' pi] & Ek & Hkp). cbn [fst] in Ek. subst k'.
    destruct (enc_sinv d dom Hun ep roots st Hst) as (_ & Hsrc & _).
    destruct (Hsrc _ ti k pi Hct Hkp) as [[E _]|(r' & i' & v' & _ & _ & _ & _ & Hplan)]; [contradiction|].
    rewrite Hc. exact (col_plan_total _ _ _ _ _ v Hplan Hsv).
  Qed.

  Lemma bt_sstr_incl st' : sinv d nd st' -> (forall r, In r (ss_relevant st') -> In r W) -> incl (ss_sstr st') (ss_sstr st).
  Proof.
    intros (_ & Hsrc2 & _ & Hss2) HrelW s Hs.
    destruct (enc_sinv d dom Hun ep roots st Hst) as (_ & Hsrc & Hdss & _).
    assert (Hfind : forall r i, In r W -> find_inst nd r = Some i -> i = src nd r).
    { intros r i Hr Hf. destruct (bt_find r Hr) as [Hf' _]. congruence. }
    destruct (Hss2 s Hs) as [(r & i & k & Hr & Hf & Hkv)|(c & ti2 & k & pi2 & Hct2 & Hkp2 & Hd2)].
    - exfalso. apply HrelW in Hr. rewrite (Hfind r i Hr Hf) in Hkv.
      exact (proj1 (bf_nd_value_simple d ep dom ts st Hin Hun Hord Hst Hsimple r k _ Hr Hkv)).
    - destruct (Hsrc2 c ti2 k pi2 Hct2 Hkp2) as [[_ E]|(r & i & v & Hr & Hf & Hc & Hkv & Hplan)]; [rewrite E in Hd2; discriminate|].
      apply HrelW in Hr. rewrite (Hfind r i Hr Hf) in Hkv, Hc.
      destruct (bf_nd_value_simple d ep dom ts st Hin Hun Hord Hst Hsimple r k v Hr Hkv) as [Hsv Hn].
      rewrite Hd2 in Hplan. destruct (col_plan_sstr _ _ _ _ _ _ Hsv Hplan) as (cd & Ecd & Hdef).
      destruct (bf_nd_src d ep dom ts st Hin Hst r Hr) as (i0 & ti & _ & Hbf & Hct & _).
      destruct (bf_nd_props d ep dom ts st Hin Hun Hst r ti Hr Hbf) as (_ & _ & Hkeys).
      destruct (Hkeys k) as [_ Hk]; [apply in_map_iff; exists (k, v); auto|].
      apply in_map_iff in Hk. destruct Hk as ([k' pi] & Ek & Hkp). cbn [fst] in Ek. subst k'.
      rewrite (proj2 (bt_find r Hr)) in Hc. rewrite Hc in Hct.
      destruct (Hsrc c ti k pi Hct Hkp) as [[E _]|(r' & i' & v' & _ & _ & _ & _ & Hplan')]; [contradiction|].
      rewrite Ecd in Hplan'. pose proof (col_plan_db _ _ _ _ _ _ _ Hdef Hplan') as Ed.
      exact (Hdss c ti k pi s Hct Hkp Ed).
  Qed.

  Lemma bt_loop : forall fuel outer stack lv st' out,
    types_inv nd st' -> sinv d nd st' -> Forall (fun r => In r W) stack ->
    run (children_of nd) fuel outer stack lv (ss_relevant st') = Some out ->
    exists st'', add_loop fuel d nd outer stack lv st' = Ok st'' /\ types_inv nd st'' /\ sinv d nd st''.
  Proof.
    induction fuel as [|f IH]; intros outer stack lv st' out Hinv Hg Hstk Hrun; [discriminate|].
    cbn [add_loop run] in *. destruct stack as [|x rest]; [eauto|].
    apply Forall_cons_iff in Hstk. destruct Hstk as [Hx Hrest].
    destruct (bt_find x Hx) as [Hfi Hcx]. rewrite Hfi.
    destruct outer.
    { eapply IH; eauto. apply Forall_app. split; [|constructor; auto].
      apply Forall_forall. intros c Hc. unfold nd, roots in Hc. rewrite (bf_nd_kids dom ts st Hin x Hx) in Hc. exact (bt_kids_W x Hx c Hc). }
    destruct (negb (is_nil (children_of nd x)) && negb (opt_eqb (last_opt (children_of nd x)) lv))%bool.
    { eapply IH; eauto. }
    set (st_r := mkSS (ss_relevant st' ++ [x]) (ss_types st') (ss_next_id st') (ss_sstr st')).
    assert (Hg_r : sinv d nd st_r).
    { destruct Hg as (G1 & G2 & G3 & G4). split; [exact G1|]. split; [|split; [exact G3|]]; cbn [ss_types ss_relevant ss_sstr st_r].
      - intros c ti k pi A1 A2. eapply col_src_mono; [|exact (G2 c ti k pi A1 A2)]. intros y Hy. apply in_or_app. now left.
      - intros s Hs. destruct (G4 s Hs) as [(r & i & k & A1 & A2)|A]; [left|now right]. exists r, i, k. split; [apply in_or_app; now left|exact A2]. }
    destruct (collect_ok2 d nd st_r (src nd x) Hg_r (bt_inst_ok x Hx)) as [st1 E]. rewrite E. cbn [rbind].
    destruct (cti_step _ _ _ _ _ _ Hfi Hinv E) as (Hinv1 & Hrel1 & _ & _).
    assert (Hg1 : sinv d nd st1) by (exact (collect_sinv d nd (bf_nd_unknown d ep dom ts st Hun Hst) st' x (src nd x) st1 Hfi Hinv Hg E)).
    apply (IH false rest (Some x) st1 out Hinv1 Hg1 Hrest). rewrite Hrel1. exact Hrun.
  Qed.

  Lemma bt_len : (sizes ts <= length nd)%nat.
  Proof.
    destruct Hin as (_ & _ & _ & HndW & _). rewrite sizes_refs. unfold nd, bnorm_dom. rewrite map_length, <- (map_length i_ref dom).
    apply NoDup_incl_length; [exact HndW|]. intros r Hr. destruct (bf_found d ep dom ts st Hin Hst r Hr) as (i & _ & <- & Hi). now apply in_map.
  Qed.

  (* the traversal of the second save succeeds *)
  Theorem bt_add_instances : exists st2, add_instances d ep nd roots = Ok st2.
  Proof.
    destruct (bf_nd_input_ok dom ts st Hin) as (_ & _ & Hag2 & HndW & _). fold roots in Hag2. fold nd in Hag2.
    pose proof (postorder_fuel_suffices nd ts Hag2 HndW) as Hrun.
    set (fuel := (3 * (length nd + 1) * (length roots + 1))%nat).
    assert (Hfuel : exists k, fuel = (3 * sizes ts + 3 + k)%nat).
    { exists (fuel - (3 * sizes ts + 3))%nat. subst fuel. pose proof bt_len. nia. }
    destruct Hfuel as [kf Hk]. apply (run_mono _ _ _ _ _ _ _ kf) in Hrun. rewrite <- Hk in Hrun.
    destruct (bt_loop fuel true roots None ser_state0 (flat_map post ts) (types_inv0 nd)) as (st0' & Hl & Hinv0 & Hg0).
    { split; [intros c ti []|split; [intros c ti k pi []|split; [intros c ti k pi s []|intros s []]]]. }
    { apply Forall_forall. intros r Hr. unfold roots in Hr. apply in_map_iff in Hr. destruct Hr as (t & <- & Ht).
      apply in_flat_map. exists t. split; [exact Ht|apply in_root_refs]. }
    { exact Hrun. }
    pose proof (add_loop_postorder d nd ts _ ser_state0 st0' Hag2 HndW Hl) as Hpost. cbn [ss_relevant ser_state0 app] in Hpost.
    assert (HrelW : forall r, In r (ss_relevant st0') -> In r W).
    { intros r Hr. rewrite Hpost in Hr. eapply Permutation_in; [apply post_perm_refs_forest|exact Hr]. }
    pose proof (bt_sstr_incl st0' Hg0 HrelW) as Hincl.
    (* the hashes the first save found *)
    destruct (add_instances_inv _ _ _ _ _ Hst) as (st0 & Hl0 & _ & _ & _ & Hperm & _).
    pose proof Hst as Hst'. unfold add_instances in Hst'. rewrite Hl0 in Hst'. cbn [rbind] in Hst'.
    destruct (sort_sstr (ep_hash ep) (ss_sstr st0)) as [ss| | |] eqn:Es; cbn [rbind] in Hst'; try discriminate.
    destruct (sort_sstr_total (ep_hash ep) (ss_sstr st0')) as [ss2 Hss2].
    { intros s Hs. apply (sort_sstr_hashes _ _ _ Es). eapply Permutation_in; [exact Hperm|]. now apply Hincl. }
    eexists. unfold add_instances. fold fuel. rewrite Hl. cbn [rbind]. rewrite Hss2. reflexivity.
  Qed.
End BinTotal.
Print Assumptions bt_add_instances.

Lemma simple_col_accepts wt ctx vs : simple_col wt vs -> Forall (fun v => col_accepts wt ctx v = true) vs.
Proof. intro H. destruct H; apply Forall_forall; intros v Hv; apply in_map_iff in Hv; destruct Hv as (x & <- & _); reflexivity. Qed.

Section BinTotal2.
  Variables (d : db) (ep : enc_params) (dom : cdom) (ts : list tree) (st : ser_state) (e1 : encoded).
  Hypothesis Hin : BinRoundTrip.input_ok dom ts.
  Hypothesis Hun : unknown_props d dom.
  Hypothesis Hord : ep_order ep [] = [].
  Hypothesis Hst : add_instances d ep dom (List.map root ts) = Ok st.
  Hypothesis Hsimple : forall x, In x (cols (ss_types st)) -> fst (snd x) <> NAME -> simple_col (pi_type (snd (snd x))) (col_values ep dom x).
  Hypothesis He1 : encode_chunks d ep dom (List.map root ts) = Ok e1.
  Let roots := List.map root ts.
  Let nd := bnorm_dom st roots dom.

  (* the second save does not fail: it plans the columns of the first save again, all of them of the simple types *)
  Theorem bt_encode_chunks : exists e2, encode_chunks d ep nd roots = Ok e2.
  Proof.
    destruct (bt_add_instances d ep dom ts st Hin Hun Hord Hst Hsimple) as (st2 & Hst2). fold roots in Hst2. fold nd in Hst2.
    destruct (bf_nd_input_ok dom ts st Hin) as (_ & _ & Hag2 & HndW & _). fold roots in Hag2. fold nd in Hag2.
    pose proof (bf2_inv d ep dom ts st st2 Hst2) as Hinv. fold roots in Hinv. fold nd in Hinv.
    destruct (enc_relevant_postorder d ep nd ts st2 Hag2 HndW Hst2) as [Hrel Hndr].
    pose proof (bf2_rel d ep dom ts st Hin Hst st2 Hst2) as Hrel2.
    destruct (unknown_props_table d ep nd roots st2 (bf_nd_unknown d ep dom ts st Hun Hst) Hst2) as (_ & _ & _ & Hpl).
    assert (Hlen : Z.ltb 2147483647 (Z.of_nat (length (ss_relevant st2))) = false).
    { rewrite Hrel2. unfold encode_chunks in He1. rewrite Hst in He1. cbn [rbind] in He1.
      destruct (Z.ltb 2147483647 (Z.of_nat (length (ss_relevant st)))); [discriminate|reflexivity]. }
    unfold encode_chunks. rewrite Hst2. cbn [rbind]. rewrite Hlen. cbn [rbind]. cbv zeta.
    set (rfs := referent_table 0 (ss_relevant st2) []).
    assert (Hsub : forall cn ti r, In (cn, ti) (ss_types st2) -> In r (ti_instances ti) -> In r (ss_relevant st2)).
    { intros cn ti r Hct Hr. rewrite (inv_insts _ _ Hinv cn ti Hct) in Hr. apply filter_In in Hr. tauto. }
    destruct (map_res_total (inst_chunk rfs) (ss_types st2)) as [insts Hi].
    { intros [cn ti] Hct. unfold inst_chunk.
      destruct (map_res_total (to_ref rfs) (ti_instances ti)) as [ids Hids].
      { intros r Hr. apply to_ref_total; [exact Hndr|eauto]. }
      rewrite Hids. cbn [rbind]. eauto. }
    rewrite Hi. cbn [rbind].
    set (ctx := mkEC (fun r => lookup r rfs) (fun s => index_of s (ss_sstr st2) 0) (ep_quant ep)).
    destruct (map_res_total (fun ct => map_res (prop_chunk ep nd ctx (snd ct)) (ti_props (snd ct))) (ss_types st2)) as [props Hp].
    { intros [cn ti] Hct. cbn [snd]. apply map_res_total. intros [canon pi] Hcp. unfold prop_chunk.
      assert (Hx : In (cn, ti, (canon, pi)) (cols (ss_types st2))).
      { unfold cols. apply in_flat_map. exists (cn, ti). split; [exact Hct|]. apply in_map_iff. exists (canon, pi). auto. }
      destruct (Hpl _ Hx) as (_ & Eal & Emig). cbn [fst snd] in Eal, Emig. rewrite Eal, Hord. cbn [is_perm length Nat.eqb forallb andb negb].
      destruct (gather_total nd (ti_instances ti) []) as [is Hg].
      { intros r Hr. apply (inv_found _ _ Hinv). eauto. }
      rewrite Hg. cbn [rbind]. apply fold_insts in Hg. destruct Hg as (new & -> & HF). cbn [app].
      apply Forall2_find_src in HF. subst new.
      destruct (enc_col_total (pi_type pi) ctx (List.map (prop_value ep canon pi []) (List.map (src nd) (ti_instances ti)))) as [col Hc].
      { destruct (bytes_eqb canon NAME) eqn:En.
        - apply bytes_eqb_eq in En. subst canon.
          destruct (enc_name_entry d ep nd roots st2 Hst2 cn ti Hct) as [_ Hall]. destruct (Hall pi Hcp) as [-> _].
          apply Forall_forall. intros v Hv. apply in_map_iff in Hv. destruct Hv as (i & <- & _).
          unfold prop_value. rewrite Emig, bytes_eqb_refl. reflexivity.
        - apply XmlDeterminism.beqb_false_iff in En.
          pose proof (bf2_simple d ep dom ts st Hin Hun Hord Hst Hsimple st2 Hst2 _ Hx En) as Hsc.
          cbn [fst snd] in Hsc. fold roots in Hsc. fold nd in Hsc. unfold col_values in Hsc. rewrite Eal, Hord in Hsc.
          exact (simple_col_accepts _ ctx _ Hsc). }
      rewrite Hc. cbn [rbind]. eauto. }
    rewrite Hp. cbn [rbind].
    destruct (map_res_total (to_ref rfs) (ss_relevant st2)) as [objs Ho].
    { intros r Hr. now apply to_ref_total. }
    rewrite Ho. cbn [rbind].
    match goal with |- context [map_res ?f (ss_relevant st2)] => destruct (map_res_total f (ss_relevant st2)) as [parents Hpa] end.
    { intros r Hr. pose proof (inv_found _ _ Hinv r Hr) as Hf. destruct (find_inst nd r); [eauto|congruence]. }
    rewrite Hpa. cbn [rbind]. eauto.
  Qed.
End BinTotal2.
Print Assumptions bt_encode_chunks.

(* ================================================================= (W) the closed statements *)
(* any compressor.  Hypotheses about the second save: only the compressor law / size limits on its chunks, stated on the chunks of
   the normalised DOM (which are the chunks of the second save: [bin_resave_chunks]); that the second save does not fail is proved
   ([bt_encode_chunks]), and so is the u32 limit on its shared-string table ([bf2_sstr_ok]). *)
Theorem bin_resave_fixed_point_total d ep cmp dom ts b p st :
  BinRoundTrip.input_ok dom ts -> names_ok dom -> unknown_props d dom -> ep_order ep [] = [] ->
  encode_file d ep cmp dom (List.map root ts) = Ok b ->
  add_instances d ep dom (List.map root ts) = Ok st ->
  dp_lim p = None ->
  (forall e, encode_chunks d ep dom (List.map root ts) = Ok e -> frame_ok p cmp e) ->
  sstr_ok st ->
  (forall x, In x (cols (ss_types st)) -> fst (snd x) <> NAME -> simple_col (pi_type (snd (snd x))) (col_values ep dom x)) ->
  db_defaults_null d = true ->
  (forall e2, encode_chunks d ep (bnorm_dom st (List.map root ts) dom) (List.map root ts) = Ok e2 -> frame_ok p cmp e2) ->
  exists out b2 out2,
    decode_file d p b = Ok out /\ BinRoundTrip.same_forest dom ts (lbl st) out /\
    encode_file d ep cmp out (children_of out 0) = Ok b2 /\
    decode_file d p b2 = Ok out2 /\ encode_file d ep cmp out2 (children_of out2 0) = Ok b2.
Proof.
  intros H1 H2 H3 H4 H5 H6 H7 H8 H9 H10 H11 H12.
  assert (He1 : exists e1, encode_chunks d ep dom (List.map root ts) = Ok e1).
  { unfold encode_file in H5. destruct (encode_chunks d ep dom (List.map root ts)) as [e1| | |]; cbn [rbind] in H5; try discriminate. eauto. }
  destruct He1 as (e1 & He1).
  destruct (bt_encode_chunks d ep dom ts st e1 H1 H3 H4 H6 H10 He1) as (e2 & He2).
  destruct (bin_resave_chunks d ep cmp dom ts b p st H1 H2 H3 H4 H5 H6 H7 H8 H9 H10 H11) as (out & Hd & Hsf & E).
  destruct (bin_resave_fixed_point_closed d ep cmp dom ts b p st H1 H2 H3 H4 H5 H6 H7 H8 H9 H10 H11) as (out' & Hd' & _ & _ & Hfix).
  rewrite Hd in Hd'. injection Hd' as <-.
  set (b2 := en_header e2 ++ flat_map (frame_chunk cmp) (en_chunks e2) ++ END_CHUNK).
  assert (Hf2 : encode_file d ep cmp out (children_of out 0) = Ok b2) by (unfold encode_file; rewrite E, He2; reflexivity).
  destruct (Hfix b2 Hf2) as (out2 & Hd2 & Hf3).
  { intros e Hee. rewrite E in Hee. now apply H12. }
  exists out, b2, out2. auto.
Qed.
Print Assumptions bin_resave_fixed_point_total.

(* no compressor: the only hypotheses beyond the shape of the DOM are size limits (chunk payloads and shared strings shorter than 2^32) *)
Theorem bin_resave_fixed_point_uncompressed d ep dom ts b p st :
  BinRoundTrip.input_ok dom ts -> names_ok dom -> unknown_props d dom -> ep_order ep [] = [] ->
  encode_file d ep None dom (List.map root ts) = Ok b ->
  add_instances d ep dom (List.map root ts) = Ok st ->
  dp_lim p = None ->
  (forall e, encode_chunks d ep dom (List.map root ts) = Ok e -> chunks_small e) ->
  sstr_ok st ->
  (forall x, In x (cols (ss_types st)) -> fst (snd x) <> NAME -> simple_col (pi_type (snd (snd x))) (col_values ep dom x)) ->
  db_defaults_null d = true ->
  (forall e2, encode_chunks d ep (bnorm_dom st (List.map root ts) dom) (List.map root ts) = Ok e2 -> chunks_small e2) ->
  exists out b2 out2,
    decode_file d p b = Ok out /\ encode_file d ep None out (children_of out 0) = Ok b2 /\
    decode_file d p b2 = Ok out2 /\ encode_file d ep None out2 (children_of out2 0) = Ok b2.
Proof.
  intros H1 H2 H3 H4 H5 H6 H7 H8 H9 H10 H11 H12.
  destruct (bin_resave_fixed_point_total d ep None dom ts b p st H1 H2 H3 H4 H5 H6 H7) as (out & b2 & out2 & A1 & _ & A2 & A3 & A4); auto.
  - intros e He. apply frame_ok_none. auto.
  - intros e He. apply frame_ok_none. auto.
  - exists out, b2, out2. auto.
Qed.
Print Assumptions bin_resave_fixed_point_uncompressed.

Example bin_resave_fixed_point_uncompressed_sample :
  exists out b2 out2,
    decode_file db0 (dp0 None) sample_file = Ok out /\
    encode_file db0 ep0 None out (children_of out 0) = Ok b2 /\
    decode_file db0 (dp0 None) b2 = Ok out2 /\
    encode_file db0 ep0 None out2 (children_of out2 0) = Ok b2.
Proof.
  apply (bin_resave_fixed_point_uncompressed db0 ep0 sample_dom [sample_tree] sample_file (dp0 None) SampleRoundTrip.sample_st
           SampleRoundTrip.sample_input_ok SampleRoundTrip.sample_names_ok SampleRoundTrip2.sample_unknown_props eq_refl
           sample_encodes SampleRoundTrip.sample_st_ok eq_refl).
  - intros e He. apply (frame_ok_none (dp0 None)). now apply SampleRoundTrip.sample_frame_ok.
  - exact SampleRoundTrip.sample_sstr_ok.
  - exact (fun x Hx Hn => proj2 (SampleRoundTrip.sample_plain_cols x Hx Hn)).
  - reflexivity.
  - intros e2 He2. change (encode_chunks db0 ep0 fx_nd (List.map root [sample_tree]) = Ok e2) in He2. rewrite fx_nd_e2_ok in He2.
    injection He2 as <-. exact fx_nd_small.
Qed.
Print Assumptions bin_resave_fixed_point_uncompressed_sample.
