(* BinKnownPropsBundled.v — the theorems of BinKnownProps.v on the database the crates load (Gen/Database.v): the computed
   back-lookup offenders, [known_props_roundtrip_bundled] and the computed example.  Split off for build time. *)
From Coq Require Import Lia Permutation String.
From RbxVerif Require Import Base Bytes Value Utf8 Db DbCheck CodecDom Attr BrickColor BinValues BinFile BinFileFacts AttrFacts AttrSafe
                             BinColumnsFacts DbFacts BinPostorder BinStructure BinValuesFacts BinValuesFacts2 BinTypeInfoFacts.
From RbxVerif Require BinaryTypes Database BinRoundTrip BinValuesFacts3 BinChunkFacts.
From RbxVerif Require Import BinKnownProps.
Open Scope N_scope.

(* ========================================================================================== *)
(* G3 on the database the crates load                                                          *)
(* ========================================================================================== *)
(* diagnosis, per class: the names whose serialized name the reader does not map back to the same canonical name
   without migration (the per-pair check [pair_cells_ok] fails for values of these properties) *)
Definition back_offenders_class (d : db) (c : cdesc) : list (string * string) :=
  flat_map (fun pn =>
    match known_resolve d (cd_name c) pn with
    | Ok (Some (RProp cn s ty m)) =>
        match col_plan d (Some c) cn ty with
        | Ok (_, wt) =>
            match find_canonical_property d wt (bstr (cd_name c)) s with
            | Ok (Some (c', _, None)) => if bytes_eqb c' cn then [] else [(cd_name c, pn)]
            | _ => [(cd_name c, pn)]
            end
        | _ => []
        end
    | _ => []
    end) (visible_names d c).
Definition back_offenders (d : db) : list (string * string) := flat_map (back_offenders_class d) (db_classes d).

(* the two properties whose serialized name belongs to another property (cf. DbFacts.bundled_names_roundtrip_refuted) *)
Theorem bundled_back_offenders :
  back_offenders Database.database = [("MaterialService", "Use2022Materials"); ("Sound", "MaxDistance")]%string.
Proof. vm_cast_no_check (eq_refl (back_offenders Database.database)). Qed.

Lemma pairs_nodup_agree (l : list (bytes * value)) : NoDup (List.map fst l) ->
  forall n v1 v2, In (n, v1) l -> In (n, v2) l -> v1 = v2.
Proof. intros Hnd n v1 v2 H1 H2. pose proof (in_bfind _ _ _ Hnd H1) as E1. rewrite (in_bfind _ _ _ Hnd H2) in E1. congruence. Qed.

(* the database hypotheses discharged: class_good by bundled_class_good, the consistency of spellings by bundled_agree *)
Corollary known_props_roundtrip_bundled ep cmp dom ts p :
  enc_ready Database.database ep dom ts -> BinRoundTrip.input_ok dom ts -> BinRoundTrip.names_ok dom ->
  (forall cn n v1 v2, In (n, v1) (class_pairs dom cn) -> In (n, v2) (class_pairs dom cn) ->
     known_resolve Database.database (string_of_bytes cn) (string_of_bytes n) = Ok None -> vtype v1 = vtype v2) ->
  dom_values_ok Database.database ep dom = true -> dom_sstrs_ok Database.database dom = true ->
  dp_lim p = None ->
  (forall e, encode_chunks Database.database ep dom (List.map root ts) = Ok e -> BinRoundTrip.frame_ok p cmp e) ->
  exists b st out,
    encode_file Database.database ep cmp dom (List.map root ts) = Ok b /\
    add_instances Database.database ep dom (List.map root ts) = Ok st /\
    decode_file Database.database p b = Ok out /\
    BinRoundTrip.same_forest dom ts (BinRoundTrip.lbl st) out /\
    forall cn ti k r, In (cn, ti) (ss_types st) -> nth_error (ti_instances ti) k = Some r ->
      exists i i', find_inst dom r = Some i /\ i_class i = cn /\
        find_inst out (BinRoundTrip.lbl st r) = Some i' /\ i_ref i' = BinRoundTrip.lbl st r /\
        i_class i' = cn /\ i_name i' = i_name i /\
        (forall k v, In (k, v) (i_props i') -> k <> NAME /\ exists pi, In (k, pi) (ti_props ti)) /\
        forall canon pi, In (canon, pi) (ti_props ti) -> canon <> NAME ->
          exists cty,
            find_canonical_property Database.database (pi_type pi) cn (pi_ser_name pi) = Ok (Some (canon, cty, None)) /\
            (inst_one_spelling Database.database i -> forall n v s ty m, In (n, v) (i_props i) ->
               resolve_prop Database.database cn n v = Ok (RProp canon s ty m) ->
               reads_back p canon (normB (ep_quant ep) (BinRoundTrip.ref_new st) (pi_type pi) cty (migv ep m v)) (i_props i')) /\
            ((forall n v s ty m, In (n, v) (i_props i) -> resolve_prop Database.database cn n v <> Ok (RProp canon s ty m)) ->
               reads_back p canon (normB (ep_quant ep) (BinRoundTrip.ref_new st) (pi_type pi) cty
                                         (migv ep (pi_migration pi) (pi_default pi))) (i_props i') /\
               exists ty0, col_plan Database.database (get_class Database.database (string_of_bytes cn)) canon ty0
                           = Ok (pi_default pi, pi_type pi)).
Proof.
  intros Hr Hin Hnames Hunk Hvals Hss Hlim Hframe.
  apply (known_props_roundtrip Database.database ep cmp dom ts p); auto.
  - intros cn. apply bundled_agree. apply Hunk.
  - intros i _. apply bundled_class_good.
Qed.

(* ---- a computed example on the bundled database: a Part with the legacy BrickColor, a Part with Size only, and an instance of a
   class the database does not know ---- *)
Definition ep_ex : enc_params := mkEP [] [(21, (196, 40, 28))] (fun _ => 0) (fun l => l) [].
Definition dp_ex : dec_params := mkDP [] [(21, (196, 40, 28))] (fun _ _ => None) (VUniqueId 0 0 0%Z) None.
Definition part_a : inst := mkInst 1 0 (bstr "Part") (bstr "A") [(bstr "BrickColor", VBrickColor 21)].
Definition part_b : inst := mkInst 2 0 (bstr "Part") (bstr "B") [(bstr "Size", VVector3 (mkV3 F32_ONE F32_ONE F32_ONE))].
Definition odd_c : inst := mkInst 3 0 (bstr "NotAClass") (bstr "C") [(bstr "Flag", VBool true); (bstr "Note", VString [104; 105])].
Definition ex_dom : cdom := [part_a; part_b; odd_c].
Definition ex_ts : list tree := [Node 1 []; Node 2 []; Node 3 []].
Definition obs (r : res cdom) : list (bytes * bytes * list (bytes * value)) :=
  match r with Ok out => List.map (fun i => (i_class i, i_name i, i_props i)) out | _ => [] end.
Definition frame_okb (e : encoded) : bool := forallb (fun c => N.ltb (N.of_nat (length (snd c))) 4294967296) (en_chunks e).

Lemma frame_okb_ok p e : frame_okb e = true -> BinRoundTrip.frame_ok p None e.
Proof.
  unfold frame_okb, BinRoundTrip.frame_ok. rewrite forallb_forall. intros H. apply Forall_forall. intros c Hc.
  split; [|exact I]. split; [|exact I]. change (2 ^ 32) with 4294967296. apply N.ltb_lt. now apply H.
Qed.

Example bundled_example_hypotheses :
  enc_ready Database.database ep_ex ex_dom ex_ts /\ BinRoundTrip.input_ok ex_dom ex_ts /\ BinRoundTrip.names_ok ex_dom /\
  (forall cn n v1 v2, In (n, v1) (class_pairs ex_dom cn) -> In (n, v2) (class_pairs ex_dom cn) ->
     known_resolve Database.database (string_of_bytes cn) (string_of_bytes n) = Ok None -> vtype v1 = vtype v2) /\
  dom_values_ok Database.database ep_ex ex_dom = true /\ dom_sstrs_ok Database.database ex_dom = true /\
  (forall e, encode_chunks Database.database ep_ex ex_dom (List.map root ex_ts) = Ok e -> BinRoundTrip.frame_ok dp_ex None e) /\
  (forall i, In i ex_dom -> inst_one_spelling_b Database.database i = true).
Proof.
  assert (Hs : dom_sstrs Database.database ex_dom = []) by (vm_compute; reflexivity).
  split; [|split; [|split; [|split; [|split; [|split; [|split]]]]]].
  - constructor.
    + cbn. repeat constructor; cbn; intuition discriminate.
    + repeat (constructor; try (vm_compute; reflexivity)).
    + cbn. repeat constructor; cbn; intuition discriminate.
    + apply Forall_forall. intros t [<-|[<-|[<-|[]]]]; cbn; auto.
    + cbn. lia.
    + intros l. apply Permutation_refl.
    + intros s H. unfold sstr_src in H. rewrite Hs in H. destruct H.
  - split; [|split; [|split; [|split]]].
    + cbn. repeat constructor; cbn; intuition discriminate.
    + repeat constructor; vm_compute; reflexivity.
    + repeat (constructor; try (vm_compute; reflexivity)).
    + cbn. repeat constructor; cbn; intuition discriminate.
    + cbn. intuition discriminate.
  - repeat constructor; vm_compute; reflexivity.
  - intros cn n v1 v2 H1 H2 _. f_equal.
    assert (Hall : forall x, In x (class_pairs ex_dom cn) -> In x (flat_map i_props ex_dom)).
    { intros x Hx. unfold class_pairs in Hx. apply in_flat_map in Hx. destruct Hx as (i & Hi & Hx). apply filter_In in Hi.
      apply in_flat_map. exists i. tauto. }
    apply (pairs_nodup_agree (flat_map i_props ex_dom)) with (n := n); auto.
    vm_compute. repeat constructor; cbn; intuition discriminate.
  - vm_compute. reflexivity.
  - vm_compute. reflexivity.
  - intros e He. apply frame_okb_ok.
    assert (H : match encode_chunks Database.database ep_ex ex_dom (List.map root ex_ts) with Ok e0 => frame_okb e0 | _ => true end = true)
      by (vm_compute; reflexivity).
    rewrite He in H. exact H.
  - intros i [<-|[<-|[<-|[]]]]; vm_compute; reflexivity.
Qed.

(* the theorem applies, and the decoded DOM computed: Part A reads back Color (canonical; the legacy BrickColor 21 migrated) and the
   class default of Size; Part B its own Size and the class default of Color; the unknown class its own values (a String as
   BinaryString); no "BrickColor", no "Color3uint8", no "size" *)
Example bundled_example_roundtrip :
  (exists b st out,
     encode_file Database.database ep_ex None ex_dom (List.map root ex_ts) = Ok b /\
     add_instances Database.database ep_ex ex_dom (List.map root ex_ts) = Ok st /\
     decode_file Database.database dp_ex b = Ok out /\
     BinRoundTrip.same_forest ex_dom ex_ts (BinRoundTrip.lbl st) out) /\
  obs (b <- encode_file Database.database ep_ex None ex_dom [1; 2; 3] ;; decode_file Database.database dp_ex b)
  = [(bstr "Part", bstr "A", [(bstr "Size", VVector3 (mkV3 1082130432 1067030938 1073741824)); (bstr "Color", VColor3uint8 196 40 28)]);
     (bstr "Part", bstr "B", [(bstr "Size", VVector3 (mkV3 F32_ONE F32_ONE F32_ONE)); (bstr "Color", VColor3uint8 163 162 165)]);
     (bstr "NotAClass", bstr "C", [(bstr "Note", VBinaryString [104; 105]); (bstr "Flag", VBool true)])].
Proof.
  destruct bundled_example_hypotheses as (H1 & H2 & H3 & H4 & H5 & H6 & H7 & _).
  split; [|vm_compute; reflexivity].
  destruct (known_props_roundtrip_bundled ep_ex None ex_dom ex_ts dp_ex H1 H2 H3 H4 H5 H6 eq_refl H7) as (b & st & out & A & B & C & D & _).
  exists b, st, out. auto.
Qed.
Print Assumptions known_props_roundtrip_bundled.
Print Assumptions bundled_example_roundtrip.

(* ========================================================================================== *)
(* non-vacuity of the cells added in round 3: one instance carrying every kind of cell (the widening cases, the string-likes, *)
(* UniqueId, Font, Content, OptionalCFrame, PhysicalProperties, Vector3int16, the sequences, SharedString), one carrying none  *)
(* ========================================================================================== *)
Open Scope string_scope.
Definition PD := mkPD.
Definition db_cells : db :=
  mkDb [ mkCD "K" None false
           [ PD "N64" (DValue 14) (KCanon PSerializes); PD "F64" (DValue 12) (KCanon PSerializes);
             PD "En" (DEnum "E") (KCanon PSerializes); PD "Bc" (DValue 3) (KCanon PSerializes);
             PD "Tg" (DValue 32) (KCanon PSerializes); PD "At" (DValue 33) (KCanon (PSerAs "AtS")); PD "AtS" (DValue 1) (KAlias "At");
             PD "Mc" (DValue 36) (KCanon PSerializes); PD "Ci" (DValue 8) (KCanon PSerializes);
             PD "St" (DValue 24) (KCanon PSerializes);
             PD "Uq" (DValue 35) (KCanon PSerializes); PD "Fo" (DValue 34) (KCanon PSerializes);
             PD "Co" (DValue 39) (KCanon PSerializes); PD "Oc" (DValue 31) (KCanon PSerializes);
             PD "Ph" (DValue 17) (KCanon PSerializes); PD "Vi" (DValue 30) (KCanon PSerializes);
             PD "Ns" (DValue 16) (KCanon PSerializes); PD "Cs" (DValue 7) (KCanon PSerializes);
             PD "Ss" (DValue 23) (KCanon PSerializes) ] [] ]
       [ mkED "E" [("A", 0); ("B", 1)] ].
Close Scope string_scope.
Definition ep_cells : enc_params := mkEP [] [] (fun _ => 0) (fun l => l) [([], [0]); ([7; 7], [1])].
Definition dp_cells : dec_params := mkDP [] [] (fun _ _ => None) (VUniqueId 0 0 0%Z) None.
Definition z3 := mkV3 F32_ZERO F32_ZERO F32_ZERO.
Definition k_all : inst := mkInst 1 0 (bstr "K") (bstr "all")
  [ (bstr "N64", VInt32 7%Z); (bstr "F64", VFloat32 F32_ONE); (bstr "En", VEnumItem (bstr "E") 1); (bstr "Bc", VInt32 21%Z);
    (bstr "Tg", VTags [[97]; [98]]); (bstr "At", VAttributes [([120], VBool true)]); (bstr "Mc", VMaterialColors []);
    (bstr "Ci", VContentId [99]); (bstr "St", VBinaryString [104; 105]);
    (bstr "Uq", VUniqueId 1 2 3%Z); (bstr "Fo", VFont (mkFont [102] 400 0 (Some [])));
    (bstr "Co", VContent (CUri [117])); (bstr "Oc", VOptionalCFrame (Some (mkCF z3 mat3_identity)));
    (bstr "Ph", VPhysicalProperties None); (bstr "Vi", VVector3int16 1%Z (-2)%Z 3%Z);
    (bstr "Ns", VNumberSequence [(F32_ZERO, F32_ONE, F32_ZERO)]); (bstr "Cs", VColorSequence [(F32_ZERO, (F32_ONE, F32_ZERO, F32_ZERO))]);
    (bstr "Ss", VSharedString [7; 7]) ].
Definition k_none : inst := mkInst 2 0 (bstr "K") (bstr "none") [].
Definition cells_dom : cdom := [k_all; k_none].

Definition look (r : res cdom) (name : bytes) (keys : list bytes) : list (option value) :=
  match r with
  | Ok out => match find (fun i => bytes_eqb (i_name i) name) out with
              | Some i => List.map (fun k => bfind k (i_props i)) keys
              | None => []
              end
  | _ => []
  end.

Example all_cells_roundtrip :
  dom_values_ok db_cells ep_cells cells_dom = true /\
  (exists b st out,
     encode_file db_cells ep_cells None cells_dom [1; 2] = Ok b /\
     add_instances db_cells ep_cells cells_dom [1; 2] = Ok st /\
     decode_file db_cells dp_cells b = Ok out /\
     BinRoundTrip.same_forest cells_dom [Node 1 []; Node 2 []] (BinRoundTrip.lbl st) out) /\
  look (b <- encode_file db_cells ep_cells None cells_dom [1; 2] ;; decode_file db_cells dp_cells b) (bstr "all")
       [bstr "N64"; bstr "F64"; bstr "En"; bstr "Bc"; bstr "St"; bstr "At"; bstr "Fo"; bstr "Ss"; bstr "Uq"]
  = [Some (VInt64 7); Some (VFloat64 4607182418800017408); Some (VEnum 1); Some (VBrickColor 21); Some (VString [104; 105]);
     Some (VAttributes [([120], VBool true)]); Some (VFont (mkFont [102] 400 0 None)); Some (VSharedString [7; 7]);
     Some (VUniqueId 1 2 3%Z)] /\
  look (b <- encode_file db_cells ep_cells None cells_dom [1; 2] ;; decode_file db_cells dp_cells b) (bstr "none")
       [bstr "N64"; bstr "At"; bstr "Ss"; bstr "Uq"; bstr "AtS"]
  = [Some (VInt64 0); Some (VAttributes []); Some (VSharedString []); Some (VUniqueId 0 0 0%Z); None].
Proof.
  assert (Hv : dom_values_ok db_cells ep_cells cells_dom = true) by (vm_compute; reflexivity).
  split; [exact Hv|]. split; [|split; vm_compute; reflexivity].
  destruct (known_props_roundtrip db_cells ep_cells None cells_dom [Node 1 []; Node 2 []] dp_cells) as (b & st & out & A & B & C & D & _).
  - constructor.
    + cbn. repeat constructor; cbn; intuition discriminate.
    + repeat (constructor; try (vm_compute; reflexivity)).
    + cbn. repeat constructor; cbn; intuition discriminate.
    + apply Forall_forall. intros t [<-|[<-|[]]]; cbn; auto.
    + cbn. lia.
    + intros l. apply Permutation_refl.
    + intros s H. unfold sstr_src in H. vm_compute in H. destruct H as [<-|[<-|[]]]; vm_compute; discriminate.
  - split; [|split; [|split; [|split]]].
    + cbn. repeat constructor; cbn; intuition discriminate.
    + repeat constructor; vm_compute; reflexivity.
    + repeat (constructor; try (vm_compute; reflexivity)).
    + cbn. repeat constructor; cbn; intuition discriminate.
    + cbn. intuition discriminate.
  - repeat constructor; vm_compute; reflexivity.
  - intros cn. destruct (bytes_eq_dec cn (bstr "K")) as [->|Hne].
    + apply agree_check_sound. vm_compute. reflexivity.
    + assert (E : class_pairs cells_dom cn = []).
      { unfold class_pairs, cells_dom. cbn [filter i_class k_all k_none].
        rewrite (bytes_eqb_neq (bstr "K") cn) by congruence. reflexivity. }
      rewrite E. split; intros n1 v1 n2 v2 c s1 t1 m1 s2 t2 m2 [].
  - intros i Hi. assert (E : i_class i = bstr "K") by (destruct Hi as [<-|[<-|[]]]; reflexivity). rewrite E.
    apply class_good_from_db. vm_compute. reflexivity.
  - exact Hv.
  - vm_compute. reflexivity.
  - reflexivity.
  - intros e He. apply frame_okb_ok.
    assert (H : match encode_chunks db_cells ep_cells cells_dom (List.map root [Node 1 []; Node 2 []]) with Ok e0 => frame_okb e0 | _ => true end = true)
      by (vm_compute; reflexivity).
    rewrite He in H. exact H.
  - exists b, st, out. auto.
Qed.
Print Assumptions all_cells_roundtrip.
