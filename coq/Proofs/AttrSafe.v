(* AttrSafe.v — the attribute reader of Model/Attr.v is total and panic-free on EVERY byte string:
   attr_decode b is either Ok or Err, never Panic and never OutOfFuel (the fuel handed to the loops,
   the length of the remaining input, always suffices), and a successful parse never yields more input
   than it was given. *)
From RbxVerif Require Import Base Bytes Value Utf8 Rotation BrickColor Attr BytesFacts.
From Coq Require Import Lia.
Open Scope N_scope.

(* [good p]: p neither panics nor runs out of fuel, and on success leaves at most its input;
   [strict p]: moreover it consumes at least one byte *)
Definition good {A} (p : parser A) : Prop :=
  forall b, match p b with Ok (_, b') => (length b' <= length b)%nat | Err _ => True | Panic => False | OutOfFuel => False end.
Definition strict {A} (p : parser A) : Prop :=
  forall b, match p b with Ok (_, b') => (length b' < length b)%nat | Err _ => True | Panic => False | OutOfFuel => False end.

Lemma strict_good {A} (p : parser A) : strict p -> good p.
Proof. intros H b. specialize (H b). destruct (p b) as [[a b']| | |]; try easy. lia. Qed.

Lemma good_ret {A} (a : A) : good (pret a).
Proof. intros b. cbn. lia. Qed.
Lemma good_fail {A} c : good (@pfail A c).
Proof. intros b. exact I. Qed.
Lemma good_bind {A B} (p : parser A) (f : A -> parser B) : good p -> (forall a, good (f a)) -> good (pbind p f).
Proof.
  intros Hp Hf b. unfold pbind. specialize (Hp b). destruct (p b) as [[a b1]| | |]; try easy.
  specialize (Hf a b1). destruct (f a b1) as [[r b2]| | |]; try easy. lia.
Qed.
Lemma strict_bind {A B} (p : parser A) (f : A -> parser B) : strict p -> (forall a, good (f a)) -> strict (pbind p f).
Proof.
  intros Hp Hf b. unfold pbind. specialize (Hp b). destruct (p b) as [[a b1]| | |]; try easy.
  specialize (Hf a b1). destruct (f a b1) as [[r b2]| | |]; try easy. lia.
Qed.
Lemma good_bind_strict {A B} (p : parser A) (f : A -> parser B) : good p -> (forall a, strict (f a)) -> strict (pbind p f).
Proof.
  intros Hp Hf b. unfold pbind. specialize (Hp b). destruct (p b) as [[a b1]| | |]; try easy.
  specialize (Hf a b1). destruct (f a b1) as [[r b2]| | |]; try easy. lia.
Qed.
Lemma good_map_err {A} c (p : parser A) : good p -> good (pmap_err c p).
Proof. intros Hp b. unfold pmap_err. specialize (Hp b). destruct (p b) as [[a b1]| | |]; easy. Qed.
Lemma strict_map_err {A} c (p : parser A) : strict p -> strict (pmap_err c p).
Proof. intros Hp b. unfold pmap_err. specialize (Hp b). destruct (p b) as [[a b1]| | |]; easy. Qed.

Lemma read_exact_len n b : match read_exact n b with Ok (_, b') => length b = (n + length b')%nat | Err _ => True | _ => False end.
Proof.
  destruct (read_exact_cases n b) as [[h [t H]]|H]; rewrite H; [|exact I]. now apply read_exact_consumes in H.
Qed.
Lemma good_read_exact n : good (read_exact n).
Proof. intros b. pose proof (read_exact_len n b) as H. destruct (read_exact n b) as [[h t]| | |]; try easy. lia. Qed.
Lemma strict_read_exact n : (1 <= n)%nat -> strict (read_exact n).
Proof. intros Hn b. pose proof (read_exact_len n b) as H. destruct (read_exact n b) as [[h t]| | |]; try easy. lia. Qed.

Lemma strict_read_le n : (1 <= n)%nat -> strict (read_le n).
Proof. intros Hn. unfold read_le. apply strict_bind; [now apply strict_read_exact|intros; apply good_ret]. Qed.
Lemma strict_read_u8 : strict read_u8.
Proof. apply (strict_read_le 1). lia. Qed.
Lemma strict_read_u16 : strict read_u16. Proof. apply strict_read_le. lia. Qed.
Lemma strict_read_u32 : strict read_u32. Proof. apply strict_read_le. lia. Qed.
Lemma strict_read_f32 : strict read_f32. Proof. apply strict_read_le. lia. Qed.
Lemma strict_read_f64 : strict read_f64. Proof. apply strict_read_le. lia. Qed.
Lemma strict_read_i32 : strict read_i32.
Proof. unfold read_i32, read_le_i. apply strict_bind; [apply strict_read_le; lia|intros; apply good_ret]. Qed.

Lemma good_read_vec size : good (read_vec size).
Proof.
  intros b. unfold read_vec. destruct (N.ltb (N.of_nat (length b)) size); [exact I|]. apply good_read_exact.
Qed.
Lemma strict_read_string : strict read_string.
Proof. unfold read_string. apply strict_bind; [apply strict_read_u32|intros; apply good_read_vec]. Qed.

Lemma good_from_utf8 buf c : good (from_utf8 buf c).
Proof. intros b. unfold from_utf8. destruct (utf8_valid buf); [cbn; lia|exact I]. Qed.

Ltac prim2 := fail.
Ltac prim :=
  first [ apply strict_read_u8 | apply strict_read_u16 | apply strict_read_u32 | apply strict_read_f32
        | apply strict_read_f64 | apply strict_read_i32 | apply strict_read_string | prim2 ].
Ltac gd :=
  repeat first
    [ apply good_ret | apply good_fail | apply good_from_utf8 | apply good_read_vec
    | prim | (apply strict_good; prim)
    | apply strict_map_err | apply good_map_err
    | (apply strict_bind; [|intros])
    | (apply good_bind; [|intros]) ].

Lemma strict_read_color3 : strict read_color3.
Proof. unfold read_color3. gd. Qed.
Lemma strict_read_udim : strict read_udim.
Proof. unfold read_udim. gd. Qed.
Lemma strict_read_vector2 : strict read_vector2.
Proof. unfold read_vector2. gd. Qed.
Lemma strict_read_vector3 : strict read_vector3.
Proof. unfold read_vector3. gd. Qed.

(* loops: with more fuel than input bytes a loop whose body consumes input never runs dry *)
Lemma ploop_good {A} (p : parser A) : strict p ->
  forall fuel n b, (length b < fuel)%nat ->
  match ploop fuel n p b with Ok (_, b') => (length b' <= length b)%nat | Err _ => True | _ => False end.
Proof.
  intros Hp. induction fuel as [|f IH]; intros n b Hf; [lia|]. cbn [ploop].
  destruct (N.eqb n 0); [lia|]. specialize (Hp b). destruct (p b) as [[a b1]| | |]; try easy.
  assert (Hf1 : (length b1 < f)%nat) by lia. specialize (IH (N.pred n) b1 Hf1).
  destruct (ploop f (N.pred n) p b1) as [[r b2]| | |]; try easy. lia.
Qed.
Lemma good_pfor {A} n (p : parser A) : strict p -> good (pfor n p).
Proof. intros Hp b. unfold pfor. apply ploop_good; [assumption|lia]. Qed.

Ltac prim2 ::=
  first [ apply strict_read_color3 | apply strict_read_udim | apply strict_read_vector2 | apply strict_read_vector3 ].
Ltac gd2 :=
  repeat first
    [ (apply good_pfor; apply strict_bind; [|intros])
    | progress gd ].

(* every arm of the reader's `match ty` *)
Lemma good_read_value ty : good (read_value ty).
Proof.
  assert (K : forall p : parser value, (In ty [3;2;5;7;13;11;12;15;16;19;1;25;26;27;29;4;34;38] -> good p) -> (~ In ty [3;2;5;7;13;11;12;15;16;19;1;25;26;27;29;4;34;38] -> good p) -> good p).
  { intros p H1 H2. destruct (in_dec N.eq_dec ty [3;2;5;7;13;11;12;15;16;19;1;25;26;27;29;4;34;38]); auto. }
  apply K.
  - intros Hin. cbn [In] in Hin.
    repeat (destruct Hin as [<-|Hin]); try contradiction; unfold read_value; cbv beta iota.
    + (* BrickColor *) gd2. destruct (brick_valid (a mod 65536)); gd.
    + gd2.
    + gd2. destruct a as [[r g] b]. gd.
    + gd2.
    + gd2.
    + gd2.
    + gd2.
    + gd2.
    + gd2.
    + gd2.
    + gd2.
    + gd2.
    + gd2.
    + gd2.
    + gd2.
    + (* CFrame *) gd2. destruct (N.eqb a0 0); [gd2|]. destruct (from_basic_rotation_id a0); gd.
    + (* Font *) gd2. destruct a3; gd2.
    + gd2.
  - intros Hn. cbn [In] in Hn.
    assert (E : read_value ty = pfail E_UnsupportedRead).
    { unfold read_value.
      destruct ty as [|p]; [reflexivity|].
      do 6 (try (destruct p as [p|p|]; try reflexivity)); exfalso; apply Hn; cbn; tauto. }
    rewrite E. apply good_fail.
Qed.

Lemma strict_read_entry : strict read_entry.
Proof.
  unfold read_entry. apply strict_bind; [gd|intros]. apply good_bind; [gd|intros]. apply good_bind; [gd|intros].
  destruct (to_variant_type a1); [|apply good_fail]. apply good_bind; [apply good_read_value|intros; apply good_ret].
Qed.

Lemma read_entries_good : forall fuel n acc b, (length b < fuel)%nat ->
  match read_entries fuel n acc b with Ok (_, b') => (length b' <= length b)%nat | Err _ => True | _ => False end.
Proof.
  induction fuel as [|f IH]; intros n acc b Hf; [lia|]. cbn [read_entries].
  destruct (N.eqb n 0); [lia|]. pose proof (strict_read_entry b) as Hp.
  destruct (read_entry b) as [[[k v] b1]| | |]; try easy.
  assert (Hf1 : (length b1 < f)%nat) by lia. specialize (IH (N.pred n) (amap_insert k v acc) b1 Hf1).
  destruct (read_entries f (N.pred n) (amap_insert k v acc) b1) as [[r b2]| | |]; try easy. lia.
Qed.

(* Attributes::from_reader never panics and always terminates, whatever the bytes *)
Theorem attr_decode_total : forall b, attr_decode b <> Panic /\ attr_decode b <> OutOfFuel.
Proof.
  intros b. unfold attr_decode, read_attributes.
  assert (G : good read_option_u32).
  { unfold read_option_u32. apply good_bind; [|intros; apply good_ret].
    intros x. unfold read_exact_or_none. destruct x as [|y x]; [cbn; lia|].
    pose proof (read_exact_len 4 (y :: x)) as H. unfold read_exact in H.
    destruct (take_n 4 (y :: x)) as [[h t]|]; [|exact I]. lia. }
  specialize (G b). destruct (read_option_u32 b) as [[[len|] b1]| | |]; try easy.
  pose proof (read_entries_good (S (length b1)) len [] b1 (Nat.lt_succ_diag_r _)) as H.
  destruct (read_entries (S (length b1)) len [] b1) as [[m b2]| | |]; easy.
Qed.

(* so is the writer on maps of supported types: it never reaches its unreachable!() arm *)
Theorem attr_encode_no_panic : forall m, attr_encode m <> Panic /\ attr_encode m <> OutOfFuel.
Proof.
  assert (V : forall v, from_variant_type (vtype v) <> None -> exists b, write_value v = Ok b).
  { intros v H. destruct v; cbn [write_value]; try (eexists; reflexivity); exfalso; apply H; vm_compute; reflexivity. }
  assert (E : forall e, write_entry e <> Panic /\ write_entry e <> OutOfFuel).
  { intros [k v]. unfold write_entry. destruct (from_variant_type (vtype v)) as [id|] eqn:Hid; [|split; discriminate].
    destruct (V v) as [b Hb]; [congruence|]. rewrite Hb. cbn. split; discriminate. }
  assert (ES : forall m, write_entries m <> Panic /\ write_entries m <> OutOfFuel).
  { induction m as [|e m IH]; [cbn; split; discriminate|]. cbn [write_entries].
    destruct (E e) as [E1 E2]. destruct (write_entry e) as [a| |c|]; [|congruence|cbn; split; discriminate|congruence].
    cbn [rbind]. destruct IH as [I1 I2].
    destruct (write_entries m) as [b| |c|]; [cbn; split; discriminate|congruence|cbn; split; discriminate|congruence]. }
  intros [|e m]; [cbn; split; discriminate|]. unfold attr_encode.
  destruct (ES (e :: m)) as [I1 I2].
  destruct (write_entries (e :: m)) as [b| |c|]; [cbn; split; discriminate|congruence|cbn; split; discriminate|congruence].
Qed.
