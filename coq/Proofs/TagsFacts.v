(* TagsFacts.v — Tags blobs (Model/Tags.v).  Main result: for a list of UTF-8 strings,
       tags_decode (tags_encode ts) = Ok ts   IFF   no tag is empty and no tag contains a NUL byte.
   The "only if" direction needs no hypothesis; it documents the loss: an empty tag disappears, a tag
   containing NUL is split.  Also: join after split is the identity on blobs, so a blob survives
   decode/encode when none of its pieces is empty, and does not otherwise (witness). *)
From RbxVerif Require Import Tags.
From Coq Require Import Lia.
Open Scope N_scope.

Definition nul_free (t : bytes) : Prop := ~ In 0 t.
Definition nonempty (p : bytes) : bool := negb match p with [] => true | _ => false end.
Definition good_tag (t : bytes) : Prop := t <> [] /\ ~ In 0 t.

Lemma tags_decode_unfold b : tags_decode b = collect_utf8 (filter nonempty (pieces b)).
Proof. reflexivity. Qed.

(* ---- split ---- *)
Lemma split0_nul_free t : nul_free t -> split0 t = (t, []).
Proof.
  induction t as [|a t IH]; intros H; cbn; [reflexivity|].
  rewrite IH by (intros Hin; apply H; now right).
  destruct (a =? 0) eqn:E; [|reflexivity]. apply N.eqb_eq in E. subst. exfalso. apply H. now left.
Qed.

Lemma split0_app t r : nul_free t -> split0 (t ++ 0 :: r) = (t, pieces r).
Proof.
  induction t as [|a t IH]; intros H.
  - cbn. unfold pieces. destruct (split0 r). reflexivity.
  - cbn. rewrite IH by (intros Hin; apply H; now right).
    destruct (a =? 0) eqn:E; [|reflexivity]. apply N.eqb_eq in E. subst. exfalso. apply H. now left.
Qed.

Lemma pieces_encode ts : ts <> [] -> Forall nul_free ts -> pieces (tags_encode ts) = ts.
Proof.
  induction ts as [|t ts IH]; [contradiction|]. intros _ HF.
  inversion HF as [|? ? Ht HF']; subst. destruct ts as [|t2 ts'].
  - cbn [tags_encode]. unfold pieces. now rewrite split0_nul_free.
  - change (tags_encode (t :: t2 :: ts')) with (t ++ 0 :: tags_encode (t2 :: ts')).
    unfold pieces at 1. rewrite split0_app by exact Ht. f_equal. apply IH; [discriminate|exact HF'].
Qed.

Lemma pieces_nul_free b : Forall nul_free (pieces b).
Proof.
  unfold pieces. induction b as [|a b IH]; cbn.
  - constructor; [intros []|constructor].
  - destruct (split0 b) as [p ps]. inversion IH as [|? ? Hp Hps]; subst.
    destruct (a =? 0) eqn:E.
    + constructor; [intros []|]. constructor; assumption.
    + constructor; [|exact Hps]. intros [H|H]; [subst; discriminate|exact (Hp H)].
Qed.

(* ---- filter / collect ---- *)
Lemma filter_nonempty_id ts : Forall (fun t => t <> []) ts -> filter nonempty ts = ts.
Proof.
  induction ts as [|t ts IH]; intros H; [reflexivity|]. inversion H as [|? ? Ht H']; subst.
  cbn. destruct t; [contradiction|]. cbn. now rewrite IH.
Qed.

Lemma collect_valid ts : Forall (fun t => utf8_valid t = true) ts -> collect_utf8 ts = Ok ts.
Proof.
  induction ts as [|t ts IH]; intros H; [reflexivity|]. inversion H as [|? ? Ht H']; subst.
  cbn. rewrite Ht, IH by exact H'. reflexivity.
Qed.

Lemma collect_ok ps : forall ts, collect_utf8 ps = Ok ts -> ts = ps.
Proof.
  induction ps as [|p ps IH]; intros ts H; cbn in H; [now inversion H|].
  destruct (utf8_valid p); [|discriminate].
  destruct (collect_utf8 ps) as [r| | |] eqn:E; cbn in H; try discriminate.
  inversion H. f_equal. now apply IH.
Qed.

(* ---- the theorem ---- *)
Theorem tags_roundtrip_if : forall ts,
  Forall (fun t => utf8_valid t = true) ts -> Forall good_tag ts -> tags_decode (tags_encode ts) = Ok ts.
Proof.
  intros ts Hv Hg. rewrite tags_decode_unfold. destruct ts as [|t ts]; [reflexivity|].
  rewrite pieces_encode; [|discriminate|eapply Forall_impl; [|exact Hg]; intros a [_ H]; exact H].
  rewrite filter_nonempty_id by (eapply Forall_impl; [|exact Hg]; intros a [H _]; exact H).
  now apply collect_valid.
Qed.

Theorem tags_roundtrip_only_if : forall ts, tags_decode (tags_encode ts) = Ok ts -> Forall good_tag ts.
Proof.
  intros ts H. rewrite tags_decode_unfold in H. apply collect_ok in H.
  apply Forall_forall. intros t Ht. rewrite H in Ht. apply filter_In in Ht. destruct Ht as [Hin Hne]. split.
  - intros ->. discriminate.
  - pose proof (pieces_nul_free (tags_encode ts)) as HF. rewrite Forall_forall in HF. exact (HF t Hin).
Qed.

Theorem tags_roundtrip_iff : forall ts, Forall (fun t => utf8_valid t = true) ts ->
  (tags_decode (tags_encode ts) = Ok ts <-> Forall (fun t => t <> [] /\ ~ In 0 t) ts).
Proof.
  intros ts Hv. split; [apply tags_roundtrip_only_if|apply tags_roundtrip_if; exact Hv].
Qed.

(* the loss, on the smallest inputs: ["a", "", "b"] comes back as ["a", "b"]; ["a\0b"] as ["a", "b"]; [""] as [] *)
Example tags_empty_lost : tags_decode (tags_encode [[97]; []; [98]]) = Ok [[97]; [98]].
Proof. reflexivity. Qed.
Example tags_nul_split : tags_decode (tags_encode [[97; 0; 98]]) = Ok [[97]; [98]].
Proof. reflexivity. Qed.
Example tags_single_empty_lost : tags_decode (tags_encode [[]]) = Ok [].
Proof. reflexivity. Qed.

(* ---- blob -> tags -> blob ---- *)
Lemma encode_cons_pieces p b : tags_encode (p :: pieces b) = p ++ 0 :: tags_encode (pieces b).
Proof. unfold pieces. destruct (split0 b). reflexivity. Qed.

Lemma tags_encode_pieces b : tags_encode (pieces b) = b.
Proof.
  induction b as [|a b IH]; [reflexivity|].
  unfold pieces in *. cbn [split0]. destruct (split0 b) as [p ps] eqn:E. destruct (a =? 0) eqn:E0.
  - apply N.eqb_eq in E0. subst a.
    change (tags_encode ([] :: p :: ps)) with ([] ++ 0 :: tags_encode (p :: ps)). cbn [app]. now rewrite IH.
  - destruct ps as [|q ps].
    + cbn [tags_encode] in *. now rewrite IH.
    + change (tags_encode ((a :: p) :: q :: ps)) with ((a :: p) ++ 0 :: tags_encode (q :: ps)).
      change (tags_encode (p :: q :: ps)) with (p ++ 0 :: tags_encode (q :: ps)) in IH.
      cbn [app]. now rewrite IH.
Qed.

Theorem tags_blob_roundtrip : forall b ts,
  Forall (fun p => p <> []) (pieces b) -> tags_decode b = Ok ts -> tags_encode ts = b.
Proof.
  intros b ts Hne H. rewrite tags_decode_unfold, filter_nonempty_id in H by exact Hne.
  apply collect_ok in H. subst. apply tags_encode_pieces.
Qed.

(* a blob with an empty piece (doubled, leading or trailing NUL) is normalised *)
Example tags_blob_lossy : tags_decode [97; 0; 0; 98] = Ok [[97]; [98]] /\ tags_encode [[97]; [98]] = [97; 0; 98].
Proof. split; reflexivity. Qed.

(* invalid UTF-8 in any non-empty piece is an error *)
Example tags_decode_bad_utf8 : tags_decode [97; 0; 255] = Err ERR_TAGS_UTF8.
Proof. reflexivity. Qed.
