(* UidGenFacts.v — freshly generated UniqueId indices never repeat, for every interleaving. *)
From RbxVerif Require Import Base UidGen.
From Coq Require Import Lia.

Lemma run_sched_nth sched : forall ctr k t i,
  ctr < U32 -> nth_error (run_sched sched ctr) k = Some (t, i) -> i = (ctr + N.of_nat k) mod U32.
Proof.
  induction sched as [|t0 rest IH]; intros ctr k t i Hc Hn.
  - destruct k; discriminate.
  - cbn [run_sched fetch_add] in Hn. destruct k as [|k].
    + cbn in Hn. injection Hn as _ <-. rewrite N.add_0_r. symmetry. apply N.mod_small. exact Hc.
    + cbn [nth_error] in Hn. apply IH in Hn.
      * rewrite Hn. rewrite N.add_mod_idemp_l by (unfold U32; lia). f_equal. lia.
      * apply N.mod_upper_bound. unfold U32. lia.
Qed.

Lemma run_sched_length sched ctr : length (run_sched sched ctr) = length sched.
Proof. revert ctr. induction sched as [|t rest IH]; intros ctr; cbn; [reflexivity|]. now rewrite IH. Qed.

(* any number of threads, any interleaving, fewer than 2^32 calls in total: all indices distinct *)
Theorem now_distinct_any_schedule : forall sched ctr,
  ctr < U32 -> N.of_nat (length sched) <= U32 -> NoDup (List.map snd (run_sched sched ctr)).
Proof.
  intros sched ctr Hc Hlen. apply NoDup_nth_error. intros a b Ha Hab.
  rewrite map_length, run_sched_length in Ha.
  rewrite !nth_error_map in Hab.
  destruct (nth_error (run_sched sched ctr) a) as [[ta ia]|] eqn:Ea.
  2:{ apply nth_error_None in Ea. rewrite run_sched_length in Ea. lia. }
  destruct (nth_error (run_sched sched ctr) b) as [[tb ib]|] eqn:Eb; [|discriminate].
  cbn in Hab. injection Hab as Hab.
  assert (Hb : (b < length sched)%nat).
  { rewrite <- (run_sched_length sched ctr). apply nth_error_Some. rewrite Eb. discriminate. }
  apply run_sched_nth in Ea; [|exact Hc]. apply run_sched_nth in Eb; [|exact Hc]. subst ia ib.
  assert (Hinj : forall x y, x < U32 -> y < U32 -> (ctr + x) mod U32 = (ctr + y) mod U32 -> x = y).
  { intros x y Hx Hy E.
    pose proof (N.div_mod' (ctr + x) U32) as D1. pose proof (N.div_mod' (ctr + y) U32) as D2.
    assert (Q1 : (ctr + x) / U32 <= 1) by (apply N.lt_succ_r; apply N.div_lt_upper_bound; unfold U32 in *; lia).
    assert (Q2 : (ctr + y) / U32 <= 1) by (apply N.lt_succ_r; apply N.div_lt_upper_bound; unfold U32 in *; lia).
    unfold U32 in *. nia. }
  assert (E : N.of_nat a = N.of_nat b) by (apply Hinj; [lia|lia|exact Hab]).
  lia.
Qed.

(* without atomicity (load and store as separate steps) two threads can obtain the same index *)
Example nonatomic_counter_repeats :
  List.map snd (run_split [(0%nat, false); (1%nat, false); (0%nat, true); (1%nat, true)] 7 []) = [7; 7].
Proof. reflexivity. Qed.
