(* XmlInt.v — decimal text of integers (Model/XmlValues.v dec_of_N / dec_of_Z / parse_int): what `{}` prints is what
   `str::parse` reads back.  Standard library only. *)
From Coq Require Import List NArith ZArith Bool Lia.
From RbxVerif Require Import Base Bytes XmlEvents XmlValues HexFacts.
Import ListNotations.
Open Scope N_scope.

Lemma frev_rev {A} (l : list A) : frev l = rev l.
Proof. unfold frev. symmetry. apply rev_alt. Qed.

Definition is_digit (c : N) : bool := (48 <=? c) && (c <=? 57).

Lemma digits_val_app_last acc l c :
  digits_val acc (l ++ [c]) =
  match digits_val acc l with
  | Some v => if is_digit c then Some (v * 10 + (c - 48)) else None
  | None => None
  end.
Proof.
  revert acc. induction l as [|x l IH]; intros acc; cbn [app digits_val].
  - unfold is_digit. destruct ((48 <=? c) && (c <=? 57)); reflexivity.
  - destruct ((48 <=? x) && (x <=? 57)); [apply IH|reflexivity].
Qed.

Lemma dec_rev_S f n : dec_rev (S f) n = if n <? 10 then [48 + n] else (48 + n mod 10) :: dec_rev f (n / 10).
Proof. reflexivity. Qed.

Lemma dec_rev_spec f : forall n, n < 2 ^ N.of_nat (S f) ->
  digits_val 0 (rev (dec_rev (S f) n)) = Some n /\ dec_rev (S f) n <> [] /\
  Forall (fun c => is_digit c = true) (dec_rev (S f) n).
Proof.
  induction f as [|f IH]; intros n Hn; rewrite dec_rev_S; destruct (n <? 10) eqn:E.
  1,3: apply N.ltb_lt in E; cbn [rev app digits_val];
       assert (Hd : is_digit (48 + n) = true) by (unfold is_digit; apply andb_true_intro; split; apply N.leb_le; lia);
       unfold is_digit in Hd; rewrite Hd; (split; [f_equal; lia|]); (split; [discriminate|]);
       constructor; [exact Hd|constructor].
  - apply N.ltb_ge in E. change (2 ^ N.of_nat 1) with 2 in Hn. lia.
  - apply N.ltb_ge in E.
    assert (Hq : n / 10 < 2 ^ N.of_nat (S f)).
    { apply N.div_lt_upper_bound; [lia|]. rewrite (Nat2N.inj_succ (S f)), N.pow_succ_r' in Hn. lia. }
    destruct (IH _ Hq) as (Hv & Hne & HF).
    assert (Hm : n mod 10 < 10) by (apply N.mod_lt; lia).
    assert (Hd : is_digit (48 + n mod 10) = true) by (unfold is_digit; apply andb_true_intro; split; apply N.leb_le; lia).
    cbn [rev].
    rewrite digits_val_app_last, Hv, Hd. split.
    + f_equal. pose proof (N.div_mod n 10 ltac:(lia)). lia.
    + split; [discriminate|]. constructor; assumption.
Qed.

Lemma dec_fuel n : n < 2 ^ N.of_nat (S (N.size_nat n)).
Proof.
  eapply N.lt_le_trans; [apply size_nat_bound|]. apply N.pow_le_mono_r; lia.
Qed.

(* the digits of a natural number read back as that number *)
Lemma digits_val_dec n : digits_val 0 (dec_of_N n) = Some n.
Proof.
  unfold dec_of_N. rewrite frev_rev. apply (dec_rev_spec _ n (dec_fuel n)).
Qed.

Lemma dec_of_N_digits n : dec_of_N n <> [] /\ Forall (fun c => is_digit c = true) (dec_of_N n).
Proof.
  unfold dec_of_N. rewrite frev_rev. destruct (dec_rev_spec _ n (dec_fuel n)) as (_ & Hne & HF). split.
  - intro H. apply Hne. destruct (dec_rev (S (N.size_nat n)) n); [reflexivity|].
    cbn [rev] in H. destruct (rev l); discriminate.
  - apply Forall_rev. exact HF.
Qed.

(* the first character of a printed natural is a digit: never `+`, `-`, and never the word `null` *)
Lemma dec_of_N_head n : exists c r, dec_of_N n = c :: r /\ is_digit c = true.
Proof.
  destruct (dec_of_N_digits n) as (Hne & HF). destruct (dec_of_N n) as [|c r]; [congruence|].
  exists c, r. split; [reflexivity|]. inversion HF; assumption.
Qed.

Lemma dec_of_N_not_null n : dec_of_N n <> B "null".
Proof.
  destruct (dec_of_N_head n) as (c & r & E & Hd). rewrite E. intro H. inversion H; subst. discriminate.
Qed.

(* a string that starts with a digit is parsed by its digits alone *)
Lemma parse_int_digits signed lo hi c r n :
  is_digit c = true -> digits_val 0 (c :: r) = Some n ->
  parse_int signed lo hi (c :: r) = in_range_z lo hi (Z.of_N n).
Proof.
  intros Hd Hv. unfold is_digit in Hd. apply andb_prop in Hd. destruct Hd as [H1 H2]. apply N.leb_le in H1, H2.
  unfold parse_int. rewrite Hv.
  destruct c as [|p]; [lia|].
  destruct p as [p|p|]; try (destruct p as [p|p|]; try (destruct p as [p|p|]; try (destruct p as [p|p|]; try (destruct p as [p|p|]; try (destruct p as [p|p|])))));
    try reflexivity; exfalso; lia.
Qed.

Lemma in_range_ok lo hi z : (lo <= z <= hi)%Z -> in_range_z lo hi z = Some z.
Proof.
  intro H. unfold in_range_z.
  assert (Hr : ((lo <=? z)%Z && (z <=? hi)%Z) = true) by (apply andb_true_intro; split; apply Z.leb_le; lia).
  rewrite Hr. reflexivity.
Qed.

Lemma parse_unsigned_dec hi n : (Z.of_N n <= hi)%Z -> parse_int false 0 hi (dec_of_N n) = Some (Z.of_N n).
Proof.
  intro Hhi. destruct (dec_of_N_head n) as (c & r & E & Hd). pose proof (digits_val_dec n) as Hv. rewrite E in *.
  rewrite (parse_int_digits _ _ _ _ _ _ Hd Hv). apply in_range_ok. lia.
Qed.

(* `{}` of a signed integer is read back by `parse` for every value of the type *)
Theorem parse_signed_dec lo hi z : (lo <= z <= hi)%Z -> parse_int true lo hi (dec_of_Z z) = Some z.
Proof.
  intro H. destruct z as [|p|p]; cbn [dec_of_Z].
  - cbn. apply in_range_ok. exact H.
  - destruct (dec_of_N_head (Npos p)) as (c & r & E & Hd). pose proof (digits_val_dec (Npos p)) as Hv. rewrite E in *.
    rewrite (parse_int_digits _ _ _ _ _ _ Hd Hv). apply in_range_ok. exact H.
  - destruct (dec_of_N_head (Npos p)) as (c & r & E & Hd). pose proof (digits_val_dec (Npos p)) as Hv. rewrite E in *.
    unfold parse_int. rewrite Hv. change (- Z.of_N (Npos p))%Z with (Zneg p). apply in_range_ok. exact H.
Qed.

Theorem parse_i32_dec z : (-2147483648 <= z <= 2147483647)%Z -> parse_i32 (dec_of_Z z) = Some z.
Proof. apply parse_signed_dec. Qed.
Theorem parse_i64_dec z : (-9223372036854775808 <= z <= 9223372036854775807)%Z -> parse_i64 (dec_of_Z z) = Some z.
Proof. apply parse_signed_dec. Qed.
Theorem parse_i16_dec z : (-32768 <= z <= 32767)%Z -> parse_i16 (dec_of_Z z) = Some z.
Proof. apply parse_signed_dec. Qed.

Theorem parse_u32_dec n : n < 4294967296 -> parse_u32 (dec_of_N n) = Some n.
Proof. intro H. unfold parse_u32, parse_un. rewrite parse_unsigned_dec by lia. f_equal. apply N2Z.id. Qed.
Theorem parse_u8_dec n : n < 256 -> parse_u8 (dec_of_N n) = Some n.
Proof. intro H. unfold parse_u8, parse_un. rewrite parse_unsigned_dec by lia. f_equal. apply N2Z.id. Qed.
Theorem parse_u16_dec n : n < 65536 -> parse_u16 (dec_of_N n) = Some n.
Proof. intro H. unfold parse_u16, parse_un. rewrite parse_unsigned_dec by lia. f_equal. apply N2Z.id. Qed.
Theorem parse_u64_dec n : n < 18446744073709551616 -> parse_u64 (dec_of_N n) = Some n.
Proof. intro H. unfold parse_u64, parse_un. rewrite parse_unsigned_dec by lia. f_equal. apply N2Z.id. Qed.
