(* RefInsert.v — refinement of WeakDom::insert / WeakDom::new:
   the concrete BFS queue loop of Model/Dom.v implements the rose-forest [a_insert] of Model/Tree.v. *)
From RbxVerif Require Import Base Dom Tree BaseFacts TreeFacts Rep.
From Coq Require Import Lia Permutation.

(* ------------------------------------------------------------------------------------------ *)
(* Part 0: association lists and small list facts                                              *)
(* ------------------------------------------------------------------------------------------ *)

Lemma lookup_Some_keys {V} x (m : map V) v : lookup x m = Some v -> In x (keys m).
Proof.
  intros H. destruct (in_dec N.eq_dec x (keys m)) as [Hi|Hn]; [exact Hi|].
  apply lookup_None_notin in Hn. congruence.
Qed.

Lemma keys_cons {V} k (v : V) m : keys ((k, v) :: m) = k :: keys m.
Proof. reflexivity. Qed.

Lemma keys_app {V} (m1 m2 : map V) : keys (m1 ++ m2) = keys m1 ++ keys m2.
Proof. unfold keys. apply map_app. Qed.

Lemma keys_remove_In {V} x k (m : map V) : In x (keys (remove k m)) -> In x (keys m) /\ x <> k.
Proof.
  induction m as [|[k' v] m IH]; cbn [remove]; [cbn; tauto|].
  destruct (N.eqb k k') eqn:E.
  - intros H. apply IH in H. rewrite keys_cons. cbn [In]. tauto.
  - apply N.eqb_neq in E. rewrite !keys_cons. cbn [In].
    intros [H|H]; [subst; split; [now left|congruence]|]. apply IH in H. tauto.
Qed.

Lemma NoDup_keys_remove {V} k (m : map V) : NoDup (keys m) -> NoDup (keys (remove k m)).
Proof.
  induction m as [|[k' v] m IH]; cbn [remove]; [trivial|].
  rewrite keys_cons. intros H. inversion H as [|? ? Hn Hd]; subst.
  destruct (N.eqb k k'); [now apply IH|].
  rewrite keys_cons. constructor; [|now apply IH].
  intros Hi. apply keys_remove_In in Hi. tauto.
Qed.

Lemma NoDup_keys_upd {V} k (v : V) m : NoDup (keys m) -> NoDup (keys (upd k v m)).
Proof.
  intros H. unfold upd. rewrite keys_cons. constructor; [|now apply NoDup_keys_remove].
  intros Hi. apply keys_remove_In in Hi. tauto.
Qed.

Lemma lookup_app_comm {V} x (m1 m2 : map V) :
  (forall y, In y (keys m1) -> In y (keys m2) -> False) ->
  lookup x (m1 ++ m2) = lookup x (m2 ++ m1).
Proof.
  intros Hd. rewrite !lookup_app.
  destruct (lookup x m1) as [v1|] eqn:E1; destruct (lookup x m2) as [v2|] eqn:E2; try reflexivity.
  exfalso. apply (Hd x); eapply lookup_Some_keys; eauto.
Qed.

Lemma set_children_nil i : set_children i (i_children i ++ []) = i.
Proof. destruct i. unfold set_children. cbn. now rewrite app_nil_r. Qed.

Lemma flat_map_ext_in' {A B} (f g : A -> list B) l :
  (forall a, In a l -> f a = g a) -> flat_map f l = flat_map g l.
Proof.
  induction l as [|a l IH]; cbn [flat_map]; intros H; [reflexivity|].
  rewrite H by now left. f_equal. apply IH. intros. apply H. now right.
Qed.

Lemma flat_map_map' {A B C} (f : B -> list C) (g : A -> B) l :
  flat_map f (List.map g l) = flat_map (fun a => f (g a)) l.
Proof. induction l as [|a l IH]; cbn; [reflexivity|]. now rewrite IH. Qed.

Lemma NoDup_app_comm' {A} (a b : list A) : NoDup (a ++ b) -> NoDup (b ++ a).
Proof. apply Permutation_NoDup. apply Permutation_app_comm. Qed.

(* ------------------------------------------------------------------------------------------ *)
(* Part 1: apply_uids, tree_of_builder                                                         *)
(* ------------------------------------------------------------------------------------------ *)

Definition new_props (asg : map N) (r : ref) (ps : props) : props :=
  match lookup r asg with Some u => upd UIDKEY (PUid u) ps | None => ps end.

Lemma apply_uids_eq asg r n c ps kids :
  apply_uids asg (Node r n c ps kids) =
  Node r n c (new_props asg r ps) (List.map (apply_uids asg) kids).
Proof.
  unfold apply_uids, new_props. rewrite tmap_eq. destruct (lookup r asg); reflexivity.
Qed.

Lemma troot_apply_uids asg t : troot (apply_uids asg t) = troot t.
Proof. destruct t. now rewrite apply_uids_eq. Qed.

Lemma map_troot_apply_uids asg ts : List.map troot (List.map (apply_uids asg) ts) = List.map troot ts.
Proof. rewrite map_map. apply map_ext. intros. apply troot_apply_uids. Qed.

Lemma tkids_apply_uids asg t : tkids (apply_uids asg t) = List.map (apply_uids asg) (tkids t).
Proof. destruct t. now rewrite apply_uids_eq. Qed.

Lemma tprops_apply_uids asg t : tprops (apply_uids asg t) = new_props asg (troot t) (tprops t).
Proof. destruct t. now rewrite apply_uids_eq. Qed.

Lemma trefs_apply_uids asg t : trefs (apply_uids asg t) = trefs t.
Proof.
  induction t as [r n c ps kids IH] using tree_ind'.
  rewrite apply_uids_eq, !trefs_eq. f_equal.
  induction IH as [|k ks Hk _ IHks]; [reflexivity|].
  cbn [List.map]. rewrite !frefs_cons. now rewrite Hk, IHks.
Qed.

Lemma frefs_apply_uids asg ts : frefs (List.map (apply_uids asg) ts) = frefs ts.
Proof.
  induction ts as [|t ts IH]; [reflexivity|].
  cbn [List.map]. now rewrite !frefs_cons, trefs_apply_uids, IH.
Qed.

Lemma tsize_apply_uids asg t : tsize (apply_uids asg t) = tsize t.
Proof. now rewrite <- !length_trefs, trefs_apply_uids. Qed.

Lemma fsize_apply_uids asg ts : fsize (List.map (apply_uids asg) ts) = fsize ts.
Proof. now rewrite <- !length_frefs, frefs_apply_uids. Qed.

Lemma apply_uids_ext asg asg' t :
  (forall x, In x (trefs t) -> lookup x asg = lookup x asg') ->
  apply_uids asg t = apply_uids asg' t.
Proof.
  induction t as [r n c ps kids IH] using tree_ind'. intros H.
  rewrite !apply_uids_eq. unfold new_props. rewrite (H r) by (rewrite trefs_eq; now left).
  f_equal. rewrite trefs_eq in H.
  assert (H' : forall x, In x (frefs kids) -> lookup x asg = lookup x asg')
    by (intros; apply H; now right).
  clear H. induction IH as [|k ks Hk _ IHks]; [reflexivity|].
  cbn [List.map]. rewrite frefs_cons in H'. f_equal.
  - apply Hk. intros. apply H'. apply in_or_app. now left.
  - apply IHks. intros. apply H'. apply in_or_app. now right.
Qed.

Definition tob := tree_of_builder.

Lemma troot_tob b : troot (tob b) = broot b.
Proof. destruct b. unfold tob. now rewrite tree_of_builder_eq. Qed.

Lemma tkids_tob b : tkids (tob b) = List.map tob (bkids b).
Proof. destruct b. unfold tob. now rewrite tree_of_builder_eq. Qed.

Lemma tsize_tob b : tsize (tob b) = bsize b.
Proof.
  induction b as [r n c ps kids IH] using btree_ind'. unfold tob in *.
  rewrite tree_of_builder_eq, tsize_eq, bsize_eq. f_equal.
  induction IH as [|k ks Hk _ IHks]; [reflexivity|].
  cbn [List.map fold_right]. rewrite fsize_cons. now rewrite Hk, IHks.
Qed.

Lemma tuids_tob b : tuids (tob b) = buids b.
Proof.
  induction b as [r n c ps kids IH] using btree_ind'. unfold tob in *.
  rewrite tree_of_builder_eq, tuids_eq. cbn [buids]. f_equal.
  induction IH as [|k ks Hk _ IHks]; [reflexivity|].
  cbn [List.map]. unfold fuids in *. cbn [flat_map]. now rewrite Hk, IHks.
Qed.

(* ------------------------------------------------------------------------------------------ *)
(* Part 2: the queue loop restated on trees                                                    *)
(* ------------------------------------------------------------------------------------------ *)

Definition tinsert_one (d : dom) (nu : N) (p : ref) (t : tree) : res (dom * N) :=
  match t with
  | Node r n c ps _ =>
      let '(d1, nu1) := inner_insert d nu r (mkInst p [] n c ps) in
      if N.eqb p rnone then Ok (d1, nu1)
      else match push_child d1 p r with
           | None => Panic
           | Some d2 => Ok (d2, nu1)
           end
  end.

Fixpoint tinsert_loop (fuel : nat) (d : dom) (nu : N) (q : list (ref * tree)) : res (dom * N) :=
  match q with
  | [] => Ok (d, nu)
  | (p, t) :: q' =>
      match fuel with
      | O => OutOfFuel
      | S f =>
          '(d1, nu1) <- tinsert_one d nu p t ;;
          tinsert_loop f d1 nu1 (q' ++ List.map (fun k => (troot t, k)) (tkids t))
      end
  end.

Definition qtob (q : list (ref * btree)) : list (ref * tree) :=
  List.map (fun pb => (fst pb, tob (snd pb))) q.

Lemma insert_one_tob d nu p b : insert_one d nu p b = tinsert_one d nu p (tob b).
Proof. destruct b. unfold tob. rewrite tree_of_builder_eq. reflexivity. Qed.

Lemma insert_loop_tob f : forall d nu q, insert_loop f d nu q = tinsert_loop f d nu (qtob q).
Proof.
  induction f as [|f IH]; intros d nu [|[p b] q]; try reflexivity.
  cbn [insert_loop qtob List.map tinsert_loop fst snd].
  rewrite insert_one_tob. destruct (tinsert_one d nu p (tob b)) as [[d1 nu1]| | |]; try reflexivity.
  cbn [rbind]. rewrite IH. f_equal.
  unfold qtob. rewrite map_app, !map_map. cbn [fst snd].
  rewrite troot_tob, tkids_tob, map_map. reflexivity.
Qed.

(* ------------------------------------------------------------------------------------------ *)
(* Part 3: one UniqueId decision, shared by [settle] and [inner_insert]                        *)
(* ------------------------------------------------------------------------------------------ *)

(* result: the regenerated id (if any), the id set afterwards, the allocator afterwards *)
Definition ustep (used : list N) (nu : N) (ou : option N) : option N * list N * N :=
  match ou with
  | None => (None, used, nu)
  | Some u => if mem u used then (Some nu, sadd nu used, nu + 1) else (None, sadd u used, nu)
  end.

Definition asg_add (r : ref) (o : option N) (asg : map N) : map N :=
  match o with Some v => upd r v asg | None => asg end.

Fixpoint settle_used (used : list N) (nu : N) (nodes : list tree) : list N :=
  match nodes with
  | [] => used
  | t :: rest =>
      let '(_, used1, nu1) := ustep used nu (get_uid (tprops t)) in settle_used used1 nu1 rest
  end.

Lemma settle_cons used nu t rest :
  settle used nu (t :: rest) =
  let '(o, used1, nu1) := ustep used nu (get_uid (tprops t)) in
  let '(asg, nu') := settle used1 nu1 rest in (asg_add (troot t) o asg, nu').
Proof.
  cbn [settle]. unfold ustep, asg_add. destruct (get_uid (tprops t)) as [u|].
  - destruct (mem u used); [reflexivity|]. now destruct (settle (sadd u used) nu rest).
  - now destruct (settle used nu rest).
Qed.

Lemma inner_insert_ustep d nu r i :
  inner_insert d nu r i =
  let '(o, used1, nu1) := ustep (d_uids d) nu (get_uid (i_props i)) in
  (mkDom (upd r (match o with Some v => set_props i (upd UIDKEY (PUid v) (i_props i)) | None => i end)
              (d_insts d)) (d_root d) used1, nu1).
Proof.
  unfold inner_insert, ustep. destruct (get_uid (i_props i)) as [u|]; [|reflexivity].
  destruct (mem u (d_uids d)); reflexivity.
Qed.

Lemma ustep_ext used used' nu ou :
  (forall u, mem u used = mem u used') ->
  let '(o, u1, n1) := ustep used nu ou in
  let '(o', u1', n1') := ustep used' nu ou in
  o = o' /\ n1 = n1' /\ (forall u, mem u u1 = mem u u1').
Proof.
  intros H. unfold ustep. destruct ou as [u|]; [|auto].
  rewrite <- (H u). destruct (mem u used); (split; [reflexivity|split; [reflexivity|]]);
    intros v; rewrite !mem_sadd; now rewrite H.
Qed.

Lemma settle_ext nodes : forall used used' nu,
  (forall u, mem u used = mem u used') ->
  settle used nu nodes = settle used' nu nodes /\
  (forall u, mem u (settle_used used nu nodes) = mem u (settle_used used' nu nodes)).
Proof.
  induction nodes as [|t rest IH]; intros used used' nu H; [split; [reflexivity|exact H]|].
  rewrite !settle_cons. cbn [settle_used].
  pose proof (ustep_ext used used' nu (get_uid (tprops t)) H) as Hs.
  destruct (ustep used nu (get_uid (tprops t))) as [[o u1] n1].
  destruct (ustep used' nu (get_uid (tprops t))) as [[o' u1'] n1'].
  destruct Hs as (-> & -> & Hm).
  destruct (IH u1 u1' n1' Hm) as [E1 E2]. rewrite E1. split; [reflexivity|exact E2].
Qed.

(* keys of the assignment are roots of the settled nodes *)
Lemma settle_keys nodes : forall used nu x,
  ~ In x (List.map troot nodes) -> lookup x (fst (settle used nu nodes)) = None.
Proof.
  induction nodes as [|t rest IH]; intros used nu x Hx; [reflexivity|].
  rewrite settle_cons. cbn [List.map In] in Hx.
  destruct (ustep used nu (get_uid (tprops t))) as [[o u1] n1].
  specialize (IH u1 n1 x). destruct (settle u1 n1 rest) as [asg nu']. cbn [fst] in *.
  unfold asg_add. destruct o as [v|]; [rewrite lookup_upd_neq by (intros ->; apply Hx; now left)|]; apply IH; tauto.
Qed.

(* ------------------------------------------------------------------------------------------ *)
(* Part 4: the specification of the queue loop                                                 *)
(* ------------------------------------------------------------------------------------------ *)

Definition push1 (cs : list ref) (i : inst) : inst := set_children i (i_children i ++ cs).

Lemma tinsert_one_spec d nu p r n c ps kids o used1 nu1 :
  ustep (d_uids d) nu (get_uid ps) = (o, used1, nu1) ->
  p <> r -> r <> rnone ->
  (p <> rnone -> lookup p (d_insts d) <> None) ->
  lookup rnone (d_insts d) = None ->
  NoDup (keys (d_insts d)) ->
  exists d2, tinsert_one d nu p (Node r n c ps kids) = Ok (d2, nu1) /\
    d_root d2 = d_root d /\ d_uids d2 = used1 /\ NoDup (keys (d_insts d2)) /\
    forall x, lookup x (d_insts d2) =
      if N.eqb x r then Some (mkInst p [] n c (match o with Some v => upd UIDKEY (PUid v) ps | None => ps end))
      else if N.eqb x p then option_map (push1 [r]) (lookup x (d_insts d))
      else lookup x (d_insts d).
Proof.
  intros Hu Hpr Hr Hp H0 Hnd. unfold tinsert_one. rewrite inner_insert_ustep. cbn [i_props].
  rewrite Hu. destruct (N.eqb p rnone) eqn:Ep.
  - apply N.eqb_eq in Ep. subst p. eexists. split; [reflexivity|]. cbn [d_root d_uids d_insts].
    split; [reflexivity|]. split; [reflexivity|]. split; [now apply NoDup_keys_upd|].
    intros x. rewrite lookup_upd. destruct (N.eqb x r); [destruct o; reflexivity|].
    destruct (N.eqb x rnone) eqn:Ex; [|reflexivity]. apply N.eqb_eq in Ex. subst x. now rewrite H0.
  - apply N.eqb_neq in Ep. unfold push_child. cbn [d_insts d_root d_uids].
    rewrite lookup_upd_neq by exact Hpr.
    destruct (lookup p (d_insts d)) as [pi|] eqn:Elp; [|exfalso; now apply Hp].
    eexists. split; [reflexivity|]. cbn [d_root d_uids d_insts].
    split; [reflexivity|]. split; [reflexivity|]. split; [now apply NoDup_keys_upd, NoDup_keys_upd|].
    intros x. destruct (N.eqb x r) eqn:Exr.
    + apply N.eqb_eq in Exr. subst x. rewrite lookup_upd_neq by congruence.
      rewrite lookup_upd_eq. destruct o; reflexivity.
    + rewrite lookup_upd. destruct (N.eqb x p) eqn:Exp.
      * apply N.eqb_eq in Exp. subst x. rewrite Elp. reflexivity.
      * rewrite lookup_upd, Exr. reflexivity.
Qed.

Definition pushes (x : ref) (q : list (ref * tree)) : list ref :=
  List.map (fun pt => troot (snd pt)) (filter (fun pt => N.eqb (fst pt) x) q).

Lemma pushes_app x q1 q2 : pushes x (q1 ++ q2) = pushes x q1 ++ pushes x q2.
Proof. unfold pushes. now rewrite filter_app, map_app. Qed.

Lemma pushes_cons x p t q : pushes x ((p, t) :: q) = (if N.eqb p x then [troot t] else []) ++ pushes x q.
Proof. unfold pushes. cbn [filter fst]. destruct (N.eqb p x); reflexivity. Qed.

Lemma pushes_same x ks : pushes x (List.map (fun k => (x, k)) ks) = List.map troot ks.
Proof.
  induction ks as [|k ks IH]; [reflexivity|]. cbn [List.map]. rewrite pushes_cons, N.eqb_refl, IH. reflexivity.
Qed.

Lemma pushes_other x r ks : r <> x -> pushes x (List.map (fun k => (r, k)) ks) = [].
Proof.
  intros H. induction ks as [|k ks IH]; [reflexivity|]. cbn [List.map]. rewrite pushes_cons, IH.
  destruct (N.eqb r x) eqn:E; [apply N.eqb_eq in E; contradiction|reflexivity].
Qed.

Lemma pushes_none x q : (forall p t, In (p, t) q -> p <> x) -> pushes x q = [].
Proof.
  induction q as [|[p t] q IH]; intros H; [reflexivity|]. rewrite pushes_cons, IH.
  - destruct (N.eqb p x) eqn:E; [|reflexivity]. apply N.eqb_eq in E. exfalso. eapply H; [now left|exact E].
  - intros p' t' Hi. apply H with t'. now right.
Qed.

(* the part of the final table contributed by the queue: each queued tree flattened under its parent *)
Definition qflat (asg : map N) (q : list (ref * tree)) : list (ref * inst) :=
  flat_map (fun pt => tflat (fst pt) (apply_uids asg (snd pt))) q.

Lemma keys_qflat asg q : keys (qflat asg q) = frefs (List.map snd q).
Proof.
  induction q as [|[p t] q IH]; [reflexivity|].
  unfold qflat in *. cbn [flat_map List.map fst snd]. rewrite keys_app, IH, keys_tflat, trefs_apply_uids.
  reflexivity.
Qed.

Lemma qflat_app asg q1 q2 : qflat asg (q1 ++ q2) = qflat asg q1 ++ qflat asg q2.
Proof. unfold qflat. apply flat_map_app. Qed.

Lemma qflat_kids asg r ks :
  qflat asg (List.map (fun k => (r, k)) ks) = flat_map (tflat r) (List.map (apply_uids asg) ks).
Proof. unfold qflat. rewrite !flat_map_map'. reflexivity. Qed.

Lemma qflat_ext asg asg' q :
  (forall x, In x (frefs (List.map snd q)) -> lookup x asg = lookup x asg') ->
  qflat asg q = qflat asg' q.
Proof.
  intros H. unfold qflat. apply flat_map_ext_in'. intros [p t] Hi. cbn [fst snd]. f_equal.
  apply apply_uids_ext. intros x Hx. apply H. unfold frefs. apply in_flat_map.
  exists t. split; [|exact Hx]. apply in_map_iff. exists (p, t). split; [reflexivity|exact Hi].
Qed.

Lemma bfs_roots f : forall q x, In x (List.map troot (bfs f q)) -> In x (frefs q).
Proof.
  induction f as [|f IH]; intros [|t q] x; cbn [bfs List.map In]; try tauto.
  intros [H|H].
  - subst x. rewrite frefs_cons. apply in_or_app. left. apply troot_in_trefs.
  - apply IH in H. rewrite frefs_app in H. rewrite frefs_cons. destruct t as [r n c ps kids].
    cbn [tkids] in H. rewrite trefs_eq. cbn [In app]. rewrite in_app_iff in *. tauto.
Qed.

Lemma fsize_zero q : (fsize q <= 0)%nat -> q = [].
Proof. destruct q as [|t q]; [reflexivity|]. rewrite fsize_cons. pose proof (tsize_pos t). lia. Qed.

Lemma option_map_push1_nil (o : option inst) : option_map (push1 []) o = o.
Proof. destruct o as [i|]; [|reflexivity]. cbn. unfold push1. now rewrite set_children_nil. Qed.

Lemma tinsert_loop_spec f : forall d nu q,
  (fsize (List.map snd q) <= f)%nat ->
  NoDup (frefs (List.map snd q)) ->
  ~ In rnone (frefs (List.map snd q)) ->
  (forall p t, In (p, t) q -> ~ In p (frefs (List.map snd q))) ->
  (forall p t, In (p, t) q -> p <> rnone -> lookup p (d_insts d) <> None) ->
  lookup rnone (d_insts d) = None ->
  NoDup (keys (d_insts d)) ->
  exists d', tinsert_loop f d nu q = Ok (d', snd (settle (d_uids d) nu (bfs f (List.map snd q)))) /\
    d_root d' = d_root d /\
    d_uids d' = settle_used (d_uids d) nu (bfs f (List.map snd q)) /\
    NoDup (keys (d_insts d')) /\
    forall x, lookup x (d_insts d') =
      match lookup x (qflat (fst (settle (d_uids d) nu (bfs f (List.map snd q)))) q) with
      | Some i => Some i
      | None => option_map (push1 (pushes x q)) (lookup x (d_insts d))
      end.
Proof.
  induction f as [|f IH]; intros d nu q Hsz Hnd H0 Hpar Hin Hz Hk.
  - apply fsize_zero in Hsz. apply map_eq_nil in Hsz. subst q. exists d. cbn.
    repeat (split; [reflexivity || assumption|]). intros x. now rewrite option_map_push1_nil.
  - destruct q as [|[p t] q].
    { exists d. cbn. repeat (split; [reflexivity || assumption|]). intros x. now rewrite option_map_push1_nil. }
    destruct t as [r n c ps kids]. cbn [List.map snd] in *.
    assert (Hnd' : NoDup (r :: frefs kids ++ frefs (List.map snd q)))
      by (rewrite frefs_cons, trefs_eq in Hnd; exact Hnd).
    assert (H0' : ~ In rnone (r :: frefs kids ++ frefs (List.map snd q)))
      by (rewrite frefs_cons, trefs_eq in H0; exact H0).
    assert (Hpar' : forall p' t', In (p', t') ((p, Node r n c ps kids) :: q) ->
                                  ~ In p' (r :: frefs kids ++ frefs (List.map snd q))).
    { intros p' t' Hi. specialize (Hpar p' t' Hi). rewrite frefs_cons, trefs_eq in Hpar. exact Hpar. }
    clear Hnd H0 Hpar.
    assert (Hr_notin : ~ In r (frefs kids ++ frefs (List.map snd q))) by (inversion Hnd'; assumption).
    assert (Hnd2 : NoDup (frefs kids ++ frefs (List.map snd q))) by (inversion Hnd'; assumption).
    assert (Hpr : p <> r).
    { intros ->. apply (Hpar' r (Node r n c ps kids)); now left. }
    assert (Hr0 : r <> rnone).
    { intros ->. apply H0'. now left. }
    cbn [bfs tkids]. rewrite settle_cons. cbn [settle_used tprops troot].
    destruct (ustep (d_uids d) nu (get_uid ps)) as [[o used1] nu1] eqn:Hu.
    destruct (tinsert_one_spec d nu p r n c ps kids o used1 nu1 Hu Hpr Hr0) as (d2 & E2 & Hroot2 & Huids2 & Hk2 & Hl2);
      [intros Hp; apply (Hin p (Node r n c ps kids)); [now left|exact Hp]|exact Hz|exact Hk|].
    set (q'' := q ++ List.map (fun k => (r, k)) kids).
    assert (Hsnd : List.map snd q'' = List.map snd q ++ kids).
    { unfold q''. rewrite map_app, map_map. cbn [snd]. now rewrite map_id. }
    destruct (IH d2 nu1 q'') as (d' & E' & Hroot' & Huids' & Hk' & Hl').
    { rewrite Hsnd, fsize_app. rewrite fsize_cons, tsize_eq in Hsz. lia. }
    { rewrite Hsnd, frefs_app. now apply NoDup_app_comm'. }
    { rewrite Hsnd, frefs_app, in_app_iff. intros Hi. apply H0'. right. apply in_or_app. tauto. }
    { intros p' t' Hi. rewrite Hsnd, frefs_app, in_app_iff. unfold q'' in Hi. apply in_app_or in Hi.
      destruct Hi as [Hi|Hi].
      - specialize (Hpar' p' t' (or_intror Hi)). intros Hc. apply Hpar'. right. apply in_or_app. tauto.
      - apply in_map_iff in Hi. destruct Hi as (k & [= <- <-] & _). intros Hc. apply Hr_notin.
        apply in_or_app. tauto. }
    { intros p' t' Hi Hp'. rewrite Hl2. unfold q'' in Hi. apply in_app_or in Hi. destruct Hi as [Hi|Hi].
      - assert (Hne : p' <> r).
        { intros ->. apply (Hpar' r t' (or_intror Hi)). now left. }
        apply N.eqb_neq in Hne. rewrite Hne. destruct (N.eqb p' p) eqn:Epp.
        + apply N.eqb_eq in Epp. subst p'.
          specialize (Hin p (Node r n c ps kids) (or_introl eq_refl) Hp').
          destruct (lookup p (d_insts d)); [discriminate|contradiction].
        + apply (Hin p' t'); [now right|exact Hp'].
      - apply in_map_iff in Hi. destruct Hi as (k & [= <- <-] & _). rewrite N.eqb_refl. discriminate. }
    { rewrite Hl2. assert (Hne : N.eqb rnone r = false) by (apply N.eqb_neq; congruence).
      rewrite Hne. destruct (N.eqb rnone p); rewrite Hz; reflexivity. }
    { exact Hk2. }
    rewrite Hsnd, Huids2 in *.
    destruct (settle used1 nu1 (bfs f (List.map snd q ++ kids))) as [asg' nu'] eqn:Es. cbn [fst snd] in *.
    exists d'. split; [cbn [tinsert_loop]; rewrite E2; cbn [rbind troot tkids]; exact E'|].
    split; [congruence|]. split; [exact Huids'|]. split; [exact Hk'|].
    assert (Hra : lookup r asg' = None).
    { replace asg' with (fst (settle used1 nu1 (bfs f (List.map snd q ++ kids)))) by now rewrite Es.
      apply settle_keys. intros Hc. apply bfs_roots in Hc. rewrite frefs_app in Hc. apply Hr_notin.
      apply in_app_or in Hc. apply in_or_app. tauto. }
    set (asg := asg_add r o asg').
    assert (Hlr : new_props asg r ps = match o with Some v => upd UIDKEY (PUid v) ps | None => ps end).
    { unfold new_props, asg, asg_add. destruct o as [v|]; [now rewrite lookup_upd_eq|now rewrite Hra]. }
    assert (Hext : forall y, y <> r -> lookup y asg = lookup y asg').
    { intros y Hy. unfold asg, asg_add. destruct o as [v|]; [now apply lookup_upd_neq|reflexivity]. }
    assert (Hkids : List.map (apply_uids asg) kids = List.map (apply_uids asg') kids).
    { apply map_ext_in. intros k Hk0. apply apply_uids_ext. intros y Hy. apply Hext. intros ->.
      apply Hr_notin. apply in_or_app. left. unfold frefs. apply in_flat_map. eauto. }
    assert (Hq : qflat asg q = qflat asg' q).
    { apply qflat_ext. intros y Hy. apply Hext. intros ->. apply Hr_notin. apply in_or_app. now right. }
    intros x. rewrite Hl'. unfold qflat at 2. cbn [flat_map fst snd]. fold (qflat asg q).
    rewrite apply_uids_eq, tflat_eq, Hq, Hkids, Hlr, map_troot_apply_uids.
    destruct (N.eqb x r) eqn:Exr.
    + apply N.eqb_eq in Exr. subst x.
      assert (En : lookup r (qflat asg' q'') = None).
      { apply lookup_None_notin. rewrite keys_qflat, Hsnd, frefs_app. intros Hc. apply Hr_notin.
        apply in_app_or in Hc. apply in_or_app. tauto. }
      rewrite En. cbn [app lookup]. rewrite N.eqb_refl. rewrite Hl2, N.eqb_refl. cbn [option_map]. f_equal.
      unfold q''. rewrite pushes_app, pushes_same, pushes_none; [reflexivity|].
      intros p' t' Hi ->. apply (Hpar' r t' (or_intror Hi)). now left.
    + cbn [app lookup]. rewrite Exr. unfold q'' at 1. rewrite qflat_app, qflat_kids.
      rewrite lookup_app_comm.
      2:{ intros y Hy1 Hy2. rewrite keys_qflat in Hy1. rewrite keys_fflat, frefs_apply_uids in Hy2.
          eapply NoDup_app_disj; [exact Hnd2|exact Hy2|exact Hy1]. }
      match goal with
      | |- match ?a with Some _ => _ | None => _ end = match ?b with Some _ => _ | None => _ end =>
          change b with a; destruct a as [i|]; [reflexivity|]
      end.
      rewrite Hl2, Exr. unfold q''. rewrite pushes_app, pushes_other, app_nil_r, pushes_cons.
      2:{ intros ->. now rewrite N.eqb_refl in Exr. }
      cbn [troot].
      destruct (N.eqb x p) eqn:Exp.
      * apply N.eqb_eq in Exp. subst x. rewrite N.eqb_refl.
        destruct (lookup p (d_insts d)) as [pi|]; [|reflexivity]. cbn [option_map]. f_equal.
        destruct pi. unfold push1, set_children. cbn. now rewrite <- app_assoc.
      * rewrite N.eqb_sym, Exp. reflexivity.
Qed.

(* ------------------------------------------------------------------------------------------ *)
(* Part 5: grafting a subtree, seen through flattening / referents / UniqueIds                 *)
(* ------------------------------------------------------------------------------------------ *)

Lemma mem_app x a b : mem x (a ++ b) = (mem x a || mem x b)%bool.
Proof. induction a as [|y a IH]; cbn; [reflexivity|]. destruct (N.eqb x y); [reflexivity|exact IH]. Qed.

Lemma mem_true_In x s : mem x s = true -> In x s.
Proof. apply mem_In. Qed.

Lemma troot_tgraft p sub t : troot (tgraft p sub t) = troot t.
Proof. destruct t as [r n c ps kids]. rewrite tgraft_eq. destruct (N.eqb r p); reflexivity. Qed.

Lemma map_troot_tgraft p sub ts : List.map troot (List.map (tgraft p sub) ts) = List.map troot ts.
Proof. rewrite map_map. apply map_ext. intros. apply troot_tgraft. Qed.

Lemma tgraft_id p sub t : ~ In p (trefs t) -> tgraft p sub t = t.
Proof.
  induction t as [r n c ps kids IH] using tree_ind'. rewrite trefs_eq, tgraft_eq. cbn [In]. intros H.
  destruct (N.eqb r p) eqn:E; [apply N.eqb_eq in E; tauto|]. f_equal.
  assert (H' : ~ In p (frefs kids)) by tauto. clear H E.
  induction IH as [|k ks Hk _ IHks]; [reflexivity|]. rewrite frefs_cons, in_app_iff in H'.
  cbn [List.map]. rewrite Hk, IHks by tauto. reflexivity.
Qed.

Lemma map_tgraft_id p sub ts : ~ In p (frefs ts) -> List.map (tgraft p sub) ts = ts.
Proof.
  induction ts as [|t ts IH]; [reflexivity|]. rewrite frefs_cons, in_app_iff. intros H.
  cbn [List.map]. rewrite tgraft_id, IH by tauto. reflexivity.
Qed.

Definition adj (p c x : ref) (i : inst) : inst := if N.eqb x p then push1 [c] i else i.

Section Graft.
  Variables (p : ref) (sub : tree).

  Definition graft_flat_spec (q : ref) (t : tree) : Prop :=
    NoDup (trefs t) -> (forall y, In y (trefs t) -> ~ In y (trefs sub)) ->
    forall x, lookup x (tflat q (tgraft p sub t)) =
      match lookup x (tflat q t) with
      | Some i => Some (adj p (troot sub) x i)
      | None => if mem p (trefs t) then lookup x (tflat p sub) else None
      end.

  Lemma graft_flat_forest ks :
    Forall (fun t => forall q, graft_flat_spec q t) ks ->
    forall q, NoDup (frefs ks) -> (forall y, In y (frefs ks) -> ~ In y (trefs sub)) ->
    forall x, lookup x (flat_map (tflat q) (List.map (tgraft p sub) ks)) =
      match lookup x (flat_map (tflat q) ks) with
      | Some i => Some (adj p (troot sub) x i)
      | None => if mem p (frefs ks) then lookup x (tflat p sub) else None
      end.
  Proof.
    induction 1 as [|k ks Hk _ IHks]; intros q Hnd Hdisj x; [reflexivity|].
    cbn [List.map flat_map]. rewrite !lookup_app. rewrite frefs_cons in Hnd, Hdisj. rewrite frefs_cons.
    rewrite Hk; [|eapply NoDup_app_l; exact Hnd|intros y Hy; apply Hdisj, in_or_app; now left].
    destruct (lookup x (tflat q k)) as [i|] eqn:E1; [reflexivity|].
    rewrite IHks; [|eapply NoDup_app_r; exact Hnd|intros y Hy; apply Hdisj, in_or_app; now right].
    rewrite mem_app. destruct (mem p (trefs k)) eqn:Emk; [|reflexivity].
    cbn [orb]. assert (Emks : mem p (frefs ks) = false).
    { apply mem_false_In. intros Hc. apply mem_true_In in Emk. eapply NoDup_app_disj; eauto. }
    rewrite Emks. destruct (lookup x (tflat p sub)) as [i|] eqn:E2.
    - assert (Hx : lookup x (flat_map (tflat q) ks) = None).
      { apply lookup_fflat_notin. intros Hc. apply (Hdisj x); [apply in_or_app; now right|].
        apply lookup_Some_keys in E2. now rewrite keys_tflat in E2. }
      now rewrite Hx.
    - destruct (lookup x (flat_map (tflat q) ks)); reflexivity.
  Qed.

  Lemma graft_flat_tree t : forall q, graft_flat_spec q t.
  Proof.
    induction t as [r n c ps kids IH] using tree_ind'. intros q Hnd Hdisj x.
    rewrite trefs_eq in Hnd, Hdisj. rewrite trefs_eq. cbn [mem].
    assert (Hnk : NoDup (frefs kids)) by (inversion Hnd; assumption).
    assert (Hrk : ~ In r (frefs kids)) by (inversion Hnd; assumption).
    rewrite tgraft_eq. destruct (N.eqb r p) eqn:Erp.
    - apply N.eqb_eq in Erp. subst r. rewrite map_tgraft_id by exact Hrk.
      rewrite N.eqb_refl. rewrite !tflat_eq. cbn [lookup]. unfold adj.
      destruct (N.eqb x p) eqn:Exp.
      + rewrite map_app. reflexivity.
      + rewrite flat_map_app, lookup_app. cbn [flat_map]. rewrite app_nil_r.
        destruct (lookup x (flat_map (tflat p) kids)); reflexivity.
    - rewrite (N.eqb_sym p r), Erp. rewrite !tflat_eq. cbn [lookup]. destruct (N.eqb x r) eqn:Exr.
      + apply N.eqb_eq in Exr. subst x. unfold adj. rewrite Erp, map_troot_tgraft. reflexivity.
      + apply graft_flat_forest; [exact IH|exact Hnk|]. intros y Hy. apply Hdisj. now right.
  Qed.

  Lemma graft_flat q ts :
    NoDup (frefs ts) -> (forall y, In y (frefs ts) -> ~ In y (trefs sub)) ->
    forall x, lookup x (flat_map (tflat q) (List.map (tgraft p sub) ts)) =
      match lookup x (flat_map (tflat q) ts) with
      | Some i => Some (adj p (troot sub) x i)
      | None => if mem p (frefs ts) then lookup x (tflat p sub) else None
      end.
  Proof.
    apply graft_flat_forest. apply Forall_forall. intros t _ q'. apply graft_flat_tree.
  Qed.

  (* any per-node collection (referents, UniqueIds) of a grafted forest is a permutation of old ++ new *)
  Section Collect.
    Variables (A : Type) (g : tree -> list A) (hd : ref -> N -> N -> props -> list A).
    Hypothesis g_eq : forall r n c ps kids, g (Node r n c ps kids) = hd r n c ps ++ flat_map g kids.

    Lemma collect_graft_forest ks :
      Forall (fun t => NoDup (trefs t) ->
                Permutation (g (tgraft p sub t)) (g t ++ if mem p (trefs t) then g sub else [])) ks ->
      NoDup (frefs ks) ->
      Permutation (flat_map g (List.map (tgraft p sub) ks))
                  (flat_map g ks ++ if mem p (frefs ks) then g sub else []).
    Proof.
      induction 1 as [|k ks Hk _ IHks]; intros Hnd; [reflexivity|].
      cbn [List.map flat_map]. rewrite frefs_cons in Hnd. rewrite frefs_cons, mem_app.
      eapply Permutation_trans.
      { apply Permutation_app; [apply Hk; eapply NoDup_app_l; exact Hnd|apply IHks; eapply NoDup_app_r; exact Hnd]. }
      destruct (mem p (trefs k)) eqn:Emk; cbn [orb].
      - assert (Emks : mem p (frefs ks) = false).
        { apply mem_false_In. intros Hc. apply mem_true_In in Emk. eapply NoDup_app_disj; eauto. }
        rewrite Emks, app_nil_r, <- !app_assoc. apply Permutation_app_head. apply Permutation_app_comm.
      - rewrite app_nil_r, <- app_assoc. reflexivity.
    Qed.

    Lemma collect_graft_tree t :
      NoDup (trefs t) -> Permutation (g (tgraft p sub t)) (g t ++ if mem p (trefs t) then g sub else []).
    Proof.
      induction t as [r n c ps kids IH] using tree_ind'. rewrite trefs_eq. intros Hnd. cbn [mem].
      assert (Hnk : NoDup (frefs kids)) by (inversion Hnd; assumption).
      assert (Hrk : ~ In r (frefs kids)) by (inversion Hnd; assumption).
      rewrite tgraft_eq. destruct (N.eqb r p) eqn:Erp.
      - apply N.eqb_eq in Erp. subst r. rewrite map_tgraft_id by exact Hrk. rewrite N.eqb_refl.
        rewrite !g_eq, flat_map_app. cbn [flat_map]. rewrite app_nil_r, <- app_assoc. reflexivity.
      - rewrite (N.eqb_sym p r), Erp. rewrite !g_eq, <- app_assoc. apply Permutation_app_head.
        now apply collect_graft_forest.
    Qed.

    Lemma collect_fgraft ts :
      NoDup (frefs ts) -> (p = rnone \/ In p (frefs ts)) -> ~ In rnone (frefs ts) ->
      Permutation (flat_map g (fgraft p sub ts)) (flat_map g ts ++ g sub).
    Proof.
      intros Hnd Hp H0. unfold fgraft. destruct (N.eqb p rnone) eqn:Ep.
      - rewrite flat_map_app. cbn [flat_map]. now rewrite app_nil_r.
      - apply N.eqb_neq in Ep. destruct Hp as [Hp|Hp]; [contradiction|].
        apply mem_In in Hp.
        pose proof (collect_graft_forest ts) as Hc. rewrite Hp in Hc. apply Hc; [|exact Hnd].
        apply Forall_forall. intros t _. apply collect_graft_tree.
    Qed.
  End Collect.

  Lemma frefs_fgraft ts :
    NoDup (frefs ts) -> (p = rnone \/ In p (frefs ts)) -> ~ In rnone (frefs ts) ->
    Permutation (frefs (fgraft p sub ts)) (frefs ts ++ trefs sub).
  Proof.
    apply (collect_fgraft _ trefs (fun r _ _ _ => [r])). intros. apply trefs_eq.
  Qed.

  Lemma fuids_fgraft ts :
    NoDup (frefs ts) -> (p = rnone \/ In p (frefs ts)) -> ~ In rnone (frefs ts) ->
    Permutation (fuids (fgraft p sub ts)) (fuids ts ++ tuids sub).
  Proof.
    apply (collect_fgraft _ tuids (fun _ _ _ ps => match get_uid ps with Some u => [u] | None => [] end)).
    intros. apply tuids_eq.
  Qed.

  Lemma map_troot_fgraft ts :
    List.map troot (fgraft p sub ts) = List.map troot ts ++ (if N.eqb p rnone then [troot sub] else []).
  Proof.
    unfold fgraft. destruct (N.eqb p rnone); [now rewrite map_app|]. now rewrite map_troot_tgraft, app_nil_r.
  Qed.
End Graft.

(* ------------------------------------------------------------------------------------------ *)
(* Part 6: breadth-first enumeration and the UniqueId settlement                               *)
(* ------------------------------------------------------------------------------------------ *)

Section BfsCollect.
  Variables (A : Type) (g : tree -> list A) (nhd : tree -> list A).
  Hypothesis g_eq : forall t, g t = nhd t ++ flat_map g (tkids t).

  Lemma bfs_collect f : forall q, (fsize q <= f)%nat -> Permutation (flat_map g q) (flat_map nhd (bfs f q)).
  Proof.
    induction f as [|f IH]; intros q Hsz.
    - apply fsize_zero in Hsz. subst q. reflexivity.
    - destruct q as [|t q]; [reflexivity|]. cbn [bfs flat_map]. rewrite g_eq, <- app_assoc.
      apply Permutation_app_head. eapply Permutation_trans; [|apply IH].
      + rewrite flat_map_app. apply Permutation_app_comm.
      + rewrite fsize_cons in Hsz. rewrite fsize_app. destruct t as [r n c ps kids].
        rewrite tsize_eq in Hsz. cbn [tkids]. lia.
  Qed.
End BfsCollect.

Definition nuid (t : tree) : list N := match get_uid (tprops t) with Some u => [u] | None => [] end.

Lemma flat_map_single {A B} (f : A -> B) l : flat_map (fun a => [f a]) l = List.map f l.
Proof. induction l as [|a l IH]; cbn; [reflexivity|]. now rewrite IH. Qed.

Lemma bfs_refs f q : (fsize q <= f)%nat -> Permutation (frefs q) (List.map troot (bfs f q)).
Proof.
  intros H. rewrite <- flat_map_single. apply (bfs_collect _ trefs); [|exact H].
  intros [r n c ps kids]. now rewrite trefs_eq.
Qed.

Lemma bfs_uids f q : (fsize q <= f)%nat -> Permutation (fuids q) (flat_map nuid (bfs f q)).
Proof.
  intros H. apply (bfs_collect _ tuids); [|exact H].
  intros [r n c ps kids]. now rewrite tuids_eq.
Qed.

Lemma bfs_apply_uids asg f : forall q,
  bfs f (List.map (apply_uids asg) q) = List.map (apply_uids asg) (bfs f q).
Proof.
  induction f as [|f IH]; intros [|t q]; try reflexivity.
  cbn [List.map bfs]. f_equal. rewrite tkids_apply_uids, <- map_app. apply IH.
Qed.

Lemma nuid_apply_uids asg t :
  nuid (apply_uids asg t) =
  match lookup (troot t) asg with Some v => [v] | None => nuid t end.
Proof.
  unfold nuid. rewrite tprops_apply_uids. unfold new_props. destruct (lookup (troot t) asg) as [v|]; [|reflexivity].
  unfold get_uid. now rewrite lookup_upd_eq.
Qed.

Definition settled (asg : map N) (ns : list tree) : list N :=
  flat_map (fun n => nuid (apply_uids asg n)) ns.

Lemma settled_ext asg asg' ns :
  (forall n, In n ns -> lookup (troot n) asg = lookup (troot n) asg') -> settled asg ns = settled asg' ns.
Proof.
  intros H. apply flat_map_ext_in'. intros n Hn. rewrite !nuid_apply_uids. now rewrite H.
Qed.

Lemma settle_uids ns : forall used nu,
  NoDup (List.map troot ns) ->
  (forall u, mem u used = true -> u < nu) ->
  (forall u, In u (flat_map nuid ns) -> u < nu) ->
  let asg := fst (settle used nu ns) in
  let nu' := snd (settle used nu ns) in
  nu <= nu' /\ NoDup (settled asg ns) /\
  (forall u, In u (settled asg ns) -> mem u used = false) /\
  (forall u, In u (settled asg ns) -> u < nu') /\
  (forall u, mem u (settle_used used nu ns) = (mem u used || mem u (settled asg ns))%bool).
Proof.
  induction ns as [|t rest IH]; intros used nu Hnd Hused Hnodes.
  - cbn. split; [lia|]. split; [constructor|]. split; [contradiction|]. split; [contradiction|].
    intros u. now rewrite orb_false_r.
  - cbn [List.map] in Hnd. assert (Hnr : ~ In (troot t) (List.map troot rest)) by (inversion Hnd; assumption).
    assert (Hndr : NoDup (List.map troot rest)) by (inversion Hnd; assumption).
    cbn [flat_map] in Hnodes.
    rewrite settle_cons. cbn [settle_used].
    (* the assignment for the rest does not mention this node *)
    assert (Hkey : forall u1 n1, lookup (troot t) (fst (settle u1 n1 rest)) = None)
      by (intros; now apply settle_keys).
    assert (Hrest : forall o asg', settled (asg_add (troot t) o asg') rest = settled asg' rest).
    { intros o asg'. apply settled_ext. intros n Hn. unfold asg_add. destruct o as [v|]; [|reflexivity].
      apply lookup_upd_neq. intros E. apply Hnr. rewrite <- E. now apply in_map. }
    unfold nuid in Hnodes at 1. unfold ustep.
    destruct (get_uid (tprops t)) as [u0|] eqn:Eu; [destruct (mem u0 used) eqn:Em|].
    + (* collision: regenerate *)
      specialize (IH (sadd nu used) (nu + 1) Hndr). specialize (Hkey (sadd nu used) (nu + 1)).
      destruct (settle (sadd nu used) (nu + 1) rest) as [asg' nu'] eqn:Es. cbn [fst snd] in *.
      destruct IH as (Hle & Hnd' & Hdis & Hlt & Hmem).
      { intros u. rewrite mem_sadd. intros H. apply orb_true_iff in H. destruct H as [H|H].
        - apply N.eqb_eq in H. lia.
        - apply Hused in H. lia. }
      { intros u Hu. assert (u < nu) by (apply Hnodes; now right). lia. }
      unfold settled. cbn [flat_map]. fold (settled (asg_add (troot t) (Some nu) asg') rest).
      rewrite Hrest, nuid_apply_uids. unfold asg_add. rewrite lookup_upd_eq. cbn [app].
      split; [lia|]. split.
      { constructor; [|exact Hnd']. intros Hc. apply Hdis in Hc. rewrite mem_sadd, N.eqb_refl in Hc. discriminate. }
      split.
      { intros u [<-|Hu].
        - destruct (mem nu used) eqn:E; [|reflexivity]. apply Hused in E. lia.
        - apply Hdis in Hu. rewrite mem_sadd in Hu. apply orb_false_iff in Hu. tauto. }
      split.
      { intros u [<-|Hu]; [lia|now apply Hlt]. }
      intros u. rewrite Hmem, mem_sadd. cbn [mem]. destruct (N.eqb u nu), (mem u used); reflexivity.
    + (* no collision: keep *)
      specialize (IH (sadd u0 used) nu Hndr). specialize (Hkey (sadd u0 used) nu).
      destruct (settle (sadd u0 used) nu rest) as [asg' nu'] eqn:Es. cbn [fst snd] in *.
      assert (Hu0 : u0 < nu) by (apply Hnodes; now left).
      destruct IH as (Hle & Hnd' & Hdis & Hlt & Hmem).
      { intros u. rewrite mem_sadd. intros H. apply orb_true_iff in H. destruct H as [H|H].
        - apply N.eqb_eq in H. now subst.
        - now apply Hused. }
      { intros u Hu. apply Hnodes. now right. }
      unfold settled. cbn [flat_map]. fold (settled (asg_add (troot t) None asg') rest).
      rewrite Hrest, nuid_apply_uids. unfold asg_add. rewrite Hkey.
      assert (Hn : nuid t = [u0]) by (unfold nuid; now rewrite Eu). rewrite Hn. cbn [app].
      split; [exact Hle|]. split.
      { constructor; [|exact Hnd']. intros Hc. apply Hdis in Hc. rewrite mem_sadd, N.eqb_refl in Hc. discriminate. }
      split.
      { intros u [<-|Hu]; [exact Em|].
        apply Hdis in Hu. rewrite mem_sadd in Hu. apply orb_false_iff in Hu. tauto. }
      split.
      { intros u [<-|Hu]; [lia|now apply Hlt]. }
      intros u. rewrite Hmem, mem_sadd. cbn [mem]. destruct (N.eqb u u0), (mem u used); reflexivity.
    + (* no UniqueId property *)
      specialize (IH used nu Hndr Hused Hnodes). specialize (Hkey used nu).
      destruct (settle used nu rest) as [asg' nu'] eqn:Es. cbn [fst snd] in *.
      unfold settled. cbn [flat_map]. fold (settled (asg_add (troot t) None asg') rest).
      rewrite Hrest, nuid_apply_uids. unfold asg_add. rewrite Hkey.
      assert (Hn : nuid t = []) by (unfold nuid; now rewrite Eu). rewrite Hn. cbn [app].
      exact IH.
Qed.

(* ------------------------------------------------------------------------------------------ *)
(* Part 7: assembling the refinement                                                           *)
(* ------------------------------------------------------------------------------------------ *)

Lemma nodupb_NoDup l : nodupb l = true -> NoDup l.
Proof.
  induction l as [|x l IH]; cbn [nodupb]; intros H; [constructor|].
  apply andb_true_iff in H. destruct H as [H1 H2]. constructor; [|now apply IH].
  apply mem_false_In. now destruct (mem x l).
Qed.

Lemma disjointb_spec a b : disjointb a b = true -> forall x, In x a -> ~ In x b.
Proof.
  unfold disjointb. rewrite forallb_forall. intros H x Hx. specialize (H x Hx).
  apply mem_false_In. now destruct (mem x b).
Qed.

Lemma ffind_In_from r ks :
  Forall (fun t => forall s, tfind r t = Some s -> In r (trefs t)) ks ->
  forall s, ffind r ks = Some s -> In r (frefs ks).
Proof.
  induction 1 as [|k ks Hk _ IHks]; intros s; cbn [ffind]; [discriminate|].
  rewrite frefs_cons, in_app_iff. destruct (tfind r k) as [s'|] eqn:E.
  - intros _. left. now apply (Hk s').
  - intros H. right. now apply (IHks s).
Qed.

Lemma tfind_In r t : forall s, tfind r t = Some s -> In r (trefs t).
Proof.
  induction t as [x n c ps kids IH] using tree_ind'. intros s. rewrite tfind_eq, trefs_eq.
  destruct (N.eqb x r) eqn:E; [apply N.eqb_eq in E; intros _; now left|].
  intros H. right. now apply (ffind_In_from r kids IH s).
Qed.

Lemma hasnode_In r ts : hasnode r ts = true -> In r (frefs ts).
Proof.
  unfold hasnode. destruct (ffind r ts) as [s|] eqn:E; [intros _|discriminate].
  apply (ffind_In_from r ts) with s; [|exact E]. apply Forall_forall. intros t _. apply tfind_In.
Qed.

Lemma mem_iff x a b : (In x a <-> In x b) -> mem x a = mem x b.
Proof.
  intros H. destruct (mem x a) eqn:Ea, (mem x b) eqn:Eb; try reflexivity.
  - apply mem_In in Ea. apply H in Ea. apply mem_In in Ea. congruence.
  - apply mem_In in Eb. apply H in Eb. apply mem_In in Eb. congruence.
Qed.

Lemma mem_perm x a b : Permutation a b -> mem x a = mem x b.
Proof.
  intros H. apply mem_iff. split; apply Permutation_in; [exact H|now apply Permutation_sym].
Qed.

Lemma dom_insert_loop d nu p b :
  dom_insert d nu p b =
  '(d1, nu1) <- tinsert_loop (tsize (tob b)) d nu [(p, tob b)] ;; Ok (d1, nu1, broot b).
Proof.
  unfold dom_insert. destruct (bkids b) as [|k ks] eqn:Ek.
  - destruct b as [r n c ps kids]. cbn [bkids] in Ek. subst kids. rewrite insert_one_tob.
    unfold tob. rewrite tree_of_builder_eq, tsize_eq. cbn [List.map fsize fold_right tinsert_loop troot tkids app].
    destruct (tinsert_one d nu p (Node r n c (props_of_list ps) [])) as [[d1 nu1]| | |]; reflexivity.
  - rewrite insert_loop_tob, tsize_tob. reflexivity.
Qed.

(* [Rep] without the clause "the root is one of the parentless trees" (false for the empty DOM that
   [dom_new] starts from) *)
Definition Rep0 (d : dom) (a : adom) : Prop :=
  (forall x, lookup x (d_insts d) = lookup x (aflat a)) /\
  NoDup (frefs (a_trees a)) /\
  ~ In rnone (frefs (a_trees a)) /\
  d_root d = a_root a /\
  (forall u, mem u (d_uids d) = mem u (fuids (a_trees a))) /\
  NoDup (fuids (a_trees a)) /\
  NoDup (keys (d_insts d)).

Lemma Rep_Rep0 d a : Rep d a -> Rep0 d a.
Proof. unfold Rep, Rep0. tauto. Qed.

Lemma Rep0_Rep d a : Rep0 d a -> In (a_root a) (List.map troot (a_trees a)) -> Rep d a.
Proof. unfold Rep, Rep0. tauto. Qed.

Lemma insert_core d a nu p b a' nu' :
  Rep0 d a -> uids_below nu a -> (forall u, In u (buids b) -> u < nu) ->
  a_insert a nu p b = Some (a', nu') ->
  exists d', dom_insert d nu p b = Ok (d', nu', broot b) /\ Rep0 d' a' /\ uids_below nu' a' /\ nu <= nu' /\
    a_root a' = a_root a /\
    List.map troot (a_trees a') =
      List.map troot (a_trees a) ++ (if N.eqb p rnone then [broot b] else []).
Proof.
  intros (Hl & Hnd & H0 & Hroot & Hmem & Hndu & Hk) Hbelow Hb Hins.
  destruct a as [aroot trees]. cbn [a_trees a_root] in *. unfold aflat in Hl. cbn [a_trees] in Hl.
  unfold a_insert in Hins. cbn [a_trees a_root] in Hins. fold (tob b) in Hins.
  set (t := tob b) in *.
  destruct ((N.eqb p rnone || hasnode p trees) && nodupb (trefs t) && disjointb (trefs t) (frefs trees)
            && negb (mem rnone (trefs t)))%bool eqn:Hc; [|discriminate].
  apply andb_true_iff in Hc. destruct Hc as [Hc Hc4].
  apply andb_true_iff in Hc. destruct Hc as [Hc Hc3].
  apply andb_true_iff in Hc. destruct Hc as [Hc1 Hc2].
  assert (Hp : p = rnone \/ In p (frefs trees)).
  { apply orb_true_iff in Hc1. destruct Hc1 as [H|H]; [left; now apply N.eqb_eq|right; now apply hasnode_In]. }
  assert (Hndt : NoDup (trefs t)) by now apply nodupb_NoDup.
  assert (Hdisj : forall x, In x (trefs t) -> ~ In x (frefs trees)) by now apply disjointb_spec.
  assert (H0t : ~ In rnone (trefs t)) by (apply mem_false_In; now destruct (mem rnone (trefs t))).
  clear Hc1 Hc2 Hc3 Hc4.
  assert (Hf : fsize [t] = tsize t) by (rewrite fsize_cons; cbn [fsize fold_right]; lia).
  assert (Hfr : frefs [t] = trefs t) by (rewrite frefs_cons; cbn [frefs flat_map]; apply app_nil_r).
  assert (Hfu : forall t0, fuids [t0] = tuids t0) by (intros; unfold fuids; cbn [flat_map]; apply app_nil_r).
  unfold arrive, bfs_all in Hins. rewrite Hf in Hins.
  set (ns := bfs (tsize t) [t]) in *.
  destruct (settle_ext ns (d_uids d) (fuids trees) nu Hmem) as [Hse Hsu].
  destruct (settle (fuids trees) nu ns) as [asg nu0] eqn:Es. cbn [List.map] in Hins.
  injection Hins as <- <-. cbn [a_trees a_root].
  set (t' := apply_uids asg t).
  assert (Htr' : trefs t' = trefs t) by apply trefs_apply_uids.
  (* the concrete loop *)
  destruct (tinsert_loop_spec (tsize t) d nu [(p, t)]) as (d' & E' & Hroot' & Huids' & Hk' & Hl').
  { cbn [List.map snd]. rewrite Hf. lia. }
  { cbn [List.map snd]. now rewrite Hfr. }
  { cbn [List.map snd]. now rewrite Hfr. }
  { cbn [List.map snd]. rewrite Hfr. intros p' t0 [[= <- <-]|[]]. destruct Hp as [->|Hp]; [exact H0t|].
    intros Hc. now apply (Hdisj p). }
  { intros p' t0 [[= <- <-]|[]] Hpn. destruct Hp as [->|Hp]; [contradiction|]. rewrite Hl.
    destruct (lookup_fflat_in rnone trees p Hp) as [i Hi]. rewrite Hi. discriminate. }
  { rewrite Hl. now apply lookup_fflat_notin. }
  { exact Hk. }
  cbn [List.map snd] in E', Huids', Hl'. fold ns in E', Huids', Hl'.
  rewrite Hse in E', Hl'. cbn [fst snd] in E', Hl'.
  (* UniqueId facts *)
  assert (Hsz' : (fsize [t'] <= tsize t)%nat).
  { replace [t'] with (List.map (apply_uids asg) [t]) by reflexivity. rewrite fsize_apply_uids. lia. }
  assert (Hperm : Permutation (tuids t') (settled asg ns)).
  { rewrite <- Hfu. eapply Permutation_trans; [apply (bfs_uids (tsize t)); exact Hsz'|].
    replace [t'] with (List.map (apply_uids asg) [t]) by reflexivity.
    rewrite bfs_apply_uids, flat_map_map'. apply Permutation_refl. }
  pose proof (settle_uids ns (fuids trees) nu) as Hsett. rewrite Es in Hsett. cbn [fst snd] in Hsett.
  destruct Hsett as (Hle & Hnds & Hdis & Hlt & Hms).
  { eapply Permutation_NoDup; [apply bfs_refs; rewrite Hf; lia|]. now rewrite Hfr. }
  { intros u Hu. apply Hbelow. cbn [a_trees]. now apply mem_In. }
  { intros u Hu. apply Hb. unfold t in *. rewrite <- tuids_tob, <- Hfu.
    eapply Permutation_in; [apply Permutation_sym, (bfs_uids (tsize (tob b))); rewrite Hf; lia|exact Hu]. }
  assert (Hpu : Permutation (fuids (fgraft p t' trees)) (fuids trees ++ tuids t')) by now apply fuids_fgraft.
  assert (Hpr : Permutation (frefs (fgraft p t' trees)) (frefs trees ++ trefs t')) by now apply frefs_fgraft.
  exists d'. rewrite dom_insert_loop. fold t. rewrite E'. cbn [rbind].
  split; [reflexivity|].
  split; [|split; [|split; [exact Hle|split; [reflexivity|]]]].
  - (* Rep0 *)
    unfold Rep0, aflat. cbn [a_trees a_root].
    split; [|split; [|split; [|split; [congruence|split; [|split; [|exact Hk']]]]]].
    + (* the table *)
      intros x. rewrite Hl'. unfold qflat. cbn [flat_map fst snd]. rewrite app_nil_r. fold t'.
      rewrite pushes_cons. change (pushes x []) with (@nil ref). rewrite app_nil_r. rewrite Hl.
      assert (Hin_old : forall i, lookup x (flat_map (tflat rnone) trees) = Some i ->
                                  x <> rnone /\ forall q, lookup x (tflat q t') = None).
      { intros i Hi. apply lookup_Some_keys in Hi. rewrite keys_fflat in Hi. split; [intros ->; contradiction|].
        intros q. apply lookup_tflat_notin. rewrite Htr'. intros Hc. now apply (Hdisj x). }
      unfold fgraft. destruct (N.eqb p rnone) eqn:Ep.
      * apply N.eqb_eq in Ep. subst p. rewrite flat_map_app, lookup_app. cbn [flat_map]. rewrite app_nil_r.
        destruct (lookup x (flat_map (tflat rnone) trees)) as [i|] eqn:E1.
        -- destruct (Hin_old i eq_refl) as [Hx Hn]. rewrite Hn. cbn [option_map].
           assert (Ex : N.eqb rnone x = false) by (apply N.eqb_neq; congruence).
           rewrite Ex. unfold push1. now rewrite set_children_nil.
        -- cbn [option_map]. destruct (lookup x (tflat rnone t')); reflexivity.
      * apply N.eqb_neq in Ep. destruct Hp as [Hp|Hp]; [contradiction|].
        rewrite graft_flat; [|exact Hnd|intros y Hy; rewrite Htr'; intros Hc; now apply (Hdisj y)].
        assert (Em : mem p (frefs trees) = true) by now apply mem_In.
        rewrite Em.
        destruct (lookup x (flat_map (tflat rnone) trees)) as [i|] eqn:E1.
        -- destruct (Hin_old i eq_refl) as [Hx Hn]. rewrite Hn. cbn [option_map]. f_equal.
           unfold adj, t'. rewrite troot_apply_uids, (N.eqb_sym x p). destruct (N.eqb p x); [reflexivity|].
           unfold push1. now rewrite set_children_nil.
        -- cbn [option_map]. destruct (lookup x (tflat p t')); reflexivity.
    + eapply Permutation_NoDup; [apply Permutation_sym; exact Hpr|].
      apply NoDup_app_intro; [exact Hnd|now rewrite Htr'|]. intros x Hx1 Hx2. rewrite Htr' in Hx2.
      now apply (Hdisj x).
    + intros Hc. eapply Permutation_in in Hc; [|exact Hpr]. apply in_app_or in Hc. rewrite Htr' in Hc. tauto.
    + intros u. rewrite Huids', Hsu, Hms, (mem_perm u _ _ Hpu), mem_app. f_equal.
      apply mem_perm. now apply Permutation_sym.
    + eapply Permutation_NoDup; [apply Permutation_sym; exact Hpu|].
      apply NoDup_app_intro; [exact Hndu| |].
      * eapply Permutation_NoDup; [apply Permutation_sym; exact Hperm|exact Hnds].
      * intros u Hu1 Hu2. eapply Permutation_in in Hu2; [|exact Hperm]. apply Hdis in Hu2.
        apply mem_In in Hu1. congruence.
  - (* uids_below *)
    intros u Hu. cbn [a_trees] in Hu. eapply Permutation_in in Hu; [|exact Hpu]. apply in_app_or in Hu.
    destruct Hu as [Hu|Hu].
    + assert (u < nu) by now apply Hbelow. lia.
    + apply Hlt. eapply Permutation_in; [exact Hperm|exact Hu].
  - rewrite map_troot_fgraft. unfold t', t. now rewrite troot_apply_uids, troot_tob.
Qed.

Lemma insert_refines : refines_insert.
Proof.
  unfold refines_insert. intros d a nu p b a' nu' HR Hbelow Hb Hins.
  destruct (insert_core d a nu p b a' nu' (Rep_Rep0 _ _ HR) Hbelow Hb Hins)
    as (d' & E & HR' & Hbelow' & Hle & Hroot & Hmap).
  exists d'. split; [exact E|]. split; [|split; assumption].
  apply Rep0_Rep; [exact HR'|]. rewrite Hroot, Hmap. apply in_or_app. left.
  unfold Rep in HR. tauto.
Qed.

Lemma new_refines : refines_new.
Proof.
  unfold refines_new. intros nu b a' nu' Hb Hnew. unfold a_new in Hnew.
  destruct (insert_core (mkDom [] (broot b) []) (mkADom (broot b) []) nu rnone b a' nu') as
    (d' & E & HR' & Hbelow' & Hle & Hroot & Hmap).
  - unfold Rep0. cbn. repeat split; try constructor; tauto.
  - intros u []. 
  - exact Hb.
  - exact Hnew.
  - exists d'. unfold dom_new. rewrite E. cbn [rbind]. split; [reflexivity|]. split; [|split; assumption].
    apply Rep0_Rep; [exact HR'|]. rewrite Hroot, Hmap. cbn. now left.
Qed.

Print Assumptions insert_refines.
Print Assumptions new_refines.
