(* RefMoveGuard.v — WeakDom::transfer outside its documented precondition "dest_parent_ref refers to an instance in
   other_dom": the call panics before anything is moved (after the /repo repair); the code before the repair looked the
   new parent up only after the subtree had arrived, so an instance INSIDE the transferred subtree could stand in for it,
   leaving a parent cycle detached from the root (computed witness: the four-step history the thorough dom-ops run found). *)
From RbxVerif Require Import Base Dom.

Theorem transfer_absent_dest_panics src dst nu r dest :
  has dest (d_insts dst) = false -> dom_transfer src dst nu r dest = Panic.
Proof.
  intros H. unfold dom_transfer. destruct (N.eqb r (d_root src)); [reflexivity|]. now rewrite H.
Qed.

(* the code before the repair: the same function without the early check *)
Definition dom_transfer_pinned (src dst : dom) (nu : N) (r dest : ref) : res (dom * dom * N) :=
  if N.eqb r (d_root src) then Panic else
  match inner_remove src r with
  | None => Panic
  | Some (src1, i) =>
      let p := i_parent i in
      src2 <- (if N.eqb p rnone then Ok src1 else of_opt (unlink_child src1 p r)) ;;
      let '(dst1, nu1) := inner_insert dst nu r (set_parent i dest) in
      '(src3, dst2, nu2) <- move_loop (dom_size src) src2 dst1 nu1 (i_children i) ;;
      dst3 <- of_opt (push_child dst2 dest r) ;;
      Ok (src3, dst3, nu2)
  end.

(* with the destination present both agree *)
Theorem transfer_pinned_agrees src dst nu r dest :
  has dest (d_insts dst) = true -> dom_transfer src dst nu r dest = dom_transfer_pinned src dst nu r dest.
Proof.
  intros H. unfold dom_transfer, dom_transfer_pinned. destruct (N.eqb r (d_root src)); [reflexivity|]. now rewrite H.
Qed.

(* dom0 = 1{2{3}}, dom1 = 5{6}; transfer 2 under 6 (into dom1), then transfer 6 "under 2" into dom0, where 2 no longer is *)
Definition gd0 : dom := mkDom [(1, mkInst 0 [2] 0 0 []); (2, mkInst 1 [3] 0 0 []); (3, mkInst 2 [] 0 0 [])] 1 [].
Definition gd1 : dom := mkDom [(5, mkInst 0 [6] 0 0 []); (6, mkInst 5 [] 0 0 [])] 5 [].

Example transfer_pinned_cycle_refuted :
  exists d0 d1 d1' d0' nu nu' i2 i6,
    dom_transfer_pinned gd0 gd1 100 2 6 = Ok (d0, d1, nu) /\
    dom_transfer_pinned d1 d0 nu 6 2 = Ok (d1', d0', nu') /\
    lookup 2 (d_insts d0') = Some i2 /\ i_parent i2 = 6 /\
    lookup 6 (d_insts d0') = Some i6 /\ i_parent i6 = 2.
Proof. vm_compute. do 8 eexists. repeat split; reflexivity. Qed.

Example transfer_repaired_panics :
  exists d0 d1 nu, dom_transfer gd0 gd1 100 2 6 = Ok (d0, d1, nu) /\ dom_transfer d1 d0 nu 6 2 = Panic.
Proof. vm_compute. do 3 eexists. split; reflexivity. Qed.
