(* Rep.v — the representation relation between the concrete WeakDom model (Model/Dom.v) and the
   rose-forest specification (Model/Tree.v), the well-formedness predicate of property C09, and the
   statements of the per-operation refinement lemmas (proved in Proofs/Ref*.v). *)
From RbxVerif Require Import Base Dom Tree BaseFacts TreeFacts.
From Coq Require Import Lia.

(* [d] represents the forest [a]: same instance table (pointwise), same root, same UniqueId set;
   the forest has no repeated or null referent and no repeated UniqueId. *)
Definition Rep (d : dom) (a : adom) : Prop :=
  (forall x, lookup x (d_insts d) = lookup x (aflat a)) /\
  NoDup (frefs (a_trees a)) /\
  ~ In rnone (frefs (a_trees a)) /\
  d_root d = a_root a /\
  In (a_root a) (List.map troot (a_trees a)) /\
  (forall u, mem u (d_uids d) = mem u (fuids (a_trees a))) /\
  NoDup (fuids (a_trees a)) /\
  NoDup (keys (d_insts d)).

(* the ancestor chain of x reaches a parentless instance: x is not its own ancestor *)
Inductive Rooted (m : map inst) : ref -> Prop :=
| Rooted_top x i : lookup x m = Some i -> i_parent i = rnone -> Rooted m x
| Rooted_up x i : lookup x m = Some i -> i_parent i <> rnone -> Rooted m (i_parent i) -> Rooted m x.

(* Property C09, clause by clause *)
Definition WF (d : dom) : Prop :=
  (* the root exists and has no parent *)
  (exists ri, lookup (d_root d) (d_insts d) = Some ri /\ i_parent ri = rnone) /\
  (* each child an instance lists exists and names that instance as its parent *)
  (forall r i c, lookup r (d_insts d) = Some i -> In c (i_children i) ->
                 exists ci, lookup c (d_insts d) = Some ci /\ i_parent ci = r) /\
  (* every instance with a parent is listed exactly once by it *)
  (forall r i, lookup r (d_insts d) = Some i -> i_parent i <> rnone ->
               exists pi, lookup (i_parent i) (d_insts d) = Some pi /\
                          count_occ N.eq_dec (i_children pi) r = 1%nat) /\
  (* no instance is its own ancestor *)
  (forall r i, lookup r (d_insts d) = Some i -> Rooted (d_insts d) r) /\
  (* no two instances hold the same UniqueId (C12) and the id set is exactly the ids held *)
  (forall r1 i1 r2 i2 u, lookup r1 (d_insts d) = Some i1 -> lookup r2 (d_insts d) = Some i2 ->
                         get_uid (i_props i1) = Some u -> get_uid (i_props i2) = Some u -> r1 = r2) /\
  (forall u, mem u (d_uids d) = true <->
             exists r i, lookup r (d_insts d) = Some i /\ get_uid (i_props i) = Some u).

Definition uids_below (nu : N) (a : adom) : Prop := forall u, In u (fuids (a_trees a)) -> u < nu.
Definition refs_below (nr : N) (a : adom) : Prop := forall r, In r (frefs (a_trees a)) -> r < nr.

(* every property value held in a forest (used to bound planted Ref values below the allocator) *)
Fixpoint tpvals (t : tree) : list pval :=
  match t with
  | Node _ _ _ ps kids =>
      List.map snd ps ++ (fix go ks := match ks with [] => [] | k :: ks' => tpvals k ++ go ks' end) kids
  end.
Definition fpvals (ts : list tree) : list pval := flat_map tpvals ts.
Definition prefs_below (nr : N) (a : adom) : Prop := forall r, In (PRef r) (fpvals (a_trees a)) -> r < nr.

Fixpoint buids (b : btree) : list N :=
  match b with
  | BNode _ _ _ ps kids =>
      (match get_uid (props_of_list ps) with Some u => [u] | None => [] end)
      ++ (fix go ks := match ks with [] => [] | k :: ks' => buids k ++ go ks' end) kids
  end.
Fixpoint brefs (b : btree) : list ref :=
  match b with
  | BNode r _ _ _ kids => r :: (fix go ks := match ks with [] => [] | k :: ks' => brefs k ++ go ks' end) kids
  end.

(* ---- statements of the per-operation refinement lemmas ---- *)

Definition refines_move_within : Prop := forall d a r dest a',
  Rep d a -> a_move_within a r dest = Some a' ->
  exists d', dom_transfer_within d r dest = Ok d' /\ Rep d' a'.

Definition refines_destroy : Prop := forall d a r a',
  Rep d a -> a_destroy a r = Some a' ->
  exists d', dom_destroy d r = Ok d' /\ Rep d' a'.

Definition refines_insert : Prop := forall d a nu p b a' nu',
  Rep d a -> uids_below nu a -> (forall u, In u (buids b) -> u < nu) ->
  a_insert a nu p b = Some (a', nu') ->
  exists d', dom_insert d nu p b = Ok (d', nu', broot b) /\ Rep d' a' /\ uids_below nu' a' /\ nu <= nu'.

Definition refines_new : Prop := forall nu b a' nu',
  (forall u, In u (buids b) -> u < nu) ->
  a_new nu b = Some (a', nu') ->
  exists d', dom_new nu b = Ok (d', nu') /\ Rep d' a' /\ uids_below nu' a' /\ nu <= nu'.

Definition refines_move : Prop := forall s t sa ta nu r dest sa' ta' nu',
  Rep s sa -> Rep t ta -> uids_below nu sa -> uids_below nu ta ->
  a_move sa ta nu r dest = Some (sa', ta', nu') ->
  exists s' t', dom_transfer s t nu r dest = Ok (s', t', nu') /\ Rep s' sa' /\ Rep t' ta' /\
                uids_below nu' sa' /\ uids_below nu' ta' /\ nu <= nu'.

(* clone_within: source and destination are the same DOM.
   NOTE: the two clone statements below were found to be too weak on their hypotheses while being
   proved (see Proofs/RefClone.v: duplicate property keys can hide a UniqueId; the external case needs
   the source's ids bounded too).  The statements that are proved are refines_clone_within' /
   refines_clone_ext' in Proofs/RefClone.v, re-stated for a_clone in Proofs/RefCloneFinal.v. *)
Definition refines_clone_within : Prop := forall d a nu nr rs a' nu' nr' roots,
  Rep d a -> uids_below nu a -> refs_below nr a -> prefs_below nr a ->
  a_clone a a nu nr rs = Some (a', nu', nr', roots) ->
  exists d', dom_clone None d nu nr rs = Ok (d', nu', nr', roots) /\ Rep d' a' /\
             uids_below nu' a' /\ refs_below nr' a' /\ prefs_below nr' a' /\ nu <= nu' /\ nr <= nr'.

Definition refines_clone_ext : Prop := forall s t sa ta nu nr rs ta' nu' nr' roots,
  Rep s sa -> Rep t ta -> uids_below nu ta -> refs_below nr sa -> refs_below nr ta ->
  prefs_below nr sa -> prefs_below nr ta ->
  a_clone sa ta nu nr rs = Some (ta', nu', nr', roots) ->
  exists t', dom_clone (Some s) t nu nr rs = Ok (t', nu', nr', roots) /\ Rep t' ta' /\
             uids_below nu' ta' /\ refs_below nr' ta' /\ prefs_below nr' ta' /\ nu <= nu' /\ nr <= nr'.
