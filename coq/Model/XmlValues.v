(* XmlValues.v — layer L8: rbx_xml/src/types/*.rs, serializer_core.rs and deserializer_core.rs above the
   event abstraction of XmlEvents.v.  One Gallina function per Rust function (the Rust name is given
   beside each).  Writers produce [list wevent]; readers are parsers over [list revent] with one event
   of look-ahead (`XmlEventReader::peek`).
   Float <-> decimal text is NOT modelled: [xoracle] carries `Display`/`FromStr` of f32/f64, the
   Color3 -> Color3uint8 quantisation and `u8 as f32 / 255.0` as functions; the harness supplies per case
   the finite table of the arguments that occur (computed by the real Rust functions); a missing entry
   is the distinguished error [ERR_TABLE].  Decimal text of integers and base64 are computed here.
   Every Rust panic site is [Panic].  Definitions only; theorems in Proofs/Xml*.v. *)
From RbxVerif Require Export Base Bytes Value Utf8 Db Hex Tags XmlEvents.
From RbxVerif Require Import BinValues.   (* f64_of_f32, matcol_encode / matcol_decode *)
Open Scope string_scope.
Open Scope list_scope.
Open Scope N_scope.

(* ------------------------------------------------------------------------------ error classes *)
(* DecodeErrorKind *)
Definition DE_XML : N := 100.          (* Xml(xml::reader::Error) *)
Definition DE_FLOAT : N := 101.        (* ParseFloat *)
Definition DE_INT : N := 102.          (* ParseInt *)
Definition DE_BASE64 : N := 103.       (* DecodeBase64 *)
Definition DE_MIGRATION : N := 104.    (* MigrationError *)
Definition DE_TYPE : N := 105.         (* TypeError (rbx_types::Error: UniqueId text) *)
Definition DE_VERSION : N := 106.      (* WrongDocVersion *)
Definition DE_EOF : N := 107.          (* UnexpectedEof *)
Definition DE_EVENT : N := 108.        (* UnexpectedXmlEvent *)
Definition DE_ATTR : N := 109.         (* MissingAttribute *)
Definition DE_UNKNOWN : N := 110.      (* UnknownProperty *)
Definition DE_CONTENT : N := 111.      (* InvalidContent *)
Definition DE_NAME : N := 112.         (* NameMustBeString *)
Definition DE_CONVERT : N := 113.      (* UnsupportedPropertyConversion *)
(* EncodeErrorKind *)
Definition EE_UNKNOWN : N := 120.      (* UnknownProperty *)
Definition EE_TYPE : N := 121.         (* UnsupportedPropertyType *)
Definition EE_CONVERT : N := 122.      (* UnsupportedPropertyConversion *)
Definition EE_ATTR : N := 123.         (* Type(rbx_types::Error) from Attributes::to_writer *)
(* the harness did not supply a float text / quantisation the model asked for *)
Definition ERR_TABLE : N := 99.

Record xoracle := mkXO {
  xo_show32 : f32 -> option bytes;              (* format!("{}", f32::from_bits(x)) for non-NaN finite x *)
  xo_show64 : f64 -> option bytes;
  xo_parse32 : bytes -> option (option f32);    (* str::parse::<f32>(): Some None = Err(ParseFloatError) *)
  xo_parse64 : bytes -> option (option f64);
  xo_quant : f32 -> option N;                   (* (x.clamp(0.0, 1.0) * 255.0).round() as u8 *)
  xo_unit : N -> option f32                     (* f32::from(b) / 255.0 *)
}.

Definition ask {A} (o : option A) : res A := match o with Some a => Ok a | None => Err ERR_TABLE end.

Definition B (s : string) : bytes := bytes_of_string s.

(* ------------------------------------------------------------------------------ decimal integers *)
(* `{}` of an unsigned integer *)
Fixpoint dec_rev (fuel : nat) (n : N) : list N :=
  match fuel with
  | O => []
  | S f => if n <? 10 then [48 + n] else (48 + n mod 10) :: dec_rev f (n / 10)
  end.
Definition dec_of_N (n : N) : bytes := frev (dec_rev (S (N.size_nat n)) n).
Definition dec_of_Z (z : Z) : bytes :=
  match z with
  | Z0 => [48]
  | Zpos p => dec_of_N (Npos p)
  | Zneg p => 45 :: dec_of_N (Npos p)
  end.

(* core::num from_str_radix(_, 10): optional sign (`-` only for signed types), then one or more digits;
   None = Err(ParseIntError) (empty, invalid digit, overflow) *)
Fixpoint digits_val (acc : N) (s : bytes) : option N :=
  match s with
  | [] => Some acc
  | c :: r => if (48 <=? c) && (c <=? 57) then digits_val (acc * 10 + (c - 48)) r else None
  end.
Definition in_range_z (lo hi z : Z) : option Z := if (lo <=? z)%Z && (z <=? hi)%Z then Some z else None.
Definition parse_int (signed : bool) (lo hi : Z) (s : bytes) : option Z :=
  match s with
  | [] => None
  | 43 :: r => match r with
               | [] => None
               | _ => match digits_val 0 r with Some n => in_range_z lo hi (Z.of_N n) | None => None end
               end
  | 45 :: r => if signed then
                 match r with
                 | [] => None
                 | _ => match digits_val 0 r with Some n => in_range_z lo hi (- Z.of_N n) | None => None end
                 end
               else None
  | _ => match digits_val 0 s with Some n => in_range_z lo hi (Z.of_N n) | None => None end
  end.
Definition parse_i16 := parse_int true (-32768) 32767.
Definition parse_i32 := parse_int true (-2147483648) 2147483647.
Definition parse_i64 := parse_int true (-9223372036854775808) 9223372036854775807.
Definition parse_un (hi : Z) (s : bytes) : option N :=
  match parse_int false 0 hi s with Some z => Some (Z.to_N z) | None => None end.
Definition parse_u8 := parse_un 255.
Definition parse_u16 := parse_un 65535.
Definition parse_u32 := parse_un 4294967295.
Definition parse_u64 := parse_un 18446744073709551615.

(* ------------------------------------------------------------------------------ base64 (crate base64 0.13, STANDARD) *)
Definition b64_char (d : N) : N :=
  if d <? 26 then 65 + d else if d <? 52 then 71 + d else if d <? 62 then d - 4
  else if d =? 62 then 43 else 47.
Definition b64_val (c : N) : option N :=
  if (65 <=? c) && (c <=? 90) then Some (c - 65)
  else if (97 <=? c) && (c <=? 122) then Some (c - 71)
  else if (48 <=? c) && (c <=? 57) then Some (c + 4)
  else if c =? 43 then Some 62 else if c =? 47 then Some 63 else None.

(* base64::encode: three bytes -> four symbols, `=` padding *)
Fixpoint b64_encode (b : bytes) : bytes :=
  match b with
  | [] => []
  | [x] => [b64_char (x / 4); b64_char ((x mod 4) * 16); 61; 61]
  | [x; y] => [b64_char (x / 4); b64_char ((x mod 4) * 16 + y / 16); b64_char ((y mod 16) * 4); 61]
  | x :: y :: z :: r =>
      b64_char (x / 4) :: b64_char ((x mod 4) * 16 + y / 16) :: b64_char ((y mod 16) * 4 + z / 64)
        :: b64_char (z mod 64) :: b64_encode r
  end.

(* base64::decode (decode_helper): symbols in groups of four; padding only as a suffix of the last group
   after >= 2 symbols (it may be omitted or partial: `AA`, `AA=`, `AA==`, `AAA`, `AAA=` are accepted);
   a single trailing symbol is InvalidLength; non-zero bits beyond the last whole byte are
   InvalidLastSymbol.  None = Err(DecodeError). *)
Definition b64_tail2 (a b : N) : option bytes :=
  match b64_val a, b64_val b with
  | Some p, Some q => if q mod 16 =? 0 then Some [p * 4 + q / 16] else None
  | _, _ => None
  end.
Definition b64_tail3 (a b c : N) : option bytes :=
  match b64_val a, b64_val b, b64_val c with
  | Some p, Some q, Some r =>
      if r mod 4 =? 0 then Some [p * 4 + q / 16; (q mod 16) * 16 + r / 4] else None
  | _, _, _ => None
  end.
Fixpoint b64_decode (s : bytes) : option bytes :=
  match s with
  | [] => Some []
  | [a; b] => b64_tail2 a b
  | [a; b; c] => if c =? 61 then b64_tail2 a b else b64_tail3 a b c
  | a :: b :: c :: d :: r =>
      match r with
      | [] =>
          if d =? 61 then (if c =? 61 then b64_tail2 a b else b64_tail3 a b c)
          else match b64_val a, b64_val b, b64_val c, b64_val d with
               | Some p, Some q, Some t, Some u =>
                   Some [p * 4 + q / 16; (q mod 16) * 16 + t / 4; (t mod 4) * 64 + u]
               | _, _, _, _ => None
               end
      | _ =>
          match b64_val a, b64_val b, b64_val c, b64_val d, b64_decode r with
          | Some p, Some q, Some t, Some u, Some rest =>
              Some (p * 4 + q / 16 :: (q mod 16) * 16 + t / 4 :: (t mod 4) * 64 + u :: rest)
          | _, _, _, _, _ => None
          end
      end
  | _ => None                                     (* one symbol left over *)
  end.

(* ------------------------------------------------------------------------------ whitespace (char::is_whitespace) *)
(* number of bytes of the Unicode White_Space character at the head of a UTF-8 string, 0 if none:
   U+0009..000D, 0020, 0085, 00A0, 1680, 2000..200A, 2028, 2029, 202F, 205F, 3000 *)
Definition ws1 (c : N) : bool := ((9 <=? c) && (c <=? 13)) || (c =? 32).
Definition ws2 (c d : N) : bool := (c =? 194) && ((d =? 133) || (d =? 160)).
Definition ws3 (c d e : N) : bool :=
  ((c =? 225) && (d =? 154) && (e =? 128))
  || ((c =? 226) && (d =? 128) && (((128 <=? e) && (e <=? 138)) || (e =? 168) || (e =? 169) || (e =? 175)))
  || ((c =? 226) && (d =? 129) && (e =? 159))
  || ((c =? 227) && (d =? 128) && (e =? 128)).
Definition ws_head (s : bytes) : nat :=
  match s with
  | [] => 0%nat
  | c :: r =>
      if ws1 c then 1%nat
      else match r with
           | [] => 0%nat
           | d :: r2 =>
               if ws2 c d then 2%nat
               else match r2 with
                    | [] => 0%nat
                    | e :: _ => if ws3 c d e then 3%nat else 0%nat
                    end
           end
  end.
Definition starts_ws (s : bytes) : bool := negb (Nat.eqb (ws_head s) 0).
(* the last character is whitespace: match the patterns backwards (UTF-8 is self-synchronising) *)
Definition ends_ws (s : bytes) : bool :=
  match frev s with
  | [] => false
  | c :: r =>
      if ws1 c then true
      else match r with
           | [] => false
           | d :: r2 =>
               if ws2 d c then true
               else match r2 with
                    | [] => false
                    | e :: _ => ws3 e d c
                    end
           end
  end.
(* serializer_core.rs write_characters_or_cdata: has_outer_whitespace *)
Definition has_outer_ws (s : bytes) : bool := starts_ws s || ends_ws s.

(* `.chars().filter(|c| !c.is_whitespace())` *)
Fixpoint strip_ws_go (fuel : nat) (s : bytes) : bytes :=
  match fuel with
  | O => s
  | S f =>
      match s with
      | [] => []
      | c :: r =>
          match ws_head s with
          | O => c :: strip_ws_go f r
          | k => strip_ws_go f (skipn k s)
          end
      end
  end.
Definition strip_ws (s : bytes) : bytes := strip_ws_go (length s) s.

(* ------------------------------------------------------------------------------ writer helpers (serializer_core.rs) *)
Definition w_string (s : bytes) : list wevent := [if has_outer_ws s then WCData s else WChars s].   (* write_string / write_characters *)
Definition w_elem (tag : bytes) (inner : list wevent) : list wevent := WStart tag [] :: inner ++ [WEnd].
Definition w_tag_chars (tag : string) (s : bytes) : list wevent := w_elem (B tag) (w_string s).      (* write_tag_characters *)

(* numbers.rs float_type! write_xml *)
Definition F32_INF : f32 := 2139095040.        Definition F32_NINF : f32 := 4286578688.     Definition F32_NAN : f32 := 2143289344.
Definition F64_INF : f64 := 9218868437227405312.
Definition F64_NINF : f64 := 18442240474082181120.
Definition F64_NAN : f64 := 9221120237041090560.
Definition f64_is_nan (x : f64) : bool := 9218868437227405312 <? x mod 9223372036854775808.

Definition text_f32 (o : xoracle) (x : f32) : res bytes :=
  if x =? F32_INF then Ok (B "INF") else if x =? F32_NINF then Ok (B "-INF")
  else if f32_is_nan x then Ok (B "NAN") else ask (xo_show32 o x).
Definition text_f64 (o : xoracle) (x : f64) : res bytes :=
  if x =? F64_INF then Ok (B "INF") else if x =? F64_NINF then Ok (B "-INF")
  else if f64_is_nan x then Ok (B "NAN") else ask (xo_show64 o x).
Definition xw_f32 (o : xoracle) (x : f32) : res (list wevent) := t <- text_f32 o x ;; Ok (w_string t).
Definition xw_f64 (o : xoracle) (x : f64) : res (list wevent) := t <- text_f64 o x ;; Ok (w_string t).
(* write_characters(f32) / write_tag_characters(tag, f32): the `Display` text of the float itself, WITHOUT the
   INF / -INF / NAN spellings of f32::write_xml (so an infinity is written `inf`, a NaN `NaN`) *)
Definition xw_f32_display (o : xoracle) (x : f32) : res (list wevent) := t <- ask (xo_show32 o x) ;; Ok (w_string t).
Definition xw_f32_display_tag (o : xoracle) (tag : string) (x : f32) : res (list wevent) :=
  e <- xw_f32_display o x ;; Ok (w_elem (B tag) e).
(* write_value_in_tag(&f32, tag) *)
Definition xw_f32_tag (o : xoracle) (tag : string) (x : f32) : res (list wevent) :=
  e <- xw_f32 o x ;; Ok (w_elem (B tag) e).
Definition w_int_tag (tag : string) (z : Z) : list wevent := w_elem (B tag) (w_string (dec_of_Z z)).

Fixpoint concat_res {A} (l : list (res (list A))) : res (list A) :=
  match l with
  | [] => Ok []
  | r :: rest => a <- r ;; b <- concat_res rest ;; Ok (a ++ b)
  end.

Definition w_vec3 (o : xoracle) (v : vec3) : res (list wevent) :=
  concat_res [xw_f32_tag o "X" (vx v); xw_f32_tag o "Y" (vy v); xw_f32_tag o "Z" (vz v)].
Definition w_vec2 (o : xoracle) (v : vec2) : res (list wevent) :=
  concat_res [xw_f32_tag o "X" (v2x v); xw_f32_tag o "Y" (v2y v)].
(* cframe.rs: write_tag_array over X Y Z R00..R22 (write_tag_characters: Display text) *)
Definition w_cframe (o : xoracle) (c : cframe) : res (list wevent) :=
  let p := cf_pos c in let m := cf_rot c in
  concat_res [xw_f32_display_tag o "X" (vx p); xw_f32_display_tag o "Y" (vy p); xw_f32_display_tag o "Z" (vz p);
              xw_f32_display_tag o "R00" (vx (mx m)); xw_f32_display_tag o "R01" (vy (mx m)); xw_f32_display_tag o "R02" (vz (mx m));
              xw_f32_display_tag o "R10" (vx (my m)); xw_f32_display_tag o "R11" (vy (my m)); xw_f32_display_tag o "R12" (vz (my m));
              xw_f32_display_tag o "R20" (vx (mz m)); xw_f32_display_tag o "R21" (vy (mz m)); xw_f32_display_tag o "R22" (vz (mz m))].

(* font.rs write_content *)
Definition w_content_tag (tag : string) (s : bytes) : list wevent :=
  w_elem (B tag) (match s with
                  | [] => w_elem (B "null") []
                  | _ => w_elem (B "url") (w_string s)
                  end).

Definition sp : wevent := WChars [32].

(* ------------------------------------------------------------------------------ write_xml per type *)
(* result: the element name (XML_TAG_NAME) and the events between the outer start and end element.
   None = the variant has no XmlType impl in declare_rbx_types! and no special arm in
   write_value_xml (Region3, Region3int16, EnumItem -> UnsupportedPropertyType), or needs serializer
   state (Ref, SharedString: handled in XmlFile.v). *)
Definition write_xml (o : xoracle) (v : value) : option (bytes * res (list wevent)) :=
  match v with
  | VAxes bits => Some (B "Axes", Ok (w_tag_chars "axes" (dec_of_N bits)))
  | VBinaryString b =>
      Some (B "BinaryString", Ok (match b with [] => [] | _ => [WCData (b64_encode b)] end))
  | VBool b => Some (B "bool", Ok [WChars (B (if b then "true" else "false"))])
  | VBrickColor n => Some (B "int", Ok (w_string (dec_of_N n)))               (* the number `as i32`, then i32::write_outer_xml *)
  | VCFrame c => Some (B "CoordinateFrame", w_cframe o c)
  | VColor3 r g b => Some (B "Color3", concat_res [xw_f32_tag o "R" r; xw_f32_tag o "G" g; xw_f32_tag o "B" b])
  | VColor3uint8 r g b => Some (B "Color3uint8", Ok [WChars (dec_of_N (b + g * 256 + r * 65536))])
  | VColorSequence kps =>
      Some (B "ColorSequence",
            concat_res (List.map (fun kp : f32 * (f32 * f32 * f32) =>
              let '(t, (r, g, b)) := kp in
              et <- xw_f32_display o t ;; er <- xw_f32_display o r ;; eg <- xw_f32_display o g ;; eb <- xw_f32_display o b ;;
              Ok (et ++ sp :: er ++ sp :: eg ++ sp :: eb ++ sp :: w_string [48] ++ [sp])) kps))
  | VContent c =>
      match c with
      | CNone => Some (B "Content", Ok (w_elem (B "null") []))
      | CUri u => Some (B "Content", Ok (w_elem (B "uri") (w_string u)))
      | CObject _ => Some (B "Content", Panic)                               (* todo!("ContentType {:?} is not yet supported") *)
      end
  | VContentId u =>
      Some (B "ContentId", Ok (match u with
                               | [] => w_elem (B "null") []
                               | _ => w_elem (B "url") (w_string u)
                               end))
  | VEnum n => Some (B "token", Ok (w_string (dec_of_N n)))
  | VFaces bits => Some (B "Faces", Ok (w_tag_chars "faces" (dec_of_N bits)))
  | VFloat32 x => Some (B "float", xw_f32 o x)
  | VFloat64 x => Some (B "double", xw_f64 o x)
  | VFont f =>
      Some (B "Font",
            Ok (w_content_tag "Family" (fo_family f)
                ++ w_elem (B "Weight") (w_string (dec_of_N (fo_weight f)))
                ++ w_tag_chars "Style" (B (if fo_style f =? 0 then "Normal" else "Italic"))
                ++ match fo_cached f with
                   | Some c => w_content_tag "CachedFaceId" c
                   | None => []
                   end))
  | VInt32 z => Some (B "int", Ok (w_string (dec_of_Z z)))
  | VInt64 z => Some (B "int64", Ok (w_string (dec_of_Z z)))
  | VNumberRange lo hi =>
      Some (B "NumberRange", a <- xw_f32_display o lo ;; b <- xw_f32_display o hi ;; Ok (a ++ sp :: b ++ [sp]))
  | VNumberSequence kps =>
      Some (B "NumberSequence",
            concat_res (List.map (fun kp : f32 * f32 * f32 =>
              let '(t, x, e) := kp in
              et <- xw_f32_display o t ;; ex <- xw_f32_display o x ;; ee <- xw_f32_display o e ;;
              Ok (et ++ sp :: ex ++ sp :: ee ++ [sp])) kps))
  | VOptionalCFrame c =>
      Some (B "OptionalCoordinateFrame",
            match c with
            | Some cf => e <- w_cframe o cf ;; Ok (w_elem (B "CFrame") e)
            | None => Ok []
            end)
  | VPhysicalProperties p =>
      Some (B "PhysicalProperties",
            match p with
            | None => Ok (w_elem (B "CustomPhysics") [WChars (B "false")])
            | Some pp =>
                rest <- concat_res [xw_f32_tag o "Density" (ph_density pp); xw_f32_tag o "Friction" (ph_friction pp);
                                    xw_f32_tag o "Elasticity" (ph_elasticity pp);
                                    xw_f32_tag o "FrictionWeight" (ph_friction_weight pp);
                                    xw_f32_tag o "ElasticityWeight" (ph_elasticity_weight pp)] ;;
                Ok (w_elem (B "CustomPhysics") [WChars (B "true")] ++ rest)
            end)
  | VRay orig dir =>
      Some (B "Ray", a <- w_vec3 o orig ;; b <- w_vec3 o dir ;; Ok (w_elem (B "origin") a ++ w_elem (B "direction") b))
  | VRect lo hi =>
      Some (B "Rect2D", a <- w_vec2 o lo ;; b <- w_vec2 o hi ;; Ok (w_elem (B "min") a ++ w_elem (B "max") b))
  | VSecurityCapabilities bits => Some (B "SecurityCapabilities", Ok (w_string (dec_of_N bits)))
  | VString s => Some (B "string", Ok (w_string s))
  | VUDim u =>
      Some (B "UDim", a <- xw_f32_tag o "S" (ud_scale u) ;; Ok (a ++ w_int_tag "O" (ud_offset u)))
  | VUDim2 x y =>
      Some (B "UDim2",
            a <- xw_f32_tag o "XS" (ud_scale x) ;; b <- xw_f32_tag o "YS" (ud_scale y) ;;
            Ok (a ++ w_int_tag "XO" (ud_offset x) ++ b ++ w_int_tag "YO" (ud_offset y)))
  | VUniqueId index time random => Some (B "UniqueId", Ok (w_string (uid_display index time random)))
  | VVector2 v => Some (B "Vector2", w_vec2 o v)
  | VVector2int16 x y => Some (B "Vector2int16", Ok (w_int_tag "X" x ++ w_int_tag "Y" y))
  | VVector3 v => Some (B "Vector3", w_vec3 o v)
  | VVector3int16 x y z => Some (B "Vector3int16", Ok (w_int_tag "X" x ++ w_int_tag "Y" y ++ w_int_tag "Z" z))
  (* tags.rs / attributes.rs / material_colors.rs: written as BinaryString through write_string *)
  | VTags ts => Some (B "BinaryString", Ok (w_string (b64_encode (Tags.tags_encode ts))))
  | VAttributes m =>
      Some (B "BinaryString",
            match attr_encode m with
            | Ok buf => Ok (w_string (b64_encode buf))
            | Err _ => Err EE_ATTR
            | Panic => Panic
            | OutOfFuel => OutOfFuel
            end)
  | VMaterialColors m => Some (B "BinaryString", Ok (w_string (b64_encode (matcol_encode m))))
  | VRef _ | VSharedString _ => None
  | VRegion3 _ _ | VRegion3int16 _ _ | VEnumItem _ _ => None
  end.

(* ------------------------------------------------------------------------------ reader (deserializer_core.rs) *)
Definition xrd (A : Type) := list revent -> res (A * list revent).
Definition xret {A} (a : A) : xrd A := fun s => Ok (a, s).
Definition xbind {A C} (p : xrd A) (f : A -> xrd C) : xrd C :=
  fun s => match p s with Ok (a, s') => f a s' | Panic => Panic | Err c => Err c | OutOfFuel => OutOfFuel end.
Definition xfail {A} (c : N) : xrd A := fun _ => Err c.
Definition xlift {A} (r : res A) : xrd A := fun s => match r with Ok a => Ok (a, s) | Panic => Panic | Err c => Err c | OutOfFuel => OutOfFuel end.
Notation "x <~ p ;; k" := (xbind p (fun x => k)) (at level 61, p at next level, right associativity).
Notation "' pat <~ p ;; k" := (xbind p (fun pat => k)) (at level 61, pat pattern, p at next level, right associativity).

(* expect_next *)
Definition x_next : xrd revent :=
  fun s => match s with
           | [] => Err DE_EOF
           | RError :: _ => Err DE_XML
           | e :: r => Ok (e, r)
           end.
(* expect_peek *)
Definition x_peek : xrd revent :=
  fun s => match s with
           | [] => Err DE_EOF
           | RError :: _ => Err DE_XML
           | e :: _ => Ok (e, s)
           end.
Definition x_expect_start (name : bytes) : xrd attrs :=
  e <~ x_next ;;
  match e with
  | RStart n a => if bytes_eqb n name then xret a else xfail DE_EVENT
  | _ => xfail DE_EVENT
  end.
Definition x_expect_end (name : bytes) : xrd unit :=
  e <~ x_next ;;
  match e with
  | REnd n => if bytes_eqb n name then xret tt else xfail DE_EVENT
  | _ => xfail DE_EVENT
  end.
(* read_characters: a maximal run of Characters / CData events, concatenated *)
Fixpoint x_chars_go (acc : bytes) (s : list revent) : res (bytes * list revent) :=
  match s with
  | RChars t :: r => x_chars_go (acc ++ t) r
  | RCData t :: r => x_chars_go (acc ++ t) r
  | RError :: _ => Err DE_XML
  | _ => Ok (acc, s)
  end.
Definition x_chars : xrd bytes := x_chars_go [].
(* read_base64_characters *)
Definition x_base64 : xrd bytes :=
  t <~ x_chars ;;
  match b64_decode (strip_ws t) with Some b => xret b | None => xfail DE_BASE64 end.
(* read_tag_contents *)
Definition x_tag_contents (name : string) : xrd bytes :=
  _ <~ x_expect_start (B name) ;; t <~ x_chars ;; _ <~ x_expect_end (B name) ;; xret t.
(* read_value_in_tag *)
Definition x_in_tag {A} (name : string) (p : xrd A) : xrd A :=
  _ <~ x_expect_start (B name) ;; v <~ p ;; _ <~ x_expect_end (B name) ;; xret v.
(* eat_unknown_tag *)
Fixpoint x_eat_go (depth : Z) (s : list revent) : res (unit * list revent) :=
  match s with
  | [] => Err DE_EOF
  | RError :: _ => Err DE_XML
  | RStart _ _ :: r => x_eat_go (depth + 1) r
  | REnd _ :: r => if (depth - 1 =? 0)%Z then Ok (tt, r) else x_eat_go (depth - 1) r
  | _ :: r => x_eat_go depth r
  end.
Definition x_eat_unknown : xrd unit := x_eat_go 0.

(* ------------------------------------------------------------------------------ read_xml per type *)
Definition r_f32 (o : xoracle) : xrd f32 :=
  t <~ x_chars ;;
  if bytes_eqb t (B "INF") then xret F32_INF else if bytes_eqb t (B "-INF") then xret F32_NINF
  else if bytes_eqb t (B "NAN") then xret F32_NAN
  else p <~ xlift (ask (xo_parse32 o t)) ;; match p with Some x => xret x | None => xfail DE_FLOAT end.
Definition r_f64 (o : xoracle) : xrd f64 :=
  t <~ x_chars ;;
  if bytes_eqb t (B "INF") then xret F64_INF else if bytes_eqb t (B "-INF") then xret F64_NINF
  else if bytes_eqb t (B "NAN") then xret F64_NAN
  else p <~ xlift (ask (xo_parse64 o t)) ;; match p with Some x => xret x | None => xfail DE_FLOAT end.
Definition r_int {A} (parse : bytes -> option A) : xrd A :=
  t <~ x_chars ;; match parse t with Some z => xret z | None => xfail DE_INT end.
Definition r_bool : xrd bool :=
  t <~ x_chars ;;
  if bytes_eqb t (B "true") then xret true else if bytes_eqb t (B "false") then xret false else xfail DE_CONTENT.

Definition r_vec3 (o : xoracle) : xrd vec3 :=
  x <~ x_in_tag "X" (r_f32 o) ;; y <~ x_in_tag "Y" (r_f32 o) ;; z <~ x_in_tag "Z" (r_f32 o) ;; xret (mkV3 x y z).
Definition r_vec2 (o : xoracle) : xrd vec2 :=
  x <~ x_in_tag "X" (r_f32 o) ;; y <~ x_in_tag "Y" (r_f32 o) ;; xret (mkV2 x y).
Definition r_cframe (o : xoracle) : xrd cframe :=
  x <~ x_in_tag "X" (r_f32 o) ;; y <~ x_in_tag "Y" (r_f32 o) ;; z <~ x_in_tag "Z" (r_f32 o) ;;
  r00 <~ x_in_tag "R00" (r_f32 o) ;; r01 <~ x_in_tag "R01" (r_f32 o) ;; r02 <~ x_in_tag "R02" (r_f32 o) ;;
  r10 <~ x_in_tag "R10" (r_f32 o) ;; r11 <~ x_in_tag "R11" (r_f32 o) ;; r12 <~ x_in_tag "R12" (r_f32 o) ;;
  r20 <~ x_in_tag "R20" (r_f32 o) ;; r21 <~ x_in_tag "R21" (r_f32 o) ;; r22 <~ x_in_tag "R22" (r_f32 o) ;;
  xret (mkCF (mkV3 x y z) (mkM3 (mkV3 r00 r01 r02) (mkV3 r10 r11 r12) (mkV3 r20 r21 r22))).

(* `contents.split(' ').filter(|s| !s.is_empty())` *)
Fixpoint split_sp_go (cur : bytes) (s : bytes) : list bytes :=
  match s with
  | [] => match cur with [] => [] | _ => [frev cur] end
  | c :: r => if c =? 32 then match cur with [] => split_sp_go [] r | _ => frev cur :: split_sp_go [] r end
              else split_sp_go (c :: cur) r
  end.
Definition split_sp (s : bytes) : list bytes := split_sp_go [] s.
(* `piece.parse::<f32>()`: the INF/NAN spellings of float_type! do NOT apply here *)
Definition piece_f32 (o : xoracle) (t : bytes) : res f32 :=
  p <- ask (xo_parse32 o t) ;; match p with Some x => Ok x | None => Err DE_FLOAT end.

(* number_sequence.rs read_xml: the iterator is lazy, so pieces are parsed one by one and the first bad piece
   or the first missing piece decides *)
Fixpoint r_nseq_go (o : xoracle) (ps : list bytes) : res (list (f32 * f32 * f32)) :=
      match ps with
      | [] => Ok []
      | t :: r1 =>
          tv <- piece_f32 o t ;;
          match r1 with
          | [] => Err DE_CONTENT
          | v :: r2 =>
              vv <- piece_f32 o v ;;
              match r2 with
              | [] => Err DE_CONTENT
              | e :: r3 => ev <- piece_f32 o e ;; rest <- r_nseq_go o r3 ;; Ok ((tv, vv, ev) :: rest)
              end
          end
      end.
Fixpoint r_cseq_go (o : xoracle) (ps : list bytes) : res (list (f32 * (f32 * f32 * f32))) :=
      match ps with
      | [] => Ok []
      | t :: r1 =>
          tv <- piece_f32 o t ;;
          match r1 with
          | [] => Err DE_CONTENT
          | r :: r2 =>
              rv <- piece_f32 o r ;;
              match r2 with
              | [] => Err DE_CONTENT
              | g :: r3 =>
                  gv <- piece_f32 o g ;;
                  match r3 with
                  | [] => Err DE_CONTENT
                  | b :: r4 =>
                      bv <- piece_f32 o b ;;
                      match r4 with
                      | [] => Err DE_CONTENT
                      | e :: r5 => _ <- piece_f32 o e ;; rest <- r_cseq_go o r5 ;; Ok ((tv, (rv, gv, bv)) :: rest)
                      end
                  end
              end
          end
      end.

(* content.rs / font.rs: <null/> | <url> (| <uri> for Content) *)
Definition r_content_inner (allow_uri : bool) : xrd bytes :=
  e <~ x_next ;;
  match e with
  | RStart n _ =>
      if bytes_eqb n (B "null") then _ <~ x_expect_end (B "null") ;; xret []
      else if bytes_eqb n (B "url") then t <~ x_chars ;; _ <~ x_expect_end (B "url") ;; xret t
      else if allow_uri && bytes_eqb n (B "uri") then t <~ x_chars ;; _ <~ x_expect_end (B "uri") ;; xret t
      else xfail DE_EVENT
  | _ => xfail DE_EVENT
  end.
(* Content::read_xml: <null> gives Content::none(); <url>/<uri> give Content::from_uri(text), even for an empty text *)
Definition r_content : xrd content :=
  e <~ x_next ;;
  match e with
  | RStart n _ =>
      if bytes_eqb n (B "null") then _ <~ x_expect_end (B "null") ;; xret CNone
      else if bytes_eqb n (B "url") then t <~ x_chars ;; _ <~ x_expect_end (B "url") ;; xret (CUri t)
      else if bytes_eqb n (B "uri") then t <~ x_chars ;; _ <~ x_expect_end (B "uri") ;; xret (CUri t)
      else xfail DE_EVENT
  | _ => xfail DE_EVENT
  end.
(* font.rs read_content *)
Definition r_font_content (tag : string) : xrd bytes :=
  e <~ x_next ;;
  match e with
  | RStart n _ =>
      if bytes_eqb n (B tag) then v <~ r_content_inner false ;; _ <~ x_expect_end (B tag) ;; xret v
      else xfail DE_EVENT
  | _ => xfail DE_EVENT
  end.
Definition font_weight_ok (w : N) : bool :=
  (w =? 100) || (w =? 200) || (w =? 300) || (w =? 400) || (w =? 500) || (w =? 600) || (w =? 700) || (w =? 800) || (w =? 900).
Definition FONT_DEFAULT : font := mkFont (B "rbxasset://fonts/families/SourceSansPro.json") 400 0 None.
Definition r_font : xrd font :=
  e <~ x_peek ;;
  match e with
  | REnd _ => xret FONT_DEFAULT                          (* patchwork fix for empty <Font> elements *)
  | _ =>
      family <~ r_font_content "Family" ;;
      w <~ x_in_tag "Weight" (r_int parse_u16) ;;
      st <~ x_tag_contents "Style" ;;
      e2 <~ x_peek ;;
      cached <~ match e2 with
                | RStart n _ => if bytes_eqb n (B "CachedFaceId")
                                then c <~ r_font_content "CachedFaceId" ;; xret (Some c)
                                else xret None
                | _ => xret None
                end ;;
      xret (mkFont family (if font_weight_ok w then w else 400)
                   (if bytes_eqb st (B "Italic") then 1 else 0) cached)
  end.

Definition unpack_color (p : N) : N * N * N := ((p / 65536) mod 256, (p / 256) mod 256, p mod 256).

(* what read_value_xml returns, before the deserializer's state is involved *)
Inductive rvalue :=
| RVal (v : value)
| RRefNull                      (* <Ref>null</Ref> *)
| RRef (referent : bytes)       (* add_referent_rewrite; the value is Ref::none() for now *)
| RShared (hash : bytes)        (* add_shared_string_rewrite; the value is BinaryString::new() for now *)
| RUnknownType.                 (* unknown_type_visited + eat_unknown_tag: Ok(None) *)

Definition outer {A} (tag : string) (p : xrd A) : xrd A := x_in_tag tag p.      (* read_outer_xml *)
Definition rv {A} (f : A -> value) (tag : string) (p : xrd A) : xrd rvalue := v <~ outer tag p ;; xret (RVal (f v)).

(* types/mod.rs read_value_xml: dispatch on the element name seen by peek *)
Definition read_value_xml (o : xoracle) (ty : bytes) : xrd rvalue :=
  let is s := bytes_eqb ty (B s) in
  if is "Axes" then
    rv VAxes "Axes" (t <~ x_tag_contents "axes" ;;
                     match parse_u8 t with
                     | Some b => if b <? 8 then xret b else xfail DE_CONTENT
                     | None => xfail DE_INT
                     end)
  else if is "BinaryString" then rv VBinaryString "BinaryString" x_base64
  else if is "bool" then rv VBool "bool" r_bool
  else if is "CoordinateFrame" then rv VCFrame "CoordinateFrame" (r_cframe o)
  else if is "Color3" then
    rv (fun c : f32 * f32 * f32 => let '(r, g, b) := c in VColor3 r g b) "Color3"
       (t <~ x_chars ;;
        match t with
        | [] => r <~ x_in_tag "R" (r_f32 o) ;; g <~ x_in_tag "G" (r_f32 o) ;; b <~ x_in_tag "B" (r_f32 o) ;; xret (r, g, b)
        | _ => match parse_u32 t with
               | Some p => let '(r, g, b) := unpack_color p in
                           rf <~ xlift (ask (xo_unit o r)) ;; gf <~ xlift (ask (xo_unit o g)) ;;
                           bf <~ xlift (ask (xo_unit o b)) ;; xret (rf, gf, bf)
               | None => xfail DE_INT
               end
        end)
  else if is "Color3uint8" then
    rv (fun c : N * N * N => let '(r, g, b) := c in VColor3uint8 r g b) "Color3uint8"
       (t <~ x_chars ;; match parse_u32 t with Some p => xret (unpack_color p) | None => xfail DE_INT end)
  else if is "ColorSequence" then
    rv VColorSequence "ColorSequence"
       (t <~ x_chars ;; let ps := split_sp t in
        kps <~ xlift (r_cseq_go o ps) ;;
        if (length kps <? 2)%nat then xfail DE_CONTENT else xret kps)
  else if is "Content" then rv VContent "Content" r_content
  else if is "ContentId" then rv VContentId "ContentId" (r_content_inner false)
  else if is "token" then rv VEnum "token" (r_int parse_u32)
  else if is "Faces" then
    rv VFaces "Faces" (t <~ x_tag_contents "faces" ;;
                       match parse_u8 t with
                       | Some b => if b <? 64 then xret b else xfail DE_CONTENT
                       | None => xfail DE_INT
                       end)
  else if is "float" then rv VFloat32 "float" (r_f32 o)
  else if is "double" then rv VFloat64 "double" (r_f64 o)
  else if is "Font" then rv VFont "Font" r_font
  else if is "int" then rv VInt32 "int" (r_int parse_i32)
  else if is "int64" then rv VInt64 "int64" (r_int parse_i64)
  else if is "NumberRange" then
    rv (fun p : f32 * f32 => VNumberRange (fst p) (snd p)) "NumberRange"
       (t <~ x_chars ;;
        match split_sp t with
        | [] => xfail DE_CONTENT                                  (* missing min value *)
        | a :: r1 =>
            lo <~ xlift (piece_f32 o a) ;;
            match r1 with
            | [] => xfail DE_CONTENT                              (* missing max value *)
            | b :: r2 =>
                hi <~ xlift (piece_f32 o b) ;;
                match r2 with
                | [] => xret (lo, hi)
                | _ :: _ => xfail DE_CONTENT                      (* too many values: `Some(_)` also matches a piece that fails to parse *)
                end
            end
        end)
  else if is "NumberSequence" then
    rv VNumberSequence "NumberSequence"
       (t <~ x_chars ;; let ps := split_sp t in
        kps <~ xlift (r_nseq_go o ps) ;;
        if (length kps <? 2)%nat then xfail DE_CONTENT else xret kps)
  else if is "OptionalCoordinateFrame" then
    rv VOptionalCFrame "OptionalCoordinateFrame"
       (e <~ x_peek ;;
        match e with
        | RStart n _ => if bytes_eqb n (B "CFrame") then c <~ x_in_tag "CFrame" (r_cframe o) ;; xret (Some c) else xret None
        | _ => xret None
        end)
  else if is "PhysicalProperties" then
    rv VPhysicalProperties "PhysicalProperties"
       (c <~ x_in_tag "CustomPhysics" r_bool ;;
        if c then
          d <~ x_in_tag "Density" (r_f32 o) ;; f <~ x_in_tag "Friction" (r_f32 o) ;;
          e <~ x_in_tag "Elasticity" (r_f32 o) ;; fw <~ x_in_tag "FrictionWeight" (r_f32 o) ;;
          ew <~ x_in_tag "ElasticityWeight" (r_f32 o) ;; xret (Some (mkPhys d f e fw ew))
        else xret None)
  else if is "Ray" then
    rv (fun p : vec3 * vec3 => VRay (fst p) (snd p)) "Ray"
       (a <~ x_in_tag "origin" (r_vec3 o) ;; b <~ x_in_tag "direction" (r_vec3 o) ;; xret (a, b))
  else if is "Rect2D" then
    rv (fun p : vec2 * vec2 => VRect (fst p) (snd p)) "Rect2D"
       (a <~ x_in_tag "min" (r_vec2 o) ;; b <~ x_in_tag "max" (r_vec2 o) ;; xret (a, b))
  else if is "SecurityCapabilities" then rv VSecurityCapabilities "SecurityCapabilities" (r_int parse_u64)
  else if is "string" then rv VString "string" x_chars
  else if is "UDim2" then
    rv (fun p : udim * udim => VUDim2 (fst p) (snd p)) "UDim2"
       (xs <~ x_in_tag "XS" (r_f32 o) ;; xo <~ x_in_tag "XO" (r_int parse_i32) ;;
        ys <~ x_in_tag "YS" (r_f32 o) ;; yo <~ x_in_tag "YO" (r_int parse_i32) ;;
        xret (mkUDim xs xo, mkUDim ys yo))
  else if is "UDim" then
    rv VUDim "UDim" (s <~ x_in_tag "S" (r_f32 o) ;; f <~ x_in_tag "O" (r_int parse_i32) ;; xret (mkUDim s f))
  else if is "UniqueId" then
    rv (fun u : N * N * Z => let '(index, time, random) := u in VUniqueId index time random) "UniqueId"
       (t <~ x_chars ;;
        match uid_from_str t with
        | Ok u => xret u
        | Err _ => xfail DE_TYPE
        | Panic => fun _ => Panic                                 (* &s[0..16] off a char boundary *)
        | OutOfFuel => fun _ => OutOfFuel
        end)
  else if is "Vector2" then rv VVector2 "Vector2" (r_vec2 o)
  else if is "Vector2int16" then
    rv (fun p : Z * Z => VVector2int16 (fst p) (snd p)) "Vector2int16"
       (x <~ x_in_tag "X" (r_int parse_i16) ;; y <~ x_in_tag "Y" (r_int parse_i16) ;; xret (x, y))
  else if is "Vector3" then rv VVector3 "Vector3" (r_vec3 o)
  else if is "Vector3int16" then
    rv (fun p : Z * Z * Z => let '(x, y, z) := p in VVector3int16 x y z) "Vector3int16"
       (x <~ x_in_tag "X" (r_int parse_i16) ;; y <~ x_in_tag "Y" (r_int parse_i16) ;;
        z <~ x_in_tag "Z" (r_int parse_i16) ;; xret (x, y, z))
  else if is "ProtectedString" then rv VString "ProtectedString" x_chars
  else if is "Ref" then                                           (* referent.rs read_ref *)
    t <~ x_tag_contents "Ref" ;; xret (if bytes_eqb t (B "null") then RRefNull else RRef t)
  else if is "SharedString" then                                  (* shared_string.rs read_shared_string *)
    t <~ x_tag_contents "SharedString" ;; xret (RShared t)
  else
    _ <~ x_eat_unknown ;; xret RUnknownType.

(* ------------------------------------------------------------------------------ conversion.rs *)
Definition XT_BinaryString : N := 1.   Definition XT_BrickColor : N := 3.    Definition XT_Color3uint8 : N := 6.
Definition XT_ContentId : N := 8.      Definition XT_Enum : N := 9.          Definition XT_Float64 : N := 12.
Definition XT_Int64 : N := 14.         Definition XT_Tags : N := 32.         Definition XT_Attributes : N := 33.
Definition XT_MaterialColors : N := 36.

(* ConvertVariant::try_convert_cow; Err DE_CONVERT stands for Err(message) (the caller wraps it into its own
   UnsupportedPropertyConversion error) *)
Definition try_convert (o : xoracle) (v : value) (target : N) : res value :=
  match v with
  | VInt32 z =>
      if target =? XT_Int64 then Ok (VInt64 z)
      else if target =? XT_BrickColor then
        if (0 <=? z)%Z && (z <=? 65535)%Z && brick_valid (Z.to_N z) then Ok (VBrickColor (Z.to_N z)) else Err DE_CONVERT
      else Ok v
  | VFloat32 x => if target =? XT_Float64 then Ok (VFloat64 (f64_of_f32 x)) else Ok v
  | VColor3 r g b =>
      if target =? XT_Color3uint8 then
        r' <- ask (xo_quant o r) ;; g' <- ask (xo_quant o g) ;; b' <- ask (xo_quant o b) ;; Ok (VColor3uint8 r' g' b')
      else Ok v
  | VBinaryString buf =>
      if target =? XT_Tags then
        match Tags.tags_decode buf with Ok ts => Ok (VTags ts) | Panic => Panic | OutOfFuel => OutOfFuel | Err _ => Err DE_CONVERT end
      else if target =? XT_Attributes then
        match attr_decode buf with
        | Ok m => Ok (VAttributes m)
        | Err _ => Ok v                                            (* warn, fall back to BinaryString *)
        | Panic => Panic
        | OutOfFuel => OutOfFuel
        end
      else if target =? XT_MaterialColors then
        match matcol_decode buf with Some m => Ok (VMaterialColors m) | None => Ok v end
      else Ok v
  | VEnumItem _ n => if target =? XT_Enum then Ok (VEnum n) else Ok v
  | VContent c =>
      if target =? XT_ContentId then
        match c with
        | CNone => Ok (VContentId [])
        | CUri u => Ok (VContentId u)
        | CObject _ => Err DE_CONVERT
        end
      else Ok v
  | _ => Ok v
  end.
