(* BrickColorTbl.v — layer L1: the functions `make_brick_color!` generates (rbx_types/src/brick_color.rs) over
   the table of its invocation, which is regenerated from the source (Gen/MigrationTables.v: numbers, colours and
   names in source order; Gen/Types17.v zips them).  An entry is (number, name, (r, g, b)); a BrickColor value
   is identified with its entry.  `from_number` and `from_name` are Rust `match`es: the FIRST arm that matches
   wins (names do collide; numbers cannot, they are enum discriminants).
   Also the small number<->variant tables of font.rs (FontWeight::from_u16/as_u16, FontStyle::from_u8/as_u8).
   Definitions only; Proofs/BrickColorFacts.v. *)
From RbxVerif Require Export Base Bytes Value.
From Coq Require Import String.
Open Scope N_scope.

Definition bc_entry := (N * bytes * (N * N * N))%type.
Definition bc_number (e : bc_entry) : N := fst (fst e).
Definition bc_name (e : bc_entry) : bytes := snd (fst e).          (* Display *)
Definition bc_to_color3uint8 (e : bc_entry) : N * N * N := snd e.

Fixpoint bc_from_number (t : list bc_entry) (n : N) : option bc_entry :=
  match t with
  | [] => None
  | e :: r => if bc_number e =? n then Some e else bc_from_number r n
  end.

Fixpoint bc_from_name (t : list bc_entry) (s : bytes) : option bc_entry :=
  match t with
  | [] => None
  | e :: r => if bytes_eqb s (bc_name e) then Some e else bc_from_name r s
  end.

(* assemble the table from the two generated lists (same source rows, same order: BrickColorFacts.brick_tables_aligned) *)
Fixpoint bc_zip (to_bytes : string -> bytes) (cols : list (N * (N * N * N))) (names : list (N * string)) : list bc_entry :=
  match cols, names with
  | (n, c) :: cr, (_, s) :: nr => (n, to_bytes s, c) :: bc_zip to_bytes cr nr
  | _, _ => []
  end.

(* ---- font.rs: `match` tables number -> variant and variant -> number (variants by name) ---- *)
Fixpoint num_to_variant (t : list (N * bytes)) (n : N) : option bytes :=
  match t with [] => None | (k, v) :: r => if k =? n then Some v else num_to_variant r n end.
Fixpoint variant_to_num (t : list (bytes * N)) (v : bytes) : option N :=
  match t with [] => None | (w, k) :: r => if bytes_eqb v w then Some k else variant_to_num r v end.
