(* MaterialColors.v — layer L1: rbx_types/src/material_colors.rs.  A MaterialColors is a
   BTreeMap<TerrainMaterials, Color3uint8> (sorted association list keyed by the material's discriminant);
   `get_color` falls back to the material's default colour.  The blob is 6 reserved zero bytes followed by
   the colour of every material in MATERIAL_ORDER (3 bytes each): 6 + 3*21 = 69 bytes.  `decode` requires
   exactly 69 bytes, skips the first two 3-byte chunks and inserts one entry per material (so a decoded
   value always has all 21 entries explicitly, and the reserved bytes are not kept).
   The table (name, default colour) in declaration order -- which is both the discriminant order and
   MATERIAL_ORDER, the macro builds both from one list -- is regenerated into Gen/Types17.v; the model takes
   it as an argument.  Definitions only; Proofs/MaterialColorsFacts.v. *)
From RbxVerif Require Export Base Bytes.
Open Scope N_scope.

Definition color := (N * N * N)%type.
Definition mat_table := list (bytes * color).
Definition mcolors := list (N * color).        (* sorted by key, keys unique *)

Definition ERR_MC_LEN : N := 30.               (* MaterialColorsError::WrongLength *)

Fixpoint index_from {A} (k : N) (l : list A) : list (N * A) :=
  match l with [] => [] | a :: r => (k, a) :: index_from (k + 1) r end.
(* MATERIAL_ORDER with each material's default colour *)
Definition mc_materials (T : mat_table) : list (N * color) := index_from 0 (List.map snd T).
Definition mc_order (T : mat_table) : list N := List.map fst (mc_materials T).

(* TerrainMaterials::default_color; None = not a material *)
Definition mc_default (T : mat_table) (mat : N) : option color := lookup mat (mc_materials T).

(* MaterialColors::get_color(material) *)
Definition mc_get (m : mcolors) (md : N * color) : color :=
  match lookup (fst md) m with Some c => c | None => snd md end.
Definition mc_get_color (T : mat_table) (m : mcolors) (mat : N) : option color :=
  match mc_default T mat with Some d => Some (mc_get m (mat, d)) | None => None end.

(* BTreeMap::insert *)
Fixpoint mc_insert (k : N) (c : color) (m : mcolors) : mcolors :=
  match m with
  | [] => [(k, c)]
  | (k', c') :: r => if k <? k' then (k, c) :: m
                     else if k =? k' then (k, c) :: r
                     else (k', c') :: mc_insert k c r
  end.

Definition c3 (c : color) : bytes := let '(r, g, b) := c in [r; g; b].

Definition mc_encode (T : mat_table) (m : mcolors) : bytes :=
  repeat 0 6 ++ flat_map (fun md => c3 (mc_get m md)) (mc_materials T).

(* buffer.chunks(3) *)
Fixpoint chunks3 (b : bytes) : list bytes :=
  match b with
  | [] => []
  | x :: y :: z :: r => [x; y; z] :: chunks3 r
  | rest => [rest]
  end.

(* the loop `for (material, color) in MATERIAL_ORDER.iter().zip(buffer.chunks(3).skip(2))`;
   `color[0], color[1], color[2]` panics on a short chunk (unreachable for 69 bytes: MaterialColorsFacts) *)
Fixpoint mc_fill (m : mcolors) (l : list (N * bytes)) : res mcolors :=
  match l with
  | [] => Ok m
  | (mat, [r; g; b]) :: rest => mc_fill (mc_insert mat (r, g, b) m) rest
  | (mat, r :: g :: b :: _ :: _) :: rest => mc_fill (mc_insert mat (r, g, b) m) rest
  | _ :: _ => Panic
  end.

Definition mc_decode (T : mat_table) (buf : bytes) : res mcolors :=
  if negb (Nat.eqb (length buf) 69) then Err ERR_MC_LEN
  else mc_fill [] (combine (mc_order T) (skipn 2 (chunks3 buf))).
