(* Utf8Lossy.v — layer L0: `String::from_utf8_lossy` (core::str::lossy::Utf8Chunks): every maximal
   ill-formed subsequence (the lead byte plus the continuation bytes accepted before the first
   offending byte) is replaced by one U+FFFD (EF BF BD).  Used by the binary decoder for String
   columns and instance names that are not UTF-8.  Definitions only. *)
From RbxVerif Require Export Base Bytes Utf8.
Open Scope N_scope.

Definition REPLACEMENT : bytes := [239; 191; 189].

(* second byte admissible after a 3-byte lead / 4-byte lead (Utf8Chunks::next, the `match (byte, safe_get(i))`) *)
Definition ok3 (x y : N) : bool :=
  (N.eqb x 224 && in_range 160 191 y) || (in_range 225 236 x && cont y) ||
  (N.eqb x 237 && in_range 128 159 y) || (in_range 238 239 x && cont y).
Definition ok4 (x y : N) : bool :=
  (N.eqb x 240 && in_range 144 191 y) || (in_range 241 243 x && cont y) || (N.eqb x 244 && in_range 128 143 y).

Fixpoint utf8_lossy (b : bytes) : bytes :=
  match b with
  | [] => []
  | x :: r =>
    if N.ltb x 128 then x :: utf8_lossy r
    else if in_range 194 223 x then                                   (* utf8_char_width = 2 *)
      match r with
      | y :: r2 => if cont y then x :: y :: utf8_lossy r2 else REPLACEMENT ++ utf8_lossy r
      | [] => REPLACEMENT
      end
    else if in_range 224 239 x then                                   (* width 3 *)
      match r with
      | y :: r2 =>
        if ok3 x y then
          match r2 with
          | z :: r3 => if cont z then x :: y :: z :: utf8_lossy r3 else REPLACEMENT ++ utf8_lossy r2
          | [] => REPLACEMENT
          end
        else REPLACEMENT ++ utf8_lossy r
      | [] => REPLACEMENT
      end
    else if in_range 240 244 x then                                   (* width 4 *)
      match r with
      | y :: r2 =>
        if ok4 x y then
          match r2 with
          | z :: r3 =>
            if cont z then
              match r3 with
              | w :: r4 => if cont w then x :: y :: z :: w :: utf8_lossy r4 else REPLACEMENT ++ utf8_lossy r3
              | [] => REPLACEMENT
              end
            else REPLACEMENT ++ utf8_lossy r2
          | [] => REPLACEMENT
          end
        else REPLACEMENT ++ utf8_lossy r
      | [] => REPLACEMENT
      end
    else REPLACEMENT ++ utf8_lossy r                                  (* width 0: 80..C1, F5..FF *)
  end.
