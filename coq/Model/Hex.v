(* Hex.v — layer L0: hexadecimal text forms.
   * `fmt_hex w n`      Rust's `{:0wx}` of an unsigned integer: lower case, zero padded to `w` digits,
                        longer when the value needs more digits (core::fmt LowerHex + pad_integral).
   * `parse_hex_u`      `uN::from_str_radix(s, 16)`; `parse_hex_i64` = `i64::from_str_radix(s, 16)`
                        (core::num::from_ascii_radix): empty string -> Empty; a lone "+" or "-" ->
                        InvalidDigit; one leading "+" is accepted, a leading "-" only by signed types
                        (for unsigned types it is an invalid digit); digits 0-9 a-f A-F; in each step the digit
                        is examined before the overflow of that step is reported, so the first offending
                        character decides the error.
   * `ref_display`/`ref_from_str`   rbx_types/src/referent.rs  (Display `{:032x}`, FromStr `u128::from_str_radix`)
   * `uid_display`/`uid_from_str`   rbx_types/src/unique_id.rs (Display `{:016x}{:08x}{:08x}` of random, time,
                        index; FromStr: `s.len() == 32 && s.is_ascii()` (BYTES), then
                        `u64::from_str_radix(&s[0..16], 16)? as i64`, `&s[16..24]`, `&s[24..32]` as u32 -- a str slice
                        panics when an end is not a char boundary: the model keeps that check and
                        HexFacts.uid_from_str_no_panic shows that the ASCII guard makes it unreachable).
                        `uid_from_str_pinned` is the code before /repo commit 680c0119 (no ASCII guard,
                        `i64::from_str_radix`), kept for the refutation witnesses.
   Strings are byte lists (the UTF-8 bytes of the Rust `&str`).  Definitions only; lemmas and the round-trip
   theorems are in Proofs/HexFacts.v. *)
From RbxVerif Require Export Base Bytes.
Open Scope N_scope.

(* ---- formatting ---- *)
(* ASCII of one hex digit, lower case *)
Definition hex_digit (d : N) : N := if d <? 10 then 48 + d else 87 + d.

(* digits of n, least significant first, at least one (the loop of core::fmt: `do { n % 16; n /= 16 } while n != 0`);
   the fuel is the bit length + 1, which always suffices (HexFacts.hex_rev_value) *)
Fixpoint hex_rev (fuel : nat) (n : N) : list N :=
  match fuel with
  | O => []
  | S k => (n mod 16) :: (if n / 16 =? 0 then [] else hex_rev k (n / 16))
  end.
Definition hex_min (n : N) : list N := rev (hex_rev (S (N.size_nat n)) n).

Definition fmt_hex (width : nat) (n : N) : bytes :=
  let ds := hex_min n in
  List.map hex_digit (repeat 0 (width - length ds) ++ ds).

(* ---- parsing ---- *)
(* std::num::IntErrorKind *)
Definition PIE_EMPTY : N := 1.
Definition PIE_INVALID : N := 2.
Definition PIE_POS : N := 3.
Definition PIE_NEG : N := 4.

(* (c as char).to_digit(16) *)
Definition digit_val (c : N) : option N :=
  if (48 <=? c) && (c <=? 57) then Some (c - 48)
  else if (97 <=? c) && (c <=? 102) then Some (c - 87)
  else if (65 <=? c) && (c <=? 70) then Some (c - 55)
  else None.

(* the digit loop on the magnitude: `hi` is the largest magnitude the type can hold on this side, `ovf` the
   error of this side (checked_mul then checked_add/checked_sub fail exactly when the new magnitude
   exceeds hi; the unchecked fast path of short strings cannot overflow, so it computes the same) *)
Fixpoint parse_digits (hi ovf acc : N) (s : bytes) : res N :=
  match s with
  | [] => Ok acc
  | c :: r =>
    match digit_val c with
    | None => Err PIE_INVALID
    | Some d => let acc' := acc * 16 + d in
                if hi <? acc' then Err ovf else parse_digits hi ovf acc' r
    end
  end.

Definition is_nil {A} (l : list A) : bool := match l with [] => true | _ => false end.

(* sign handling shared by all integer types: pos_hi/neg_hi are the magnitude bounds; the result is
   (is_negative, magnitude) *)
Definition parse_hex_gen (signed : bool) (pos_hi neg_hi : N) (s : bytes) : res (bool * N) :=
  match s with
  | [] => Err PIE_EMPTY
  | c :: r =>
    if ((c =? 43) || (c =? 45)) && is_nil r then Err PIE_INVALID              (* "+" or "-" alone *)
    else if c =? 43 then m <- parse_digits pos_hi PIE_POS 0 r ;; Ok (false, m)
    else if (c =? 45) && signed then m <- parse_digits neg_hi PIE_NEG 0 r ;; Ok (true, m)
    else m <- parse_digits pos_hi PIE_POS 0 s ;; Ok (false, m)
  end.

(* uN::from_str_radix(s, 16) *)
Definition parse_hex_u (bits : N) (s : bytes) : res N :=
  '(_, m) <- parse_hex_gen false (2 ^ bits - 1) 0 s ;; Ok m.

(* i64::from_str_radix(s, 16) *)
Definition parse_hex_i64 (s : bytes) : res Z :=
  '(neg, m) <- parse_hex_gen true 9223372036854775807 9223372036854775808 s ;;
  Ok (if neg then Z.opp (Z.of_N m) else Z.of_N m).

(* ---- Ref (a u128; 0 = Ref::none()) ---- *)
Definition ref_display (n : N) : bytes := fmt_hex 32 n.
Definition ref_from_str (s : bytes) : res N := parse_hex_u 128 s.

(* ---- UniqueId { index: u32, time: u32, random: i64 } ---- *)
Definition ERR_UID_LEN : N := 5.            (* UniqueIdError::FromStrBadLen *)

(* LowerHex of an i64 prints its two's complement bit pattern *)
Definition uid_display (index time : N) (random : Z) : bytes :=
  fmt_hex 16 (wrap_u 64 random) ++ fmt_hex 8 time ++ fmt_hex 8 index.

(* str::is_char_boundary(i) for 0 < i <= len *)
Definition is_char_boundary (s : bytes) (i : nat) : bool :=
  match nth_opt i s with
  | Some b => (b <? 128) || (192 <=? b)       (* not a continuation byte: (b as i8) >= -0x40 *)
  | None => Nat.eqb i (length s)
  end.
Definition slice (s : bytes) (a b : nat) : bytes := firstn (b - a) (skipn a s).

(* str::is_ascii *)
Definition is_ascii (s : bytes) : bool := forallb (fun b => b <? 128) s.

(* UniqueId::from_str as of /repo commit 680c0119 (and HEAD): `s.len() == 32 && s.is_ascii()`, else FromStrBadLen.
   Fields are evaluated in the order written in the struct literal: random, time, index.  `random` is read as the
   64-bit pattern that Display printed (`u64::from_str_radix`) and reinterpreted (`as i64` = wrap_s 64).  The
   `&s[a..b]` slices keep their char-boundary panic (Rust semantics of str indexing); after the `is_ascii` guard
   no boundary test can fail: HexFacts.uid_from_str_no_panic. *)
Definition uid_from_str (s : bytes) : res (N * N * Z) :=
  if Nat.eqb (length s) 32 && is_ascii s then
    if negb (is_char_boundary s 16) then Panic else
    random <- parse_hex_u 64 (slice s 0 16) ;;
    if negb (is_char_boundary s 24) then Panic else
    time <- parse_hex_u 32 (slice s 16 24) ;;
    index <- parse_hex_u 32 (slice s 24 32) ;;
    Ok (index, time, wrap_s 64 random)
  else Err ERR_UID_LEN.

(* UniqueId::from_str BEFORE /repo commit 680c0119 (the pinned code the framework was first run on): the length
   test was `s.len() == 32` alone and `random` was parsed with `i64::from_str_radix`.  Two defects, both witnessed
   in HexFacts: every negative `random` fails to parse back (uid_text_negative_fails, uid_text_refuted), and a
   32-byte string with a multi-byte character across byte 16 or 24 panics (uid_pinned_panics).  Kept for the
   record only: not extracted, not compared with the implementation, not used by any other model. *)
Definition uid_from_str_pinned (s : bytes) : res (N * N * Z) :=
  if Nat.eqb (length s) 32 then
    if negb (is_char_boundary s 16) then Panic else
    random <- parse_hex_i64 (slice s 0 16) ;;
    if negb (is_char_boundary s 24) then Panic else
    time <- parse_hex_u 32 (slice s 16 24) ;;
    index <- parse_hex_u 32 (slice s 24 32) ;;
    Ok (index, time, random)
  else Err ERR_UID_LEN.
