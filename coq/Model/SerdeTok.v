(* SerdeTok.v — the serde DATA MODEL as a token stream: what a `Serialize` impl says to a `Serializer` and what a
   `Deserializer` presents to a `Deserialize` impl, independent of any concrete format (JSON, bincode, MessagePack are
   functions from / to such streams; they are exercised, not modelled).  The harness records these tokens from the real impls
   (harness/src/serdetok.rs: a recording Serializer and a replaying Deserializer with `is_human_readable` as a parameter) and
   prints them in the text form given beside each constructor; ocaml/run_serdetok.ml prints the model's tokens the same way.
   Definitions only. *)
From RbxVerif Require Export Base Bytes.

Inductive tok :=
| TBool (b : bool)                         (* b0 / b1 *)
| TU8 (n : N) | TU16 (n : N) | TU32 (n : N) | TU64 (n : N) | TU128 (n : N)     (* u8:<dec> ... u128:<dec> *)
| TI8 (z : Z) | TI16 (z : Z) | TI32 (z : Z) | TI64 (z : Z)                    (* i8:<dec> ... *)
| TF32 (bits : N) | TF64 (bits : N)        (* f32:<hex bits> f64:<hex bits> *)
| TStr (s : bytes)                         (* s:<hex of the UTF-8 bytes, `-` when empty> *)
| TBytes (b : bytes)                       (* y:<hex, `-` when empty> *)
| TNone | TSome | TUnit                    (* none some unit *)
| TSeq (len : option N) | TSeqEnd          (* seq:<dec or -> end *)
| TTuple (len : N) | TTupleEnd             (* tup:<dec> tend *)
| TMap (len : option N) | TMapEnd          (* map:<dec or -> mend *)
| TStruct (name : bytes) (len : N)         (* st:<name>:<dec> *)
| TField (name : bytes)                    (* f:<name> *)
| TStructEnd                               (* send *)
| TUnitVariant (enum : bytes) (idx : N) (variant : bytes)          (* uv:<enum>:<idx>:<variant> *)
| TNewtypeVariant (enum : bytes) (idx : N) (variant : bytes)       (* nv:<enum>:<idx>:<variant> *)
| TStructVariant (enum : bytes) (idx : N) (variant : bytes) (len : N) | TStructVariantEnd   (* sv:<enum>:<idx>:<variant>:<len> svend *)
| TTupleVariant (enum : bytes) (idx : N) (variant : bytes) (len : N) | TTupleVariantEnd     (* tv:... tvend *)
| TNewtypeStruct (name : bytes).           (* ns:<name> *)

(* the two presentation modes of serde: Serializer::is_human_readable / Deserializer::is_human_readable *)
Inductive smode := Human | Compact.
