(* Utf8.v — layer L0: validity of a byte string as UTF-8, as decided by Rust's `String::from_utf8`
   (well-formed byte sequences of Unicode table 3-7: no overlong forms, no surrogates, at most
   U+10FFFF).  Validated against the implementation by the attr correspondence (attribute names,
   font families, enum names, with hostile bytes planted by the generator).  Definitions only. *)
From RbxVerif Require Export Base Bytes.
Open Scope N_scope.

Definition in_range (lo hi x : N) : bool := N.leb lo x && N.leb x hi.
Definition cont (x : N) : bool := in_range 128 191 x.          (* 80..BF *)

Fixpoint utf8_valid (b : bytes) : bool :=
  match b with
  | [] => true
  | x :: r =>
    if N.ltb x 128 then utf8_valid r                                         (* 00..7F *)
    else if in_range 194 223 x then                                          (* C2..DF 80..BF *)
      match r with y :: r2 => cont y && utf8_valid r2 | _ => false end
    else if N.eqb x 224 then                                                 (* E0 A0..BF 80..BF *)
      match r with y :: z :: r3 => in_range 160 191 y && cont z && utf8_valid r3 | _ => false end
    else if in_range 225 236 x || in_range 238 239 x then                    (* E1..EC, EE..EF *)
      match r with y :: z :: r3 => cont y && cont z && utf8_valid r3 | _ => false end
    else if N.eqb x 237 then                                                 (* ED 80..9F 80..BF *)
      match r with y :: z :: r3 => in_range 128 159 y && cont z && utf8_valid r3 | _ => false end
    else if N.eqb x 240 then                                                 (* F0 90..BF 80..BF 80..BF *)
      match r with y :: z :: w :: r4 => in_range 144 191 y && cont z && cont w && utf8_valid r4 | _ => false end
    else if in_range 241 243 x then                                          (* F1..F3 *)
      match r with y :: z :: w :: r4 => cont y && cont z && cont w && utf8_valid r4 | _ => false end
    else if N.eqb x 244 then                                                 (* F4 80..8F 80..BF 80..BF *)
      match r with y :: z :: w :: r4 => in_range 128 143 y && cont z && cont w && utf8_valid r4 | _ => false end
    else false
  end.
