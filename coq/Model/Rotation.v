(* Rotation.v — layer L1: rbx_types/src/basic_types.rs `approx_unit_or_zero`, `Vector3::to_normal_id`,
   `Matrix3::{transpose, to_basic_rotation_id, from_basic_rotation_id}` on f32 BIT PATTERNS.
   Float comparisons are replaced by integer thresholds on the magnitude bits (DESIGN.md A7):
     |v| <= f32::EPSILON        iff  abs-bits <= 0x34000000                    (v not NaN)
     (|v| - 1.0).abs() <= EPS   iff  0x3F7FFFFE <= abs-bits <= 0x3F800001      (v not NaN; the code since 66cfd56a)
     |v| - 1.0 <= f32::EPSILON  iff  abs-bits <= 0x3F800001                    (the test before the repair)
   and every comparison with a NaN is false.  The thresholds are validated against the real function
   through `Vector3::to_normal_id` by `rbxverif attr-sweep` (all exponent boundaries, 2M random
   patterns; all 2^32 patterns with --thorough) and by the `vec3`/`rot` cases of the attr correspondence.
   Used by the attribute codec (Attr.v) and the binary CFrame codec.  Definitions only. *)
From RbxVerif Require Export Base Bytes Value.
Open Scope N_scope.

Definition F32_EPSILON_BITS : N := 0x34000000.      (* f32::EPSILON = 2^-23 *)
Definition F32_ONE_PLUS_ULP : N := 0x3F800001.      (* 1 + 2^-23 *)
Definition F32_ONE_MINUS_EPS : N := 0x3F7FFFFE.     (* 1 - 2^-23 *)

(* fn approx_unit_or_zero(value: f32) -> Option<i32>      [since /repo commit 66cfd56a]
     if value.abs() <= f32::EPSILON { Some(0) }
     else if (value.abs() - 1.0).abs() <= f32::EPSILON { Some(1.0f32.copysign(value) as i32) }
     else { None } *)
Definition approx_unit_or_zero (v : f32) : option Z :=
  let a := f32_abs_bits v in
  if f32_is_nan v then None
  else if N.leb a F32_EPSILON_BITS then Some 0%Z
  else if N.leb F32_ONE_MINUS_EPS a && N.leb a F32_ONE_PLUS_ULP then Some (if f32_sign v then (-1)%Z else 1%Z)
  else None.
(* name used while the repair was pending *)
Definition approx_unit_or_zero_fixed : f32 -> option Z := approx_unit_or_zero.

(* the function as it was before commit 66cfd56a (second test `value.abs() - 1.0 <= f32::EPSILON`, true for
   every |value| <= 1 + ulp); not used by the model, only by the refutation witness in RotationFacts *)
Definition approx_unit_or_zero_pinned (v : f32) : option Z :=
  let a := f32_abs_bits v in
  if f32_is_nan v then None
  else if N.leb a F32_EPSILON_BITS then Some 0%Z
  else if N.leb a F32_ONE_PLUS_ULP then Some (if f32_sign v then (-1)%Z else 1%Z)
  else None.

(* fn get_normal_id(position: u8, value: i32) -> Option<u8>   (local to to_normal_id) *)
Definition get_normal_id (position : N) (value : Z) : option N :=
  match value with
  | 1%Z => Some position
  | (-1)%Z => Some (position + 3)
  | _ => None
  end.

(* Vector3::to_normal_id, parameterised by the approx function so that the pre-repair variant can be
   stated; [to_normal_id] is the instance of the current code *)
Definition to_normal_id_with (approx : f32 -> option Z) (v : vec3) : option N :=
  match approx (vx v), approx (vy v), approx (vz v) with
  | Some x, Some 0%Z, Some 0%Z => get_normal_id 0 x
  | Some 0%Z, Some y, Some 0%Z => get_normal_id 1 y
  | Some 0%Z, Some 0%Z, Some z => get_normal_id 2 z
  | _, _, _ => None
  end.
Definition to_normal_id : vec3 -> option N := to_normal_id_with approx_unit_or_zero.

(* Matrix3::transpose *)
Definition transpose (m : mat3) : mat3 :=
  mkM3 (mkV3 (vx (mx m)) (vx (my m)) (vx (mz m)))
       (mkV3 (vy (mx m)) (vy (my m)) (vy (mz m)))
       (mkV3 (vz (mx m)) (vz (my m)) (vz (mz m))).

Definition m9 (a b c d e f g h i : f32) : mat3 := mkM3 (mkV3 a b c) (mkV3 d e f) (mkV3 g h i).
Definition mat3_identity : mat3 := m9 F32_ONE F32_ZERO F32_ZERO F32_ZERO F32_ONE F32_ZERO F32_ZERO F32_ZERO F32_ONE.

(* Matrix3::from_basic_rotation_id: the match arms in source order (transcribed mechanically);
   P = 1.0, M = -1.0, O = 0.0 *)
Definition rotation_table : list (N * mat3) :=
  let P := F32_ONE in let M := F32_NEG_ONE in let O := F32_ZERO in [
  (0x02, m9 P O O  O P O  O O P);
  (0x03, m9 P O O  O O M  O P O);
  (0x05, m9 P O O  O M O  O O M);
  (0x06, m9 P O O  O O P  O M O);
  (0x07, m9 O P O  P O O  O O M);
  (0x09, m9 O O P  P O O  O P O);
  (0x0a, m9 O M O  P O O  O O P);
  (0x0c, m9 O O M  P O O  O M O);
  (0x0d, m9 O P O  O O P  P O O);
  (0x0e, m9 O O M  O P O  P O O);
  (0x10, m9 O M O  O O M  P O O);
  (0x11, m9 O O P  O M O  P O O);
  (0x14, m9 M O O  O P O  O O M);
  (0x15, m9 M O O  O O P  O P O);
  (0x17, m9 M O O  O M O  O O P);
  (0x18, m9 M O O  O O M  O M O);
  (0x19, m9 O P O  M O O  O O P);
  (0x1b, m9 O O M  M O O  O P O);
  (0x1c, m9 O M O  M O O  O O M);
  (0x1e, m9 O O P  M O O  O M O);
  (0x1f, m9 O P O  O O M  M O O);
  (0x20, m9 O O P  O P O  M O O);
  (0x22, m9 O M O  O O P  M O O);
  (0x23, m9 O O M  O M O  M O O) ].

Fixpoint rot_lookup (id : N) (t : list (N * mat3)) : option mat3 :=
  match t with
  | [] => None
  | (k, m) :: r => if N.eqb id k then Some m else rot_lookup id r
  end.

(* None = Err(Matrix3Error::BadRotationId { id }) *)
Definition from_basic_rotation_id (id : N) : option mat3 := rot_lookup id rotation_table.

Definition rotation_ids : list N := List.map fst rotation_table.

(* Matrix3::to_basic_rotation_id
     let transpose = self.transpose();
     let x_id = transpose.x.to_normal_id()?; y_id ...; z_id ...;
     let basic_rotation_id = (6 * x_id) + y_id + 1;          // u8, at most 36: no overflow
     if Matrix3::from_basic_rotation_id(basic_rotation_id).ok()?.transpose().z.to_normal_id()? == z_id
       { Some(basic_rotation_id) } else { None } *)
Definition to_basic_rotation_id_with (approx : f32 -> option Z) (m : mat3) : option N :=
  let t := transpose m in
  match to_normal_id_with approx (mx t) with None => None | Some x_id =>
  match to_normal_id_with approx (my t) with None => None | Some y_id =>
  match to_normal_id_with approx (mz t) with None => None | Some z_id =>
    let basic_rotation_id := 6 * x_id + y_id + 1 in
    match from_basic_rotation_id basic_rotation_id with None => None | Some b =>
    match to_normal_id_with approx (mz (transpose b)) with None => None | Some z' =>
      if N.eqb z' z_id then Some basic_rotation_id else None
    end end
  end end end.
Definition to_basic_rotation_id : mat3 -> option N := to_basic_rotation_id_with approx_unit_or_zero.
