(* Attr.v — layer L9: the attribute blob codec of rbx_types/src/attributes/{mod,reader,writer,type_id}.rs
   (`Attributes::to_writer` = [attr_encode], `Attributes::from_reader` = [attr_decode]).
   Function by function transliteration; the Rust name is given beside each definition.
   An attribute map (BTreeMap<String, Variant>) is an association list sorted by [bytes_ltb] on the
   UTF-8 bytes of the names.  Wherever the Rust returns Err the model returns [Err code] with the codes
   below (the harness maps the real error to the same number); wherever it can panic the model says
   [Panic].  Not modelled: allocation failure (`Vec::with_capacity(size)` / `vec![0u8; size]` with an
   attacker-chosen 32-bit size abort the process when the allocator refuses; see the C13 finding
   `alloc-abort` recorded by harness/src/attr.rs) and partial output of a failing writer.
   Definitions only; theorems in Proofs/AttrFacts.v. *)
From RbxVerif Require Export Base Bytes Value Utf8 Rotation BrickColor.
Open Scope N_scope.

Definition amap := list (bytes * value).

(* ---- error codes: attributes/error.rs AttributeError, in declaration order ---- *)
Definition E_InvalidLength : N := 1.
Definition E_NoKey : N := 2.
Definition E_KeyBadUnicode : N := 3.
Definition E_NoValueType : N := 4.
Definition E_InvalidValueType (id : N) : N := 0x500 + id.
Definition E_UnsupportedRead : N := 6.                              (* reader's `other =>` arm *)
Definition E_InvalidBrickColor (n : N) : N := 0x700000000 + n.
Definition E_Io : N := 8.                                           (* `?` on an io::Error *)
Definition E_Utf8 : N := 9.                                         (* `?` on a FromUtf8Error (EnumItem) *)
Definition E_BadRotationId (id : N) : N := 0xA00 + id.              (* BadAttributeValue(Matrix3 error) *)
Definition E_FontFamily : N := 0xB.                                 (* FontBadUnicode { field: "family" } *)
Definition E_FontCached : N := 0xC.                                 (* FontBadUnicode { field: "cached_face_id" } *)
Definition E_ReadType (k : N) : N := 0x100 + k.                     (* ReadType(name), k = index below *)
Definition E_UnsupportedWrite (ty : N) : N := 0x200 + ty.           (* writer: UnsupportedVariantType(ty) *)

(* the &'static str arguments of AttributeError::ReadType, numbered in order of appearance in reader.rs
   (same table: harness/src/attr.rs READ_TYPES) *)
Definition RT_BrickColor : N := 0.      Definition RT_bool : N := 1.          Definition RT_Color3 : N := 2.
Definition RT_CSeq_length : N := 3.     Definition RT_CSeq_envelope : N := 4. Definition RT_CSeq_time : N := 5.
Definition RT_CSeq_color : N := 6.      Definition RT_int32 : N := 7.         Definition RT_float32 : N := 8.
Definition RT_float64 : N := 9.         Definition RT_NR_min : N := 10.       Definition RT_NR_max : N := 11.
Definition RT_NSeq_length : N := 12.    Definition RT_NSeq_envelope : N := 13. Definition RT_NSeq_time : N := 14.
Definition RT_NSeq_value : N := 15.     Definition RT_Rect_min : N := 16.     Definition RT_Rect_max : N := 17.
Definition RT_string : N := 18.         Definition RT_UDim : N := 19.         Definition RT_UDim2_X : N := 20.
Definition RT_UDim2_Y : N := 21.        Definition RT_V2_X : N := 22.         Definition RT_V2_Y : N := 23.
Definition RT_V3_X : N := 24.           Definition RT_V3_Y : N := 25.         Definition RT_V3_Z : N := 26.

(* ---- type_id.rs: the type_ids! table, (VariantType discriminant [vtype], type id) in source order ---- *)
Definition attr_type_ids : list (N * N) :=
  [ (1, 0x02)   (* BinaryString *) ; (2, 0x03)   (* Bool *)           ; (13, 0x04)  (* Int32 *)
  ; (11, 0x05)  (* Float32 *)      ; (12, 0x06)  (* Float64 *)        ; (25, 0x09)  (* UDim *)
  ; (26, 0x0A)  (* UDim2 *)        ; (3, 0x0E)   (* BrickColor *)     ; (5, 0x0F)   (* Color3 *)
  ; (27, 0x10)  (* Vector2 *)      ; (29, 0x11)  (* Vector3 *)        ; (4, 0x14)   (* CFrame *)
  ; (38, 0x15)  (* EnumItem *)     ; (16, 0x17)  (* NumberSequence *) ; (7, 0x19)   (* ColorSequence *)
  ; (15, 0x1B)  (* NumberRange *)  ; (19, 0x1C)  (* Rect *)           ; (34, 0x21)  (* Font *) ].

Definition VT_String : N := 24.

Fixpoint assoc_fst (k : N) (t : list (N * N)) : option N :=
  match t with [] => None | (a, b) :: r => if N.eqb k a then Some b else assoc_fst k r end.
Fixpoint assoc_snd (k : N) (t : list (N * N)) : option N :=
  match t with [] => None | (a, b) :: r => if N.eqb k b then Some a else assoc_snd k r end.

(* type_id::from_variant_type: the table, then `VariantType::String => Some(0x02)`, then `_ => None` *)
Definition from_variant_type (ty : N) : option N :=
  match assoc_fst ty attr_type_ids with
  | Some id => Some id
  | None => if N.eqb ty VT_String then Some 0x02 else None
  end.
(* type_id::to_variant_type *)
Definition to_variant_type (id : N) : option N := assoc_snd id attr_type_ids.

(* ======================================================================= writer.rs *)
Definition as_u32 (n : N) : N := n mod 4294967296.                 (* `len() as u32` *)

Definition write_u8 (n : N) : bytes := le_bytes 1 n.
Definition write_u16 (n : N) : bytes := le_bytes 2 n.
Definition write_u32 (n : N) : bytes := le_bytes 4 n.
Definition write_i32 (z : Z) : bytes := le_bytes 4 (i32_bits z).
Definition write_f32 (x : f32) : bytes := le_bytes 4 x.
Definition write_f64 (x : f64) : bytes := le_bytes 8 x.
(* write_string: write_u32(bytes.len() as u32); write_all(bytes) *)
Definition write_string (s : bytes) : bytes := write_u32 (as_u32 (N.of_nat (length s))) ++ s.
Definition write_color3 (r g b : f32) : bytes := write_f32 r ++ write_f32 g ++ write_f32 b.
Definition write_udim (u : udim) : bytes := write_f32 (ud_scale u) ++ write_i32 (ud_offset u).
Definition write_vector2 (v : vec2) : bytes := write_f32 (v2x v) ++ write_f32 (v2y v).
Definition write_vector3 (v : vec3) : bytes := write_f32 (vx v) ++ write_f32 (vy v) ++ write_f32 (vz v).

(* the `match variant { … }` of write_attributes *)
Definition write_value (v : value) : res bytes :=
  match v with
  | VBool b => Ok [if b then 1 else 0]                                  (* *bool as u8 *)
  | VBrickColor n => Ok (write_u32 n)                                   (* *color as u32 *)
  | VColor3 r g b => Ok (write_color3 r g b)
  | VColorSequence kps =>
      Ok (write_u32 (as_u32 (N.of_nat (length kps))) ++
          flat_map (fun kp => let '(t, (r, g, b)) := kp in
                              write_f32 F32_ZERO (* Envelope *) ++ write_f32 t ++ write_color3 r g b) kps)
  | VInt32 z => Ok (write_i32 z)
  | VFloat32 x => Ok (write_f32 x)
  | VFloat64 x => Ok (write_f64 x)
  | VNumberRange lo hi => Ok (write_f32 lo ++ write_f32 hi)
  | VNumberSequence kps =>
      Ok (write_u32 (as_u32 (N.of_nat (length kps))) ++
          flat_map (fun kp => let '(t, v, e) := kp in write_f32 e ++ write_f32 t ++ write_f32 v) kps)
  | VRect lo hi => Ok (write_vector2 lo ++ write_vector2 hi)
  | VBinaryString s => Ok (write_string s)
  | VString s => Ok (write_string s)
  | VUDim u => Ok (write_udim u)
  | VUDim2 x y => Ok (write_udim x ++ write_udim y)
  | VVector2 v => Ok (write_vector2 v)
  | VVector3 v => Ok (write_f32 (vx v) ++ write_f32 (vy v) ++ write_f32 (vz v))
  | VCFrame c =>
      Ok (write_vector3 (cf_pos c) ++
          match to_basic_rotation_id (cf_rot c) with
          | Some rotation_id => write_u8 rotation_id
          | None => write_u8 0 ++ write_vector3 (mx (cf_rot c)) ++ write_vector3 (my (cf_rot c)) ++ write_vector3 (mz (cf_rot c))
          end)
  | VFont f =>
      Ok (write_u16 (fo_weight f) ++ write_u8 (fo_style f) ++ write_string (fo_family f) ++
          write_string (match fo_cached f with Some s => s | None => [] end))   (* as_deref().unwrap_or_default() *)
  | VEnumItem ty n => Ok (write_string ty ++ write_u32 n)
  | _ => Panic                                                          (* unreachable!("variant … was not implemented") *)
  end.

(* one iteration of `for (name, variant) in map` *)
Definition write_entry (e : bytes * value) : res bytes :=
  let '(name, v) := e in
  match from_variant_type (vtype v) with
  | None => Err (E_UnsupportedWrite (vtype v))
  | Some id => body <- write_value v ;; Ok (write_string name ++ [id] ++ body)
  end.

Fixpoint write_entries (m : amap) : res bytes :=
  match m with
  | [] => Ok []
  | e :: r => a <- write_entry e ;; b <- write_entries r ;; Ok (a ++ b)
  end.

(* write_attributes / Attributes::to_writer *)
Definition attr_encode (m : amap) : res bytes :=
  match m with
  | [] => Ok []                                                         (* if map.is_empty() { return Ok(()) } *)
  | _ => body <- write_entries m ;; Ok (write_u32 (as_u32 (N.of_nat (length m))) ++ body)
  end.

(* ======================================================================= reader.rs *)
Notation "x <== p ;; k" := (pbind p (fun x => k)) (at level 61, p at next level, right associativity).

(* `.map_err(|_| code)` *)
Definition pmap_err {A} (c : N) (p : parser A) : parser A :=
  fun b => match p b with Err _ => Err c | r => r end.

Definition read_u16 : parser N := read_le 2.
Definition read_u32 : parser N := read_le 4.
Definition read_i32 : parser Z := read_le_i 4 32.
Definition read_f32 : parser f32 := read_le 4.
Definition read_f64 : parser f64 := read_le 8.

(* `let mut characters = vec![0u8; size]; reader.read_exact(&mut characters)?` for a 32-bit size: equal to
   [read_exact (N.to_nat size)] (AttrFacts.read_vec_spec); the comparison first keeps the extracted
   model from building a unary 2^32 *)
Definition read_vec (size : N) : parser bytes :=
  fun b => if N.ltb (N.of_nat (length b)) size then Err ERR_EOF else read_exact (N.to_nat size) b.
(* read_string *)
Definition read_string : parser bytes := size <== read_u32 ;; read_vec size.

Definition read_color3 : parser (f32 * f32 * f32) :=
  r <== read_f32 ;; g <== read_f32 ;; b <== read_f32 ;; pret (r, g, b).
Definition read_udim : parser udim := s <== read_f32 ;; o <== read_i32 ;; pret (mkUDim s o).
Definition read_vector2 : parser vec2 := x <== read_f32 ;; y <== read_f32 ;; pret (mkV2 x y).
Definition read_vector3 : parser vec3 := x <== read_f32 ;; y <== read_f32 ;; z <== read_f32 ;; pret (mkV3 x y z).

(* read_exact_or_none on a slice reader: nothing read => Ok(false); a short read => UnexpectedEof *)
Definition read_exact_or_none (n : nat) : parser (option bytes) :=
  fun b => match b with
           | [] => Ok (None, [])
           | _ => match take_n n b with Some (h, t) => Ok (Some h, t) | None => Err ERR_EOF end
           end.
(* read_option_u32 *)
Definition read_option_u32 : parser (option N) :=
  o <== read_exact_or_none 4 ;; pret (match o with Some h => Some (of_le h) | None => None end).

(* `for _ in 0..n { … }` with a 32-bit n read from the input: driven by N, the remaining input is the
   fuel (each iteration of the loops below consumes at least one byte or fails), so [OutOfFuel] is
   unreachable (AttrFacts) and no unary 2^32 is built *)
Fixpoint ploop {A} (fuel : nat) (n : N) (p : parser A) : parser (list A) :=
  fun b =>
    if N.eqb n 0 then Ok ([], b) else
    match fuel with
    | O => OutOfFuel
    | S f =>
      match p b with
      | Ok (a, b') =>
        match ploop f (N.pred n) p b' with
        | Ok (r, b'') => Ok (a :: r, b'')
        | Panic => Panic | Err c => Err c | OutOfFuel => OutOfFuel
        end
      | Panic => Panic | Err c => Err c | OutOfFuel => OutOfFuel
      end
    end.
Definition pfor {A} (n : N) (p : parser A) : parser (list A) := fun b => ploop (S (length b)) n p b.

(* String::from_utf8(buf).map_err(code) *)
Definition from_utf8 (buf : bytes) (code : N) : parser bytes :=
  fun b => if utf8_valid buf then Ok (buf, b) else Err code.

(* FontWeight::from_u16(weight).unwrap_or_default().as_u16() and FontStyle::from_u8(style).unwrap_or_default().as_u8() *)
Definition font_weights : list N := [100; 200; 300; 400; 500; 600; 700; 800; 900].
Definition font_weight_or_default (w : N) : N := if mem w font_weights then w else 400.
Definition font_style_or_default (s : N) : N := if N.leb s 1 then s else 0.

(* the `match ty { … }` of read_attributes; ty is a VariantType discriminant (Value.vtype) *)
Definition read_value (ty : N) : parser value :=
  match ty with
  | 3 (* BrickColor *) =>
      color <== pmap_err (E_ReadType RT_BrickColor) read_u32 ;;
      let n16 := color mod 65536 in                                   (* color as u16 *)
      if brick_valid n16 then pret (VBrickColor n16) else pfail (E_InvalidBrickColor color)
  | 2 (* Bool *) =>
      x <== pmap_err (E_ReadType RT_bool) read_u8 ;; pret (VBool (negb (N.eqb x 0)))
  | 5 (* Color3 *) =>
      c <== pmap_err (E_ReadType RT_Color3) read_color3 ;; let '(r, g, b) := c in pret (VColor3 r g b)
  | 7 (* ColorSequence *) =>
      size <== pmap_err (E_ReadType RT_CSeq_length) read_u32 ;;
      (* Vec::with_capacity(size as usize): not modelled (see header) *)
      kps <== pfor size (
        _envelope <== pmap_err (E_ReadType RT_CSeq_envelope) read_f32 ;;
        time <== pmap_err (E_ReadType RT_CSeq_time) read_f32 ;;
        color <== pmap_err (E_ReadType RT_CSeq_color) read_color3 ;;
        pret (time, color)) ;;
      pret (VColorSequence kps)
  | 13 (* Int32 *) => x <== pmap_err (E_ReadType RT_int32) read_i32 ;; pret (VInt32 x)
  | 11 (* Float32 *) => x <== pmap_err (E_ReadType RT_float32) read_f32 ;; pret (VFloat32 x)
  | 12 (* Float64 *) => x <== pmap_err (E_ReadType RT_float64) read_f64 ;; pret (VFloat64 x)
  | 15 (* NumberRange *) =>
      lo <== pmap_err (E_ReadType RT_NR_min) read_f32 ;;
      hi <== pmap_err (E_ReadType RT_NR_max) read_f32 ;; pret (VNumberRange lo hi)
  | 16 (* NumberSequence *) =>
      size <== pmap_err (E_ReadType RT_NSeq_length) read_u32 ;;
      kps <== pfor size (
        envelope <== pmap_err (E_ReadType RT_NSeq_envelope) read_f32 ;;
        time <== pmap_err (E_ReadType RT_NSeq_time) read_f32 ;;
        value <== pmap_err (E_ReadType RT_NSeq_value) read_f32 ;;
        pret (time, value, envelope)) ;;
      pret (VNumberSequence kps)
  | 19 (* Rect *) =>
      lo <== pmap_err (E_ReadType RT_Rect_min) read_vector2 ;;
      hi <== pmap_err (E_ReadType RT_Rect_max) read_vector2 ;; pret (VRect lo hi)
  | 1 (* BinaryString *) =>
      s <== pmap_err (E_ReadType RT_string) read_string ;; pret (VBinaryString s)
  | 25 (* UDim *) => u <== pmap_err (E_ReadType RT_UDim) read_udim ;; pret (VUDim u)
  | 26 (* UDim2 *) =>
      x <== pmap_err (E_ReadType RT_UDim2_X) read_udim ;;
      y <== pmap_err (E_ReadType RT_UDim2_Y) read_udim ;; pret (VUDim2 x y)
  | 27 (* Vector2 *) =>
      x <== pmap_err (E_ReadType RT_V2_X) read_f32 ;;
      y <== pmap_err (E_ReadType RT_V2_Y) read_f32 ;; pret (VVector2 (mkV2 x y))
  | 29 (* Vector3 *) =>
      x <== pmap_err (E_ReadType RT_V3_X) read_f32 ;;
      y <== pmap_err (E_ReadType RT_V3_Y) read_f32 ;;
      z <== pmap_err (E_ReadType RT_V3_Z) read_f32 ;; pret (VVector3 (mkV3 x y z))
  | 4 (* CFrame *) =>
      position <== pmap_err E_Io read_vector3 ;;
      rotation_id <== pmap_err E_Io read_u8 ;;
      if N.eqb rotation_id 0 then
        x <== pmap_err E_Io read_vector3 ;; y <== pmap_err E_Io read_vector3 ;; z <== pmap_err E_Io read_vector3 ;;
        pret (VCFrame (mkCF position (mkM3 x y z)))
      else
        match from_basic_rotation_id rotation_id with
        | Some rotation => pret (VCFrame (mkCF position rotation))
        | None => pfail (E_BadRotationId rotation_id)
        end
  | 34 (* Font *) =>
      weight <== pmap_err E_Io read_u16 ;;
      style <== pmap_err E_Io read_u8 ;;
      fbuf <== pmap_err E_Io read_string ;;
      family <== from_utf8 fbuf E_FontFamily ;;
      cbuf <== pmap_err E_Io read_string ;;
      cached <== (match cbuf with
                  | [] => pret None                                     (* if buf.is_empty() { None } *)
                  | _ => s <== from_utf8 cbuf E_FontCached ;; pret (Some s)
                  end) ;;
      pret (VFont (mkFont family (font_weight_or_default weight) (font_style_or_default style) cached))
  | 38 (* EnumItem *) =>
      enum_type <== pmap_err E_Io read_string ;;
      value <== pmap_err E_Io read_u32 ;;
      ty <== from_utf8 enum_type E_Utf8 ;;
      pret (VEnumItem ty value)
  | _ => pfail E_UnsupportedRead                                       (* other => Err(UnsupportedVariantType(other)) *)
  end.

(* BTreeMap::insert on the sorted association list: replaces the value of an equal key *)
Fixpoint amap_insert (k : bytes) (v : value) (m : amap) : amap :=
  match m with
  | [] => [(k, v)]
  | (k', v') :: r =>
    if bytes_ltb k k' then (k, v) :: m
    else if bytes_eqb k k' then (k, v) :: r
    else (k', v') :: amap_insert k v r
  end.

(* the body of `for _ in 0..len` up to (not including) `attributes.insert(key, value)` *)
Definition read_entry : parser (bytes * value) :=
  key_buf <== pmap_err E_NoKey read_string ;;
  key <== from_utf8 key_buf E_KeyBadUnicode ;;
  type_id <== pmap_err E_NoValueType read_u8 ;;
  match to_variant_type type_id with
  | None => pfail (E_InvalidValueType type_id)
  | Some ty => value <== read_value ty ;; pret (key, value)
  end.

Fixpoint read_entries (fuel : nat) (n : N) (attributes : amap) : parser amap :=
  fun b =>
    if N.eqb n 0 then Ok (attributes, b) else
    match fuel with
    | O => OutOfFuel
    | S f =>
      match read_entry b with
      | Ok ((key, value), b') => read_entries f (N.pred n) (amap_insert key value attributes) b'
      | Panic => Panic | Err c => Err c | OutOfFuel => OutOfFuel
      end
    end.

(* read_attributes *)
Definition read_attributes : parser amap :=
  fun b =>
    match read_option_u32 b with
    | Ok (Some len, b') => read_entries (S (length b')) len [] b'
    | Ok (None, b') => Ok ([], b')
    | Err _ => Err E_InvalidLength
    | Panic => Panic
    | OutOfFuel => OutOfFuel
    end.

(* Attributes::from_reader *)
Definition attr_decode (b : bytes) : res amap :=
  match read_attributes b with
  | Ok (m, _) => Ok m
  | Panic => Panic | Err c => Err c | OutOfFuel => OutOfFuel
  end.

(* ======================================================================= statement vocabulary *)
(* the permitted normalisation of a round trip *)
Definition norm_value (v : value) : value :=
  match v with
  | VString s => VBinaryString s
  | VFont f => match fo_cached f with
               | Some [] => VFont (mkFont (fo_family f) (fo_weight f) (fo_style f) None)
               | _ => v
               end
  | VCFrame c => match to_basic_rotation_id (cf_rot c) with
                 | Some id => match from_basic_rotation_id id with
                              | Some b => VCFrame (mkCF (cf_pos c) b)
                              | None => v
                              end
                 | None => v
                 end
  | _ => v
  end.
Definition norm (m : amap) : amap := List.map (fun e => (fst e, norm_value (snd e))) m.
