(* DbOwner.v — ReflectionDatabase::find_default_property observed together with the class that supplied the default
   (the nearest class of the superclass chain that has an entry).  Same control structure as Db.find_default_loop; the
   relation to Db.find_default is Proofs/DbOwnerFacts.v.  Definitions only. *)
From RbxVerif Require Export Db.
Open Scope N_scope.

Fixpoint find_default_owner_loop (fuel : nat) (d : db) (c : cdesc) (pn : string) : res (option (string * value)) :=
  match fuel with
  | O => OutOfFuel
  | S f =>
      match find_assoc (cd_defaults c) pn with
      | Some v => Ok (Some (cd_name c, v))
      | None =>
          match cd_super c with
          | None => Ok None
          | Some sn => match get_class d sn with
                       | None => Panic
                       | Some sc => find_default_owner_loop f d sc pn
                       end
          end
      end
  end.
Definition find_default_owner (d : db) (c : cdesc) (pn : string) : res (option (string * value)) :=
  find_default_owner_loop (S (length (db_classes d))) d c pn.

(* what the `lookup` correspondence prints: owner and variant type *)
Definition default_obs (d : db) (cn pn : string) : res (option (option (string * N))) :=
  match get_class d cn with
  | None => Ok None                                                  (* no such class *)
  | Some c => r <- find_default_owner d c pn ;;
              Ok (Some (match r with Some (o, v) => Some (o, vtype v) | None => None end))
  end.

(* ReflectionDatabase::superclasses / superclasses_iter observed as the list of class names, the class itself first;
   None = the class is not in the database *)
Definition chain_obs (d : db) (cn : string) : option (list string) :=
  match get_class d cn with
  | None => None
  | Some c => Some (List.map cd_name (superclasses (length (db_classes d)) d c))
  end.

