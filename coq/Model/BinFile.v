(* BinFile.v — layers L4/L6/L7 of the binary codec: the whole-file encoder and decoder of rbx_binary.
     encode_file   mirrors serializer/mod.rs `Serializer::serialize` + serializer/state.rs
                   (add_instances, collect_type_info, generate_referents, write_header,
                    serialize_shared_strings, serialize_instances, serialize_properties,
                    serialize_parents, serialize_end) + chunk.rs `ChunkBuilder::dump`
     decode_file   mirrors deserializer/mod.rs `Deserializer::deserialize` + header.rs + chunk.rs
                   `Chunk::decode` + deserializer/state.rs (decode_*_chunk, find_canonical_property,
                    add_property, finish) + WeakDom::insert's UniqueId collision rule
   The code is modelled AS IT IS in the working tree.  Hash-container iteration orders are explicit parameters:
   [i_props] of every instance is listed in the iteration order of `Instance.properties`, and
   [ep_order] gives the iteration order of a `PropInfo.aliases` set from its insertion sequence.
   External functions are parameters: compression, inflation, blake3 (SharedString hash, as a table),
   the Color3 -> Color3uint8 channel quantisation, the migration tables, the fresh UniqueId drawn on a
   collision.  Loops carry explicit fuel.  Definitions only. *)
From RbxVerif Require Export BinValues Db CodecDom.
Open Scope N_scope.

(* ========================================================================= shared helpers *)
Definition bstr (s : string) : bytes := bytes_of_string s.
Definition NAME : bytes := bstr "Name".
Definition UNIQUE_ID : bytes := bstr "UniqueId".

(* replace the value of an existing key in place (BTreeMap get_mut) *)
Fixpoint bset {V} (k : bytes) (v : V) (m : list (bytes * V)) : list (bytes * V) :=
  match m with
  | [] => []
  | (k', v') :: r => if bytes_eqb k k' then (k, v) :: r else (k', v') :: bset k v r
  end.
Definition bmem (k : bytes) (l : list bytes) : bool := existsb (bytes_eqb k) l.

Fixpoint zfind {V} (k : Z) (m : list (Z * V)) : option V :=
  match m with [] => None | (k', v) :: r => if Z.eqb k k' then Some v else zfind k r end.
Fixpoint zremove {V} (k : Z) (m : list (Z * V)) : list (Z * V) :=
  match m with [] => [] | (k', v) :: r => if Z.eqb k k' then zremove k r else (k', v) :: zremove k r end.
Definition zupd {V} (k : Z) (v : V) (m : list (Z * V)) : list (Z * V) := (k, v) :: zremove k m.

Definition dtype_vt (t : dtype) : N := match t with DValue vt => vt | DEnum _ => VT_Enum end.

(* core.rs constants *)
Definition FILE_MAGIC_HEADER : bytes := bstr "<roblox!".
Definition FILE_SIGNATURE : bytes := [0x89; 0xFF; 0x0D; 0x0A; 0x1A; 0x0A].
Definition FILE_FOOTER : bytes := bstr "</roblox>".
Definition CH_META : bytes := bstr "META".
Definition CH_SSTR : bytes := bstr "SSTR".
Definition CH_INST : bytes := bstr "INST".
Definition CH_PROP : bytes := bstr "PROP".
Definition CH_PRNT : bytes := bstr "PRNT".
Definition CH_END : bytes := [69; 78; 68; 0].           (* b"END\0" *)

(* ========================================================================= encoder *)
Record enc_params := mkEP {
  ep_font : font_table;                    (* migration.rs FontToFontFace *)
  ep_brick : brick_table;                  (* brick_color.rs number -> Color3uint8 *)
  ep_quant : f32 -> N;                     (* Color3 channel -> u8 *)
  ep_order : list bytes -> list bytes;     (* UstrSet iteration order of an alias set, from its insertion sequence *)
  ep_hash : list (bytes * bytes)           (* SharedString content -> blake3 hash *)
}.

Record prop_info := mkPI {
  pi_type : wire_type;                     (* prop_type *)
  pi_ser_name : bytes;                     (* serialized_name *)
  pi_aliases : list bytes;                 (* aliases, in insertion order *)
  pi_default : value;                      (* default_value *)
  pi_migration : option migop              (* migration *)
}.
Record type_info := mkTI {
  ti_id : N;                               (* type_id *)
  ti_service : bool;                       (* is_service *)
  ti_instances : list N;                   (* instances (their referents), in push order *)
  ti_props : list (bytes * prop_info);     (* properties: BTreeMap keyed by canonical name *)
  ti_class : option cdesc;                 (* class_descriptor *)
  ti_visited : list bytes                  (* properties_visited *)
}.
Record ser_state := mkSS {
  ss_relevant : list N;                    (* relevant_instances *)
  ss_types : list (bytes * type_info);     (* type_infos.values: BTreeMap keyed by class name *)
  ss_next_id : N;                          (* type_infos.next_type_id *)
  ss_sstr : list bytes                     (* shared_strings (= keys of shared_string_ids) in discovery order *)
}.
Definition ser_state0 : ser_state := mkSS [] [] 0 [].

(* SerializerState::fallback_default_value *)
Definition fallback_default_value (vt : N) : option value :=
  let z3 := mkV3 F32_ZERO F32_ZERO F32_ZERO in
  let ud0 := mkUDim F32_ZERO 0%Z in
  match vt with
  | 24 => Some (VString [])
  | 1 => Some (VBinaryString [])
  | 2 => Some (VBool false)
  | 13 => Some (VInt32 0%Z)
  | 11 => Some (VFloat32 F32_ZERO)
  | 12 => Some (VFloat64 0)
  | 25 => Some (VUDim ud0)
  | 26 => Some (VUDim2 ud0 ud0)
  | 18 => Some (VRay z3 z3)
  | 10 => Some (VFaces 0)
  | 0 => Some (VAxes 0)
  | 3 => Some (VBrickColor 194)                                    (* BrickColor::MediumStoneGrey *)
  | 4 => Some (VCFrame (mkCF z3 mat3_identity))
  | 9 => Some (VEnum 4294967295)                                   (* Enum::from_u32(u32::MAX) *)
  | 5 => Some (VColor3 F32_ZERO F32_ZERO F32_ZERO)
  | 27 => Some (VVector2 (mkV2 F32_ZERO F32_ZERO))
  | 29 => Some (VVector3 z3)
  | 20 => Some (VRef 0)
  | 30 => Some (VVector3int16 0%Z 0%Z 0%Z)
  | 16 => Some (VNumberSequence [(F32_ZERO, F32_ZERO, F32_ZERO); (F32_ZERO, F32_ZERO, F32_ZERO)])
  | 7 => Some (VColorSequence [(F32_ZERO, (F32_ZERO, F32_ZERO, F32_ZERO)); (F32_ZERO, (F32_ZERO, F32_ZERO, F32_ZERO))])
  | 15 => Some (VNumberRange F32_ZERO F32_ZERO)
  | 19 => Some (VRect (mkV2 F32_ZERO F32_ZERO) (mkV2 F32_ZERO F32_ZERO))
  | 17 => Some (VPhysicalProperties None)
  | 6 => Some (VColor3uint8 0 0 0)
  | 14 => Some (VInt64 0%Z)
  | 23 => Some (VSharedString [])
  | 31 => Some (VOptionalCFrame None)
  | 32 => Some (VTags [])
  | 8 => Some (VContentId [])
  | 33 => Some (VAttributes [])
  | 35 => Some (VUniqueId 0 0 0%Z)
  | 34 => Some (VFont (mkFont (bstr "rbxasset://fonts/families/SourceSansPro.json") 400 0 None))
  | 36 => Some (VMaterialColors [])
  | 37 => Some (VSecurityCapabilities 0)
  | 39 => Some (VContent CNone)
  | _ => None
  end.

(* TypeInfos::get_or_create: the fresh TypeInfo of a class seen for the first time *)
Definition new_type_info (d : db) (id : N) (class : bytes) : type_info :=
  let cd := get_class d (string_of_bytes class) in
  mkTI id
       (match cd with Some c => cd_service c | None => false end)
       []
       [(NAME, mkPI WString NAME [] (VString []) None)]
       cd
       [].

(* if let Variant::SharedString(s) = v { if !shared_string_ids.contains_key(s) { insert; push } } *)
Definition track_sstr (v : value) (ss : list bytes) : list bytes :=
  match v with
  | VSharedString s => if bmem s ss then ss else ss ++ [s]
  | _ => ss
  end.

(* what collect_type_info learns about one property name of a class *)
Inductive resolved :=
| RSkip                                                            (* `continue` *)
| RProp (canonical serialized : bytes) (ser_ty : N) (migration : option migop).

Definition resolve_prop (d : db) (class pname : bytes) (pvalue : value) : res resolved :=
  let cn := string_of_bytes class in
  r <- find_desc_bin d cn (string_of_bytes pname) ;;
  match r with
  | Some (canon, ser) =>
      match ser with
      | None => Ok RSkip                                           (* does not serialize *)
      | Some desc =>
          match pd_kind desc with
          | KCanon (PMigrate to op) =>
              (* look up the property it migrates to and use that property's descriptors *)
              r2 <- find_desc_bin d cn to ;;
              match r2 with
              | Some (c2, Some s2) =>
                  Ok (RProp (bstr (pd_name c2)) (bstr (pd_name s2)) (dtype_vt (pd_type s2)) (Some op))
              | _ => Ok RSkip
              end
          | _ => Ok (RProp (bstr (pd_name canon)) (bstr (pd_name desc)) (dtype_vt (pd_type desc)) None)
          end
      end
  | None => Ok (RProp pname pname (vtype pvalue) None)
  end.

(* the body of `for (prop_name, prop_value) in &instance.properties` *)
Definition cti_prop (d : db) (class : bytes) (acc : list bytes * type_info) (pv : bytes * value)
  : res (list bytes * type_info) :=
  let '(ss, ti) := acc in
  let '(pname, pvalue) := pv in
  let ss := track_sstr pvalue ss in
  if bmem pname (ti_visited ti) then Ok (ss, ti) else
  let ti := mkTI (ti_id ti) (ti_service ti) (ti_instances ti) (ti_props ti) (ti_class ti) (pname :: ti_visited ti) in
  r <- resolve_prop d class pname pvalue ;;
  match r with
  | RSkip => Ok (ss, ti)
  | RProp canonical serialized ser_ty migration =>
      r1 <- (match bfind canonical (ti_props ti) with
             | Some _ => Ok (ss, ti)
             | None =>
                 dbdef <- (match ti_class ti with
                           | Some c => find_default d c (string_of_bytes canonical)
                           | None => Ok None
                           end) ;;
                 match (match dbdef with Some v => Some v | None => fallback_default_value ser_ty end) with
                 | None => Err EE_UNSUPPORTED
                 | Some default_value =>
                     let ss := track_sstr default_value ss in
                     match from_rbx_type ser_ty with
                     | None => Err EE_UNSUPPORTED
                     | Some ser_type =>
                         Ok (ss, mkTI (ti_id ti) (ti_service ti) (ti_instances ti)
                                      (binsert (canonical, mkPI ser_type serialized [] default_value migration) (ti_props ti))
                                      (ti_class ti) (ti_visited ti))
                     end
                 end
             end) ;;
      let '(ss, ti) := r1 in
      if bytes_eqb pname canonical then Ok (ss, ti) else
      match bfind canonical (ti_props ti) with
      | None => Panic                                              (* type_info.properties.get_mut(&canonical_name).unwrap() *)
      | Some pi =>
          let aliases := if bmem pname (pi_aliases pi) then pi_aliases pi else pi_aliases pi ++ [pname] in
          (* if migration.is_some() { prop_info.migration = migration; } *)
          let pi' := mkPI (pi_type pi) (pi_ser_name pi) aliases (pi_default pi)
                          (match migration with Some _ => migration | None => pi_migration pi end) in
          Ok (ss, mkTI (ti_id ti) (ti_service ti) (ti_instances ti) (bset canonical pi' (ti_props ti))
                       (ti_class ti) (ti_visited ti))
      end
  end.

Fixpoint fold_res {A B} (f : A -> B -> res A) (a : A) (l : list B) : res A :=
  match l with
  | [] => Ok a
  | x :: r => a' <- f a x ;; fold_res f a' r
  end.

(* collect_type_info *)
Definition collect_type_info (d : db) (st : ser_state) (i : inst) : res ser_state :=
  let class := i_class i in
  let '(types, next, ti) :=
    match bfind class (ss_types st) with
    | Some ti => (ss_types st, ss_next_id st, ti)
    | None => let ti := new_type_info d (ss_next_id st) class in
              (binsert (class, ti) (ss_types st), ss_next_id st + 1, ti)
    end in
  let ti := mkTI (ti_id ti) (ti_service ti) (ti_instances ti ++ [i_ref i]) (ti_props ti) (ti_class ti) (ti_visited ti) in
  r <- fold_res (cti_prop d class) (ss_sstr st, ti) (i_props i) ;;
  let '(ss, ti) := r in
  Ok (mkSS (ss_relevant st) (bset class ti types) next ss).

Definition last_opt {A} (l : list A) : option A := match rev l with [] => None | x :: _ => Some x end.
Definition opt_eqb (a b : option N) : bool :=
  match a, b with Some x, Some y => N.eqb x y | None, None => true | _, _ => false end.
Definition is_nil {A} (l : list A) : bool := match l with [] => true | _ => false end.

(* add_instances: the two nested `while let Some(referent) = to_visit.last()` loops.
   [outer] = at the head of the outer loop; the stack's head is `to_visit.last()`. *)
Fixpoint add_loop (fuel : nat) (d : db) (dom : cdom) (outer : bool) (to_visit : list N)
                  (last_visited_child : option N) (st : ser_state) : res ser_state :=
  match fuel with
  | O => OutOfFuel
  | S f =>
      match to_visit with
      | [] => Ok st
      | referent :: rest =>
          match find_inst dom referent with
          | None => Err EE_INVALID_ID                              (* .ok_or(InnerError::InvalidInstanceId)? *)
          | Some instance =>
              let children := children_of dom referent in
              if outer then
                (* to_visit.extend(instance.children().iter().rev()) *)
                add_loop f d dom false (children ++ to_visit) last_visited_child st
              else if negb (is_nil children) && negb (opt_eqb (last_opt children) last_visited_child) then
                add_loop f d dom true to_visit last_visited_child st                       (* break *)
              else
                st1 <- collect_type_info d (mkSS (ss_relevant st ++ [referent]) (ss_types st) (ss_next_id st) (ss_sstr st)) instance ;;
                add_loop f d dom false rest (Some referent) st1                            (* last_visited_child = to_visit.pop() *)
          end
      end
  end.

(* shared_strings.sort_by_key(SharedString::hash): stable insertion sort on the supplied hashes *)
Definition sort_sstr (hash : list (bytes * bytes)) (ss : list bytes) : res (list bytes) :=
  keyed <- fold_res (fun acc s => match bfind s hash with
                                  | Some h => Ok (acc ++ [(h, s)])
                                  | None => Err E_HASH_ORDER
                                  end) [] ss ;;
  Ok (List.map snd (bsort keyed)).

Definition add_instances (d : db) (p : enc_params) (dom : cdom) (roots : list N) : res ser_state :=
  (* to_visit.extend(referents.iter().rev()) *)
  st <- add_loop (3 * (length dom + 1) * (length roots + 1)) d dom true roots None ser_state0 ;;
  ss <- sort_sstr (ep_hash p) (ss_sstr st) ;;
  Ok (mkSS (ss_relevant st) (ss_types st) (ss_next_id st) ss).

(* generate_referents: HashMap insert in order, so the last occurrence wins; next_referent.try_into().unwrap() *)
Fixpoint referent_table (next : Z) (l : list N) (acc : list (N * Z)) : list (N * Z) :=
  match l with
  | [] => acc
  | r :: rest => referent_table (next + 1) rest ((r, next) :: acc)
  end.

Fixpoint index_of (s : bytes) (l : list bytes) (k : N) : option N :=
  match l with
  | [] => None
  | x :: r => if bytes_eqb s x then Some k else index_of s r (k + 1)
  end.

(* ChunkBuilder::dump *)
Definition compression := option (bytes -> bytes).        (* None = CompressionType::None; Some f = LZ4 / Zstd *)
Definition frame_chunk (cmp : compression) (ch : bytes * bytes) : bytes :=
  let '(name, payload) := ch in
  match cmp with
  | None => name ++ w_le32 0 ++ w_le32 (len32 payload) ++ w_le32 0 ++ payload
  | Some f => let c := f payload in name ++ w_le32 (len32 c) ++ w_le32 (len32 payload) ++ w_le32 0 ++ c
  end.

(* the `values` iterator of serialize_properties for one instance *)
Definition prop_value (p : enc_params) (canon : bytes) (pi : prop_info) (aliases_in_order : list bytes) (i : inst) : value :=
  let raw :=
    if bytes_eqb canon NAME then VString (i_name i)
    else match bfind canon (i_props i) with
         | Some v => v
         | None =>
             match find (fun a => match bfind a (i_props i) with Some _ => true | None => false end) aliases_in_order with
             | Some a => match bfind a (i_props i) with Some v => v | None => pi_default pi end
             | None => pi_default pi
             end
         end in
  match pi_migration pi with
  | Some op => match migrate (ep_font p) (ep_brick p) op raw with
               | Some nv => nv
               | None => raw                                       (* Err(_) => value *)
               end
  | None => raw
  end.

Definition is_perm (a b : list bytes) : bool :=
  Nat.eqb (length a) (length b) && forallb (fun x => bmem x b) a && forallb (fun x => bmem x a) b.

(* one PROP chunk *)
Definition prop_chunk (p : enc_params) (dom : cdom) (ctx : enc_ctx) (ti : type_info) (cp : bytes * prop_info)
  : res (bytes * bytes) :=
  let '(canon, pi) := cp in
  let ord := ep_order p (pi_aliases pi) in
  if negb (is_perm ord (pi_aliases pi)) then Err E_HASH_ORDER else
  insts <- fold_res (fun acc r => match find_inst dom r with Some i => Ok (acc ++ [i]) | None => Panic end) [] (ti_instances ti) ;;
  col <- enc_col (pi_type pi) ctx (List.map (prop_value p canon pi ord) insts) ;;
  Ok (CH_PROP, w_le32 (ti_id ti) ++ w_bstr (pi_ser_name pi) ++ w_u8 (wire_id (pi_type pi)) ++ col).

Fixpoint map_res {A B} (f : A -> res B) (l : list A) : res (list B) :=
  match l with
  | [] => Ok []
  | x :: r => b <- f x ;; rest <- map_res f r ;; Ok (b :: rest)
  end.

Definition to_ref (m : list (N * Z)) (r : N) : res Z :=
  match lookup r m with Some z => Ok z | None => Panic end.      (* self.id_to_referent[&..] *)

(* one INST chunk *)
Definition inst_chunk (refs : list (N * Z)) (ct : bytes * type_info) : res (bytes * bytes) :=
  let '(cname, ti) := ct in
  ids <- map_res (to_ref refs) (ti_instances ti) ;;
  Ok (CH_INST, w_le32 (ti_id ti) ++ w_bstr cname ++ w_bool (ti_service ti) ++ w_le32 (len32 (ti_instances ti)) ++
               enc_ref_array ids ++
               (if ti_service ti then List.map (fun _ => 1) (ti_instances ti) else [])).

Record encoded := mkEnc { en_header : bytes; en_chunks : list (bytes * bytes) (* all but END *) }.

(* Serializer::serialize up to the chunk payloads *)
Definition encode_chunks (d : db) (p : enc_params) (dom : cdom) (roots : list N) : res encoded :=
  st <- add_instances d p dom roots ;;
  let relevant := ss_relevant st in
  (* generate_referents *)
  _ <- (if Z.ltb 2147483647 (Z.of_nat (length relevant)) then Panic else Ok tt) ;;
  let refs := referent_table 0 relevant [] in
  let ctx := mkEC (fun r => lookup r refs) (fun s => index_of s (ss_sstr st) 0) (ep_quant p) in
  (* write_header *)
  let header := FILE_MAGIC_HEADER ++ FILE_SIGNATURE ++ w_le16 0 ++
                w_le32 (len32 (ss_types st)) ++ w_le32 (len32 relevant) ++ [0; 0; 0; 0; 0; 0; 0; 0] in
  (* serialize_shared_strings *)
  let sstr := match ss_sstr st with
              | [] => []
              | l => [(CH_SSTR, w_le32 0 ++ w_le32 (len32 l) ++
                                flat_map (fun s => [0;0;0;0;0;0;0;0;0;0;0;0;0;0;0;0] ++ w_bstr s) l)]
              end in
  (* serialize_instances *)
  insts <- map_res (inst_chunk refs) (ss_types st) ;;
  (* serialize_properties *)
  props <- map_res (fun ct => map_res (prop_chunk p dom ctx (snd ct)) (ti_props (snd ct))) (ss_types st) ;;
  (* serialize_parents *)
  objs <- map_res (to_ref refs) relevant ;;
  parents <- map_res (fun r => match find_inst dom r with
                               | None => Panic                     (* self.dom.get_by_ref(id).unwrap() *)
                               | Some i => Ok (if N.eqb (i_parent i) 0 then (-1)%Z
                                               else match lookup (i_parent i) refs with Some z => z | None => (-1)%Z end)
                               end) relevant ;;
  let prnt := (CH_PRNT, w_u8 0 ++ w_le32 (len32 relevant) ++ enc_ref_array objs ++ enc_ref_array parents) in
  Ok (mkEnc header (sstr ++ insts ++ concat props ++ [prnt])).

Definition END_CHUNK : bytes := frame_chunk None (CH_END, FILE_FOOTER).

Definition encode_file (d : db) (p : enc_params) (cmp : compression) (dom : cdom) (roots : list N) : res bytes :=
  e <- encode_chunks d p dom roots ;;
  Ok (en_header e ++ flat_map (frame_chunk cmp) (en_chunks e) ++ END_CHUNK).

(* ========================================================================= decoder *)
Record dec_params := mkDP {
  dp_font : font_table;
  dp_brick : brick_table;
  dp_inflate : bytes -> N -> option bytes;   (* compressed payload, header.len -> lz4/zstd output; None = io error *)
  dp_fresh_uid : value;                      (* UniqueId::now() drawn by WeakDom::insert on a collision *)
  dp_lim : option N                          (* allocation limit (see BinValues.palloc) *)
}.

(* deserializer/state.rs `Instance` *)
Record dinst := mkDI {
  di_label : N;                              (* builder.referent() *)
  di_class : bytes;
  di_name : bytes;                           (* builder.name *)
  di_props : list (bytes * value);           (* builder.properties: a Vec, in push order *)
  di_children : list Z
}.
Record dtinfo := mkDT { dt_name : bytes; dt_referents : list Z }.
Record dstate := mkDS {
  ds_sstr : list bytes;                      (* shared_strings *)
  ds_types : list (N * dtinfo);              (* type_infos *)
  ds_insts : list (Z * dinst);               (* instances_by_ref *)
  ds_roots : list Z;                         (* root_instance_refs *)
  ds_next : N                                (* next fresh label (Ref::new()) *)
}.

(* run a chunk-body parser on the chunk data, discarding what is left *)
Definition run_chunk {A} (p : parser A) (chunk : bytes) : res A :=
  match p chunk with Ok (a, _) => Ok a | Panic => Panic | Err e => Err e | OutOfFuel => OutOfFuel end.

(* FileHeader::decode *)
Definition decode_header (lim : option N) : parser (N * N) :=
  magic <== read_exact 8 ;;
  if negb (bytes_eqb magic FILE_MAGIC_HEADER) then pfail E_BAD_HEADER else
  signature <== read_exact 6 ;;
  if negb (bytes_eqb signature FILE_SIGNATURE) then pfail E_BAD_HEADER else
  version <== read_le 2 ;;
  if negb (N.eqb version 0) then pfail E_FILE_VERSION else
  num_types <== read_le 4 ;;
  num_instances <== read_le 4 ;;
  reserved <== read_exact 8 ;;
  if negb (bytes_eqb reserved [0; 0; 0; 0; 0; 0; 0; 0]) then pfail E_BAD_HEADER else
  (* DeserializerState::new: HashMap::with_capacity(num_types), with_capacity(1 + num_instances), tree.reserve(num_instances) *)
  _ <== palloc lim (48 * num_types) ;;
  _ <== palloc lim (144 * num_instances) ;;
  pret (num_types, num_instances).

(* Chunk::decode *)
Definition decode_chunk (p : dec_params) : parser (bytes * bytes) :=
  name <== read_exact 4 ;;
  compressed_len <== read_le 4 ;;
  len <== read_le 4 ;;
  reserved <== read_le 4 ;;
  if negb (N.eqb reserved 0) then pfail E_CHUNK_RESERVED else         (* Err(InvalidData "Chunk reserved space was not zero") *)
  if N.eqb compressed_len 0 then
    _ <== palloc (dp_lim p) len ;;                                  (* Vec::with_capacity(header.len) *)
    data <== take_upto len ;;
    if negb (N.eqb (N.of_nat (length data)) len) then pfail E_EOF    (* data.len() != header.len: Err(UnexpectedEof) *)
    else pret (name, data)
  else
    _ <== palloc (dp_lim p) compressed_len ;;
    compressed_data <== take_upto compressed_len ;;
    (* compressed_data.starts_with(ZSTD_MAGIC_NUMBER) selects the decompressor: inside dp_inflate *)
    _ <== palloc (dp_lim p) len ;;                                  (* the decompressor's output buffer *)
    match dp_inflate p compressed_data len with
    | None => pfail E_INFLATE
    | Some data =>
        if negb (N.eqb (N.of_nat (length data)) len) then pfail E_EOF
        else pret (name, data)
    end.

(* Chunk::decode before repair 949437a7 (assert / slice index / panic!); kept for the refutation witnesses *)
Definition decode_chunk_pinned (p : dec_params) : parser (bytes * bytes) :=
  name <== read_exact 4 ;;
  compressed_len <== read_le 4 ;;
  len <== read_le 4 ;;
  reserved <== read_le 4 ;;
  if negb (N.eqb reserved 0) then (fun _ => Panic) else             (* panic!("Chunk reserved space was not zero") *)
  if N.eqb compressed_len 0 then
    data <== take_upto len ;;
    if negb (N.eqb (N.of_nat (length data)) len) then (fun _ => Panic)     (* assert_eq!(data.len(), header.len) *)
    else pret (name, data)
  else
    compressed_data <== take_upto compressed_len ;;
    if Nat.ltb (length compressed_data) 4 then (fun _ => Panic)     (* &compressed_data[0..4] *)
    else
      match dp_inflate p compressed_data len with
      | None => pfail E_INFLATE
      | Some data =>
          if negb (N.eqb (N.of_nat (length data)) len) then (fun _ => Panic)
          else pret (name, data)
      end.

(* decode_meta_chunk *)
Definition decode_meta (lim : option N) : parser unit :=
  len <== read_le 4 ;;
  _ <== palloc lim (56 * len) ;;                                    (* self.metadata.reserve(len) *)
  _ <== pfor32 len (k <== read_str lim ;; v <== read_str lim ;; pret tt) ;;
  pret tt.

(* decode_sstr_chunk *)
Definition decode_sstr (lim : option N) : parser (list bytes) :=
  version <== read_le 4 ;;
  if negb (N.eqb version 0) then pfail E_CHUNK_VERSION else
  num_entries <== read_le 4 ;;
  pfor32 num_entries (_ <== read_exact 16 ;; read_bstr lim).

(* a whole referent array whose length comes from the input: vec![0; n] then read_referent_array *)
Definition read_referents (lim : option N) (n : N) : parser (list Z) :=
  _ <== palloc lim (4 * n) ;;
  fun b => if N.ltb (N.of_nat (length b)) (4 * n) then Err E_EOF else dec_ref_array (N.to_nat n) b.

(* decode_inst_chunk *)
Definition decode_inst (lim : option N) (st : dstate) : parser dstate :=
  type_id <== read_le 4 ;;
  type_name <== read_str lim ;;
  object_format <== read_u8 ;;
  number_instances <== read_le 4 ;;
  referents <== read_referents lim number_instances ;;
  let '(insts, next) :=
    fold_left (fun acc referent =>
                 let '(insts, next) := acc in
                 (zupd referent (mkDI next type_name type_name [] []) insts, next + 1))
              referents (ds_insts st, ds_next st) in
  pret (mkDS (ds_sstr st) (upd type_id (mkDT type_name referents) (ds_types st)) insts (ds_roots st) next).

(* find_canonical_property: None = skip the chunk; Some (name, type, migration) *)
Definition find_canonical_property (d : db) (ty : wire_type) (class pname : bytes)
  : res (option (bytes * N * option (bytes * migop))) :=
  r <- find_desc_bin d (string_of_bytes class) (string_of_bytes pname) ;;
  match r with
  | Some (canon, _) =>
      match pd_kind canon with
      | KCanon PDoesNot => Ok None
      | k =>
          Ok (Some (bstr (pd_name canon), dtype_vt (pd_type canon),
                    match k with
                    | KCanon (PMigrate to op) => Some (bstr to, op)
                    | _ => None
                    end))
      end
  | None => Ok (Some (pname, to_default_rbx_type ty, None))
  end.

(* add_property *)
Definition add_property (p : dec_params) (i : dinst) (name : bytes) (migration : option (bytes * migop)) (v : value) : dinst :=
  match migration with
  | Some (new_name, op) =>
      if existsb (fun kv => bytes_eqb (fst kv) new_name) (di_props i) then i        (* builder.has_property(new_property_name) *)
      else match migrate (dp_font p) (dp_brick p) op v with
           | Some nv => mkDI (di_label i) (di_class i) (di_name i) (di_props i ++ [(new_name, nv)]) (di_children i)
           | None => i
           end
  | None => mkDI (di_label i) (di_class i) (di_name i) (di_props i ++ [(name, v)]) (di_children i)
  end.

(* `for (value, referent) in values.zip(&type_info.referents) { instances_by_ref.get_mut(referent).unwrap(); add_property }` *)
Fixpoint apply_values {A} (f : dinst -> A -> dinst) (insts : list (Z * dinst)) (rs : list Z) (vs : list A)
  : res (list (Z * dinst)) :=
  match rs, vs with
  | r :: rs', v :: vs' =>
      match zfind r insts with
      | None => Panic
      | Some i => apply_values f (zupd r (f i v) insts) rs' vs'
      end
  | _, _ => Ok insts
  end.

(* decode_prop_chunk *)
Definition decode_prop (d : db) (p : dec_params) (st : dstate) (chunk : bytes) : res dstate :=
  let lim := dp_lim p in
  match (type_id <== read_le 4 ;; prop_name <== read_str lim ;; pret (type_id, prop_name)) chunk with
  | Panic => Panic | Err e => Err e | OutOfFuel => OutOfFuel
  | Ok ((type_id, prop_name), chunk1) =>
      match lookup type_id (ds_types st) with
      | None => Err E_TYPE_ID
      | Some ti =>
          match chunk1 with
          | [] => Ok st                                              (* no type byte: chunk ignored *)
          | byte :: chunk2 =>
              match wire_of_id byte with
              | None => Ok st                                        (* unknown type id: chunk ignored *)
              | Some ty =>
                  let n := length (dt_referents ti) in
                  let with_insts insts := mkDS (ds_sstr st) (ds_types st) insts (ds_roots st) (ds_next st) in
                  if bytes_eqb prop_name NAME then
                    names <- run_chunk (prepeat n (read_bstr lim)) chunk2 ;;
                    (* instance.builder.set_name(from_utf8 or from_utf8_lossy) *)
                    insts <- apply_values (fun i s => mkDI (di_label i) (di_class i) s (di_props i) (di_children i))
                                          (ds_insts st) (dt_referents ti)
                                          (List.map (fun s => if utf8_valid s then s else utf8_lossy s) names) ;;
                    Ok (with_insts insts)
                  else
                    cp <- find_canonical_property d ty (dt_name ti) prop_name ;;
                    match cp with
                    | None => Ok st
                    | Some (name, cty, migration) =>
                        let ctx := mkDC (fun v => match zfind v (ds_insts st) with Some i => di_label i | None => 0 end)
                                        (ds_sstr st) lim in
                        vs <- run_chunk (dec_col ty cty ctx n) chunk2 ;;
                        insts <- apply_values (fun i v => add_property p i name migration v)
                                              (ds_insts st) (dt_referents ti) vs ;;
                        Ok (with_insts insts)
                    end
              end
          end
      end
  end.

(* decode_prnt_chunk *)
Fixpoint prnt_links (insts : list (Z * dinst)) (roots : list Z) (pairs : list (Z * Z)) : res (list (Z * dinst) * list Z) :=
  match pairs with
  | [] => Ok (insts, roots)
  | (id, parent_ref) :: rest =>
      if Z.eqb parent_ref (-1) then prnt_links insts (roots ++ [id]) rest
      else match zfind parent_ref insts with
           | None => Err E_UNKNOWN_REFERENT                          (* .ok_or(InnerError::UnknownReferent)? *)
           | Some i =>
               prnt_links (zupd parent_ref (mkDI (di_label i) (di_class i) (di_name i) (di_props i) (di_children i ++ [id])) insts)
                          roots rest
           end
  end.

Definition decode_prnt (lim : option N) (st : dstate) (chunk : bytes) : res dstate :=
  r <- run_chunk (version <== read_u8 ;;
                  if negb (N.eqb version 0) then pfail E_CHUNK_VERSION else
                  number_objects <== read_le 4 ;;
                  subjects <== read_referents lim number_objects ;;
                  parents <== read_referents lim number_objects ;;
                  pret (zip subjects parents)) chunk ;;
  r2 <- prnt_links (ds_insts st) (ds_roots st) r ;;
  Ok (mkDS (ds_sstr st) (ds_types st) (fst r2) (snd r2) (ds_next st)).

(* builder.properties.into_iter().collect::<UstrMap>(): later entries replace earlier ones *)
Definition collect_props (l : list (bytes * value)) : list (bytes * value) :=
  fold_left (fun m kv => bupd (fst kv) (snd kv) m) l [].

Definition value_eqb_uid (a b : value) : bool :=
  match a, b with
  | VUniqueId i t r, VUniqueId i' t' r' => N.eqb i i' && N.eqb t t' && Z.eqb r r'
  | _, _ => false
  end.

(* finish: breadth-first construction under the fresh DataModel root (parent label 0), with
   WeakDom::inner_insert's UniqueId rule *)
Fixpoint finish_loop (fuel : nat) (p : dec_params) (queue : list (Z * N)) (insts : list (Z * dinst))
                     (uids : list value) (out : cdom) : res cdom :=
  match fuel with
  | O => OutOfFuel
  | S f =>
      match queue with
      | [] => Ok out
      | (referent, parent) :: q =>
          match zfind referent insts with
          | None => finish_loop f p q insts uids out                (* None => continue: undeclared or repeated subject *)
          | Some i =>
              let props := collect_props (di_props i) in
              let '(props, uids) :=
                match bfind UNIQUE_ID props with
                | Some (VUniqueId a b c) =>
                    let u := VUniqueId a b c in
                    if existsb (value_eqb_uid u) uids
                    then (bupd UNIQUE_ID (dp_fresh_uid p) props, dp_fresh_uid p :: uids)
                    else (props, u :: uids)
                | _ => (props, uids)
                end in
              finish_loop f p (q ++ List.map (fun c => (c, di_label i)) (di_children i)) (zremove referent insts) uids
                          (out ++ [mkInst (di_label i) parent (di_class i) (di_name i) props])
          end
      end
  end.

Definition finish (p : dec_params) (st : dstate) : res cdom :=
  finish_loop (S (length (ds_roots st) + length (flat_map (fun zi => di_children (snd zi)) (ds_insts st)))) p (List.map (fun r => (r, 0)) (ds_roots st)) (ds_insts st) [] [].

Definition dstate0 : dstate := mkDS [] [] [] [] 1.

(* one step of the chunk dispatch of Deserializer::deserialize; None = END reached *)
Definition dispatch_chunk (d : db) (p : dec_params) (st : dstate) (name data : bytes) : res (option dstate) :=
  let lim := dp_lim p in
  if bytes_eqb name CH_META then _ <- run_chunk (decode_meta lim) data ;; Ok (Some st)
  else if bytes_eqb name CH_SSTR then l <- run_chunk (decode_sstr lim) data ;;
       Ok (Some (mkDS (ds_sstr st ++ l) (ds_types st) (ds_insts st) (ds_roots st) (ds_next st)))
  else if bytes_eqb name CH_INST then st' <- run_chunk (decode_inst lim st) data ;; Ok (Some st')
  else if bytes_eqb name CH_PROP then st' <- decode_prop d p st data ;; Ok (Some st')
  else if bytes_eqb name CH_PRNT then st' <- decode_prnt lim st data ;; Ok (Some st')
  else if bytes_eqb name CH_END then Ok None
  else Ok (Some st).                                                (* unknown chunk name: ignored *)

Fixpoint chunk_loop (fuel : nat) (d : db) (p : dec_params) (st : dstate) (b : bytes) : res dstate :=
  match fuel with
  | O => OutOfFuel
  | S f =>
      match decode_chunk p b with
      | Panic => Panic | Err e => Err e | OutOfFuel => OutOfFuel
      | Ok ((name, data), rest) =>
          r <- dispatch_chunk d p st name data ;;
          match r with
          | None => Ok st
          | Some st' => chunk_loop f d p st' rest
          end
      end
  end.

(* the same loop over an already de-framed chunk list (compressed files: the harness inflates) *)
Fixpoint chunk_list_loop (d : db) (p : dec_params) (st : dstate) (chunks : list (bytes * bytes)) : res dstate :=
  match chunks with
  | [] => Err E_EOF                                                  (* next_chunk at end of input *)
  | (name, data) :: rest =>
      r <- dispatch_chunk d p st name data ;;
      match r with
      | None => Ok st
      | Some st' => chunk_list_loop d p st' rest
      end
  end.

Definition decode_file (d : db) (p : dec_params) (b : bytes) : res cdom :=
  match decode_header (dp_lim p) b with
  | Panic => Panic | Err e => Err e | OutOfFuel => OutOfFuel
  | Ok (_, rest) =>
      st <- chunk_loop (S (length rest)) d p dstate0 rest ;;
      finish p st
  end.

Definition decode_chunks (d : db) (p : dec_params) (header : bytes) (chunks : list (bytes * bytes)) : res cdom :=
  match decode_header (dp_lim p) header with
  | Panic => Panic | Err e => Err e | OutOfFuel => OutOfFuel
  | Ok _ =>
      st <- chunk_list_loop d p dstate0 chunks ;;
      finish p st
  end.

(* plain functions for the OCaml driver: record labels of different models collide after extraction *)
Definition mk_inst (r p : N) (c n : bytes) (ps : list (bytes * value)) : inst := mkInst r p c n ps.
Definition inst_fields (i : inst) : N * N * bytes * bytes * list (bytes * value) :=
  (i_ref i, i_parent i, i_class i, i_name i, i_props i).
