(* BinValues.v — layer L3: the per-wire-type column codecs of rbx_binary.
     enc_col  mirrors the `match prop_info.prop_type { … }` of serialize_properties (serializer/state.rs)
     dec_col  mirrors the `match binary_type { … match canonical_type { … } }` of decode_prop_chunk
              (deserializer/state.rs)
   arm by arm, with the Rust text in comments.  One column = the values of one property for all the
   instances of one class, in INST order.  The code is modelled AS IT IS in the working tree ); behaviour before a repair survives only under `_pinned` names
   where a refutation witness is stated about it.
   Outcomes: `Ok`, `Err code` (the enum below), `Panic` (unwrap / expect / panic! / index).
   Allocations whose size is read from the input (`Vec::with_capacity(len)`, `vec![0; count]`) go
   through [palloc]: with limit [Some L] a request of more than L bytes ends the decode with
   [Err E_ALLOC] (the process would abort or hold memory unrelated to the input), with [None] they
   are ignored.  Definitions only. *)
From RbxVerif Require Export Base Bytes Value Utf8 Utf8Lossy Rotation BrickColor Attr.
Open Scope N_scope.

(* ------------------------------------------------------------------------- error enum *)
(* decoder (deserializer/error.rs InnerError) *)
Definition E_EOF : N := 1.            (* Io: UnexpectedEof ("failed to fill whole buffer") = Bytes.ERR_EOF *)
Definition E_UTF8 : N := 2.           (* Io: InvalidData from read_to_string ("stream did not contain valid UTF-8") *)
Definition E_BAD_HEADER : N := 3.     (* BadHeader *)
Definition E_FILE_VERSION : N := 4.   (* UnknownFileVersion *)
Definition E_CHUNK_VERSION : N := 5.  (* UnknownChunkVersion *)
Definition E_TYPE_MISMATCH : N := 6.  (* PropTypeMismatch *)
Definition E_INVALID_DATA : N := 7.   (* InvalidPropData *)
Definition E_TYPE_ID : N := 8.        (* InvalidTypeId *)
Definition E_ROTATION : N := 9.       (* BadRotationId *)
Definition E_OCF_FORMAT : N := 10.    (* BadOptionalCFrameFormat *)
Definition E_CONTENT_TYPE : N := 11.  (* BadContentType *)
Definition E_INFLATE : N := 12.       (* Io from lz4 / zstd *)
Definition E_ALLOC : N := 13.         (* an input-sized allocation above the limit (model-only outcome) *)
Definition E_CHUNK_RESERVED : N := 14. (* Io: InvalidData "Chunk reserved space was not zero" *)
Definition E_UNKNOWN_REFERENT : N := 15. (* UnknownReferent (PRNT parent not declared) *)
(* encoder (serializer/error.rs InnerError) *)
Definition EE_TYPE_MISMATCH : N := 20.   (* PropTypeMismatch *)
Definition EE_UNSUPPORTED : N := 21.     (* UnsupportedPropType *)
Definition EE_INVALID_VALUE : N := 22.   (* InvalidPropValue *)
Definition EE_INVALID_ID : N := 23.      (* InvalidInstanceId *)
Definition E_HASH_ORDER : N := 30.       (* model-only: the supplied hash-iteration order is not a permutation of the set *)

(* ------------------------------------------------------------------------- types.rs *)
Inductive wire_type :=
| WString | WBool | WInt32 | WFloat32 | WFloat64 | WUDim | WUDim2 | WRay | WFaces | WAxes | WBrickColor
| WColor3 | WVector2 | WVector3 | WCFrame | WEnum | WRef | WVector3int16 | WNumberSequence
| WColorSequence | WNumberRange | WRect | WPhysicalProperties | WColor3uint8 | WInt64 | WSharedString
| WOptionalCFrame | WUniqueId | WFont | WSecurityCapabilities | WContent.

(* `prop_type as u8` *)
Definition wire_id (t : wire_type) : N :=
  match t with
  | WString => 0x01 | WBool => 0x02 | WInt32 => 0x03 | WFloat32 => 0x04 | WFloat64 => 0x05 | WUDim => 0x06
  | WUDim2 => 0x07 | WRay => 0x08 | WFaces => 0x09 | WAxes => 0x0A | WBrickColor => 0x0B | WColor3 => 0x0C
  | WVector2 => 0x0D | WVector3 => 0x0E | WCFrame => 0x10 | WEnum => 0x12 | WRef => 0x13
  | WVector3int16 => 0x14 | WNumberSequence => 0x15 | WColorSequence => 0x16 | WNumberRange => 0x17
  | WRect => 0x18 | WPhysicalProperties => 0x19 | WColor3uint8 => 0x1A | WInt64 => 0x1B
  | WSharedString => 0x1C | WOptionalCFrame => 0x1E | WUniqueId => 0x1F | WFont => 0x20
  | WSecurityCapabilities => 0x21 | WContent => 0x22
  end.

Definition all_wire_types : list wire_type :=
  [WString; WBool; WInt32; WFloat32; WFloat64; WUDim; WUDim2; WRay; WFaces; WAxes; WBrickColor; WColor3;
   WVector2; WVector3; WCFrame; WEnum; WRef; WVector3int16; WNumberSequence; WColorSequence; WNumberRange;
   WRect; WPhysicalProperties; WColor3uint8; WInt64; WSharedString; WOptionalCFrame; WUniqueId; WFont;
   WSecurityCapabilities; WContent].

(* impl TryFrom<u8> for Type *)
Definition wire_of_id (b : N) : option wire_type :=
  find (fun t => N.eqb (wire_id t) b) all_wire_types.

(* VariantType discriminants (Value.vtype) *)
Definition VT_Axes : N := 0.            Definition VT_BinaryString : N := 1.   Definition VT_Bool : N := 2.
Definition VT_BrickColor : N := 3.      Definition VT_CFrame : N := 4.         Definition VT_Color3 : N := 5.
Definition VT_Color3uint8 : N := 6.     Definition VT_ColorSequence : N := 7.  Definition VT_ContentId : N := 8.
Definition VT_Enum : N := 9.            Definition VT_Faces : N := 10.         Definition VT_Float32 : N := 11.
Definition VT_Float64 : N := 12.        Definition VT_Int32 : N := 13.         Definition VT_Int64 : N := 14.
Definition VT_NumberRange : N := 15.    Definition VT_NumberSequence : N := 16. Definition VT_PhysicalProperties : N := 17.
Definition VT_Ray : N := 18.            Definition VT_Rect : N := 19.          Definition VT_Ref : N := 20.
Definition VT_Region3 : N := 21.        Definition VT_Region3int16 : N := 22.  Definition VT_SharedString : N := 23.
Definition VT_Str : N := 24.            Definition VT_UDim : N := 25.          Definition VT_UDim2 : N := 26.
Definition VT_Vector2 : N := 27.        Definition VT_Vector2int16 : N := 28.  Definition VT_Vector3 : N := 29.
Definition VT_Vector3int16 : N := 30.   Definition VT_OptionalCFrame : N := 31. Definition VT_Tags : N := 32.
Definition VT_Attributes : N := 33.     Definition VT_Font : N := 34.          Definition VT_UniqueId : N := 35.
Definition VT_MaterialColors : N := 36. Definition VT_SecurityCapabilities : N := 37.
Definition VT_EnumItem : N := 38.       Definition VT_Content : N := 39.

(* Type::from_rbx_type.  NB (as pinned): VariantType::Attributes has no arm. *)
Definition from_rbx_type (vt : N) : option wire_type :=
  match vt with
  | 24 | 1 | 8 | 32 | 36 => Some WString      (* String, BinaryString, ContentId, Tags, MaterialColors *)
  | 2 => Some WBool | 13 => Some WInt32 | 11 => Some WFloat32 | 12 => Some WFloat64
  | 25 => Some WUDim | 26 => Some WUDim2 | 18 => Some WRay | 10 => Some WFaces | 0 => Some WAxes
  | 3 => Some WBrickColor | 5 => Some WColor3 | 27 => Some WVector2 | 29 => Some WVector3
  | 4 => Some WCFrame | 9 => Some WEnum | 20 => Some WRef | 30 => Some WVector3int16
  | 16 => Some WNumberSequence | 7 => Some WColorSequence | 15 => Some WNumberRange | 19 => Some WRect
  | 17 => Some WPhysicalProperties | 6 => Some WColor3uint8 | 14 => Some WInt64
  | 23 => Some WSharedString | 31 => Some WOptionalCFrame | 35 => Some WUniqueId | 34 => Some WFont
  | 37 => Some WSecurityCapabilities | 39 => Some WContent
  | _ => None
  end.

(* Type::to_default_rbx_type (total on the enum) *)
Definition to_default_rbx_type (t : wire_type) : N :=
  match t with
  | WString => VT_BinaryString | WBool => VT_Bool | WInt32 => VT_Int32 | WFloat32 => VT_Float32
  | WFloat64 => VT_Float64 | WUDim => VT_UDim | WUDim2 => VT_UDim2 | WRay => VT_Ray | WFaces => VT_Faces
  | WAxes => VT_Axes | WBrickColor => VT_BrickColor | WColor3 => VT_Color3 | WVector2 => VT_Vector2
  | WVector3 => VT_Vector3 | WCFrame => VT_CFrame | WEnum => VT_Enum | WRef => VT_Ref
  | WVector3int16 => VT_Vector3int16 | WNumberSequence => VT_NumberSequence
  | WColorSequence => VT_ColorSequence | WNumberRange => VT_NumberRange | WRect => VT_Rect
  | WPhysicalProperties => VT_PhysicalProperties | WColor3uint8 => VT_Color3uint8 | WInt64 => VT_Int64
  | WSharedString => VT_SharedString | WOptionalCFrame => VT_OptionalCFrame | WUniqueId => VT_UniqueId
  | WFont => VT_Font | WSecurityCapabilities => VT_SecurityCapabilities | WContent => VT_Content
  end.

(* ------------------------------------------------------------------------- scalar writers (core.rs RbxWriteExt) *)
Definition len32 {A} (l : list A) : N := N.of_nat (length l) mod 4294967296.     (* `len() as u32` *)
Definition w_u8 (n : N) : bytes := [n].
Definition w_le16 (n : N) : bytes := le_bytes 2 n.
Definition w_le32 (n : N) : bytes := le_bytes 4 n.
Definition w_le_i16 (z : Z) : bytes := le_bytes 2 (wrap_u 16 z).
Definition w_f32 (x : f32) : bytes := le_bytes 4 x.           (* write_le_f32 *)
Definition w_f64 (x : f64) : bytes := le_bytes 8 x.           (* write_le_f64 *)
Definition w_bstr (s : bytes) : bytes := w_le32 (len32 s) ++ s.   (* write_binary_string / write_string *)
Definition w_bool (b : bool) : bytes := [if b then 1 else 0].

(* `f32 as f64` on bit patterns (exact; a signalling NaN is quieted, its payload kept) *)
Definition f64_of_f32 (x : f32) : f64 :=
  let sign := x / 2147483648 in
  let e := (x / 8388608) mod 256 in
  let m := x mod 8388608 in
  let s64 := sign * 9223372036854775808 in
  if N.eqb e 255 then
    if N.eqb m 0 then s64 + 0x7FF0000000000000
    else s64 + 0x7FF0000000000000 + N.lor (m * 536870912) 0x8000000000000
  else if N.eqb e 0 then
    if N.eqb m 0 then s64
    else let k := N.log2 m in                       (* m = 1.xxx * 2^k, value = m * 2^-149 *)
         s64 + (k + 874) * 4503599627370496 + (m - 2 ^ k) * 2 ^ (52 - k)
  else s64 + (e + 896) * 4503599627370496 + m * 536870912.

(* Tags::encode: members.join("\0") *)
Fixpoint tags_encode (ts : list bytes) : bytes :=
  match ts with
  | [] => []
  | [t] => t
  | t :: r => t ++ 0 :: tags_encode r
  end.

(* Tags::decode: split on 0, drop empty pieces, each piece must be UTF-8 *)
Fixpoint split0 (cur : bytes) (b : bytes) : list bytes :=      (* cur = current piece, reversed *)
  match b with
  | [] => [rev_append cur []]
  | x :: r => if N.eqb x 0 then rev_append cur [] :: split0 [] r else split0 (x :: cur) r
  end.
Definition tags_decode (buf : bytes) : option (list bytes) :=
  let pieces := filter (fun p => match p with [] => false | _ => true end) (split0 [] buf) in
  if forallb utf8_valid pieces then Some pieces else None.

(* MaterialColors: MATERIAL_ORDER default colours (material_colors.rs, index = TerrainMaterials discriminant) *)
Definition material_defaults : list (N * N * N) :=
  [(106, 127, 63); (63, 127, 107); (127, 102, 63); (138, 86, 62); (143, 126, 95); (139, 109, 79);
   (102, 108, 111); (101, 176, 234); (195, 199, 218); (137, 90, 71); (58, 46, 36); (30, 30, 37);
   (102, 92, 59); (232, 156, 74); (115, 123, 107); (132, 123, 90); (129, 194, 224); (115, 132, 74);
   (198, 189, 181); (206, 173, 148); (148, 148, 140)].
Fixpoint matcol_body (i : N) (defs : list (N * N * N)) (m : list (N * (N * N * N))) : bytes :=
  match defs with
  | [] => []
  | (dr, dg, db) :: rest =>
      (match lookup i m with Some (r, g, b) => [r; g; b] | None => [dr; dg; db] end) ++ matcol_body (i + 1) rest m
  end.
(* MaterialColors::encode: 6 reserved bytes, then get_color for each material in MATERIAL_ORDER *)
Definition matcol_encode (m : list (N * (N * N * N))) : bytes :=
  [0; 0; 0; 0; 0; 0] ++ matcol_body 0 material_defaults m.
Fixpoint matcol_entries (i : N) (k : nat) (b : bytes) : list (N * (N * N * N)) :=
  match k with
  | O => []
  | S k' => match b with
            | r :: g :: bl :: rest => (i, (r, g, bl)) :: matcol_entries (i + 1) k' rest
            | _ => []
            end
  end.
(* MaterialColors::decode: None = WrongLength *)
Definition matcol_decode (buf : bytes) : option (list (N * (N * N * N))) :=
  if Nat.eqb (length buf) 69 then Some (matcol_entries 0 21 (skipn 6 buf)) else None.

(* the rotation part of the CFrame / OptionalCFrame arms *)
Definition enc_rot (m : mat3) : bytes :=
  match to_basic_rotation_id m with
  | Some id => w_u8 id                                               (* chunk.write_u8(id) *)
  | None => w_u8 0 ++ w_f32 (vx (mx m)) ++ w_f32 (vy (mx m)) ++ w_f32 (vz (mx m))
                   ++ w_f32 (vx (my m)) ++ w_f32 (vy (my m)) ++ w_f32 (vz (my m))
                   ++ w_f32 (vx (mz m)) ++ w_f32 (vy (mz m)) ++ w_f32 (vz (mz m))
  end.

(* the Ray arm of serialize_properties, one value *)
Definition ray_bytes (o d : vec3) : bytes :=
  w_f32 (vx o) ++ w_f32 (vy o) ++ w_f32 (vz o) ++ w_f32 (vx d) ++ w_f32 (vy d) ++ w_f32 (vz d).
(* the arm before repair de369328 (direction.x written in place of direction.z); kept for ray_refuted *)
Definition ray_bytes_pinned (o d : vec3) : bytes :=
  w_f32 (vx o) ++ w_f32 (vy o) ++ w_f32 (vz o) ++ w_f32 (vx d) ++ w_f32 (vy d) ++ w_f32 (vx d).

(* ------------------------------------------------------------------------- encoder *)
Record enc_ctx := mkEC {
  ec_referent : N -> option Z;        (* id_to_referent.get(ref) *)
  ec_sstr : bytes -> option N;        (* shared_string_ids.get(shared string) *)
  ec_quant : f32 -> N                 (* one channel of `impl From<Color3> for Color3uint8`: (x.clamp(0,1) * 255).round() as u8 *)
}.

(* `for (i, rbx_value) in values { match … else return type_mismatch(…) }` : first failing value decides *)
Fixpoint collect {A} (f : value -> res A) (vs : list value) : res (list A) :=
  match vs with
  | [] => Ok []
  | v :: r => a <- f v ;; rest <- collect f r ;; Ok (a :: rest)
  end.
Definition mismatch {A} : res A := Err EE_TYPE_MISMATCH.

Definition ref_id (c : enc_ctx) (r : N) : Z :=
  match ec_referent c r with Some id => id | None => (-1)%Z end.

Definition enc_col (ty : wire_type) (c : enc_ctx) (vs : list value) : res bytes :=
  match ty with
  | WString =>
      parts <- collect (fun v => match v with
        | VString s => Ok (w_bstr s)                                   (* chunk.write_string(value) *)
        | VContentId s => Ok (w_bstr s)
        | VBinaryString b => Ok (w_bstr b)                             (* write_binary_string *)
        | VTags ts => Ok (w_bstr (tags_encode ts))
        | VAttributes m =>                                             (* value.to_writer(&mut buf).map_err(|_| invalid_value(..))? *)
            match attr_encode m with
            | Ok buf => Ok (w_bstr buf)
            | Err _ => Err EE_INVALID_VALUE
            | Panic => Panic
            | OutOfFuel => OutOfFuel
            end
        | VMaterialColors m => Ok (w_bstr (matcol_encode m))
        | _ => mismatch end) vs ;;
      Ok (concat parts)
  | WBool =>
      parts <- collect (fun v => match v with VBool b => Ok (w_bool b) | _ => mismatch end) vs ;;
      Ok (concat parts)
  | WInt32 =>
      buf <- collect (fun v => match v with VInt32 z => Ok z | _ => mismatch end) vs ;;
      Ok (enc_i32_array buf)
  | WFloat32 =>
      buf <- collect (fun v => match v with VFloat32 x => Ok x | _ => mismatch end) vs ;;
      Ok (enc_f32_array buf)
  | WFloat64 =>
      parts <- collect (fun v => match v with
        | VFloat64 x => Ok (w_f64 x)
        | VFloat32 x => Ok (w_f64 (f64_of_f32 x))                      (* *value as f64 *)
        | _ => mismatch end) vs ;;
      Ok (concat parts)
  | WUDim =>
      us <- collect (fun v => match v with VUDim u => Ok u | _ => mismatch end) vs ;;
      Ok (enc_f32_array (List.map ud_scale us) ++ enc_i32_array (List.map ud_offset us))
  | WUDim2 =>
      us <- collect (fun v => match v with VUDim2 x y => Ok (x, y) | _ => mismatch end) vs ;;
      Ok (enc_f32_array (List.map (fun p => ud_scale (fst p)) us) ++ enc_f32_array (List.map (fun p => ud_scale (snd p)) us) ++
          enc_i32_array (List.map (fun p => ud_offset (fst p)) us) ++ enc_i32_array (List.map (fun p => ud_offset (snd p)) us))
  | WFont =>
      parts <- collect (fun v => match v with
        | VFont f => Ok (w_bstr (fo_family f) ++ w_le16 (fo_weight f) ++ w_u8 (fo_style f) ++
                         w_bstr (match fo_cached f with Some s => s | None => [] end))   (* as_deref().unwrap_or_default() *)
        | _ => mismatch end) vs ;;
      Ok (concat parts)
  | WRay =>
      parts <- collect (fun v => match v with
        | VRay o d => Ok (ray_bytes o d)
        | _ => mismatch end) vs ;;
      Ok (concat parts)
  | WFaces =>
      parts <- collect (fun v => match v with VFaces b => Ok (w_u8 b) | _ => mismatch end) vs ;;
      Ok (concat parts)
  | WAxes =>
      parts <- collect (fun v => match v with VAxes b => Ok (w_u8 b) | _ => mismatch end) vs ;;
      Ok (concat parts)
  | WBrickColor =>
      ns <- collect (fun v => match v with
        | VBrickColor n => Ok n                                        (* *value as u32 *)
        | VInt32 z => Ok (wrap_u 32 z)                                 (* *value as u32 *)
        | _ => mismatch end) vs ;;
      Ok (enc_u32_array ns)
  | WColor3 =>
      cs <- collect (fun v => match v with VColor3 r g b => Ok (r, g, b) | _ => mismatch end) vs ;;
      Ok (enc_f32_array (List.map (fun p => fst (fst p)) cs) ++ enc_f32_array (List.map (fun p => snd (fst p)) cs) ++
          enc_f32_array (List.map snd cs))
  | WVector2 =>
      ps <- collect (fun v => match v with VVector2 p => Ok p | _ => mismatch end) vs ;;
      Ok (enc_f32_array (List.map v2x ps) ++ enc_f32_array (List.map v2y ps))
  | WVector3 =>
      ps <- collect (fun v => match v with VVector3 p => Ok p | _ => mismatch end) vs ;;
      Ok (enc_f32_array (List.map vx ps) ++ enc_f32_array (List.map vy ps) ++ enc_f32_array (List.map vz ps))
  | WCFrame =>
      cfs <- collect (fun v => match v with VCFrame cf => Ok cf | _ => mismatch end) vs ;;
      Ok (flat_map (fun cf => enc_rot (cf_rot cf)) cfs ++
          enc_f32_array (List.map (fun cf => vx (cf_pos cf)) cfs) ++ enc_f32_array (List.map (fun cf => vy (cf_pos cf)) cfs) ++
          enc_f32_array (List.map (fun cf => vz (cf_pos cf)) cfs))
  | WEnum =>
      ns <- collect (fun v => match v with
        | VEnum n => Ok n
        | VEnumItem _ n => Ok n
        | _ => mismatch end) vs ;;
      Ok (enc_u32_array ns)
  | WRef =>
      ids <- collect (fun v => match v with VRef r => Ok (ref_id c r) | _ => mismatch end) vs ;;
      Ok (enc_ref_array ids)
  | WVector3int16 =>
      parts <- collect (fun v => match v with
        | VVector3int16 x y z => Ok (w_le_i16 x ++ w_le_i16 y ++ w_le_i16 z)
        | _ => mismatch end) vs ;;
      Ok (concat parts)
  | WNumberSequence =>
      parts <- collect (fun v => match v with
        | VNumberSequence kps =>
            Ok (w_le32 (len32 kps) ++ flat_map (fun kp => let '(t, x, e) := kp in w_f32 t ++ w_f32 x ++ w_f32 e) kps)
        | _ => mismatch end) vs ;;
      Ok (concat parts)
  | WColorSequence =>
      parts <- collect (fun v => match v with
        | VColorSequence kps =>
            Ok (w_le32 (len32 kps) ++
                flat_map (fun kp => let '(t, (r, g, b)) := kp in
                                    w_f32 t ++ w_f32 r ++ w_f32 g ++ w_f32 b ++ w_f32 F32_ZERO) kps)   (* dummy envelope 0.0 *)
        | _ => mismatch end) vs ;;
      Ok (concat parts)
  | WNumberRange =>
      parts <- collect (fun v => match v with VNumberRange lo hi => Ok (w_f32 lo ++ w_f32 hi) | _ => mismatch end) vs ;;
      Ok (concat parts)
  | WRect =>
      rs <- collect (fun v => match v with VRect lo hi => Ok (lo, hi) | _ => mismatch end) vs ;;
      Ok (enc_f32_array (List.map (fun p => v2x (fst p)) rs) ++ enc_f32_array (List.map (fun p => v2y (fst p)) rs) ++
          enc_f32_array (List.map (fun p => v2x (snd p)) rs) ++ enc_f32_array (List.map (fun p => v2y (snd p)) rs))
  | WPhysicalProperties =>
      parts <- collect (fun v => match v with
        | VPhysicalProperties (Some p) =>
            Ok (w_u8 1 ++ w_f32 (ph_density p) ++ w_f32 (ph_friction p) ++ w_f32 (ph_elasticity p) ++
                w_f32 (ph_friction_weight p) ++ w_f32 (ph_elasticity_weight p))
        | VPhysicalProperties None => Ok (w_u8 0)
        | _ => mismatch end) vs ;;
      Ok (concat parts)
  | WColor3uint8 =>
      cs <- collect (fun v => match v with
        | VColor3uint8 r g b => Ok (r, g, b)
        | VColor3 r g b => Ok (ec_quant c r, ec_quant c g, ec_quant c b)     (* let color: Color3uint8 = value.into() *)
        | _ => mismatch end) vs ;;
      Ok (List.map (fun p => fst (fst p)) cs ++ List.map (fun p => snd (fst p)) cs ++ List.map snd cs)
  | WInt64 =>
      buf <- collect (fun v => match v with
        | VInt64 z => Ok z
        | VInt32 z => Ok z                                             (* *value as i64 *)
        | _ => mismatch end) vs ;;
      Ok (enc_i64_array buf)
  | WSharedString =>
      ids <- collect (fun v => match v with
        | VSharedString s => match ec_sstr c s with
                             | Some id => Ok id
                             | None => Panic                           (* panic!("SharedString {} was not found during type collection") *)
                             end
        | _ => mismatch end) vs ;;
      Ok (enc_u32_array ids)
  | WOptionalCFrame =>
      os <- collect (fun v => match v with VOptionalCFrame o => Ok o | _ => mismatch end) vs ;;
      let rot o := match o with Some cf => cf_rot cf | None => mat3_identity end in
      let pos f o := match o with Some cf => f (cf_pos cf) | None => F32_ZERO end in
      Ok (w_u8 (wire_id WCFrame) ++
          flat_map (fun o => enc_rot (rot o)) os ++
          enc_f32_array (List.map (pos vx) os) ++ enc_f32_array (List.map (pos vy) os) ++ enc_f32_array (List.map (pos vz) os) ++
          w_u8 (wire_id WBool) ++
          List.map (fun o : option cframe => match o with Some _ => 1 | None => 0 end) os)
  | WUniqueId =>
      blobs <- collect (fun v => match v with
        | VUniqueId index time random =>
            Ok (be_bytes 4 index ++ be_bytes 4 time ++ be_bytes 8 (rotl64 (i64_bits random)))
        | _ => mismatch end) vs ;;
      Ok (interleave 16 blobs)
  | WSecurityCapabilities =>
      buf <- collect (fun v => match v with
        | VSecurityCapabilities bits => Ok (wrap_s 64 bits)            (* value.bits() as i64 *)
        | _ => mismatch end) vs ;;
      Ok (enc_i64_array buf)
  | WContent =>
      cs <- collect (fun v => match v with VContent x => Ok x | _ => mismatch end) vs ;;
      let source_types := List.map (fun x => match x with CNone => 0%Z | CUri _ => 1%Z | CObject _ => 2%Z end) cs in
      let uris := flat_map (fun x => match x with CUri u => [u] | _ => [] end) cs in
      let objects := flat_map (fun x => match x with CObject r => [ref_id c r] | _ => [] end) cs in
      Ok (enc_i32_array source_types ++
          w_le32 (len32 uris) ++ flat_map w_bstr uris ++
          w_le32 (len32 objects) ++ enc_ref_array objects ++
          w_le32 0)
  end.

(* ------------------------------------------------------------------------- scalar readers (core.rs RbxReadExt) *)
(* an allocation of [n] bytes sized by an input field *)
Definition palloc (lim : option N) (n : N) : parser unit :=
  fun b => match lim with
           | Some l => if N.ltb l n then Err E_ALLOC else Ok (tt, b)
           | None => Ok (tt, b)
           end.

(* `reader.take(len).read_to_end(&mut v)`: up to len bytes; a short input is NOT an error *)
Definition take_upto (len : N) : parser bytes :=
  fun b => if N.leb (N.of_nat (length b)) len then Ok (b, []) else read_exact (N.to_nat len) b.

(* read_binary_string: Vec::with_capacity(length) then take(length).read_to_end *)
Definition read_bstr (lim : option N) : parser bytes :=
  len <== read_le 4 ;; _ <== palloc lim len ;; take_upto len.
(* read_string: the same, through read_to_string (InvalidData when not UTF-8) *)
Definition read_str (lim : option N) : parser bytes :=
  s <== read_bstr lim ;; if utf8_valid s then pret s else pfail E_UTF8.
Definition read_f32le : parser f32 := read_le 4.
Definition read_f64le : parser f64 := read_le 8.
Definition read_i16le : parser Z := read_le_i 2 16.
Definition read_bool : parser bool := x <== read_u8 ;; pret (negb (N.eqb x 0)).

(* `for _ in 0..count { … }` with a u32 count from the input, every iteration consuming at least one
   byte or failing: driven by N with the remaining input as fuel (as Attr.ploop) *)
Definition pfor32 {A} (n : N) (p : parser A) : parser (list A) := pfor n p.

Fixpoint zip {A B} (a : list A) (b : list B) : list (A * B) :=
  match a, b with x :: a', y :: b' => (x, y) :: zip a' b' | _, _ => [] end.

Definition dec_rot : parser mat3 :=
  id <== read_u8 ;;
  if N.eqb id 0 then
    a <== read_f32le ;; b <== read_f32le ;; c <== read_f32le ;;
    d <== read_f32le ;; e <== read_f32le ;; f <== read_f32le ;;
    g <== read_f32le ;; h <== read_f32le ;; i <== read_f32le ;;
    pret (mkM3 (mkV3 a b c) (mkV3 d e f) (mkV3 g h i))
  else match from_basic_rotation_id id with
       | Some m => pret m
       | None => pfail E_ROTATION
       end.

Definition dec_vec3_arrays (n : nat) : parser (list vec3) :=
  x <== dec_f32_array n ;; y <== dec_f32_array n ;; z <== dec_f32_array n ;;
  pret (List.map (fun p => mkV3 (fst (fst p)) (snd (fst p)) (snd p)) (zip (zip x y) z)).

(* VecDeque::pop_front / pop_back on the list representation (head = front) *)
Definition pop_front {A} (l : list A) : option (A * list A) :=
  match l with [] => None | x :: r => Some (x, r) end.
Definition pop_back {A} (l : list A) : option (A * list A) :=
  match rev l with [] => None | x :: r => Some (x, rev r) end.

Record dec_ctx := mkDC {
  dc_resolve : Z -> N;               (* instances_by_ref.get(&v).map(builder.referent()).unwrap_or(Ref::none()) *)
  dc_sstr : list bytes;              (* self.shared_strings *)
  dc_lim : option N
}.

Definition tmismatch {A} : parser A := pfail E_TYPE_MISMATCH.

(* the per-referent loop of the Content arm (after all reads) *)
Fixpoint content_values (c : dec_ctx) (tys : list Z) (uris : list bytes) (objects : list Z) : res (list value) :=
  match tys with
  | [] => Ok []
  | ty :: rest =>
      match ty with
      | 0%Z => r <- content_values c rest uris objects ;; Ok (VContent CNone :: r)
      | 1%Z => match pop_back uris with                                 (* uris.pop_back().ok_or_else(InvalidPropData)? *)
               | None => Err E_INVALID_DATA
               | Some (u, uris') => r <- content_values c rest uris' objects ;; Ok (VContent (CUri u) :: r)
               end
      | 2%Z => match pop_front objects with                             (* objects.pop_front().ok_or_else(InvalidPropData)? *)
               | None => Err E_INVALID_DATA
               | Some (o, objects') =>
                   r <- content_values c rest uris objects' ;; Ok (VContent (CObject (dc_resolve c o)) :: r)
               end
      | _ => Err E_CONTENT_TYPE
      end
  end.

(* the same loop before repair 55a7c594 (object referents popped from the BACK of the deque); kept for
   content_object_order_refuted *)
Fixpoint content_values_pinned (c : dec_ctx) (tys : list Z) (uris : list bytes) (objects : list Z) : res (list value) :=
  match tys with
  | [] => Ok []
  | ty :: rest =>
      match ty with
      | 0%Z => r <- content_values_pinned c rest uris objects ;; Ok (VContent CNone :: r)
      | 1%Z => match pop_back uris with                                 (* uris.pop_back().ok_or_else(InvalidPropData)? *)
               | None => Err E_INVALID_DATA
               | Some (u, uris') => r <- content_values_pinned c rest uris' objects ;; Ok (VContent (CUri u) :: r)
               end
      | 2%Z => match pop_back objects with                              (* objects.pop_back().ok_or_else(InvalidPropData)? *)
               | None => Err E_INVALID_DATA
               | Some (o, objects') =>
                   r <- content_values_pinned c rest uris objects' ;; Ok (VContent (CObject (dc_resolve c o)) :: r)
               end
      | _ => Err E_CONTENT_TYPE
      end
  end.

Definition sec_bits (z : Z) : N := wrap_u 64 z.        (* value as u64 *)

(* the lazily evaluated tail of the OptionalCFrame arm: one marker byte per value; a missing byte gives None *)
Fixpoint ocf_values (l : list (vec3 * mat3)) (b : bytes) : list value * bytes :=
  match l with
  | [] => ([], b)
  | (p, r) :: rest =>
      match b with
      | [] => let '(vs, b') := ocf_values rest [] in (VOptionalCFrame None :: vs, b')
      | x :: b1 =>
          let '(vs, b') := ocf_values rest b1 in
          (VOptionalCFrame (if N.eqb x 0 then None else Some (mkCF p r)) :: vs, b')
      end
  end.

(* self.shared_strings.get(value as usize) for every value; None = the first miss (InvalidPropData) *)
Definition sstr_get (tbl : list bytes) (v : N) : option bytes :=
  if N.ltb v (N.of_nat (length tbl)) then nth_opt (N.to_nat v) tbl else None.
Fixpoint sstr_values (tbl : list bytes) (vs : list N) : option (list value) :=
  match vs with
  | [] => Some []
  | v :: r => match sstr_get tbl v with
              | Some s => match sstr_values tbl r with Some l => Some (VSharedString s :: l) | None => None end
              | None => None
              end
  end.

(* the body of the Color3uint8 arm *)
Definition dec_color3uint8_body (n : nat) : parser (list value) :=
  r <== read_exact n ;; g <== read_exact n ;; b <== read_exact n ;;
  pret (List.map (fun p => VColor3uint8 (fst (fst p)) (snd (fst p)) (snd p)) (zip (zip r g) b)).
(* the arm before repair 459caf55: only a property declared Color3 was accepted; kept for
   color3uint8_unknown_property_refuted *)
Definition dec_color3uint8_pinned (cty : N) (n : nat) : parser (list value) :=
  if N.eqb cty VT_Color3 then dec_color3uint8_body n else tmismatch.

Definition dec_col (ty : wire_type) (cty : N) (c : dec_ctx) (n : nat) : parser (list value) :=
  let lim := dc_lim c in
  match ty with
  | WString =>
      if N.eqb cty VT_Str then
        prepeat n (s <== read_bstr lim ;;
                   pret (VString (if utf8_valid s then s else utf8_lossy s)))   (* from_utf8 or from_utf8_lossy *)
      else if N.eqb cty VT_ContentId then
        prepeat n (s <== read_str lim ;; pret (VContentId s))
      else if N.eqb cty VT_BinaryString then
        prepeat n (s <== read_bstr lim ;; pret (VBinaryString s))
      else if N.eqb cty VT_Tags then
        prepeat n (s <== read_bstr lim ;;
                   match tags_decode s with Some ts => pret (VTags ts) | None => pfail E_INVALID_DATA end)
      else if N.eqb cty VT_Attributes then
        prepeat n (s <== read_bstr lim ;;
                   fun b => match attr_decode s with
                            | Ok m => Ok (VAttributes m, b)
                            | Err _ => Ok (VBinaryString s, b)                 (* falling back to BinaryString *)
                            | Panic => Panic
                            | OutOfFuel => OutOfFuel
                            end)
      else if N.eqb cty VT_MaterialColors then
        prepeat n (s <== read_bstr lim ;;
                   pret (match matcol_decode s with Some m => VMaterialColors m | None => VBinaryString s end))
      else tmismatch
  | WBool =>
      if N.eqb cty VT_Bool then prepeat n (b <== read_bool ;; pret (VBool b)) else tmismatch
  | WInt32 =>
      if N.eqb cty VT_Int32 then vs <== dec_i32_array n ;; pret (List.map VInt32 vs)
      else if N.eqb cty VT_Int64 then vs <== dec_i32_array n ;; pret (List.map VInt64 vs)      (* i64::from(value) *)
      else tmismatch
  | WFloat32 =>
      if N.eqb cty VT_Float32 then vs <== dec_f32_array n ;; pret (List.map VFloat32 vs)
      else if N.eqb cty VT_Float64 then                                  (* f64::from(value): a Float32 column for a Float64 property *)
        vs <== dec_f32_array n ;; pret (List.map (fun x => VFloat64 (f64_of_f32 x)) vs)
      else tmismatch
  | WFloat64 =>
      if N.eqb cty VT_Float64 then prepeat n (x <== read_f64le ;; pret (VFloat64 x)) else tmismatch
  | WUDim =>
      if N.eqb cty VT_UDim then
        s <== dec_f32_array n ;; o <== dec_i32_array n ;;
        pret (List.map (fun p => VUDim (mkUDim (fst p) (snd p))) (zip s o))
      else tmismatch
  | WUDim2 =>
      if N.eqb cty VT_UDim2 then
        sx <== dec_f32_array n ;; sy <== dec_f32_array n ;; ox <== dec_i32_array n ;; oy <== dec_i32_array n ;;
        pret (List.map (fun p => VUDim2 (fst p) (snd p))
                  (zip (List.map (fun q => mkUDim (fst q) (snd q)) (zip sx ox))
                       (List.map (fun q => mkUDim (fst q) (snd q)) (zip sy oy))))
      else tmismatch
  | WRay =>
      if N.eqb cty VT_Ray then
        prepeat n (ox <== read_f32le ;; oy <== read_f32le ;; oz <== read_f32le ;;
                   dx <== read_f32le ;; dy <== read_f32le ;; dz <== read_f32le ;;
                   pret (VRay (mkV3 ox oy oz) (mkV3 dx dy dz)))
      else tmismatch
  | WFaces =>
      if N.eqb cty VT_Faces then
        prepeat n (v <== read_u8 ;; if N.ltb v 64 then pret (VFaces v) else pfail E_INVALID_DATA)   (* Faces::from_bits *)
      else tmismatch
  | WAxes =>
      if N.eqb cty VT_Axes then
        prepeat n (v <== read_u8 ;; if N.ltb v 8 then pret (VAxes v) else pfail E_INVALID_DATA)     (* Axes::from_bits *)
      else tmismatch
  | WBrickColor =>
      if N.eqb cty VT_BrickColor then
        vs <== dec_u32_array n ;;
        fun b => match find (fun v => negb (N.ltb v 65536 && brick_valid v)) vs with    (* try_into::<u16>().ok().and_then(from_number) *)
                 | Some _ => Err E_INVALID_DATA
                 | None => Ok (List.map VBrickColor vs, b)
                 end
      else tmismatch
  | WColor3 =>
      if N.eqb cty VT_Color3 then
        r <== dec_f32_array n ;; g <== dec_f32_array n ;; b <== dec_f32_array n ;;
        pret (List.map (fun p => VColor3 (fst (fst p)) (snd (fst p)) (snd p)) (zip (zip r g) b))
      else tmismatch
  | WVector2 =>
      if N.eqb cty VT_Vector2 then
        x <== dec_f32_array n ;; y <== dec_f32_array n ;;
        pret (List.map (fun p => VVector2 (mkV2 (fst p) (snd p))) (zip x y))
      else tmismatch
  | WVector3 =>
      if N.eqb cty VT_Vector3 then ps <== dec_vec3_arrays n ;; pret (List.map VVector3 ps) else tmismatch
  | WCFrame =>
      if N.eqb cty VT_CFrame then
        rots <== prepeat n dec_rot ;;
        ps <== dec_vec3_arrays n ;;
        pret (List.map (fun p => VCFrame (mkCF (fst p) (snd p))) (zip ps rots))
      else tmismatch
  | WEnum =>
      if N.eqb cty VT_Enum then vs <== dec_u32_array n ;; pret (List.map VEnum vs) else tmismatch
  | WRef =>
      if N.eqb cty VT_Ref then vs <== dec_ref_array n ;; pret (List.map (fun v => VRef (dc_resolve c v)) vs) else tmismatch
  | WVector3int16 =>
      if N.eqb cty VT_Vector3int16 then
        prepeat n (x <== read_i16le ;; y <== read_i16le ;; z <== read_i16le ;; pret (VVector3int16 x y z))
      else tmismatch
  | WFont =>
      if N.eqb cty VT_Font then
        prepeat n (family <== read_str lim ;;
                   weight <== read_le 2 ;; style <== read_u8 ;;
                   cached <== read_str lim ;;
                   pret (VFont (mkFont family (font_weight_or_default weight) (font_style_or_default style)
                                       (match cached with [] => None | _ => Some cached end))))
      else tmismatch
  | WNumberSequence =>
      if N.eqb cty VT_NumberSequence then
        prepeat n (count <== read_le 4 ;; _ <== palloc lim (12 * count) ;;      (* Vec::with_capacity(keypoint_count) *)
                   kps <== pfor32 count (t <== read_f32le ;; v <== read_f32le ;; e <== read_f32le ;; pret (t, v, e)) ;;
                   pret (VNumberSequence kps))
      else tmismatch
  | WColorSequence =>
      if N.eqb cty VT_ColorSequence then
        prepeat n (count <== read_le 4 ;; _ <== palloc lim (16 * count) ;;
                   kps <== pfor32 count (t <== read_f32le ;; r <== read_f32le ;; g <== read_f32le ;; b <== read_f32le ;;
                                         _ <== read_f32le ;; pret (t, (r, g, b))) ;;
                   pret (VColorSequence kps))
      else tmismatch
  | WNumberRange =>
      if N.eqb cty VT_NumberRange then
        prepeat n (lo <== read_f32le ;; hi <== read_f32le ;; pret (VNumberRange lo hi))
      else tmismatch
  | WRect =>
      if N.eqb cty VT_Rect then
        x0 <== dec_f32_array n ;; y0 <== dec_f32_array n ;; x1 <== dec_f32_array n ;; y1 <== dec_f32_array n ;;
        pret (List.map (fun p => VRect (fst p) (snd p))
                  (zip (List.map (fun q => mkV2 (fst q) (snd q)) (zip x0 y0))
                       (List.map (fun q => mkV2 (fst q) (snd q)) (zip x1 y1))))
      else tmismatch
  | WPhysicalProperties =>
      if N.eqb cty VT_PhysicalProperties then
        prepeat n (tag <== read_u8 ;;
                   if N.eqb tag 1 then
                     d <== read_f32le ;; f <== read_f32le ;; e <== read_f32le ;; fw <== read_f32le ;; ew <== read_f32le ;;
                     pret (VPhysicalProperties (Some (mkPhys d f e fw ew)))
                   else pret (VPhysicalProperties None))
      else tmismatch
  | WColor3uint8 =>
      if N.eqb cty VT_Color3 || N.eqb cty VT_Color3uint8 then           (* VariantType::Color3 | VariantType::Color3uint8 *)
        dec_color3uint8_body n
      else tmismatch
  | WInt64 =>
      if N.eqb cty VT_Int64 then vs <== dec_i64_array n ;; pret (List.map VInt64 vs) else tmismatch
  | WSharedString =>
      if N.eqb cty VT_SharedString then
        vs <== dec_u32_array n ;;
        fun b => match sstr_values (dc_sstr c) vs with
                 | Some l => Ok (l, b)
                 | None => Err E_INVALID_DATA
                 end
      else tmismatch
  | WOptionalCFrame =>
      if N.eqb cty VT_OptionalCFrame then
        m1 <== read_u8 ;;
        if negb (N.eqb m1 (wire_id WCFrame)) then pfail E_OCF_FORMAT else
        rots <== prepeat n dec_rot ;;
        ps <== dec_vec3_arrays n ;;
        m2 <== read_u8 ;;
        if negb (N.eqb m2 (wire_id WBool)) then pfail E_OCF_FORMAT else
        (* .map(|(position, rotation)| if chunk.read_u8().ok()? == 0 { None } else { Some(..) }): EOF gives None *)
        fun b => Ok (ocf_values (zip ps rots) b)
      else tmismatch
  | WUniqueId =>
      if N.eqb cty VT_UniqueId then
        buf <== read_exact (n * 16) ;;
        pret (List.map (fun row => VUniqueId (of_be (firstn 4 row)) (of_be (firstn 4 (skipn 4 row)))
                                        (wrap_s 64 (rotr64 (of_be (skipn 8 row)))))     (* read_be_i64()?.rotate_right(1) *)
                  (deinterleave 16 n buf))
      else tmismatch
  | WSecurityCapabilities =>
      if N.eqb cty VT_SecurityCapabilities then
        vs <== dec_i64_array n ;; pret (List.map (fun z => VSecurityCapabilities (sec_bits z)) vs)
      else tmismatch
  | WContent =>
      if N.eqb cty VT_Content then
        source_types <== dec_i32_array n ;;
        uri_count <== read_le 4 ;;
        _ <== palloc lim (24 * uri_count) ;;                            (* VecDeque::with_capacity(uri_count) of String *)
        us <== pfor32 uri_count (read_str lim) ;;
        let uris := rev us in                                           (* uris.push_front(..) for each: front = last read *)
        object_count <== read_le 4 ;;
        _ <== palloc lim (4 * object_count) ;;                          (* vec![0; object_count] *)
        (fun b => if N.ltb (N.of_nat (length b)) (4 * object_count) then Err E_EOF
                  else (objects <== dec_ref_array (N.to_nat object_count) ;;
                        (* chunk.read_le_u32()? *)
                        fun b2 => match read_le 4 b2 with
                                  | Ok (external_count, b3) =>
                                      match palloc lim (4 * external_count) b3 with      (* vec![0; external_count * 4] *)
                                      | Ok (_, _) =>
                                          (* chunk.read_to_end(&mut bytes): the rest of the chunk *)
                                          match content_values c source_types uris objects with
                                          | Ok vs => Ok (vs, [])
                                          | Panic => Panic | Err e => Err e | OutOfFuel => OutOfFuel
                                          end
                                      | Err e => Err e | Panic => Panic | OutOfFuel => OutOfFuel
                                      end
                                  | Err e => Err e | Panic => Panic | OutOfFuel => OutOfFuel
                                  end) b)
      else tmismatch
  end.
