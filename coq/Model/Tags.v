(* Tags.v — layer L1: rbx_types/src/tags.rs.  `Tags` is a Vec<String>; its blob form joins the members with
   NUL bytes (`members.join("\0")`), and `decode` splits the buffer on NUL, DROPS EMPTY PIECES
   (`filter(|t| !t.is_empty())`) and requires every remaining piece to be UTF-8 (`String::from_utf8`,
   the first invalid piece aborts).  Definitions only; Proofs/TagsFacts.v proves exactly when
   decode (encode ts) = ts. *)
From RbxVerif Require Export Base Bytes Utf8.
Open Scope N_scope.

Definition ERR_TAGS_UTF8 : N := 20.       (* FromUtf8Error *)

(* [String]::join("\0") *)
Fixpoint tags_encode (ts : list bytes) : bytes :=
  match ts with
  | [] => []
  | [t] => t
  | t :: r => t ++ 0 :: tags_encode r
  end.

(* buf.split(|b| *b == 0): the first piece and the remaining pieces (a split always yields >= 1 piece) *)
Fixpoint split0 (b : bytes) : bytes * list bytes :=
  match b with
  | [] => ([], [])
  | x :: r => let (p, ps) := split0 r in
              if x =? 0 then ([], p :: ps) else (x :: p, ps)
  end.
Definition pieces (b : bytes) : list bytes := let (p, ps) := split0 b in p :: ps.

(* .map(String::from_utf8).collect::<Result<Vec<_>, _>>() *)
Fixpoint collect_utf8 (ps : list bytes) : res (list bytes) :=
  match ps with
  | [] => Ok []
  | p :: r => if utf8_valid p then (r' <- collect_utf8 r ;; Ok (p :: r')) else Err ERR_TAGS_UTF8
  end.

Definition tags_decode (b : bytes) : res (list bytes) :=
  collect_utf8 (filter (fun p => negb (match p with [] => true | _ => false end)) (pieces b)).
