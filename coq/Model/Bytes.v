(* Bytes.v — layer L0: bytes, little/big-endian integers, two's complement wrap, zigzag transform,
   float sign rotation, byte interleaving and referent delta coding of rbx_binary/src/core.rs, and
   the byte-stream reader monad used by all decoders.  Literal transliterations; their arithmetic
   meaning and round-trip laws are proved in Proofs/BytesFacts.v.  Definitions only. *)
From RbxVerif Require Export Base.
Open Scope N_scope.

Definition bytes := list N.                      (* each < 256 *)
Definition bytes_ok (b : bytes) : bool := forallb (fun x => N.ltb x 256) b.

(* ---- fixed-width integers ---- *)
Fixpoint le_bytes (n : nat) (v : N) : bytes :=
  match n with O => [] | S k => (v mod 256) :: le_bytes k (v / 256) end.
Definition be_bytes (n : nat) (v : N) : bytes := rev (le_bytes n v).
Fixpoint of_le (bs : bytes) : N := match bs with [] => 0 | b :: r => b + 256 * of_le r end.
Definition of_be (bs : bytes) : N := of_le (rev bs).

(* `as uN` of a mathematical integer, and the signed reading of an N-bit pattern *)
Definition wrap_u (w : N) (z : Z) : N := Z.to_N (z mod (2 ^ Z.of_N w))%Z.
Definition wrap_s (w : N) (n : N) : Z :=
  if N.ltb n (2 ^ (w - 1)) then Z.of_N n else (Z.of_N n - 2 ^ Z.of_N w)%Z.
Definition to_i32 (z : Z) : Z := wrap_s 32 (wrap_u 32 z).
Definition to_i64 (z : Z) : Z := wrap_s 64 (wrap_u 64 z).
Definition i32_bits (z : Z) : N := wrap_u 32 z.
Definition i64_bits (z : Z) : N := wrap_u 64 z.
Definition in_i32 (z : Z) : bool := (Z.leb (-2147483648) z && Z.ltb z 2147483648)%Z.
Definition in_i64 (z : Z) : bool := (Z.leb (-9223372036854775808) z && Z.ltb z 9223372036854775808)%Z.
Definition in_i16 (z : Z) : bool := (Z.leb (-32768) z && Z.ltb z 32768)%Z.

(* core.rs: transform_i32 = (value << 1) ^ (value >> 31); untransform_i32 = ((value as u32) >> 1) as i32 ^ -(value & 1) *)
Definition transform_i32 (v : Z) : Z := to_i32 (Z.lxor (Z.shiftl v 1) (Z.shiftr v 31)).
Definition untransform_i32 (v : Z) : Z :=
  to_i32 (Z.lxor (Z.shiftr (Z.of_N (wrap_u 32 v)) 1) (- (Z.land v 1))).
Definition transform_i64 (v : Z) : Z := to_i64 (Z.lxor (Z.shiftl v 1) (Z.shiftr v 63)).
Definition untransform_i64 (v : Z) : Z :=
  to_i64 (Z.lxor (Z.shiftr (Z.of_N (wrap_u 64 v)) 1) (- (Z.land v 1))).

(* u32::rotate_left(1) / rotate_right(1), u64 likewise *)
Definition rotl32 (n : N) : N := (n * 2) mod 4294967296 + n / 2147483648.
Definition rotr32 (n : N) : N := n / 2 + (n mod 2) * 2147483648.
Definition rotl64 (n : N) : N := (n * 2) mod 18446744073709551616 + n / 9223372036854775808.
Definition rotr64 (n : N) : N := n / 2 + (n mod 2) * 9223372036854775808.

(* ---- interleaving: blob[i + len * j] = values[i][j] ---- *)
Definition nth_byte (k : nat) (b : bytes) : N := nth k b 0.
Definition interleave (width : nat) (rows : list bytes) : bytes :=
  flat_map (fun j => List.map (nth_byte j) rows) (seq 0 width).
Definition deinterleave (width len : nat) (buf : bytes) : list bytes :=
  List.map (fun i => List.map (fun j => nth_byte (i + len * j) buf) (seq 0 width)) (seq 0 len).

(* ---- referent arrays: delta coding with i32 wrap-around ---- *)
Fixpoint delta_encode (last : Z) (vs : list Z) : list Z :=
  match vs with [] => [] | v :: r => to_i32 (v - last) :: delta_encode v r end.
Fixpoint delta_decode (last : Z) (ds : list Z) : list Z :=
  match ds with [] => [] | d :: r => let v := to_i32 (d + last) in v :: delta_decode v r end.

Definition enc_i32_array (vs : list Z) : bytes :=
  interleave 4 (List.map (fun v => be_bytes 4 (i32_bits (transform_i32 v))) vs).
Definition enc_u32_array (vs : list N) : bytes := interleave 4 (List.map (be_bytes 4) vs).
Definition enc_f32_array (vs : list N) : bytes := interleave 4 (List.map (fun v => be_bytes 4 (rotl32 v)) vs).
Definition enc_i64_array (vs : list Z) : bytes :=
  interleave 8 (List.map (fun v => be_bytes 8 (i64_bits (transform_i64 v))) vs).
Definition enc_ref_array (vs : list Z) : bytes := enc_i32_array (delta_encode 0 vs).

(* ---- byte-stream reader: a decoder consumes a prefix of the input or fails ---- *)
Definition ERR_EOF : N := 1.          (* io::ErrorKind::UnexpectedEof *)
Definition parser (A : Type) := bytes -> res (A * bytes).
Definition pret {A} (a : A) : parser A := fun b => Ok (a, b).
Definition pbind {A B} (p : parser A) (f : A -> parser B) : parser B :=
  fun b => match p b with Ok (a, b') => f a b' | Panic => Panic | Err c => Err c | OutOfFuel => OutOfFuel end.
Definition pfail {A} (c : N) : parser A := fun _ => Err c.

Fixpoint take_n (n : nat) (b : bytes) : option (bytes * bytes) :=
  match n with
  | O => Some ([], b)
  | S k => match b with
           | [] => None
           | x :: r => match take_n k r with Some (h, t) => Some (x :: h, t) | None => None end
           end
  end.
(* read_exact *)
Definition read_exact (n : nat) : parser bytes :=
  fun b => match take_n n b with Some (h, t) => Ok (h, t) | None => Err ERR_EOF end.
Definition read_u8 : parser N := pbind (read_exact 1) (fun b => pret (of_le b)).
Definition read_le (n : nat) : parser N := pbind (read_exact n) (fun b => pret (of_le b)).
Definition read_be (n : nat) : parser N := pbind (read_exact n) (fun b => pret (of_be b)).
Definition read_le_i (n : nat) (w : N) : parser Z := pbind (read_le n) (fun v => pret (wrap_s w v)).

Definition dec_i32_array (len : nat) : parser (list Z) :=
  pbind (read_exact (len * 4)) (fun buf =>
    pret (List.map (fun row => untransform_i32 (wrap_s 32 (of_be row))) (deinterleave 4 len buf))).
Definition dec_u32_array (len : nat) : parser (list N) :=
  pbind (read_exact (len * 4)) (fun buf => pret (List.map of_be (deinterleave 4 len buf))).
Definition dec_f32_array (len : nat) : parser (list N) :=
  pbind (read_exact (len * 4)) (fun buf => pret (List.map (fun row => rotr32 (of_be row)) (deinterleave 4 len buf))).
Definition dec_i64_array (len : nat) : parser (list Z) :=
  pbind (read_exact (len * 8)) (fun buf =>
    pret (List.map (fun row => untransform_i64 (wrap_s 64 (of_be row))) (deinterleave 8 len buf))).
Definition dec_ref_array (len : nat) : parser (list Z) :=
  pbind (dec_i32_array len) (fun ds => pret (delta_decode 0 ds)).

(* repeat a parser n times *)
Fixpoint prepeat {A} (n : nat) (p : parser A) : parser (list A) :=
  match n with
  | O => pret []
  | S k => pbind p (fun a => pbind (prepeat k p) (fun r => pret (a :: r)))
  end.
