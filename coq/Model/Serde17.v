(* Serde17.v — the hand-written `Serialize` / `Deserialize` impls of rbx_types at the level of the serde DATA MODEL
   (Model/SerdeTok.v): what each impl says to a `Serializer` (`ser_T : smode -> T -> list tok`) and what it accepts from a
   `Deserializer` that presents a token stream (`de_T : smode -> list tok -> res (T * list tok)`, the value and the unread
   tokens).  Transliterated from the `mod serde_impl` blocks of
     rbx_types/src/{axes.rs, faces.rs, binary_string.rs, shared_string.rs, brick_color.rs, referent.rs, unique_id.rs,
                    physical_properties.rs}
   and, for what these delegate to, from serde 1.0.229 (`impl Deserialize for u8 / u16 / f32 / String / Vec<T>`,
   `IgnoredAny`, `collect_seq`) and serde_derive 1.0.229 (`CustomPhysicalProperties`: struct, `rename_all = "camelCase"`,
   no `deny_unknown_fields`; `TaggedPhysicalProperties`: externally tagged enum).

   The Deserializer is the replaying one of harness/src/serdetok.rs (`Play`): SELF-DESCRIBING, i.e. every `deserialize_*`
   hint except `option` / `enum` / `newtype_struct` is answered by the token at hand (`deserialize_any`), like serde_json:
     token            visitor method               token            visitor method
     TBool            visit_bool                   TSeq _ ..        visit_seq (elements up to TSeqEnd, which is then required)
     TU8..TU64        visit_u8..visit_u64          TTuple _ ..      visit_seq (elements up to TTupleEnd, then required)
     TU128            visit_u128                   TMap _ ..        visit_map (keys = any value; up to TMapEnd, then required)
     TI8..TI64        visit_i8..visit_i64          TStruct _ _ ..   visit_map (keys = TField; up to TStructEnd, then required)
     TF32 / TF64      visit_f32 / visit_f64        TNewtypeStruct   visit_newtype_struct
     TStr s           visit_str (s must be UTF-8, else D::Error)    T*Variant        visit_enum
     TBytes b         visit_bytes                  TNone/TSome/TUnit  visit_none / visit_some / visit_unit
   closers and TField in value position, and the end of the tokens, are a D::Error.  A visitor method that an impl does
   not define is serde's default: `Err(invalid_type)`.  `Err c` = a `D::Error` (the codes below only tell the causes
   apart, the harness compares `ERR` only); nothing here can panic (SerdeFacts.de_value17_no_panic), and no loop needs
   fuel: every loop consumes one token per step, so it is a structural recursion on the token list.

   Values: Axes / Faces = the bits (u8); BinaryString / SharedString = the bytes; BrickColor = its number (u16);
   PhysicalProperties = `option physprops` (None = Default; f32 fields are bit patterns); Ref = the u128 (0 = Ref::none());
   UniqueId = index, time (u32) and random (i64).  Definitions only; Proofs/SerdeFacts.v.

   Correspondence (harness `serdetok-run`, real impls behind the recording Serializer / replaying Deserializer): the 254
   reference cases of the recorder (all Axes and Faces sets, byte strings, BrickColors, PhysicalProperties, Refs,
   UniqueIds, both modes) give token for token the streams of `ser_value17`, and `de_value17` returns what the impls
   return on them and on about 20 000 hostile streams (wrong token kinds, closers moved, tuples for sequences, bytes for
   strings, maps with string / bytes / index keys, unknown fields with nested values, f64 and integer tokens for f32
   fields incl. NaNs, bad UTF-8, bad base64, bad hex): same value, same number of unread tokens, same ERR; no PANIC.
   One thing is the replaying Deserializer's and not serde's in general: a unit / struct / tuple VARIANT token under
   IgnoredAny is an error there (IgnoredAny::visit_enum asks for a newtype variant); self-describing formats present a
   unit variant as a string. *)
From RbxVerif Require Export Base Bytes Value Utf8 Hex BitSets BrickColor SerdeTok.
From RbxVerif Require Import XmlValues.
From Coq Require Import String Ascii.
Open Scope N_scope.

(* ------------------------------------------------------------------------------ error codes (D::Error causes) *)
Definition ERR_TOK_EOF : N := 200.        (* `Play::next`: "end of tokens" *)
Definition ERR_TOK_TYPE : N := 201.       (* the visitor has no method for the token at hand (invalid_type) / stray closer *)
Definition ERR_TOK_UTF8 : N := 202.       (* a string (or bytes taken as a String) that is not UTF-8 *)
Definition ERR_TOK_RANGE : N := 203.      (* an integer token that does not fit the integer type asked for (invalid_value) *)
Definition ERR_B64 : N := 205.            (* base64::DecodeError *)
Definition ERR_BRICK : N := 206.          (* "{} is not a valid BrickColor number" *)
Definition ERR_PHYS_STR : N := 207.       (* invalid_value(Str, "the string \"Default\" or ...") *)
Definition ERR_FIELD_DUP : N := 208.      (* duplicate_field *)
Definition ERR_FIELD_MISSING : N := 209.  (* missing_field *)
Definition ERR_VARIANT : N := 210.        (* unknown_variant / not the kind of variant asked for *)
Definition ERR_UID_BYTES : N := 211.      (* "invalid length of byte sequence: {}" *)
Definition ERR_SEQ_LEN : N := 212.        (* invalid_length / an element too many before the closer *)
Definition ERR_REF_STR : N := 213.        (* ParseIntError of u128::from_str_radix *)
Definition ERR_TYPE_TAG : N := 214.       (* run_de17: no such type tag (runner only) *)

(* ------------------------------------------------------------------------------ the replaying Deserializer, per token *)
(* what ends the elements of a TSeq / TTuple / TMap / TStruct *)
Inductive closer := CSeqEnd | CTupleEnd | CMapEnd | CStructEnd.
Definition closes (c : closer) (t : tok) : bool :=
  match c, t with
  | CSeqEnd, TSeqEnd => true
  | CTupleEnd, TTupleEnd => true
  | CMapEnd, TMapEnd => true
  | CStructEnd, TStructEnd => true
  | _, _ => false
  end.

(* `uN::deserialize` (serde impl_deserialize_num!: visit_u8..u64 and visit_i8..i64 with a range check; visit_u128,
   floats and everything else are the default invalid_type); hi = uN::MAX *)
Definition uint_of_tok (hi : N) (t : tok) : res N :=
  match t with
  | TU8 n | TU16 n | TU32 n | TU64 n => if n <=? hi then Ok n else Err ERR_TOK_RANGE
  | TI8 z | TI16 z | TI32 z | TI64 z =>
      if (0 <=? z)%Z && (Z.to_N z <=? hi) then Ok (Z.to_N z) else Err ERR_TOK_RANGE
  | _ => Err ERR_TOK_TYPE
  end.

(* `String::deserialize` (StringVisitor: visit_str, visit_string, visit_bytes / visit_byte_buf through from_utf8) *)
Definition string_of_tok (t : tok) : res bytes :=
  match t with
  | TStr s | TBytes s => if utf8_valid s then Ok s else Err ERR_TOK_UTF8
  | _ => Err ERR_TOK_TYPE
  end.

(* a visitor that defines `visit_str` only *)
Definition str_of_tok (t : tok) : res bytes :=
  match t with
  | TStr s => if utf8_valid s then Ok s else Err ERR_TOK_UTF8
  | _ => Err ERR_TOK_TYPE
  end.

(* ---- `f32::deserialize`: visit_f32 is the identity; visit_f64 and the integer visitors are `v as f32` ---- *)
(* m / 2^sh rounded to nearest, ties to even *)
Definition rne_shr (m sh : N) : N :=
  if sh =? 0 then m else
  let q := N.shiftr m sh in
  let r := m mod 2 ^ sh in
  let half := 2 ^ (sh - 1) in
  if (half <? r) || ((r =? half) && N.odd q) then q + 1 else q.

(* the f32 magnitude (bits 0..30) nearest to m * 2^e, ties to even, infinity when too large: IEEE 754 conversion,
   which is what `as f32` is for integers and finite f64s.  q = exponent of the last place kept (>= -149: subnormals);
   a mantissa that rounds up to 2^24 carries into the exponent field by the addition. *)
Definition f32_round (m : N) (e : Z) : N :=
  if m =? 0 then 0 else
  let k := Z.of_N (N.log2 m) in
  let q := Z.max (k + e - 23) (-149) in
  let r := if (q <=? e)%Z then N.shiftl m (Z.to_N (e - q)) else rne_shr m (Z.to_N (q - e)) in
  let bits := Z.to_N (q + 149) * 8388608 + r in
  if 2139095040 <=? bits then 2139095040 else bits.

Definition f32_of_N (n : N) : N := f32_round n 0.
Definition f32_of_Z (z : Z) : N :=
  if (z <? 0)%Z then 2147483648 + f32_round (Z.to_N (- z)) 0 else f32_round (Z.to_N z) 0.

(* `(v as f32).copysign(sign of v)` of an f64 bit pattern.  For a NaN Rust leaves the payload of `as` unspecified; the
   model takes what x86-64 (cvtsd2ss) and aarch64 (fcvt) produce: quiet bit set, the top 22 payload bits kept. *)
Definition f64_to_f32 (b : N) : N :=
  let s := (b / 9223372036854775808) mod 2 in
  let ex := (b / 4503599627370496) mod 2048 in
  let mant := b mod 4503599627370496 in
  s * 2147483648 +
  (if ex =? 2047 then
     if mant =? 0 then 2139095040 else N.lor 2143289344 (mant / 536870912)
   else f32_round (if ex =? 0 then mant else 4503599627370496 + mant) (Z.of_N (N.max ex 1) - 1075)).

Definition f32_of_tok (t : tok) : res N :=
  match t with
  | TF32 b => Ok b
  | TF64 b => Ok (f64_to_f32 b)
  | TU8 n | TU16 n | TU32 n | TU64 n => Ok (f32_of_N n)
  | TI8 z | TI16 z | TI32 z | TI64 z => Ok (f32_of_Z z)
  | _ => Err ERR_TOK_TYPE
  end.

(* ------------------------------------------------------------------------------ Axes, Faces *)
(* `self.len()` = bits().count_ones() *)
Definition count_ones8 (b : N) : N := N.of_nat (List.length (filter (N.testbit b) [0; 1; 2; 3; 4; 5; 6; 7])).

Definition ser_flags (t : flag_table) (m : smode) (bits : N) : list tok :=
  match m with
  | Human => TSeq (Some (count_ones8 bits)) :: List.map TStr (flags_names t bits) ++ [TSeqEnd]
  | Compact => [TU8 (flags_to_byte bits)]
  end.

(* HumanVisitor::visit_seq: `while let Some(s) = seq.next_element::<String>()? { flags |= FLAG of s, or Err }`; the
   closer that ends the elements is consumed here (`Play::deserialize_any` expects it after visit_seq returns) *)
Fixpoint flag_elems (t : flag_table) (e : closer) (acc : N) (ts : list tok) : res (N * list tok) :=
  match ts with
  | [] => Err ERR_TOK_EOF
  | tk :: r =>
    if closes e tk then Ok (acc, r) else
    s <- string_of_tok tk ;;
    match flag_of_name t s with
    | Some f => flag_elems t e (N.lor acc f) r
    | None => Err ERR_FLAG_NAME
    end
  end.

(* human: `deserialize_seq(HumanVisitor)` (visit_seq only: a TSeq or a TTuple); else `u8::deserialize` then from_bits *)
Definition de_flags (t : flag_table) (m : smode) (ts : list tok) : res (N * list tok) :=
  match m with
  | Human =>
    match ts with
    | [] => Err ERR_TOK_EOF
    | TSeq _ :: r => flag_elems t CSeqEnd 0 r
    | TTuple _ :: r => flag_elems t CTupleEnd 0 r
    | _ :: _ => Err ERR_TOK_TYPE
    end
  | Compact =>
    match ts with
    | [] => Err ERR_TOK_EOF
    | tk :: r => b <- uint_of_tok 255 tk ;; x <- flags_of_byte t b ;; Ok (x, r)
    end
  end.

Definition ser_Axes := ser_flags AXES.
Definition de_Axes := de_flags AXES.
Definition ser_Faces := ser_flags FACES.
Definition de_Faces := de_flags FACES.

(* ------------------------------------------------------------------------------ BinaryString, SharedString *)
(* human: `serialize_str(&base64::encode(buffer))`; else `Vec<u8>` / `[u8]`::serialize = collect_seq: serialize_seq(Some(len)),
   one serialize_u8 per byte, end *)
Definition ser_bytes17 (m : smode) (b : bytes) : list tok :=
  match m with
  | Human => [TStr (b64_encode b)]
  | Compact => TSeq (Some (N.of_nat (List.length b))) :: List.map TU8 b ++ [TSeqEnd]
  end.

(* VecVisitor::visit_seq: `while let Some(v) = seq.next_element::<u8>()? { values.push(v) }`, closer consumed *)
Fixpoint vec_u8_elems (e : closer) (ts : list tok) : res (bytes * list tok) :=
  match ts with
  | [] => Err ERR_TOK_EOF
  | tk :: r =>
    if closes e tk then Ok ([], r) else
    b <- uint_of_tok 255 tk ;;
    '(bs, r') <- vec_u8_elems e r ;;
    Ok (b :: bs, r')
  end.

(* human: `String::deserialize` then base64::decode; else `<Vec<u8>>::deserialize` (visit_seq only) *)
Definition de_bytes17 (m : smode) (ts : list tok) : res (bytes * list tok) :=
  match m with
  | Human =>
    match ts with
    | [] => Err ERR_TOK_EOF
    | tk :: r =>
      s <- string_of_tok tk ;;
      match b64_decode s with Some b => Ok (b, r) | None => Err ERR_B64 end
    end
  | Compact =>
    match ts with
    | [] => Err ERR_TOK_EOF
    | TSeq _ :: r => vec_u8_elems CSeqEnd r
    | TTuple _ :: r => vec_u8_elems CTupleEnd r
    | _ :: _ => Err ERR_TOK_TYPE
    end
  end.

Definition ser_BinaryString := ser_bytes17.
Definition de_BinaryString := de_bytes17.
Definition ser_SharedString := ser_bytes17.      (* `self.data()`; SharedString::new(buffer) on the way back *)
Definition de_SharedString := de_bytes17.

(* ------------------------------------------------------------------------------ BrickColor (both modes alike) *)
Definition ser_BrickColor (m : smode) (n : N) : list tok := [TU16 n].
Definition de_BrickColor (m : smode) (ts : list tok) : res (N * list tok) :=
  match ts with
  | [] => Err ERR_TOK_EOF
  | tk :: r => n <- uint_of_tok 65535 tk ;; if brick_valid n then Ok (n, r) else Err ERR_BRICK
  end.

(* ------------------------------------------------------------------------------ Ref *)
Definition ser_Ref (m : smode) (n : N) : list tok :=
  match m with Human => [TStr (ref_display n)] | Compact => [TU128 n] end.
(* `deserialize_str(RefVisitor)` / `deserialize_u128(RefVisitor)`: the same visitor, and a self-describing Deserializer
   answers both hints by the token, so either mode takes both forms: visit_u128, visit_str (from_str_radix 16) *)
Definition de_Ref (m : smode) (ts : list tok) : res (N * list tok) :=
  match ts with
  | [] => Err ERR_TOK_EOF
  | TU128 n :: r => Ok (n, r)
  | TStr s :: r =>
    if utf8_valid s then
      match ref_from_str s with Ok n => Ok (n, r) | Panic => Panic | Err _ => Err ERR_REF_STR | OutOfFuel => OutOfFuel end
    else Err ERR_TOK_UTF8
  | _ :: _ => Err ERR_TOK_TYPE
  end.

(* ------------------------------------------------------------------------------ UniqueId *)
Definition ser_UniqueId (m : smode) (index time : N) (random : Z) : list tok :=
  match m with
  | Human => [TStr (uid_display index time random)]
  | Compact => [TBytes (be_bytes 8 (wrap_u 64 random) ++ be_bytes 4 time ++ be_bytes 4 index)]
  end.
(* HumanVisitor: visit_str = `v.parse()`; NonHumanVisitor: visit_bytes, 16 bytes big endian random, time, index *)
Definition de_UniqueId (m : smode) (ts : list tok) : res (N * N * Z * list tok) :=
  match m with
  | Human =>
    match ts with
    | [] => Err ERR_TOK_EOF
    | TStr s :: r =>
      if utf8_valid s then '(index, time, random) <- uid_from_str s ;; Ok (index, time, random, r)
      else Err ERR_TOK_UTF8
    | _ :: _ => Err ERR_TOK_TYPE
    end
  | Compact =>
    match ts with
    | [] => Err ERR_TOK_EOF
    | TBytes v :: r =>
      if Nat.eqb (List.length v) 16 then
        Ok (of_be (slice v 12 16), of_be (slice v 8 12), wrap_s 64 (of_be (slice v 0 8)), r)
      else Err ERR_UID_BYTES
    | _ :: _ => Err ERR_TOK_TYPE
    end
  end.

(* ------------------------------------------------------------------------------ PhysicalProperties *)
Definition S_DEFAULT : bytes := str_bytes "Default".
Definition S_CUSTOM : bytes := str_bytes "Custom".
Definition S_TAGGED : bytes := str_bytes "TaggedPhysicalProperties".
Definition S_CUSTOMPP : bytes := str_bytes "CustomPhysicalProperties".
Definition S_DENSITY : bytes := str_bytes "density".
Definition S_FRICTION : bytes := str_bytes "friction".
Definition S_ELASTICITY : bytes := str_bytes "elasticity".
Definition S_FRICTION_WEIGHT : bytes := str_bytes "frictionWeight".        (* rename_all = "camelCase" *)
Definition S_ELASTICITY_WEIGHT : bytes := str_bytes "elasticityWeight".

(* #[derive(Serialize)] struct CustomPhysicalProperties *)
Definition ser_custom (p : physprops) : list tok :=
  [ TStruct S_CUSTOMPP 5;
    TField S_DENSITY; TF32 (ph_density p);
    TField S_FRICTION; TF32 (ph_friction p);
    TField S_ELASTICITY; TF32 (ph_elasticity p);
    TField S_FRICTION_WEIGHT; TF32 (ph_friction_weight p);
    TField S_ELASTICITY_WEIGHT; TF32 (ph_elasticity_weight p);
    TStructEnd ].

(* human: "Default" or the struct itself; else #[derive(Serialize)] enum TaggedPhysicalProperties { Default, Custom(..) } *)
Definition ser_PhysicalProperties (m : smode) (v : option physprops) : list tok :=
  match m, v with
  | Human, None => [TStr S_DEFAULT]
  | Human, Some p => ser_custom p
  | Compact, None => [TUnitVariant S_TAGGED 0 S_DEFAULT]
  | Compact, Some p => TNewtypeVariant S_TAGGED 1 S_CUSTOM :: ser_custom p
  end.

(* ---- serde::de::IgnoredAny over the replaying Deserializer (the value of a field the struct does not have) ----
   IgnoredAny accepts every scalar, looks inside TSome / TNewtypeStruct / TNewtypeVariant (visit_enum asks for a newtype
   variant: the other variant kinds are a D::Error), and walks sequences and maps to their closers.  The recursion of the
   Rust code is kept as a stack of what is still open; each step takes one token. *)
Inductive frame :=
| FVal                   (* one value is owed *)
| FSeq (e : closer)      (* inside a TSeq / TTuple: an element or the closer *)
| FMapK | FMapV          (* inside a TMap: a key or TMapEnd / the value of the key just read *)
| FStK | FStV.           (* inside a TStruct: a TField or TStructEnd / the value of that field *)

Definition ign_value (t : tok) (st : list frame) : option (list frame) :=
  match t with
  | TBool _ | TU8 _ | TU16 _ | TU32 _ | TU64 _ | TU128 _ | TI8 _ | TI16 _ | TI32 _ | TI64 _
  | TF32 _ | TF64 _ | TBytes _ | TNone | TUnit => Some st
  | TStr s => if utf8_valid s then Some st else None
  | TSome | TNewtypeStruct _ | TNewtypeVariant _ _ _ => Some (FVal :: st)
  | TSeq _ => Some (FSeq CSeqEnd :: st)
  | TTuple _ => Some (FSeq CTupleEnd :: st)
  | TMap _ => Some (FMapK :: st)
  | TStruct _ _ => Some (FStK :: st)
  | _ => None
  end.

Definition ign_step (f : frame) (t : tok) (st : list frame) : option (list frame) :=
  match f with
  | FVal => ign_value t st
  | FSeq e => if closes e t then Some st else ign_value t (FSeq e :: st)
  | FMapK => if closes CMapEnd t then Some st else ign_value t (FMapV :: st)
  | FMapV => ign_value t (FMapK :: st)
  | FStK => match t with TStructEnd => Some st | TField _ => Some (FStV :: st) | _ => None end
  | FStV => ign_value t (FStK :: st)
  end.

(* `IgnoredAny::deserialize` with `st` still open: the unread tokens *)
Fixpoint ign_run (st : list frame) (ts : list tok) : res (list tok) :=
  match st with
  | [] => Ok ts
  | f :: st' =>
    match ts with
    | [] => Err ERR_TOK_EOF
    | t :: r => match ign_step f t st' with Some st2 => ign_run st2 r | None => Err ERR_TOK_TYPE end
    end
  end.
Definition ignored_any (ts : list tok) : res (list tok) := ign_run [FVal] ts.

(* ---- #[derive(Deserialize)] struct CustomPhysicalProperties ---- *)
Inductive cfield := CDensity | CFriction | CElasticity | CFrictionWeight | CElasticityWeight.
Inductive ckey := KField (f : cfield) | KIgnore.

(* __FieldVisitor: visit_str / visit_bytes by name, visit_u64 by declaration index; anything else is `__ignore` *)
Definition field_of_name (s : bytes) : ckey :=
  if bytes_eqb s S_DENSITY then KField CDensity
  else if bytes_eqb s S_FRICTION then KField CFriction
  else if bytes_eqb s S_ELASTICITY then KField CElasticity
  else if bytes_eqb s S_FRICTION_WEIGHT then KField CFrictionWeight
  else if bytes_eqb s S_ELASTICITY_WEIGHT then KField CElasticityWeight
  else KIgnore.
Definition field_of_index (n : N) : ckey :=
  match n with
  | 0 => KField CDensity | 1 => KField CFriction | 2 => KField CElasticity
  | 3 => KField CFrictionWeight | 4 => KField CElasticityWeight
  | _ => KIgnore
  end.

(* the key of the next entry: in a TStruct a TField (given to the visitor as a str); in a TMap any token, of which the
   field visitor takes strings, bytes and unsigned integers (visit_u8.. forward to visit_u64; visit_i*, visit_u128 do not) *)
Definition custom_key (raw : bool) (t : tok) : res ckey :=
  if raw then
    match t with
    | TStr s => if utf8_valid s then Ok (field_of_name s) else Err ERR_TOK_UTF8
    | TBytes s => Ok (field_of_name s)
    | TU8 n | TU16 n | TU32 n | TU64 n => Ok (field_of_index n)
    | _ => Err ERR_TOK_TYPE
    end
  else
    match t with
    | TField n => Ok (field_of_name n)
    | _ => Err ERR_TOK_TYPE
    end.

(* the five `Option<f32>` locals of visit_map *)
Record cacc := mkAcc { c_density : option N; c_friction : option N; c_elasticity : option N;
                       c_friction_weight : option N; c_elasticity_weight : option N }.
Definition acc0 : cacc := mkAcc None None None None None.
Definition acc_get (a : cacc) (f : cfield) : option N :=
  match f with
  | CDensity => c_density a | CFriction => c_friction a | CElasticity => c_elasticity a
  | CFrictionWeight => c_friction_weight a | CElasticityWeight => c_elasticity_weight a
  end.
Definition acc_set (a : cacc) (f : cfield) (x : N) : cacc :=
  match f with
  | CDensity => mkAcc (Some x) (c_friction a) (c_elasticity a) (c_friction_weight a) (c_elasticity_weight a)
  | CFriction => mkAcc (c_density a) (Some x) (c_elasticity a) (c_friction_weight a) (c_elasticity_weight a)
  | CElasticity => mkAcc (c_density a) (c_friction a) (Some x) (c_friction_weight a) (c_elasticity_weight a)
  | CFrictionWeight => mkAcc (c_density a) (c_friction a) (c_elasticity a) (Some x) (c_elasticity_weight a)
  | CElasticityWeight => mkAcc (c_density a) (c_friction a) (c_elasticity a) (c_friction_weight a) (Some x)
  end.
(* after the loop: every field must have been seen (missing_field of an f32 is an error) *)
Definition acc_finish (a : cacc) : res physprops :=
  match a with
  | mkAcc (Some d) (Some f) (Some e) (Some fw) (Some ew) => Ok (mkPhys d f e fw ew)
  | _ => Err ERR_FIELD_MISSING
  end.

(* visit_map: `while let Some(key) = map.next_key()? { known field: duplicate -> Err, else next_value::<f32>();
   unknown: next_value::<IgnoredAny>() }`, then the missing-field checks; the closer is consumed here.
   The state says what the next token is: a key (or the closer), the f32 of field f, or part of an ignored value. *)
Inductive cmode := CKey | CVal (f : cfield) | CSkip (st : list frame).

Fixpoint custom_map (raw : bool) (e : closer) (acc : cacc) (md : cmode) (ts : list tok) : res (physprops * list tok) :=
  match ts with
  | [] => Err ERR_TOK_EOF
  | t :: r =>
    match md with
    | CKey =>
      if closes e t then p <- acc_finish acc ;; Ok (p, r) else
      k <- custom_key raw t ;;
      match k with
      | KField f => match acc_get acc f with
                    | Some _ => Err ERR_FIELD_DUP
                    | None => custom_map raw e acc (CVal f) r
                    end
      | KIgnore => custom_map raw e acc (CSkip [FVal]) r
      end
    | CVal f => x <- f32_of_tok t ;; custom_map raw e (acc_set acc f x) CKey r
    | CSkip [] => Err ERR_TOK_TYPE                (* not reached: an ignored value always owes something *)
    | CSkip (fr :: st) =>
      match ign_step fr t st with
      | None => Err ERR_TOK_TYPE
      | Some [] => custom_map raw e acc CKey r
      | Some st2 => custom_map raw e acc (CSkip st2) r
      end
    end
  end.

(* visit_seq: five `next_element::<f32>()`, each `None` (closer or end of tokens) an invalid_length; the closer must follow *)
Definition custom_seq (e : closer) (ts : list tok) : res (physprops * list tok) :=
  match ts with
  | t1 :: t2 :: t3 :: t4 :: t5 :: te :: r =>
    if closes e t1 || closes e t2 || closes e t3 || closes e t4 || closes e t5 then Err ERR_SEQ_LEN else
    d <- f32_of_tok t1 ;; f <- f32_of_tok t2 ;; el <- f32_of_tok t3 ;; fw <- f32_of_tok t4 ;; ew <- f32_of_tok t5 ;;
    if closes e te then Ok (mkPhys d f el fw ew, r) else Err ERR_SEQ_LEN
  | _ => Err ERR_TOK_EOF
  end.

(* `CustomPhysicalProperties::deserialize(&mut Play)`: deserialize_struct, answered by the token; the derived visitor has
   visit_seq and visit_map *)
Definition de_custom (ts : list tok) : res (physprops * list tok) :=
  match ts with
  | [] => Err ERR_TOK_EOF
  | TSeq _ :: r => custom_seq CSeqEnd r
  | TTuple _ :: r => custom_seq CTupleEnd r
  | TMap _ :: r => custom_map true CMapEnd acc0 CKey r
  | TStruct _ _ :: r => custom_map false CStructEnd acc0 CKey r
  | _ :: _ => Err ERR_TOK_TYPE
  end.

(* EnumAccess::variant_seed of the replaying Deserializer: the variant NAME of a variant token, or a bare string
   (from_utf8_lossy: a string that is not UTF-8 becomes one with U+FFFD in it, which is no variant name, so comparing the
   bytes with the two ASCII names decides the same) *)
Definition variant_name (t : tok) : option bytes :=
  match t with
  | TUnitVariant _ _ v | TNewtypeVariant _ _ v | TStructVariant _ _ v _ | TTupleVariant _ _ v _ => Some v
  | TStr s => Some s
  | _ => None
  end.

Definition de_PhysicalProperties (m : smode) (ts : list tok) : res (option physprops * list tok) :=
  match m with
  | Human =>
    (* deserialize_any(Visitor): visit_str ("Default") and visit_map (the struct, through MapAccessDeserializer, which
       offers the derived visitor visit_map only) *)
    match ts with
    | [] => Err ERR_TOK_EOF
    | TStr s :: r =>
      if utf8_valid s then (if bytes_eqb s S_DEFAULT then Ok (None, r) else Err ERR_PHYS_STR) else Err ERR_TOK_UTF8
    | TMap _ :: r => '(p, r') <- custom_map true CMapEnd acc0 CKey r ;; Ok (Some p, r')
    | TStruct _ _ :: r => '(p, r') <- custom_map false CStructEnd acc0 CKey r ;; Ok (Some p, r')
    | _ :: _ => Err ERR_TOK_TYPE
    end
  | Compact =>
    (* TaggedPhysicalProperties::deserialize: deserialize_enum; the variant is chosen by NAME (enum name and index of the
       token are not looked at); Default wants unit_variant (a TUnitVariant or a bare string), Custom newtype_variant *)
    match ts with
    | [] => Err ERR_TOK_EOF
    | t :: r =>
      match variant_name t with
      | None => Err ERR_TOK_TYPE
      | Some name =>
        if bytes_eqb name S_DEFAULT then
          match t with TUnitVariant _ _ _ | TStr _ => Ok (None, r) | _ => Err ERR_VARIANT end
        else if bytes_eqb name S_CUSTOM then
          match t with
          | TNewtypeVariant _ _ _ => '(p, r') <- de_custom r ;; Ok (Some p, r')
          | _ => Err ERR_VARIANT
          end
        else Err ERR_VARIANT
      end
    end
  end.

(* ------------------------------------------------------------------------------ the eight types together *)
Inductive sv17 :=
| SAxes (bits : N)
| SFaces (bits : N)
| SBinaryString (b : bytes)
| SBrickColor (n : N)
| SPhysicalProperties (p : option physprops)
| SRef (r : N)
| SSharedString (b : bytes)
| SUniqueId (index time : N) (random : Z).

Inductive st17 := TyAxes | TyFaces | TyBinaryString | TyBrickColor | TyPhysicalProperties | TyRef | TySharedString | TyUniqueId.

Definition sv17_type (v : sv17) : st17 :=
  match v with
  | SAxes _ => TyAxes | SFaces _ => TyFaces | SBinaryString _ => TyBinaryString | SBrickColor _ => TyBrickColor
  | SPhysicalProperties _ => TyPhysicalProperties | SRef _ => TyRef | SSharedString _ => TySharedString
  | SUniqueId _ _ _ => TyUniqueId
  end.

(* the same values as `Variant`s *)
Definition sv17_value (v : sv17) : value :=
  match v with
  | SAxes b => VAxes b | SFaces b => VFaces b | SBinaryString b => VBinaryString b | SBrickColor n => VBrickColor n
  | SPhysicalProperties p => VPhysicalProperties p | SRef r => VRef r | SSharedString b => VSharedString b
  | SUniqueId i t r => VUniqueId i t r
  end.

Definition ser_value17 (m : smode) (v : sv17) : list tok :=
  match v with
  | SAxes b => ser_Axes m b
  | SFaces b => ser_Faces m b
  | SBinaryString b => ser_BinaryString m b
  | SBrickColor n => ser_BrickColor m n
  | SPhysicalProperties p => ser_PhysicalProperties m p
  | SRef r => ser_Ref m r
  | SSharedString b => ser_SharedString m b
  | SUniqueId i t r => ser_UniqueId m i t r
  end.

Definition de_value17 (m : smode) (ty : st17) (ts : list tok) : res (sv17 * list tok) :=
  match ty with
  | TyAxes => '(b, r) <- de_Axes m ts ;; Ok (SAxes b, r)
  | TyFaces => '(b, r) <- de_Faces m ts ;; Ok (SFaces b, r)
  | TyBinaryString => '(b, r) <- de_BinaryString m ts ;; Ok (SBinaryString b, r)
  | TyBrickColor => '(n, r) <- de_BrickColor m ts ;; Ok (SBrickColor n, r)
  | TyPhysicalProperties => '(p, r) <- de_PhysicalProperties m ts ;; Ok (SPhysicalProperties p, r)
  | TyRef => '(n, r) <- de_Ref m ts ;; Ok (SRef n, r)
  | TySharedString => '(b, r) <- de_SharedString m ts ;; Ok (SSharedString b, r)
  | TyUniqueId => '(i, t, z, r) <- de_UniqueId m ts ;; Ok (SUniqueId i t z, r)
  end.

(* the values a Rust value of the type can have *)
Definition sv17_ok (v : sv17) : bool :=
  match v with
  | SAxes b => b <? 8
  | SFaces b => b <? 64
  | SBinaryString b | SSharedString b => bytes_ok b
  | SBrickColor n => brick_valid n
  | SPhysicalProperties None => true
  | SPhysicalProperties (Some p) =>
      f32_ok (ph_density p) && f32_ok (ph_friction p) && f32_ok (ph_elasticity p)
      && f32_ok (ph_friction_weight p) && f32_ok (ph_elasticity_weight p)
  | SRef r => r <? 2 ^ 128
  | SUniqueId i t r => (i <? 2 ^ 32) && (t <? 2 ^ 32) && in_i64 r
  end.

(* ---- for the runner (ocaml/run_serdetok.ml): type tags 0..7 in the order of harness/src/serdetok.rs TYPES ---- *)
Definition st17_of_tag (tag : N) : option st17 :=
  match tag with
  | 0 => Some TyAxes | 1 => Some TyFaces | 2 => Some TyBinaryString | 3 => Some TyBrickColor
  | 4 => Some TyPhysicalProperties | 5 => Some TyRef | 6 => Some TySharedString | 7 => Some TyUniqueId
  | _ => None
  end.
Definition st17_tag (ty : st17) : N :=
  match ty with
  | TyAxes => 0 | TyFaces => 1 | TyBinaryString => 2 | TyBrickColor => 3
  | TyPhysicalProperties => 4 | TyRef => 5 | TySharedString => 6 | TyUniqueId => 7
  end.
Definition run_ser17 (m : smode) (v : sv17) : list tok := ser_value17 m v.
Definition run_de17 (m : smode) (tag : N) (ts : list tok) : res (sv17 * list tok) :=
  match st17_of_tag tag with
  | Some ty => de_value17 m ty ts
  | None => Err ERR_TYPE_TAG
  end.

(* ------------------------------------------------------------------------------ samples for the harness to replay *)
Definition mk_pp (a b c d e : N) : sv17 := SPhysicalProperties (Some (mkPhys a b c d e)).
Definition serde17_values : list sv17 :=
  [ SAxes 0; SAxes 1; SAxes 5; SAxes 7;
    SFaces 0; SFaces 1; SFaces 42; SFaces 63;
    SBinaryString []; SBinaryString [0]; SBinaryString [255; 254; 0]; SBinaryString (str_bytes "hello world");
    SBinaryString [1; 2; 3; 4];
    SBrickColor 1; SBrickColor 194; SBrickColor 1032; SBrickColor 321;
    SPhysicalProperties None;
    mk_pp 1065353216 1050253722 1056964608 1065353216 1065353216;       (* 1.0 0.3 0.5 1.0 1.0 *)
    mk_pp 0 2147483648 2139095040 4286578688 2143289345;                (* +0 -0 +inf -inf NaN(payload 1) *)
    mk_pp 1 8388607 2139095039 1051372203 3271977337;                   (* subnormals, f32::MAX, 1/3, -123.456 *)
    mk_pp 4294967295 2139095041 4290772992 2147483649 4286578687;       (* NaNs of both signs incl. signalling, -MAX *)
    SRef 0; SRef 1; SRef 30; SRef 18446744073709551615; SRef 18446744073709551616;
    SRef 340282366920938463463374607431768211455; SRef 1512366075204170929049582354406559215;
    SSharedString []; SSharedString [0]; SSharedString [255; 254; 0]; SSharedString (str_bytes "hello world");
    SSharedString [10; 13];
    SUniqueId 0 0 0; SUniqueId 1 2 3; SUniqueId 4294967295 4294967295 9223372036854775807;
    SUniqueId 7 8 (-1); SUniqueId 2147483648 1 (-9223372036854775808); SUniqueId 5 0 (-81985529216486895) ].

Definition serde17_samples : list (smode * sv17) :=
  List.map (fun v => (Human, v)) serde17_values ++ List.map (fun v => (Compact, v)) serde17_values.

(* a sample survives: the tokens of the model's Serialize, read back by the model's Deserialize, with nothing left *)
Definition sv17_eqb (a b : sv17) : bool :=
  match a, b with
  | SAxes x, SAxes y | SFaces x, SFaces y | SBrickColor x, SBrickColor y | SRef x, SRef y => x =? y
  | SBinaryString x, SBinaryString y | SSharedString x, SSharedString y => bytes_eqb x y
  | SPhysicalProperties None, SPhysicalProperties None => true
  | SPhysicalProperties (Some p), SPhysicalProperties (Some q) =>
      (ph_density p =? ph_density q) && (ph_friction p =? ph_friction q) && (ph_elasticity p =? ph_elasticity q)
      && (ph_friction_weight p =? ph_friction_weight q) && (ph_elasticity_weight p =? ph_elasticity_weight q)
  | SUniqueId i t r, SUniqueId i' t' r' => (i =? i') && (t =? t') && (r =? r')%Z
  | _, _ => false
  end.
Definition sample_roundtrips (s : smode * sv17) : bool :=
  let '(m, v) := s in
  sv17_ok v &&
  match de_value17 m (sv17_type v) (ser_value17 m v) with
  | Ok (v', []) => sv17_eqb v v'
  | _ => false
  end.
