(* CodecDom.v — the concrete DOM handed to / produced by the file-format codecs (binary and XML), in
   the shape of notes/forest-format.md.  Shared by Model/BinFile.v and Model/XmlFile.v so that C06 can
   compare both decoders' outputs.
   An encoder input is a [cdom] (every instance below the DOM root, parents first, siblings in child
   order; [i_parent] = 0 for children of the root), the written referents [roots : list N] and the
   SharedString hash table (content -> hash).  A decoder output is a [cdom] in construction order
   ([i_ref] = label of the new instance, [i_parent] = 0 for children of the fresh DataModel root).
   Definitions only. *)
From RbxVerif Require Export Base Bytes Value.
Open Scope N_scope.

Record inst := mkInst {
  i_ref : N;                          (* label, >= 1 *)
  i_parent : N;                       (* 0 = child of the DOM root *)
  i_class : bytes;
  i_name : bytes;
  i_props : list (bytes * value)      (* property name (UTF-8) -> value *)
}.
Definition cdom := list inst.

Fixpoint find_inst (d : cdom) (r : N) : option inst :=
  match d with
  | [] => None
  | i :: d' => if N.eqb (i_ref i) r then Some i else find_inst d' r
  end.

Definition children_of (d : cdom) (r : N) : list N :=
  List.map i_ref (List.filter (fun i => N.eqb (i_parent i) r) d).

(* association list keyed by byte strings (property maps, SharedString hash table) *)
Fixpoint bfind {V} (k : bytes) (m : list (bytes * V)) : option V :=
  match m with
  | [] => None
  | (k', v) :: m' => if bytes_eqb k k' then Some v else bfind k m'
  end.
Fixpoint bremove {V} (k : bytes) (m : list (bytes * V)) : list (bytes * V) :=
  match m with
  | [] => []
  | (k', v) :: m' => if bytes_eqb k k' then bremove k m' else (k', v) :: bremove k m'
  end.
(* HashMap::insert: replaces; position is irrelevant (observations sort by key) *)
Definition bupd {V} (k : bytes) (v : V) (m : list (bytes * V)) : list (bytes * V) := (k, v) :: bremove k m.

(* insertion sort by key, byte order (= Rust str order): sort_unstable_by_key on distinct keys, BTreeMap order *)
Fixpoint binsert {V} (kv : bytes * V) (l : list (bytes * V)) : list (bytes * V) :=
  match l with
  | [] => [kv]
  | x :: r => if bytes_ltb (fst x) (fst kv) then x :: binsert kv r else kv :: l
  end.
Definition bsort {V} (l : list (bytes * V)) : list (bytes * V) := fold_right binsert [] l.
