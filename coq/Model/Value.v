(* Value.v — layer L1: rbx_types::Variant (all 40 variants) as a Coq datatype.
   Floats are IEEE bit patterns (f32 < 2^32, f64 < 2^64): every codec only moves bits, so round-trip
   statements are bit-exact and include NaN payloads, signed zeros, subnormals and infinities.
   Strings and blobs are byte lists; signed integers are Z within their Rust range.
   Definitions only. *)
From RbxVerif Require Export Base Bytes.

Definition f32 := N.
Definition f64 := N.

Record vec3 := mkV3 { vx : f32; vy : f32; vz : f32 }.
Record vec2 := mkV2 { v2x : f32; v2y : f32 }.
(* Matrix3 { x, y, z : Vector3 } (rows) *)
Record mat3 := mkM3 { mx : vec3; my : vec3; mz : vec3 }.
Record cframe := mkCF { cf_pos : vec3; cf_rot : mat3 }.
Record udim := mkUDim { ud_scale : f32; ud_offset : Z }.
Record font := mkFont { fo_family : bytes; fo_weight : N; fo_style : N; fo_cached : option bytes }.
(* CustomPhysicalProperties *)
Record physprops := mkPhys { ph_density : f32; ph_friction : f32; ph_elasticity : f32;
                             ph_friction_weight : f32; ph_elasticity_weight : f32 }.
Inductive content := CNone | CUri (s : bytes) | CObject (r : N).

Inductive value :=
| VAxes (bits : N)
| VBinaryString (b : bytes)
| VBool (b : bool)
| VBrickColor (n : N)                                   (* the BrickColor number, u16 *)
| VCFrame (c : cframe)
| VColor3 (r g b : f32)
| VColor3uint8 (r g b : N)
| VColorSequence (kps : list (f32 * (f32 * f32 * f32)))   (* time, color *)
| VContentId (s : bytes)
| VEnum (n : N)
| VFaces (bits : N)
| VFloat32 (x : f32)
| VFloat64 (x : f64)
| VInt32 (z : Z)
| VInt64 (z : Z)
| VNumberRange (lo hi : f32)
| VNumberSequence (kps : list (f32 * f32 * f32))          (* time, value, envelope *)
| VPhysicalProperties (p : option physprops)              (* None = Default *)
| VRay (origin direction : vec3)
| VRect (lo hi : vec2)
| VRef (r : N)                                            (* 0 = Ref::none() *)
| VRegion3 (lo hi : vec3)
| VRegion3int16 (lo hi : Z * Z * Z)
| VSharedString (b : bytes)
| VString (s : bytes)                                     (* UTF-8 *)
| VUDim (u : udim)
| VUDim2 (x y : udim)
| VVector2 (v : vec2)
| VVector2int16 (x y : Z)
| VVector3 (v : vec3)
| VVector3int16 (x y z : Z)
| VOptionalCFrame (c : option cframe)
| VTags (ts : list bytes)
| VAttributes (m : list (bytes * value))                  (* BTreeMap<String, Variant>, sorted by key *)
| VFont (f : font)
| VUniqueId (index time : N) (random : Z)
| VMaterialColors (m : list (N * (N * N * N)))            (* TerrainMaterials index -> Color3uint8, sorted *)
| VSecurityCapabilities (bits : N)
| VEnumItem (ty : bytes) (n : N)
| VContent (c : content).

(* VariantType as a number: the variant's position in make_variant! (its Rust discriminant) *)
Definition vtype (v : value) : N :=
  match v with
  | VAxes _ => 0 | VBinaryString _ => 1 | VBool _ => 2 | VBrickColor _ => 3 | VCFrame _ => 4
  | VColor3 _ _ _ => 5 | VColor3uint8 _ _ _ => 6 | VColorSequence _ => 7 | VContentId _ => 8
  | VEnum _ => 9 | VFaces _ => 10 | VFloat32 _ => 11 | VFloat64 _ => 12 | VInt32 _ => 13
  | VInt64 _ => 14 | VNumberRange _ _ => 15 | VNumberSequence _ => 16 | VPhysicalProperties _ => 17
  | VRay _ _ => 18 | VRect _ _ => 19 | VRef _ => 20 | VRegion3 _ _ => 21 | VRegion3int16 _ _ => 22
  | VSharedString _ => 23 | VString _ => 24 | VUDim _ => 25 | VUDim2 _ _ => 26 | VVector2 _ => 27
  | VVector2int16 _ _ => 28 | VVector3 _ => 29 | VVector3int16 _ _ _ => 30 | VOptionalCFrame _ => 31
  | VTags _ => 32 | VAttributes _ => 33 | VFont _ => 34 | VUniqueId _ _ _ => 35
  | VMaterialColors _ => 36 | VSecurityCapabilities _ => 37 | VEnumItem _ _ => 38 | VContent _ => 39
  end.

(* lexicographic comparison of byte strings: the order of BTreeMap<String, _> *)
Fixpoint bytes_ltb (a b : bytes) : bool :=
  match a, b with
  | [], [] => false
  | [], _ :: _ => true
  | _ :: _, [] => false
  | x :: a', y :: b' => if N.ltb x y then true else if N.ltb y x then false else bytes_ltb a' b'
  end.
Fixpoint bytes_eqb (a b : bytes) : bool :=
  match a, b with
  | [], [] => true
  | x :: a', y :: b' => N.eqb x y && bytes_eqb a' b'
  | _, _ => false
  end.

Definition f32_ok (x : f32) : bool := N.ltb x 4294967296.
Definition f64_ok (x : f64) : bool := N.ltb x 18446744073709551616.
Definition vec3_ok (v : vec3) : bool := f32_ok (vx v) && f32_ok (vy v) && f32_ok (vz v).
Definition vec2_ok (v : vec2) : bool := f32_ok (v2x v) && f32_ok (v2y v).
Definition mat3_ok (m : mat3) : bool := vec3_ok (mx m) && vec3_ok (my m) && vec3_ok (mz m).
Definition cframe_ok (c : cframe) : bool := vec3_ok (cf_pos c) && mat3_ok (cf_rot c).

(* f32 bit-pattern helpers *)
Definition F32_ONE : f32 := 1065353216.       (* 0x3F800000 *)
Definition F32_NEG_ONE : f32 := 3212836864.   (* 0xBF800000 *)
Definition F32_ZERO : f32 := 0.
Definition f32_abs_bits (x : f32) : N := x mod 2147483648.
Definition f32_is_nan (x : f32) : bool := N.ltb 2139095040 (f32_abs_bits x).   (* > 0x7F800000 *)
Definition f32_sign (x : f32) : bool := N.leb 2147483648 x.
