(* DomRaw.v — model of WeakDom::from_raw / into_raw (dom.rs).  from_raw takes the instance table as it is and
   rebuilds the DOM's UniqueId set from the `UniqueId` properties, panicking on a repeated id or on a value of
   another type under that key; the table is iterated in the order given (a hash map in the Rust: any order).
   Definitions only. *)
From RbxVerif Require Export Base Dom.

(* the loop of from_raw over `instances.values()`; None = panic *)
Fixpoint raw_uids (l : list (ref * inst)) (acc : list N) : option (list N) :=
  match l with
  | [] => Some acc
  | (_, i) :: t =>
      match lookup UIDKEY (i_props i) with
      | Some (PUid u) => if mem u acc then None                  (* "UniqueId {} is duplicated in the provided `instances` map" *)
                         else raw_uids t (sadd u acc)
      | None => raw_uids t acc
      | Some _ => None                                            (* "expected property UniqueId to be a UniqueId" *)
      end
  end.

Definition from_raw (root : ref) (insts : map inst) : res dom :=
  if has root insts then                                          (* assert!(instances.contains_key(&root_ref), ..) *)
    match raw_uids insts [] with
    | Some us => Ok (mkDom insts root us)
    | None => Panic
    end
  else Panic.

Definition into_raw (d : dom) : ref * map inst := (d_root d, d_insts d).
