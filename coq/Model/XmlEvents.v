(* XmlEvents.v — layer L8: the event abstraction between rbx_xml and xml-rs.
   [wevent]: what serializer.rs / types/*.rs hand to `XmlEventWriter::write` (xml::writer::XmlEvent).
   [revent]: what `XmlEventReader` (deserializer_core.rs, an xml::EventReader with `Whitespace`
   events filtered out) delivers.
   [channel]: what the configured emitter (perform_indent, no declaration, no empty-element
   normalisation) followed by the configured parser (ParserConfig::new().ignore_comments(true):
   no trimming, cdata_to_characters = false, coalesce_characters = true) and the wrapper do to an
   event stream.  xml-rs itself is NOT modelled as verified: [channel] is validated against the real
   writer/reader pair by the `xmlchannel` correspondence on random event lists.
   Definitions only. *)
From RbxVerif Require Export Base Bytes.
Open Scope N_scope.

Definition attrs := list (bytes * bytes).      (* local name, value; in document order *)

Inductive wevent :=
| WStart (name : bytes) (a : attrs)            (* XmlWriteEvent::start_element(name).attr(..) *)
| WEnd                                         (* XmlWriteEvent::end_element() *)
| WChars (s : bytes)                           (* XmlWriteEvent::characters *)
| WCData (s : bytes).                          (* XmlWriteEvent::cdata *)

Inductive revent :=
| RStartDoc                                    (* StartDocument: always first *)
| RStart (name : bytes) (a : attrs)            (* StartElement: local name, attributes *)
| REnd (name : bytes)                          (* EndElement *)
| RChars (s : bytes)                           (* Characters *)
| RCData (s : bytes)                           (* CData *)
| RPI (name : bytes)                           (* ProcessingInstruction (foreign documents only) *)
| REndDoc                                      (* EndDocument *)
| RError.                                      (* Some(Err(_)): the parser rejected the text here; last event *)

(* xml-rs common.rs is_whitespace_char: the XML `S` production *)
Definition xml_ws (c : N) : bool := N.eqb c 32 || N.eqb c 10 || N.eqb c 9 || N.eqb c 13.
Definition all_ws (s : bytes) : bool := forallb xml_ws s.

(* XML 1.0 Char on UTF-8 bytes (common.rs is_xml10_char): 09 0A 0D, 20..D7FF, E000..FFFD, 10000.. ;
   for valid UTF-8 the only excluded sequences are the C0 controls and EF BF BE / EF BF BF *)
Fixpoint xml_legal (s : bytes) : bool :=
  match s with
  | [] => true
  | c :: r =>
      if N.ltb c 32 then (N.eqb c 9 || N.eqb c 10 || N.eqb c 13) && xml_legal r
      else match c, r with
           | 239, 191 :: z :: _ => negb (N.eqb z 190 || N.eqb z 191) && xml_legal r
           | _, _ => xml_legal r
           end
  end.

(* linear-time list reversal (List.rev is quadratic); rev_alt: rev l = rev_append l [] *)
Definition frev {A} (l : list A) : list A := rev_append l [].

(* emitter.rs emit_cdata: `]]>` inside the content is written as `]]]]><![CDATA[>`, i.e. the section is
   cut between `]]` and `>`; the parser delivers one CData event per section. *)
Fixpoint split_cdata_go (s cur : bytes) : list bytes :=
  match s with
  | [] => [frev cur]
  | x :: r =>
      match r with
      | y :: z :: r2 =>
          if (x =? 93) && (y =? 93) && (z =? 62) then (frev cur ++ [93; 93]) :: split_cdata_go r2 [62]
          else split_cdata_go r (x :: cur)
      | _ => split_cdata_go r (x :: cur)
      end
  end.
Definition split_cdata (s : bytes) : list bytes := split_cdata_go s [].

(* Parser text state between two pieces of markup (parser/outside_tag.rs, inside_cdata.rs):
   [tbuf] = the character buffer, [tiws] = `inside_whitespace` (reset to true by every markup token,
   cleared by a non-whitespace character in text or inside a CDATA section; NOT reset by `]]>`). *)
Record tstate := mkT { tbuf : bytes; tiws : bool }.
Definition t0 : tstate := mkT [] true.

(* flushing the buffer at a markup token: nothing, a `Whitespace` event (dropped by XmlEventReader),
   or a `Characters` event *)
Definition flush (t : tstate) : list revent :=
  match tbuf t with
  | [] => []
  | _ => if tiws t then [] else [RChars (tbuf t)]
  end.

Fixpoint last_ws (ps : list bytes) (d : bool) : bool :=
  match ps with [] => d | [p] => all_ws p | _ :: r => last_ws r d end.

(* [go stack t evs]: stack = names of the open elements (innermost first) *)
Definition ERR_CHANNEL : N := 90.
Fixpoint chan_go (stack : list bytes) (t : tstate) (evs : list wevent) : res (list revent) :=
  match evs with
  | [] => match stack with
          | [] => Ok (flush t)
          | _ => Err ERR_CHANNEL                      (* unclosed element: the text is not a document *)
          end
  | WStart n a :: r =>
      rest <- chan_go (n :: stack) t0 r ;; Ok (flush t ++ RStart n a :: rest)
  | WEnd :: r =>
      match stack with
      | [] => Err ERR_CHANNEL                         (* EmitterError::LastElementNameNotAvailable *)
      | n :: st => rest <- chan_go st t0 r ;; Ok (flush t ++ REnd n :: rest)
      end
  | WChars s :: r =>
      match stack with
      | [] => Err ERR_CHANNEL                         (* text outside the root element: not modelled *)
      | _ => chan_go stack (mkT (tbuf t ++ s) (tiws t && all_ws s)) r
      end
  | WCData s :: r =>
      match stack with
      | [] => Err ERR_CHANNEL
      | _ =>
          let ps := split_cdata s in
          rest <- chan_go stack (mkT [] (last_ws ps true)) r ;;
          Ok (flush t ++ List.map RCData ps ++ rest)
      end
  end.

Definition wevent_legal (e : wevent) : bool :=
  match e with
  | WStart n a => forallb (fun kv => xml_legal (snd kv)) a
  | WEnd => true
  | WChars s | WCData s => xml_legal s
  end.

(* A document: at least one root element (the parser is configured with allow_multiple_root_elements, its
   default), character data only inside elements, every element closed ([chan_go] checks the nesting). *)
Definition channel (evs : list wevent) : res (list revent) :=
  match evs with
  | [] => Err ERR_CHANNEL
  | _ =>
      if forallb wevent_legal evs then
        body <- chan_go [] t0 evs ;; Ok (RStartDoc :: body ++ [REndDoc])
      else Err ERR_CHANNEL
  end.
