(* Tree.v — the abstract specification of WeakDom operations: plain ordered rose trees.
   This is the "documented meaning" reference model of property C10: a DOM is a designated root
   plus a list of parentless trees; each operation is a small function on such forests.
   Definitions only; proofs are in Proofs/. *)
From RbxVerif Require Export Base Dom.

Inductive tree := Node (r : ref) (name cls : N) (ps : props) (kids : list tree).
Definition troot (t : tree) : ref := match t with Node r _ _ _ _ => r end.
Definition tkids (t : tree) : list tree := match t with Node _ _ _ _ k => k end.
Definition tprops (t : tree) : props := match t with Node _ _ _ ps _ => ps end.

Record adom := mkADom { a_root : ref; a_trees : list tree }.

Fixpoint tsize (t : tree) : nat :=
  match t with Node _ _ _ _ kids => S ((fix go ks := match ks with [] => O | k :: ks' => (tsize k + go ks')%nat end) kids) end.
Definition fsize (ts : list tree) : nat := fold_right (fun t acc => (tsize t + acc)%nat) O ts.

Fixpoint trefs (t : tree) : list ref :=
  match t with Node r _ _ _ kids => r :: (fix go ks := match ks with [] => [] | k :: ks' => trefs k ++ go ks' end) kids end.
Definition frefs (ts : list tree) : list ref := flat_map trefs ts.

(* the subtree rooted at r, if any *)
Fixpoint tfind (r : ref) (t : tree) : option tree :=
  match t with
  | Node x _ _ _ kids =>
      if N.eqb x r then Some t
      else (fix go ks := match ks with [] => None | k :: ks' => match tfind r k with Some s => Some s | None => go ks' end end) kids
  end.
Fixpoint ffind (r : ref) (ts : list tree) : option tree :=
  match ts with [] => None | t :: ts' => match tfind r t with Some s => Some s | None => ffind r ts' end end.

(* delete the subtree rooted at r (None: t itself is that subtree) *)
Fixpoint tdel (r : ref) (t : tree) : option tree :=
  match t with
  | Node x n c ps kids =>
      if N.eqb x r then None
      else Some (Node x n c ps
        ((fix go ks := match ks with [] => [] | k :: ks' => match tdel r k with None => go ks' | Some k' => k' :: go ks' end end) kids))
  end.
Fixpoint fdel (r : ref) (ts : list tree) : list tree :=
  match ts with [] => [] | t :: ts' => match tdel r t with None => fdel r ts' | Some t' => t' :: fdel r ts' end end.

(* append [sub] as the last child of the node p *)
Fixpoint tgraft (p : ref) (sub : tree) (t : tree) : tree :=
  match t with
  | Node x n c ps kids =>
      let kids' := (fix go ks := match ks with [] => [] | k :: ks' => tgraft p sub k :: go ks' end) kids in
      if N.eqb x p then Node x n c ps (kids' ++ [sub]) else Node x n c ps kids'
  end.
Definition fgraft (p : ref) (sub : tree) (ts : list tree) : list tree :=
  if N.eqb p rnone then ts ++ [sub] else List.map (tgraft p sub) ts.

(* map over the nodes of a tree: f sees the node's referent and properties *)
Fixpoint tmap (f : ref -> props -> ref * props) (t : tree) : tree :=
  match t with
  | Node x n c ps kids =>
      let '(x', ps') := f x ps in
      Node x' n c ps' ((fix go ks := match ks with [] => [] | k :: ks' => tmap f k :: go ks' end) kids)
  end.

(* breadth-first enumeration of the nodes of a list of trees, by an explicit queue *)
Fixpoint bfs (fuel : nat) (q : list tree) : list tree :=
  match q with
  | [] => []
  | t :: q' => match fuel with O => [] | S f => t :: bfs f (q' ++ tkids t) end
  end.
Definition bfs_all (ts : list tree) : list tree := bfs (fsize ts) ts.

(* all UniqueId property values held in a forest *)
Fixpoint tuids (t : tree) : list N :=
  match t with
  | Node _ _ _ ps kids =>
      (match get_uid ps with Some u => [u] | None => [] end)
      ++ (fix go ks := match ks with [] => [] | k :: ks' => tuids k ++ go ks' end) kids
  end.
Definition fuids (ts : list tree) : list N := flat_map tuids ts.

(* C12's rule: going through the arriving nodes in order, an id already used in the destination
   (or by an earlier arriving node) is replaced by the allocator's next id; others are kept. *)
Fixpoint settle (used : list N) (nu : N) (nodes : list tree) : map N * N :=
  match nodes with
  | [] => ([], nu)
  | t :: rest =>
      match get_uid (tprops t) with
      | None => settle used nu rest
      | Some u =>
          if mem u used then
            let '(asg, nu') := settle (sadd nu used) (nu + 1) rest in (upd (troot t) nu asg, nu')
          else settle (sadd u used) nu rest
      end
  end.
Definition apply_uids (asg : map N) (t : tree) : tree :=
  tmap (fun x ps => match lookup x asg with Some u => (x, upd UIDKEY (PUid u) ps) | None => (x, ps) end) t.

(* bring the trees [subs] (in this order) into a forest whose UniqueIds are [used] *)
Definition arrive (used : list N) (nu : N) (subs : list tree) : list tree * N :=
  let '(asg, nu') := settle used nu (bfs_all subs) in (List.map (apply_uids asg) subs, nu').

Fixpoint tree_of_builder (b : btree) : tree :=
  match b with
  | BNode r n c ps kids =>
      Node r n c (props_of_list ps) ((fix go ks := match ks with [] => [] | k :: ks' => tree_of_builder k :: go ks' end) kids)
  end.

Definition hasnode (r : ref) (ts : list tree) : bool := match ffind r ts with Some _ => true | None => false end.

Fixpoint nodupb (l : list N) : bool := match l with [] => true | x :: l' => negb (mem x l') && nodupb l' end.
Definition disjointb (a b : list N) : bool := forallb (fun x => negb (mem x b)) a.

(* ---- the documented operations; None = outside the documented preconditions ---- *)

Definition a_insert (a : adom) (nu : N) (p : ref) (b : btree) : option (adom * N) :=
  let t := tree_of_builder b in
  if (N.eqb p rnone || hasnode p (a_trees a))
     && nodupb (trefs t) && disjointb (trefs t) (frefs (a_trees a)) && negb (mem rnone (trefs t)) then
    let '(ts, nu') := arrive (fuids (a_trees a)) nu [t] in
    match ts with
    | [t'] => Some (mkADom (a_root a) (fgraft p t' (a_trees a)), nu')
    | _ => None
    end
  else None.

Definition a_new (nu : N) (b : btree) : option (adom * N) :=
  a_insert (mkADom (broot b) []) nu rnone b.

Definition a_destroy (a : adom) (r : ref) : option adom :=
  if negb (N.eqb r (a_root a)) && hasnode r (a_trees a) then Some (mkADom (a_root a) (fdel r (a_trees a))) else None.

Definition a_move_within (a : adom) (r dest : ref) : option adom :=
  if N.eqb r (a_root a) then None else
  match ffind r (a_trees a) with
  | None => None
  | Some sub =>
      let rest := fdel r (a_trees a) in
      (* the new parent must still be there once the subtree is detached: it may not lie inside it *)
      if hasnode dest rest then Some (mkADom (a_root a) (fgraft dest sub rest)) else None
  end.

Definition a_move (s t : adom) (nu : N) (r dest : ref) : option (adom * adom * N) :=
  if N.eqb r (a_root s) then None else
  match ffind r (a_trees s) with
  | None => None
  | Some sub =>
      if hasnode dest (a_trees t) && disjointb (trefs sub) (frefs (a_trees t)) then
        let '(subs, nu') := arrive (fuids (a_trees t)) nu [sub] in
        match subs with
        | [sub'] => Some (mkADom (a_root s) (fdel r (a_trees s)),
                          mkADom (a_root t) (fgraft dest sub' (a_trees t)), nu')
        | _ => None
        end
      else None
  end.

(* fresh referents for the copies, handed out breadth-first over the cloned subtrees *)
Fixpoint alloc_refs (nr : N) (nodes : list tree) : map ref * N :=
  match nodes with
  | [] => ([], nr)
  | t :: rest => let '(m, nr') := alloc_refs (nr + 1) rest in (upd (troot t) nr m, nr')
  end.

(* C11's rule for a Ref property of a copy: the corresponding copy if the target was cloned too;
   kept if the target is an instance of the destination; null otherwise *)
Definition clone_val (rw : map ref) (destrefs : list ref) (v : pval) : pval :=
  match v with
  | PRef o => match lookup o rw with
              | Some n => PRef n
              | None => if mem o destrefs then PRef o else PRef rnone
              end
  | _ => v
  end.

Fixpoint find_all (rs : list ref) (ts : list tree) : option (list tree) :=
  match rs with
  | [] => Some []
  | r :: rest => match ffind r ts, find_all rest ts with Some t, Some l => Some (t :: l) | _, _ => None end
  end.

(* clone the subtrees rooted at rs (pairwise disjoint) of [src] into [dst] as new parentless trees.
   The copy's property table is rebuilt from the original's entries (the clone goes through an
   InstanceBuilder), i.e. [props_of_list]: same map, canonical entry order. *)
Definition a_clone (src dst : adom) (nu nr : N) (rs : list ref) : option (adom * N * N * list ref) :=
  match find_all rs (a_trees src) with
  | None => None
  | Some subs =>
      if nodupb (frefs subs) then
        let '(rw, nr') := alloc_refs nr (bfs_all subs) in
        let destrefs := frefs (a_trees dst) in
        let copy := tmap (fun x ps =>
                      (match lookup x rw with Some n => n | None => x end,
                       List.map (fun kv => (fst kv, clone_val rw destrefs (snd kv))) (props_of_list ps))) in
        let '(copies, nu') := arrive (fuids (a_trees dst)) nu (List.map copy subs) in
        Some (mkADom (a_root dst) (a_trees dst ++ copies), nu', nr', List.map troot copies)
      else None
  end.

Record aworld := mkAWorld { aw_doms : list adom; aw_nu : N; aw_nr : N }.
Definition aworld0 := mkAWorld [] UID_BASE REF_BASE.

Definition astep (w : aworld) (o : op) : option (aworld * list ref) :=
  match o with
  | ONew b =>
      match a_new (aw_nu w) b with
      | Some (a, nu) => Some (mkAWorld (aw_doms w ++ [a]) nu (aw_nr w), [])
      | None => None
      end
  | OInsert k p b =>
      match nth_opt k (aw_doms w) with
      | Some a => match a_insert a (aw_nu w) p b with
                  | Some (a1, nu) => Some (mkAWorld (set_nth k a1 (aw_doms w)) nu (aw_nr w), [broot b])
                  | None => None end
      | None => None
      end
  | ODestroy k r =>
      match nth_opt k (aw_doms w) with
      | Some a => match a_destroy a r with
                  | Some a1 => Some (mkAWorld (set_nth k a1 (aw_doms w)) (aw_nu w) (aw_nr w), [])
                  | None => None end
      | None => None
      end
  | OMoveWithin k r dest =>
      match nth_opt k (aw_doms w) with
      | Some a => match a_move_within a r dest with
                  | Some a1 => Some (mkAWorld (set_nth k a1 (aw_doms w)) (aw_nu w) (aw_nr w), [])
                  | None => None end
      | None => None
      end
  | OMove k r k2 dest =>
      if Nat.eqb k k2 then None else
      match nth_opt k (aw_doms w), nth_opt k2 (aw_doms w) with
      | Some s, Some t =>
          match a_move s t (aw_nu w) r dest with
          | Some (s1, t1, nu) => Some (mkAWorld (set_nth k2 t1 (set_nth k s1 (aw_doms w))) nu (aw_nr w), [])
          | None => None end
      | _, _ => None
      end
  | OCloneWithin k r =>
      match nth_opt k (aw_doms w) with
      | Some a => match a_clone a a (aw_nu w) (aw_nr w) [r] with
                  | Some (a1, nu, nr, roots) => Some (mkAWorld (set_nth k a1 (aw_doms w)) nu nr, roots)
                  | None => None end
      | None => None
      end
  | OCloneExt k r k2 =>
      if Nat.eqb k k2 then None else
      match nth_opt k (aw_doms w), nth_opt k2 (aw_doms w) with
      | Some s, Some t =>
          match a_clone s t (aw_nu w) (aw_nr w) [r] with
          | Some (t1, nu, nr, roots) => Some (mkAWorld (set_nth k2 t1 (aw_doms w)) nu nr, roots)
          | None => None end
      | _, _ => None
      end
  | OCloneMulti k rs k2 =>
      if Nat.eqb k k2 then None else
      match nth_opt k (aw_doms w), nth_opt k2 (aw_doms w) with
      | Some s, Some t =>
          match a_clone s t (aw_nu w) (aw_nr w) rs with
          | Some (t1, nu, nr, roots) => Some (mkAWorld (set_nth k2 t1 (aw_doms w)) nu nr, roots)
          | None => None end
      | _, _ => None
      end
  end.

(* flatten an abstract DOM into the instance table it stands for (the abstraction function's image) *)
Fixpoint tflat (parent : ref) (t : tree) : list (ref * inst) :=
  match t with
  | Node r n c ps kids =>
      (r, mkInst parent (List.map troot kids) n c ps)
      :: (fix go ks := match ks with [] => [] | k :: ks' => tflat r k ++ go ks' end) kids
  end.
Definition aflat (a : adom) : list (ref * inst) := flat_map (tflat rnone) (a_trees a).
