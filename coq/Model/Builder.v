(* Builder.v — model of rbx_dom_weak::InstanceBuilder's construction API (instance.rs).
   A builder is the [btree] of Dom.v (referent, name, class, Vec<(Ustr, Variant)>, children); every
   entry point is one [bop].  `with_x(self, ..) -> Self` and `add_x/set_x(&mut self, ..)` are the
   same state change (the first returns the value, the second mutates in place), so each pair is one
   constructor with the mirrored Rust function named beside it.  Definitions only. *)
From RbxVerif Require Export Base Dom.

(* InstanceBuilder::new(class) / with_property_capacity(class, _): name = class.to_string();
   [nm] is the name code of the class text.  InstanceBuilder::empty(): name "", class "" *)
Definition bnew (r : ref) (c nm : N) : btree := BNode r nm c [] [].

Inductive bop :=
| OReferent (r : ref)                  (* with_referent *)
| OName (n : N)                        (* with_name / set_name *)
| OClass (c : N)                       (* with_class / set_class *)
| OProp (k : N) (v : pval)             (* with_property / add_property: properties.push *)
| OProps (l : list (N * pval))         (* with_properties / add_properties: properties.extend *)
| OChild (b : btree)                   (* with_child / add_child: children.push *)
| OChildren (l : list btree).          (* with_children / add_children: children.extend *)

Definition bapply (b : btree) (o : bop) : btree :=
  match b with
  | BNode r n c ps ks =>
      match o with
      | OReferent r' => BNode r' n c ps ks
      | OName n' => BNode r n' c ps ks
      | OClass c' => BNode r n c' ps ks
      | OProp k v => BNode r n c (ps ++ [(k, v)]) ks
      | OProps l => BNode r n c (ps ++ l) ks
      | OChild x => BNode r n c ps (ks ++ [x])
      | OChildren l => BNode r n c ps (ks ++ l)
      end
  end.

Definition brun (b : btree) (ops : list bop) : btree := fold_left bapply ops b.

(* what a script contributes, in script order *)
Definition op_kids (o : bop) : list btree :=
  match o with OChild x => [x] | OChildren l => l | _ => [] end.
Definition op_props (o : bop) : list (N * pval) :=
  match o with OProp k v => [(k, v)] | OProps l => l | _ => [] end.
Definition op_name (o : bop) : option N := match o with OName n => Some n | _ => None end.
Definition op_class (o : bop) : option N := match o with OClass c => Some c | _ => None end.
Definition op_ref (o : bop) : option ref := match o with OReferent r => Some r | _ => None end.

Definition b_ref (b : btree) : ref := match b with BNode r _ _ _ _ => r end.
Definition b_name (b : btree) : N := match b with BNode _ n _ _ _ => n end.
Definition b_class (b : btree) : N := match b with BNode _ _ c _ _ => c end.
Definition b_props (b : btree) : list (N * pval) := match b with BNode _ _ _ ps _ => ps end.
Definition b_kids (b : btree) : list btree := match b with BNode _ _ _ _ ks => ks end.

(* the last Some in a list of options, else the default *)
Fixpoint last_some {A} (l : list (option A)) (d : A) : A :=
  match l with [] => d | Some a :: t => last_some t a | None :: t => last_some t d end.

(* InstanceBuilder::has_property *)
Definition b_has_property (b : btree) (k : N) : bool := existsb (fun kv => N.eqb (fst kv) k) (b_props b).
