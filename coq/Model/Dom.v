(* Dom.v — concrete, pointer-style model of rbx_dom_weak::WeakDom (dom.rs, instance.rs).
   Every function mirrors the control structure of the Rust function named beside it:
   queue loops stay queue loops (with explicit fuel), every unwrap/expect/panic! is [Panic].
   Definitions only; proofs are in Proofs/. *)
From RbxVerif Require Export Base.

Definition ref := N.
Definition rnone : ref := 0.          (* Ref::none() *)

(* Property values as far as the DOM layer can tell them apart: Variant::Ref, Variant::UniqueId,
   anything else (an opaque payload). *)
Inductive pval := PRef (r : ref) | PUid (u : N) | POther (v : N).
Definition props := map pval.          (* UstrMap<Variant>; key = interned property name *)
Definition UIDKEY : N := 0.            (* ustr("UniqueId") *)

Record inst := mkInst {
  i_parent : ref; i_children : list ref; i_name : N; i_class : N; i_props : props }.

(* InstanceBuilder: referent, name, class, Vec<(Ustr, Variant)>, children *)
Inductive btree := BNode (r : ref) (name cls : N) (ps : list (N * pval)) (kids : list btree).

Record dom := mkDom { d_insts : map inst; d_root : ref; d_uids : list N }.

(* builder.properties.into_iter().collect(): later entries overwrite earlier ones *)
Definition props_of_list (l : list (N * pval)) : props :=
  fold_left (fun m kv => upd (fst kv) (snd kv) m) l [].

Definition get_uid (ps : props) : option N :=
  match lookup UIDKEY ps with Some (PUid u) => Some u | _ => None end.

Definition set_props (i : inst) (ps : props) : inst :=
  mkInst (i_parent i) (i_children i) (i_name i) (i_class i) ps.
Definition set_parent (i : inst) (p : ref) : inst :=
  mkInst p (i_children i) (i_name i) (i_class i) (i_props i).
Definition set_children (i : inst) (cs : list ref) : inst :=
  mkInst (i_parent i) cs (i_name i) (i_class i) (i_props i).

(* WeakDom::inner_insert.  [nu] is the next value UniqueId::now() will return. *)
Definition inner_insert (d : dom) (nu : N) (r : ref) (i : inst) : dom * N :=
  match get_uid (i_props i) with
  | Some u =>
      if mem u (d_uids d) then
        (mkDom (upd r (set_props i (upd UIDKEY (PUid nu) (i_props i))) (d_insts d))
               (d_root d) (sadd nu (d_uids d)), nu + 1)
      else
        (mkDom (upd r i (d_insts d)) (d_root d) (sadd u (d_uids d)), nu)
  | None => (mkDom (upd r i (d_insts d)) (d_root d) (d_uids d), nu)
  end.

(* WeakDom::inner_remove; None = panic "cannot remove an instance that does not exist" *)
Definition inner_remove (d : dom) (r : ref) : option (dom * inst) :=
  match lookup r (d_insts d) with
  | None => None
  | Some i =>
      let us := match get_uid (i_props i) with Some u => sremove u (d_uids d) | None => d_uids d end in
      Some (mkDom (remove r (d_insts d)) (d_root d) us, i)
  end.

(* instances.get_mut(&p).unwrap().children.push(c) *)
Definition push_child (d : dom) (p c : ref) : option dom :=
  match lookup p (d_insts d) with
  | None => None
  | Some pi => Some (mkDom (upd p (set_children pi (i_children pi ++ [c])) (d_insts d)) (d_root d) (d_uids d))
  end.

(* parent.children.retain(|&child| child != referent) *)
Definition retain_ne (c : ref) (l : list ref) : list ref := filter (fun x => negb (N.eqb x c)) l.
Definition unlink_child (d : dom) (p c : ref) : option dom :=
  match lookup p (d_insts d) with
  | None => None
  | Some pi => Some (mkDom (upd p (set_children pi (retain_ne c (i_children pi))) (d_insts d)) (d_root d) (d_uids d))
  end.

(* the nested fn insert(dom, builder, parent, queue) of WeakDom::insert, for one builder node *)
Definition insert_one (d : dom) (nu : N) (p : ref) (b : btree) : res (dom * N) :=
  match b with
  | BNode r n c ps _ =>
      let '(d1, nu1) := inner_insert d nu r (mkInst p [] n c (props_of_list ps)) in
      if N.eqb p rnone then Ok (d1, nu1)
      else match push_child d1 p r with
           | None => Panic                  (* "cannot insert into parent that does not exist" *)
           | Some d2 => Ok (d2, nu1)
           end
  end.

Definition bkids (b : btree) : list btree := match b with BNode _ _ _ _ k => k end.
Definition broot (b : btree) : ref := match b with BNode r _ _ _ _ => r end.

(* while let Some((parent, builder)) = queue.pop_front() { insert(self, builder, parent, Some(&mut queue)) } *)
Fixpoint insert_loop (fuel : nat) (d : dom) (nu : N) (q : list (ref * btree)) : res (dom * N) :=
  match q with
  | [] => Ok (d, nu)
  | (p, b) :: q' =>
      match fuel with
      | O => OutOfFuel
      | S f =>
          '(d1, nu1) <- insert_one d nu p b ;;
          insert_loop f d1 nu1 (q' ++ List.map (fun k => (broot b, k)) (bkids b))
      end
  end.

Fixpoint bsize (b : btree) : nat :=
  match b with BNode _ _ _ _ kids => S (fold_right (fun k acc => bsize k + acc)%nat O kids) end.

(* WeakDom::insert (fast path for childless builders, queue otherwise) *)
Definition dom_insert (d : dom) (nu : N) (p : ref) (b : btree) : res (dom * N * ref) :=
  match bkids b with
  | [] => '(d1, nu1) <- insert_one d nu p b ;; Ok (d1, nu1, broot b)
  | _ => '(d1, nu1) <- insert_loop (bsize b) d nu [(p, b)] ;; Ok (d1, nu1, broot b)
  end.

(* WeakDom::new *)
Definition dom_new (nu : N) (b : btree) : res (dom * N) :=
  '(d, nu1, _) <- dom_insert (mkDom [] (broot b) []) nu rnone b ;; Ok (d, nu1).

(* the BFS removal loop of destroy *)
Fixpoint remove_loop (fuel : nat) (d : dom) (q : list ref) : res dom :=
  match q with
  | [] => Ok d
  | r :: q' =>
      match fuel with
      | O => OutOfFuel
      | S f =>
          match inner_remove d r with
          | None => Panic
          | Some (d1, i) => remove_loop f d1 (q' ++ i_children i)
          end
      end
  end.

Definition dom_size (d : dom) : nat := length (d_insts d).

(* WeakDom::destroy *)
Definition dom_destroy (d : dom) (r : ref) : res dom :=
  if N.eqb r (d_root d) then Panic else
  match lookup r (d_insts d) with
  | None => Panic
  | Some i =>
      let p := i_parent i in
      d1 <- (if N.eqb p rnone then Ok d else of_opt (unlink_child d p r)) ;;
      remove_loop (S (dom_size d)) d1 [r]
  end.

(* the ancestor walk of transfer_within: Ok true = [r] is [cur] or an ancestor of it *)
Fixpoint anc_loop (fuel : nat) (d : dom) (cur r : ref) : res bool :=
  if N.eqb cur rnone then Ok false else
  if N.eqb cur r then Ok true else
  match fuel with
  | O => OutOfFuel
  | S f => match lookup cur (d_insts d) with
           | Some i => anc_loop f d (i_parent i) r
           | None => Ok false
           end
  end.

(* WeakDom::transfer_within *)
Definition dom_transfer_within (d : dom) (r dest : ref) : res dom :=
  if N.eqb r (d_root d) then Panic else
  cyc <- anc_loop (S (dom_size d)) d dest r ;;
  if (cyc : bool) then Panic else
  match lookup r (d_insts d) with
  | None => Panic
  | Some i =>
      let p := i_parent i in
      let d0 := mkDom (upd r (set_parent i dest) (d_insts d)) (d_root d) (d_uids d) in
      d1 <- (if N.eqb p rnone then Ok d0 else of_opt (unlink_child d0 p r)) ;;
      of_opt (push_child d1 dest r)
  end.

(* the BFS move loop of transfer *)
Fixpoint move_loop (fuel : nat) (src dst : dom) (nu : N) (q : list ref) : res (dom * dom * N) :=
  match q with
  | [] => Ok (src, dst, nu)
  | r :: q' =>
      match fuel with
      | O => OutOfFuel
      | S f =>
          match inner_remove src r with
          | None => Panic
          | Some (src1, i) =>
              let '(dst1, nu1) := inner_insert dst nu r i in
              move_loop f src1 dst1 nu1 (q' ++ i_children i)
          end
      end
  end.

(* WeakDom::transfer *)
Definition dom_transfer (src dst : dom) (nu : N) (r dest : ref) : res (dom * dom * N) :=
  if N.eqb r (d_root src) then Panic else
  if negb (has dest (d_insts dst)) then Panic else      (* the new parent must exist in dest before anything moves (/repo 2a3a8420) *)
  match inner_remove src r with
  | None => Panic
  | Some (src1, i) =>
      let p := i_parent i in
      src2 <- (if N.eqb p rnone then Ok src1 else of_opt (unlink_child src1 p r)) ;;
      let '(dst1, nu1) := inner_insert dst nu r (set_parent i dest) in
      '(src3, dst2, nu2) <- move_loop (dom_size src) src2 dst1 nu1 (i_children i) ;;
      dst3 <- of_opt (push_child dst2 dest r) ;;
      Ok (src3, dst3, nu2)
  end.

(* WeakDomDescendants: pop_front().and_then(get_by_ref)? ; queue.extend(children) *)
Fixpoint desc_loop (fuel : nat) (d : dom) (q : list ref) : res (list ref) :=
  match q with
  | [] => Ok []
  | r :: q' =>
      match fuel with
      | O => OutOfFuel
      | S f =>
          match lookup r (d_insts d) with
          | None => Ok []                       (* the `?` ends the iteration *)
          | Some i => rest <- desc_loop f d (q' ++ i_children i) ;; Ok (r :: rest)
          end
      end
  end.
Definition dom_descendants_of (d : dom) (r : ref) : res (list ref) :=
  if has r (d_insts d) then desc_loop (S (dom_size d)) d [r] else Panic.

(* ---- cloning ---- *)
Record cctx := mkCtx { c_queue : list (ref * ref); c_rewrites : map ref }.
Definition ctx0 := mkCtx [] [].

(* CloneContext::clone_ref_as_builder; [nr] = the value Ref::new() returns next *)
Definition clone_ref_as_builder (c : cctx) (src : dom) (nr : N) (orig : ref) : option (cctx * btree * N) :=
  match lookup orig (d_insts src) with
  | None => None
  | Some i =>
      let b := BNode nr (i_name i) (i_class i) (i_props i) [] in
      Some (mkCtx (c_queue c ++ List.map (fun ch => (nr, ch)) (i_children i))
                  (upd orig nr (c_rewrites c)), b, nr + 1)
  end.

Definition prop_refs_in (dst : dom) (ps : props) : list ref :=
  fold_right (fun kv acc => match snd kv with
                            | PRef v => if has v (d_insts dst) then v :: acc else acc
                            | _ => acc end) [] ps.

Definition rewrite_val (rw : map ref) (existing : list ref) (v : pval) : pval :=
  match v with
  | PRef o => match lookup o rw with
              | Some n => PRef n
              | None => if mem o existing then PRef o else PRef rnone
              end
  | _ => v
  end.

(* CloneContext::rewrite_refs; iteration over ref_rewrites in the list order of the map *)
Fixpoint rr_collect (dst : dom) (news : list ref) : option (list ref) :=
  match news with
  | [] => Some []
  | n :: rest =>
      match lookup n (d_insts dst), rr_collect dst rest with
      | Some i, Some acc => Some (prop_refs_in dst (i_props i) ++ acc)
      | _, _ => None
      end
  end.
Fixpoint rr_apply (dst : dom) (rw : map ref) (existing : list ref) (news : list ref) : option dom :=
  match news with
  | [] => Some dst
  | n :: rest =>
      match lookup n (d_insts dst) with
      | None => None
      | Some i =>
          let ps := List.map (fun kv => (fst kv, rewrite_val rw existing (snd kv))) (i_props i) in
          rr_apply (mkDom (upd n (set_props i ps) (d_insts dst)) (d_root dst) (d_uids dst)) rw existing rest
      end
  end.
Definition rewrite_refs (c : cctx) (dst : dom) : res dom :=
  let news := List.map snd (c_rewrites c) in
  match rr_collect dst news with
  | None => Panic
  | Some existing => of_opt (rr_apply dst (c_rewrites c) existing news)
  end.

(* while let Some((cloned_parent, uncloned_child)) = ctx.queue.pop_front() {...}.
   [src = None] means clone_within: the source is the destination as it currently is. *)
Fixpoint clone_loop (fuel : nat) (src : option dom) (dst : dom) (c : cctx) (nu nr : N)
  : res (dom * cctx * N * N) :=
  match c_queue c with
  | [] => Ok (dst, c, nu, nr)
  | (cp, uc) :: q' =>
      match fuel with
      | O => OutOfFuel
      | S f =>
          let s := match src with Some s => s | None => dst end in
          match clone_ref_as_builder (mkCtx q' (c_rewrites c)) s nr uc with
          | None => Panic
          | Some (c1, b, nr1) =>
              '(dst1, nu1, _) <- dom_insert dst nu cp b ;;
              clone_loop f src dst1 c1 nu1 nr1
          end
      end
  end.

(* roots of clone_multiple_into_external (one root for the other two entry points) *)
Fixpoint clone_roots (src : option dom) (dst : dom) (c : cctx) (nu nr : N) (rs : list ref)
  : res (dom * cctx * N * N * list ref) :=
  match rs with
  | [] => Ok (dst, c, nu, nr, [])
  | r :: rest =>
      let s := match src with Some s => s | None => dst end in
      match clone_ref_as_builder c s nr r with
      | None => Panic
      | Some (c1, b, nr1) =>
          '(dst1, nu1, root) <- dom_insert dst nu rnone b ;;
          '(dst2, c2, nu2, nr2, roots) <- clone_roots src dst1 c1 nu1 nr1 rest ;;
          Ok (dst2, c2, nu2, nr2, root :: roots)
      end
  end.

Definition dom_clone (src : option dom) (dst : dom) (nu nr : N) (rs : list ref)
  : res (dom * N * N * list ref) :=
  let s := match src with Some s => s | None => dst end in
  '(dst1, c1, nu1, nr1, roots) <- clone_roots src dst ctx0 nu nr rs ;;
  '(dst2, c2, nu2, nr2) <- clone_loop (S (length rs * dom_size s)) src dst1 c1 nu1 nr1 ;;
  dst3 <- rewrite_refs c2 dst2 ;;
  Ok (dst3, nu2, nr2, roots).

(* ---- worlds and operations (several DOMs, one allocator state) ---- *)
Record world := mkWorld { w_doms : list dom; w_nu : N; w_nr : N }.

Inductive op :=
| ONew (b : btree)
| OInsert (d : nat) (p : ref) (b : btree)
| ODestroy (d : nat) (r : ref)
| OMoveWithin (d : nat) (r dest : ref)
| OMove (d : nat) (r : ref) (d2 : nat) (dest : ref)
| OCloneWithin (d : nat) (r : ref)
| OCloneExt (d : nat) (r : ref) (d2 : nat)
| OCloneMulti (d : nat) (rs : list ref) (d2 : nat).

Definition get_dom (w : world) (k : nat) : res dom := of_opt (nth_opt k (w_doms w)).
Definition put_dom (w : world) (k : nat) (d : dom) : list dom := set_nth k d (w_doms w).

(* returns the new world and the referents the call returned *)
Definition step (w : world) (o : op) : res (world * list ref) :=
  match o with
  | ONew b =>
      '(d, nu) <- dom_new (w_nu w) b ;;
      Ok (mkWorld (w_doms w ++ [d]) nu (w_nr w), [])
  | OInsert k p b =>
      d <- get_dom w k ;;
      '(d1, nu, r) <- dom_insert d (w_nu w) p b ;;
      Ok (mkWorld (put_dom w k d1) nu (w_nr w), [r])
  | ODestroy k r =>
      d <- get_dom w k ;;
      d1 <- dom_destroy d r ;;
      Ok (mkWorld (put_dom w k d1) (w_nu w) (w_nr w), [])
  | OMoveWithin k r dest =>
      d <- get_dom w k ;;
      d1 <- dom_transfer_within d r dest ;;
      Ok (mkWorld (put_dom w k d1) (w_nu w) (w_nr w), [])
  | OMove k r k2 dest =>
      if Nat.eqb k k2 then Panic else
      s <- get_dom w k ;;
      t <- get_dom w k2 ;;
      '(s1, t1, nu) <- dom_transfer s t (w_nu w) r dest ;;
      Ok (mkWorld (set_nth k2 t1 (set_nth k s1 (w_doms w))) nu (w_nr w), [])
  | OCloneWithin k r =>
      d <- get_dom w k ;;
      '(d1, nu, nr, roots) <- dom_clone None d (w_nu w) (w_nr w) [r] ;;
      Ok (mkWorld (put_dom w k d1) nu nr, roots)
  | OCloneExt k r k2 =>
      if Nat.eqb k k2 then Panic else
      s <- get_dom w k ;;
      t <- get_dom w k2 ;;
      '(t1, nu, nr, roots) <- dom_clone (Some s) t (w_nu w) (w_nr w) [r] ;;
      Ok (mkWorld (put_dom w k2 t1) nu nr, roots)
  | OCloneMulti k rs k2 =>
      if Nat.eqb k k2 then Panic else
      s <- get_dom w k ;;
      t <- get_dom w k2 ;;
      '(t1, nu, nr, roots) <- dom_clone (Some s) t (w_nu w) (w_nr w) rs ;;
      Ok (mkWorld (put_dom w k2 t1) nu nr, roots)
  end.

Definition UID_BASE : N := 1000000.     (* labels of UniqueId::now() results, in generation order *)
Definition REF_BASE : N := 1000000.     (* labels of Ref::new() results made by clones *)
Definition world0 : world := mkWorld [] UID_BASE REF_BASE.

Fixpoint run (w : world) (ops : list op) : res world :=
  match ops with
  | [] => Ok w
  | o :: rest => '(w1, _) <- step w o ;; run w1 rest
  end.
