(* XmlFile.v — layer L7/L8: rbx_xml/src/serializer.rs ([xml_encode] = encode_internal) and
   rbx_xml/src/deserializer.rs ([xml_decode] = decode_internal) above the event abstraction.
   Function by function; the Rust name is given beside each definition.  The recursion of
   serialize_instance / deserialize_instance per nesting level is recursion on explicit fuel
   (number of instances + 1, resp. 2 * number of events + 4).
   The model follows /repo's working tree.  The per-property steps ([serialize_property], [deserialize_property]) are
   parameters of the recursions above them ([.._with]), so that the code BEFORE a repair stays available under `_pinned`
   names for the refutation witnesses of Proofs/XmlFileFacts.v:
     62703803  serializer: a migrated legacy element is skipped when the instance carries the new property itself
     9d6f480a  deserializer: `Name` is read regardless of the descriptor lookup when the lookup finds no descriptor
     8e3b6855  deserializer: the rewrites queued by an ignored (IgnoreUnknown) property are dropped
   Definitions only. *)
From RbxVerif Require Export Base Bytes Value Db CodecDom XmlEvents XmlValues.
Open Scope string_scope.
Open Scope list_scope.
Open Scope N_scope.

(* everything the codec reads besides its input: the reflection database, the migration tables, the
   float-text oracle and the SharedString hash (blake3, 32 bytes) of every content in the DOM *)
Record xenv := mkXE {
  xe_db : db;
  xe_font : font_table;
  xe_brick : brick_table;
  xe_o : xoracle;
  xe_hash : bytes -> option bytes
}.

Definition dtype_vt (t : dtype) : N := match t with DValue vt => vt | DEnum _ => 9 end.
Definition S_ (b : bytes) : string := string_of_bytes b.

(* =============================================================================== serializer.rs *)
Inductive ebehavior := EIgnoreUnknown | EWriteUnknown | EErrorOnUnknown | ENoReflection.

(* EmitState *)
Record estate := mkES {
  es_map : list (N * N);                 (* referent_map: Ref -> u32 *)
  es_next : N;                           (* next_referent *)
  es_shared : list (bytes * bytes)       (* shared_strings_to_emit: BTreeMap<hash, SharedString>, sorted by hash *)
}.
Definition es0 : estate := mkES [] 0 [].

(* EmitState::map_id *)
Definition map_id (st : estate) (r : N) : N * estate :=
  match lookup r (es_map st) with
  | Some v => (v, st)
  | None => (es_next st, mkES ((r, es_next st) :: es_map st) (es_next st + 1) (es_shared st))
  end.

(* BTreeMap::insert keyed by hash bytes *)
Fixpoint shared_insert (h c : bytes) (m : list (bytes * bytes)) : list (bytes * bytes) :=
  match m with
  | [] => [(h, c)]
  | (h', c') :: r => if bytes_ltb h h' then (h, c) :: m
                     else if bytes_eqb h h' then (h, c) :: r
                     else (h', c') :: shared_insert h c r
  end.

Definition name_attr (pname : bytes) : attrs := [(B "name", pname)].

(* types/mod.rs write_value_xml (with referent.rs write_ref and shared_string.rs write_shared_string) *)
Definition write_value_xml (e : xenv) (st : estate) (pname : bytes) (v : value) : res (list wevent * estate) :=
  match v with
  | VRef r =>
      if r =? 0 then Ok (WStart (B "Ref") (name_attr pname) :: WChars (B "null") :: [WEnd], st)
      else let (id, st') := map_id st r in
           Ok (WStart (B "Ref") (name_attr pname) :: w_string (dec_of_N id) ++ [WEnd], st')
  | VSharedString c =>
      h <- ask (xe_hash e c) ;;
      Ok (WStart (B "SharedString") (name_attr pname) :: w_string (b64_encode (firstn 16 h)) ++ [WEnd],
          mkES (es_map st) (es_next st) (shared_insert h c (es_shared st)))
  | _ =>
      match write_xml (xe_o e) v with
      | Some (tag, r) => evs <- r ;; Ok (WStart tag (name_attr pname) :: evs ++ [WEnd], st)
      | None => Err EE_TYPE                                          (* UnsupportedPropertyType *)
      end
  end.

(* `has_explicit_new_value` (62703803): some OTHER key of instance.properties has the canonical descriptor the migration
   target has.  `new_canonical` = [newc].  The crate iterates the keys in hash order and stops at the first hit; the
   model goes through them in the order given (sorted): the two can differ only in WHICH of a hit and a panicking lookup
   is met first, and the lookups do not panic on the bundled database (Proofs/DbFacts.v). *)
Fixpoint has_other_key_for (e : xenv) (class pname : bytes) (newc : string) (keys : list bytes) : res bool :=
  match keys with
  | [] => Ok false
  | k :: r =>
      if bytes_eqb k pname then has_other_key_for e class pname newc r
      else d <- find_desc_xml (xe_db e) (S_ class) (S_ k) ;;
           match d with
           | Some (canon, _) => if String.eqb (pd_name canon) newc then Ok true else has_other_key_for e class pname newc r
           | None => has_other_key_for e class pname newc r
           end
  end.
Definition has_explicit_new_value (e : xenv) (class pname : bytes) (to : string) (keys : list bytes) : res bool :=
  d <- find_desc_xml (xe_db e) (S_ class) to ;;
  match d with
  | Some (canon, _) => has_other_key_for e class pname (pd_name canon) keys
  | None => Ok false
  end.

(* the body of the `for (property_name, value) in property_buffer.drain(..)` loop; [keys] = instance.properties.keys() *)
Definition serialize_property (e : xenv) (beh : ebehavior) (class : bytes) (keys : list bytes) (st : estate) (pname : bytes) (v : value)
  : res (list wevent * estate) :=
  desc <- match beh with
          | ENoReflection => Ok None
          | _ => find_desc_xml (xe_db e) (S_ class) (S_ pname)
          end ;;
  match desc with
  | Some (_, ser) =>
      let data_type := dtype_vt (pd_type ser) in
      conv <- match try_convert (xe_o e) v data_type with
              | Err c => if c =? DE_CONVERT then Err EE_CONVERT else Err c
              | r => r
              end ;;
      match pd_kind ser with
      | KCanon (PMigrate to op) =>
          explicit <- has_explicit_new_value e class pname to keys ;;
          if explicit then Ok ([], st)                                   (* `continue`: the explicit new value wins *)
          else
          match migrate (xe_font e) (xe_brick e) op conv with
          | Some nv => write_value_xml e st (bytes_of_string to) nv
          | None => write_value_xml e st (bytes_of_string (pd_name ser)) conv      (* the migration failed: old name, old value *)
          end
      | _ => write_value_xml e st (bytes_of_string (pd_name ser)) conv
      end
  | None =>
      match beh with
      | EIgnoreUnknown => Ok ([], st)
      | EWriteUnknown | ENoReflection => write_value_xml e st pname v
      | EErrorOnUnknown => Err EE_UNKNOWN
      end
  end.

(* the same loop body before 62703803: the migrated legacy element is always written *)
Definition serialize_property_pinned (e : xenv) (beh : ebehavior) (class : bytes) (keys : list bytes) (st : estate) (pname : bytes) (v : value)
  : res (list wevent * estate) :=
  desc <- match beh with
          | ENoReflection => Ok None
          | _ => find_desc_xml (xe_db e) (S_ class) (S_ pname)
          end ;;
  match desc with
  | Some (_, ser) =>
      let data_type := dtype_vt (pd_type ser) in
      conv <- match try_convert (xe_o e) v data_type with
              | Err c => if c =? DE_CONVERT then Err EE_CONVERT else Err c
              | r => r
              end ;;
      match pd_kind ser with
      | KCanon (PMigrate to op) =>
          match migrate (xe_font e) (xe_brick e) op conv with
          | Some nv => write_value_xml e st (bytes_of_string to) nv
          | None => write_value_xml e st (bytes_of_string (pd_name ser)) conv
          end
      | _ => write_value_xml e st (bytes_of_string (pd_name ser)) conv
      end
  | None =>
      match beh with
      | EIgnoreUnknown => Ok ([], st)
      | EWriteUnknown | ENoReflection => write_value_xml e st pname v
      | EErrorOnUnknown => Err EE_UNKNOWN
      end
  end.

Definition sprop_t := xenv -> ebehavior -> bytes -> list bytes -> estate -> bytes -> value -> res (list wevent * estate).

Fixpoint serialize_properties_with (sprop : sprop_t) (e : xenv) (beh : ebehavior) (class : bytes) (keys : list bytes) (st : estate)
  (ps : list (bytes * value)) : res (list wevent * estate) :=
  match ps with
  | [] => Ok ([], st)
  | (k, v) :: r =>
      '(ev1, st1) <- sprop e beh class keys st k v ;;
      '(ev2, st2) <- serialize_properties_with sprop e beh class keys st1 r ;;
      Ok (ev1 ++ ev2, st2)
  end.

(* serialize_instance *)
Fixpoint serialize_instance_with (sprop : sprop_t) (fuel : nat) (e : xenv) (beh : ebehavior) (d : cdom) (st : estate) (id : N)
  : res (list wevent * estate) :=
  match fuel with
  | O => OutOfFuel
  | S f =>
      match find_inst d id with
      | None => Panic                                                (* tree.get_by_ref(id).unwrap() *)
      | Some i =>
          let (mapped, st0) := map_id st id in
          '(nev, st1) <- write_value_xml e st0 (B "Name") (VString (i_name i)) ;;
          let sorted := bsort (i_props i) in
          '(pev, st2) <- serialize_properties_with sprop e beh (i_class i) (List.map fst sorted) st1 sorted ;;
          '(cev, st3) <- (fix kids (cs : list N) (s : estate) : res (list wevent * estate) :=
                            match cs with
                            | [] => Ok ([], s)
                            | c :: r =>
                                '(e1, s1) <- serialize_instance_with sprop f e beh d s c ;;
                                '(e2, s2) <- kids r s1 ;;
                                Ok (e1 ++ e2, s2)
                            end) (children_of d id) st2 ;;
          Ok (WStart (B "Item") [(B "class", i_class i); (B "referent", dec_of_N mapped)]
                :: WStart (B "Properties") [] :: nev ++ pev ++ WEnd :: cev ++ [WEnd], st3)
      end
  end.

(* serialize_shared_strings *)
Definition serialize_shared_strings (st : estate) : list wevent :=
  match es_shared st with
  | [] => []
  | m => WStart (B "SharedStrings") []
           :: flat_map (fun hc : bytes * bytes =>
                          WStart (B "SharedString") [(B "md5", b64_encode (firstn 16 (fst hc)))]
                            :: w_string (b64_encode (snd hc)) ++ [WEnd]) m
           ++ [WEnd]
  end.

(* encode_internal *)
Definition xml_encode_with (sprop : sprop_t) (e : xenv) (beh : ebehavior) (d : cdom) (roots : list N) : res (list wevent) :=
  '(body, st) <- (fix go (rs : list N) (s : estate) : res (list wevent * estate) :=
                    match rs with
                    | [] => Ok ([], s)
                    | r :: rest =>
                        '(e1, s1) <- serialize_instance_with sprop (S (length d)) e beh d s r ;;
                        '(e2, s2) <- go rest s1 ;;
                        Ok (e1 ++ e2, s2)
                    end) roots es0 ;;
  Ok (WStart (B "roblox") [(B "version", B "4")] :: body ++ serialize_shared_strings st ++ [WEnd]).

Definition serialize_properties := serialize_properties_with serialize_property.
Definition serialize_instance := serialize_instance_with serialize_property.
Definition xml_encode := xml_encode_with serialize_property.
Definition xml_encode_pinned := xml_encode_with serialize_property_pinned.       (* before 62703803 *)

(* =============================================================================== deserializer.rs *)
Inductive dbehavior := DIgnoreUnknown | DReadUnknown | DErrorOnUnknown | DNoReflection.

(* ParseState (metadata and unknown_type_names are write-only and not kept) *)
Record dstate := mkDS {
  ds_nodes : cdom;                               (* the tree, in creation order *)
  ds_next : N;                                   (* label of the next instance *)
  ds_refs : list (bytes * N);                    (* referents_to_ids *)
  ds_rewrites : list (N * bytes * bytes);        (* referent_rewrites, oldest first: (instance, property, referent) *)
  ds_shared : list (bytes * bytes);              (* known_shared_strings: md5 attribute -> content *)
  ds_srewrites : list (N * bytes * bytes)        (* shared_string_rewrites, oldest first *)
}.
Definition ds0 : dstate := mkDS [] 1 [] [] [] [].

Fixpoint attr_last (k : bytes) (a : attrs) (acc : option bytes) : option bytes :=
  match a with
  | [] => acc
  | (n, v) :: r => attr_last k r (if bytes_eqb n k then Some v else acc)
  end.
Definition attr_first (k : bytes) (a : attrs) : option bytes := bfind k a.

Definition set_node (d : cdom) (label : N) (name : bytes) (props : list (bytes * value)) : cdom :=
  List.map (fun i => if i_ref i =? label then mkInst (i_ref i) (i_parent i) (i_class i) name props else i) d.
Definition set_prop (d : cdom) (label : N) (k : bytes) (v : value) : cdom :=
  List.map (fun i => if i_ref i =? label then mkInst (i_ref i) (i_parent i) (i_class i) (i_name i) (bupd k v (i_props i)) else i) d.

(* read_value_xml with the ParseState side effects; None = Ok(None) (unknown type name, element skipped) *)
Definition read_prop_value (e : xenv) (st : dstate) (ty : bytes) (inst_id : N) (pname : bytes)
  : xrd (option value * dstate) :=
  rvl <~ read_value_xml (xe_o e) ty ;;
  match rvl with
  | RVal v => xret (Some v, st)
  | RRefNull => xret (Some (VRef 0), st)
  | RRef r => xret (Some (VRef 0), mkDS (ds_nodes st) (ds_next st) (ds_refs st) (ds_rewrites st ++ [(inst_id, pname, r)])
                                         (ds_shared st) (ds_srewrites st))
  | RShared h => xret (Some (VBinaryString []), mkDS (ds_nodes st) (ds_next st) (ds_refs st) (ds_rewrites st)
                                                     (ds_shared st) (ds_srewrites st ++ [(inst_id, pname, h)]))
  | RUnknownType => xret (None, st)
  end.

(* the rewrites queued by one read are dropped again (Vec::truncate to the lengths taken before the read) *)
Definition drop_queued (before after : dstate) : dstate :=
  mkDS (ds_nodes after) (ds_next after) (ds_refs after) (firstn (length (ds_rewrites before)) (ds_rewrites after))
       (ds_shared after) (firstn (length (ds_srewrites before)) (ds_srewrites after)).

(* one iteration of the loop of deserialize_properties after the peek found a start element *)
Definition deserialize_property (e : xenv) (beh : dbehavior) (class : bytes) (inst_id : N) (ty pname : bytes)
  (st : dstate) (props : list (bytes * value)) : xrd (dstate * list (bytes * value)) :=
  (* `name_of_undescribed_class` (9d6f480a): xml_property_name == "Name" && use_reflection() && the lookup is None *)
  undescribed <~ xlift (if bytes_eqb pname (B "Name") then
                          match beh with
                          | DNoReflection => Ok false
                          | _ => d <- find_desc_xml (xe_db e) (S_ class) (S_ pname) ;;
                                 Ok (match d with None => true | Some _ => false end)
                          end
                        else Ok false) ;;
  if undescribed : bool then
    '(ov, st1) <~ read_prop_value e st ty inst_id (B "Name") ;;
    match ov with
    | None => xret (st1, props)
    | Some v => xret (st1, bupd (B "Name") v props)
    end
  else
  desc <~ xlift (match beh with
                 | DNoReflection => Ok None
                 | _ => find_desc_xml (xe_db e) (S_ class) (S_ pname)
                 end) ;;
  match desc with
  | Some (canon, _) =>
      let cname := bytes_of_string (pd_name canon) in
      '(ov, st1) <~ read_prop_value e st ty inst_id cname ;;
      match ov with
      | None => xret (st1, props)                                   (* `None => continue` *)
      | Some v =>
          conv <~ xlift (try_convert (xe_o e) v (dtype_vt (pd_type canon))) ;;
          match pd_kind canon with
          | KCanon (PMigrate to op) =>
              let newname := bytes_of_string to in
              match bfind newname props with
              | Some _ => xret (st1, props)                         (* Entry::Occupied: the value read is dropped *)
              | None =>
                  match migrate (xe_font e) (xe_brick e) op conv with
                  | Some nv => xret (st1, bupd newname nv props)
                  | None => xfail DE_MIGRATION
                  end
              end
          | _ => xret (st1, bupd cname conv props)
          end
      end
  | None =>
      match beh with
      | DIgnoreUnknown =>
          (* read and thrown away, together with whatever the read queued (8e3b6855) *)
          '(_, st1) <~ read_prop_value e st ty inst_id pname ;; xret (drop_queued st st1, props)
      | DReadUnknown | DNoReflection =>
          '(ov, st1) <~ read_prop_value e st ty inst_id pname ;;
          match ov with
          | None => xret (st1, props)
          | Some v => xret (st1, bupd pname v props)
          end
      | DErrorOnUnknown => xfail DE_UNKNOWN
      end
  end.

(* the same iteration before 9d6f480a and 8e3b6855: `Name` goes through the lookup like any other property, and the
   rewrites an ignored Ref / SharedString queued stay queued *)
Definition deserialize_property_pinned (e : xenv) (beh : dbehavior) (class : bytes) (inst_id : N) (ty pname : bytes)
  (st : dstate) (props : list (bytes * value)) : xrd (dstate * list (bytes * value)) :=
  desc <~ xlift (match beh with
                 | DNoReflection => Ok None
                 | _ => find_desc_xml (xe_db e) (S_ class) (S_ pname)
                 end) ;;
  match desc with
  | Some (canon, _) =>
      let cname := bytes_of_string (pd_name canon) in
      '(ov, st1) <~ read_prop_value e st ty inst_id cname ;;
      match ov with
      | None => xret (st1, props)
      | Some v =>
          conv <~ xlift (try_convert (xe_o e) v (dtype_vt (pd_type canon))) ;;
          match pd_kind canon with
          | KCanon (PMigrate to op) =>
              let newname := bytes_of_string to in
              match bfind newname props with
              | Some _ => xret (st1, props)
              | None =>
                  match migrate (xe_font e) (xe_brick e) op conv with
                  | Some nv => xret (st1, bupd newname nv props)
                  | None => xfail DE_MIGRATION
                  end
              end
          | _ => xret (st1, bupd cname conv props)
          end
      end
  | None =>
      match beh with
      | DIgnoreUnknown => '(_, st1) <~ read_prop_value e st ty inst_id pname ;; xret (st1, props)
      | DReadUnknown | DNoReflection =>
          '(ov, st1) <~ read_prop_value e st ty inst_id pname ;;
          match ov with
          | None => xret (st1, props)
          | Some v => xret (st1, bupd pname v props)
          end
      | DErrorOnUnknown => xfail DE_UNKNOWN
      end
  end.

Definition dprop_t := xenv -> dbehavior -> bytes -> N -> bytes -> bytes -> dstate -> list (bytes * value) -> xrd (dstate * list (bytes * value)).

(* deserialize_properties *)
Fixpoint deserialize_properties_loop_with (dprop : dprop_t) (fuel : nat) (e : xenv) (beh : dbehavior) (class : bytes) (inst_id : N)
  (st : dstate) (props : list (bytes * value)) : xrd (dstate * list (bytes * value)) :=
  match fuel with
  | O => fun _ => OutOfFuel
  | S f =>
      ev <~ x_peek ;;
      match ev with
      | RStart ty a =>
          match attr_first (B "name") a with
          | None => xfail DE_ATTR
          | Some pname =>
              '(st1, props1) <~ dprop e beh class inst_id ty pname st props ;;
              deserialize_properties_loop_with dprop f e beh class inst_id st1 props1
          end
      | REnd n => _ <~ x_next ;; if bytes_eqb n (B "Properties") then xret (st, props) else xfail DE_EVENT
      | _ => _ <~ x_next ;; xfail DE_EVENT
      end
  end.
Definition deserialize_properties_with (dprop : dprop_t) (e : xenv) (beh : dbehavior) (class : bytes) (inst_id : N)
  (st : dstate) (props : list (bytes * value)) : xrd (dstate * list (bytes * value)) :=
  fun evs => (_ <~ x_expect_start (B "Properties") ;;
              deserialize_properties_loop_with dprop (S (length evs)) e beh class inst_id st props) evs.

(* deserialize_instance and its loop *)
Fixpoint deserialize_instance_with (dprop : dprop_t) (fuel : nat) (e : xenv) (beh : dbehavior) (parent : N) (st : dstate) : xrd dstate :=
  match fuel with
  | O => fun _ => OutOfFuel
  | S f =>
      a <~ x_expect_start (B "Item") ;;
      match attr_last (B "class") a None with
      | None => xfail DE_ATTR
      | Some class =>
          let id := ds_next st in
          (* tree.insert(parent_id, builder): the instance exists from here on, named after its class, no properties *)
          let st1 := mkDS (ds_nodes st ++ [mkInst id parent class class []]) (id + 1)
                          (match attr_last (B "referent") a None with
                           | Some r => bupd r id (ds_refs st)
                           | None => ds_refs st
                           end)
                          (ds_rewrites st) (ds_shared st) (ds_srewrites st) in
          '(st2, props) <~ instance_loop_with dprop f e beh class id st1 [] ;;
          (* instance.name = properties.remove("Name") ...; instance.properties = properties *)
          match bfind (B "Name") props with
          | Some (VString s) =>
              xret (mkDS (set_node (ds_nodes st2) id s (bremove (B "Name") props)) (ds_next st2) (ds_refs st2)
                         (ds_rewrites st2) (ds_shared st2) (ds_srewrites st2))
          | Some _ => xfail DE_NAME
          | None =>
              xret (mkDS (set_node (ds_nodes st2) id class props) (ds_next st2) (ds_refs st2)
                         (ds_rewrites st2) (ds_shared st2) (ds_srewrites st2))
          end
      end
  end
with instance_loop_with (dprop : dprop_t) (fuel : nat) (e : xenv) (beh : dbehavior) (class : bytes) (id : N) (st : dstate)
  (props : list (bytes * value)) : xrd (dstate * list (bytes * value)) :=
  match fuel with
  | O => fun _ => OutOfFuel
  | S f =>
      ev <~ x_peek ;;
      match ev with
      | RStart n _ =>
          if bytes_eqb n (B "Properties") then
            '(st1, props1) <~ deserialize_properties_with dprop e beh class id st props ;;
            instance_loop_with dprop f e beh class id st1 props1
          else if bytes_eqb n (B "Item") then
            st1 <~ deserialize_instance_with dprop f e beh id st ;;
            instance_loop_with dprop f e beh class id st1 props
          else _ <~ x_next ;; xfail DE_EVENT
      | REnd n => _ <~ x_next ;; if bytes_eqb n (B "Item") then xret (st, props) else xfail DE_EVENT
      | _ => _ <~ x_next ;; xfail DE_EVENT
      end
  end.

(* deserialize_metadata *)
Definition deserialize_metadata : xrd unit :=
  a <~ x_expect_start (B "Meta") ;;
  match attr_last (B "name") a None with
  | None => xfail DE_ATTR
  | Some _ => _ <~ x_chars ;; x_expect_end (B "Meta")
  end.

(* deserialize_shared_string *)
Definition deserialize_shared_string (st : dstate) : xrd dstate :=
  a <~ x_expect_start (B "SharedString") ;;
  match attr_first (B "md5") a with
  | None => xfail DE_ATTR
  | Some md5 =>
      buf <~ x_base64 ;;
      _ <~ x_expect_end (B "SharedString") ;;
      xret (mkDS (ds_nodes st) (ds_next st) (ds_refs st) (ds_rewrites st) (bupd md5 buf (ds_shared st)) (ds_srewrites st))
  end.

(* deserialize_shared_string_dict *)
Fixpoint shared_dict_loop (fuel : nat) (st : dstate) : xrd dstate :=
  match fuel with
  | O => fun _ => OutOfFuel
  | S f =>
      ev <~ x_peek ;;
      match ev with
      | RStart n _ =>
          if bytes_eqb n (B "SharedString") then st1 <~ deserialize_shared_string st ;; shared_dict_loop f st1
          else _ <~ x_next ;; xfail DE_EVENT
      | REnd n => if bytes_eqb n (B "SharedStrings") then xret st else _ <~ x_next ;; xfail DE_EVENT
      | _ => _ <~ x_next ;; xfail DE_EVENT
      end
  end.
Definition deserialize_shared_string_dict (st : dstate) : xrd dstate :=
  fun evs => (_ <~ x_expect_start (B "SharedStrings") ;;
              st1 <~ shared_dict_loop (S (length evs)) st ;;
              _ <~ x_expect_end (B "SharedStrings") ;; xret st1) evs.

(* the loop of deserialize_root *)
Fixpoint root_loop_with (dprop : dprop_t) (fuel : nat) (e : xenv) (beh : dbehavior) (st : dstate) : xrd dstate :=
  match fuel with
  | O => fun _ => OutOfFuel
  | S f =>
      ev <~ x_peek ;;
      match ev with
      | RStart n _ =>
          if bytes_eqb n (B "Item") then
            fun evs => (st1 <~ deserialize_instance_with dprop (2 * length evs + 4) e beh 0 st ;; root_loop_with dprop f e beh st1) evs
          else if bytes_eqb n (B "External") then _ <~ x_eat_unknown ;; root_loop_with dprop f e beh st
          else if bytes_eqb n (B "Meta") then _ <~ deserialize_metadata ;; root_loop_with dprop f e beh st
          else if bytes_eqb n (B "SharedStrings") then st1 <~ deserialize_shared_string_dict st ;; root_loop_with dprop f e beh st1
          else _ <~ x_next ;; xfail DE_EVENT
      | REnd n => _ <~ x_next ;; if bytes_eqb n (B "roblox") then xret st else xfail DE_EVENT
      | REndDoc => xret st
      | _ => _ <~ x_next ;; xfail DE_EVENT
      end
  end.

(* deserialize_root *)
Definition deserialize_root_with (dprop : dprop_t) (e : xenv) (beh : dbehavior) : xrd dstate :=
  fun evs =>
    (first <~ x_next ;;
     match first with
     | RStartDoc =>
         a <~ x_expect_start (B "roblox") ;;
         match attr_last (B "version") a None with
         | None => xfail DE_ATTR
         | Some v => if bytes_eqb v (B "4") then root_loop_with dprop (S (length evs)) e beh ds0 else xfail DE_VERSION
         end
     | _ => fun _ => Panic                                           (* unreachable!() *)
     end) evs.

(* apply_referent_rewrites / apply_shared_string_rewrites *)
Fixpoint apply_ref_rewrites (refs : list (bytes * N)) (rw : list (N * bytes * bytes)) (d : cdom) : cdom :=
  match rw with
  | [] => d
  | (id, pname, referent) :: r =>
      apply_ref_rewrites refs r (match bfind referent refs with
                                 | Some target => set_prop d id pname (VRef target)
                                 | None => d
                                 end)
  end.
Fixpoint apply_shared_rewrites (known : list (bytes * bytes)) (rw : list (N * bytes * bytes)) (d : cdom) : cdom :=
  match rw with
  | [] => d
  | (id, pname, h) :: r =>
      apply_shared_rewrites known r (match bfind h known with
                                     | Some c => set_prop d id pname (VSharedString c)
                                     | None => d
                                     end)
  end.

(* decode_internal *)
Definition xml_decode_with (dprop : dprop_t) (e : xenv) (beh : dbehavior) (evs : list revent) : res cdom :=
  match deserialize_root_with dprop e beh evs with
  | Ok (st, _) =>
      Ok (apply_shared_rewrites (ds_shared st) (ds_srewrites st)
            (apply_ref_rewrites (ds_refs st) (ds_rewrites st) (ds_nodes st)))
  | Panic => Panic
  | Err c => Err c
  | OutOfFuel => OutOfFuel
  end.

Definition deserialize_properties := deserialize_properties_with deserialize_property.
Definition deserialize_instance := deserialize_instance_with deserialize_property.
Definition deserialize_root := deserialize_root_with deserialize_property.
Definition xml_decode := xml_decode_with deserialize_property.
Definition xml_decode_pinned := xml_decode_with deserialize_property_pinned.     (* before 9d6f480a and 8e3b6855 *)
