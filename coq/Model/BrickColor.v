(* BrickColor.v — layer L1: the numbers accepted by `BrickColor::from_number` (rbx_types/src/brick_color.rs,
   third column of make_brick_color!, in source order).  The table was transcribed mechanically from
   the source; the attr correspondence re-validates it on every run against the real function for all
   65536 u16 values (case `bricksweep`).  Definitions only. *)
From RbxVerif Require Export Base.
Open Scope N_scope.

Definition brick_numbers : list N := [
  1; 2; 3; 5; 6; 9; 11; 12; 18; 21; 22; 23; 24; 25; 26; 27;
  28; 29; 36; 37; 38; 39; 40; 41; 42; 43; 44; 45; 47; 48; 49; 50;
  100; 101; 102; 103; 104; 105; 106; 107; 108; 110; 111; 112; 113; 115; 116; 118;
  119; 120; 121; 123; 124; 125; 126; 127; 128; 131; 133; 134; 135; 136; 137; 138;
  140; 141; 143; 145; 146; 147; 148; 149; 150; 151; 153; 154; 157; 158; 168; 176;
  178; 179; 180; 190; 191; 192; 193; 194; 195; 196; 198; 199; 200; 208; 209; 210;
  211; 212; 213; 216; 217; 218; 219; 220; 221; 222; 223; 224; 225; 226; 232; 268;
  301; 302; 303; 304; 305; 306; 307; 308; 309; 310; 311; 312; 313; 314; 315; 316;
  317; 318; 319; 320; 321; 322; 323; 324; 325; 327; 328; 329; 330; 331; 332; 333;
  334; 335; 336; 337; 338; 339; 340; 341; 342; 343; 344; 345; 346; 347; 348; 349;
  350; 351; 352; 353; 354; 355; 356; 357; 358; 359; 360; 361; 362; 363; 364; 365;
  1001; 1002; 1003; 1004; 1005; 1006; 1007; 1008; 1009; 1010; 1011; 1012; 1013; 1014; 1015; 1016;
  1017; 1018; 1019; 1020; 1021; 1022; 1023; 1024; 1025; 1026; 1027; 1028; 1029; 1030; 1031; 1032 ].

(* BrickColor::from_number(n).is_some() *)
Definition brick_valid (n : N) : bool := mem n brick_numbers.
