(* DbCheck.v — layer L6: the executable coherence predicate of a reflection database (property C16).
   [db_coherent d] is the conjunction of the clauses (a)-(g) below; each clause is a [forallb] of a
   per-item boolean check over the items it speaks about, and each has an [offenders_*] companion that
   lists the violating (class, property) names, so that a failing database is diagnosed by vm_compute.
   The codec tables (wire types, accepted value types, XML conversions) come from Gen/BinaryTypes.v,
   regenerated from rbx_binary / rbx_xml on every run.  Definitions only; lemmas are in Proofs/DbFacts.v.

   What the clauses are modelled on (all in /repo):
   (a) chains    find_property_descriptors (both copies) and find_default_property walk `superclass` with
                 `.expect(..)`; superclasses_iter.  A chain must reach a class without superclass within
                 [length classes] steps, which also rules out cycles.  Names are unique (the Rust maps are
                 keyed by name; a duplicate in the list model would be dead data).
   (b) aliases   `class.properties.get(alias_for).unwrap()` in the same class, and the result must be
                 Canonical (otherwise both copies log an error / return None).
   (c) targets   SerializesAs(n): `class.properties.get(n).unwrap()` in the same class, and the target is a
                 property that serializes: an alias, or a canonical property other than DoesNotSerialize.
                 Migrate(to, op): collect_type_info resolves `to` with find_property_descriptors from the
                 INSTANCE's class, so the check is made from every class that inherits the legacy property:
                 `to` must resolve to a canonical property of that name that serializes and is not itself
                 migrating; the legacy property must have the operation's input type; the operation's
                 output type must be the target's declared or serialized type and must be writable by the
                 binary arm of the target's serialized type.
   (d) enums     DataType::Enum(n): n is an enum of the database.
   (e) defaults  collect_type_info asks find_default_property(class, CANONICAL name): a default is "known"
                 iff its key resolves from its class (through the chain) to a canonical property OF THAT
                 NAME (a default keyed by an alias, a legacy or an unknown name can never be used);
                 its type must be the declared type, the serialized type, or convertible to the declared type
                 by conversion.rs (what the XML reader does); and, when the property serializes, the binary
                 writer's arm for the serialized wire type must accept it (else PropTypeMismatch as soon as
                 one instance of the class lacks the property).
   (f) wire      every serialized descriptor's type has a binary wire type (Type::from_rbx_type), else
                 UnsupportedPropType.
   Not part of [db_coherent] (the bundled database violates them; Proofs/DbFacts.v pins the offenders):
   [db_names_roundtrip]  the serialized name n of a SerializesAs property, looked up again from any class
                 that inherits it (what both readers do), leads back to the same canonical property.
   [offenders_shadow]    classes that redeclare a property name of an ancestor (a lookup then depends on the
                 subclass it starts from). *)
From RbxVerif Require Export Db.
From RbxVerif Require Import BinaryTypes.
Open Scope N_scope.

(* ---- codec tables ---- *)
Fixpoint assocN {V} (l : list (N * V)) (k : N) : option V :=
  match l with [] => None | (k', v) :: r => if N.eqb k k' then Some v else assocN r k end.
Definition VT_ENUM : N := 9.
Definition tnum (t : dtype) : N := match t with DValue n => n | DEnum _ => VT_ENUM end.
Definition wire_of (vt : N) : option N := assocN binary_wire_type vt.
Definition bin_accepts (wire vt : N) : bool :=
  match assocN binary_accepts wire with Some l => mem vt l | None => false end.
Definition xml_converts (from to : N) : bool :=
  existsb (fun p => N.eqb (fst p) from && N.eqb (snd p) to) xml_conversions.
(* can the binary writer emit a value of type vt for a property whose serialized type is st *)
Definition bin_writable (st vt : N) : bool :=
  match wire_of st with Some w => bin_accepts w vt | None => false end.

(* ---- (a) chains ---- *)
Fixpoint names_unique (l : list string) : bool :=
  match l with [] => true | x :: r => negb (existsb (String.eqb x) r) && names_unique r end.
Fixpoint chain_ok (fuel : nat) (d : db) (c : cdesc) : bool :=
  match fuel with
  | O => false
  | S f => match cd_super c with
           | None => true
           | Some sn => match get_class d sn with Some sc => chain_ok f d sc | None => false end
           end
  end.
Definition class_chain_ok (d : db) (c : cdesc) : bool := chain_ok (length (db_classes d)) d c.
Definition maps_ok (d : db) : bool :=
  names_unique (List.map cd_name (db_classes d)) &&
  names_unique (List.map ed_name (db_enums d)) &&
  forallb (fun c => names_unique (List.map pd_name (cd_props c)) && names_unique (List.map fst (cd_defaults c)))
          (db_classes d) &&
  forallb (fun e => names_unique (List.map fst (ed_items e))) (db_enums d).

(* ---- (b) aliases ---- *)
Definition alias_ok (c : cdesc) (p : pdesc) : bool :=
  match pd_kind p with
  | KAlias t => match find_prop (cd_props c) t with
                | Some q => match pd_kind q with KCanon _ => true | KAlias _ => false end
                | None => false
                end
  | KCanon _ => true
  end.

(* ---- (c) SerializesAs / Migrate targets ---- *)
Definition mig_in (op : migop) : N :=
  match op with MigInset => 2 | MigFont => 9 | MigBrick => 3 | MigContent => 8 end.
Definition mig_out (op : migop) : N :=
  match op with MigInset => 9 | MigFont => 34 | MigBrick => 6 | MigContent => 39 end.
Definition is_migrate (p : pdesc) : bool :=
  match pd_kind p with KCanon (PMigrate _ _) => true | _ => false end.
(* the local part: what `.unwrap()` needs *)
Definition seras_ok (c : cdesc) (p : pdesc) : bool :=
  match pd_kind p with
  | KCanon (PSerAs n) => match find_prop (cd_props c) n with Some _ => true | None => false end
  | _ => true
  end.
Definition seras_target_ok (c : cdesc) (p : pdesc) : bool :=
  match pd_kind p with
  | KCanon (PSerAs n) =>
      match find_prop (cd_props c) n with
      | Some q => match pd_kind q with KCanon PDoesNot => false | _ => true end
      | None => false
      end
  | _ => true
  end.
(* reading the serialized name back from class c (which declares or inherits p) yields the same canonical
   and serialized descriptors *)
Definition seras_back_ok (d : db) (c : cdesc) (p : pdesc) : bool :=
  match pd_kind p with
  | KCanon (PSerAs n) =>
      match find_desc_bin d (cd_name c) n with
      | Ok (Some (canon, Some ser)) => String.eqb (pd_name canon) (pd_name p) && String.eqb (pd_name ser) n
      | _ => false
      end
  | _ => true
  end.
Definition migrate_ok (d : db) (c : cdesc) (p : pdesc) : bool :=
  match pd_kind p with
  | KCanon (PMigrate to op) =>
      N.eqb (tnum (pd_type p)) (mig_in op) &&
      match find_desc_bin d (cd_name c) to with
      | Ok (Some (canon, Some ser)) =>
          negb (is_migrate canon) && negb (is_migrate ser) &&
          String.eqb (pd_name canon) to &&
          (N.eqb (tnum (pd_type canon)) (mig_out op) || N.eqb (tnum (pd_type ser)) (mig_out op)) &&
          bin_writable (tnum (pd_type ser)) (mig_out op)
      | _ => false
      end
  | _ => true
  end.

(* ---- (d) enums ---- *)
Definition enum_ok (d : db) (p : pdesc) : bool :=
  match pd_type p with
  | DEnum n => match find_enum (db_enums d) n with Some _ => true | None => false end
  | DValue _ => true
  end.

(* ---- (e) defaults ---- *)
Definition default_known (d : db) (c : cdesc) (kv : string * value) : bool :=
  match find_desc_bin d (cd_name c) (fst kv) with
  | Ok (Some (canon, _)) => String.eqb (pd_name canon) (fst kv)
  | _ => false
  end.
Definition default_type_ok (d : db) (c : cdesc) (kv : string * value) : bool :=
  match find_desc_bin d (cd_name c) (fst kv) with
  | Ok (Some (canon, ser)) =>
      let vt := vtype (snd kv) in
      let t := tnum (pd_type canon) in
      (N.eqb vt t || xml_converts vt t ||
       match ser with Some s => N.eqb vt (tnum (pd_type s)) | None => false end) &&
      match ser with Some s => bin_writable (tnum (pd_type s)) vt | None => true end
  | _ => true          (* not known: reported by default_known *)
  end.

(* ---- (f) wire types of serialized descriptors ---- *)
Definition wire_ok (c : cdesc) (p : pdesc) : bool :=
  match pd_kind p with
  | KCanon PSerializes | KCanon (PMigrate _ _) =>
      match wire_of (tnum (pd_type p)) with Some _ => true | None => false end
  | KCanon (PSerAs n) =>
      match find_prop (cd_props c) n with
      | Some q => match wire_of (tnum (pd_type q)) with Some _ => true | None => false end
      | None => true     (* reported by seras_ok *)
      end
  | _ => true
  end.

(* ---- shadowing along a chain (diagnostic, not a clause) ---- *)
Definition declared_above (d : db) (c : cdesc) (n : string) : bool :=
  match cd_super c with
  | None => false
  | Some sn => match get_class d sn with
               | Some sc => existsb (fun a => match find_prop (cd_props a) n with Some _ => true | None => false end)
                                    (superclasses (length (db_classes d)) d sc)
               | None => false
               end
  end.
Definition noshadow_ok (d : db) (c : cdesc) (p : pdesc) : bool := negb (declared_above d c (pd_name p)).

(* ---- the predicate ---- *)
Definition class_local_ok (c : cdesc) : bool :=
  forallb (fun p => alias_ok c p && seras_ok c p) (cd_props c).
(* the structural core: everything the lookups need in order not to panic *)
Definition db_lookup_safe (d : db) : bool :=
  forallb (fun c => class_chain_ok d c && class_local_ok c) (db_classes d).
(* the descriptors an instance of class c can meet: those of c and of its ancestors *)
Definition visible_props (d : db) (c : cdesc) : list pdesc :=
  flat_map cd_props (superclasses (length (db_classes d)) d c).
Definition class_full_ok (d : db) (c : cdesc) : bool :=
  forallb (fun p => seras_target_ok c p && enum_ok d p && wire_ok c p) (cd_props c) &&
  forallb (migrate_ok d c) (visible_props d c) &&
  forallb (fun kv => default_known d c kv && default_type_ok d c kv) (cd_defaults c).
Definition db_coherent (d : db) : bool :=
  db_lookup_safe d && maps_ok d && forallb (class_full_ok d) (db_classes d).

Definition db_names_roundtrip (d : db) : bool :=
  forallb (fun c => forallb (seras_back_ok d c) (visible_props d c)) (db_classes d).

(* ---- diagnosis: the violating (class, item) names of each clause ---- *)
Definition offenders_props (chk : cdesc -> pdesc -> bool) (d : db) : list (string * string) :=
  flat_map (fun c => List.map (fun p => (cd_name c, pd_name p)) (filter (fun p => negb (chk c p)) (cd_props c)))
           (db_classes d).
Definition offenders_defaults (chk : cdesc -> string * value -> bool) (d : db) : list (string * string) :=
  flat_map (fun c => List.map (fun kv => (cd_name c, fst kv)) (filter (fun kv => negb (chk c kv)) (cd_defaults c)))
           (db_classes d).
Definition offenders_chain (d : db) : list string :=
  List.map cd_name (filter (fun c => negb (class_chain_ok d c)) (db_classes d)).
Definition offenders_alias := offenders_props alias_ok.
Definition offenders_seras := offenders_props seras_ok.
Definition offenders_visible (chk : cdesc -> pdesc -> bool) (d : db) : list (string * string) :=
  flat_map (fun c => List.map (fun p => (cd_name c, pd_name p)) (filter (fun p => negb (chk c p)) (visible_props d c)))
           (db_classes d).
Definition offenders_seras_target := offenders_props seras_target_ok.
Definition offenders_seras_back (d : db) := offenders_visible (seras_back_ok d) d.
Definition offenders_migrate (d : db) := offenders_visible (migrate_ok d) d.
Definition offenders_enum (d : db) := offenders_props (fun _ => enum_ok d) d.
Definition offenders_wire := offenders_props wire_ok.
Definition offenders_shadow (d : db) := offenders_props (noshadow_ok d) d.
Definition offenders_default_known (d : db) := offenders_defaults (default_known d) d.
Definition offenders_default_type (d : db) := offenders_defaults (default_type_ok d) d.

(* counts, for the coverage record *)
Definition count_props (d : db) : nat := list_sum (List.map (fun c => length (cd_props c)) (db_classes d)).
Definition count_defaults (d : db) : nat := list_sum (List.map (fun c => length (cd_defaults c)) (db_classes d)).
Definition count_items (d : db) : nat := list_sum (List.map (fun e => length (ed_items e)) (db_enums d)).
