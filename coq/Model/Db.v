(* Db.v — layer L6: the reflection database (rbx_reflection::ReflectionDatabase) as data, and the
   lookups the codecs perform on it: both copies of find_property_descriptors (rbx_binary/src/core.rs
   and rbx_xml/src/core.rs), find_default_property, the superclass walk, and the property
   migrations of rbx_reflection/src/migration.rs.  The bundled database itself is regenerated into
   Gen/Database.v from what the crates load.  Definitions only. *)
From Coq Require Export String Ascii.
From RbxVerif Require Export Base Bytes Value.
Open Scope N_scope.

Definition bytes_of_string (s : string) : bytes :=
  List.map (fun a => N_of_ascii a) (list_ascii_of_string s).
Definition string_of_bytes (b : bytes) : string :=
  string_of_list_ascii (List.map ascii_of_N b).

Inductive dtype := DValue (vt : N) | DEnum (name : string).
Inductive migop := MigInset | MigFont | MigBrick | MigContent.
Inductive pser := PSerializes | PDoesNot | PSerAs (name : string) | PMigrate (to : string) (op : migop).
Inductive pkind := KCanon (s : pser) | KAlias (target : string).
Record pdesc := mkPD { pd_name : string; pd_type : dtype; pd_kind : pkind }.
Record cdesc := mkCD { cd_name : string; cd_super : option string; cd_service : bool;
                       cd_props : list pdesc; cd_defaults : list (string * value) }.
Record edesc := mkED { ed_name : string; ed_items : list (string * N) }.
Record db := mkDb { db_classes : list cdesc; db_enums : list edesc }.

Fixpoint find_class (l : list cdesc) (n : string) : option cdesc :=
  match l with [] => None | c :: r => if String.eqb (cd_name c) n then Some c else find_class r n end.
Fixpoint find_prop (l : list pdesc) (n : string) : option pdesc :=
  match l with [] => None | p :: r => if String.eqb (pd_name p) n then Some p else find_prop r n end.
Fixpoint find_assoc {V} (l : list (string * V)) (n : string) : option V :=
  match l with [] => None | (k, v) :: r => if String.eqb k n then Some v else find_assoc r n end.
Fixpoint find_enum (l : list edesc) (n : string) : option edesc :=
  match l with [] => None | e :: r => if String.eqb (ed_name e) n then Some e else find_enum r n end.

Definition get_class (d : db) (n : string) : option cdesc := find_class (db_classes d) n.

(* rbx_binary core.rs: find_serialized_from_canonical.  Panic = the `.unwrap()` on a missing target. *)
Definition ser_from_canon_bin (c : cdesc) (canon : pdesc) (s : pser) : res (option pdesc) :=
  match s with
  | PSerializes | PMigrate _ _ => Ok (Some canon)
  | PSerAs n => match find_prop (cd_props c) n with Some p => Ok (Some p) | None => Panic end
  | PDoesNot => Ok None
  end.

(* rbx_binary core.rs: find_property_descriptors.  Result: None, or (canonical, optional serialized). *)
Fixpoint find_desc_bin_loop (fuel : nat) (d : db) (c : cdesc) (pn : string)
  : res (option (pdesc * option pdesc)) :=
  match fuel with
  | O => OutOfFuel
  | S f =>
      match find_prop (cd_props c) pn with
      | Some p =>
          match pd_kind p with
          | KCanon s => ser <- ser_from_canon_bin c p s ;; Ok (Some (p, ser))
          | KAlias target =>
              match find_prop (cd_props c) target with
              | None => Panic                                     (* .unwrap() *)
              | Some canon =>
                  match pd_kind canon with
                  | KCanon s => ser <- ser_from_canon_bin c canon s ;; Ok (Some (canon, ser))
                  | KAlias _ => Ok None
                  end
              end
          end
      | None =>
          match cd_super c with
          | None => Ok None
          | Some sn => match get_class d sn with
                       | None => Panic                            (* .expect("Superclass ... didn't exist") *)
                       | Some sc => find_desc_bin_loop f d sc pn
                       end
          end
      end
  end.
Definition find_desc_bin (d : db) (cn pn : string) : res (option (pdesc * option pdesc)) :=
  match get_class d cn with
  | None => Ok None
  | Some c => find_desc_bin_loop (S (length (db_classes d))) d c pn
  end.

(* rbx_xml core.rs: find_property_descriptors.  Result: None or (canonical, serialized). *)
Definition ser_from_canon_xml (c : cdesc) (canon : pdesc) (s : pser) : res (option (pdesc * pdesc)) :=
  match s with
  | PSerializes | PMigrate _ _ => Ok (Some (canon, canon))
  | PDoesNot => Ok None
  | PSerAs n => match find_prop (cd_props c) n with Some p => Ok (Some (canon, p)) | None => Panic end
  end.
Fixpoint find_desc_xml_loop (fuel : nat) (d : db) (c : cdesc) (pn : string)
  : res (option (pdesc * pdesc)) :=
  match fuel with
  | O => OutOfFuel
  | S f =>
      match find_prop (cd_props c) pn with
      | Some p =>
          match pd_kind p with
          | KCanon s => ser_from_canon_xml c p s
          | KAlias target =>
              match find_prop (cd_props c) target with
              | None => Panic
              | Some canon =>
                  match pd_kind canon with
                  | KCanon s => ser_from_canon_xml c canon s
                  | KAlias _ => Ok None
                  end
              end
          end
      | None =>
          match cd_super c with
          | None => Ok None
          | Some sn => match get_class d sn with
                       | None => Panic
                       | Some sc => find_desc_xml_loop f d sc pn
                       end
          end
      end
  end.
Definition find_desc_xml (d : db) (cn pn : string) : res (option (pdesc * pdesc)) :=
  match get_class d cn with
  | None => Ok None
  | Some c => find_desc_xml_loop (S (length (db_classes d))) d c pn
  end.

(* ReflectionDatabase::find_default_property *)
Fixpoint find_default_loop (fuel : nat) (d : db) (c : cdesc) (pn : string) : res (option value) :=
  match fuel with
  | O => OutOfFuel
  | S f =>
      match find_assoc (cd_defaults c) pn with
      | Some v => Ok (Some v)
      | None =>
          match cd_super c with
          | None => Ok None
          | Some sn => match get_class d sn with
                       | None => Panic
                       | Some sc => find_default_loop f d sc pn
                       end
          end
      end
  end.
Definition find_default (d : db) (c : cdesc) (pn : string) : res (option value) :=
  find_default_loop (S (length (db_classes d))) d c pn.

(* superclass chain (superclasses_iter): stops silently at a missing superclass, like the Rust *)
Fixpoint superclasses (fuel : nat) (d : db) (c : cdesc) : list cdesc :=
  match fuel with
  | O => []
  | S f => c :: match cd_super c with
                | None => []
                | Some sn => match get_class d sn with Some sc => superclasses f d sc | None => [] end
                end
  end.

(* ---- migrations (PropertyMigration::perform); None = MigrationError ---- *)
Definition FW_REGULAR : N := 400.
Definition font_regular (family : string) : value :=
  VFont (mkFont (bytes_of_string family) FW_REGULAR 0 None).
Definition font_new (family : string) (weight style : N) : value :=
  VFont (mkFont (bytes_of_string family) weight style None).

(* the FontToFontFace table is regenerated from migration.rs into Gen/MigrationTables.v; the model takes
   it as a parameter: Enum value -> (family, weight, style) *)
Definition font_table := list (N * (string * N * N)).
Fixpoint font_lookup (t : font_table) (n : N) : option (string * N * N) :=
  match t with [] => None | (k, v) :: r => if N.eqb k n then Some v else font_lookup r n end.

(* BrickColor number -> Color3uint8 table (brick_color.rs), also regenerated *)
Definition brick_table := list (N * (N * N * N)).
Fixpoint brick_lookup (t : brick_table) (n : N) : option (N * N * N) :=
  match t with [] => None | (k, v) :: r => if N.eqb k n then Some v else brick_lookup r n end.

Definition migrate (ft : font_table) (bt : brick_table) (op : migop) (v : value) : option value :=
  match op, v with
  | MigInset, VBool b => Some (VEnum (if b then 1 else 2))
  | MigFont, VEnum n =>
      match font_lookup ft n with
      | Some (fam, w, s) => Some (font_new fam w s)
      | None => None
      end
  | MigBrick, VBrickColor n =>
      match brick_lookup bt n with Some (r, g, b) => Some (VColor3uint8 r g b) | None => None end
  | MigContent, VContentId u =>
      Some (VContent (match u with [] => CNone | _ => CUri u end))
  | _, _ => None
  end.
