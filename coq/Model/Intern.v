(* Intern.v — the SharedString intern table (rbx_types/src/shared_string.rs) as a transition system.
   Atomic steps are exactly the granularity of property C18: `new` is one critical section
   (lock; upgrade-or-insert; unlock); `clone` bumps the strong count; `drop` is step A
   (Arc::into_inner: strong-1; if it reached 0 the buffer dies and the dropping thread becomes the
   pending cleaner) followed later by step B (lock; clean-up; unlock).
   Buffers are nat ids; the blake3 hash of a buffer is identified with its content id (hash assumed
   injective).  Definitions only. *)
From Coq Require Import List Arith Bool.
Import ListNotations.

Record st := mkSt {
  table : nat -> option nat;      (* hash -> Weak<buf> *)
  hashof : nat -> nat;            (* content (= hash) of a buffer, fixed at allocation *)
  cnt : nat -> nat;               (* strong count; 0 = dead / unallocated *)
  pend : list nat;                (* buffers whose last handle was released, clean-up not yet run *)
  next : nat }.                   (* next fresh buffer id *)

Definition fupd {A} (f : nat -> A) (k : nat) (v : A) : nat -> A := fun x => if Nat.eqb x k then v else f x.
Definition alive (s : st) (b : nat) : bool := negb (Nat.eqb (cnt s b) 0).

Inductive op := New (h : nat) | Clone (b : nat) | DropA (b : nat) | DropB (b : nat).

Fixpoint remove1 (b : nat) (l : list nat) : list nat :=
  match l with [] => [] | x :: r => if Nat.eqb x b then r else x :: remove1 b r end.

(* the buffer SharedString::new(h) hands out in state s *)
Definition new_buf (s : st) (h : nat) : nat :=
  match table s h with
  | Some b => if alive s b then b else next s
  | None => next s
  end.

(* [fixed] selects the clean-up of Drop step B:
     false: cache.remove(&hash) unconditionally (the code as pinned)
     true : remove the slot only if its occupant is dead (the code after the fix: commit) *)
Definition step (fixed : bool) (s : st) (o : op) : option st :=
  match o with
  | New h =>
      match table s h with
      | Some b =>
          if alive s b then Some (mkSt (table s) (hashof s) (fupd (cnt s) b (S (cnt s b))) (pend s) (next s))
          else let b' := next s in
               Some (mkSt (fupd (table s) h (Some b')) (fupd (hashof s) b' h) (fupd (cnt s) b' 1) (pend s) (S b'))
      | None =>
          let b' := next s in
          Some (mkSt (fupd (table s) h (Some b')) (fupd (hashof s) b' h) (fupd (cnt s) b' 1) (pend s) (S b'))
      end
  | Clone b =>
      if alive s b then Some (mkSt (table s) (hashof s) (fupd (cnt s) b (S (cnt s b))) (pend s) (next s)) else None
  | DropA b =>
      match cnt s b with
      | 0 => None
      | 1 => Some (mkSt (table s) (hashof s) (fupd (cnt s) b 0) (b :: pend s) (next s))
      | S n => Some (mkSt (table s) (hashof s) (fupd (cnt s) b n) (pend s) (next s))
      end
  | DropB b =>
      if existsb (Nat.eqb b) (pend s) then
        let h := hashof s b in
        let t' := if fixed then
                    match table s h with
                    | Some b' => if alive s b' then table s else fupd (table s) h None
                    | None => table s
                    end
                  else fupd (table s) h None in
        Some (mkSt t' (hashof s) (cnt s) (remove1 b (pend s)) (next s))
      else None
  end.

Definition init : st := mkSt (fun _ => None) (fun _ => 0) (fun _ => 0) [] 0.

Fixpoint run (fixed : bool) (s : st) (os : list op) : option st :=
  match os with
  | [] => Some s
  | o :: r => match step fixed s o with Some s' => run fixed s' r | None => None end
  end.

(* ---- threads running programs over handle slots (what the scheduled harness executes) ---- *)
Inductive iop := INew (c slot : nat) | IClone (src dst : nat) | IDrop (slot : nat).

Record thr := mkThr { t_prog : list iop; t_slots : list (nat * nat); t_pend : option nat }.
Record tst := mkT { t_g : st; t_thrs : list thr }.

Fixpoint slot_get (k : nat) (l : list (nat * nat)) : option nat :=
  match l with [] => None | (k', b) :: r => if Nat.eqb k k' then Some b else slot_get k r end.
Fixpoint slot_del (k : nat) (l : list (nat * nat)) : list (nat * nat) :=
  match l with [] => [] | (k', b) :: r => if Nat.eqb k k' then r else (k', b) :: slot_del k r end.

(* the abstract operation thread [t] performs next, and the thread afterwards *)
Definition next_op (s : st) (t : thr) : option (op * thr) :=
  match t_pend t with
  | Some b => Some (DropB b, mkThr (t_prog t) (t_slots t) None)
  | None =>
      match t_prog t with
      | [] => None
      | INew c slot :: rest => Some (New c, mkThr rest ((slot, new_buf s c) :: t_slots t) None)
      | IClone src dst :: rest =>
          match slot_get src (t_slots t) with
          | Some b => Some (Clone b, mkThr rest ((dst, b) :: t_slots t) None)
          | None => None
          end
      | IDrop slot :: rest =>
          match slot_get slot (t_slots t) with
          | Some b => Some (DropA b, mkThr rest (slot_del slot (t_slots t))
                                         (if Nat.eqb (cnt s b) 1 then Some b else None))
          | None => None
          end
      end
  end.

Fixpoint set_nth_thr (n : nat) (t : thr) (l : list thr) : list thr :=
  match l, n with
  | [], _ => []
  | _ :: r, O => t :: r
  | x :: r, S n' => x :: set_nth_thr n' t r
  end.

(* thread [tid] takes its next atomic step; None = it has no step left (or the step is impossible) *)
Definition tstep (fixed : bool) (s : tst) (tid : nat) : option tst :=
  match nth_error (t_thrs s) tid with
  | None => None
  | Some t =>
      match next_op (t_g s) t with
      | None => None
      | Some (o, t') =>
          match step fixed (t_g s) o with
          | Some g' => Some (mkT g' (set_nth_thr tid t' (t_thrs s)))
          | None => None
          end
      end
  end.

Definition tinit (progs : list (list iop)) : tst := mkT init (List.map (fun p => mkThr p [] None) progs).

(* number of table entries (live or dead) among hashes 0..n-1 *)
Fixpoint table_len (s : st) (n : nat) : nat :=
  match n with
  | O => O
  | S k => (match table s k with Some _ => 1 | None => 0 end) + table_len s k
  end.
