(* UidGen.v — the index counter of UniqueId::now() (rbx_types/src/unique_id.rs):
   `index: INDEX.fetch_add(1, Ordering::AcqRel)` on a process-wide AtomicU32.  One call = one atomic
   step returning the old counter value and storing counter+1 (wrapping at 2^32).  A schedule is the
   sequence of thread ids in the order in which their calls take effect.  Definitions only. *)
From RbxVerif Require Export Base.
Open Scope N_scope.

Definition U32 : N := 4294967296.
Definition fetch_add (ctr : N) : N * N := (ctr, (ctr + 1) mod U32).

(* each entry of the schedule is one call by that thread; result: (thread, index obtained) in order *)
Fixpoint run_sched (sched : list nat) (ctr : N) : list (nat * N) :=
  match sched with
  | [] => []
  | t :: rest => let '(i, c') := fetch_add ctr in (t, i) :: run_sched rest c'
  end.

(* a NON-atomic counter (load; then store load+1 as a separate step), to show what the atomicity buys:
   ops are (thread, is_store); each thread remembers what it loaded *)
Fixpoint run_split (ops : list (nat * bool)) (ctr : N) (loaded : list (nat * N)) : list (nat * N) :=
  match ops with
  | [] => []
  | (t, false) :: rest => run_split rest ctr ((t, ctr) :: loaded)
  | (t, true) :: rest =>
      match List.find (fun p => Nat.eqb (fst p) t) loaded with
      | Some (_, v) => (t, v) :: run_split rest ((v + 1) mod U32) loaded
      | None => run_split rest ctr loaded
      end
  end.
