(* Base.v — shared executable definitions: outcomes, association-list maps, sets.
   Definitions only (no proofs); lemmas live in Proofs/BaseFacts.v. *)
From Coq Require Export List NArith ZArith Bool.
Export ListNotations.
Open Scope N_scope.

(* Outcome of a modelled Rust function: a value, a panic (unwrap/expect/assert/index), an
   error return, or exhaustion of the explicit fuel (never reached for the fuel the theorems state). *)
Inductive res (A : Type) : Type :=
| Ok (a : A)
| Panic
| Err (code : N)
| OutOfFuel.
Arguments Ok {A} a.
Arguments Panic {A}.
Arguments Err {A} code.
Arguments OutOfFuel {A}.

Definition rbind {A B} (r : res A) (f : A -> res B) : res B :=
  match r with Ok a => f a | Panic => Panic | Err c => Err c | OutOfFuel => OutOfFuel end.
Notation "x <- r ;; k" := (rbind r (fun x => k)) (at level 61, r at next level, right associativity).
Notation "' p <- r ;; k" := (rbind r (fun p => k)) (at level 61, p pattern, r at next level, right associativity).

Definition of_opt {A} (o : option A) : res A := match o with Some a => Ok a | None => Panic end.

(* Association-list finite maps keyed by N.  [upd] replaces, so a key occurs at most once
   after the first update; all theorems speak through [lookup] only. *)
Definition map (V : Type) := list (N * V).

Fixpoint lookup {V} (k : N) (m : map V) : option V :=
  match m with
  | [] => None
  | (k', v) :: m' => if N.eqb k k' then Some v else lookup k m'
  end.

Fixpoint remove {V} (k : N) (m : map V) : map V :=
  match m with
  | [] => []
  | (k', v) :: m' => if N.eqb k k' then remove k m' else (k', v) :: remove k m'
  end.

Definition upd {V} (k : N) (v : V) (m : map V) : map V := (k, v) :: remove k m.

Definition has {V} (k : N) (m : map V) : bool :=
  match lookup k m with Some _ => true | None => false end.

Definition keys {V} (m : map V) : list N := List.map fst m.

(* Sets of N as lists. *)
Fixpoint mem (x : N) (s : list N) : bool :=
  match s with [] => false | y :: s' => if N.eqb x y then true else mem x s' end.
Definition sadd (x : N) (s : list N) : list N := if mem x s then s else x :: s.
Fixpoint sremove (x : N) (s : list N) : list N :=
  match s with [] => [] | y :: s' => if N.eqb x y then sremove x s' else y :: sremove x s' end.

Fixpoint nth_opt {A} (n : nat) (l : list A) : option A :=
  match l, n with
  | [], _ => None
  | x :: _, O => Some x
  | _ :: l', S n' => nth_opt n' l'
  end.

Fixpoint set_nth {A} (n : nat) (a : A) (l : list A) : list A :=
  match l, n with
  | [], _ => []
  | _ :: l', O => a :: l'
  | x :: l', S n' => x :: set_nth n' a l'
  end.
