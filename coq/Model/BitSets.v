(* BitSets.v — layer L1: Faces and Axes (rbx_types/src/faces.rs, axes.rs): a u8 bit set over a fixed list of
   named flags (bitflags).  Human-readable serde form = the list of names of the contained flags in
   declaration order; deserialisation ORs the flags of the listed names (duplicates are harmless, any order)
   and rejects an unknown name; non-human-readable form = the byte, rejected when a bit outside `all()` is set
   (`from_bits`).  Definitions only; Proofs/BitSetsFacts.v. *)
From RbxVerif Require Export Base Bytes Value.
From Coq Require Import String Ascii.
Open Scope N_scope.

(* the bytes of an ASCII literal *)
Definition str_bytes (s : string) : bytes := List.map N_of_ascii (list_ascii_of_string s).

Definition flag_table := list (N * bytes).     (* (bit, name) in declaration order *)

Definition FACES : flag_table :=
  [(1, str_bytes "Right"); (2, str_bytes "Top"); (4, str_bytes "Back");
   (8, str_bytes "Left"); (16, str_bytes "Bottom"); (32, str_bytes "Front")].
Definition AXES : flag_table := [(1, str_bytes "X"); (2, str_bytes "Y"); (4, str_bytes "Z")].

(* Flags::all().bits() *)
Definition flags_all (t : flag_table) : N := fold_right (fun e a => N.lor (fst e) a) 0 t.

(* Faces::from_bits / Axes::from_bits (bitflags: `bits & !all == 0`) *)
Definition flags_from_bits (t : flag_table) (bits : N) : option N :=
  if N.ldiff bits (flags_all t) =? 0 then Some bits else None.

(* self.contains(flag) *)
Definition flags_contains (bits f : N) : bool := N.land bits f =? f.

(* Serialize, human readable: one `serialize_element(name)` per contained flag, in declaration order *)
Definition flags_names (t : flag_table) (bits : N) : list bytes :=
  List.map snd (filter (fun e => flags_contains bits (fst e)) t).

Definition ERR_FLAG_NAME : N := 10.       (* "invalid face '..'" / "invalid axis '..'" *)
Definition ERR_FLAG_BITS : N := 11.       (* "value must a u8 bitmask of faces" *)

Fixpoint flag_of_name (t : flag_table) (s : bytes) : option N :=
  match t with
  | [] => None
  | (f, n) :: r => if bytes_eqb s n then Some f else flag_of_name r s
  end.

(* HumanVisitor::visit_seq: `flags |= FLAG` per element, the first unknown name aborts *)
Fixpoint flags_of_names (t : flag_table) (acc : N) (names : list bytes) : res N :=
  match names with
  | [] => Ok acc
  | s :: r => match flag_of_name t s with
              | Some f => flags_of_names t (N.lor acc f) r
              | None => Err ERR_FLAG_NAME
              end
  end.

(* non-human-readable: serialize_u8(bits) / u8::deserialize then from_bits *)
Definition flags_to_byte (bits : N) : N := bits.
Definition flags_of_byte (t : flag_table) (b : N) : res N :=
  match flags_from_bits t b with Some x => Ok x | None => Err ERR_FLAG_BITS end.
