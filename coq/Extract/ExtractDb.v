(* Extraction of the reflection-database model (Model/Db.v) together with the regenerated database
   (Gen/Database.v) into its own, self-contained OCaml unit `dbmodel.ml`.  It is kept apart from model.ml
   because the database is 7 MB of extracted constants: ocaml/build.sh re-extracts and recompiles it only
   when Gen/Database.vo or Model/Db.vo changed.  Same rules as Extract.v: ExtrOcamlBasic only; N, positive,
   nat, ascii and string stay the extracted inductives. *)
From Coq Require Import ExtrOcamlBasic.
From RbxVerif Require Db DbOwner Database.
Extraction Language OCaml.
Set Extraction KeepSingleton.
Extraction "dbmodel.ml" Db.find_desc_bin Db.find_desc_xml Db.find_default Db.get_class DbOwner.default_obs DbOwner.chain_obs Database.database.
