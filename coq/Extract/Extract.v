(* Extraction of the executable models to OCaml.  Only ExtrOcamlBasic is used (bool, option, unit,
   prod, list, sumbool mapped to OCaml's own); there is no Extract Constant and no numeric mapping:
   N, Z, positive and nat stay the extracted inductives. *)
From Coq Require Import ExtrOcamlBasic.
From RbxVerif Require Import Base Dom Tree Intern.
From RbxVerif Require Import Attr AttrSpec.
From RbxVerif Require Import XmlEvents XmlValues XmlFile MigrationTables XmlSpec.
From RbxVerif Require Import BinFile MigrationTables.
From RbxVerif Require Import Hex BitSets Tags MaterialColors BrickColorTbl Types17.
From RbxVerif Require Import Lz4 BinSpec.
From RbxVerif Require Import SerdeTok Serde17.
Extraction Language OCaml.
Set Extraction KeepSingleton.
Extraction "model.ml" BinFile.encode_chunks BinFile.encode_file BinFile.decode_file BinFile.decode_chunks BinFile.FILE_FOOTER BinFile.CH_END BinFile.mk_inst BinFile.inst_fields BinValues.enc_col BinValues.dec_col BinValues.wire_of_id BinValues.f64_of_f32 Utf8Lossy.utf8_lossy MigrationTables.font_migration_table MigrationTables.brick_color_table
  XmlEvents.channel XmlFile.xml_encode XmlFile.xml_decode XmlSpec.tree_of_events XmlSpec.xspec_decode XmlSpec.si_name XmlSpec.refs_resolved Attr.attr_encode Attr.attr_decode Attr.norm AttrSpec.spec_encode AttrSpec.spec_decode AttrSpec.spec_norm Rotation.to_normal_id Rotation.to_basic_rotation_id Rotation.from_basic_rotation_id
  Dom.step Dom.world0 Dom.dom_descendants_of Tree.astep Tree.aworld0 Tree.aflat Tree.bfs_all Tree.ffind
  Hex.ref_display Hex.ref_from_str Hex.uid_display Hex.uid_from_str Tags.tags_encode Tags.tags_decode MaterialColors.mc_encode MaterialColors.mc_decode MaterialColors.mc_get_color BitSets.FACES BitSets.AXES BitSets.flags_from_bits BitSets.flags_names BitSets.flags_of_names BrickColorTbl.bc_from_number BrickColorTbl.bc_from_name BrickColorTbl.num_to_variant BrickColorTbl.variant_to_num Types17.material_table Types17.brick_entries Types17.font_weight_from Types17.font_weight_as Types17.font_style_from Types17.font_style_as
  BinSpec.bspec_decode_gen BinSpec.bspec_decode_chunks BinSpec.bspec_to_dom BinSpec.bspec_encode BinSpec.bspec_encode_chunks BinSpec.bs_canonical_order BinSpec.bs_wf BinSpec.bs_doc_wf BinSpec.bs_literal BinSpec.bs_amended BinSpec.p_header BinSpec.bs_deframe BinSpec.bs_inflate_all BinSpec.bs_parse_items BinSpec.bs_assemble BinSpec.cl_header_counts BinSpec.cl_unique_class_ids BinSpec.cl_unique_class_names BinSpec.cl_prop_lengths BinSpec.cl_prnt_once BinSpec.cl_prnt_children_first BinSpec.cl_sstr_distinct BinSpec.end_last BinSpec.cl_chunk_lengths BinSpec.cl_ends_with_end Lz4.lz4_decode Lz4.literal_only_block
  Intern.tstep Intern.tinit Intern.table_len
  Serde17.run_ser17 Serde17.run_de17 Serde17.serde17_samples.
