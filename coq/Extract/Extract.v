(* Extraction of the executable models to OCaml.  Only ExtrOcamlBasic is used (bool, option, unit,
   prod, list, sumbool mapped to OCaml's own); there is no Extract Constant and no numeric mapping:
   N, Z, positive and nat stay the extracted inductives. *)
From Coq Require Import ExtrOcamlBasic.
From RbxVerif Require Import Base Dom Tree Intern.
From RbxVerif Require Import Attr AttrSpec.
From RbxVerif Require Import XmlEvents.
Extraction Language OCaml.
Set Extraction KeepSingleton.
Extraction "model.ml" XmlEvents.channel Attr.attr_encode Attr.attr_decode Attr.norm AttrSpec.spec_encode AttrSpec.spec_decode AttrSpec.spec_norm Rotation.to_normal_id Rotation.to_basic_rotation_id Rotation.from_basic_rotation_id
  Dom.step Dom.world0 Dom.dom_descendants_of Tree.astep Tree.aworld0 Tree.aflat Tree.bfs_all Tree.ffind
  Intern.tstep Intern.tinit Intern.table_len.
